hdr='''(* Proofs/StepInstancesThumbReg2.v — GENERATED text (one block per encoding, same script): the remaining dp_sem members of the 16-bit
   Thumb data-processing group 010000 opc Rm Rdn end to end — LSLS, LSRS, ASRS, RORS Rdn, Rm (shift by register), MVNS Rd, Rm and
   RSBS Rd, Rn, #0 (flags = !InITBlock()) — for every halfword of the encoding, in any IT position, and every state. *)
Set Default Timeout 240.
From Coq Require Import ZArith List Bool Lia ZifyBool.
From ArmV Require Import Lib.PyZ Lib.Monad Lib.Machine Spec.Pseudocode Spec.Arch Spec.MachineView Spec.Branches Spec.StepFrame
  Spec.OperandSpec Spec.DPSem
  Proofs.SpecFacts Proofs.StateLemmas Proofs.CondProofs Proofs.GuardProofs Proofs.BankProofs Proofs.MachineOps Proofs.DPLemmas
  Proofs.DPClasses0 Proofs.DPClasses1 Proofs.DPClasses2 Proofs.DPClasses3 Proofs.DPClasses4 Proofs.DPClasses5 Proofs.DPClasses6 Proofs.DPClasses7
  Proofs.StepProofs Proofs.StepDP Proofs.DPRange Proofs.StepDPReg Proofs.StepInstances Proofs.StepInstancesCmp Proofs.StepInstancesThumbReg Proofs.OpTac
  Proofs.OpsT0 Proofs.OpsT1 Proofs.OpsT2 Proofs.OpsT3 Proofs.OpsT4 Proofs.OpsT5 Proofs.OpsT6 Proofs.OpsT7.
From Gen Require Import enums bits_ops shift regviews records hubm opsyn core exec conc decoders step.
Import ListNotations.
Open Scope Z_scope.
Ltac Zify.zify_post_hook ::= Z.to_euclidean_division_equations.
'''
def common(cls, opc, fields):
    return f'''
(* ================= {cls} ================= *)
Lemma decode_{cls} w s : 0 <= w < 2 ^ 16 -> is_dp_t16 {opc} w -> iset_of s = 1 -> opcode_len s = 16 ->
  ArmV6_decode_instruction w s = Ok (Some enc_{cls}) s.
Proof.
  intros Hw (H1 & H2) Hi Hl. dec_t16 w Hi Hl.
  assert (D : dec_thumb_instruction_set_encoding_16_bit w = Some enc_{cls}).
  {{ dec_step dec_thumb_instruction_set_encoding_16_bit. top_t16 w. ops_if.
    dec_step dec_thumb_data_processing. ops_if. reflexivity. }}
  rewrite D. reflexivity.
Qed.
Lemma from_bitarray_{cls} cfg w s : 0 <= w < 2 ^ 16 ->
  from_bitarray_dispatch cfg enc_{cls} w s = Ok (Some ({fields})) s.
Proof.
  intros Hw. pose proof (ops_{cls} w s Hw) as H. unfold fb_out, fb_plain, fb_opt, fb_res, fb_res_opt, fb_m, fb_m_opt in H.
  unfold from_bitarray_dispatch, enc_{cls}. cbv iota. unfold bind, ret, lift in *.
  repeat match goal with
  | H : match ?x with _ => _ end = _ |- context[?x] => destruct x; try discriminate H
  end.
  inversion H. first [reflexivity | match goal with E : _ = Some _ |- _ => rewrite E end; reflexivity].
Qed.
'''
def stmt(opc, lets, opx, sem):
    return f'''  ArmV6_fetch_instruction cfg s = Ok w s1 ->
  0 <= w < 2 ^ 16 -> is_dp_t16 {opc} w -> iset_of s1 = 1 -> opcode_len s1 = 16 -> ictx cfg s1 -> cond_holds s1 ->
  {lets}
  let op := {opx} in
  exists s2,
    {sem} (begin_instr s1 op) = Ok tt s2 /\\
    ArmV6_emulate_cycle cfg s = Ok tt (AdvancePC (it_step_after s1 s2)) /\\
    pc_of (AdvancePC (it_step_after s1 s2)) = add32 (pc_of s1) 2.
'''
body=''; props=''
rows=[('LslRegisterT1',2,'LslRegister','SRType_LSL'),('LsrRegisterT1',3,'LsrRegister','SRType_LSR'),
      ('AsrRegisterT1',4,'AsrRegister','SRType_ASR'),('RorRegisterT1',7,'RorRegister','SRType_ROR')]
for cls,opc,ab,srt in rows:
    low=cls[0].lower()+cls[1:]
    body+=common(cls,opc,f'code_{ab}, [w; not_in_it s; bits w 5 3; bits w 2 0; bits w 2 0]')
    st=stmt(opc,'let dn := bits w 2 0 in let m := bits w 5 3 in',f'(code_{ab}, [w; not_in_it s1; m; dn; dn])',
            f'dp_sem cfg MOV (not_in_it s1) (Some dn) 0 (Op2RegReg dn {srt} m)')
    body+=f'Theorem {low}_step cfg s w s1 :\n'+st+f'''Proof.
  intros Hf Hw Hcube Hi Hl Hctx Hcond. pose_all_ranges. intros dn m op.
  assert (Qd : 0 <= dn <= 14) by (unfold dn; lia). assert (Qn : 0 <= dn <= 15) by (unfold dn; lia). assert (Qm : 0 <= m <= 15) by (unfold m; lia).
  destruct (dp_step cfg s w s1 enc_{cls} op MOV (not_in_it s1) dn 0 (Op2RegReg dn {srt} m) Hf) as (s2 & A & B & C); try lia; try assumption.
  - apply decode_{cls}; assumption.
  - apply from_bitarray_{cls}; assumption.
  - change (execute_dispatch cfg op (begin_instr s1 op)) with ({ab}_execute cfg w (not_in_it s1) m dn dn (begin_instr s1 op)).
    apply {ab}_sem; try lia; [apply ictx_begin; exact Hctx|apply cond_holds_begin; exact Hcond].
  - cbn [op2_valid]. split; [lia|]. split; [lia|]. auto.
  - exists s2. split; [exact A|]. split; [exact B|]. rewrite C, Hl. reflexivity.
Qed.
'''
    props+=f'Theorem C01_{low}_step cfg s w s1 :\n'+st+f'Proof. exact ({low}_step cfg s w s1). Qed.\nPrint Assumptions C01_{low}_step.\n'
# MVN T1
cls='MvnRegisterT1'; low='mvnRegisterT1'
body+=common(cls,15,'code_MvnRegister, [w; not_in_it s; bits w 5 3; bits w 2 0; 1; 0]')
st=stmt(15,'let d := bits w 2 0 in let m := bits w 5 3 in','(code_MvnRegister, [w; not_in_it s1; m; d; 1; 0])',
        'dp_sem cfg MVN (not_in_it s1) (Some d) 0 (Op2Reg m SRType_LSL 0)')
body+=f'Theorem {low}_step cfg s w s1 :\n'+st+'''Proof.
  intros Hf Hw Hcube Hi Hl Hctx Hcond. pose_all_ranges. intros d m op.
  assert (Qd : 0 <= d <= 14) by (unfold d; lia). assert (Qm : 0 <= m <= 15) by (unfold m; lia).
  destruct (dp_step cfg s w s1 enc_MvnRegisterT1 op MVN (not_in_it s1) d 0 (Op2Reg m SRType_LSL 0) Hf) as (s2 & A & B & C); try lia; try assumption.
  - apply decode_MvnRegisterT1; assumption.
  - apply from_bitarray_MvnRegisterT1; assumption.
  - change (execute_dispatch cfg op (begin_instr s1 op)) with (MvnRegister_execute cfg w (not_in_it s1) m d 1 0 (begin_instr s1 op)).
    apply MvnRegister_sem; try lia; try exact valid_lsl0; [apply ictx_begin; exact Hctx|apply cond_holds_begin; exact Hcond].
  - split; [lia|exact valid_lsl0].
  - exists s2. split; [exact A|]. split; [exact B|]. rewrite C, Hl. reflexivity.
Qed.
'''
props+=f'Theorem C01_{low}_step cfg s w s1 :\n'+st+f'Proof. exact ({low}_step cfg s w s1). Qed.\nPrint Assumptions C01_{low}_step.\n'
# RSB imm T1
cls='RsbImmediateT1'; low='rsbImmediateT1'
body+=common(cls,9,'code_RsbImmediate, [w; not_in_it s; bits w 2 0; bits w 5 3; 0]')
st=stmt(9,'let d := bits w 2 0 in let n := bits w 5 3 in','(code_RsbImmediate, [w; not_in_it s1; d; n; 0])',
        'dp_sem cfg RSB (not_in_it s1) (Some d) n (Op2Imm 0 0)')
body+=f'Theorem {low}_step cfg s w s1 :\n'+st+'''Proof.
  intros Hf Hw Hcube Hi Hl Hctx Hcond. pose_all_ranges. intros d n op.
  assert (Qd : 0 <= d <= 14) by (unfold d; lia). assert (Qn : 0 <= n <= 15) by (unfold n; lia).
  assert (W0 : word 0) by (unfold word; lia).
  destruct (dp_step cfg s w s1 enc_RsbImmediateT1 op RSB (not_in_it s1) d n (Op2Imm 0 0) Hf) as (s2 & A & B & C); try lia; try assumption.
  - apply decode_RsbImmediateT1; assumption.
  - apply from_bitarray_RsbImmediateT1; assumption.
  - change (execute_dispatch cfg op (begin_instr s1 op)) with (RsbImmediate_execute cfg w (not_in_it s1) d n 0 (begin_instr s1 op)).
    apply RsbImmediate_sem; try lia; try exact W0; [apply ictx_begin; exact Hctx|apply cond_holds_begin; exact Hcond].
  - cbn [op2_valid]. split; [exact W0|lia].
  - exists s2. split; [exact A|]. split; [exact B|]. rewrite C, Hl. reflexivity.
Qed.
'''
props+=f'Theorem C01_{low}_step cfg s w s1 :\n'+st+f'Proof. exact ({low}_step cfg s w s1). Qed.\nPrint Assumptions C01_{low}_step.\n'
open('/tmp/coqdev/theories/Proofs/StepInstancesThumbReg2.v','w').write(hdr+body)
open('/tmp/opproto/t16b_props_add.txt','w').write('(* the remaining 16-bit Thumb 010000-group members: LSLS/LSRS/ASRS/RORS by register, MVNS, RSBS #0 *)\n'+props)
