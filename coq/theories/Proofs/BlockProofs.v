(* Proofs/BlockProofs.v — LDM / STM (increment after): the regenerated execute() equals the pseudocode of
   Spec/BlockTransfer.v with MemA instantiated by the emulator's mem_a_get / mem_a_set, by induction over the register loop. *)
From Coq Require Import ZArith List Bool Lia ZifyBool.
From ArmV Require Import Lib.PyZ Lib.Monad Lib.Machine Spec.Pseudocode Spec.Expected Spec.Arch
  Proofs.BitLemmas Proofs.SpecFacts Proofs.BitsOps Proofs.BitsOps2 Proofs.ShiftOps Proofs.FieldsProofs Proofs.StateLemmas
  Proofs.CondProofs Proofs.GuardProofs Proofs.BankProofs Proofs.MachineOps Proofs.DPLemmas Proofs.DPTactics Proofs.BranchProofs
  Proofs.LSProofs Proofs.ExcProofs Spec.BlockTransfer.
From Gen Require Import enums bits_ops shift regviews records hubm opsyn core exec.
Import ListNotations.
Open Scope Z_scope.
Ltac Zify.zify_post_hook ::= Z.to_euclidean_division_equations.

(* ---------- PC writes keep the representation invariant ---------- *)
Lemma ictx_with_cpsr cfg s p : ictx cfg s -> word p -> psr_M p = psr_M (cpsr_of s) -> ictx cfg (with_cpsr s p).
Proof.
  intros [[HL HC HR Hw Hm] HRw] Hp HM. split; [split|]; try assumption.
  - unfold with_cpsr. cbn [sys set_sys]. unfold setl. rewrite upd_length. exact HL.
  - rewrite cpsr_of_with_cpsr by exact HL. exact Hp.
  - unfold mode_of. rewrite cpsr_of_with_cpsr by exact HL. rewrite HM. exact Hm.
Qed.
Lemma ictx_branch_to cfg s a : ictx cfg s -> word a -> ictx cfg (branch_to s a).
Proof.
  intros [[HL HC HR Hw Hm] HRw] Ha. split; [split|]; try assumption.
  - unfold branch_to, mark_changed. cbn [changed set_R set_changed]. rewrite upd_length. exact HC.
  - unfold branch_to. cbn [R set_R]. unfold setl. rewrite upd_length. exact HR.
  - intros k Hk. unfold branch_to. cbn [R set_R]. unfold pc_index. destruct (Z.eq_dec k 33) as [->|Hne].
    + rewrite getl_setl_same by (rewrite HR; lia). exact Ha.
    + rewrite getl_setl_other by lia. apply HRw. exact Hk.
Qed.
Lemma word_clear_low a n : word a -> 1 <= n <= 2 -> word (clear_low a n).
Proof. intros Ha Hn. unfold clear_low. apply word_insert_gen; try lia; try exact Ha. Qed.
Lemma word_with_iset p i : word p -> word (with_iset p i).
Proof.
  intros Hp. unfold with_iset. pose proof (bit01 i 1). pose proof (bit01 i 0).
  apply word_insert_bit; try lia. apply word_insert_bit; try lia. exact Hp.
Qed.
Lemma psr_M_with_iset p i : word p -> psr_M (with_iset p i) = psr_M p.
Proof.
  intros Hp. unfold with_iset. pose proof (bit01 i 1). pose proof (bit01 i 0).
  assert (W : word (insert p 24 24 (bit i 1))) by (apply word_insert_bit; try lia; exact Hp).
  rewrite psr_M_insert_hi by (unfold word in W; lia). apply psr_M_insert_hi; unfold word in Hp; lia.
Qed.
Lemma ictx_apply_pc cfg s c t : ictx cfg s -> word c -> psr_M c = psr_M (cpsr_of s) -> (forall a, t = Some a -> word a) ->
  ictx cfg (apply_pc s (c, t)).
Proof.
  intros H Hc HM Ht. unfold apply_pc. cbn [fst snd]. destruct t as [a|].
  - apply ictx_branch_to; [apply ictx_with_cpsr; assumption|apply Ht; reflexivity].
  - apply ictx_with_cpsr; assumption.
Qed.
Lemma ictx_load_write_pc cfg s d : ictx cfg s -> word d ->
  ictx cfg (apply_pc s (LoadWritePC (cfg_arch_version cfg) (cpsr_of s) (cfg_jazelle_accepts_execution cfg) d)).
Proof.
  intros H Hd. pose proof (ok_cpsr _ _ (i_ok _ _ H)) as Hw.
  unfold LoadWritePC, BXWritePC, BranchWritePC, SelectInstrSet.
  repeat match goal with |- context [if ?c then _ else _] => destruct c end;
    apply ictx_apply_pc; try exact H; try exact Hw; try reflexivity; try (apply word_with_iset; exact Hw);
    try (apply psr_M_with_iset; exact Hw); intros a Ea; inversion Ea; subst; try exact Hd; try (apply word_clear_low; [exact Hd|lia]); discriminate.
Qed.

Lemma BitCountN_S n x : BitCountN (S n) x = BitCountN n x + bit x (Z.of_nat n).
Proof. reflexivity. Qed.

Section Block.
  Variable cfg : config.
  (* an invariant of the states the transfer goes through: implies the representation invariant, survives register
     writes and successful memory accesses (C13/C14 give instances: flat maps, MPU-protected maps) *)
  Variable Inv : machine -> Prop.
  Hypothesis Inv_ictx : forall s, Inv s -> ictx cfg s.
  Hypothesis Inv_rset : forall s n v, Inv s -> 0 <= n <= 14 -> word v -> Inv (rset s n v).
  Hypothesis Inv_rd : forall s a d s1, Inv s -> ArmV6_mem_a_get cfg a 4 s = Ok d s1 -> Inv s1 /\ word d.
  Hypothesis Inv_wr : forall s a v s1, Inv s -> word v -> ArmV6_mem_a_set cfg a 4 v s = Ok tt s1 -> Inv s1.

  Lemma truthy_bit_at regs i : 0 <= i -> truthy (bit_at regs i) = (bit regs i =? 1).
  Proof. intros. apply truthy_bit_at'. exact H. Qed.

  Lemma ldm_loop_code regs : forall l address s, Inv s -> (forall i, In i l -> 0 <= i <= 14) ->
    foldM (fun v_i v_address =>
             bind (if truthy (bit_at regs v_i)
                   then bind (ArmV6_mem_a_get cfg v_address 4) (fun t_4 => bind (Registers_set cfg v_i t_4) (fun _ => ret (add v_address 4 32)))
                   else ret v_address) (fun v_address => ret v_address)) l address s
    = ldm_loop (ArmV6_mem_a_get cfg) regs l address s.
  Proof.
    induction l as [|i l IH]; intros address s HI Hl; [reflexivity|].
    cbn [foldM ldm_loop]. assert (Hi : 0 <= i <= 14) by (apply Hl; left; reflexivity).
    rewrite truthy_bit_at by lia. destruct (bit regs i =? 1).
    - rewrite !bind_assoc_run. rewrite run_bind. destruct (ArmV6_mem_a_get cfg address 4 s) as [d s1|e s1] eqn:E; [|reflexivity].
      destruct (Inv_rd _ _ _ _ HI E) as [HI1 Wd]. cbn beta iota.
      rewrite !bind_assoc_run, (b_set cfg) by (try apply Inv_ictx; try exact HI1; lia).
      rewrite ?bind_assoc_run, !bind_ret_run. apply IH; [apply Inv_rset; assumption|intros j Hj; apply Hl; right; exact Hj].
    - rewrite !bind_assoc_run, !bind_ret_run. apply IH; [exact HI|intros j Hj; apply Hl; right; exact Hj].
  Qed.

  Lemma word_add32 a b : word (add32 a b).
  Proof. unfold add32, word. apply Z.mod_pos_bound. lia. Qed.
  Lemma ldm_loop_inv regs : forall l address s a1 s1, Inv s -> (forall i, In i l -> 0 <= i <= 14) -> word address ->
    ldm_loop (ArmV6_mem_a_get cfg) regs l address s = Ok a1 s1 -> Inv s1 /\ word a1.
  Proof.
    induction l as [|i l IH]; intros address s a1 s1 HI Hl Wa E; cbn [ldm_loop] in E.
    - inversion E; subst. split; assumption.
    - assert (Hi : 0 <= i <= 14) by (apply Hl; left; reflexivity).
      destruct (bit regs i =? 1).
      + destruct (ArmV6_mem_a_get cfg address 4 s) as [d s2|e s2] eqn:Er; [|discriminate].
        destruct (Inv_rd _ _ _ _ HI Er) as [HI2 Wd].
        apply (IH _ _ _ _ (Inv_rset _ _ _ HI2 Hi Wd) (fun j Hj => Hl j (or_intror Hj)) (word_add32 _ _) E).
      + apply (IH _ _ _ _ HI (fun j Hj => Hl j (or_intror Hj)) Wa E).
  Qed.
  Lemma zrange_bounds : forall n a i, In i (zrange a n) -> a <= i < a + Z.of_nat n.
  Proof. induction n as [|n IH]; intros a i H; cbn [zrange] in H; [contradiction|]. destruct H as [<-|H]; [lia|]. apply IH in H. lia. Qed.
  Lemma py_range_15 : py_range 0 15 1 = zrange 0 15.
  Proof. reflexivity. Qed.

  Theorem LdmArm_sem instr wback regs n s :
    Inv s -> cond_holds s -> iset_of s <> 3 -> 0 <= n <= 14 -> 0 <= regs < 2 ^ 16 ->
    LdmArm_execute cfg instr wback regs n s =
    LDM (ArmV6_mem_a_get cfg) (cfg_arch_version cfg) (cfg_jazelle_accepts_execution cfg) s wback regs n.
  Proof.
    intros HI Hc Hi Hn Hregs. pose proof (Inv_ictx _ HI) as H. unfold LdmArm_execute. rewrite guard_pass by exact Hc. rewrite bind_ret_tt.
    cbv zeta. rewrite try_null_check by exact Hi. rewrite (b_get cfg) by (try exact H; lia). cbv zeta.
    assert (Hr15 : forall i, In i (zrange 0 15) -> 0 <= i <= 14).
    { intros i Hin. apply zrange_bounds in Hin. change (Z.of_nat 15) with 15 in Hin. lia. }
    rewrite py_range_15. rewrite run_bind, ldm_loop_code by assumption.
    unfold LDM. assert (Wn : word (rget s n)) by (apply (word_rget cfg); [exact H|lia]).
    destruct (ldm_loop (ArmV6_mem_a_get cfg) regs (zrange 0 15) (rget s n) s) as [addr s1|e s1] eqn:EL; [|reflexivity].
    destruct (ldm_loop_inv regs _ _ _ _ _ HI Hr15 Wn EL) as [HI1 Wa].
    cbn beta iota. rewrite truthy_bit_at by lia.
    assert (Epc : forall k : unit -> M machine unit,
      bind (if bit regs 15 =? 1 then bind (ArmV6_mem_a_get cfg addr 4) (fun t_6 => bind (ArmV6_load_write_pc cfg t_6) (fun _ => ret tt)) else ret tt) k s1
      = match (if bit regs 15 =? 1 then
                 match ArmV6_mem_a_get cfg addr 4 s1 with
                 | Exc e s' => Exc e s'
                 | Ok d s2 => Ok tt (apply_pc s2 (LoadWritePC (cfg_arch_version cfg) (cpsr_of s2) (cfg_jazelle_accepts_execution cfg) d))
                 end else Ok tt s1) with Exc e s' => Exc e s' | Ok _ s3 => k tt s3 end).
    { intros k. destruct (bit regs 15 =? 1); [|reflexivity].
      rewrite bind_assoc_run, run_bind. destruct (ArmV6_mem_a_get cfg addr 4 s1) as [d s2|e s2] eqn:E2; [|reflexivity].
      destruct (Inv_rd _ _ _ _ HI1 E2) as [HI2 Wd]. pose proof (Inv_ictx _ HI2) as H2. cbn beta iota.
      rewrite bind_assoc_run, run_bind, load_write_pc_spec; [reflexivity|apply H2|apply H2|apply H2|exact Wd]. }
    rewrite Epc.
    match goal with |- match ?o with _ => _ end = _ => destruct o as [[] s3|e s3] eqn:E3 end; [|reflexivity].
    assert (H3 : ictx cfg s3).
    { destruct (bit regs 15 =? 1).
      - destruct (ArmV6_mem_a_get cfg addr 4 s1) as [d s2|e s2] eqn:E2; [|discriminate].
        destruct (Inv_rd _ _ _ _ HI1 E2) as [HI2 Wd]. inversion E3; subst. apply ictx_load_write_pc; [apply Inv_ictx; exact HI2|exact Wd].
      - inversion E3; subst. apply Inv_ictx. exact HI1. }
    clear Epc. rewrite truthy_bit_at by lia. unfold truthy. rewrite bit_count_spec by lia.
    pose proof (bit01 regs n) as Bn.
    destruct (wback =? 0) eqn:Ew; cbn [negb andb]; [reflexivity|].
    destruct (bit regs n =? 1) eqn:E1; cbn [negb].
    - replace (bit regs n =? 0) with false by lia. rewrite bind_ret_run. rewrite !bind_ret_tt, reg_set; [reflexivity|lia|apply H3|apply H3].
    - replace (bit regs n =? 0) with true by lia.
      rewrite bind_assoc_run, (b_get cfg) by (try exact H3; lia). rewrite bind_assoc_run, (b_set cfg) by (try exact H3; lia).
      rewrite !bind_ret_run. reflexivity.
  Qed.

  (* ---------- STM ---------- *)
  Lemma lowest_total x : exists l, lowest_set_bit_ref x 32 = Some l.
  Proof.
    unfold lowest_set_bit_ref. destruct (negb (truthy x)); [eexists; reflexivity|].
    change (py_range (32 - 1) (-1) (-1)) with [31;30;29;28;27;26;25;24;23;22;21;20;19;18;17;16;15;14;13;12;11;10;9;8;7;6;5;4;3;2;1;0].
    cbn [pfold_ret]. replace (x mod 2 ^ 0 =? 0) with true by (change (2 ^ 0) with 1; rewrite Z.mod_1_r; reflexivity).
    repeat (match goal with |- context [if (?a =? 0) then inl _ else inr _] => destruct (a =? 0) end; [eexists; reflexivity|]).
    eexists. reflexivity.
  Qed.

  Lemma stm_loop_code regs n wback lowest :
    forall m (k : nat) address wc s, Inv s -> (k + m <= 15)%nat -> word address ->
    foldM (fun v_i '(v_address, v_write_count) =>
             bind (if truthy (bit_at regs v_i)
                   then bind (lift (if (v_i =? n) && truthy wback
                                    then Val (negb (v_i =? lowest))
                                    else Val false))
                         (fun b_5 => bind (if b_5 : bool then bind (ArmV6_mem_a_set cfg v_address 4 0) (fun _ => ret tt)
                                           else bind (Registers_get cfg v_i) (fun t_7 => bind (ArmV6_mem_a_set cfg v_address 4 t_7) (fun _ => ret tt)))
                                          (fun _ => ret (add v_address 4 32, v_write_count + 1)))
                   else ret (v_address, v_write_count)) (fun '(v_address, v_write_count) => ret (v_address, v_write_count)))
          (zrange (Z.of_nat k) m) (address, wc) s
    = match stm_loop (ArmV6_mem_a_set cfg) regs n wback lowest (zrange (Z.of_nat k) m) address s with
      | Ok a s1 => Ok (a, wc + (BitCountN (k + m) regs - BitCountN k regs)) s1
      | Exc e s1 => Exc e s1
      end.
  Proof.
    induction m as [|m IH]; intros k address wc s HI Hk Wa.
    - cbn [zrange foldM stm_loop]. rewrite Nat.add_0_r. unfold ret. f_equal. f_equal. lia.
    - cbn [zrange foldM stm_loop]. pose proof (Inv_ictx _ HI) as H.
      rewrite truthy_bit_at by lia. replace (Z.of_nat k + 1) with (Z.of_nat (S k)) by lia.
      assert (EB : BitCountN (k + S m) regs - BitCountN k regs = bit regs (Z.of_nat k) + (BitCountN (S k + m) regs - BitCountN (S k) regs)).
      { replace (k + S m)%nat with (S k + m)%nat by lia. cbn [BitCountN]. lia. }
      pose proof (bit01 regs (Z.of_nat k)) as Bk.
      destruct (bit regs (Z.of_nat k) =? 1) eqn:Ek.
      + set (unk := (Z.of_nat k =? n) && negb (wback =? 0) && negb (Z.of_nat k =? lowest)).
        assert (Eb : (if (Z.of_nat k =? n) && truthy wback then Val (negb (Z.of_nat k =? lowest)) else Val false) = Val unk).
        { unfold unk, truthy. destruct (Z.of_nat k =? n), (negb (wback =? 0)); reflexivity. }
        rewrite Eb. unfold lift at 1. rewrite !bind_assoc_run, bind_ret_run. cbv beta.
        assert (Wv : word (if unk then 0 else rget s (Z.of_nat k))).
        { destruct unk; [unfold word; lia|apply (word_rget cfg); [exact H|lia]]. }
        assert (Ew : forall K : unit -> M machine (Z * Z),
                 bind (if unk then bind (ArmV6_mem_a_set cfg address 4 0) (fun _ => ret tt)
                       else bind (Registers_get cfg (Z.of_nat k)) (fun t_7 => bind (ArmV6_mem_a_set cfg address 4 t_7) (fun _ => ret tt))) K s
                 = bind (ArmV6_mem_a_set cfg address 4 (if unk then 0 else rget s (Z.of_nat k))) K s).
        { intros K. destruct unk; [rewrite bind_assoc_run; unfold bind, ret; destruct (ArmV6_mem_a_set cfg address 4 0 s) as [[] ?|]; reflexivity|].
          rewrite bind_assoc_run, (b_get cfg) by (try exact H; lia). rewrite bind_assoc_run. unfold bind, ret.
          destruct (ArmV6_mem_a_set cfg address 4 (rget s (Z.of_nat k)) s) as [[] ?|]; reflexivity. }
        rewrite !bind_assoc_run. rewrite Ew. rewrite run_bind.
        destruct (ArmV6_mem_a_set cfg address 4 (if unk then 0 else rget s (Z.of_nat k)) s) as [[] s1|e s1] eqn:E1; [|reflexivity].
        pose proof (Inv_wr _ _ _ _ HI Wv E1) as HI1. cbn beta iota. rewrite !bind_ret_run. cbv beta iota.
        rewrite (IH (S k)) by (try exact HI1; try lia; apply word_add32).
        unfold add, add32. destruct (stm_loop _ _ _ _ _ _ _ _) as [a s2|e s2]; [|reflexivity]. f_equal. f_equal. lia.
      + rewrite bind_assoc_run, bind_ret_run. cbv beta iota. rewrite bind_ret_run. rewrite (IH (S k)) by (try exact HI; try lia; exact Wa).
        destruct (stm_loop _ _ _ _ _ _ _ _) as [a s2|e s2]; [|reflexivity]. f_equal. f_equal. lia.
  Qed.

  Lemma stm_loop_inv regs n wback lowest : forall l address s a1 s1, Inv s -> (forall i, In i l -> 0 <= i <= 14) -> word address ->
    stm_loop (ArmV6_mem_a_set cfg) regs n wback lowest l address s = Ok a1 s1 -> Inv s1 /\ word a1.
  Proof.
    induction l as [|i l IH]; intros address s a1 s1 HI Hl Wa E; cbn [stm_loop] in E.
    - inversion E; subst. split; assumption.
    - assert (Hi : 0 <= i <= 14) by (apply Hl; left; reflexivity).
      destruct (bit regs i =? 1).
      + match type of E with context [ArmV6_mem_a_set cfg address 4 ?v s] => set (val := v) in E end.
        assert (Wv : word val).
        { unfold val. destruct (_ && _ && _); [unfold word; lia|apply (word_rget cfg); [apply Inv_ictx; exact HI|lia]]. }
        destruct (ArmV6_mem_a_set cfg address 4 val s) as [[] s2|e s2] eqn:Er; [|discriminate].
        apply (IH _ _ _ _ (Inv_wr _ _ _ _ HI Wv Er) (fun j Hj => Hl j (or_intror Hj)) (word_add32 _ _) E).
      + apply (IH _ _ _ _ HI (fun j Hj => Hl j (or_intror Hj)) Wa E).
  Qed.

  Theorem Stm_sem instr wback regs n lowest s :
    Inv s -> cond_holds s -> iset_of s <> 3 -> 0 <= n <= 14 -> 0 <= regs < 2 ^ 16 -> lowest_set_bit_ref regs 32 = Some lowest ->
    Stm_execute cfg instr wback regs n s = STM (ArmV6_mem_a_set cfg) s wback regs n lowest.
  Proof.
    intros HI Hc Hi Hn Hregs Hlow. pose proof (Inv_ictx _ HI) as H. unfold Stm_execute. rewrite guard_pass by exact Hc. rewrite bind_ret_tt.
    cbv zeta. rewrite try_null_check by exact Hi. rewrite (b_get cfg) by (try exact H; lia). cbv zeta.
    rewrite Hlow. cbn [enone ebind].
    assert (Hr15 : forall i, In i (zrange 0 15) -> 0 <= i <= 14).
    { intros i Hin. apply zrange_bounds in Hin. change (Z.of_nat 15) with 15 in Hin. lia. }
    assert (Wn : word (rget s n)) by (apply (word_rget cfg); [exact H|lia]).
    rewrite py_range_15. change (zrange 0 15) with (zrange (Z.of_nat 0) 15).
    rewrite run_bind, (stm_loop_code regs n wback lowest 15 0) by (try exact HI; try lia; exact Wn).
    unfold STM. change (zrange (Z.of_nat 0) 15) with (zrange 0 15).
    destruct (stm_loop (ArmV6_mem_a_set cfg) regs n wback lowest (zrange 0 15) (rget s n) s) as [addr s1|e s1] eqn:EL; [|reflexivity].
    destruct (stm_loop_inv regs n wback lowest _ _ _ _ _ HI Hr15 Wn EL) as [HI1 Wa]. pose proof (Inv_ictx _ HI1) as H1.
    cbn beta iota. rewrite truthy_bit_at by lia. cbn [BitCountN]. rewrite Z.sub_0_r, Z.add_0_l.
    pose proof (bit01 regs 15) as B15.
    destruct (bit regs 15 =? 1) eqn:E15.
    - rewrite !bind_assoc_run, (b_get_pc cfg) by exact H1. rewrite !bind_assoc_run, run_bind.
      assert (Wpc : word (rget s1 15)) by (apply (word_rget cfg); [exact H1|lia]).
      destruct (ArmV6_mem_a_set cfg addr 4 (rget s1 15) s1) as [[] s2|e s2] eqn:E2; [|reflexivity].
      pose proof (Inv_ictx _ (Inv_wr _ _ _ _ HI1 Wpc E2)) as H2. cbn beta iota. rewrite !bind_ret_run. cbv beta.
      unfold truthy. destruct (wback =? 0); cbn [negb]; [reflexivity|].
      rewrite bind_assoc_run, (b_get cfg) by (try exact H2; lia). rewrite bind_assoc_run, (b_set cfg) by (try exact H2; lia).
      rewrite !bind_ret_run. unfold add, add32, BitCount. change (Z.to_nat 16) with 16%nat. change (0 + 15)%nat with 15%nat.
      rewrite (BitCountN_S 15 regs). change (Z.of_nat 15) with 15.
      assert (Eb15 : bit regs 15 = 1) by lia. rewrite Eb15. reflexivity.
    - rewrite bind_ret_run. cbv beta.
      unfold truthy. destruct (wback =? 0); cbn [negb]; [reflexivity|].
      rewrite bind_assoc_run, (b_get cfg) by (try exact H1; lia). rewrite bind_assoc_run, (b_set cfg) by (try exact H1; lia).
      rewrite !bind_ret_run. unfold add, add32, BitCount. change (Z.to_nat 16) with 16%nat. change (0 + 15)%nat with 15%nat.
      rewrite (BitCountN_S 15 regs). change (Z.of_nat 15) with 15.
      assert (Eb15 : bit regs 15 = 0) by lia. rewrite Eb15, Z.add_0_r. reflexivity.
  Qed.
End Block.

(* ---------- an instance of the invariant: flat maps (PMSA, MPU disabled) ---------- *)
From ArmV Require Import Spec.Hub Spec.Memory Proofs.HubProofs Proofs.MemProofs Proofs.MemFacts.
Lemma bind_ret_eta {A} (m : M machine A) s : bind m (fun t => ret t) s = m s.
Proof. unfold bind, ret. destruct (m s); reflexivity. Qed.
Definition flat_inv (cfg : config) (s : machine) : Prop := ictx cfg s /\ flat cfg s.
Lemma flat_rset cfg s n v : flat cfg s -> flat cfg (rset s n v).
Proof. intros F. exact F. Qed.
Lemma flat_inv_ictx cfg s : flat_inv cfg s -> ictx cfg s.
Proof. intros [H _]. exact H. Qed.
Lemma flat_inv_rset cfg s n v : flat_inv cfg s -> 0 <= n <= 14 -> word v -> flat_inv cfg (rset s n v).
Proof. intros [H F] Hn Hv. split; [apply ictx_rset; assumption|apply flat_rset; exact F]. Qed.
Lemma flat_inv_rd cfg s a d s1 : flat_inv cfg s -> ArmV6_mem_a_get cfg a 4 s = Ok d s1 -> flat_inv cfg s1 /\ word d.
Proof.
  intros [H F] E. unfold ArmV6_mem_a_get in E. rewrite b_not_user in E. rewrite bind_ret_eta in E.
  rewrite mem_a_get_flat in E by (try exact F; reflexivity). unfold MemA_get_flat in E.
  destruct (MemA_va _ _ _ _) as [va|]; [|discriminate]. inversion E; subst. split; [split; assumption|].
  unfold MemA_read. destruct F as [_ [_ [_ Hh]]]. pose proof (hub_read_range (mem s1) va 4 Hh ltac:(lia)) as R.
  pose proof (endian_range' (big_endian s1) 4 _ ltac:(lia) R) as R'. exact R'.
Qed.
Lemma flat_inv_wr cfg s a v s1 : flat_inv cfg s -> word v -> ArmV6_mem_a_set cfg a 4 v s = Ok tt s1 -> flat_inv cfg s1.
Proof.
  intros [H F] Hv E. unfold ArmV6_mem_a_set in E. rewrite b_not_user in E. rewrite bind_ret_tt in E.
  rewrite mem_a_set_flat in E by (try exact F; try reflexivity; exact Hv). unfold MemA_set_flat in E.
  destruct (MemA_va _ _ _ _) as [va|]; [|discriminate]. inversion E; subst. unfold MemA_write.
  split; [apply ictx_set_mem; exact H|apply flat_set_mem; [exact F|apply hub_ok_write; apply F]].
Qed.
