"""C08 — IT blocks."""
import copy
import common as C
import statelib
from framework import Unit

IMPORTS = 'From Gen Require Import enums opsyn core exec step.'
SPEC_IMPORTS = 'From ArmV Require Import Spec.Pseudocode Spec.Arch.'


def adv_cases(rng, tier):
    t = statelib.load_index(C.GEN)['tables']
    icpsr = t['sys_names'].index('cpsr')
    base = statelib.reset_state(t, mem=[])
    out = []
    for it in range(256):
        for rest in ((0x13,) if tier == 'quick' else (0x13, 0xF80F01D0 | 0x10)):
            st = copy.deepcopy(base)
            cpsr = (rest & ~((0x3F << 10) | (3 << 25))) | ((it >> 2) << 10) | ((it & 3) << 25) | (1 << 5)
            st['sys'][icpsr] = cpsr
            m = statelib.coq_machine(st)
            spec = f'(enc_pure enc_Z (with_IT {cpsr} (ITAdvance {it})))'
            out.append({'impl': {'kind': 'method', 'state': st, 'method': 'registers.it_advance', 'args': [], 'rt': ['unit'],
                                 '_probe': 'cpsr'},
                        'model': f'(match Registers_it_advance {m} with Ok _ s => [0; getl (sys s) slot_cpsr] | Exc e _ => exn_enc e end)',
                        'spec': spec, 'label': 'it_advance', 'nontrivial': True})
    return out


def block_cases(rng, tier):
    """an IT instruction (every legal firstcond/mask) followed by four MOVS Rk,#imm, for sampled NZCV values: which of the
    four execute, no flag change inside the block, ITSTATE empty afterwards (whole steps of the implementation against
    Corr/ItBlockSpec.v)"""
    import stepgen
    t = statelib.load_index(C.GEN)['tables']
    icpsr = t['sys_names'].index('cpsr')
    out = []
    for fc in range(15):
        for mask in range(1, 16):
            if fc == 14 and bin(mask).count('1') != 1:
                continue                                  # AL with an else part is UNPREDICTABLE
            for nzcv in (rng.sample(range(16), 2) if tier == 'quick' else range(16)):
                st = stepgen.random_state(rng, t, thumb=True, mpu=False)
                st['sys'][icpsr] = (st['sys'][icpsr] & ~((0xF << 28) | (0x3F << 10) | (3 << 25))) | (nzcv << 28)
                pc = st['R'][33]
                stepgen.put_instr(st, 0xBF00 | (fc << 4) | mask, 16, at=pc)
                imms = [rng.randrange(1, 256) for _ in range(4)]
                for k in range(4):
                    stepgen.put_instr(st, 0x2000 | (k << 8) | imms[k], 16, at=pc + 2 + 2 * k)
                olds = [st['R'][k] for k in range(4)]
                lst = lambda l: '[' + '; '.join(str(x) for x in l) + ']'
                out.append({'impl': {'kind': 'it_block', 'state': stepgen.clean(st), 'steps': 5}, 'model': None,
                            'spec': f'(0 :: it_block_spec {fc} {mask} {nzcv} {lst(imms)} {lst(olds)})', 'label': 'it_block', 'nontrivial': True})
    return out


def return_into_it_cases(rng, tier):
    """an exception return executed in ARM state (MOVS PC,LR / SUBS PC,LR,#imm from Supervisor mode) whose SPSR holds a Thumb state
    in the middle of an IT block: the CPSR becomes the SPSR, so ITSTATE is exactly the saved one (not advanced once more) and the
    flags are the saved ones; whole step of the implementation against the architectural expectation"""
    import stepgen
    t = statelib.load_index(C.GEN)['tables']
    icpsr = t['sys_names'].index('cpsr')
    ispsr = t['sys_names'].index('spsr_svc')
    ilr = t['rnames'].index('LRsvc')
    out = []
    its = [0x08, 0x0C, 0x1C, 0x18, 0xE4, 0x2A, 0x96, 0x00] if tier == 'quick' else list(range(0, 256, 3))
    for it in its:
        for word, sub in ((0xE1B0F00E, 0), (0xE25EF004, 4)):
            st = stepgen.random_state(rng, t, thumb=False, mpu=False)
            nzcv = rng.randrange(16)
            st['sys'][icpsr] = 0x13 | (rng.randrange(16) << 28)
            spsr = 0x10 | (1 << 5) | (nzcv << 28) | ((it >> 2) << 10) | ((it & 3) << 25)
            st['sys'][ispsr] = spsr
            st['R'][ilr] = 0x1000 + 8 * rng.randrange(4, 20) + sub
            stepgen.put_instr(st, word, 32)
            regs = [st['R'][k] for k in range(4)]
            out.append({'impl': {'kind': 'it_block', 'state': stepgen.clean(st), 'steps': 1}, 'model': None,
                        'spec': '(0 :: ' + ' :: '.join(str(x) for x in regs + [nzcv, it]) + ' :: nil)',
                        'label': 'return_into_it', 'nontrivial': True})
    return out


def it_exec_cases(rng, tier):
    """It.execute for every firstcond and mask on random CPSR values: ITSTATE = firstcond:mask, nothing else"""
    t = statelib.load_index(C.GEN)['tables']
    icpsr = t['sys_names'].index('cpsr')
    out = []
    for fc in range(16):
        for mask in range(16):
            for _ in range(1 if tier == 'quick' else 8):
                st = statelib.reset_state(t, mem=[])
                st['sys'][icpsr] = (rng.getrandbits(32) & ~0x1F) | rng.choice([16, 19, 31]) | (1 << 5)
                st['opcode'], st['opcode_len'] = 0xBF00 | (fc << 4) | mask, 16
                m = statelib.coq_machine(st)
                out.append({'impl': {'kind': 'exec', 'state': st, 'module': 'it', 'cls': 'It', 'fields': [0, fc, mask]},
                            'model': f'(enc_out enc_machine enc_unit (It_execute 0 {fc} {mask} {m}))',
                            'spec': f'(enc_out enc_machine enc_unit (Ok tt (with_cpsr {m} (with_IT (cpsr_of {m}) ({fc} * 16 + {mask})))))',
                            'label': 'it_execute', 'nontrivial': True})
    return out


PROPS_FILES = ['C08', 'C08it', 'C08step']


def units():
    return [
        Unit('it_advance', ['C08_advance', 'C08_in_it_block', 'C08_last_in_it_block'], ['Proofs/CondProofs.v'],
             ['registers.Registers.it_advance', 'arm_v6.ArmV6.in_it_block', 'arm_v6.ArmV6.last_in_it_block'],
             adv_cases, IMPORTS, SPEC_IMPORTS),
        Unit('step_itstate', ['C08_step_itstate', 'C08_psr_IT_with_IT'], ['Proofs/StepIT.v', 'Proofs/StepProofs.v'],
             ['arm_v6.ArmV6.emulate_cycle', 'arm_v6.ArmV6.execute_instruction', 'registers.Registers.it_advance'], None, IMPORTS, SPEC_IMPORTS),
        Unit('it_instruction', ['C08_IT_execute'], ['Proofs/MiscProofs.v'], ['opcodes.abstract_opcodes.it.It.execute'], it_exec_cases,
             IMPORTS, 'From ArmV Require Import Lib.PyZ Lib.Monad Spec.Pseudocode Spec.Arch Spec.MachineView.'),
        Unit('it_schedule', ['C08_schedule', 'C08_advance_all'], ['Proofs/ITSchedule.v'], [], None, IMPORTS, SPEC_IMPORTS),
        Unit('it_block_steps', [], [], [], block_cases, IMPORTS, 'From ArmV Require Import Spec.Pseudocode Spec.Arch Corr.ItBlockSpec.'),
        Unit('return_into_it', [], [], [], return_into_it_cases, IMPORTS, 'From Coq Require Import ZArith List.'),
    ]
