(* Props/C01_0.v — STATIC (tools/spec/mkdp.py).  C01: every data-processing opcode class, with its condition
   passed and operand fields in their encodable ranges, computes exactly dp_sem (the A8.8 pseudocode as one
   function, Proofs/DPSem.v): destination, N/Z/C/V, PC writes; the frame is C01_frame (Props/C01.v). *)
From Coq Require Import ZArith List Bool.
From ArmV Require Import Lib.PyZ Lib.Monad Lib.Machine Spec.Pseudocode Spec.Arch
  Proofs.StateLemmas Proofs.CondProofs Proofs.GuardProofs Proofs.BankProofs Proofs.MachineOps Spec.DPSem Proofs.DPLemmas
  Proofs.DPClasses0 Proofs.DPClasses1 Proofs.DPClasses2 Proofs.DPClasses3 Proofs.DPClasses4 Proofs.DPClasses5 Proofs.DPClasses6 Proofs.DPClasses7.
From Gen Require Import enums exec.
Open Scope Z_scope.

Theorem C01_AdcImmediate cfg instruction setflags d n imm32 st :
  ictx cfg st ->
  cond_holds st ->
  0 <= d <= 15 ->
  0 <= n <= 15 ->
  word imm32 ->
  AdcImmediate_execute cfg instruction setflags d n imm32 st = dp_sem cfg ADC setflags (Some d) n (Op2Imm imm32 0) st.
Proof. exact (AdcImmediate_sem cfg instruction setflags d n imm32 st). Qed.
Print Assumptions C01_AdcImmediate.

Theorem C01_SbcRegister cfg instruction setflags m d n shift_t shift_n st :
  ictx cfg st ->
  cond_holds st ->
  0 <= d <= 15 ->
  0 <= n <= 15 ->
  0 <= m <= 15 ->
  valid_shift shift_t shift_n ->
  SbcRegister_execute cfg instruction setflags m d n shift_t shift_n st = dp_sem cfg SBC setflags (Some d) n (Op2Reg m shift_t shift_n) st.
Proof. exact (SbcRegister_sem cfg instruction setflags m d n shift_t shift_n st). Qed.
Print Assumptions C01_SbcRegister.

Theorem C01_RscRegisterShiftedRegister cfg instruction setflags m s d n shift_t st :
  ictx cfg st ->
  cond_holds st ->
  0 <= d <= 14 ->
  0 <= n <= 15 ->
  0 <= m <= 15 ->
  0 <= s <= 15 ->
  (shift_t = Pseudocode.SRType_LSL \/ shift_t = Pseudocode.SRType_LSR \/ shift_t = Pseudocode.SRType_ASR \/ shift_t = Pseudocode.SRType_ROR) ->
  RscRegisterShiftedRegister_execute cfg instruction setflags m s d n shift_t st = dp_sem cfg RSC setflags (Some d) n (Op2RegReg m shift_t s) st.
Proof. exact (RscRegisterShiftedRegister_sem cfg instruction setflags m s d n shift_t st). Qed.
Print Assumptions C01_RscRegisterShiftedRegister.

Theorem C01_AddRegisterThumb cfg instruction setflags m d n shift_t shift_n st :
  ictx cfg st ->
  cond_holds st ->
  0 <= d <= 15 ->
  0 <= n <= 15 ->
  0 <= m <= 15 ->
  valid_shift shift_t shift_n ->
  AddRegisterThumb_execute cfg instruction setflags m d n shift_t shift_n st = dp_sem cfg ADD setflags (Some d) n (Op2Reg m shift_t shift_n) st.
Proof. exact (AddRegisterThumb_sem cfg instruction setflags m d n shift_t shift_n st). Qed.
Print Assumptions C01_AddRegisterThumb.

Theorem C01_AddSpPlusRegisterThumb cfg instruction setflags m d shift_t shift_n st :
  ictx cfg st ->
  cond_holds st ->
  0 <= d <= 15 ->
  0 <= m <= 15 ->
  valid_shift shift_t shift_n ->
  AddSpPlusRegisterThumb_execute cfg instruction setflags m d shift_t shift_n st = dp_sem cfg ADD setflags (Some d) 13 (Op2Reg m shift_t shift_n) st.
Proof. exact (AddSpPlusRegisterThumb_sem cfg instruction setflags m d shift_t shift_n st). Qed.
Print Assumptions C01_AddSpPlusRegisterThumb.

Theorem C01_SubRegisterShiftedRegister cfg instruction setflags m s d n shift_t st :
  ictx cfg st ->
  cond_holds st ->
  0 <= d <= 14 ->
  0 <= n <= 15 ->
  0 <= m <= 15 ->
  0 <= s <= 15 ->
  (shift_t = Pseudocode.SRType_LSL \/ shift_t = Pseudocode.SRType_LSR \/ shift_t = Pseudocode.SRType_ASR \/ shift_t = Pseudocode.SRType_ROR) ->
  SubRegisterShiftedRegister_execute cfg instruction setflags m s d n shift_t st = dp_sem cfg SUB setflags (Some d) n (Op2RegReg m shift_t s) st.
Proof. exact (SubRegisterShiftedRegister_sem cfg instruction setflags m s d n shift_t st). Qed.
Print Assumptions C01_SubRegisterShiftedRegister.

Theorem C01_RsbRegister cfg instruction setflags m d n shift_t shift_n st :
  ictx cfg st ->
  cond_holds st ->
  0 <= d <= 15 ->
  0 <= n <= 15 ->
  0 <= m <= 15 ->
  valid_shift shift_t shift_n ->
  RsbRegister_execute cfg instruction setflags m d n shift_t shift_n st = dp_sem cfg RSB setflags (Some d) n (Op2Reg m shift_t shift_n) st.
Proof. exact (RsbRegister_sem cfg instruction setflags m d n shift_t shift_n st). Qed.
Print Assumptions C01_RsbRegister.

Theorem C01_AndRegisterShiftedRegister cfg instruction setflags m s d n shift_t st :
  ictx cfg st ->
  cond_holds st ->
  0 <= d <= 14 ->
  0 <= n <= 15 ->
  0 <= m <= 15 ->
  0 <= s <= 15 ->
  (shift_t = Pseudocode.SRType_LSL \/ shift_t = Pseudocode.SRType_LSR \/ shift_t = Pseudocode.SRType_ASR \/ shift_t = Pseudocode.SRType_ROR) ->
  AndRegisterShiftedRegister_execute cfg instruction setflags m s d n shift_t st = dp_sem cfg AND setflags (Some d) n (Op2RegReg m shift_t s) st.
Proof. exact (AndRegisterShiftedRegister_sem cfg instruction setflags m s d n shift_t st). Qed.
Print Assumptions C01_AndRegisterShiftedRegister.

Theorem C01_OrrImmediate cfg instruction setflags d n imm32 carry st :
  ictx cfg st ->
  cond_holds st ->
  0 <= d <= 15 ->
  0 <= n <= 15 ->
  word imm32 ->
  0 <= carry <= 1 ->
  OrrImmediate_execute cfg instruction setflags d n imm32 carry st = dp_sem cfg ORR setflags (Some d) n (Op2Imm imm32 carry) st.
Proof. exact (OrrImmediate_sem cfg instruction setflags d n imm32 carry st). Qed.
Print Assumptions C01_OrrImmediate.

Theorem C01_BicRegister cfg instruction setflags m d n shift_t shift_n st :
  ictx cfg st ->
  cond_holds st ->
  0 <= d <= 15 ->
  0 <= n <= 15 ->
  0 <= m <= 15 ->
  valid_shift shift_t shift_n ->
  BicRegister_execute cfg instruction setflags m d n shift_t shift_n st = dp_sem cfg BIC setflags (Some d) n (Op2Reg m shift_t shift_n) st.
Proof. exact (BicRegister_sem cfg instruction setflags m d n shift_t shift_n st). Qed.
Print Assumptions C01_BicRegister.

Theorem C01_MvnImmediate cfg instruction setflags d imm32 carry st :
  ictx cfg st ->
  cond_holds st ->
  0 <= d <= 15 ->
  word imm32 ->
  0 <= carry <= 1 ->
  MvnImmediate_execute cfg instruction setflags d imm32 carry st = dp_sem cfg MVN setflags (Some d) 0 (Op2Imm imm32 carry) st.
Proof. exact (MvnImmediate_sem cfg instruction setflags d imm32 carry st). Qed.
Print Assumptions C01_MvnImmediate.

Theorem C01_MovRegisterArm cfg instruction setflags m d st :
  ictx cfg st ->
  cond_holds st ->
  0 <= d <= 15 ->
  0 <= m <= 15 ->
  MovRegisterArm_execute cfg instruction setflags m d st = dp_sem cfg MOV setflags (Some d) 0 (Op2Plain m) st.
Proof. exact (MovRegisterArm_sem cfg instruction setflags m d st). Qed.
Print Assumptions C01_MovRegisterArm.

Theorem C01_AsrImmediate cfg instruction setflags m d shift_n st :
  ictx cfg st ->
  cond_holds st ->
  0 <= d <= 15 ->
  0 <= m <= 15 ->
  0 <= shift_n ->
  AsrImmediate_execute cfg instruction setflags m d shift_n st = dp_sem cfg MOV setflags (Some d) 0 (Op2Reg m Pseudocode.SRType_ASR shift_n) st.
Proof. exact (AsrImmediate_sem cfg instruction setflags m d shift_n st). Qed.
Print Assumptions C01_AsrImmediate.

Theorem C01_LsrRegister cfg instruction setflags m d n st :
  ictx cfg st ->
  cond_holds st ->
  0 <= d <= 14 ->
  0 <= m <= 15 ->
  0 <= n <= 15 ->
  LsrRegister_execute cfg instruction setflags m d n st = dp_sem cfg MOV setflags (Some d) 0 (Op2RegReg n Pseudocode.SRType_LSR m) st.
Proof. exact (LsrRegister_sem cfg instruction setflags m d n st). Qed.
Print Assumptions C01_LsrRegister.

Theorem C01_CmpRegister cfg instruction m n shift_t shift_n st :
  ictx cfg st ->
  cond_holds st ->
  0 <= n <= 15 ->
  0 <= m <= 15 ->
  valid_shift shift_t shift_n ->
  CmpRegister_execute cfg instruction m n shift_t shift_n st = dp_sem cfg SUB 1 None n (Op2Reg m shift_t shift_n) st.
Proof. exact (CmpRegister_sem cfg instruction m n shift_t shift_n st). Qed.
Print Assumptions C01_CmpRegister.

Theorem C01_CmnRegisterShiftedRegister cfg instruction m s n shift_t st :
  ictx cfg st ->
  cond_holds st ->
  0 <= n <= 15 ->
  0 <= m <= 15 ->
  0 <= s <= 15 ->
  (shift_t = Pseudocode.SRType_LSL \/ shift_t = Pseudocode.SRType_LSR \/ shift_t = Pseudocode.SRType_ASR \/ shift_t = Pseudocode.SRType_ROR) ->
  CmnRegisterShiftedRegister_execute cfg instruction m s n shift_t st = dp_sem cfg ADD 1 None n (Op2RegReg m shift_t s) st.
Proof. exact (CmnRegisterShiftedRegister_sem cfg instruction m s n shift_t st). Qed.
Print Assumptions C01_CmnRegisterShiftedRegister.

Theorem C01_TeqImmediate cfg instruction n imm32 carry st :
  ictx cfg st ->
  cond_holds st ->
  0 <= n <= 15 ->
  word imm32 ->
  0 <= carry <= 1 ->
  TeqImmediate_execute cfg instruction n imm32 carry st = dp_sem cfg EOR 1 None n (Op2Imm imm32 carry) st.
Proof. exact (TeqImmediate_sem cfg instruction n imm32 carry st). Qed.
Print Assumptions C01_TeqImmediate.
