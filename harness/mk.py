#!/venv/bin/python
"""developer helper: (re)write _CoqProject and make the given targets (default: everything)"""
import os, sys
sys.path.insert(0, os.path.dirname(os.path.abspath(__file__)))
import common as C
if '--gen' in sys.argv:
    ok, idx, log = C.regenerate(); print(log.strip().split('\n')[0])
tg = [a for a in sys.argv[1:] if not a.startswith('--')]
ok, log, dt = C.make(tg, timeout=int(os.environ.get("MK_TIMEOUT", "240")), jobs=16)
lines = [l for l in log.split('\n') if not l.startswith('COQ') and 'Closed under' not in l and l.strip()]
print('\n'.join(lines[:40])); print('make', 'ok' if ok else 'FAILED', f'{dt:.0f}s')
