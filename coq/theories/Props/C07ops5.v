(* Props/C07ops5.v — C07: operand extraction of the Thumb encodings (shard 5 of 8).
   For every word of the stated domain, from_bitarray returns the class with the fields the encoding diagram
   names, and leaves the state alone.  Statements rendered from harness/optable.py by harness/mkopthm.py. *)
From Coq Require Import ZArith List Bool Lia ZifyBool.
From ArmV Require Import Lib.PyZ Lib.Monad Lib.Machine Spec.Pseudocode Spec.Arch Spec.MachineView Spec.OperandSpec.
From Gen Require Import enums bits_ops shift regviews records hubm opsyn core exec conc.
Import ListNotations.
Open Scope Z_scope.
From ArmV Require Proofs.OpsT5.

Theorem C07_ops_AddImmediateThumbT3 w s :
  0 <= w < 2 ^ 32 ->
  regs13 [bits w 19 16; bits w 11 8] = true ->
  fb_out (AddImmediateThumbT3_from_bitarray w) s = Ok (Some (code_AddImmediateThumb, [w; bit w 20; bits w 11 8; bits w 19 16; ThumbExpandImm (imm12t w)])) s.
Proof. exact (OpsT5.ops_AddImmediateThumbT3 w s). Qed.
Print Assumptions C07_ops_AddImmediateThumbT3.

Theorem C07_ops_AddSpPlusImmediateT4 w s :
  0 <= w < 2 ^ 32 ->
  regs13 [bits w 11 8] = true ->
  fb_out (AddSpPlusImmediateT4_from_bitarray w) s = Ok (Some (code_AddSpPlusImmediate, [w; 0; bits w 11 8; imm12t w])) s.
Proof. exact (OpsT5.ops_AddSpPlusImmediateT4 w s). Qed.
Print Assumptions C07_ops_AddSpPlusImmediateT4.

Theorem C07_ops_AndRegisterT1 w s :
  0 <= w < 2 ^ 16 ->
  fb_out (AndRegisterT1_from_bitarray w) s = Ok (Some (code_AndRegister, [w; not_in_it s; bits w 5 3; bits w 2 0; bits w 2 0; 1; 0])) s.
Proof. exact (OpsT5.ops_AndRegisterT1 w s). Qed.
Print Assumptions C07_ops_AndRegisterT1.

Theorem C07_ops_BicImmediateT1 w s :
  0 <= w < 2 ^ 32 ->
  regs13 [bits w 19 16; bits w 11 8] = true ->
  fb_out (BicImmediateT1_from_bitarray w) s = Ok (Some (code_BicImmediate, [w; bit w 20; bits w 11 8; bits w 19 16; ThumbExpandImm (imm12t w); snd (ThumbExpandImm_C (imm12t w) (cflag s))])) s.
Proof. exact (OpsT5.ops_BicImmediateT1 w s). Qed.
Print Assumptions C07_ops_BicImmediateT1.

Theorem C07_ops_ClzT1 w s :
  0 <= w < 2 ^ 32 ->
  regs13 [bits w 11 8; bits w 3 0] = true ->
  pre_rm_twice w = true ->
  fb_out (ClzT1_from_bitarray w) s = Ok (Some (code_Clz, [w; bits w 3 0; bits w 11 8])) s.
Proof. exact (OpsT5.ops_ClzT1 w s). Qed.
Print Assumptions C07_ops_ClzT1.

Theorem C07_ops_CmpRegisterT3 w s :
  0 <= w < 2 ^ 32 ->
  regs13 [bits w 19 16; bits w 3 0] = true ->
  fb_out (CmpRegisterT3_from_bitarray w) s = Ok (Some (code_CmpRegister, [w; bits w 3 0; bits w 19 16; fst (DecodeImmShift (bits w 5 4) (imm5t w)); snd (DecodeImmShift (bits w 5 4) (imm5t w))])) s.
Proof. exact (OpsT5.ops_CmpRegisterT3 w s). Qed.
Print Assumptions C07_ops_CmpRegisterT3.

Theorem C07_ops_EretT1 w s :
  0 <= w < 2 ^ 32 ->
  in_it s = false ->
  fb_out (EretT1_from_bitarray w) s = Ok (Some (code_Eret, [w])) s.
Proof. exact (OpsT5.ops_EretT1 w s). Qed.
Print Assumptions C07_ops_EretT1.

Theorem C07_ops_LdmThumbT2 w s :
  0 <= w < 2 ^ 32 ->
  regs13 [bits w 19 16] = true ->
  pre_reglist_lt w = true ->
  fb_out (LdmThumbT2_from_bitarray w) s = Ok (Some (code_LdmThumb, [w; bit w 21; bits w 15 14 * 2 ^ 14 + bits w 12 0; bits w 19 16])) s.
Proof. exact (OpsT5.ops_LdmThumbT2 w s). Qed.
Print Assumptions C07_ops_LdmThumbT2.

Theorem C07_ops_LdrRegisterThumbT1 w s :
  0 <= w < 2 ^ 16 ->
  fb_out (LdrRegisterThumbT1_from_bitarray w) s = Ok (Some (code_LdrRegisterThumb, [w; bits w 8 6; bits w 2 0; bits w 5 3; 1; 0])) s.
Proof. exact (OpsT5.ops_LdrRegisterThumbT1 w s). Qed.
Print Assumptions C07_ops_LdrRegisterThumbT1.

Theorem C07_ops_LdrbtT1 w s :
  0 <= w < 2 ^ 32 ->
  regs13 [bits w 19 16; bits w 15 12] = true ->
  fb_out (LdrbtT1_from_bitarray w) s = Ok (Some (code_Ldrbt, [w; 1; 0; 0; bits w 15 12; bits w 19 16; 0; 1; 0; bits w 7 0])) s.
Proof. exact (OpsT5.ops_LdrbtT1 w s). Qed.
Print Assumptions C07_ops_LdrbtT1.

Theorem C07_ops_LdrhImmediateThumbT2 w s :
  0 <= w < 2 ^ 32 ->
  regs13 [bits w 19 16; bits w 15 12] = true ->
  fb_out (LdrhImmediateThumbT2_from_bitarray w) s = Ok (Some (code_LdrhImmediateThumb, [w; 1; 0; 1; bits w 15 12; bits w 19 16; bits w 11 0])) s.
Proof. exact (OpsT5.ops_LdrhImmediateThumbT2 w s). Qed.
Print Assumptions C07_ops_LdrhImmediateThumbT2.

Theorem C07_ops_LdrsbLiteralT1 w s :
  0 <= w < 2 ^ 32 ->
  regs13 [bits w 15 12] = true ->
  fb_out (LdrsbLiteralT1_from_bitarray w) s = Ok (Some (code_LdrsbLiteral, [w; bit w 23; bits w 11 0; bits w 15 12])) s.
Proof. exact (OpsT5.ops_LdrsbLiteralT1 w s). Qed.
Print Assumptions C07_ops_LdrsbLiteralT1.

Theorem C07_ops_LdrshRegisterT2 w s :
  0 <= w < 2 ^ 32 ->
  regs13 [bits w 19 16; bits w 15 12; bits w 3 0] = true ->
  fb_out (LdrshRegisterT2_from_bitarray w) s = Ok (Some (code_LdrshRegister, [w; 1; 0; 1; bits w 3 0; bits w 15 12; bits w 19 16; 1; bits w 5 4])) s.
Proof. exact (OpsT5.ops_LdrshRegisterT2 w s). Qed.
Print Assumptions C07_ops_LdrshRegisterT2.

Theorem C07_ops_LsrImmediateT2 w s :
  0 <= w < 2 ^ 32 ->
  regs13 [bits w 11 8; bits w 3 0] = true ->
  pre_imm5t_nz w = true ->
  fb_out (LsrImmediateT2_from_bitarray w) s = Ok (Some (code_LsrImmediate, [w; bit w 20; bits w 3 0; bits w 11 8; snd (DecodeImmShift 1 (imm5t w))])) s.
Proof. exact (OpsT5.ops_LsrImmediateT2 w s). Qed.
Print Assumptions C07_ops_LsrImmediateT2.

Theorem C07_ops_MlsT1 w s :
  0 <= w < 2 ^ 32 ->
  regs13 [bits w 19 16; bits w 15 12; bits w 11 8; bits w 3 0] = true ->
  fb_out (MlsT1_from_bitarray w) s = Ok (Some (code_Mls, [w; bits w 3 0; bits w 15 12; bits w 11 8; bits w 19 16])) s.
Proof. exact (OpsT5.ops_MlsT1 w s). Qed.
Print Assumptions C07_ops_MlsT1.

Theorem C07_ops_MrcMrc2T1 w s :
  0 <= w < 2 ^ 32 ->
  regs13 [bits w 15 12] = true ->
  pre_cp_ok w = true ->
  fb_out (MrcMrc2T1_from_bitarray w) s = Ok (Some (code_MrcMrc2, [w; bits w 11 8; bits w 15 12])) s.
Proof. exact (OpsT5.ops_MrcMrc2T1 w s). Qed.
Print Assumptions C07_ops_MrcMrc2T1.

Theorem C07_ops_MulT1 (cfg : config) w s :
  0 <= w < 2 ^ 16 ->
  6 <= cfg_arch_version cfg ->
  fb_out (MulT1_from_bitarray cfg w) s = Ok (Some (code_Mul, [w; not_in_it s; bits w 2 0; bits w 2 0; bits w 5 3])) s.
Proof. exact (OpsT5.ops_MulT1 cfg w s). Qed.
Print Assumptions C07_ops_MulT1.

Theorem C07_ops_OrnRegisterT1 w s :
  0 <= w < 2 ^ 32 ->
  regs13 [bits w 19 16; bits w 11 8; bits w 3 0] = true ->
  fb_out (OrnRegisterT1_from_bitarray w) s = Ok (Some (code_OrnRegister, [w; bit w 20; bits w 3 0; bits w 11 8; bits w 19 16; fst (DecodeImmShift (bits w 5 4) (imm5t w)); snd (DecodeImmShift (bits w 5 4) (imm5t w))])) s.
Proof. exact (OpsT5.ops_OrnRegisterT1 w s). Qed.
Print Assumptions C07_ops_OrnRegisterT1.

Theorem C07_ops_PldRegisterT1 w s :
  0 <= w < 2 ^ 32 ->
  regs13 [bits w 19 16; bits w 3 0] = true ->
  fb_out (PldRegisterT1_from_bitarray w) s = Ok (Some (code_PldRegister, [w; 1; bit w 21; bits w 3 0; bits w 19 16; 1; bits w 5 4])) s.
Proof. exact (OpsT5.ops_PldRegisterT1 w s). Qed.
Print Assumptions C07_ops_PldRegisterT1.

Theorem C07_ops_QaddT1 w s :
  0 <= w < 2 ^ 32 ->
  regs13 [bits w 19 16; bits w 11 8; bits w 3 0] = true ->
  fb_out (QaddT1_from_bitarray w) s = Ok (Some (code_Qadd, [w; bits w 3 0; bits w 11 8; bits w 19 16])) s.
Proof. exact (OpsT5.ops_QaddT1 w s). Qed.
Print Assumptions C07_ops_QaddT1.

Theorem C07_ops_RbitT1 w s :
  0 <= w < 2 ^ 32 ->
  regs13 [bits w 11 8; bits w 3 0] = true ->
  pre_rm_twice w = true ->
  fb_out (RbitT1_from_bitarray w) s = Ok (Some (code_Rbit, [w; bits w 3 0; bits w 11 8])) s.
Proof. exact (OpsT5.ops_RbitT1 w s). Qed.
Print Assumptions C07_ops_RbitT1.

Theorem C07_ops_RfeT2 w s :
  0 <= w < 2 ^ 32 ->
  regs13 [bits w 19 16] = true ->
  in_it s = false ->
  fb_out (RfeT2_from_bitarray w) s = Ok (Some (code_Rfe, [w; 1; 0; bit w 21; bits w 19 16])) s.
Proof. exact (OpsT5.ops_RfeT2 w s). Qed.
Print Assumptions C07_ops_RfeT2.

Theorem C07_ops_Sadd16T1 w s :
  0 <= w < 2 ^ 32 ->
  regs13 [bits w 19 16; bits w 11 8; bits w 3 0] = true ->
  fb_out (Sadd16T1_from_bitarray w) s = Ok (Some (code_Sadd16, [w; bits w 3 0; bits w 11 8; bits w 19 16])) s.
Proof. exact (OpsT5.ops_Sadd16T1 w s). Qed.
Print Assumptions C07_ops_Sadd16T1.

Theorem C07_ops_SelT1 w s :
  0 <= w < 2 ^ 32 ->
  regs13 [bits w 19 16; bits w 11 8; bits w 3 0] = true ->
  fb_out (SelT1_from_bitarray w) s = Ok (Some (code_Sel, [w; bits w 3 0; bits w 11 8; bits w 19 16])) s.
Proof. exact (OpsT5.ops_SelT1 w s). Qed.
Print Assumptions C07_ops_SelT1.

Theorem C07_ops_Shsub16T1 w s :
  0 <= w < 2 ^ 32 ->
  regs13 [bits w 19 16; bits w 11 8; bits w 3 0] = true ->
  fb_out (Shsub16T1_from_bitarray w) s = Ok (Some (code_Shsub16, [w; bits w 3 0; bits w 11 8; bits w 19 16])) s.
Proof. exact (OpsT5.ops_Shsub16T1 w s). Qed.
Print Assumptions C07_ops_Shsub16T1.

Theorem C07_ops_SmlawT1 w s :
  0 <= w < 2 ^ 32 ->
  regs13 [bits w 19 16; bits w 15 12; bits w 11 8; bits w 3 0] = true ->
  fb_out (SmlawT1_from_bitarray w) s = Ok (Some (code_Smlaw, [w; bit w 4; bits w 3 0; bits w 15 12; bits w 11 8; bits w 19 16])) s.
Proof. exact (OpsT5.ops_SmlawT1 w s). Qed.
Print Assumptions C07_ops_SmlawT1.

Theorem C07_ops_SmullT1 w s :
  0 <= w < 2 ^ 32 ->
  regs13 [bits w 19 16; bits w 15 12; bits w 11 8; bits w 3 0] = true ->
  fb_out (SmullT1_from_bitarray w) s = Ok (Some (code_Smull, [w; 0; bits w 3 0; bits w 11 8; bits w 15 12; bits w 19 16])) s.
Proof. exact (OpsT5.ops_SmullT1 w s). Qed.
Print Assumptions C07_ops_SmullT1.

Theorem C07_ops_Ssub16T1 w s :
  0 <= w < 2 ^ 32 ->
  regs13 [bits w 19 16; bits w 11 8; bits w 3 0] = true ->
  fb_out (Ssub16T1_from_bitarray w) s = Ok (Some (code_Ssub16, [w; bits w 3 0; bits w 11 8; bits w 19 16])) s.
Proof. exact (OpsT5.ops_Ssub16T1 w s). Qed.
Print Assumptions C07_ops_Ssub16T1.

Theorem C07_ops_StrImmediateThumbT2 w s :
  0 <= w < 2 ^ 16 ->
  fb_out (StrImmediateThumbT2_from_bitarray w) s = Ok (Some (code_StrImmediateThumb, [w; 1; 0; 1; bits w 10 8; 13; bits w 7 0 * 4])) s.
Proof. exact (OpsT5.ops_StrImmediateThumbT2 w s). Qed.
Print Assumptions C07_ops_StrImmediateThumbT2.

Theorem C07_ops_StrbRegisterT1 w s :
  0 <= w < 2 ^ 16 ->
  fb_out (StrbRegisterT1_from_bitarray w) s = Ok (Some (code_StrbRegister, [w; 1; 0; 1; bits w 8 6; bits w 2 0; bits w 5 3; 1; 0])) s.
Proof. exact (OpsT5.ops_StrbRegisterT1 w s). Qed.
Print Assumptions C07_ops_StrbRegisterT1.

Theorem C07_ops_StrhImmediateThumbT1 w s :
  0 <= w < 2 ^ 16 ->
  fb_out (StrhImmediateThumbT1_from_bitarray w) s = Ok (Some (code_StrhImmediateThumb, [w; 1; 0; 1; bits w 2 0; bits w 5 3; bits w 10 6 * 2])) s.
Proof. exact (OpsT5.ops_StrhImmediateThumbT1 w s). Qed.
Print Assumptions C07_ops_StrhImmediateThumbT1.

Theorem C07_ops_SubImmediateThumbT2 w s :
  0 <= w < 2 ^ 16 ->
  fb_out (SubImmediateThumbT2_from_bitarray w) s = Ok (Some (code_SubImmediateThumb, [w; not_in_it s; bits w 10 8; bits w 10 8; bits w 7 0])) s.
Proof. exact (OpsT5.ops_SubImmediateThumbT2 w s). Qed.
Print Assumptions C07_ops_SubImmediateThumbT2.

Theorem C07_ops_SubSpMinusRegisterT1 w s :
  0 <= w < 2 ^ 32 ->
  regs13 [bits w 11 8; bits w 3 0] = true ->
  fb_out (SubSpMinusRegisterT1_from_bitarray w) s = Ok (Some (code_SubSpMinusRegister, [w; bit w 20; bits w 3 0; bits w 11 8; fst (DecodeImmShift (bits w 5 4) (imm5t w)); snd (DecodeImmShift (bits w 5 4) (imm5t w))])) s.
Proof. exact (OpsT5.ops_SubSpMinusRegisterT1 w s). Qed.
Print Assumptions C07_ops_SubSpMinusRegisterT1.

Theorem C07_ops_SxtbT2 w s :
  0 <= w < 2 ^ 32 ->
  regs13 [bits w 11 8; bits w 3 0] = true ->
  fb_out (SxtbT2_from_bitarray w) s = Ok (Some (code_Sxtb, [w; bits w 3 0; bits w 11 8; bits w 5 4 * 8])) s.
Proof. exact (OpsT5.ops_SxtbT2 w s). Qed.
Print Assumptions C07_ops_SxtbT2.

Theorem C07_ops_TstRegisterT2 w s :
  0 <= w < 2 ^ 32 ->
  regs13 [bits w 19 16; bits w 3 0] = true ->
  fb_out (TstRegisterT2_from_bitarray w) s = Ok (Some (code_TstRegister, [w; bits w 3 0; bits w 19 16; fst (DecodeImmShift (bits w 5 4) (imm5t w)); snd (DecodeImmShift (bits w 5 4) (imm5t w))])) s.
Proof. exact (OpsT5.ops_TstRegisterT2 w s). Qed.
Print Assumptions C07_ops_TstRegisterT2.

Theorem C07_ops_Uhadd16T1 w s :
  0 <= w < 2 ^ 32 ->
  regs13 [bits w 19 16; bits w 11 8; bits w 3 0] = true ->
  fb_out (Uhadd16T1_from_bitarray w) s = Ok (Some (code_Uhadd16, [w; bits w 3 0; bits w 11 8; bits w 19 16])) s.
Proof. exact (OpsT5.ops_Uhadd16T1 w s). Qed.
Print Assumptions C07_ops_Uhadd16T1.

Theorem C07_ops_UmullT1 w s :
  0 <= w < 2 ^ 32 ->
  regs13 [bits w 19 16; bits w 15 12; bits w 11 8; bits w 3 0] = true ->
  fb_out (UmullT1_from_bitarray w) s = Ok (Some (code_Umull, [w; 0; bits w 3 0; bits w 11 8; bits w 15 12; bits w 19 16])) s.
Proof. exact (OpsT5.ops_UmullT1 w s). Qed.
Print Assumptions C07_ops_UmullT1.

Theorem C07_ops_Usada8T1 w s :
  0 <= w < 2 ^ 32 ->
  regs13 [bits w 19 16; bits w 15 12; bits w 11 8; bits w 3 0] = true ->
  fb_out (Usada8T1_from_bitarray w) s = Ok (Some (code_Usada8, [w; bits w 3 0; bits w 15 12; bits w 11 8; bits w 19 16])) s.
Proof. exact (OpsT5.ops_Usada8T1 w s). Qed.
Print Assumptions C07_ops_Usada8T1.

Theorem C07_ops_UxtahT1 w s :
  0 <= w < 2 ^ 32 ->
  regs13 [bits w 19 16; bits w 11 8; bits w 3 0] = true ->
  fb_out (UxtahT1_from_bitarray w) s = Ok (Some (code_Uxtah, [w; bits w 3 0; bits w 11 8; bits w 19 16; bits w 5 4 * 8])) s.
Proof. exact (OpsT5.ops_UxtahT1 w s). Qed.
Print Assumptions C07_ops_UxtahT1.

Theorem C07_ops_WfiT1 w s :
  0 <= w < 2 ^ 16 ->
  in_it s = false ->
  fb_out (WfiT1_from_bitarray w) s = Ok (Some (code_Wfi, [w])) s.
Proof. exact (OpsT5.ops_WfiT1 w s). Qed.
Print Assumptions C07_ops_WfiT1.
