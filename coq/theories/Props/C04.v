(* Props/C04.v — C04: control flow.  Statements only; proofs in Proofs/BranchProofs.v (code = specification),
   Proofs/MachineOps.v (PC-write primitives), Proofs/BranchFacts.v (consequences of the specification). *)
From Coq Require Import ZArith Bool List.
From ArmV Require Import Lib.PyZ Lib.Monad Lib.Machine Spec.Pseudocode Spec.Arch Spec.MachineView Spec.Branches
  Proofs.StateLemmas Proofs.CondProofs Proofs.GuardProofs Proofs.BankProofs Proofs.MachineOps Proofs.DPLemmas
  Proofs.BranchProofs Proofs.BranchFacts.
From Gen Require Import enums opsyn core exec conc.
Import ListNotations.
Open Scope Z_scope.

(* ---- execute() of every branch class is the architecture's operation, for every state / offset / register ---- *)
Theorem C04_B cfg instr imm32 s : ictx cfg s -> cond_holds s ->
  B_execute cfg instr imm32 s = Ok tt (B_sem (cfg_jazelle_accepts_execution cfg) s imm32).
Proof. exact (B_exec cfg instr imm32 s). Qed.
Print Assumptions C04_B.
Theorem C04_BL_BLX_imm cfg instr tiset imm32 s : ictx cfg s -> cond_holds s -> 0 <= tiset < 4 ->
  BlBlxImmediate_execute cfg instr tiset imm32 s = Ok tt (BL_sem (cfg_jazelle_accepts_execution cfg) s tiset imm32).
Proof. exact (BL_exec cfg instr tiset imm32 s). Qed.
Print Assumptions C04_BL_BLX_imm.
Theorem C04_BLX_reg cfg instr m s : ictx cfg s -> cond_holds s -> 0 <= m <= 15 ->
  BlxRegister_execute cfg instr m s = Ok tt (BLXr_sem s m).
Proof. exact (BLXr_exec cfg instr m s). Qed.
Print Assumptions C04_BLX_reg.
Theorem C04_BX cfg instr m s : ictx cfg s -> cond_holds s -> 0 <= m <= 15 ->
  Bx_execute cfg instr m s = Ok tt (BX_sem s m).
Proof. exact (BX_exec cfg instr m s). Qed.
Print Assumptions C04_BX.
Theorem C04_CBZ cfg instr nonzero n imm32 s : ictx cfg s -> 0 <= n <= 14 ->
  Cbz_execute cfg instr nonzero n imm32 s = Ok tt (CBZ_sem (cfg_jazelle_accepts_execution cfg) s nonzero n imm32).
Proof. exact (CBZ_exec cfg instr nonzero n imm32 s). Qed.
Print Assumptions C04_CBZ.

(* ---- the PC-write primitives ---- *)
Theorem C04_BranchWritePC cfg a s : length (sys s) = n_sys -> length (changed s) = 16%nat -> word a ->
  ArmV6_branch_write_pc cfg a s = Ok tt (apply_pc s (BranchWritePC (cpsr_of s) (cfg_jazelle_accepts_execution cfg) a)).
Proof. exact (branch_write_pc_spec cfg a s). Qed.
Print Assumptions C04_BranchWritePC.
Theorem C04_BXWritePC a s : length (sys s) = n_sys -> length (changed s) = 16%nat -> word (cpsr_of s) -> word a ->
  ArmV6_bx_write_pc a s = Ok tt (apply_pc s (BXWritePC (cpsr_of s) a)).
Proof. exact (bx_write_pc_spec a s). Qed.
Print Assumptions C04_BXWritePC.
Theorem C04_LoadWritePC cfg a s : length (sys s) = n_sys -> length (changed s) = 16%nat -> word (cpsr_of s) -> word a ->
  ArmV6_load_write_pc cfg a s =
  Ok tt (apply_pc s (LoadWritePC (cfg_arch_version cfg) (cpsr_of s) (cfg_jazelle_accepts_execution cfg) a)).
Proof. exact (load_write_pc_spec cfg a s). Qed.
Print Assumptions C04_LoadWritePC.
Theorem C04_ALUWritePC cfg a s : length (sys s) = n_sys -> length (changed s) = 16%nat -> word (cpsr_of s) -> word a ->
  ArmV6_alu_write_pc cfg a s =
  Ok tt (apply_pc s (ALUWritePC (cfg_arch_version cfg) (cpsr_of s) (cfg_jazelle_accepts_execution cfg) a)).
Proof. exact (alu_write_pc_spec cfg a s). Qed.
Print Assumptions C04_ALUWritePC.

(* ---- PC read and sequential advance ---- *)
Theorem C04_pc_read cfg s : legal_mode cfg (mode_of s) ->
  Registers_get cfg 15 s = Ok ((pc_of s + (if iset_of s =? 0 then 8 else 4)) mod 2 ^ 32) s.
Proof. exact (pc_read_spec cfg s). Qed.
Print Assumptions C04_pc_read.
Theorem C04_advance s : length (changed s) = 16%nat -> ArmV6_increment_pc_if_needed s = Ok tt (AdvancePC s).
Proof. exact (increment_pc_spec s). Qed.
Print Assumptions C04_advance.

(* ---- offsets assembled by the encodings: the sign-extended fields, for every instruction word ---- *)
Theorem C04_off_B_A1 w : BA1_from_bitarray w = (code_B, [w; off_A1 w]).
Proof. exact (BA1_operands w). Qed.
Print Assumptions C04_off_B_A1.
Theorem C04_off_BL_A1 w : BlBlxImmediateA1_from_bitarray w = (code_BlBlxImmediate, [w; 0; off_A1 w]).
Proof. exact (BLA1_operands w). Qed.
Print Assumptions C04_off_BL_A1.
Theorem C04_off_BLX_A2 w : BlBlxImmediateA2_from_bitarray w = (code_BlBlxImmediate, [w; 1; off_BLX_A2 w]).
Proof. exact (BLXA2_operands w). Qed.
Print Assumptions C04_off_BLX_A2.
Theorem C04_off_B_T1 w s :
  BT1_from_bitarray w s = Ok (if InITBlock (psr_IT (cpsr_of s)) then None else Some (code_B, [w; SInt (bits w 7 0 * 2) 9])) s
  /\ SInt (bits w 7 0 * 2) 9 mod 2 ^ 32 = off_T1 w.
Proof. exact (BT1_operands w s). Qed.
Print Assumptions C04_off_B_T1.
Theorem C04_B_mod jaz s imm : B_sem jaz s imm = B_sem jaz s (imm mod 2 ^ 32).
Proof. exact (B_sem_mod jaz s imm). Qed.
Print Assumptions C04_B_mod.
Theorem C04_off_B_T2 w s : BT2_from_bitarray w s = Ok (if it_unpredictable s then None else Some (code_B, [w; off_T2 w])) s.
Proof. exact (BT2_operands w s). Qed.
Print Assumptions C04_off_B_T2.
Theorem C04_off_B_T3 w s :
  BT3_from_bitarray w s = Ok (if InITBlock (psr_IT (cpsr_of s)) then None else Some (code_B, [w; off_T3 w])) s.
Proof. exact (BT3_operands w s). Qed.
Print Assumptions C04_off_B_T3.
Theorem C04_off_B_T4 w s : BT4_from_bitarray w s = Ok (if it_unpredictable s then None else Some (code_B, [w; off_T4 w])) s.
Proof. exact (BT4_operands w s). Qed.
Print Assumptions C04_off_B_T4.
Theorem C04_off_BL_T1 w s :
  BlBlxImmediateT1_from_bitarray w s = Ok (if it_unpredictable s then None else Some (code_BlBlxImmediate, [w; iset_of s; off_T4 w])) s.
Proof. exact (BLT1_operands w s). Qed.
Print Assumptions C04_off_BL_T1.
Theorem C04_off_BLX_T2 w s : iset_of s <> 3 -> bit w 0 = 0 ->
  BlBlxImmediateT2_from_bitarray w s = Ok (if it_unpredictable s then None else Some (code_BlBlxImmediate, [w; 0; off_BLX_T2 w])) s.
Proof. exact (BLXT2_operands w s). Qed.
Print Assumptions C04_off_BLX_T2.
Theorem C04_BLX_T2_undefined w s : iset_of s = 3 \/ bit w 0 = 1 -> BlBlxImmediateT2_from_bitarray w s = Exc EUndefined s.
Proof. exact (BLXT2_undefined w s). Qed.
Print Assumptions C04_BLX_T2_undefined.

(* CBZ/CBNZ offset: the code's value is exactly twice the architectural ZeroExtend(i:imm5:'0')  — a recorded finding
   (known-findings.txt); the second theorem is the refutation of the architectural statement, with its witness. *)
Theorem C04_off_CBZ_actual w : CbzT1_from_bitarray w = (code_Cbz, [w; bit w 11; bits w 2 0; 2 * off_CBZ w]).
Proof. exact (CBZ_operands_actual w). Qed.
Print Assumptions C04_off_CBZ_actual.
Theorem C04_off_CBZ_refuted : exists w, 0 <= w < 2 ^ 16 /\ imm_field (CbzT1_from_bitarray w) 3 <> off_CBZ w.
Proof. exact CBZ_offset_refuted. Qed.
Print Assumptions C04_off_CBZ_refuted.

(* ---- consequences of the specification ---- *)
Theorem C04_aligned cpsr jaz a c t : 0 <= a -> BranchWritePC cpsr jaz a = (c, Some t) ->
  c = cpsr /\ (iset_of_psr cpsr = InstrSet_ARM -> t mod 4 = 0) /\
  (iset_of_psr cpsr = InstrSet_THUMB \/ iset_of_psr cpsr = InstrSet_THUMBEE -> t mod 2 = 0).
Proof. exact (BranchWritePC_aligned cpsr jaz a c t). Qed.
Print Assumptions C04_aligned.
Theorem C04_link_arm s : iset_of s = InstrSet_ARM -> BL_link s = (pc_of s + 4) mod 2 ^ 32.
Proof. exact (BL_link_arm s). Qed.
Print Assumptions C04_link_arm.
Theorem C04_link_thumb s : iset_of s <> InstrSet_ARM -> pc_of s mod 2 = 0 -> BL_link s = (pc_of s + 4) mod 2 ^ 32 + 1.
Proof. exact (BL_link_thumb s). Qed.
Print Assumptions C04_link_thumb.
