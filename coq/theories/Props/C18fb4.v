(* Props/C18fb4.v — C18: operand extraction is total (shard 4 of 8).  For EVERY integer w and every machine state,
   from_bitarray of the encoding class returns an operand record or None (UNPREDICTABLE), or raises the Undefined
   Instruction exception — never a host error — and leaves the state untouched.  One theorem per concrete class. *)
From Coq Require Import ZArith List Bool Lia ZifyBool.
From ArmV Require Import Lib.PyZ Lib.Monad Lib.Machine Spec.Pseudocode Spec.Arch Spec.MachineView Spec.OperandSpec.
From Gen Require Import enums bits_ops shift regviews records hubm opsyn core exec conc.
Import ListNotations.
Open Scope Z_scope.
From ArmV Require Proofs.FbTotal4.

Theorem C18_fb_AdcRegisterT1 w s : fb_safe (fb_out (AdcRegisterT1_from_bitarray w) s) s.
Proof. exact (FbTotal4.safe_AdcRegisterT1 w s). Qed.
Print Assumptions C18_fb_AdcRegisterT1.

Theorem C18_fb_AddRegisterShiftedRegisterA1 w s : fb_safe (fb_out (AddRegisterShiftedRegisterA1_from_bitarray w) s) s.
Proof. exact (FbTotal4.safe_AddRegisterShiftedRegisterA1 w s). Qed.
Print Assumptions C18_fb_AddRegisterShiftedRegisterA1.

Theorem C18_fb_AddSpPlusImmediateT4 w s : fb_safe (fb_out (AddSpPlusImmediateT4_from_bitarray w) s) s.
Proof. exact (FbTotal4.safe_AddSpPlusImmediateT4 w s). Qed.
Print Assumptions C18_fb_AddSpPlusImmediateT4.

Theorem C18_fb_AdrT2 w s : fb_safe (fb_out (AdrT2_from_bitarray w) s) s.
Proof. exact (FbTotal4.safe_AdrT2 w s). Qed.
Print Assumptions C18_fb_AdrT2.

Theorem C18_fb_AsrImmediateA1 w s : fb_safe (fb_out (AsrImmediateA1_from_bitarray w) s) s.
Proof. exact (FbTotal4.safe_AsrImmediateA1 w s). Qed.
Print Assumptions C18_fb_AsrImmediateA1.

Theorem C18_fb_BT2 w s : fb_safe (fb_out (BT2_from_bitarray w) s) s.
Proof. exact (FbTotal4.safe_BT2 w s). Qed.
Print Assumptions C18_fb_BT2.

Theorem C18_fb_BicImmediateT1 w s : fb_safe (fb_out (BicImmediateT1_from_bitarray w) s) s.
Proof. exact (FbTotal4.safe_BicImmediateT1 w s). Qed.
Print Assumptions C18_fb_BicImmediateT1.

Theorem C18_fb_BlBlxImmediateA2 w s : fb_safe (fb_out (BlBlxImmediateA2_from_bitarray w) s) s.
Proof. exact (FbTotal4.safe_BlBlxImmediateA2 w s). Qed.
Print Assumptions C18_fb_BlBlxImmediateA2.

Theorem C18_fb_BxjT1 w s : fb_safe (fb_out (BxjT1_from_bitarray w) s) s.
Proof. exact (FbTotal4.safe_BxjT1 w s). Qed.
Print Assumptions C18_fb_BxjT1.

Theorem C18_fb_ClzA1 w s : fb_safe (fb_out (ClzA1_from_bitarray w) s) s.
Proof. exact (FbTotal4.safe_ClzA1 w s). Qed.
Print Assumptions C18_fb_ClzA1.

Theorem C18_fb_CmpImmediateA1 w s : fb_safe (fb_out (CmpImmediateA1_from_bitarray w) s) s.
Proof. exact (FbTotal4.safe_CmpImmediateA1 w s). Qed.
Print Assumptions C18_fb_CmpImmediateA1.

Theorem C18_fb_CpsArmA1 w s : fb_safe (fb_out (CpsArmA1_from_bitarray w) s) s.
Proof. exact (FbTotal4.safe_CpsArmA1 w s). Qed.
Print Assumptions C18_fb_CpsArmA1.

Theorem C18_fb_EorRegisterA1 w s : fb_safe (fb_out (EorRegisterA1_from_bitarray w) s) s.
Proof. exact (FbTotal4.safe_EorRegisterA1 w s). Qed.
Print Assumptions C18_fb_EorRegisterA1.

Theorem C18_fb_LdcLdc2ImmediateA1 w s : fb_safe (fb_out (LdcLdc2ImmediateA1_from_bitarray w) s) s.
Proof. exact (FbTotal4.safe_LdcLdc2ImmediateA1 w s). Qed.
Print Assumptions C18_fb_LdcLdc2ImmediateA1.

Theorem C18_fb_LdmArmA1 (cfg : config) w s : fb_safe (fb_out (LdmArmA1_from_bitarray cfg w) s) s.
Proof. exact (FbTotal4.safe_LdmArmA1 cfg w s). Qed.
Print Assumptions C18_fb_LdmArmA1.

Theorem C18_fb_LdmibA1 (cfg : config) w s : fb_safe (fb_out (LdmibA1_from_bitarray cfg w) s) s.
Proof. exact (FbTotal4.safe_LdmibA1 cfg w s). Qed.
Print Assumptions C18_fb_LdmibA1.

Theorem C18_fb_LdrLiteralT2 w s : fb_safe (fb_out (LdrLiteralT2_from_bitarray w) s) s.
Proof. exact (FbTotal4.safe_LdrLiteralT2 w s). Qed.
Print Assumptions C18_fb_LdrLiteralT2.

Theorem C18_fb_LdrbLiteralA1 w s : fb_safe (fb_out (LdrbLiteralA1_from_bitarray w) s) s.
Proof. exact (FbTotal4.safe_LdrbLiteralA1 w s). Qed.
Print Assumptions C18_fb_LdrbLiteralA1.

Theorem C18_fb_LdrdImmediateA1 w s : fb_safe (fb_out (LdrdImmediateA1_from_bitarray w) s) s.
Proof. exact (FbTotal4.safe_LdrdImmediateA1 w s). Qed.
Print Assumptions C18_fb_LdrdImmediateA1.

Theorem C18_fb_LdrexbT1 w s : fb_safe (fb_out (LdrexbT1_from_bitarray w) s) s.
Proof. exact (FbTotal4.safe_LdrexbT1 w s). Qed.
Print Assumptions C18_fb_LdrexbT1.

Theorem C18_fb_LdrhImmediateThumbT3 w s : fb_safe (fb_out (LdrhImmediateThumbT3_from_bitarray w) s) s.
Proof. exact (FbTotal4.safe_LdrhImmediateThumbT3 w s). Qed.
Print Assumptions C18_fb_LdrhImmediateThumbT3.

Theorem C18_fb_LdrhtT1 w s : fb_safe (fb_out (LdrhtT1_from_bitarray w) s) s.
Proof. exact (FbTotal4.safe_LdrhtT1 w s). Qed.
Print Assumptions C18_fb_LdrhtT1.

Theorem C18_fb_LdrsbRegisterT2 w s : fb_safe (fb_out (LdrsbRegisterT2_from_bitarray w) s) s.
Proof. exact (FbTotal4.safe_LdrsbRegisterT2 w s). Qed.
Print Assumptions C18_fb_LdrsbRegisterT2.

Theorem C18_fb_LdrshLiteralT1 w s : fb_safe (fb_out (LdrshLiteralT1_from_bitarray w) s) s.
Proof. exact (FbTotal4.safe_LdrshLiteralT1 w s). Qed.
Print Assumptions C18_fb_LdrshLiteralT1.

Theorem C18_fb_LdrtA2 (cfg : config) w s : fb_safe (fb_out (LdrtA2_from_bitarray cfg w) s) s.
Proof. exact (FbTotal4.safe_LdrtA2 cfg w s). Qed.
Print Assumptions C18_fb_LdrtA2.

Theorem C18_fb_LsrImmediateA1 w s : fb_safe (fb_out (LsrImmediateA1_from_bitarray w) s) s.
Proof. exact (FbTotal4.safe_LsrImmediateA1 w s). Qed.
Print Assumptions C18_fb_LsrImmediateA1.

Theorem C18_fb_McrMcr2T1 w s : fb_safe (fb_out (McrMcr2T1_from_bitarray w) s) s.
Proof. exact (FbTotal4.safe_McrMcr2T1 w s). Qed.
Print Assumptions C18_fb_McrMcr2T1.

Theorem C18_fb_MlsA1 w s : fb_safe (fb_out (MlsA1_from_bitarray w) s) s.
Proof. exact (FbTotal4.safe_MlsA1 w s). Qed.
Print Assumptions C18_fb_MlsA1.

Theorem C18_fb_MovRegisterThumbT1 w s : fb_safe (fb_out (MovRegisterThumbT1_from_bitarray w) s) s.
Proof. exact (FbTotal4.safe_MovRegisterThumbT1 w s). Qed.
Print Assumptions C18_fb_MovRegisterThumbT1.

Theorem C18_fb_MrcMrc2T2 w s : fb_safe (fb_out (MrcMrc2T2_from_bitarray w) s) s.
Proof. exact (FbTotal4.safe_MrcMrc2T2 w s). Qed.
Print Assumptions C18_fb_MrcMrc2T2.

Theorem C18_fb_MrsSystemT1 w s : fb_safe (fb_out (MrsSystemT1_from_bitarray w) s) s.
Proof. exact (FbTotal4.safe_MrsSystemT1 w s). Qed.
Print Assumptions C18_fb_MrsSystemT1.

Theorem C18_fb_MulT1 (cfg : config) w s : fb_safe (fb_out (MulT1_from_bitarray cfg w) s) s.
Proof. exact (FbTotal4.safe_MulT1 cfg w s). Qed.
Print Assumptions C18_fb_MulT1.

Theorem C18_fb_NopA1 w s : fb_safe (fb_out (NopA1_from_bitarray w) s) s.
Proof. exact (FbTotal4.safe_NopA1 w s). Qed.
Print Assumptions C18_fb_NopA1.

Theorem C18_fb_OrrRegisterShiftedRegisterA1 w s : fb_safe (fb_out (OrrRegisterShiftedRegisterA1_from_bitarray w) s) s.
Proof. exact (FbTotal4.safe_OrrRegisterShiftedRegisterA1 w s). Qed.
Print Assumptions C18_fb_OrrRegisterShiftedRegisterA1.

Theorem C18_fb_PldLiteralA1 w s : fb_safe (fb_out (PldLiteralA1_from_bitarray w) s) s.
Proof. exact (FbTotal4.safe_PldLiteralA1 w s). Qed.
Print Assumptions C18_fb_PldLiteralA1.

Theorem C18_fb_PopThumbT3 w s : fb_safe (fb_out (PopThumbT3_from_bitarray w) s) s.
Proof. exact (FbTotal4.safe_PopThumbT3 w s). Qed.
Print Assumptions C18_fb_PopThumbT3.

Theorem C18_fb_Qadd8A1 w s : fb_safe (fb_out (Qadd8A1_from_bitarray w) s) s.
Proof. exact (FbTotal4.safe_Qadd8A1 w s). Qed.
Print Assumptions C18_fb_Qadd8A1.

Theorem C18_fb_QdsubA1 w s : fb_safe (fb_out (QdsubA1_from_bitarray w) s) s.
Proof. exact (FbTotal4.safe_QdsubA1 w s). Qed.
Print Assumptions C18_fb_QdsubA1.

Theorem C18_fb_QsubA1 w s : fb_safe (fb_out (QsubA1_from_bitarray w) s) s.
Proof. exact (FbTotal4.safe_QsubA1 w s). Qed.
Print Assumptions C18_fb_QsubA1.

Theorem C18_fb_RevT1 w s : fb_safe (fb_out (RevT1_from_bitarray w) s) s.
Proof. exact (FbTotal4.safe_RevT1 w s). Qed.
Print Assumptions C18_fb_RevT1.

Theorem C18_fb_RorImmediateA1 w s : fb_safe (fb_out (RorImmediateA1_from_bitarray w) s) s.
Proof. exact (FbTotal4.safe_RorImmediateA1 w s). Qed.
Print Assumptions C18_fb_RorImmediateA1.

Theorem C18_fb_RsbImmediateT1 w s : fb_safe (fb_out (RsbImmediateT1_from_bitarray w) s) s.
Proof. exact (FbTotal4.safe_RsbImmediateT1 w s). Qed.
Print Assumptions C18_fb_RsbImmediateT1.

Theorem C18_fb_Sadd16A1 w s : fb_safe (fb_out (Sadd16A1_from_bitarray w) s) s.
Proof. exact (FbTotal4.safe_Sadd16A1 w s). Qed.
Print Assumptions C18_fb_Sadd16A1.

Theorem C18_fb_SbcRegisterA1 w s : fb_safe (fb_out (SbcRegisterA1_from_bitarray w) s) s.
Proof. exact (FbTotal4.safe_SbcRegisterA1 w s). Qed.
Print Assumptions C18_fb_SbcRegisterA1.

Theorem C18_fb_SelA1 w s : fb_safe (fb_out (SelA1_from_bitarray w) s) s.
Proof. exact (FbTotal4.safe_SelA1 w s). Qed.
Print Assumptions C18_fb_SelA1.

Theorem C18_fb_Shadd16T1 w s : fb_safe (fb_out (Shadd16T1_from_bitarray w) s) s.
Proof. exact (FbTotal4.safe_Shadd16T1 w s). Qed.
Print Assumptions C18_fb_Shadd16T1.

Theorem C18_fb_Shsub16T1 w s : fb_safe (fb_out (Shsub16T1_from_bitarray w) s) s.
Proof. exact (FbTotal4.safe_Shsub16T1 w s). Qed.
Print Assumptions C18_fb_Shsub16T1.

Theorem C18_fb_SmladT1 w s : fb_safe (fb_out (SmladT1_from_bitarray w) s) s.
Proof. exact (FbTotal4.safe_SmladT1 w s). Qed.
Print Assumptions C18_fb_SmladT1.

Theorem C18_fb_SmlawT1 w s : fb_safe (fb_out (SmlawT1_from_bitarray w) s) s.
Proof. exact (FbTotal4.safe_SmlawT1 w s). Qed.
Print Assumptions C18_fb_SmlawT1.

Theorem C18_fb_SmmlsT1 w s : fb_safe (fb_out (SmmlsT1_from_bitarray w) s) s.
Proof. exact (FbTotal4.safe_SmmlsT1 w s). Qed.
Print Assumptions C18_fb_SmmlsT1.

Theorem C18_fb_SmullT1 w s : fb_safe (fb_out (SmullT1_from_bitarray w) s) s.
Proof. exact (FbTotal4.safe_SmullT1 w s). Qed.
Print Assumptions C18_fb_SmullT1.

Theorem C18_fb_Ssat16A1 w s : fb_safe (fb_out (Ssat16A1_from_bitarray w) s) s.
Proof. exact (FbTotal4.safe_Ssat16A1 w s). Qed.
Print Assumptions C18_fb_Ssat16A1.

Theorem C18_fb_Ssub8A1 w s : fb_safe (fb_out (Ssub8A1_from_bitarray w) s) s.
Proof. exact (FbTotal4.safe_Ssub8A1 w s). Qed.
Print Assumptions C18_fb_Ssub8A1.

Theorem C18_fb_StmT2 w s : fb_safe (fb_out (StmT2_from_bitarray w) s) s.
Proof. exact (FbTotal4.safe_StmT2 w s). Qed.
Print Assumptions C18_fb_StmT2.

Theorem C18_fb_StrImmediateThumbT2 w s : fb_safe (fb_out (StrImmediateThumbT2_from_bitarray w) s) s.
Proof. exact (FbTotal4.safe_StrImmediateThumbT2 w s). Qed.
Print Assumptions C18_fb_StrImmediateThumbT2.

Theorem C18_fb_StrbImmediateThumbT2 w s : fb_safe (fb_out (StrbImmediateThumbT2_from_bitarray w) s) s.
Proof. exact (FbTotal4.safe_StrbImmediateThumbT2 w s). Qed.
Print Assumptions C18_fb_StrbImmediateThumbT2.

Theorem C18_fb_StrdImmediateA1 w s : fb_safe (fb_out (StrdImmediateA1_from_bitarray w) s) s.
Proof. exact (FbTotal4.safe_StrdImmediateA1 w s). Qed.
Print Assumptions C18_fb_StrdImmediateA1.

Theorem C18_fb_StrexdT1 w s : fb_safe (fb_out (StrexdT1_from_bitarray w) s) s.
Proof. exact (FbTotal4.safe_StrexdT1 w s). Qed.
Print Assumptions C18_fb_StrexdT1.

Theorem C18_fb_StrhRegisterT1 w s : fb_safe (fb_out (StrhRegisterT1_from_bitarray w) s) s.
Proof. exact (FbTotal4.safe_StrhRegisterT1 w s). Qed.
Print Assumptions C18_fb_StrhRegisterT1.

Theorem C18_fb_SubImmediateArmA1 w s : fb_safe (fb_out (SubImmediateArmA1_from_bitarray w) s) s.
Proof. exact (FbTotal4.safe_SubImmediateArmA1 w s). Qed.
Print Assumptions C18_fb_SubImmediateArmA1.

Theorem C18_fb_SubRegisterT2 w s : fb_safe (fb_out (SubRegisterT2_from_bitarray w) s) s.
Proof. exact (FbTotal4.safe_SubRegisterT2 w s). Qed.
Print Assumptions C18_fb_SubRegisterT2.

Theorem C18_fb_SubsPcLrArmA2 w s : fb_safe (fb_out (SubsPcLrArmA2_from_bitarray w) s) s.
Proof. exact (FbTotal4.safe_SubsPcLrArmA2 w s). Qed.
Print Assumptions C18_fb_SubsPcLrArmA2.

Theorem C18_fb_SxtahA1 w s : fb_safe (fb_out (SxtahA1_from_bitarray w) s) s.
Proof. exact (FbTotal4.safe_SxtahA1 w s). Qed.
Print Assumptions C18_fb_SxtahA1.

Theorem C18_fb_SxthT1 w s : fb_safe (fb_out (SxthT1_from_bitarray w) s) s.
Proof. exact (FbTotal4.safe_SxthT1 w s). Qed.
Print Assumptions C18_fb_SxthT1.

Theorem C18_fb_TstImmediateA1 w s : fb_safe (fb_out (TstImmediateA1_from_bitarray w) s) s.
Proof. exact (FbTotal4.safe_TstImmediateA1 w s). Qed.
Print Assumptions C18_fb_TstImmediateA1.

Theorem C18_fb_Uadd8A1 w s : fb_safe (fb_out (Uadd8A1_from_bitarray w) s) s.
Proof. exact (FbTotal4.safe_Uadd8A1 w s). Qed.
Print Assumptions C18_fb_Uadd8A1.

Theorem C18_fb_UdfT2 w s : fb_safe (fb_out (UdfT2_from_bitarray w) s) s.
Proof. exact (FbTotal4.safe_UdfT2 w s). Qed.
Print Assumptions C18_fb_UdfT2.

Theorem C18_fb_UhasxT1 w s : fb_safe (fb_out (UhasxT1_from_bitarray w) s) s.
Proof. exact (FbTotal4.safe_UhasxT1 w s). Qed.
Print Assumptions C18_fb_UhasxT1.

Theorem C18_fb_UmaalT1 w s : fb_safe (fb_out (UmaalT1_from_bitarray w) s) s.
Proof. exact (FbTotal4.safe_UmaalT1 w s). Qed.
Print Assumptions C18_fb_UmaalT1.

Theorem C18_fb_Uqadd8T1 w s : fb_safe (fb_out (Uqadd8T1_from_bitarray w) s) s.
Proof. exact (FbTotal4.safe_Uqadd8T1 w s). Qed.
Print Assumptions C18_fb_Uqadd8T1.

Theorem C18_fb_Uqsub8T1 w s : fb_safe (fb_out (Uqsub8T1_from_bitarray w) s) s.
Proof. exact (FbTotal4.safe_Uqsub8T1 w s). Qed.
Print Assumptions C18_fb_Uqsub8T1.

Theorem C18_fb_UsatT1 w s : fb_safe (fb_out (UsatT1_from_bitarray w) s) s.
Proof. exact (FbTotal4.safe_UsatT1 w s). Qed.
Print Assumptions C18_fb_UsatT1.

Theorem C18_fb_Uxtab16T1 w s : fb_safe (fb_out (Uxtab16T1_from_bitarray w) s) s.
Proof. exact (FbTotal4.safe_Uxtab16T1 w s). Qed.
Print Assumptions C18_fb_Uxtab16T1.

Theorem C18_fb_UxtbT1 w s : fb_safe (fb_out (UxtbT1_from_bitarray w) s) s.
Proof. exact (FbTotal4.safe_UxtbT1 w s). Qed.
Print Assumptions C18_fb_UxtbT1.

Theorem C18_fb_WfiA1 w s : fb_safe (fb_out (WfiA1_from_bitarray w) s) s.
Proof. exact (FbTotal4.safe_WfiA1 w s). Qed.
Print Assumptions C18_fb_WfiA1.
