(* Spec/Exceptions.v — exception entry as the architecture's pseudocode (ARM ARM B1.8.x/B1.9.x:
   ExcVectorBase, EnterHypMode, EnterMonitorMode, TakeUndefInstrException, TakeSVCException,
   TakeSMCException, TakeHypTrapException, TakeDataAbortException, TakePhysicalIRQException,
   TakePhysicalFIQException), one state update per pseudocode line.  Hand-written; imports nothing generated.
   The slots of the system registers are written as numbers; Proofs/ExcProofs.v ties them to the
   regenerated layout. *)
From Coq Require Import ZArith List Bool.
From ArmV Require Import Lib.PyZ Lib.Monad Lib.Machine Spec.Pseudocode Spec.Arch Spec.MachineView.
Import ListNotations.
Open Scope Z_scope.

(* system-register slots (Registers attribute order) *)
Definition i_spsr_hyp := 1. Definition i_spsr_svc := 2. Definition i_spsr_abt := 3. Definition i_spsr_und := 4.
Definition i_spsr_mon := 5. Definition i_spsr_irq := 6. Definition i_spsr_fiq := 7. Definition i_elr_hyp := 8.
Definition i_scr := 9. Definition i_sctlr := 11. Definition i_hsr := 13. Definition i_hsctlr := 14.
Definition i_hvbar := 15. Definition i_hcr := 17. Definition i_mvbar := 18. Definition i_vbar := 21.

Definition sysv (s : machine) (i : Z) : Z := getl (sys s) i.
Definition set_sysv (s : machine) (i v : Z) : machine := set_sys s (setl (sys s) i v).
Definition upd_cpsr (s : machine) (f : Z -> Z) : machine := with_cpsr s (f (cpsr_of s)).
Definition setbit (i v p : Z) : Z := insert p i i v.
Definition set_M (m p : Z) : Z := insert p 4 0 m.

Definition spsr_index (mode : Z) : option Z :=
  if mode =? M_fiq then Some i_spsr_fiq else if mode =? M_irq then Some i_spsr_irq
  else if mode =? M_svc then Some i_spsr_svc else if mode =? M_mon then Some i_spsr_mon
  else if mode =? M_abt then Some i_spsr_abt else if mode =? M_hyp then Some i_spsr_hyp
  else if mode =? M_und then Some i_spsr_und else None.
(* SPSR[] := v  (banked on the *current* mode) *)
Definition set_SPSR (s : machine) (v : Z) : machine :=
  match spsr_index (mode_of s) with Some i => set_sysv s i v | None => s end.

Record xcfg := { x_sec : bool; x_virt : bool; x_irq_vec : Z; x_fiq_vec : Z }.

Definition SCR s := sysv s i_scr.      Definition SCTLR s := sysv s i_sctlr.
Definition HSCTLR s := sysv s i_hsctlr. Definition HCR s := sysv s i_hcr.
Definition scr_ns s := bit (SCR s) 0.  Definition scr_irq s := bit (SCR s) 1. Definition scr_fiq s := bit (SCR s) 2.
Definition scr_ea s := bit (SCR s) 3.  Definition scr_fw s := bit (SCR s) 4.  Definition scr_aw s := bit (SCR s) 5.
Definition hcr_tge s := bit (HCR s) 27. Definition hcr_amo s := bit (HCR s) 5.
Definition hcr_imo s := bit (HCR s) 4.  Definition hcr_fmo s := bit (HCR s) 3.
Definition sctlr_v s := bit (SCTLR s) 13. Definition sctlr_ve s := bit (SCTLR s) 24.
Definition sctlr_ee s := bit (SCTLR s) 25. Definition sctlr_te s := bit (SCTLR s) 30.
Definition hsctlr_ee s := bit (HSCTLR s) 25. Definition hsctlr_te s := bit (HSCTLR s) 30.

Definition is_secure (x : xcfg) (s : machine) : bool :=
  negb (x_sec x) || (scr_ns s =? 0) || (mode_of s =? M_mon).

Definition ExcVectorBase (x : xcfg) (s : machine) : Z :=
  if sctlr_v s =? 1 then 4294901760 else if x_sec x then sysv s i_vbar else 0.

Definition add32 (a b : Z) := (a + b) mod 2 ^ 32.
Definition sub32 (a b : Z) := (a - b) mod 2 ^ 32.

(* if CPSR.M == '10110' then SCR.NS = '0' *)
Definition clear_ns_if_mon (s : machine) : machine :=
  if mode_of s =? M_mon then set_sysv s i_scr (setbit 0 0 (SCR s)) else s.

Definition EnterHypMode (s : machine) (new_spsr pref_ret vect_offset : Z) : machine :=
  let s := upd_cpsr s (set_M M_hyp) in
  let s := set_SPSR s new_spsr in
  let s := set_sysv s i_elr_hyp pref_ret in
  let s := upd_cpsr s (setbit 24 0) in
  let s := upd_cpsr s (setbit 5 (hsctlr_te s)) in
  let s := upd_cpsr s (setbit 9 (hsctlr_ee s)) in
  let s := if scr_ea s =? 0 then upd_cpsr s (setbit 8 1) else s in
  let s := if scr_fiq s =? 0 then upd_cpsr s (setbit 6 1) else s in
  let s := if scr_irq s =? 0 then upd_cpsr s (setbit 7 1) else s in
  let s := upd_cpsr s (fun p => with_IT p 0) in
  branch_to s (add32 (sysv s i_hvbar) vect_offset).

Definition EnterMonitorMode (s : machine) (new_spsr new_lr vect_offset : Z) : machine :=
  let s := upd_cpsr s (set_M M_mon) in
  let s := set_SPSR s new_spsr in
  let s := rset s 14 new_lr in
  let s := upd_cpsr s (setbit 24 0) in
  let s := upd_cpsr s (setbit 5 (sctlr_te s)) in
  let s := upd_cpsr s (setbit 9 (sctlr_ee s)) in
  let s := upd_cpsr s (setbit 8 1) in
  let s := upd_cpsr s (setbit 6 1) in
  let s := upd_cpsr s (setbit 7 1) in
  let s := upd_cpsr s (fun p => with_IT p 0) in
  branch_to s (add32 (sysv s i_mvbar) vect_offset).

(* the common tail of the entries to Und/Svc/Abt/Irq/Fiq modes *)
Definition mask_ok (x : xcfg) (s : machine) (w : Z) : bool :=
  negb (x_sec x) || x_virt x || (scr_ns s =? 0) || (w =? 1).
Inductive masks := MaskI | MaskIA | MaskIFA.
Definition EnterBankedMode (x : xcfg) (s : machine) (mode new_spsr new_lr : Z) (mk : masks) (target : machine -> Z) : machine :=
  let s := upd_cpsr s (set_M mode) in
  let s := set_SPSR s new_spsr in
  let s := rset s 14 new_lr in
  let s := upd_cpsr s (setbit 7 1) in
  let s := match mk with MaskIFA => if mask_ok x s (scr_fw s) then upd_cpsr s (setbit 6 1) else s | _ => s end in
  let s := match mk with MaskI => s | _ => if mask_ok x s (scr_aw s) then upd_cpsr s (setbit 8 1) else s end in
  let s := upd_cpsr s (fun p => with_IT p 0) in
  let s := upd_cpsr s (setbit 24 0) in
  let s := upd_cpsr s (setbit 5 (sctlr_te s)) in
  let s := upd_cpsr s (setbit 9 (sctlr_ee s)) in
  branch_to s (target s).

Definition it_adv (s : machine) : machine := upd_cpsr s (fun p => with_IT p (ITAdvance (psr_IT p))).
Definition thumb (s : machine) : bool := psr_T (cpsr_of s) =? 1.
Definition pc_val (s : machine) : Z := PCRead (cpsr_of s) (pc_of s).

Definition take_to_hyp (x : xcfg) (s : machine) : bool :=
  x_virt x && x_sec x && (scr_ns s =? 1) && (mode_of s =? M_hyp).
Definition tge_route (x : xcfg) (s : machine) : bool :=
  x_virt x && x_sec x && negb (is_secure x s) && (hcr_tge s =? 1) && (mode_of s =? M_usr).

Definition TakeUndefInstrException (x : xcfg) (s : machine) : machine :=
  let new_lr := if thumb s then sub32 (pc_val s) 2 else sub32 (pc_val s) 4 in
  let new_spsr := cpsr_of s in
  let pref := sub32 new_lr (if thumb s then 2 else 4) in
  if take_to_hyp x s then EnterHypMode s new_spsr pref 4
  else if tge_route x s then EnterHypMode s new_spsr pref 20
  else EnterBankedMode x (clear_ns_if_mon s) M_und new_spsr new_lr MaskI (fun s => add32 (ExcVectorBase x s) 4).

Definition TakeSVCException (x : xcfg) (s0 : machine) : machine :=
  let s := it_adv s0 in
  let new_lr := if thumb s then sub32 (pc_val s) 2 else sub32 (pc_val s) 4 in
  let new_spsr := cpsr_of s in
  if take_to_hyp x s then EnterHypMode s new_spsr new_lr 8
  else if tge_route x s then EnterHypMode s new_spsr new_lr 20
  else EnterBankedMode x (clear_ns_if_mon s) M_svc new_spsr new_lr MaskI (fun s => add32 (ExcVectorBase x s) 8).

Definition TakeSMCException (s0 : machine) : machine :=
  let s := it_adv s0 in
  let new_lr := if thumb s then pc_val s else sub32 (pc_val s) 4 in
  EnterMonitorMode (clear_ns_if_mon s) (cpsr_of s) new_lr 8.

Definition TakeHypTrapException (s : machine) : machine :=
  let pref := if thumb s then sub32 (pc_val s) 4 else sub32 (pc_val s) 8 in
  EnterHypMode s (cpsr_of s) pref 20.

(* Data abort.  In this emulator IsExternalAbort, IsAsyncAbort and DebugException are constant FALSE (there
   are no external or asynchronous aborts and no debug events), so the routing conditions are those of the
   pseudocode with these three terms false; [second_stage] and [alignment] describe the abort taken. *)
Definition TakeDataAbortException (x : xcfg) (s : machine) (second_stage alignment : bool) : machine :=
  let new_lr := if thumb s then add32 (pc_val s) 4 else pc_val s in
  let new_spsr := cpsr_of s in
  let pref := sub32 new_lr 8 in
  let route_to_hyp := x_virt x && x_sec x && negb (is_secure x s) &&
                      (second_stage || ((mode_of s =? M_usr) && (hcr_tge s =? 1) && alignment)) in
  if take_to_hyp x s then EnterHypMode s new_spsr pref 16
  else if route_to_hyp then EnterHypMode s new_spsr pref 20
  else EnterBankedMode x (if x_sec x then clear_ns_if_mon s else s) M_abt new_spsr new_lr MaskIA
         (fun s => add32 (ExcVectorBase x s) 16).

Definition TakePhysicalIRQException (x : xcfg) (s : machine) : machine :=
  let new_lr := if thumb s then pc_val s else sub32 (pc_val s) 4 in
  let new_spsr := cpsr_of s in
  let route_to_monitor := x_sec x && (scr_irq s =? 1) in
  let route_to_hyp := (x_virt x && x_sec x && (scr_irq s =? 0) && (hcr_imo s =? 1) && negb (is_secure x s))
                      || (mode_of s =? M_hyp) in
  if route_to_monitor then EnterMonitorMode (clear_ns_if_mon s) new_spsr new_lr 24
  else if route_to_hyp then EnterHypMode (set_sysv s i_hsr 0) new_spsr (sub32 new_lr 4) 24
  else EnterBankedMode x (clear_ns_if_mon s) M_irq new_spsr new_lr MaskIA
         (fun s => if sctlr_ve s =? 1 then x_irq_vec x else add32 (ExcVectorBase x s) 24).

Definition TakePhysicalFIQException (x : xcfg) (s : machine) : machine :=
  let new_lr := if thumb s then pc_val s else sub32 (pc_val s) 4 in
  let new_spsr := cpsr_of s in
  let route_to_monitor := x_sec x && (scr_fiq s =? 1) in
  let route_to_hyp := (x_virt x && x_sec x && (scr_fiq s =? 0) && (hcr_fmo s =? 1) && negb (is_secure x s))
                      || (mode_of s =? M_hyp) in
  if route_to_monitor then EnterMonitorMode (clear_ns_if_mon s) new_spsr new_lr 28
  else if route_to_hyp then EnterHypMode (set_sysv s i_hsr 0) new_spsr (sub32 new_lr 4) 28
  else EnterBankedMode x (clear_ns_if_mon s) M_fiq new_spsr new_lr MaskIFA
         (fun s => if sctlr_ve s =? 1 then x_fiq_vec x else add32 (ExcVectorBase x s) 28).

(* B1.9.1 TakeReset.  ResetControlRegisters() is, in this emulator, "VBAR := its reset value" (the other control
   registers keep the values they were constructed with); the three optional-feature writes are FPEXC.EN,
   TEECR.XED and JMCR.JE := 0. *)
Record rcfg := { r_vfp : bool; r_thumbee : bool; r_jazelle : bool; r_vbar_reset : Z; r_impdef_vector : option Z }.
Definition i_fpexc := 113. Definition i_teecr := 46. Definition i_jmcr := 16.
Definition clear_sysbit (s : machine) (i b : Z) : machine := set_sysv s i (setbit b 0 (sysv s i)).
Definition TakeReset (x : xcfg) (r : rcfg) (s : machine) : machine :=
  let s := upd_cpsr s (set_M M_svc) in
  let s := if x_sec x then clear_sysbit s i_scr 0 else s in
  let s := set_sysv s i_vbar (r_vbar_reset r) in
  let s := if r_vfp r then clear_sysbit s i_fpexc 30 else s in
  let s := if r_thumbee r then clear_sysbit s i_teecr 0 else s in
  let s := if r_jazelle r then clear_sysbit s i_jmcr 0 else s in
  let s := upd_cpsr s (setbit 7 1) in
  let s := upd_cpsr s (setbit 6 1) in
  let s := upd_cpsr s (setbit 8 1) in
  let s := upd_cpsr s (fun p => with_IT p 0) in
  let s := upd_cpsr s (setbit 24 0) in
  let s := upd_cpsr s (setbit 5 (sctlr_te s)) in
  let s := upd_cpsr s (setbit 9 (sctlr_ee s)) in
  branch_to s (clear_low (match r_impdef_vector r with Some v => v | None => ExcVectorBase x s end) 1).
