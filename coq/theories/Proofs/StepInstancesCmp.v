(* Proofs/StepInstancesCmp.v — the comparison instructions end to end: generic statement for dp_sem without a destination
   (flags only: every register unchanged, PC + length) and, GENERATED (one block per encoding, same script), TST, TEQ, CMP, CMN
   (immediate, ARM A1) on the whole cube of the encoding. *)
Set Default Timeout 240.
From Coq Require Import ZArith List Bool Lia ZifyBool.
From ArmV Require Import Lib.PyZ Lib.Monad Lib.Machine Spec.Pseudocode Spec.Arch Spec.MachineView Spec.Branches Spec.StepFrame
  Spec.OperandSpec Spec.DPSem
  Proofs.SpecFacts Proofs.StateLemmas Proofs.CondProofs Proofs.GuardProofs Proofs.BankProofs Proofs.MachineOps Proofs.DPLemmas Proofs.DPFrame
  Proofs.DPClasses0 Proofs.DPClasses1 Proofs.DPClasses2 Proofs.DPClasses3 Proofs.DPClasses4 Proofs.DPClasses5 Proofs.DPClasses6 Proofs.DPClasses7
  Proofs.StepProofs Proofs.StepDP Proofs.DPRange Proofs.StepDPReg Proofs.StepInstances Proofs.StepInstancesArm Proofs.OpTac
  Proofs.OpsA0 Proofs.OpsA1 Proofs.OpsA2 Proofs.OpsA3 Proofs.OpsA4 Proofs.OpsA5 Proofs.OpsA6 Proofs.OpsA7.
From Gen Require Import enums bits_ops shift regviews records hubm opsyn core exec conc decoders step.
Import ListNotations.
Open Scope Z_scope.
Ltac Zify.zify_post_hook ::= Z.to_euclidean_division_equations.

Theorem dp_cmp_step cfg s w s1 enc op opA S n o :
  ArmV6_fetch_instruction cfg s = Ok w s1 ->
  ArmV6_decode_instruction w s1 = Ok (Some enc) s1 ->
  from_bitarray_dispatch cfg enc w s1 = Ok (Some op) s1 ->
  execute_dispatch cfg op (begin_instr s1 op) = dp_sem cfg opA S None n o (begin_instr s1 op) ->
  ictx cfg s1 -> 0 <= n <= 15 -> op2_valid o ->
  exists s2,
    dp_sem cfg opA S None n o (begin_instr s1 op) = Ok tt s2 /\
    ArmV6_emulate_cycle cfg s = Ok tt (AdvancePC (it_step_after s1 s2)) /\
    pc_of (AdvancePC (it_step_after s1 s2)) = add32 (pc_of s1) (opcode_len s1 / 8) /\
    (forall k, 0 <= k -> k <> pc_index -> getl (R (AdvancePC (it_step_after s1 s2))) k = getl (R s1) k).
Proof.
  intros Hf Hdec Hfb Hex Hctx Hn Ho.
  assert (Hs2 : exists s2, dp_sem cfg opA S None n o (begin_instr s1 op) = Ok tt s2).
  { unfold dp_sem. destruct (eval_op2 _ o) as [op2 shc]. destruct (dp_alu _ _ _ _) as [result cv]. eexists; reflexivity. }
  destruct Hs2 as [s2 Hs2]. exists s2. split; [exact Hs2|].
  pose proof (dp_sem_ictx cfg opA S None n o _ s2 (ictx_begin cfg s1 op Hctx) Hn Ho I Hs2) as Hctx2.
  destruct (dp_sem_cmp_regs cfg opA S n o _ s2 Hs2) as [HR Hch].
  assert (Hlen : opcode_len s2 = opcode_len s1).
  { revert Hs2. unfold dp_sem. destruct (eval_op2 _ o) as [op2 shc]. destruct (dp_alu _ _ _ _) as [result cv]. intros H; inversion H. reflexivity. }
  rewrite Hs2 in Hex.
  split.
  - apply (step_completes cfg s w s1 enc op s2 Hf Hdec Hfb Hex).
    + apply (ok_cpsr cfg s2 (i_ok cfg s2 Hctx2)).
    + apply (ok_changed_len cfg s2 (i_ok cfg s2 Hctx2)).
  - pose proof (ok_R_len cfg s2 (i_ok cfg s2 Hctx2)) as HL2.
    assert (E : AdvancePC (it_step_after s1 s2) =
                set_R (it_step_after s1 s2) (setl (R s1) pc_index (add32 (pc_of s1) (opcode_len s1 / 8)))).
    { unfold AdvancePC, pc_written, it_step_after.
      destruct (InITBlock (psr_IT (cpsr_of s1))); unfold it_advance_state; cbn [changed R opcode_len set_sys];
        rewrite Hch; cbn [begin_instr changed set_executed set_changed]; change (getl (repeat 0 16) 15) with 0; cbn [Z.eqb negb]; cbv iota;
        unfold pc_of; cbn [R set_sys]; rewrite HR, Hlen; reflexivity. }
    rewrite E. split.
    + unfold pc_of at 1. cbn [R set_R]. apply getl_setl_same. unfold pc_index.
      pose proof (ok_R_len cfg s1 (i_ok cfg s1 Hctx)) as HL1. rewrite HL1. lia.
    + intros k Hk Hne. cbn [R set_R]. apply getl_setl_other; unfold pc_index in *; lia.
Qed.

(* cond != 1111, bits 27:25 = 001, opcode = o24:o23:o22:o21, S = 1, Rn in r0-r12 *)
Definition is_cmp_imm_a1 (o24 o23 o22 o21 w : Z) : Prop :=
  bits w 31 28 <> 15 /\ bit w 27 = 0 /\ bit w 26 = 0 /\ bit w 25 = 1 /\ bit w 24 = o24 /\ bit w 23 = o23 /\ bit w 22 = o22 /\ bit w 21 = o21
  /\ bit w 20 = 1 /\ regs13 [bits w 19 16] = true.

(* ================= TstImmediateA1 ================= *)
Lemma decode_TstImmediateA1 w s : 0 <= w < 2 ^ 32 -> is_cmp_imm_a1 1 0 0 0 w -> iset_of s = 0 ->
  ArmV6_decode_instruction w s = Ok (Some enc_TstImmediateA1) s.
Proof.
  intros Hw (Hc & H27 & H26 & H25 & H24 & H23 & H22 & H21 & H20 & Hr) Hi. split_regs.
  unfold ArmV6_decode_instruction, op_decode_instruction.
  rewrite !run_bind, current_instr_set_spec. cbv beta iota. rewrite Hi. unfold InstrSet_ARM. cbn [Z.eqb]. cbv iota.
  rewrite run_bind.
  assert (D : dec_arm_instruction_set w = Val (Some enc_TstImmediateA1)).
  { dec_step dec_arm_instruction_set. pose_expand w 27 25. pose_expand w 27 26. ops_if. cbn [ebind].
    dec_step dec_arm_data_processing_and_miscellaneous_instructions. pose_expand w 24 23. ops_if. cbn [ebind].
    dec_step dec_arm_data_processing_immediate. pose_expand w 24 21. pose_expand w 24 20. ops_if. reflexivity. }
  rewrite D. reflexivity.
Qed.
Lemma from_bitarray_TstImmediateA1 cfg w s : 0 <= w < 2 ^ 32 -> is_cmp_imm_a1 1 0 0 0 w ->
  from_bitarray_dispatch cfg enc_TstImmediateA1 w s = Ok (Some (code_TstImmediate, [w; bits w 19 16; ARMExpandImm (bits w 11 0); snd (ARMExpandImm_C (bits w 11 0) (cflag s))])) s.
Proof.
  intros Hw (_ & _ & _ & _ & _ & _ & _ & _ & _ & Hr).
  pose proof (ops_TstImmediateA1 w s Hw Hr) as H. unfold fb_out, fb_plain, fb_opt, fb_res, fb_res_opt, fb_m, fb_m_opt in H.
  unfold from_bitarray_dispatch, enc_TstImmediateA1. cbv iota. unfold bind, ret, lift in *.
  repeat match goal with
  | H : match ?x with _ => _ end = _ |- context[?x] => destruct x; try discriminate H
  end.
  inversion H. reflexivity.
Qed.
Theorem tstImmediateA1_step cfg s w s1 :
  ArmV6_fetch_instruction cfg s = Ok w s1 ->
  0 <= w < 2 ^ 32 -> is_cmp_imm_a1 1 0 0 0 w -> iset_of s1 = 0 -> ictx cfg s1 -> cond_holds s1 ->
  let n := bits w 19 16 in let imm32 := ARMExpandImm (bits w 11 0) in let c := (snd (ARMExpandImm_C (bits w 11 0) (cflag s1))) in
  let op := (code_TstImmediate, [w; bits w 19 16; ARMExpandImm (bits w 11 0); snd (ARMExpandImm_C (bits w 11 0) (cflag s1))]) in
  exists s2,
    dp_sem cfg AND 1 None n (Op2Imm imm32 c) (begin_instr s1 op) = Ok tt s2 /\
    ArmV6_emulate_cycle cfg s = Ok tt (AdvancePC (it_step_after s1 s2)) /\
    pc_of (AdvancePC (it_step_after s1 s2)) = add32 (pc_of s1) (opcode_len s1 / 8) /\
    (forall k, 0 <= k -> k <> pc_index -> getl (R (AdvancePC (it_step_after s1 s2))) k = getl (R s1) k).
Proof.
  intros Hf Hw Hcube Hi Hctx Hcond. pose_all_ranges. intros n imm32 c op.
  pose proof Hcube as (_ & _ & _ & _ & _ & _ & _ & _ & _ & Hr). split_regs.
  assert (Qn : 0 <= n <= 15) by (unfold n; lia).
  assert (Wi : word imm32) by (apply word_ARMExpandImm; lia).
  assert (Wc : 0 <= c <= 1) by (unfold c; first [lia | apply snd_ARMExpandImm_C_range; [lia|apply psr_C_range]]).
  apply (dp_cmp_step cfg s w s1 enc_TstImmediateA1 op AND 1 n (Op2Imm imm32 c) Hf); try assumption.
  - apply decode_TstImmediateA1; assumption.
  - apply from_bitarray_TstImmediateA1; assumption.
  - change (execute_dispatch cfg op (begin_instr s1 op)) with (TstImmediate_execute cfg w (bits w 19 16) (ARMExpandImm (bits w 11 0)) (snd (ARMExpandImm_C (bits w 11 0) (cflag s1))) (begin_instr s1 op)).
    apply TstImmediate_sem; try lia; try exact Wi; try exact Wc; [apply ictx_begin; exact Hctx|apply cond_holds_begin; exact Hcond].
  - split; assumption.
Qed.

(* ================= TeqImmediateA1 ================= *)
Lemma decode_TeqImmediateA1 w s : 0 <= w < 2 ^ 32 -> is_cmp_imm_a1 1 0 0 1 w -> iset_of s = 0 ->
  ArmV6_decode_instruction w s = Ok (Some enc_TeqImmediateA1) s.
Proof.
  intros Hw (Hc & H27 & H26 & H25 & H24 & H23 & H22 & H21 & H20 & Hr) Hi. split_regs.
  unfold ArmV6_decode_instruction, op_decode_instruction.
  rewrite !run_bind, current_instr_set_spec. cbv beta iota. rewrite Hi. unfold InstrSet_ARM. cbn [Z.eqb]. cbv iota.
  rewrite run_bind.
  assert (D : dec_arm_instruction_set w = Val (Some enc_TeqImmediateA1)).
  { dec_step dec_arm_instruction_set. pose_expand w 27 25. pose_expand w 27 26. ops_if. cbn [ebind].
    dec_step dec_arm_data_processing_and_miscellaneous_instructions. pose_expand w 24 23. ops_if. cbn [ebind].
    dec_step dec_arm_data_processing_immediate. pose_expand w 24 21. pose_expand w 24 20. ops_if. reflexivity. }
  rewrite D. reflexivity.
Qed.
Lemma from_bitarray_TeqImmediateA1 cfg w s : 0 <= w < 2 ^ 32 -> is_cmp_imm_a1 1 0 0 1 w ->
  from_bitarray_dispatch cfg enc_TeqImmediateA1 w s = Ok (Some (code_TeqImmediate, [w; bits w 19 16; ARMExpandImm (bits w 11 0); snd (ARMExpandImm_C (bits w 11 0) (cflag s))])) s.
Proof.
  intros Hw (_ & _ & _ & _ & _ & _ & _ & _ & _ & Hr).
  pose proof (ops_TeqImmediateA1 w s Hw Hr) as H. unfold fb_out, fb_plain, fb_opt, fb_res, fb_res_opt, fb_m, fb_m_opt in H.
  unfold from_bitarray_dispatch, enc_TeqImmediateA1. cbv iota. unfold bind, ret, lift in *.
  repeat match goal with
  | H : match ?x with _ => _ end = _ |- context[?x] => destruct x; try discriminate H
  end.
  inversion H. reflexivity.
Qed.
Theorem teqImmediateA1_step cfg s w s1 :
  ArmV6_fetch_instruction cfg s = Ok w s1 ->
  0 <= w < 2 ^ 32 -> is_cmp_imm_a1 1 0 0 1 w -> iset_of s1 = 0 -> ictx cfg s1 -> cond_holds s1 ->
  let n := bits w 19 16 in let imm32 := ARMExpandImm (bits w 11 0) in let c := (snd (ARMExpandImm_C (bits w 11 0) (cflag s1))) in
  let op := (code_TeqImmediate, [w; bits w 19 16; ARMExpandImm (bits w 11 0); snd (ARMExpandImm_C (bits w 11 0) (cflag s1))]) in
  exists s2,
    dp_sem cfg EOR 1 None n (Op2Imm imm32 c) (begin_instr s1 op) = Ok tt s2 /\
    ArmV6_emulate_cycle cfg s = Ok tt (AdvancePC (it_step_after s1 s2)) /\
    pc_of (AdvancePC (it_step_after s1 s2)) = add32 (pc_of s1) (opcode_len s1 / 8) /\
    (forall k, 0 <= k -> k <> pc_index -> getl (R (AdvancePC (it_step_after s1 s2))) k = getl (R s1) k).
Proof.
  intros Hf Hw Hcube Hi Hctx Hcond. pose_all_ranges. intros n imm32 c op.
  pose proof Hcube as (_ & _ & _ & _ & _ & _ & _ & _ & _ & Hr). split_regs.
  assert (Qn : 0 <= n <= 15) by (unfold n; lia).
  assert (Wi : word imm32) by (apply word_ARMExpandImm; lia).
  assert (Wc : 0 <= c <= 1) by (unfold c; first [lia | apply snd_ARMExpandImm_C_range; [lia|apply psr_C_range]]).
  apply (dp_cmp_step cfg s w s1 enc_TeqImmediateA1 op EOR 1 n (Op2Imm imm32 c) Hf); try assumption.
  - apply decode_TeqImmediateA1; assumption.
  - apply from_bitarray_TeqImmediateA1; assumption.
  - change (execute_dispatch cfg op (begin_instr s1 op)) with (TeqImmediate_execute cfg w (bits w 19 16) (ARMExpandImm (bits w 11 0)) (snd (ARMExpandImm_C (bits w 11 0) (cflag s1))) (begin_instr s1 op)).
    apply TeqImmediate_sem; try lia; try exact Wi; try exact Wc; [apply ictx_begin; exact Hctx|apply cond_holds_begin; exact Hcond].
  - split; assumption.
Qed.

(* ================= CmpImmediateA1 ================= *)
Lemma decode_CmpImmediateA1 w s : 0 <= w < 2 ^ 32 -> is_cmp_imm_a1 1 0 1 0 w -> iset_of s = 0 ->
  ArmV6_decode_instruction w s = Ok (Some enc_CmpImmediateA1) s.
Proof.
  intros Hw (Hc & H27 & H26 & H25 & H24 & H23 & H22 & H21 & H20 & Hr) Hi. split_regs.
  unfold ArmV6_decode_instruction, op_decode_instruction.
  rewrite !run_bind, current_instr_set_spec. cbv beta iota. rewrite Hi. unfold InstrSet_ARM. cbn [Z.eqb]. cbv iota.
  rewrite run_bind.
  assert (D : dec_arm_instruction_set w = Val (Some enc_CmpImmediateA1)).
  { dec_step dec_arm_instruction_set. pose_expand w 27 25. pose_expand w 27 26. ops_if. cbn [ebind].
    dec_step dec_arm_data_processing_and_miscellaneous_instructions. pose_expand w 24 23. ops_if. cbn [ebind].
    dec_step dec_arm_data_processing_immediate. pose_expand w 24 21. pose_expand w 24 20. ops_if. reflexivity. }
  rewrite D. reflexivity.
Qed.
Lemma from_bitarray_CmpImmediateA1 cfg w s : 0 <= w < 2 ^ 32 -> is_cmp_imm_a1 1 0 1 0 w ->
  from_bitarray_dispatch cfg enc_CmpImmediateA1 w s = Ok (Some (code_CmpImmediate, [w; bits w 19 16; ARMExpandImm (bits w 11 0)])) s.
Proof.
  intros Hw (_ & _ & _ & _ & _ & _ & _ & _ & _ & Hr).
  pose proof (ops_CmpImmediateA1 w s Hw Hr) as H. unfold fb_out, fb_plain, fb_opt, fb_res, fb_res_opt, fb_m, fb_m_opt in H.
  unfold from_bitarray_dispatch, enc_CmpImmediateA1. cbv iota. unfold bind, ret, lift in *.
  repeat match goal with
  | H : match ?x with _ => _ end = _ |- context[?x] => destruct x; try discriminate H
  end.
  inversion H. reflexivity.
Qed.
Theorem cmpImmediateA1_step cfg s w s1 :
  ArmV6_fetch_instruction cfg s = Ok w s1 ->
  0 <= w < 2 ^ 32 -> is_cmp_imm_a1 1 0 1 0 w -> iset_of s1 = 0 -> ictx cfg s1 -> cond_holds s1 ->
  let n := bits w 19 16 in let imm32 := ARMExpandImm (bits w 11 0) in let c := 0 in
  let op := (code_CmpImmediate, [w; bits w 19 16; ARMExpandImm (bits w 11 0)]) in
  exists s2,
    dp_sem cfg SUB 1 None n (Op2Imm imm32 c) (begin_instr s1 op) = Ok tt s2 /\
    ArmV6_emulate_cycle cfg s = Ok tt (AdvancePC (it_step_after s1 s2)) /\
    pc_of (AdvancePC (it_step_after s1 s2)) = add32 (pc_of s1) (opcode_len s1 / 8) /\
    (forall k, 0 <= k -> k <> pc_index -> getl (R (AdvancePC (it_step_after s1 s2))) k = getl (R s1) k).
Proof.
  intros Hf Hw Hcube Hi Hctx Hcond. pose_all_ranges. intros n imm32 c op.
  pose proof Hcube as (_ & _ & _ & _ & _ & _ & _ & _ & _ & Hr). split_regs.
  assert (Qn : 0 <= n <= 15) by (unfold n; lia).
  assert (Wi : word imm32) by (apply word_ARMExpandImm; lia).
  assert (Wc : 0 <= c <= 1) by (unfold c; first [lia | apply snd_ARMExpandImm_C_range; [lia|apply psr_C_range]]).
  apply (dp_cmp_step cfg s w s1 enc_CmpImmediateA1 op SUB 1 n (Op2Imm imm32 c) Hf); try assumption.
  - apply decode_CmpImmediateA1; assumption.
  - apply from_bitarray_CmpImmediateA1; assumption.
  - change (execute_dispatch cfg op (begin_instr s1 op)) with (CmpImmediate_execute cfg w (bits w 19 16) (ARMExpandImm (bits w 11 0)) (begin_instr s1 op)).
    apply CmpImmediate_sem; try lia; try exact Wi; try exact Wc; [apply ictx_begin; exact Hctx|apply cond_holds_begin; exact Hcond].
  - split; assumption.
Qed.

(* ================= CmnImmediateA1 ================= *)
Lemma decode_CmnImmediateA1 w s : 0 <= w < 2 ^ 32 -> is_cmp_imm_a1 1 0 1 1 w -> iset_of s = 0 ->
  ArmV6_decode_instruction w s = Ok (Some enc_CmnImmediateA1) s.
Proof.
  intros Hw (Hc & H27 & H26 & H25 & H24 & H23 & H22 & H21 & H20 & Hr) Hi. split_regs.
  unfold ArmV6_decode_instruction, op_decode_instruction.
  rewrite !run_bind, current_instr_set_spec. cbv beta iota. rewrite Hi. unfold InstrSet_ARM. cbn [Z.eqb]. cbv iota.
  rewrite run_bind.
  assert (D : dec_arm_instruction_set w = Val (Some enc_CmnImmediateA1)).
  { dec_step dec_arm_instruction_set. pose_expand w 27 25. pose_expand w 27 26. ops_if. cbn [ebind].
    dec_step dec_arm_data_processing_and_miscellaneous_instructions. pose_expand w 24 23. ops_if. cbn [ebind].
    dec_step dec_arm_data_processing_immediate. pose_expand w 24 21. pose_expand w 24 20. ops_if. reflexivity. }
  rewrite D. reflexivity.
Qed.
Lemma from_bitarray_CmnImmediateA1 cfg w s : 0 <= w < 2 ^ 32 -> is_cmp_imm_a1 1 0 1 1 w ->
  from_bitarray_dispatch cfg enc_CmnImmediateA1 w s = Ok (Some (code_CmnImmediate, [w; bits w 19 16; ARMExpandImm (bits w 11 0)])) s.
Proof.
  intros Hw (_ & _ & _ & _ & _ & _ & _ & _ & _ & Hr).
  pose proof (ops_CmnImmediateA1 w s Hw Hr) as H. unfold fb_out, fb_plain, fb_opt, fb_res, fb_res_opt, fb_m, fb_m_opt in H.
  unfold from_bitarray_dispatch, enc_CmnImmediateA1. cbv iota. unfold bind, ret, lift in *.
  repeat match goal with
  | H : match ?x with _ => _ end = _ |- context[?x] => destruct x; try discriminate H
  end.
  inversion H. reflexivity.
Qed.
Theorem cmnImmediateA1_step cfg s w s1 :
  ArmV6_fetch_instruction cfg s = Ok w s1 ->
  0 <= w < 2 ^ 32 -> is_cmp_imm_a1 1 0 1 1 w -> iset_of s1 = 0 -> ictx cfg s1 -> cond_holds s1 ->
  let n := bits w 19 16 in let imm32 := ARMExpandImm (bits w 11 0) in let c := 0 in
  let op := (code_CmnImmediate, [w; bits w 19 16; ARMExpandImm (bits w 11 0)]) in
  exists s2,
    dp_sem cfg ADD 1 None n (Op2Imm imm32 c) (begin_instr s1 op) = Ok tt s2 /\
    ArmV6_emulate_cycle cfg s = Ok tt (AdvancePC (it_step_after s1 s2)) /\
    pc_of (AdvancePC (it_step_after s1 s2)) = add32 (pc_of s1) (opcode_len s1 / 8) /\
    (forall k, 0 <= k -> k <> pc_index -> getl (R (AdvancePC (it_step_after s1 s2))) k = getl (R s1) k).
Proof.
  intros Hf Hw Hcube Hi Hctx Hcond. pose_all_ranges. intros n imm32 c op.
  pose proof Hcube as (_ & _ & _ & _ & _ & _ & _ & _ & _ & Hr). split_regs.
  assert (Qn : 0 <= n <= 15) by (unfold n; lia).
  assert (Wi : word imm32) by (apply word_ARMExpandImm; lia).
  assert (Wc : 0 <= c <= 1) by (unfold c; first [lia | apply snd_ARMExpandImm_C_range; [lia|apply psr_C_range]]).
  apply (dp_cmp_step cfg s w s1 enc_CmnImmediateA1 op ADD 1 n (Op2Imm imm32 c) Hf); try assumption.
  - apply decode_CmnImmediateA1; assumption.
  - apply from_bitarray_CmnImmediateA1; assumption.
  - change (execute_dispatch cfg op (begin_instr s1 op)) with (CmnImmediate_execute cfg w (bits w 19 16) (ARMExpandImm (bits w 11 0)) (begin_instr s1 op)).
    apply CmnImmediate_sem; try lia; try exact Wi; try exact Wc; [apply ictx_begin; exact Hctx|apply cond_holds_begin; exact Hcond].
  - split; assumption.
Qed.
