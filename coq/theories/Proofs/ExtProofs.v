(* Proofs/ExtProofs.v — the extend (and add) family SXTB ... UXTAB16 proved equal to Spec/Arith2.v. *)
From Coq Require Import ZArith List Bool Lia ZifyBool.
From ArmV Require Import Lib.PyZ Lib.Monad Lib.Machine Spec.Pseudocode Spec.Expected Spec.Arch
  Proofs.BitLemmas Proofs.SpecFacts Proofs.BitsOps Proofs.BitsOps2 Proofs.ShiftOps Proofs.FieldsProofs Proofs.StateLemmas
  Proofs.CondProofs Proofs.GuardProofs Proofs.BankProofs Proofs.MachineOps Proofs.DPLemmas Proofs.DPTactics Proofs.BranchProofs
  Proofs.LSProofs Proofs.BlockProofs Spec.MachineView Spec.Arith Spec.Arith2 Proofs.ArithProofs Proofs.ArithProofs2 Proofs.ParProofs.
From Gen Require Import enums bits_ops shift regviews records hubm opsyn core exec.
Import ListNotations.
Open Scope Z_scope.
(* a sentence that runs this long no longer matches the code it was written for: fail instead of searching *)
Set Default Timeout 240.
Ltac Zify.zify_post_hook ::= Z.to_euclidean_division_equations.

Theorem ror_spec N x n : 0 < N -> 0 <= x < 2 ^ N -> 0 <= n -> ror x N n = Val (ROR N x n).
Proof.
  intros HN Hx Hn. unfold ror. destruct (n =? 0) eqn:E.
  - apply Z.eqb_eq in E. subst n. cbn. unfold ROR. rewrite Z.mod_0_l by lia. change (2 ^ 0) with 1.
    rewrite Z.div_1_r, Z.mod_1_r, Z.mul_0_l, Z.add_0_r, Z.mod_small by lia. reflexivity.
  - apply Z.eqb_neq in E. rewrite ror_c_spec by assumption. reflexivity.
Qed.
Lemma ROR_range N x n : 0 < N -> 0 <= ROR N x n < 2 ^ N.
Proof. intros HN. unfold ROR. apply Z.mod_pos_bound. apply pow_pos. lia. Qed.
Lemma b_lift {A B} (r : res A) (a : A) (k : A -> M machine B) s : r = Val a -> bind (lift r) k s = k a s.
Proof. intros E. rewrite run_bind, (run_lift_val r a s E). reflexivity. Qed.
Lemma chunk_bits x n : 0 < n -> lower_chunk x n = bits x (n - 1) 0.
Proof. intros Hn. rewrite lower_chunk_mod by lia. unfold bits. change (2 ^ 0) with 1. rewrite Z.div_1_r. f_equal. f_equal. lia. Qed.
Lemma SignExtend_range x N M' : 0 < M' -> 0 <= SignExtend x N M' < 2 ^ M'.
Proof. intros. unfold SignExtend. apply Z.mod_pos_bound. apply pow_pos. lia. Qed.

Ltac ext_start cfg H Hc s m rotation :=
  rewrite guard_pass by exact Hc; rewrite bind_ret_tt; getr cfg H;
  let W := fresh "W" in wordr cfg H s m W;
  rewrite (b_lift _ _ _ _ (ror_spec 32 (rget s m) rotation ltac:(lia) W ltac:(lia))); cbv zeta;
  fold (rot s m rotation).

Theorem Sxtb_ok cfg instr m d rotation s : ictx cfg s -> cond_holds s -> 0 <= m <= 14 -> 0 <= d <= 14 -> 0 <= rotation ->
  Sxtb_execute cfg instr m d rotation s = Ok tt (Sxtb_sem (cfg_arch_version cfg) s m d rotation).
Proof.
  intros H Hc Hm Hd Hr. unfold Sxtb_execute, Sxtb_sem. ext_start cfg H Hc s m rotation.
  rewrite (chunk_bits _ 8) by lia. change (8 - 1) with 7.
  rewrite sign_extend_spec by (try lia; apply (bits_range _ 7 0); lia).
  rewrite bind_ret_tt, reg_set; [reflexivity|lia|apply H|apply H].
Qed.
Theorem Sxth_ok cfg instr m d rotation s : ictx cfg s -> cond_holds s -> 0 <= m <= 14 -> 0 <= d <= 14 -> 0 <= rotation ->
  Sxth_execute cfg instr m d rotation s = Ok tt (Sxth_sem (cfg_arch_version cfg) s m d rotation).
Proof.
  intros H Hc Hm Hd Hr. unfold Sxth_execute, Sxth_sem. ext_start cfg H Hc s m rotation.
  rewrite ?(chunk_bits _ 16) by lia. change (16 - 1) with 15. rewrite ?substring_bits by lia.
  rewrite sign_extend_spec by (try lia; apply (bits_range _ 15 0); lia).
  rewrite bind_ret_tt, reg_set; [reflexivity|lia|apply H|apply H].
Qed.
Theorem Uxtb_ok cfg instr m d rotation s : ictx cfg s -> cond_holds s -> 0 <= m <= 14 -> 0 <= d <= 14 -> 0 <= rotation ->
  Uxtb_execute cfg instr m d rotation s = Ok tt (Uxtb_sem (cfg_arch_version cfg) s m d rotation).
Proof.
  intros H Hc Hm Hd Hr. unfold Uxtb_execute, Uxtb_sem. ext_start cfg H Hc s m rotation.
  rewrite (chunk_bits _ 8) by lia. change (8 - 1) with 7.
  rewrite bind_ret_tt, reg_set; [reflexivity|lia|apply H|apply H].
Qed.
Theorem Uxth_ok cfg instr m d rotation s : ictx cfg s -> cond_holds s -> 0 <= m <= 14 -> 0 <= d <= 14 -> 0 <= rotation ->
  Uxth_execute cfg instr m d rotation s = Ok tt (Uxth_sem (cfg_arch_version cfg) s m d rotation).
Proof.
  intros H Hc Hm Hd Hr. unfold Uxth_execute, Uxth_sem. ext_start cfg H Hc s m rotation.
  rewrite (chunk_bits _ 16) by lia. change (16 - 1) with 15.
  rewrite bind_ret_tt, reg_set; [reflexivity|lia|apply H|apply H].
Qed.
Lemma se816 x hi lo : 0 <= lo -> hi = lo + 7 -> sign_extend (bits x hi lo) 8 16 = SignExtend (bits x hi lo) 8 16.
Proof. intros Hl ->. apply sign_extend_spec; [lia|]. pose proof (bits_range x (lo + 7) lo ltac:(lia)) as R. replace (lo + 7 - lo + 1) with 8 in R by lia. exact R. Qed.
Theorem Sxtb16_ok cfg instr m d rotation s : ictx cfg s -> cond_holds s -> 0 <= m <= 14 -> 0 <= d <= 14 -> 0 <= rotation ->
  Sxtb16_execute cfg instr m d rotation s = Ok tt (Sxtb16_sem (cfg_arch_version cfg) s m d rotation).
Proof.
  intros H Hc Hm Hd Hr. unfold Sxtb16_execute, Sxtb16_sem. ext_start cfg H Hc s m rotation.
  rewrite !substring_bits by lia. rewrite !se816 by lia.
  rewrite pack16_code by (apply SignExtend_range; lia). cbv zeta.
  rewrite bind_ret_tt, reg_set; [reflexivity|lia|apply H|apply H].
Qed.
Theorem Uxtb16_ok cfg instr m d rotation s : ictx cfg s -> cond_holds s -> 0 <= m <= 14 -> 0 <= d <= 14 -> 0 <= rotation ->
  Uxtb16_execute cfg instr m d rotation s = Ok tt (Uxtb16_sem (cfg_arch_version cfg) s m d rotation).
Proof.
  intros H Hc Hm Hd Hr. unfold Uxtb16_execute, Uxtb16_sem. ext_start cfg H Hc s m rotation.
  rewrite !substring_bits by lia.
  rewrite pack16_code; cycle 1.
  { pose proof (bits_range (rot s m rotation) 7 0 ltac:(lia)). change (2 ^ (7 - 0 + 1)) with 256 in *. lia. }
  { pose proof (bits_range (rot s m rotation) 23 16 ltac:(lia)). change (2 ^ (23 - 16 + 1)) with 256 in *. lia. }
  cbv zeta. rewrite bind_ret_tt, reg_set; [reflexivity|lia|apply H|apply H].
Qed.
Theorem Sxtab_ok cfg instr m d n rotation s : ictx cfg s -> cond_holds s -> 0 <= m <= 14 -> 0 <= d <= 14 -> 0 <= n <= 14 -> 0 <= rotation ->
  Sxtab_execute cfg instr m d n rotation s = Ok tt (Sxtab_sem (cfg_arch_version cfg) s m d n rotation).
Proof.
  intros H Hc Hm Hd Hn Hr. unfold Sxtab_execute, Sxtab_sem, w32. ext_start cfg H Hc s m rotation. getr cfg H.
  rewrite (chunk_bits _ 8) by lia. change (8 - 1) with 7.
  rewrite sign_extend_spec by (try lia; apply (bits_range _ 7 0); lia). rewrite add_spec.
  rewrite bind_ret_tt, reg_set; [reflexivity|lia|apply H|apply H].
Qed.
Theorem Sxtah_ok cfg instr m d n rotation s : ictx cfg s -> cond_holds s -> 0 <= m <= 14 -> 0 <= d <= 14 -> 0 <= n <= 14 -> 0 <= rotation ->
  Sxtah_execute cfg instr m d n rotation s = Ok tt (Sxtah_sem (cfg_arch_version cfg) s m d n rotation).
Proof.
  intros H Hc Hm Hd Hn Hr. unfold Sxtah_execute, Sxtah_sem, w32. ext_start cfg H Hc s m rotation. getr cfg H.
  rewrite (chunk_bits _ 16) by lia. change (16 - 1) with 15.
  rewrite sign_extend_spec by (try lia; apply (bits_range _ 15 0); lia). rewrite add_spec.
  rewrite bind_ret_tt, reg_set; [reflexivity|lia|apply H|apply H].
Qed.
Theorem Uxtab_ok cfg instr m d n rotation s : ictx cfg s -> cond_holds s -> 0 <= m <= 14 -> 0 <= d <= 14 -> 0 <= n <= 14 -> 0 <= rotation ->
  Uxtab_execute cfg instr m d n rotation s = Ok tt (Uxtab_sem (cfg_arch_version cfg) s m d n rotation).
Proof.
  intros H Hc Hm Hd Hn Hr. unfold Uxtab_execute, Uxtab_sem, w32. ext_start cfg H Hc s m rotation. getr cfg H.
  rewrite (chunk_bits _ 8) by lia. change (8 - 1) with 7. rewrite add_spec.
  rewrite bind_ret_tt, reg_set; [reflexivity|lia|apply H|apply H].
Qed.
Theorem Uxtah_ok cfg instr m d n rotation s : ictx cfg s -> cond_holds s -> 0 <= m <= 14 -> 0 <= d <= 14 -> 0 <= n <= 14 -> 0 <= rotation ->
  Uxtah_execute cfg instr m d n rotation s = Ok tt (Uxtah_sem (cfg_arch_version cfg) s m d n rotation).
Proof.
  intros H Hc Hm Hd Hn Hr. unfold Uxtah_execute, Uxtah_sem, w32. ext_start cfg H Hc s m rotation. getr cfg H.
  rewrite (chunk_bits _ 16) by lia. change (16 - 1) with 15. rewrite add_spec.
  rewrite bind_ret_tt, reg_set; [reflexivity|lia|apply H|apply H].
Qed.
Theorem Sxtab16_ok cfg instr m d n rotation s : ictx cfg s -> cond_holds s -> 0 <= m <= 14 -> 0 <= d <= 14 -> 0 <= n <= 14 -> 0 <= rotation ->
  Sxtab16_execute cfg instr m d n rotation s = Ok tt (Sxtab16_sem (cfg_arch_version cfg) s m d n rotation).
Proof.
  intros H Hc Hm Hd Hn Hr. unfold Sxtab16_execute, Sxtab16_sem, lo16, hi16. ext_start cfg H Hc s m rotation. getr cfg H.
  rewrite !substring_bits by lia. rewrite !se816 by lia. rewrite !add_spec.
  rewrite pack16_code by (apply Z.mod_pos_bound; lia). rewrite pack16_mod.
  rewrite bind_ret_tt, reg_set; [reflexivity|lia|apply H|apply H].
Qed.
Theorem Uxtab16_ok cfg instr m d n rotation s : ictx cfg s -> cond_holds s -> 0 <= m <= 14 -> 0 <= d <= 14 -> 0 <= n <= 14 -> 0 <= rotation ->
  Uxtab16_execute cfg instr m d n rotation s = Ok tt (Uxtab16_sem (cfg_arch_version cfg) s m d n rotation).
Proof.
  intros H Hc Hm Hd Hn Hr. unfold Uxtab16_execute, Uxtab16_sem, lo16, hi16. ext_start cfg H Hc s m rotation. getr cfg H.
  rewrite !substring_bits by lia. rewrite !add_spec.
  rewrite pack16_code by (apply Z.mod_pos_bound; lia). rewrite pack16_mod.
  rewrite bind_ret_tt, reg_set; [reflexivity|lia|apply H|apply H].
Qed.
