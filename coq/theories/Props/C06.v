(* Props/C06.v — C06: ARM decode (class selection).  Statements only; proofs in Proofs/DecArm1.v by the reflective cube
   checker of Proofs/Cube.v: the regenerated decoder function is turned into a decision tree (checked by conversion) and
   compared with the hand-written architectural table (Spec/DecTables.v) on every word of the group's domain. *)
From Coq Require Import ZArith Bool List String.
From ArmV Require Import Lib.PyZ Proofs.Cube Proofs.DecodeReify Spec.DecTables Spec.DecTablesA2 Proofs.DecArm1 Proofs.DecArm2.
From Gen Require Import bits_ops opsyn decoders.
Import ListNotations.
Open Scope Z_scope.

(* A5.1: every 32-bit word is routed to the group decoder the top-level table names *)
Theorem C06_top_level w : 0 <= w < 2 ^ 32 ->
  dec_arm_instruction_set w = eval_leaf top_env (Val None) (lookup top_table (LRet (Val None)) w) w.
Proof. exact (dec_arm_top_table w). Qed.
Print Assumptions C06_top_level.
(* A5.2.5 multiply and multiply accumulate (incl. the two UNDEFINED slots) *)
Theorem C06_multiply w : 0 <= w < 2 ^ 32 -> Z.land w (fst (pat mul_domain)) = snd (pat mul_domain) ->
  dec_arm_multiply_and_multiply_accumulate w = eval_leaf [] (Val None) (lookup mul_table (LRet (Val None)) w) w.
Proof. exact (dec_multiply_table w). Qed.
Print Assumptions C06_multiply.
(* A5.3 load/store word and unsigned byte (incl. the PUSH/POP single-register forms, LDR literal, unprivileged forms) *)
Theorem C06_load_store_word w : 0 <= w < 2 ^ 32 -> Z.land w (fst (pat lsw_domain)) = snd (pat lsw_domain) ->
  dec_arm_load_store_word_and_unsigned_byte w = eval_leaf [] None (lookup lsw_table (LRet None) w) w.
Proof. exact (dec_load_store_word_table w). Qed.
Print Assumptions C06_load_store_word.
(* A5.5 branch, branch with link, and block data transfer (PUSH/POP of two or more registers) *)
Theorem C06_branch_block w : 0 <= w < 2 ^ 32 -> Z.land w (fst (pat bbt_domain)) = snd (pat bbt_domain) ->
  dec_arm_branch_branch_with_link_and_block_data_transfer w = eval_leaf bbt_env None (lookup bbt_table (LRet None) w) w.
Proof. exact (dec_branch_block_table w). Qed.
Print Assumptions C06_branch_block.
(* A5.2.3 data-processing (immediate) *)
Theorem C06_dp_immediate w : 0 <= w < 2 ^ 32 -> in_domains w dpi_domains ->
  dec_arm_data_processing_immediate w = eval_leaf [] None (lookup dpi_table (LRet None) w) w.
Proof. exact (dec_dp_immediate_table w). Qed.
Print Assumptions C06_dp_immediate.

(* ---------- further groups (Spec/DecTablesA2.v), each for every word of its architectural domain ---------- *)
(* A5.2.7 halfword multiply *)
Theorem C06_hmul w : 0 <= w < 2 ^ 32 ->
  dec_arm_halfword_multiply_and_multiply_accumulate w = eval_leaf a_no_env None (lookup a_hmul_table (LRet None) w) w.
Proof. exact (dec_arm_hmul_table w). Qed.
Print Assumptions C06_hmul.
(* A5.2.6 saturating addition and subtraction *)
Theorem C06_sat w : 0 <= w < 2 ^ 32 ->
  dec_arm_saturating_addition_and_subtraction w = eval_leaf a_no_env None (lookup a_sat_table (LRet None) w) w.
Proof. exact (dec_arm_sat_table w). Qed.
Print Assumptions C06_sat.
(* A5.2.10 synchronization primitives *)
Theorem C06_sync w : 0 <= w < 2 ^ 32 ->
  dec_arm_synchronization_primitives w = eval_leaf a_no_env None (lookup a_sync_table (LRet None) w) w.
Proof. exact (dec_arm_sync_table w). Qed.
Print Assumptions C06_sync.
(* A5.2.9 extra load/store, unprivileged *)
Theorem C06_xlsu w : 0 <= w < 2 ^ 32 ->
  dec_arm_extra_load_store_instructions_unprivileged w = eval_leaf a_no_env None (lookup a_xlsu_table (LRet None) w) w.
Proof. exact (dec_arm_xlsu_table w). Qed.
Print Assumptions C06_xlsu.
(* A5.4 media instructions (routing and the bit-field / USAD8 / UDF rows) *)
Theorem C06_media w : 0 <= w < 2 ^ 32 ->
  dec_arm_media_instructions w = eval_leaf a_media_env None (lookup a_media_table (LRet None) w) w.
Proof. exact (dec_arm_media_table w). Qed.
Print Assumptions C06_media.
(* A5.4.1 parallel addition and subtraction, signed *)
Theorem C06_pas w : 0 <= w < 2 ^ 32 ->
  dec_arm_parallel_addition_and_subtraction_signed w = eval_leaf a_no_env None (lookup a_pas_table (LRet None) w) w.
Proof. exact (dec_arm_pas_table w). Qed.
Print Assumptions C06_pas.
(* A5.4.2 parallel addition and subtraction, unsigned *)
Theorem C06_pau w : 0 <= w < 2 ^ 32 ->
  dec_arm_parallel_addition_and_subtraction_unsigned w = eval_leaf a_no_env None (lookup a_pau_table (LRet None) w) w.
Proof. exact (dec_arm_pau_table w). Qed.
Print Assumptions C06_pau.
(* A5.4.3 packing, unpacking, saturation, reversal *)
Theorem C06_pack w : 0 <= w < 2 ^ 32 ->
  dec_arm_packing_unpacking_saturation_and_reversal w = eval_leaf a_no_env None (lookup a_pack_table (LRet None) w) w.
Proof. exact (dec_arm_pack_table w). Qed.
Print Assumptions C06_pack.
(* A5.4.4 signed multiply, divide *)
Theorem C06_smul w : 0 <= w < 2 ^ 32 ->
  dec_arm_signed_multiply_signed_and_unsigned_divide w = eval_leaf a_no_env None (lookup a_smul_table (LRet None) w) w.
Proof. exact (dec_arm_smul_table w). Qed.
Print Assumptions C06_smul.
(* A5.2.12 miscellaneous instructions *)
Theorem C06_misc w : 0 <= w < 2 ^ 32 ->
  dec_arm_miscellaneous_instructions w = eval_leaf a_misc_env (Val None) (lookup a_misc_table (LRet (Val None)) w) w.
Proof. exact (dec_arm_misc_table w). Qed.
Print Assumptions C06_misc.
(* A5.2.11 MSR (immediate) and hints *)
Theorem C06_msr w : 0 <= w < 2 ^ 32 ->
  dec_arm_msr_immediate_and_hints w = eval_leaf a_no_env_res (Val None) (lookup a_msr_table (LRet (Val None)) w) w.
Proof. exact (dec_arm_msr_table w). Qed.
Print Assumptions C06_msr.
(* A5.7 unconditional instructions *)
Theorem C06_uncond w : 0 <= w < 2 ^ 32 ->
  dec_arm_unconditional_instructions w = eval_leaf a_uncond_env (Val None) (lookup a_uncond_table (LRet (Val None)) w) w.
Proof. exact (dec_arm_uncond_table w). Qed.
Print Assumptions C06_uncond.
(* A5.6 coprocessor instructions and SVC *)
Theorem C06_cop w : 0 <= w < 2 ^ 32 ->
  dec_arm_coprocessor_instructions_and_supervisor_call w = eval_leaf a_no_env_res (Val None) (lookup a_cop_table (LRet (Val None)) w) w.
Proof. exact (dec_arm_cop_table w). Qed.
Print Assumptions C06_cop.
(* A5.2.1 data-processing (register) *)
Theorem C06_dpr w : 0 <= w < 2 ^ 32 -> in_domains w [a_dpr_domain] ->
  dec_arm_data_processing_register w = eval_leaf a_no_env None (lookup a_dpr_table (LRet None) w) w.
Proof. exact (dec_arm_dpr_table w). Qed.
Print Assumptions C06_dpr.
(* A5.2.2 data-processing (register-shifted register) *)
Theorem C06_rsr w : 0 <= w < 2 ^ 32 -> in_domains w [a_rsr_domain] ->
  dec_arm_data_processing_register_shifted_register w = eval_leaf a_no_env None (lookup a_rsr_table (LRet None) w) w.
Proof. exact (dec_arm_rsr_table w). Qed.
Print Assumptions C06_rsr.
(* A5.2.8 extra load/store *)
Theorem C06_xls w : 0 <= w < 2 ^ 32 -> in_domains w a_xls_domains ->
  dec_arm_extra_load_store_instructions w = eval_leaf a_no_env None (lookup a_xls_table (LRet None) w) w.
Proof. exact (dec_arm_xls_table w). Qed.
Print Assumptions C06_xls.
(* A5.2 data-processing and miscellaneous: routing to the groups above, for every word except LDRSBT/LDRSHT, which the emulator
   reaches through its extra load/store decoder with the same final class *)
Theorem C06_dp_misc_routing w : 0 <= w < 2 ^ 32 -> in_domains w a_dpm_domains ->
  dec_arm_data_processing_and_miscellaneous_instructions w = eval_leaf a_dpm_env (Val None) (lookup a_dpm_table (LRet (Val None)) w) w.
Proof. exact (dec_arm_dpm_table w). Qed.
Print Assumptions C06_dp_misc_routing.
