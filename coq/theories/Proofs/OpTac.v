(* Proofs/OpTac.v — the generic tactic behind the operand-extraction lemmas (Proofs/OpsA*.v, OpsT*.v). *)
Set Default Timeout 240.
From Coq Require Import ZArith List Bool Lia ZifyBool.
From ArmV Require Import Lib.PyZ Lib.Monad Lib.Machine Spec.Pseudocode Spec.Arch Spec.MachineView Spec.OperandSpec
  Proofs.BitLemmas Proofs.SpecFacts Proofs.BitsOps Proofs.BitsOps2 Proofs.ShiftOps Proofs.StateLemmas Proofs.CondProofs
  Proofs.DPLemmas Proofs.MemProofs Spec.Expected.
From Gen Require Import enums bits_ops shift regviews records hubm opsyn core exec conc.
Import ListNotations.
Open Scope Z_scope.
Ltac Zify.zify_post_hook ::= Z.to_euclidean_division_equations.

Lemma bit_rng x i : 0 <= bit x i <= 1.
Proof. unfold bit. pose proof (Z.mod_pos_bound (x / 2 ^ i) 2 ltac:(lia)). lia. Qed.

Lemma o_in_it {A} (k : Z -> M machine A) s : bind ArmV6_in_it_block k s = k (B2Z (in_it s)) s.
Proof. rewrite run_bind, in_it_block_spec. reflexivity. Qed.
Lemma o_last_in_it {A} (k : Z -> M machine A) s : bind ArmV6_last_in_it_block k s = k (B2Z (last_in_it s)) s.
Proof. rewrite run_bind, last_in_it_block_spec. reflexivity. Qed.
Lemma o_cur_iset {A} (k : Z -> M machine A) s : bind Registers_current_instr_set k s = k (iset_of s) s.
Proof. rewrite run_bind, current_instr_set_spec. reflexivity. Qed.
Lemma o_get_cpsr {A} (k : Z -> M machine A) s : bind (get_sys 0) k s = k (cpsr_of s) s.
Proof. reflexivity. Qed.
Lemma o_lift {A B} (a : A) (k : A -> M machine B) s : bind (lift (Val a)) k s = k a s.
Proof. reflexivity. Qed.
Lemma o_ret {A} (a : A) (s : machine) : ret a s = Ok a s.
Proof. reflexivity. Qed.
Lemma truthy_B2Z b : truthy (B2Z b) = b.
Proof. destruct b; reflexivity. Qed.
Lemma truthy_bit x i : truthy (bit x i) = (bit x i =? 1).
Proof. unfold truthy. pose proof (bit_rng x i). destruct (bit x i =? 0) eqn:E; lia. Qed.
Lemma cflag_get s : CPSR_get_c (cpsr_of s) = cflag s.
Proof. apply get_c_bit. Qed.
Lemma not_in_it_B2Z s : B2Z (negb (in_it s)) = not_in_it s.
Proof. reflexivity. Qed.

Lemma imm12t_chain w : bit w 26 * 2 ^ 11 + (bits w 14 12 * 2 ^ 8 + bits w 7 0) = imm12t w.
Proof. unfold imm12t. lia. Qed.
Lemma imm12t_range w : 0 <= imm12t w < 4096.
Proof.
  unfold imm12t. pose proof (bit_rng w 26). pose proof (bits_range w 14 12 ltac:(lia)). pose proof (bits_range w 7 0 ltac:(lia)).
  change (2 ^ (14 - 12 + 1)) with 8 in *. change (2 ^ (7 - 0 + 1)) with 256 in *. lia.
Qed.
Lemma imm5t_chain w : bits w 14 12 * 2 ^ 2 + bits w 7 6 = imm5t w.
Proof. unfold imm5t. lia. Qed.
Lemma imm5t_range w : 0 <= imm5t w < 32.
Proof.
  unfold imm5t. pose proof (bits_range w 14 12 ltac:(lia)). pose proof (bits_range w 7 6 ltac:(lia)).
  change (2 ^ (14 - 12 + 1)) with 8 in *. change (2 ^ (7 - 6 + 1)) with 4 in *. lia.
Qed.

Lemma regs13_cons r l : regs13 (r :: l) = true -> r <= 12 /\ forallb (fun x => negb (r =? x)) l = true /\ regs13 l = true.
Proof.
  unfold regs13. cbn [forallb distinct]. intros H. apply andb_prop in H as [H1 H2]. apply andb_prop in H1 as [Hr Hl].
  apply andb_prop in H2 as [Hn Hd]. split; [lia|]. split; [|rewrite Hl, Hd; reflexivity].
  clear -Hn. induction l as [|y t IH]; [reflexivity|]. cbn [existsb forallb] in *. rewrite negb_orb in Hn.
  apply andb_prop in Hn as [Ha Hb]. rewrite Ha, (IH Hb). reflexivity.
Qed.

Lemma o_chunk x n : 0 < n -> lower_chunk x n = bits x (n - 1) 0.
Proof. intros Hn. rewrite lower_chunk_mod by lia. unfold bits. change (2 ^ 0) with 1. rewrite Z.div_1_r. f_equal. f_equal. lia. Qed.
Lemma o_shiftl a n : 0 <= n -> Z.shiftl a n = a * 2 ^ n.
Proof. intros. apply Z.shiftl_mul_pow2. assumption. Qed.

(* the value of a modified immediate does not depend on the carry *)
Lemma armexp_fst x c : fst (ARMExpandImm_C x c) = ARMExpandImm x.
Proof.
  unfold ARMExpandImm, ARMExpandImm_C, Shift_C. destruct (2 * bits x 11 8 =? 0); [reflexivity|].
  change (SRType_ROR =? SRType_LSL) with false. change (SRType_ROR =? SRType_LSR) with false.
  change (SRType_ROR =? SRType_ASR) with false. change (SRType_ROR =? SRType_ROR) with true. reflexivity.
Qed.
Lemma thumbexp_fst x c : fst (ThumbExpandImm_C x c) = ThumbExpandImm x.
Proof. unfold ThumbExpandImm, ThumbExpandImm_C. destruct (bits x 11 10 =? 0); reflexivity. Qed.

(* a field of a field, a bit of a field *)
Lemma bits_bits x h l h' l' a b : 0 <= l -> 0 <= l' <= h' -> l + h' <= h -> a = l + h' -> b = l + l' ->
  bits (bits x h l) h' l' = bits x a b.
Proof.
  intros Hl Hl' Hh -> ->. apply Z.bits_inj'. intros j Hj. rewrite !testbit_bits by lia.
  replace (l + h' - (l + l')) with (h' - l') by lia.
  destruct (j <=? h' - l') eqn:E; [|reflexivity]. replace (j + l' <=? h - l) with true by lia. f_equal. lia.
Qed.
Lemma bit_bits_eq x i : 0 <= i -> bit x i = bits x i i.
Proof. intros. unfold bit, bits. replace (i - i + 1) with 1 by lia. reflexivity. Qed.
Lemma bit_bits x h l i a : 0 <= l -> 0 <= i -> l + i <= h -> a = l + i -> bit (bits x h l) i = bit x a.
Proof. intros Hl Hi Hh ->. rewrite !bit_bits_eq by lia. apply bits_bits; lia. Qed.
Lemma bits_top x h l : 0 <= l < h -> bits x h l = bit x h * 2 ^ (h - l) + bits x (h - 1) l.
Proof.
  intros H. unfold bits, bit.
  assert (P1 : 0 < 2 ^ l) by (apply Z.pow_pos_nonneg; lia).
  assert (P2 : 0 < 2 ^ (h - l)) by (apply Z.pow_pos_nonneg; lia).
  replace (h - l + 1) with ((h - l) + 1) by lia. rewrite Z.pow_add_r by lia. replace (h - 1 - l + 1) with (h - l) by lia.
  replace (2 ^ h) with (2 ^ l * 2 ^ (h - l)) by (rewrite <- Z.pow_add_r by lia; f_equal; lia).
  rewrite <- Z.div_div by lia. set (y := x / 2 ^ l). change (2 ^ 1) with 2.
  rewrite Z.rem_mul_r by lia. lia.
Qed.

Lemma bits_top' x h l h1 : h1 = h - 1 -> 0 <= l < h -> bits x h l = bit x h * 2 ^ (h - l) + bits x h1 l.
Proof. intros ->. apply bits_top. Qed.
Lemma bits_low x n : 0 <= n -> 0 <= x < 2 ^ (n + 1) -> x = bits x n 0.
Proof. intros Hn Hx. unfold bits. rewrite Z.pow_0_r, Z.div_1_r, Z.sub_0_r, Z.mod_small; [reflexivity|exact Hx]. Qed.
Ltac expand_bits x h l :=
  let rec go h :=
    let c := eval cbv in (l <? h) in
    lazymatch c with
    | true => let h1 := eval cbv in (h - 1) in
              let p := eval cbv in (2 ^ (h - l)) in
              rewrite (bits_top' x h l h1) by lia; change (2 ^ (h - l)) with p; go h1
    | false => rewrite <- (bit_bits_eq x l) by lia
    end in go h.
Ltac expand_bits_in H x h l :=
  let rec go h :=
    let c := eval cbv in (l <? h) in
    lazymatch c with
    | true => let h1 := eval cbv in (h - 1) in
              let p := eval cbv in (2 ^ (h - l)) in
              rewrite (bits_top' x h l h1) in H by lia; change (2 ^ (h - l)) with p in H; go h1
    | false => rewrite <- (bit_bits_eq x l) in H by lia
    end in go h.

Lemma BitCount16_sum x : BitCount 16 x =
  bit x 0 + bit x 1 + bit x 2 + bit x 3 + bit x 4 + bit x 5 + bit x 6 + bit x 7 + bit x 8 + bit x 9 + bit x 10 + bit x 11
  + bit x 12 + bit x 13 + bit x 14 + bit x 15.
Proof. unfold BitCount. change (Z.to_nat 16) with 16%nat. cbn -[bit Z.add]. lia. Qed.
Lemma bits16_sum x : 0 <= x < 2 ^ 16 -> x =
  bit x 0 + bit x 1 * 2 + bit x 2 * 4 + bit x 3 * 8 + bit x 4 * 16 + bit x 5 * 32 + bit x 6 * 64 + bit x 7 * 128 + bit x 8 * 256
  + bit x 9 * 512 + bit x 10 * 1024 + bit x 11 * 2048 + bit x 12 * 4096 + bit x 13 * 8192 + bit x 14 * 16384 + bit x 15 * 32768.
Proof.
  intros Hx. rewrite (bits_low x 15) at 1 by (try lia; exact Hx).
  rewrite (bits_top' x 15 0 14), (bits_top' x 14 0 13), (bits_top' x 13 0 12), (bits_top' x 12 0 11), (bits_top' x 11 0 10),
    (bits_top' x 10 0 9), (bits_top' x 9 0 8), (bits_top' x 8 0 7), (bits_top' x 7 0 6), (bits_top' x 6 0 5), (bits_top' x 5 0 4),
    (bits_top' x 4 0 3), (bits_top' x 3 0 2), (bits_top' x 2 0 1), (bits_top' x 1 0 0) by lia.
  rewrite <- (bit_bits_eq x 0) by lia.
  change (2 ^ (15 - 0)) with 32768. change (2 ^ (14 - 0)) with 16384. change (2 ^ (13 - 0)) with 8192. change (2 ^ (12 - 0)) with 4096.
  change (2 ^ (11 - 0)) with 2048. change (2 ^ (10 - 0)) with 1024. change (2 ^ (9 - 0)) with 512. change (2 ^ (8 - 0)) with 256.
  change (2 ^ (7 - 0)) with 128. change (2 ^ (6 - 0)) with 64. change (2 ^ (5 - 0)) with 32. change (2 ^ (4 - 0)) with 16.
  change (2 ^ (3 - 0)) with 8. change (2 ^ (2 - 0)) with 4. change (2 ^ (1 - 0)) with 2. lia.
Qed.
(* facts about a 16-bit register list: linear in its sixteen bits *)
Ltac list16_facts x :=
  let H1 := fresh "Hs" in let H2 := fresh "Hc" in
  assert (H1 := bits16_sum x ltac:(lia)); assert (H2 := BitCount16_sum x);
  pose proof (bit_rng x 0); pose proof (bit_rng x 1); pose proof (bit_rng x 2); pose proof (bit_rng x 3); pose proof (bit_rng x 4);
  pose proof (bit_rng x 5); pose proof (bit_rng x 6); pose proof (bit_rng x 7); pose proof (bit_rng x 8); pose proof (bit_rng x 9);
  pose proof (bit_rng x 10); pose proof (bit_rng x 11); pose proof (bit_rng x 12); pose proof (bit_rng x 13); pose proof (bit_rng x 14);
  pose proof (bit_rng x 15).
Lemma if_app {A B} (c : bool) (f g : A -> B) (x : A) : (if c then f else g) x = if c then f x else g x.
Proof. destruct c; reflexivity. Qed.

Lemma set_bit_fresh x i b : 0 <= i < 256 -> 0 <= x < 2 ^ i -> 0 <= b <= 1 -> set_bit_at x i b = b * 2 ^ i + x.
Proof.
  intros Hi Hx Hb. rewrite set_bit_at_insert; try lia.
  - unfold exp_set_bit_at, insert, bits. rewrite Z.div_small by lia. rewrite Z.mod_0_l by (apply Z.pow_nonzero; lia). lia.
  - split; [lia|]. apply Z.lt_le_trans with (2 ^ i); [lia|]. apply Z.pow_le_mono_r; lia.
Qed.
Lemma set_bit_zero t : 0 <= t < 256 -> set_bit_at 0 t 1 = 2 ^ t.
Proof. intros. pose proof (Z.pow_pos_nonneg 2 t ltac:(lia) ltac:(lia)). rewrite set_bit_fresh by lia. lia. Qed.
Lemma to_unsigned_small x n : 0 <= x < 2 ^ n -> to_unsigned x n = x.
Proof. intros. rewrite to_unsigned_spec. apply Z.mod_small. assumption. Qed.
Lemma o_is_hyp {A} cfg (k : Z -> M machine A) s : bind (Registers_current_mode_is_hyp cfg) k s = k (B2Z (mode_of s =? 26)) s.
Proof. apply b_is_hyp. Qed.

Lemma if_app_M {A} (c : bool) (f g : M machine A) s : (if c then f else g) s = if c then f s else g s.
Proof. destruct c; reflexivity. Qed.
(* the same fields written with shifts and masks instead of the bits_ops helpers *)
Lemma land_shiftr_ones x l k : 0 <= l -> 0 < k -> Z.land (Z.shiftr x l) (Z.ones k) = bits x (l + k - 1) l.
Proof.
  intros Hl Hk. rewrite Z.land_ones by lia. rewrite Z.shiftr_div_pow2 by lia. unfold bits. f_equal. f_equal. lia.
Qed.
Lemma land_ones_bits x k : 0 < k -> Z.land x (Z.ones k) = bits x (k - 1) 0.
Proof. intros Hk. rewrite Z.land_ones by lia. unfold bits. rewrite Z.pow_0_r, Z.div_1_r. f_equal. f_equal. lia. Qed.
Lemma lor_add a b n : 0 <= n -> 0 <= b < 2 ^ n -> a mod 2 ^ n = 0 -> Z.lor a b = a + b.
Proof.
  intros Hn Hb Ha. symmetry. rewrite <- Z.lxor_lor; [apply Z.add_nocarry_lxor|]; apply Z.bits_inj'; intros j Hj;
    rewrite Z.land_spec, Z.bits_0; destruct (Z.lt_ge_cases j n) as [Hlt|Hge].
  - rewrite <- (Z.mod_pow2_bits_low a n j) by lia. rewrite Ha, Z.bits_0. reflexivity.
  - destruct (Z.eq_dec b 0) as [->|Hnz]; [rewrite Z.bits_0; apply andb_false_r|].
    rewrite (Z.bits_above_log2 b j); [apply andb_false_r|lia|]. apply Z.lt_le_trans with n; [|exact Hge]. apply Z.log2_lt_pow2; lia.
  - rewrite <- (Z.mod_pow2_bits_low a n j) by lia. rewrite Ha, Z.bits_0. reflexivity.
  - destruct (Z.eq_dec b 0) as [->|Hnz]; [rewrite Z.bits_0; apply andb_false_r|].
    rewrite (Z.bits_above_log2 b j); [apply andb_false_r|lia|]. apply Z.lt_le_trans with n; [|exact Hge]. apply Z.log2_lt_pow2; lia.
Qed.
Ltac mask_fields :=
  repeat match goal with
  | |- context[Z.land (Z.shiftr ?x ?l) ?m] =>
      let k := eval cbv in (Z.log2 (m + 1)) in
      let ok := eval cbv in (Z.ones k =? m) in
      lazymatch ok with true => idtac | false => fail end;
      change (Z.land (Z.shiftr x l) m) with (Z.land (Z.shiftr x l) (Z.ones k));
      rewrite (land_shiftr_ones x l k) by lia;
      let h := eval cbv in (l + k - 1) in change (l + k - 1) with h
  | |- context[Z.land ?x ?m] =>
      lazymatch x with Z.shiftr _ _ => fail | _ => idtac end;
      let k := eval cbv in (Z.log2 (m + 1)) in
      let ok := eval cbv in ((Z.ones k =? m) && (0 <? k)) in
      lazymatch ok with true => idtac | false => fail end;
      change (Z.land x m) with (Z.land x (Z.ones k));
      rewrite (land_ones_bits x k) by lia;
      let h := eval cbv in (k - 1) in change (k - 1) with h
  end;
  repeat match goal with |- context[bits ?x ?i ?i] => rewrite <- (bit_bits_eq x i) by lia end.
Ltac lor_fields :=
  repeat match goal with
  | |- context[Z.lor ?a ?b] =>
      first [ rewrite (lor_add a b 1) by (try split; lia) | rewrite (lor_add a b 2) by (try split; lia)
            | rewrite (lor_add a b 3) by (try split; lia) | rewrite (lor_add a b 4) by (try split; lia)
            | rewrite (lor_add a b 5) by (try split; lia) | rewrite (lor_add a b 6) by (try split; lia)
            | rewrite (lor_add a b 7) by (try split; lia) | rewrite (lor_add a b 8) by (try split; lia)
            | rewrite (lor_add a b 10) by (try split; lia) | rewrite (lor_add a b 11) by (try split; lia)
            | rewrite (lor_add a b 12) by (try split; lia) | rewrite (lor_add a b 16) by (try split; lia) ]
  end.

Lemma cons_eq (a b : Z) l l' : a = b -> l = l' -> a :: l = b :: l'.
Proof. intros -> ->. reflexivity. Qed.
Lemma ok_some_eq (c : Z) (l l' : list Z) (s : machine) : l = l' -> Ok (Some (c, l)) s = Ok (Some (c, l')) s.
Proof. intros ->. reflexivity. Qed.

(* every field `bits w h l` / `bit w i` of the goal gets its range as a hypothesis *)
Ltac pose_ranges w :=
  repeat match goal with
  | |- context[bits w ?h ?l] =>
      lazymatch goal with _ : 0 <= bits w h l < _ |- _ => fail | _ => idtac end;
      let H := fresh "Rg" in
      pose proof (bits_range w h l ltac:(lia)) as H;
      let v := eval cbv in (2 ^ (h - l + 1)) in change (2 ^ (h - l + 1)) with v in H
  | |- context[bit w ?i] =>
      lazymatch goal with _ : 0 <= bit w i <= 1 |- _ => fail | _ => idtac end;
      pose proof (bit_rng w i)
  end.

(* split the domain hypotheses into linear facts *)
Ltac split_regs :=
  repeat match goal with
  | H : regs13 (_ :: _) = true |- _ =>
      let a := fresh "Hr" in let b := fresh "Hd" in let c := fresh "Hl" in
      apply regs13_cons in H as (a & b & c); cbn [forallb] in b
  | H : regs13 [] = true |- _ => clear H
  end.

Ltac unfold_pre :=
  unfold pre_msb_ge_lsb, pre_width_fits, pre_msb_ge_lsb_t, pre_width_fits_t, pre_reglist, pre_reglist_t, pre_reglist_lt, pre_reglist_st, pre_puw, pre_rm_twice,
    pre_sat_t, pre_lit, pre_pkh_t, pre_it_ok, pre_imm5_nz, pre_imm5t_nz, pre_list8_nz, pre_list13_2, pre_list13_2pm, pre_list16_2,
    pre_dm_low, pre_add_t2, pre_mov_t1, pre_cmp_t2, pre_rm63_low, pre_pw_t, pre_pw_lit_t, pre_dual_a, pre_dual_lit_a, pre_dual_ex_a,
    pre_strexd_a, pre_msr_app, pre_msr_app_t, pre_msr_sys, pre_msr_sys_t, pre_cps_a, pre_cps_t2, pre_cps_t1, cps_ok, pre_cp_ok,
    pre_ldc, pre_ldc_lit, isb, dm, conf_arch_version in *; cbv zeta in *.

Ltac field_of_field :=
  repeat match goal with
  | |- context[bits (bits ?x ?h ?l) ?h' ?l'] =>
      let a := eval cbv in (l + h') in let b := eval cbv in (l + l') in
      rewrite (bits_bits x h l h' l' a b) by lia
  | |- context[bit (bits ?x ?h ?l) ?i] =>
      lazymatch i with bits _ _ _ => fail | _ => idtac end;
      let a := eval cbv in (l + i) in rewrite (bit_bits x h l i a) by lia
  end.

Ltac ops_norm :=
  rewrite ?substring_bits, ?bit_at_bit by lia;
  mask_fields;
  rewrite ?chain_spec, ?o_shiftl, ?o_chunk by lia;
  rewrite ?set_bit_zero, ?set_bit_fresh, ?to_unsigned_small by lia;
  rewrite ?if_app_M;
  rewrite ?o_in_it, ?o_last_in_it, ?o_cur_iset, ?o_get_cpsr, ?o_is_hyp, ?cflag_get, ?truthy_B2Z, ?truthy_bit;
  unfold truthy, conf_arch_version, InstrSet_THUMB_EE, InstrSet_ARM, InstrSet_THUMB, InstrSet_JAZELLE;
  change (B2Z false) with 0; change (B2Z true) with 1;
  rewrite ?bit_count_spec by lia;
  field_of_field;
  repeat match goal with H : in_it _ = false |- _ => rewrite H end.

(* link a short field to its bits: bits w h l = bit w l + bit w (l+1) * 2 + ... *)
Fixpoint bitsum (x l : Z) (n : nat) : Z :=
  match n with O => 0 | S k => bitsum x l k + bit x (l + Z.of_nat k) * 2 ^ Z.of_nat k end.
Lemma bits_bitsum x l n : 0 <= l -> bits x (l + Z.of_nat n) l = bitsum x l (S n).
Proof.
  intros Hl. induction n as [|n IH].
  - cbn [bitsum Z.of_nat]. rewrite Z.add_0_r, <- bit_bits_eq by lia. change (2 ^ 0) with 1. lia.
  - rewrite (bits_top' x (l + Z.of_nat (S n)) l (l + Z.of_nat n)) by lia. rewrite IH.
    change (bitsum x l (S (S n))) with (bitsum x l (S n) + bit x (l + Z.of_nat (S n)) * 2 ^ Z.of_nat (S n)).
    replace (l + Z.of_nat (S n) - l) with (Z.of_nat (S n)) by lia. lia.
Qed.
Lemma bits_as_bitsum x h l : 0 <= l <= h -> bits x h l = bitsum x l (S (Z.to_nat (h - l))).
Proof. intros H. rewrite <- bits_bitsum by lia. f_equal. lia. Qed.
Ltac pose_expand x h l :=
  let E := fresh "Ex" in
  pose proof (bits_as_bitsum x h l ltac:(lia)) as E;
  let n := eval cbv in (Z.to_nat (h - l)) in change (Z.to_nat (h - l)) with n in E;
  cbn [bitsum] in E;
  repeat match type of E with context[?a + Z.of_nat ?k] =>
    let v := eval cbv in (a + Z.of_nat k) in change (a + Z.of_nat k) with v in E end;
  repeat match type of E with context[2 ^ Z.of_nat ?k] =>
    let v := eval cbv in (2 ^ Z.of_nat k) in change (2 ^ Z.of_nat k) with v in E end;
  repeat match type of E with context[bit x ?i] =>
    lazymatch goal with _ : 0 <= bit x i <= 1 |- _ => fail | _ => pose proof (bit_rng x i) end end.
Ltac link_field x h l :=
  lazymatch goal with _ : bits x h l = _ |- _ => fail | _ => idtac end;
  let wd := eval cbv in ((0 <? h - l) && (h - l <=? 4)) in
  lazymatch wd with true => pose_expand x h l | false => fail end.
Ltac link_fields_in c :=
  repeat match c with context[bits ?x ?h ?l] => link_field x h l end;
  repeat match goal with H : context[bits ?x ?h ?l] |- _ =>
    lazymatch type of H with (_ <= _ < _) => fail | (_ = _ :> Z) => fail | _ => idtac end; link_field x h l end.
Ltac list_facts_in c :=
  repeat match c with
  | context[BitCount 16 ?x] =>
      lazymatch goal with _ : BitCount 16 x = _ |- _ => fail | _ => idtac end;
      list16_facts x
  end.

Ltac ops_if :=
  repeat match goal with
  | |- context[if ?c then _ else _] =>
      first [ replace c with false by lia | replace c with true by lia
            | list_facts_in c; link_fields_in c; first [ replace c with false by lia | replace c with true by lia ] ];
      cbv iota
  end.

Ltac pair_lets :=
  repeat match goal with
  | |- context[let '(_, _) := ?p in _] => rewrite (surjective_pairing p); cbv iota; cbn [fst snd]
  end.

Ltac ops_helpers :=
  repeat first
  [ rewrite imm12t_chain | rewrite imm5t_chain
  | rewrite arm_expand_imm_spec by lia | rewrite arm_expand_imm_c_spec by lia
  | rewrite thumb_expand_imm_spec by (apply imm12t_range) | rewrite thumb_expand_imm_c_spec by (apply imm12t_range)
  | rewrite decode_imm_shift_spec by lia | rewrite decode_reg_shift_spec by lia
  | rewrite o_lift | progress cbn [ebind] ];
  pair_lets; rewrite ?armexp_fst, ?thumbexp_fst; fold (ARMExpandImm) (ThumbExpandImm).

Ltac split_bits :=
  repeat match goal with
  | |- context[bit ?x ?i] =>
      let H := fresh in let E := fresh in
      assert (H : bit x i = 0 \/ bit x i = 1) by (pose proof (bit_rng x i); lia);
      destruct H as [E|E]; rewrite E in *
  end.
Ltac field_close :=
  first [ reflexivity | lia
        | unfold por, pand, b2z, truthy;
          first [ reflexivity | lia
                | repeat match goal with |- context[if ?c then _ else _] => destruct c eqn:? end; lia
                | split_bits; first [ reflexivity | lia ] ] ].
Ltac ops_close :=
  rewrite ?o_ret;
  first [ reflexivity
        | apply ok_some_eq; repeat (apply cons_eq; [field_close|]); reflexivity ].

Ltac ops_pre f :=
  intros; split_regs; unfold_pre;
  unfold fb_out, fb_plain, fb_opt, fb_res, fb_res_opt, fb_m, fb_m_opt; unfold f; cbv zeta;
  ops_norm;
  match goal with W : 0 <= ?w < 2 ^ _ |- _ => pose_ranges w end;
  lor_fields;
  repeat (progress (ops_helpers; ops_norm; ops_if)).
Ltac ops_tac f := ops_pre f; ops_close.

(* ---- totality: no host error, state untouched, for every word ---- *)
Lemma fb_safe_ok v s : fb_safe (Ok v s) s.
Proof. reflexivity. Qed.
Lemma fb_safe_undef s : fb_safe (Exc EUndefined s) s.
Proof. split; reflexivity. Qed.
Ltac pose_all_ranges :=
  repeat match goal with
  | |- context[bits ?w ?h ?l] =>
      lazymatch goal with _ : 0 <= bits w h l < _ |- _ => fail | _ => idtac end;
      let H := fresh "Rg" in
      pose proof (bits_range w h l ltac:(lia)) as H;
      let v := eval cbv in (2 ^ (h - l + 1)) in change (2 ^ (h - l + 1)) with v in H
  | |- context[bit ?w ?i] =>
      lazymatch goal with _ : 0 <= bit w i <= 1 |- _ => fail | _ => idtac end;
      pose proof (bit_rng w i)
  end.
Ltac safe_split :=
  repeat match goal with
  | |- context[if ?c then _ else _] => destruct c
  end.
Ltac safe_tac f :=
  intros;
  unfold fb_out, fb_plain, fb_opt, fb_res, fb_res_opt, fb_m, fb_m_opt; unfold f; cbv zeta;
  ops_norm; pose_all_ranges; lor_fields;
  repeat (progress (ops_helpers; ops_norm));
  safe_split; rewrite ?o_ret; cbn [raise];
  first [ apply fb_safe_ok | apply fb_safe_undef ].
