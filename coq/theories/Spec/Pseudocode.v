(* Spec/Pseudocode.v — the ARM ARM (DDI 0406C) shared pseudocode functions, written
   mathematically over Z (bitstrings of width N are the integers 0 <= x < 2^N).
   Hand-written oracle: nothing here refers to the translated code. *)
From Coq Require Import ZArith List Bool Lia.
Import ListNotations.
Open Scope Z_scope.

Definition B2Z (b : bool) : Z := if b then 1 else 0.

(* bits(N) x<hi:lo> *)
Definition bits (x hi lo : Z) : Z := (x / 2 ^ lo) mod 2 ^ (hi - lo + 1).
Definition bit (x i : Z) : Z := (x / 2 ^ i) mod 2.
(* x with <hi:lo> replaced by v *)
Definition insert (x hi lo v : Z) : Z := x - bits x hi lo * 2 ^ lo + v * 2 ^ lo.

Definition UInt (x : Z) : Z := x.
Definition SInt (x N : Z) : Z := if x <? 2 ^ (N - 1) then x else x - 2 ^ N.
Definition ZeroExtend (x M : Z) : Z := x.
Definition SignExtend (x N M : Z) : Z := SInt x N mod 2 ^ M.

(* A2.2.1 shifts and rotates; N is the operand width, n the amount *)
Definition LSL_C (N x n : Z) : Z * Z := ((x * 2 ^ n) mod 2 ^ N, (x * 2 ^ n / 2 ^ N) mod 2).
Definition LSR_C (N x n : Z) : Z * Z := (x / 2 ^ n, (x / 2 ^ (n - 1)) mod 2).
Definition ASR_C (N x n : Z) : Z * Z := ((SInt x N / 2 ^ n) mod 2 ^ N, (SInt x N / 2 ^ (n - 1)) mod 2).
Definition ROR (N x n : Z) : Z := let m := n mod N in (x / 2 ^ m + (x mod 2 ^ m) * 2 ^ (N - m)) mod 2 ^ N.
Definition ROR_C (N x n : Z) : Z * Z := let r := ROR N x n in (r, r / 2 ^ (N - 1)).
Definition RRX_C (N x c : Z) : Z * Z := (c * 2 ^ (N - 1) + x / 2, x mod 2).

(* SRType *)
Definition SRType_LSL := 1. Definition SRType_LSR := 2. Definition SRType_ASR := 3.
Definition SRType_ROR := 4. Definition SRType_RRX := 5.

Definition Shift_C (N value type amount carry_in : Z) : Z * Z :=
  if amount =? 0 then (value, carry_in)
  else if type =? SRType_LSL then LSL_C N value amount
  else if type =? SRType_LSR then LSR_C N value amount
  else if type =? SRType_ASR then ASR_C N value amount
  else if type =? SRType_ROR then ROR_C N value amount
  else RRX_C N value carry_in.

Definition DecodeImmShift (type imm5 : Z) : Z * Z :=
  if type =? 0 then (SRType_LSL, imm5)
  else if type =? 1 then (SRType_LSR, if imm5 =? 0 then 32 else imm5)
  else if type =? 2 then (SRType_ASR, if imm5 =? 0 then 32 else imm5)
  else if imm5 =? 0 then (SRType_RRX, 1) else (SRType_ROR, imm5).
Definition DecodeRegShift (type : Z) : Z :=
  if type =? 0 then SRType_LSL else if type =? 1 then SRType_LSR
  else if type =? 2 then SRType_ASR else SRType_ROR.

(* A5.2.4 / A6.3.2 modified immediates *)
Definition ARMExpandImm_C (imm12 carry_in : Z) : Z * Z :=
  Shift_C 32 (bits imm12 7 0) SRType_ROR (2 * bits imm12 11 8) carry_in.
Definition ThumbExpandImm_C (imm12 carry_in : Z) : Z * Z :=
  if bits imm12 11 10 =? 0 then
    let b := bits imm12 7 0 in
    let sel := bits imm12 9 8 in
    ((if sel =? 0 then b
      else if sel =? 1 then b * 2 ^ 16 + b
      else if sel =? 2 then b * 2 ^ 24 + b * 2 ^ 8
      else b * 2 ^ 24 + b * 2 ^ 16 + b * 2 ^ 8 + b), carry_in)
  else ROR_C 32 (2 ^ 7 + bits imm12 6 0) (bits imm12 11 7).

(* A2.2.1 AddWithCarry *)
Definition AddWithCarry (N x y c : Z) : Z * Z * Z :=
  let us := x + y + c in
  let ss := SInt x N + SInt y N + c in
  let r := us mod 2 ^ N in
  (r, B2Z (negb (r =? us)), B2Z (negb (SInt r N =? ss))).

(* A2.2.1 saturation: i any integer, result an N-bit string *)
Definition SignedSatQ (i N : Z) : Z * Z :=
  if i >? 2 ^ (N - 1) - 1 then ((2 ^ (N - 1) - 1) mod 2 ^ N, 1)
  else if i <? - 2 ^ (N - 1) then ((- 2 ^ (N - 1)) mod 2 ^ N, 1)
  else (i mod 2 ^ N, 0).
Definition UnsignedSatQ (i N : Z) : Z * Z :=
  if i >? 2 ^ N - 1 then (2 ^ N - 1, 1) else if i <? 0 then (0, 1) else (i, 0).

Definition Align (x y : Z) : Z := y * (x / y).

(* number of one bits among the low N bits *)
Fixpoint BitCountN (n : nat) (x : Z) : Z :=
  match n with O => 0 | S k => BitCountN k x + bit x (Z.of_nat k) end.
Definition BitCount (N x : Z) : Z := BitCountN (Z.to_nat N) x.

(* byte reversal of an n-byte value *)
Fixpoint BigEndianReverseN (n : nat) (x : Z) : Z :=
  match n with O => 0 | S k => (x mod 256) * 2 ^ (8 * Z.of_nat k) + BigEndianReverseN k (x / 256) end.
Definition BigEndianReverse (x n : Z) : Z := BigEndianReverseN (Z.to_nat n) x.

(* ---------- characterisation lemmas (independent of any code) ---------- *)
Lemma pow2_pos n : 0 <= n -> 0 < 2 ^ n.
Proof. intros; apply Z.pow_pos_nonneg; lia. Qed.

Lemma SInt_range x N : 0 < N -> 0 <= x < 2 ^ N -> - 2 ^ (N - 1) <= SInt x N < 2 ^ (N - 1).
Proof.
  intros HN Hx. unfold SInt.
  assert (2 ^ N = 2 * 2 ^ (N - 1)) by (rewrite <- Z.pow_succ_r by lia; f_equal; lia).
  destruct (x <? 2 ^ (N - 1)) eqn:E; lia.
Qed.

Lemma SInt_mod x N : 0 < N -> 0 <= x < 2 ^ N -> SInt x N mod 2 ^ N = x.
Proof.
  intros HN Hx. unfold SInt. destruct (x <? 2 ^ (N - 1)).
  - apply Z.mod_small; lia.
  - replace (x - 2 ^ N) with (x + (-1) * 2 ^ N) by lia. rewrite Z.mod_add by lia. apply Z.mod_small; lia.
Qed.

Lemma AddWithCarry_result N x y c : fst (fst (AddWithCarry N x y c)) = (x + y + c) mod 2 ^ N.
Proof. reflexivity. Qed.

Lemma AddWithCarry_carry N x y c : 0 < N -> 0 <= x < 2 ^ N -> 0 <= y < 2 ^ N -> 0 <= c <= 1 ->
  snd (fst (AddWithCarry N x y c)) = (x + y + c) / 2 ^ N.
Proof.
  intros HN Hx Hy Hc. unfold AddWithCarry; cbn [fst snd].
  pose proof (pow2_pos N ltac:(lia)) as P.
  destruct (Z_lt_dec (x + y + c) (2 ^ N)) as [L|L].
  - rewrite Z.mod_small by lia. rewrite Z.eqb_refl. rewrite Z.div_small by lia. reflexivity.
  - assert (D : (x + y + c) / 2 ^ N = 1).
    { symmetry. apply Z.div_unique with (r := x + y + c - 2 ^ N); lia. }
    rewrite D.
    assert (M : (x + y + c) mod 2 ^ N = x + y + c - 2 ^ N).
    { symmetry. apply Z.mod_unique with (q := 1); lia. }
    rewrite M. replace (x + y + c - 2 ^ N =? x + y + c) with false by lia. reflexivity.
Qed.

Lemma AddWithCarry_overflow N x y c : 0 < N -> 0 <= x < 2 ^ N -> 0 <= y < 2 ^ N -> 0 <= c <= 1 ->
  snd (AddWithCarry N x y c) =
  B2Z (negb ((- 2 ^ (N - 1) <=? SInt x N + SInt y N + c) && (SInt x N + SInt y N + c <? 2 ^ (N - 1)))).
Proof.
  intros HN Hx Hy Hc. unfold AddWithCarry; cbn [fst snd].
  pose proof (pow2_pos N ltac:(lia)) as P.
  pose proof (SInt_range x N HN Hx) as Rx. pose proof (SInt_range y N HN Hy) as Ry.
  assert (P2 : 2 ^ N = 2 * 2 ^ (N - 1)) by (rewrite <- Z.pow_succ_r by lia; f_equal; lia).
  set (ss := SInt x N + SInt y N + c) in *.
  set (r := (x + y + c) mod 2 ^ N).
  assert (Hr : 0 <= r < 2 ^ N) by (apply Z.mod_pos_bound; lia).
  pose proof (SInt_range r N HN Hr) as Rr.
  assert (Cong : (SInt r N - ss) mod 2 ^ N = 0).
  { assert (E1 : SInt r N mod 2 ^ N = r) by (apply SInt_mod; lia).
    assert (E2 : ss mod 2 ^ N = r).
    { unfold ss, r. rewrite <- (SInt_mod x N HN Hx) at 2. rewrite <- (SInt_mod y N HN Hy) at 2.
      rewrite <- Z.add_mod_idemp_l by lia. rewrite <- (Z.add_mod_idemp_l (SInt x N mod 2 ^ N + SInt y N mod 2 ^ N)) by lia.
      rewrite <- Z.add_mod by lia. reflexivity. }
    rewrite Zminus_mod, E1, E2, Z.sub_diag. reflexivity. }
  apply Z.mod_divide in Cong; [|lia]. destruct Cong as [q Hq].
  destruct ((- 2 ^ (N - 1) <=? ss) && (ss <? 2 ^ (N - 1))) eqn:E.
  - assert (q = 0) by nia. replace (SInt r N =? ss) with true by lia. reflexivity.
  - assert (SInt r N <> ss) by lia. replace (SInt r N =? ss) with false by lia. reflexivity.
Qed.

Lemma LSL_C_result N x n : fst (LSL_C N x n) = (x * 2 ^ n) mod 2 ^ N.
Proof. reflexivity. Qed.
Lemma LSR_C_result N x n : fst (LSR_C N x n) = x / 2 ^ n.
Proof. reflexivity. Qed.
