(* Proofs/ParProofs.v — the parallel addition / subtraction family (SADD16 ... UHSUB8) proved equal to Spec/Arith2.v [par]. *)
From Coq Require Import ZArith List Bool Lia ZifyBool.
From ArmV Require Import Lib.PyZ Lib.Monad Lib.Machine Spec.Pseudocode Spec.Expected Spec.Arch
  Proofs.BitLemmas Proofs.SpecFacts Proofs.BitsOps Proofs.BitsOps2 Proofs.ShiftOps Proofs.FieldsProofs Proofs.StateLemmas
  Proofs.CondProofs Proofs.GuardProofs Proofs.BankProofs Proofs.MachineOps Proofs.DPLemmas Proofs.DPTactics Proofs.BranchProofs
  Proofs.LSProofs Proofs.BlockProofs Spec.MachineView Spec.Arith Spec.Arith2 Proofs.ArithProofs Proofs.ArithProofs2.
From Gen Require Import enums bits_ops shift regviews records hubm opsyn core exec.
Import ListNotations.
Open Scope Z_scope.
(* a sentence that runs this long no longer matches the code it was written for: fail instead of searching *)
Set Default Timeout 240.
Ltac Zify.zify_post_hook ::= Z.to_euclidean_division_equations.

Lemma pack16_code a b : 0 <= a < 2 ^ 16 -> 0 <= b < 2 ^ 16 -> set_substring (set_substring 0 15 0 a) 31 16 b = pack16 a b.
Proof.
  intros Ha Hb. rewrite (set_substring_insert 0 15 0 a) by (try lia; change (2 ^ (15 - 0 + 1)) with 65536; lia).
  unfold exp_set_substring, insert. change (bits 0 15 0) with 0. change (2 ^ 0) with 1.
  rewrite set_substring_insert; [|lia|lia| |change (2 ^ (31 - 16 + 1)) with 65536; lia].
  - unfold exp_set_substring, insert, pack16. assert (E : bits (0 - 0 * 1 + a * 1) 31 16 = 0).
    { unfold bits. replace (0 - 0 * 1 + a * 1) with a by lia. rewrite Z.div_small by lia. reflexivity. }
    rewrite E. rewrite !Z.mod_small by lia. lia.
  - split; [lia|]. apply Z.lt_le_trans with (2 ^ 16); [lia|]. apply Z.pow_le_mono_r; lia.
Qed.

Lemma a_ge {A} ge (k : unit -> M machine A) cfg s : ictx cfg s -> 0 <= ge < 16 ->
  bind (get_sys 0) (fun r => bind (put_sys 0 (CPSR_set_ge r ge)) k) s = k tt (setGE s ge).
Proof.
  intros H Hg. pose proof (ok_cpsr _ _ (i_ok _ _ H)) as Hw.
  unfold bind, get_sys, put_sys, setGE, upd_cpsr, with_cpsr, cpsr_of, CPSR_set_ge. cbn beta iota zeta. f_equal. f_equal. f_equal.
  apply set_slice; [exact Hw|lia|lia|change (2 ^ (19 - 16 + 1)) with 16; exact Hg].
Qed.

Lemma ge16_code (c1 c2 : bool) :
  set_substring (if c1 then 3 else 0) 3 2 (if c2 then 3 else 0) = 3 * b2 c1 + 12 * b2 c2.
Proof. destruct c1, c2; reflexivity. Qed.

Lemma half16 x : Z.shiftr (to_unsigned x 17) 1 = (x / 2) mod 2 ^ 16.
Proof. rewrite to_unsigned_spec, Z.shiftr_div_pow2 by lia. change (2 ^ 1) with 2. change (2 ^ 17) with 131072. change (2 ^ 16) with 65536. lia. Qed.

Lemma s16_lo x : to_signed (substring x 15 0) 16 = SInt (bits x 15 0) 16.
Proof. rewrite substring_bits by lia. apply to_signed_SInt; [lia|]. apply (bits_range x 15 0); lia. Qed.
Lemma s16_hi x : to_signed (substring x 31 16) 16 = SInt (bits x 31 16) 16.
Proof. rewrite substring_bits by lia. apply to_signed_SInt; [lia|]. apply (bits_range x 31 16); lia. Qed.

Lemma pack16_mod a b : pack16 (a mod 2 ^ 16) (b mod 2 ^ 16) = pack16 a b.
Proof. unfold pack16. rewrite !Z.mod_mod by lia. reflexivity. Qed.
Lemma ssat_range x n : 0 < n -> 0 <= ssat x n < 2 ^ n.
Proof.
  intros Hn. unfold ssat, SignedSatQ. pose proof (pow_pos n ltac:(lia)). pose proof (pow_succ n Hn).
  destruct (_ >? _); cbn [fst]; [apply Z.mod_pos_bound; lia|]. destruct (_ <? _); cbn [fst]; apply Z.mod_pos_bound; lia.
Qed.
Lemma usat_range x n : 0 <= n -> 0 <= usat x n < 2 ^ n.
Proof.
  intros Hn. unfold usat, UnsignedSatQ. pose proof (pow_pos n ltac:(lia)).
  destruct (_ >? _) eqn:E1; cbn [fst]; [lia|]. destruct (_ <? _) eqn:E2; cbn [fst]; lia.
Qed.
Lemma half16u x : substring x 16 1 = (x / 2) mod 2 ^ 16.
Proof. rewrite substring_bits by lia. unfold bits. change (2 ^ 1) with 2. reflexivity. Qed.
Lemma u16_lo x : substring x 15 0 = bits x 15 0. Proof. apply substring_bits; lia. Qed.
Lemma u16_hi x : substring x 31 16 = bits x 31 16. Proof. apply substring_bits; lia. Qed.

Lemma pack16_word a b : word (pack16 a b).
Proof. unfold pack16, word. pose proof (Z.mod_pos_bound a (2 ^ 16) ltac:(lia)). pose proof (Z.mod_pos_bound b (2 ^ 16) ltac:(lia)). lia. Qed.
Lemma ge_code_rng (c1 c2 : bool) : 0 <= 3 * b2 c1 + 12 * b2 c2 < 16.
Proof. destruct c1, c2; cbn; lia. Qed.
Lemma set_substring_append b hi lo v : 0 <= lo <= hi -> hi < 256 -> 0 <= b < 2 ^ lo -> 0 <= v < 2 ^ (hi - lo + 1) ->
  set_substring b hi lo v = b + v * 2 ^ lo.
Proof.
  intros Hl Hh Hb Hv. rewrite set_substring_insert; try lia.
  - unfold exp_set_substring, insert, bits. rewrite Z.div_small by lia. rewrite Z.mod_0_l by (pose proof (pow_pos (hi - lo + 1) ltac:(lia)); lia). lia.
  - split; [lia|]. apply Z.lt_le_trans with (2 ^ lo); [lia|]. apply Z.pow_le_mono_r; lia.
Qed.
Lemma pack8_code a b c d : 0 <= a < 2 ^ 8 -> 0 <= b < 2 ^ 8 -> 0 <= c < 2 ^ 8 -> 0 <= d < 2 ^ 8 ->
  set_substring (set_substring (set_substring (set_substring 0 7 0 a) 15 8 b) 23 16 c) 31 24 d = pack8 a b c d.
Proof.
  intros Ha Hb Hc Hd.
  rewrite (set_substring_append 0 7 0 a) by (try lia; change (2 ^ (7 - 0 + 1)) with 256; lia).
  rewrite (set_substring_append _ 15 8 b) by (try lia; change (2 ^ (15 - 8 + 1)) with 256; lia).
  rewrite (set_substring_append _ 23 16 c) by (try lia; change (2 ^ (23 - 16 + 1)) with 256; lia).
  rewrite (set_substring_append _ 31 24 d) by (try lia; change (2 ^ (31 - 24 + 1)) with 256; lia).
  unfold pack8. change (2 ^ 8) with 256 in *. rewrite !Z.mod_small by lia. lia.
Qed.
Lemma pack8_mod a b c d : pack8 (a mod 2 ^ 8) (b mod 2 ^ 8) (c mod 2 ^ 8) (d mod 2 ^ 8) = pack8 a b c d.
Proof. unfold pack8. change (2 ^ 8) with 256. rewrite !Z.mod_mod by lia. reflexivity. Qed.
Lemma pack8_word a b c d : word (pack8 a b c d).
Proof. unfold pack8, word. pose proof (Z.mod_pos_bound a 256 ltac:(lia)). pose proof (Z.mod_pos_bound b 256 ltac:(lia)).
  pose proof (Z.mod_pos_bound c 256 ltac:(lia)). pose proof (Z.mod_pos_bound d 256 ltac:(lia)). lia. Qed.
Lemma ge8_code (c0 c1 c2 c3 : bool) :
  set_bit_at (set_bit_at (set_bit_at (set_bit_at 0 0 (if c0 then 1 else 0)) 1 (if c1 then 1 else 0)) 2 (if c2 then 1 else 0)) 3 (if c3 then 1 else 0)
  = b2 c0 + 2 * b2 c1 + 4 * b2 c2 + 8 * b2 c3.
Proof. destruct c0, c1, c2, c3; reflexivity. Qed.
Lemma ge8_code_rng (c0 c1 c2 c3 : bool) : 0 <= b2 c0 + 2 * b2 c1 + 4 * b2 c2 + 8 * b2 c3 < 16.
Proof. destruct c0, c1, c2, c3; cbn; lia. Qed.
Lemma half8 x : Z.shiftr (to_unsigned x 9) 1 = (x / 2) mod 2 ^ 8.
Proof. rewrite to_unsigned_spec, Z.shiftr_div_pow2 by lia. change (2 ^ 1) with 2. change (2 ^ 9) with 512. change (2 ^ 8) with 256. lia. Qed.
Lemma half8u x : substring x 8 1 = (x / 2) mod 2 ^ 8.
Proof. rewrite substring_bits by lia. unfold bits. change (2 ^ 1) with 2. reflexivity. Qed.
Lemma u8_0 x : substring x 7 0 = byte x 0. Proof. apply substring_bits; lia. Qed.
Lemma u8_1 x : substring x 15 8 = byte x 1. Proof. apply substring_bits; lia. Qed.
Lemma u8_2 x : substring x 23 16 = byte x 2. Proof. apply substring_bits; lia. Qed.
Lemma u8_3 x : substring x 31 24 = byte x 3. Proof. apply substring_bits; lia. Qed.
Lemma byte_rng x k : 0 <= k -> 0 <= byte x k < 2 ^ 8.
Proof. intros Hk. unfold byte. pose proof (bits_range x (8 * k + 7) (8 * k) ltac:(lia)) as R. replace (8 * k + 7 - 8 * k + 1) with 8 in R by lia. exact R. Qed.
Lemma s8 x k : 0 <= k -> to_signed (byte x k) 8 = SInt (byte x k) 8.
Proof. intros Hk. apply to_signed_SInt; [lia|]. apply byte_rng; exact Hk. Qed.

Ltac lane_rng := first [ apply Z.mod_pos_bound; lia | apply (ssat_range _ 16); lia | apply (usat_range _ 16); lia ].
Ltac par16_tac cfg H Hc Hd :=
  rewrite guard_pass by exact Hc; rewrite bind_ret_tt; getr cfg H; getr cfg H;
  rewrite ?s16_lo, ?s16_hi, ?u16_lo, ?u16_hi;
  rewrite ?half16, ?half16u, ?to_unsigned_spec, ?signed_sat_spec, ?unsigned_sat_spec; rewrite ?lower_chunk_mod by lia;
  rewrite pack16_code by lane_rng;
  unfold par; cbn [Z.ltb Z.compare Pos.compare Pos.compare_cont]; cbv iota;
  unfold par16, ext, lo16, hi16, lane_out, lane_ge, ssat, usat; cbv iota beta zeta;
  cbn [Z.eqb Pos.eqb]; cbv iota; rewrite ?pack16_mod;
  match goal with |- bind (Registers_set cfg ?dd (pack16 ?A ?B)) _ ?s0 = _ =>
    let Wp := fresh "Wp" in
    assert (Wp : word (pack16 A B)) by apply pack16_word;
    rewrite (b_set cfg) by (first [exact H | exact Wp | lia]);
    let H1 := fresh "H1" in
    assert (H1 : ictx cfg (rset s0 dd (pack16 A B))) by (apply ictx_rset; [exact H|lia|exact Wp]);
    rewrite ?pack16_mod;
    first [ reflexivity
          | rewrite !Z.geb_leb; rewrite ge16_code; rewrite ?bind_ret_tt;
            rewrite (a_ge _ _ cfg) by (try exact H1; apply ge_code_rng);
            rewrite ?pack16_mod; reflexivity ]
  end.

Ltac lane_rng8 := first [ apply Z.mod_pos_bound; lia | apply (ssat_range _ 8); lia | apply (usat_range _ 8); lia ].
Ltac par8_tac cfg H Hc Hd :=
  rewrite guard_pass by exact Hc; rewrite bind_ret_tt; getr cfg H; getr cfg H;
  rewrite ?u8_0, ?u8_1, ?u8_2, ?u8_3; rewrite ?s8 by lia;
  rewrite ?half8, ?half8u, ?to_unsigned_spec, ?signed_sat_spec, ?unsigned_sat_spec; rewrite ?lower_chunk_mod by lia;
  rewrite pack8_code by lane_rng8;
  unfold par; cbn [Z.ltb Z.compare Pos.compare Pos.compare_cont]; cbv iota;
  unfold par8, ext, lane_out, lane_ge, ssat, usat; cbv iota beta zeta;
  cbn [Z.eqb Pos.eqb]; cbv iota; rewrite ?pack8_mod;
  match goal with |- bind (Registers_set cfg ?dd (pack8 ?A ?B ?C ?D)) _ ?s0 = _ =>
    let Wp := fresh "Wp" in
    assert (Wp : word (pack8 A B C D)) by apply pack8_word;
    rewrite (b_set cfg) by (first [exact H | exact Wp | lia]);
    let H1 := fresh "H1" in
    assert (H1 : ictx cfg (rset s0 dd (pack8 A B C D))) by (apply ictx_rset; [exact H|lia|exact Wp]);
    first [ reflexivity
          | rewrite !Z.geb_leb; rewrite ge8_code; rewrite ?bind_ret_tt;
            rewrite (a_ge _ _ cfg) by (try exact H1; apply ge8_code_rng);
            reflexivity ]
  end.

Theorem Sadd16_ok cfg instr m d n s :
  ictx cfg s -> cond_holds s -> 0 <= m <= 14 -> 0 <= d <= 14 -> 0 <= n <= 14 ->
  Sadd16_execute cfg instr m d n s = Ok tt (par true 0 0 (cfg_arch_version cfg) s m d n).
Proof. intros H Hc Hm Hd Hn. unfold Sadd16_execute. par16_tac cfg H Hc Hd. Qed.
Theorem Sasx_ok cfg instr m d n s :
  ictx cfg s -> cond_holds s -> 0 <= m <= 14 -> 0 <= d <= 14 -> 0 <= n <= 14 ->
  Sasx_execute cfg instr m d n s = Ok tt (par true 0 1 (cfg_arch_version cfg) s m d n).
Proof. intros H Hc Hm Hd Hn. unfold Sasx_execute. par16_tac cfg H Hc Hd. Qed.
Theorem Ssax_ok cfg instr m d n s :
  ictx cfg s -> cond_holds s -> 0 <= m <= 14 -> 0 <= d <= 14 -> 0 <= n <= 14 ->
  Ssax_execute cfg instr m d n s = Ok tt (par true 0 2 (cfg_arch_version cfg) s m d n).
Proof. intros H Hc Hm Hd Hn. unfold Ssax_execute. par16_tac cfg H Hc Hd. Qed.
Theorem Ssub16_ok cfg instr m d n s :
  ictx cfg s -> cond_holds s -> 0 <= m <= 14 -> 0 <= d <= 14 -> 0 <= n <= 14 ->
  Ssub16_execute cfg instr m d n s = Ok tt (par true 0 3 (cfg_arch_version cfg) s m d n).
Proof. intros H Hc Hm Hd Hn. unfold Ssub16_execute. par16_tac cfg H Hc Hd. Qed.
Theorem Qadd16_ok cfg instr m d n s :
  ictx cfg s -> cond_holds s -> 0 <= m <= 14 -> 0 <= d <= 14 -> 0 <= n <= 14 ->
  Qadd16_execute cfg instr m d n s = Ok tt (par true 1 0 (cfg_arch_version cfg) s m d n).
Proof. intros H Hc Hm Hd Hn. unfold Qadd16_execute. par16_tac cfg H Hc Hd. Qed.
Theorem Qasx_ok cfg instr m d n s :
  ictx cfg s -> cond_holds s -> 0 <= m <= 14 -> 0 <= d <= 14 -> 0 <= n <= 14 ->
  Qasx_execute cfg instr m d n s = Ok tt (par true 1 1 (cfg_arch_version cfg) s m d n).
Proof. intros H Hc Hm Hd Hn. unfold Qasx_execute. par16_tac cfg H Hc Hd. Qed.
Theorem Qsax_ok cfg instr m d n s :
  ictx cfg s -> cond_holds s -> 0 <= m <= 14 -> 0 <= d <= 14 -> 0 <= n <= 14 ->
  Qsax_execute cfg instr m d n s = Ok tt (par true 1 2 (cfg_arch_version cfg) s m d n).
Proof. intros H Hc Hm Hd Hn. unfold Qsax_execute. par16_tac cfg H Hc Hd. Qed.
Theorem Qsub16_ok cfg instr m d n s :
  ictx cfg s -> cond_holds s -> 0 <= m <= 14 -> 0 <= d <= 14 -> 0 <= n <= 14 ->
  Qsub16_execute cfg instr m d n s = Ok tt (par true 1 3 (cfg_arch_version cfg) s m d n).
Proof. intros H Hc Hm Hd Hn. unfold Qsub16_execute. par16_tac cfg H Hc Hd. Qed.
Theorem Shadd16_ok cfg instr m d n s :
  ictx cfg s -> cond_holds s -> 0 <= m <= 14 -> 0 <= d <= 14 -> 0 <= n <= 14 ->
  Shadd16_execute cfg instr m d n s = Ok tt (par true 2 0 (cfg_arch_version cfg) s m d n).
Proof. intros H Hc Hm Hd Hn. unfold Shadd16_execute. par16_tac cfg H Hc Hd. Qed.
Theorem Shasx_ok cfg instr m d n s :
  ictx cfg s -> cond_holds s -> 0 <= m <= 14 -> 0 <= d <= 14 -> 0 <= n <= 14 ->
  Shasx_execute cfg instr m d n s = Ok tt (par true 2 1 (cfg_arch_version cfg) s m d n).
Proof. intros H Hc Hm Hd Hn. unfold Shasx_execute. par16_tac cfg H Hc Hd. Qed.
Theorem Shsax_ok cfg instr m d n s :
  ictx cfg s -> cond_holds s -> 0 <= m <= 14 -> 0 <= d <= 14 -> 0 <= n <= 14 ->
  Shsax_execute cfg instr m d n s = Ok tt (par true 2 2 (cfg_arch_version cfg) s m d n).
Proof. intros H Hc Hm Hd Hn. unfold Shsax_execute. par16_tac cfg H Hc Hd. Qed.
Theorem Shsub16_ok cfg instr m d n s :
  ictx cfg s -> cond_holds s -> 0 <= m <= 14 -> 0 <= d <= 14 -> 0 <= n <= 14 ->
  Shsub16_execute cfg instr m d n s = Ok tt (par true 2 3 (cfg_arch_version cfg) s m d n).
Proof. intros H Hc Hm Hd Hn. unfold Shsub16_execute. par16_tac cfg H Hc Hd. Qed.
Theorem Uadd16_ok cfg instr m d n s :
  ictx cfg s -> cond_holds s -> 0 <= m <= 14 -> 0 <= d <= 14 -> 0 <= n <= 14 ->
  Uadd16_execute cfg instr m d n s = Ok tt (par false 0 0 (cfg_arch_version cfg) s m d n).
Proof. intros H Hc Hm Hd Hn. unfold Uadd16_execute. par16_tac cfg H Hc Hd. Qed.
Theorem Uasx_ok cfg instr m d n s :
  ictx cfg s -> cond_holds s -> 0 <= m <= 14 -> 0 <= d <= 14 -> 0 <= n <= 14 ->
  Uasx_execute cfg instr m d n s = Ok tt (par false 0 1 (cfg_arch_version cfg) s m d n).
Proof. intros H Hc Hm Hd Hn. unfold Uasx_execute. par16_tac cfg H Hc Hd. Qed.
Theorem Usax_ok cfg instr m d n s :
  ictx cfg s -> cond_holds s -> 0 <= m <= 14 -> 0 <= d <= 14 -> 0 <= n <= 14 ->
  Usax_execute cfg instr m d n s = Ok tt (par false 0 2 (cfg_arch_version cfg) s m d n).
Proof. intros H Hc Hm Hd Hn. unfold Usax_execute. par16_tac cfg H Hc Hd. Qed.
Theorem Usub16_ok cfg instr m d n s :
  ictx cfg s -> cond_holds s -> 0 <= m <= 14 -> 0 <= d <= 14 -> 0 <= n <= 14 ->
  Usub16_execute cfg instr m d n s = Ok tt (par false 0 3 (cfg_arch_version cfg) s m d n).
Proof. intros H Hc Hm Hd Hn. unfold Usub16_execute. par16_tac cfg H Hc Hd. Qed.
Theorem Uqadd16_ok cfg instr m d n s :
  ictx cfg s -> cond_holds s -> 0 <= m <= 14 -> 0 <= d <= 14 -> 0 <= n <= 14 ->
  Uqadd16_execute cfg instr m d n s = Ok tt (par false 1 0 (cfg_arch_version cfg) s m d n).
Proof. intros H Hc Hm Hd Hn. unfold Uqadd16_execute. par16_tac cfg H Hc Hd. Qed.
Theorem Uqasx_ok cfg instr m d n s :
  ictx cfg s -> cond_holds s -> 0 <= m <= 14 -> 0 <= d <= 14 -> 0 <= n <= 14 ->
  Uqasx_execute cfg instr m d n s = Ok tt (par false 1 1 (cfg_arch_version cfg) s m d n).
Proof. intros H Hc Hm Hd Hn. unfold Uqasx_execute. par16_tac cfg H Hc Hd. Qed.
Theorem Uqsax_ok cfg instr m d n s :
  ictx cfg s -> cond_holds s -> 0 <= m <= 14 -> 0 <= d <= 14 -> 0 <= n <= 14 ->
  Uqsax_execute cfg instr m d n s = Ok tt (par false 1 2 (cfg_arch_version cfg) s m d n).
Proof. intros H Hc Hm Hd Hn. unfold Uqsax_execute. par16_tac cfg H Hc Hd. Qed.
Theorem Uqsub16_ok cfg instr m d n s :
  ictx cfg s -> cond_holds s -> 0 <= m <= 14 -> 0 <= d <= 14 -> 0 <= n <= 14 ->
  Uqsub16_execute cfg instr m d n s = Ok tt (par false 1 3 (cfg_arch_version cfg) s m d n).
Proof. intros H Hc Hm Hd Hn. unfold Uqsub16_execute. par16_tac cfg H Hc Hd. Qed.
Theorem Uhadd16_ok cfg instr m d n s :
  ictx cfg s -> cond_holds s -> 0 <= m <= 14 -> 0 <= d <= 14 -> 0 <= n <= 14 ->
  Uhadd16_execute cfg instr m d n s = Ok tt (par false 2 0 (cfg_arch_version cfg) s m d n).
Proof. intros H Hc Hm Hd Hn. unfold Uhadd16_execute. par16_tac cfg H Hc Hd. Qed.
Theorem Uhasx_ok cfg instr m d n s :
  ictx cfg s -> cond_holds s -> 0 <= m <= 14 -> 0 <= d <= 14 -> 0 <= n <= 14 ->
  Uhasx_execute cfg instr m d n s = Ok tt (par false 2 1 (cfg_arch_version cfg) s m d n).
Proof. intros H Hc Hm Hd Hn. unfold Uhasx_execute. par16_tac cfg H Hc Hd. Qed.
Theorem Uhsax_ok cfg instr m d n s :
  ictx cfg s -> cond_holds s -> 0 <= m <= 14 -> 0 <= d <= 14 -> 0 <= n <= 14 ->
  Uhsax_execute cfg instr m d n s = Ok tt (par false 2 2 (cfg_arch_version cfg) s m d n).
Proof. intros H Hc Hm Hd Hn. unfold Uhsax_execute. par16_tac cfg H Hc Hd. Qed.
Theorem Uhsub16_ok cfg instr m d n s :
  ictx cfg s -> cond_holds s -> 0 <= m <= 14 -> 0 <= d <= 14 -> 0 <= n <= 14 ->
  Uhsub16_execute cfg instr m d n s = Ok tt (par false 2 3 (cfg_arch_version cfg) s m d n).
Proof. intros H Hc Hm Hd Hn. unfold Uhsub16_execute. par16_tac cfg H Hc Hd. Qed.
Theorem Sadd8_ok cfg instr m d n s :
  ictx cfg s -> cond_holds s -> 0 <= m <= 14 -> 0 <= d <= 14 -> 0 <= n <= 14 ->
  Sadd8_execute cfg instr m d n s = Ok tt (par true 0 4 (cfg_arch_version cfg) s m d n).
Proof. intros H Hc Hm Hd Hn. unfold Sadd8_execute. par8_tac cfg H Hc Hd. Qed.
Theorem Ssub8_ok cfg instr m d n s :
  ictx cfg s -> cond_holds s -> 0 <= m <= 14 -> 0 <= d <= 14 -> 0 <= n <= 14 ->
  Ssub8_execute cfg instr m d n s = Ok tt (par true 0 5 (cfg_arch_version cfg) s m d n).
Proof. intros H Hc Hm Hd Hn. unfold Ssub8_execute. par8_tac cfg H Hc Hd. Qed.
Theorem Qadd8_ok cfg instr m d n s :
  ictx cfg s -> cond_holds s -> 0 <= m <= 14 -> 0 <= d <= 14 -> 0 <= n <= 14 ->
  Qadd8_execute cfg instr m d n s = Ok tt (par true 1 4 (cfg_arch_version cfg) s m d n).
Proof. intros H Hc Hm Hd Hn. unfold Qadd8_execute. par8_tac cfg H Hc Hd. Qed.
Theorem Qsub8_ok cfg instr m d n s :
  ictx cfg s -> cond_holds s -> 0 <= m <= 14 -> 0 <= d <= 14 -> 0 <= n <= 14 ->
  Qsub8_execute cfg instr m d n s = Ok tt (par true 1 5 (cfg_arch_version cfg) s m d n).
Proof. intros H Hc Hm Hd Hn. unfold Qsub8_execute. par8_tac cfg H Hc Hd. Qed.
Theorem Shadd8_ok cfg instr m d n s :
  ictx cfg s -> cond_holds s -> 0 <= m <= 14 -> 0 <= d <= 14 -> 0 <= n <= 14 ->
  Shadd8_execute cfg instr m d n s = Ok tt (par true 2 4 (cfg_arch_version cfg) s m d n).
Proof. intros H Hc Hm Hd Hn. unfold Shadd8_execute. par8_tac cfg H Hc Hd. Qed.
Theorem Shsub8_ok cfg instr m d n s :
  ictx cfg s -> cond_holds s -> 0 <= m <= 14 -> 0 <= d <= 14 -> 0 <= n <= 14 ->
  Shsub8_execute cfg instr m d n s = Ok tt (par true 2 5 (cfg_arch_version cfg) s m d n).
Proof. intros H Hc Hm Hd Hn. unfold Shsub8_execute. par8_tac cfg H Hc Hd. Qed.
Theorem Uadd8_ok cfg instr m d n s :
  ictx cfg s -> cond_holds s -> 0 <= m <= 14 -> 0 <= d <= 14 -> 0 <= n <= 14 ->
  Uadd8_execute cfg instr m d n s = Ok tt (par false 0 4 (cfg_arch_version cfg) s m d n).
Proof. intros H Hc Hm Hd Hn. unfold Uadd8_execute. par8_tac cfg H Hc Hd. Qed.
Theorem Usub8_ok cfg instr m d n s :
  ictx cfg s -> cond_holds s -> 0 <= m <= 14 -> 0 <= d <= 14 -> 0 <= n <= 14 ->
  Usub8_execute cfg instr m d n s = Ok tt (par false 0 5 (cfg_arch_version cfg) s m d n).
Proof. intros H Hc Hm Hd Hn. unfold Usub8_execute. par8_tac cfg H Hc Hd. Qed.
Theorem Uqadd8_ok cfg instr m d n s :
  ictx cfg s -> cond_holds s -> 0 <= m <= 14 -> 0 <= d <= 14 -> 0 <= n <= 14 ->
  Uqadd8_execute cfg instr m d n s = Ok tt (par false 1 4 (cfg_arch_version cfg) s m d n).
Proof. intros H Hc Hm Hd Hn. unfold Uqadd8_execute. par8_tac cfg H Hc Hd. Qed.
Theorem Uqsub8_ok cfg instr m d n s :
  ictx cfg s -> cond_holds s -> 0 <= m <= 14 -> 0 <= d <= 14 -> 0 <= n <= 14 ->
  Uqsub8_execute cfg instr m d n s = Ok tt (par false 1 5 (cfg_arch_version cfg) s m d n).
Proof. intros H Hc Hm Hd Hn. unfold Uqsub8_execute. par8_tac cfg H Hc Hd. Qed.
Theorem Uhadd8_ok cfg instr m d n s :
  ictx cfg s -> cond_holds s -> 0 <= m <= 14 -> 0 <= d <= 14 -> 0 <= n <= 14 ->
  Uhadd8_execute cfg instr m d n s = Ok tt (par false 2 4 (cfg_arch_version cfg) s m d n).
Proof. intros H Hc Hm Hd Hn. unfold Uhadd8_execute. par8_tac cfg H Hc Hd. Qed.
Theorem Uhsub8_ok cfg instr m d n s :
  ictx cfg s -> cond_holds s -> 0 <= m <= 14 -> 0 <= d <= 14 -> 0 <= n <= 14 ->
  Uhsub8_execute cfg instr m d n s = Ok tt (par false 2 5 (cfg_arch_version cfg) s m d n).
Proof. intros H Hc Hm Hd Hn. unfold Uhsub8_execute. par8_tac cfg H Hc Hd. Qed.
