(* Proofs/StepInstancesArm.v — GENERATED text (one block per encoding, same script): the remaining ARM data-processing
   (immediate) encodings with a destination register end to end — AND, EOR, SUB, RSB, ADC, SBC, RSC, ORR, BIC (A1), for
   every word of the encoding (cond != 1111, Rn and Rd in r0-r12 and different) and every state. *)
Set Default Timeout 240.
From Coq Require Import ZArith List Bool Lia ZifyBool.
From ArmV Require Import Lib.PyZ Lib.Monad Lib.Machine Spec.Pseudocode Spec.Arch Spec.MachineView Spec.Branches Spec.StepFrame
  Spec.OperandSpec Spec.DPSem
  Proofs.SpecFacts Proofs.StateLemmas Proofs.CondProofs Proofs.GuardProofs Proofs.BankProofs Proofs.MachineOps Proofs.DPLemmas
  Proofs.DPClasses0 Proofs.DPClasses1 Proofs.DPClasses2 Proofs.DPClasses3 Proofs.DPClasses4 Proofs.DPClasses5 Proofs.DPClasses6 Proofs.DPClasses7
  Proofs.StepProofs Proofs.StepDP Proofs.StepInstances Proofs.OpTac
  Proofs.OpsA0 Proofs.OpsA1 Proofs.OpsA2 Proofs.OpsA3 Proofs.OpsA4 Proofs.OpsA5 Proofs.OpsA6 Proofs.OpsA7.
From Gen Require Import enums bits_ops shift regviews records hubm opsyn core exec conc decoders step.
Import ListNotations.
Open Scope Z_scope.
Ltac Zify.zify_post_hook ::= Z.to_euclidean_division_equations.

(* cond != 1111, bits 27:25 = 001, opcode = o24:o23:o22:o21, Rn and Rd in r0-r12 and different *)
Definition is_dp_imm_a1 (o24 o23 o22 o21 w : Z) : Prop :=
  bits w 31 28 <> 15 /\ bit w 27 = 0 /\ bit w 26 = 0 /\ bit w 25 = 1 /\ bit w 24 = o24 /\ bit w 23 = o23 /\ bit w 22 = o22 /\ bit w 21 = o21
  /\ regs13 [bits w 19 16; bits w 15 12] = true.

Lemma snd_ARMExpandImm_C_range x c : 0 <= x < 4096 -> 0 <= c <= 1 -> 0 <= snd (ARMExpandImm_C x c) <= 1.
Proof.
  intros Hx Hc. unfold ARMExpandImm_C. pose proof (bits_range x 7 0 ltac:(lia)) as R. pose proof (bits_range x 11 8 ltac:(lia)) as R2.
  change (2 ^ (7 - 0 + 1)) with 256 in R.
  apply (Shift_C_range 32 (bits x 7 0) SRType_ROR (2 * bits x 11 8) c); try lia.
  split; [lia|]. right; right; right; left. reflexivity.
Qed.

(* ================= AND (immediate, ARM) A1 ================= *)
Lemma decode_AndImmediateA1 w s : 0 <= w < 2 ^ 32 -> is_dp_imm_a1 0 0 0 0 w -> iset_of s = 0 ->
  ArmV6_decode_instruction w s = Ok (Some enc_AndImmediateA1) s.
Proof.
  intros Hw (Hc & H27 & H26 & H25 & H24 & H23 & H22 & H21 & Hr) Hi. split_regs.
  unfold ArmV6_decode_instruction, op_decode_instruction.
  rewrite !run_bind, current_instr_set_spec. cbv beta iota. rewrite Hi. unfold InstrSet_ARM. cbn [Z.eqb]. cbv iota.
  rewrite run_bind.
  assert (D : dec_arm_instruction_set w = Val (Some enc_AndImmediateA1)).
  { dec_step dec_arm_instruction_set. pose_expand w 27 25. pose_expand w 27 26. ops_if. cbn [ebind].
    dec_step dec_arm_data_processing_and_miscellaneous_instructions. pose_expand w 24 23. ops_if. cbn [ebind].
    dec_step dec_arm_data_processing_immediate. pose_expand w 24 21. ops_if. reflexivity. }
  rewrite D. reflexivity.
Qed.
Lemma from_bitarray_AndImmediateA1 cfg w s : 0 <= w < 2 ^ 32 -> is_dp_imm_a1 0 0 0 0 w ->
  from_bitarray_dispatch cfg enc_AndImmediateA1 w s = Ok (Some (code_AndImmediate, [w; bit w 20; bits w 15 12; bits w 19 16; ARMExpandImm (bits w 11 0); snd (ARMExpandImm_C (bits w 11 0) (cflag s))])) s.
Proof.
  intros Hw (_ & _ & _ & _ & _ & _ & _ & _ & Hr).
  pose proof (ops_AndImmediateA1 w s Hw Hr) as H. unfold fb_out, fb_plain, fb_opt, fb_res, fb_res_opt, fb_m, fb_m_opt in H.
  unfold from_bitarray_dispatch, enc_AndImmediateA1. cbv iota. unfold bind, ret, lift in *.
  repeat match goal with
  | H : match ?x with _ => _ end = _ |- context[?x] => destruct x; try discriminate H
  end.
  inversion H. reflexivity.
Qed.
Theorem andImmediateA1_step cfg s w s1 :
  ArmV6_fetch_instruction cfg s = Ok w s1 ->
  0 <= w < 2 ^ 32 -> is_dp_imm_a1 0 0 0 0 w -> iset_of s1 = 0 -> ictx cfg s1 -> cond_holds s1 ->
  let d := bits w 15 12 in let n := bits w 19 16 in let imm32 := ARMExpandImm (bits w 11 0) in
  let c := (snd (ARMExpandImm_C (bits w 11 0) (cflag s1))) in
  let op := (code_AndImmediate, [w; bit w 20; bits w 15 12; bits w 19 16; ARMExpandImm (bits w 11 0); snd (ARMExpandImm_C (bits w 11 0) (cflag s1))]) in
  exists s2,
    dp_sem cfg AND (bit w 20) (Some d) n (Op2Imm imm32 c) (begin_instr s1 op) = Ok tt s2 /\
    ArmV6_emulate_cycle cfg s = Ok tt (AdvancePC (it_step_after s1 s2)) /\
    pc_of (AdvancePC (it_step_after s1 s2)) = add32 (pc_of s1) (opcode_len s1 / 8).
Proof.
  intros Hf Hw Hcube Hi Hctx Hcond d n imm32 c op.
  pose proof Hcube as (_ & _ & _ & _ & _ & _ & _ & _ & Hr). split_regs.
  pose proof (bits_range w 15 12 ltac:(lia)) as Rd. pose proof (bits_range w 19 16 ltac:(lia)) as Rn.
  pose proof (bits_range w 11 0 ltac:(lia)) as Ri. change (2 ^ (11 - 0 + 1)) with 4096 in Ri.
  assert (Wi : word imm32) by (apply word_ARMExpandImm; lia).
  assert (Wc : 0 <= c <= 1) by (unfold c; first [lia | apply snd_ARMExpandImm_C_range; [lia|apply psr_C_range]]).
  apply (dp_imm_step cfg s w s1 enc_AndImmediateA1 op AND (bit w 20) d n imm32 c Hf); try (unfold d, n; lia); try assumption.
  - apply decode_AndImmediateA1; assumption.
  - apply from_bitarray_AndImmediateA1; assumption.
  - change (execute_dispatch cfg op (begin_instr s1 op)) with (AndImmediate_execute cfg w (bit w 20) (bits w 15 12) (bits w 19 16) (ARMExpandImm (bits w 11 0)) (snd (ARMExpandImm_C (bits w 11 0) (cflag s1))) (begin_instr s1 op)).
    apply AndImmediate_sem; try (unfold d, n; lia); try exact Wi; try exact Wc; [apply ictx_begin; exact Hctx|apply cond_holds_begin; exact Hcond].
Qed.

(* ================= EOR (immediate, ARM) A1 ================= *)
Lemma decode_EorImmediateA1 w s : 0 <= w < 2 ^ 32 -> is_dp_imm_a1 0 0 0 1 w -> iset_of s = 0 ->
  ArmV6_decode_instruction w s = Ok (Some enc_EorImmediateA1) s.
Proof.
  intros Hw (Hc & H27 & H26 & H25 & H24 & H23 & H22 & H21 & Hr) Hi. split_regs.
  unfold ArmV6_decode_instruction, op_decode_instruction.
  rewrite !run_bind, current_instr_set_spec. cbv beta iota. rewrite Hi. unfold InstrSet_ARM. cbn [Z.eqb]. cbv iota.
  rewrite run_bind.
  assert (D : dec_arm_instruction_set w = Val (Some enc_EorImmediateA1)).
  { dec_step dec_arm_instruction_set. pose_expand w 27 25. pose_expand w 27 26. ops_if. cbn [ebind].
    dec_step dec_arm_data_processing_and_miscellaneous_instructions. pose_expand w 24 23. ops_if. cbn [ebind].
    dec_step dec_arm_data_processing_immediate. pose_expand w 24 21. ops_if. reflexivity. }
  rewrite D. reflexivity.
Qed.
Lemma from_bitarray_EorImmediateA1 cfg w s : 0 <= w < 2 ^ 32 -> is_dp_imm_a1 0 0 0 1 w ->
  from_bitarray_dispatch cfg enc_EorImmediateA1 w s = Ok (Some (code_EorImmediate, [w; bit w 20; bits w 15 12; bits w 19 16; ARMExpandImm (bits w 11 0); snd (ARMExpandImm_C (bits w 11 0) (cflag s))])) s.
Proof.
  intros Hw (_ & _ & _ & _ & _ & _ & _ & _ & Hr).
  pose proof (ops_EorImmediateA1 w s Hw Hr) as H. unfold fb_out, fb_plain, fb_opt, fb_res, fb_res_opt, fb_m, fb_m_opt in H.
  unfold from_bitarray_dispatch, enc_EorImmediateA1. cbv iota. unfold bind, ret, lift in *.
  repeat match goal with
  | H : match ?x with _ => _ end = _ |- context[?x] => destruct x; try discriminate H
  end.
  inversion H. reflexivity.
Qed.
Theorem eorImmediateA1_step cfg s w s1 :
  ArmV6_fetch_instruction cfg s = Ok w s1 ->
  0 <= w < 2 ^ 32 -> is_dp_imm_a1 0 0 0 1 w -> iset_of s1 = 0 -> ictx cfg s1 -> cond_holds s1 ->
  let d := bits w 15 12 in let n := bits w 19 16 in let imm32 := ARMExpandImm (bits w 11 0) in
  let c := (snd (ARMExpandImm_C (bits w 11 0) (cflag s1))) in
  let op := (code_EorImmediate, [w; bit w 20; bits w 15 12; bits w 19 16; ARMExpandImm (bits w 11 0); snd (ARMExpandImm_C (bits w 11 0) (cflag s1))]) in
  exists s2,
    dp_sem cfg EOR (bit w 20) (Some d) n (Op2Imm imm32 c) (begin_instr s1 op) = Ok tt s2 /\
    ArmV6_emulate_cycle cfg s = Ok tt (AdvancePC (it_step_after s1 s2)) /\
    pc_of (AdvancePC (it_step_after s1 s2)) = add32 (pc_of s1) (opcode_len s1 / 8).
Proof.
  intros Hf Hw Hcube Hi Hctx Hcond d n imm32 c op.
  pose proof Hcube as (_ & _ & _ & _ & _ & _ & _ & _ & Hr). split_regs.
  pose proof (bits_range w 15 12 ltac:(lia)) as Rd. pose proof (bits_range w 19 16 ltac:(lia)) as Rn.
  pose proof (bits_range w 11 0 ltac:(lia)) as Ri. change (2 ^ (11 - 0 + 1)) with 4096 in Ri.
  assert (Wi : word imm32) by (apply word_ARMExpandImm; lia).
  assert (Wc : 0 <= c <= 1) by (unfold c; first [lia | apply snd_ARMExpandImm_C_range; [lia|apply psr_C_range]]).
  apply (dp_imm_step cfg s w s1 enc_EorImmediateA1 op EOR (bit w 20) d n imm32 c Hf); try (unfold d, n; lia); try assumption.
  - apply decode_EorImmediateA1; assumption.
  - apply from_bitarray_EorImmediateA1; assumption.
  - change (execute_dispatch cfg op (begin_instr s1 op)) with (EorImmediate_execute cfg w (bit w 20) (bits w 15 12) (bits w 19 16) (ARMExpandImm (bits w 11 0)) (snd (ARMExpandImm_C (bits w 11 0) (cflag s1))) (begin_instr s1 op)).
    apply EorImmediate_sem; try (unfold d, n; lia); try exact Wi; try exact Wc; [apply ictx_begin; exact Hctx|apply cond_holds_begin; exact Hcond].
Qed.

(* ================= SUB (immediate, ARM) A1 ================= *)
Lemma decode_SubImmediateArmA1 w s : 0 <= w < 2 ^ 32 -> is_dp_imm_a1 0 0 1 0 w -> iset_of s = 0 ->
  ArmV6_decode_instruction w s = Ok (Some enc_SubImmediateArmA1) s.
Proof.
  intros Hw (Hc & H27 & H26 & H25 & H24 & H23 & H22 & H21 & Hr) Hi. split_regs.
  unfold ArmV6_decode_instruction, op_decode_instruction.
  rewrite !run_bind, current_instr_set_spec. cbv beta iota. rewrite Hi. unfold InstrSet_ARM. cbn [Z.eqb]. cbv iota.
  rewrite run_bind.
  assert (D : dec_arm_instruction_set w = Val (Some enc_SubImmediateArmA1)).
  { dec_step dec_arm_instruction_set. pose_expand w 27 25. pose_expand w 27 26. ops_if. cbn [ebind].
    dec_step dec_arm_data_processing_and_miscellaneous_instructions. pose_expand w 24 23. ops_if. cbn [ebind].
    dec_step dec_arm_data_processing_immediate. pose_expand w 24 21. ops_if. reflexivity. }
  rewrite D. reflexivity.
Qed.
Lemma from_bitarray_SubImmediateArmA1 cfg w s : 0 <= w < 2 ^ 32 -> is_dp_imm_a1 0 0 1 0 w ->
  from_bitarray_dispatch cfg enc_SubImmediateArmA1 w s = Ok (Some (code_SubImmediateArm, [w; bit w 20; bits w 15 12; bits w 19 16; ARMExpandImm (bits w 11 0)])) s.
Proof.
  intros Hw (_ & _ & _ & _ & _ & _ & _ & _ & Hr).
  pose proof (ops_SubImmediateArmA1 w s Hw Hr) as H. unfold fb_out, fb_plain, fb_opt, fb_res, fb_res_opt, fb_m, fb_m_opt in H.
  unfold from_bitarray_dispatch, enc_SubImmediateArmA1. cbv iota. unfold bind, ret, lift in *.
  repeat match goal with
  | H : match ?x with _ => _ end = _ |- context[?x] => destruct x; try discriminate H
  end.
  inversion H. reflexivity.
Qed.
Theorem subImmediateArmA1_step cfg s w s1 :
  ArmV6_fetch_instruction cfg s = Ok w s1 ->
  0 <= w < 2 ^ 32 -> is_dp_imm_a1 0 0 1 0 w -> iset_of s1 = 0 -> ictx cfg s1 -> cond_holds s1 ->
  let d := bits w 15 12 in let n := bits w 19 16 in let imm32 := ARMExpandImm (bits w 11 0) in
  let c := 0 in
  let op := (code_SubImmediateArm, [w; bit w 20; bits w 15 12; bits w 19 16; ARMExpandImm (bits w 11 0)]) in
  exists s2,
    dp_sem cfg SUB (bit w 20) (Some d) n (Op2Imm imm32 c) (begin_instr s1 op) = Ok tt s2 /\
    ArmV6_emulate_cycle cfg s = Ok tt (AdvancePC (it_step_after s1 s2)) /\
    pc_of (AdvancePC (it_step_after s1 s2)) = add32 (pc_of s1) (opcode_len s1 / 8).
Proof.
  intros Hf Hw Hcube Hi Hctx Hcond d n imm32 c op.
  pose proof Hcube as (_ & _ & _ & _ & _ & _ & _ & _ & Hr). split_regs.
  pose proof (bits_range w 15 12 ltac:(lia)) as Rd. pose proof (bits_range w 19 16 ltac:(lia)) as Rn.
  pose proof (bits_range w 11 0 ltac:(lia)) as Ri. change (2 ^ (11 - 0 + 1)) with 4096 in Ri.
  assert (Wi : word imm32) by (apply word_ARMExpandImm; lia).
  assert (Wc : 0 <= c <= 1) by (unfold c; first [lia | apply snd_ARMExpandImm_C_range; [lia|apply psr_C_range]]).
  apply (dp_imm_step cfg s w s1 enc_SubImmediateArmA1 op SUB (bit w 20) d n imm32 c Hf); try (unfold d, n; lia); try assumption.
  - apply decode_SubImmediateArmA1; assumption.
  - apply from_bitarray_SubImmediateArmA1; assumption.
  - change (execute_dispatch cfg op (begin_instr s1 op)) with (SubImmediateArm_execute cfg w (bit w 20) (bits w 15 12) (bits w 19 16) (ARMExpandImm (bits w 11 0)) (begin_instr s1 op)).
    apply SubImmediateArm_sem; try (unfold d, n; lia); try exact Wi; try exact Wc; [apply ictx_begin; exact Hctx|apply cond_holds_begin; exact Hcond].
Qed.

(* ================= RSB (immediate, ARM) A1 ================= *)
Lemma decode_RsbImmediateA1 w s : 0 <= w < 2 ^ 32 -> is_dp_imm_a1 0 0 1 1 w -> iset_of s = 0 ->
  ArmV6_decode_instruction w s = Ok (Some enc_RsbImmediateA1) s.
Proof.
  intros Hw (Hc & H27 & H26 & H25 & H24 & H23 & H22 & H21 & Hr) Hi. split_regs.
  unfold ArmV6_decode_instruction, op_decode_instruction.
  rewrite !run_bind, current_instr_set_spec. cbv beta iota. rewrite Hi. unfold InstrSet_ARM. cbn [Z.eqb]. cbv iota.
  rewrite run_bind.
  assert (D : dec_arm_instruction_set w = Val (Some enc_RsbImmediateA1)).
  { dec_step dec_arm_instruction_set. pose_expand w 27 25. pose_expand w 27 26. ops_if. cbn [ebind].
    dec_step dec_arm_data_processing_and_miscellaneous_instructions. pose_expand w 24 23. ops_if. cbn [ebind].
    dec_step dec_arm_data_processing_immediate. pose_expand w 24 21. ops_if. reflexivity. }
  rewrite D. reflexivity.
Qed.
Lemma from_bitarray_RsbImmediateA1 cfg w s : 0 <= w < 2 ^ 32 -> is_dp_imm_a1 0 0 1 1 w ->
  from_bitarray_dispatch cfg enc_RsbImmediateA1 w s = Ok (Some (code_RsbImmediate, [w; bit w 20; bits w 15 12; bits w 19 16; ARMExpandImm (bits w 11 0)])) s.
Proof.
  intros Hw (_ & _ & _ & _ & _ & _ & _ & _ & Hr).
  pose proof (ops_RsbImmediateA1 w s Hw Hr) as H. unfold fb_out, fb_plain, fb_opt, fb_res, fb_res_opt, fb_m, fb_m_opt in H.
  unfold from_bitarray_dispatch, enc_RsbImmediateA1. cbv iota. unfold bind, ret, lift in *.
  repeat match goal with
  | H : match ?x with _ => _ end = _ |- context[?x] => destruct x; try discriminate H
  end.
  inversion H. reflexivity.
Qed.
Theorem rsbImmediateA1_step cfg s w s1 :
  ArmV6_fetch_instruction cfg s = Ok w s1 ->
  0 <= w < 2 ^ 32 -> is_dp_imm_a1 0 0 1 1 w -> iset_of s1 = 0 -> ictx cfg s1 -> cond_holds s1 ->
  let d := bits w 15 12 in let n := bits w 19 16 in let imm32 := ARMExpandImm (bits w 11 0) in
  let c := 0 in
  let op := (code_RsbImmediate, [w; bit w 20; bits w 15 12; bits w 19 16; ARMExpandImm (bits w 11 0)]) in
  exists s2,
    dp_sem cfg RSB (bit w 20) (Some d) n (Op2Imm imm32 c) (begin_instr s1 op) = Ok tt s2 /\
    ArmV6_emulate_cycle cfg s = Ok tt (AdvancePC (it_step_after s1 s2)) /\
    pc_of (AdvancePC (it_step_after s1 s2)) = add32 (pc_of s1) (opcode_len s1 / 8).
Proof.
  intros Hf Hw Hcube Hi Hctx Hcond d n imm32 c op.
  pose proof Hcube as (_ & _ & _ & _ & _ & _ & _ & _ & Hr). split_regs.
  pose proof (bits_range w 15 12 ltac:(lia)) as Rd. pose proof (bits_range w 19 16 ltac:(lia)) as Rn.
  pose proof (bits_range w 11 0 ltac:(lia)) as Ri. change (2 ^ (11 - 0 + 1)) with 4096 in Ri.
  assert (Wi : word imm32) by (apply word_ARMExpandImm; lia).
  assert (Wc : 0 <= c <= 1) by (unfold c; first [lia | apply snd_ARMExpandImm_C_range; [lia|apply psr_C_range]]).
  apply (dp_imm_step cfg s w s1 enc_RsbImmediateA1 op RSB (bit w 20) d n imm32 c Hf); try (unfold d, n; lia); try assumption.
  - apply decode_RsbImmediateA1; assumption.
  - apply from_bitarray_RsbImmediateA1; assumption.
  - change (execute_dispatch cfg op (begin_instr s1 op)) with (RsbImmediate_execute cfg w (bit w 20) (bits w 15 12) (bits w 19 16) (ARMExpandImm (bits w 11 0)) (begin_instr s1 op)).
    apply RsbImmediate_sem; try (unfold d, n; lia); try exact Wi; try exact Wc; [apply ictx_begin; exact Hctx|apply cond_holds_begin; exact Hcond].
Qed.

(* ================= ADC (immediate, ARM) A1 ================= *)
Lemma decode_AdcImmediateA1 w s : 0 <= w < 2 ^ 32 -> is_dp_imm_a1 0 1 0 1 w -> iset_of s = 0 ->
  ArmV6_decode_instruction w s = Ok (Some enc_AdcImmediateA1) s.
Proof.
  intros Hw (Hc & H27 & H26 & H25 & H24 & H23 & H22 & H21 & Hr) Hi. split_regs.
  unfold ArmV6_decode_instruction, op_decode_instruction.
  rewrite !run_bind, current_instr_set_spec. cbv beta iota. rewrite Hi. unfold InstrSet_ARM. cbn [Z.eqb]. cbv iota.
  rewrite run_bind.
  assert (D : dec_arm_instruction_set w = Val (Some enc_AdcImmediateA1)).
  { dec_step dec_arm_instruction_set. pose_expand w 27 25. pose_expand w 27 26. ops_if. cbn [ebind].
    dec_step dec_arm_data_processing_and_miscellaneous_instructions. pose_expand w 24 23. ops_if. cbn [ebind].
    dec_step dec_arm_data_processing_immediate. pose_expand w 24 21. ops_if. reflexivity. }
  rewrite D. reflexivity.
Qed.
Lemma from_bitarray_AdcImmediateA1 cfg w s : 0 <= w < 2 ^ 32 -> is_dp_imm_a1 0 1 0 1 w ->
  from_bitarray_dispatch cfg enc_AdcImmediateA1 w s = Ok (Some (code_AdcImmediate, [w; bit w 20; bits w 15 12; bits w 19 16; ARMExpandImm (bits w 11 0)])) s.
Proof.
  intros Hw (_ & _ & _ & _ & _ & _ & _ & _ & Hr).
  pose proof (ops_AdcImmediateA1 w s Hw Hr) as H. unfold fb_out, fb_plain, fb_opt, fb_res, fb_res_opt, fb_m, fb_m_opt in H.
  unfold from_bitarray_dispatch, enc_AdcImmediateA1. cbv iota. unfold bind, ret, lift in *.
  repeat match goal with
  | H : match ?x with _ => _ end = _ |- context[?x] => destruct x; try discriminate H
  end.
  inversion H. reflexivity.
Qed.
Theorem adcImmediateA1_step cfg s w s1 :
  ArmV6_fetch_instruction cfg s = Ok w s1 ->
  0 <= w < 2 ^ 32 -> is_dp_imm_a1 0 1 0 1 w -> iset_of s1 = 0 -> ictx cfg s1 -> cond_holds s1 ->
  let d := bits w 15 12 in let n := bits w 19 16 in let imm32 := ARMExpandImm (bits w 11 0) in
  let c := 0 in
  let op := (code_AdcImmediate, [w; bit w 20; bits w 15 12; bits w 19 16; ARMExpandImm (bits w 11 0)]) in
  exists s2,
    dp_sem cfg ADC (bit w 20) (Some d) n (Op2Imm imm32 c) (begin_instr s1 op) = Ok tt s2 /\
    ArmV6_emulate_cycle cfg s = Ok tt (AdvancePC (it_step_after s1 s2)) /\
    pc_of (AdvancePC (it_step_after s1 s2)) = add32 (pc_of s1) (opcode_len s1 / 8).
Proof.
  intros Hf Hw Hcube Hi Hctx Hcond d n imm32 c op.
  pose proof Hcube as (_ & _ & _ & _ & _ & _ & _ & _ & Hr). split_regs.
  pose proof (bits_range w 15 12 ltac:(lia)) as Rd. pose proof (bits_range w 19 16 ltac:(lia)) as Rn.
  pose proof (bits_range w 11 0 ltac:(lia)) as Ri. change (2 ^ (11 - 0 + 1)) with 4096 in Ri.
  assert (Wi : word imm32) by (apply word_ARMExpandImm; lia).
  assert (Wc : 0 <= c <= 1) by (unfold c; first [lia | apply snd_ARMExpandImm_C_range; [lia|apply psr_C_range]]).
  apply (dp_imm_step cfg s w s1 enc_AdcImmediateA1 op ADC (bit w 20) d n imm32 c Hf); try (unfold d, n; lia); try assumption.
  - apply decode_AdcImmediateA1; assumption.
  - apply from_bitarray_AdcImmediateA1; assumption.
  - change (execute_dispatch cfg op (begin_instr s1 op)) with (AdcImmediate_execute cfg w (bit w 20) (bits w 15 12) (bits w 19 16) (ARMExpandImm (bits w 11 0)) (begin_instr s1 op)).
    apply AdcImmediate_sem; try (unfold d, n; lia); try exact Wi; try exact Wc; [apply ictx_begin; exact Hctx|apply cond_holds_begin; exact Hcond].
Qed.

(* ================= SBC (immediate, ARM) A1 ================= *)
Lemma decode_SbcImmediateA1 w s : 0 <= w < 2 ^ 32 -> is_dp_imm_a1 0 1 1 0 w -> iset_of s = 0 ->
  ArmV6_decode_instruction w s = Ok (Some enc_SbcImmediateA1) s.
Proof.
  intros Hw (Hc & H27 & H26 & H25 & H24 & H23 & H22 & H21 & Hr) Hi. split_regs.
  unfold ArmV6_decode_instruction, op_decode_instruction.
  rewrite !run_bind, current_instr_set_spec. cbv beta iota. rewrite Hi. unfold InstrSet_ARM. cbn [Z.eqb]. cbv iota.
  rewrite run_bind.
  assert (D : dec_arm_instruction_set w = Val (Some enc_SbcImmediateA1)).
  { dec_step dec_arm_instruction_set. pose_expand w 27 25. pose_expand w 27 26. ops_if. cbn [ebind].
    dec_step dec_arm_data_processing_and_miscellaneous_instructions. pose_expand w 24 23. ops_if. cbn [ebind].
    dec_step dec_arm_data_processing_immediate. pose_expand w 24 21. ops_if. reflexivity. }
  rewrite D. reflexivity.
Qed.
Lemma from_bitarray_SbcImmediateA1 cfg w s : 0 <= w < 2 ^ 32 -> is_dp_imm_a1 0 1 1 0 w ->
  from_bitarray_dispatch cfg enc_SbcImmediateA1 w s = Ok (Some (code_SbcImmediate, [w; bit w 20; bits w 15 12; bits w 19 16; ARMExpandImm (bits w 11 0)])) s.
Proof.
  intros Hw (_ & _ & _ & _ & _ & _ & _ & _ & Hr).
  pose proof (ops_SbcImmediateA1 w s Hw Hr) as H. unfold fb_out, fb_plain, fb_opt, fb_res, fb_res_opt, fb_m, fb_m_opt in H.
  unfold from_bitarray_dispatch, enc_SbcImmediateA1. cbv iota. unfold bind, ret, lift in *.
  repeat match goal with
  | H : match ?x with _ => _ end = _ |- context[?x] => destruct x; try discriminate H
  end.
  inversion H. reflexivity.
Qed.
Theorem sbcImmediateA1_step cfg s w s1 :
  ArmV6_fetch_instruction cfg s = Ok w s1 ->
  0 <= w < 2 ^ 32 -> is_dp_imm_a1 0 1 1 0 w -> iset_of s1 = 0 -> ictx cfg s1 -> cond_holds s1 ->
  let d := bits w 15 12 in let n := bits w 19 16 in let imm32 := ARMExpandImm (bits w 11 0) in
  let c := 0 in
  let op := (code_SbcImmediate, [w; bit w 20; bits w 15 12; bits w 19 16; ARMExpandImm (bits w 11 0)]) in
  exists s2,
    dp_sem cfg SBC (bit w 20) (Some d) n (Op2Imm imm32 c) (begin_instr s1 op) = Ok tt s2 /\
    ArmV6_emulate_cycle cfg s = Ok tt (AdvancePC (it_step_after s1 s2)) /\
    pc_of (AdvancePC (it_step_after s1 s2)) = add32 (pc_of s1) (opcode_len s1 / 8).
Proof.
  intros Hf Hw Hcube Hi Hctx Hcond d n imm32 c op.
  pose proof Hcube as (_ & _ & _ & _ & _ & _ & _ & _ & Hr). split_regs.
  pose proof (bits_range w 15 12 ltac:(lia)) as Rd. pose proof (bits_range w 19 16 ltac:(lia)) as Rn.
  pose proof (bits_range w 11 0 ltac:(lia)) as Ri. change (2 ^ (11 - 0 + 1)) with 4096 in Ri.
  assert (Wi : word imm32) by (apply word_ARMExpandImm; lia).
  assert (Wc : 0 <= c <= 1) by (unfold c; first [lia | apply snd_ARMExpandImm_C_range; [lia|apply psr_C_range]]).
  apply (dp_imm_step cfg s w s1 enc_SbcImmediateA1 op SBC (bit w 20) d n imm32 c Hf); try (unfold d, n; lia); try assumption.
  - apply decode_SbcImmediateA1; assumption.
  - apply from_bitarray_SbcImmediateA1; assumption.
  - change (execute_dispatch cfg op (begin_instr s1 op)) with (SbcImmediate_execute cfg w (bit w 20) (bits w 15 12) (bits w 19 16) (ARMExpandImm (bits w 11 0)) (begin_instr s1 op)).
    apply SbcImmediate_sem; try (unfold d, n; lia); try exact Wi; try exact Wc; [apply ictx_begin; exact Hctx|apply cond_holds_begin; exact Hcond].
Qed.

(* ================= RSC (immediate, ARM) A1 ================= *)
Lemma decode_RscImmediateA1 w s : 0 <= w < 2 ^ 32 -> is_dp_imm_a1 0 1 1 1 w -> iset_of s = 0 ->
  ArmV6_decode_instruction w s = Ok (Some enc_RscImmediateA1) s.
Proof.
  intros Hw (Hc & H27 & H26 & H25 & H24 & H23 & H22 & H21 & Hr) Hi. split_regs.
  unfold ArmV6_decode_instruction, op_decode_instruction.
  rewrite !run_bind, current_instr_set_spec. cbv beta iota. rewrite Hi. unfold InstrSet_ARM. cbn [Z.eqb]. cbv iota.
  rewrite run_bind.
  assert (D : dec_arm_instruction_set w = Val (Some enc_RscImmediateA1)).
  { dec_step dec_arm_instruction_set. pose_expand w 27 25. pose_expand w 27 26. ops_if. cbn [ebind].
    dec_step dec_arm_data_processing_and_miscellaneous_instructions. pose_expand w 24 23. ops_if. cbn [ebind].
    dec_step dec_arm_data_processing_immediate. pose_expand w 24 21. ops_if. reflexivity. }
  rewrite D. reflexivity.
Qed.
Lemma from_bitarray_RscImmediateA1 cfg w s : 0 <= w < 2 ^ 32 -> is_dp_imm_a1 0 1 1 1 w ->
  from_bitarray_dispatch cfg enc_RscImmediateA1 w s = Ok (Some (code_RscImmediate, [w; bit w 20; bits w 15 12; bits w 19 16; ARMExpandImm (bits w 11 0)])) s.
Proof.
  intros Hw (_ & _ & _ & _ & _ & _ & _ & _ & Hr).
  pose proof (ops_RscImmediateA1 w s Hw Hr) as H. unfold fb_out, fb_plain, fb_opt, fb_res, fb_res_opt, fb_m, fb_m_opt in H.
  unfold from_bitarray_dispatch, enc_RscImmediateA1. cbv iota. unfold bind, ret, lift in *.
  repeat match goal with
  | H : match ?x with _ => _ end = _ |- context[?x] => destruct x; try discriminate H
  end.
  inversion H. reflexivity.
Qed.
Theorem rscImmediateA1_step cfg s w s1 :
  ArmV6_fetch_instruction cfg s = Ok w s1 ->
  0 <= w < 2 ^ 32 -> is_dp_imm_a1 0 1 1 1 w -> iset_of s1 = 0 -> ictx cfg s1 -> cond_holds s1 ->
  let d := bits w 15 12 in let n := bits w 19 16 in let imm32 := ARMExpandImm (bits w 11 0) in
  let c := 0 in
  let op := (code_RscImmediate, [w; bit w 20; bits w 15 12; bits w 19 16; ARMExpandImm (bits w 11 0)]) in
  exists s2,
    dp_sem cfg RSC (bit w 20) (Some d) n (Op2Imm imm32 c) (begin_instr s1 op) = Ok tt s2 /\
    ArmV6_emulate_cycle cfg s = Ok tt (AdvancePC (it_step_after s1 s2)) /\
    pc_of (AdvancePC (it_step_after s1 s2)) = add32 (pc_of s1) (opcode_len s1 / 8).
Proof.
  intros Hf Hw Hcube Hi Hctx Hcond d n imm32 c op.
  pose proof Hcube as (_ & _ & _ & _ & _ & _ & _ & _ & Hr). split_regs.
  pose proof (bits_range w 15 12 ltac:(lia)) as Rd. pose proof (bits_range w 19 16 ltac:(lia)) as Rn.
  pose proof (bits_range w 11 0 ltac:(lia)) as Ri. change (2 ^ (11 - 0 + 1)) with 4096 in Ri.
  assert (Wi : word imm32) by (apply word_ARMExpandImm; lia).
  assert (Wc : 0 <= c <= 1) by (unfold c; first [lia | apply snd_ARMExpandImm_C_range; [lia|apply psr_C_range]]).
  apply (dp_imm_step cfg s w s1 enc_RscImmediateA1 op RSC (bit w 20) d n imm32 c Hf); try (unfold d, n; lia); try assumption.
  - apply decode_RscImmediateA1; assumption.
  - apply from_bitarray_RscImmediateA1; assumption.
  - change (execute_dispatch cfg op (begin_instr s1 op)) with (RscImmediate_execute cfg w (bit w 20) (bits w 15 12) (bits w 19 16) (ARMExpandImm (bits w 11 0)) (begin_instr s1 op)).
    apply RscImmediate_sem; try (unfold d, n; lia); try exact Wi; try exact Wc; [apply ictx_begin; exact Hctx|apply cond_holds_begin; exact Hcond].
Qed.

(* ================= ORR (immediate, ARM) A1 ================= *)
Lemma decode_OrrImmediateA1 w s : 0 <= w < 2 ^ 32 -> is_dp_imm_a1 1 1 0 0 w -> iset_of s = 0 ->
  ArmV6_decode_instruction w s = Ok (Some enc_OrrImmediateA1) s.
Proof.
  intros Hw (Hc & H27 & H26 & H25 & H24 & H23 & H22 & H21 & Hr) Hi. split_regs.
  unfold ArmV6_decode_instruction, op_decode_instruction.
  rewrite !run_bind, current_instr_set_spec. cbv beta iota. rewrite Hi. unfold InstrSet_ARM. cbn [Z.eqb]. cbv iota.
  rewrite run_bind.
  assert (D : dec_arm_instruction_set w = Val (Some enc_OrrImmediateA1)).
  { dec_step dec_arm_instruction_set. pose_expand w 27 25. pose_expand w 27 26. ops_if. cbn [ebind].
    dec_step dec_arm_data_processing_and_miscellaneous_instructions. pose_expand w 24 23. ops_if. cbn [ebind].
    dec_step dec_arm_data_processing_immediate. pose_expand w 24 21. ops_if. reflexivity. }
  rewrite D. reflexivity.
Qed.
Lemma from_bitarray_OrrImmediateA1 cfg w s : 0 <= w < 2 ^ 32 -> is_dp_imm_a1 1 1 0 0 w ->
  from_bitarray_dispatch cfg enc_OrrImmediateA1 w s = Ok (Some (code_OrrImmediate, [w; bit w 20; bits w 15 12; bits w 19 16; ARMExpandImm (bits w 11 0); snd (ARMExpandImm_C (bits w 11 0) (cflag s))])) s.
Proof.
  intros Hw (_ & _ & _ & _ & _ & _ & _ & _ & Hr).
  pose proof (ops_OrrImmediateA1 w s Hw Hr) as H. unfold fb_out, fb_plain, fb_opt, fb_res, fb_res_opt, fb_m, fb_m_opt in H.
  unfold from_bitarray_dispatch, enc_OrrImmediateA1. cbv iota. unfold bind, ret, lift in *.
  repeat match goal with
  | H : match ?x with _ => _ end = _ |- context[?x] => destruct x; try discriminate H
  end.
  inversion H. reflexivity.
Qed.
Theorem orrImmediateA1_step cfg s w s1 :
  ArmV6_fetch_instruction cfg s = Ok w s1 ->
  0 <= w < 2 ^ 32 -> is_dp_imm_a1 1 1 0 0 w -> iset_of s1 = 0 -> ictx cfg s1 -> cond_holds s1 ->
  let d := bits w 15 12 in let n := bits w 19 16 in let imm32 := ARMExpandImm (bits w 11 0) in
  let c := (snd (ARMExpandImm_C (bits w 11 0) (cflag s1))) in
  let op := (code_OrrImmediate, [w; bit w 20; bits w 15 12; bits w 19 16; ARMExpandImm (bits w 11 0); snd (ARMExpandImm_C (bits w 11 0) (cflag s1))]) in
  exists s2,
    dp_sem cfg ORR (bit w 20) (Some d) n (Op2Imm imm32 c) (begin_instr s1 op) = Ok tt s2 /\
    ArmV6_emulate_cycle cfg s = Ok tt (AdvancePC (it_step_after s1 s2)) /\
    pc_of (AdvancePC (it_step_after s1 s2)) = add32 (pc_of s1) (opcode_len s1 / 8).
Proof.
  intros Hf Hw Hcube Hi Hctx Hcond d n imm32 c op.
  pose proof Hcube as (_ & _ & _ & _ & _ & _ & _ & _ & Hr). split_regs.
  pose proof (bits_range w 15 12 ltac:(lia)) as Rd. pose proof (bits_range w 19 16 ltac:(lia)) as Rn.
  pose proof (bits_range w 11 0 ltac:(lia)) as Ri. change (2 ^ (11 - 0 + 1)) with 4096 in Ri.
  assert (Wi : word imm32) by (apply word_ARMExpandImm; lia).
  assert (Wc : 0 <= c <= 1) by (unfold c; first [lia | apply snd_ARMExpandImm_C_range; [lia|apply psr_C_range]]).
  apply (dp_imm_step cfg s w s1 enc_OrrImmediateA1 op ORR (bit w 20) d n imm32 c Hf); try (unfold d, n; lia); try assumption.
  - apply decode_OrrImmediateA1; assumption.
  - apply from_bitarray_OrrImmediateA1; assumption.
  - change (execute_dispatch cfg op (begin_instr s1 op)) with (OrrImmediate_execute cfg w (bit w 20) (bits w 15 12) (bits w 19 16) (ARMExpandImm (bits w 11 0)) (snd (ARMExpandImm_C (bits w 11 0) (cflag s1))) (begin_instr s1 op)).
    apply OrrImmediate_sem; try (unfold d, n; lia); try exact Wi; try exact Wc; [apply ictx_begin; exact Hctx|apply cond_holds_begin; exact Hcond].
Qed.

(* ================= BIC (immediate, ARM) A1 ================= *)
Lemma decode_BicImmediateA1 w s : 0 <= w < 2 ^ 32 -> is_dp_imm_a1 1 1 1 0 w -> iset_of s = 0 ->
  ArmV6_decode_instruction w s = Ok (Some enc_BicImmediateA1) s.
Proof.
  intros Hw (Hc & H27 & H26 & H25 & H24 & H23 & H22 & H21 & Hr) Hi. split_regs.
  unfold ArmV6_decode_instruction, op_decode_instruction.
  rewrite !run_bind, current_instr_set_spec. cbv beta iota. rewrite Hi. unfold InstrSet_ARM. cbn [Z.eqb]. cbv iota.
  rewrite run_bind.
  assert (D : dec_arm_instruction_set w = Val (Some enc_BicImmediateA1)).
  { dec_step dec_arm_instruction_set. pose_expand w 27 25. pose_expand w 27 26. ops_if. cbn [ebind].
    dec_step dec_arm_data_processing_and_miscellaneous_instructions. pose_expand w 24 23. ops_if. cbn [ebind].
    dec_step dec_arm_data_processing_immediate. pose_expand w 24 21. ops_if. reflexivity. }
  rewrite D. reflexivity.
Qed.
Lemma from_bitarray_BicImmediateA1 cfg w s : 0 <= w < 2 ^ 32 -> is_dp_imm_a1 1 1 1 0 w ->
  from_bitarray_dispatch cfg enc_BicImmediateA1 w s = Ok (Some (code_BicImmediate, [w; bit w 20; bits w 15 12; bits w 19 16; ARMExpandImm (bits w 11 0); snd (ARMExpandImm_C (bits w 11 0) (cflag s))])) s.
Proof.
  intros Hw (_ & _ & _ & _ & _ & _ & _ & _ & Hr).
  pose proof (ops_BicImmediateA1 w s Hw Hr) as H. unfold fb_out, fb_plain, fb_opt, fb_res, fb_res_opt, fb_m, fb_m_opt in H.
  unfold from_bitarray_dispatch, enc_BicImmediateA1. cbv iota. unfold bind, ret, lift in *.
  repeat match goal with
  | H : match ?x with _ => _ end = _ |- context[?x] => destruct x; try discriminate H
  end.
  inversion H. reflexivity.
Qed.
Theorem bicImmediateA1_step cfg s w s1 :
  ArmV6_fetch_instruction cfg s = Ok w s1 ->
  0 <= w < 2 ^ 32 -> is_dp_imm_a1 1 1 1 0 w -> iset_of s1 = 0 -> ictx cfg s1 -> cond_holds s1 ->
  let d := bits w 15 12 in let n := bits w 19 16 in let imm32 := ARMExpandImm (bits w 11 0) in
  let c := (snd (ARMExpandImm_C (bits w 11 0) (cflag s1))) in
  let op := (code_BicImmediate, [w; bit w 20; bits w 15 12; bits w 19 16; ARMExpandImm (bits w 11 0); snd (ARMExpandImm_C (bits w 11 0) (cflag s1))]) in
  exists s2,
    dp_sem cfg BIC (bit w 20) (Some d) n (Op2Imm imm32 c) (begin_instr s1 op) = Ok tt s2 /\
    ArmV6_emulate_cycle cfg s = Ok tt (AdvancePC (it_step_after s1 s2)) /\
    pc_of (AdvancePC (it_step_after s1 s2)) = add32 (pc_of s1) (opcode_len s1 / 8).
Proof.
  intros Hf Hw Hcube Hi Hctx Hcond d n imm32 c op.
  pose proof Hcube as (_ & _ & _ & _ & _ & _ & _ & _ & Hr). split_regs.
  pose proof (bits_range w 15 12 ltac:(lia)) as Rd. pose proof (bits_range w 19 16 ltac:(lia)) as Rn.
  pose proof (bits_range w 11 0 ltac:(lia)) as Ri. change (2 ^ (11 - 0 + 1)) with 4096 in Ri.
  assert (Wi : word imm32) by (apply word_ARMExpandImm; lia).
  assert (Wc : 0 <= c <= 1) by (unfold c; first [lia | apply snd_ARMExpandImm_C_range; [lia|apply psr_C_range]]).
  apply (dp_imm_step cfg s w s1 enc_BicImmediateA1 op BIC (bit w 20) d n imm32 c Hf); try (unfold d, n; lia); try assumption.
  - apply decode_BicImmediateA1; assumption.
  - apply from_bitarray_BicImmediateA1; assumption.
  - change (execute_dispatch cfg op (begin_instr s1 op)) with (BicImmediate_execute cfg w (bit w 20) (bits w 15 12) (bits w 19 16) (ARMExpandImm (bits w 11 0)) (snd (ARMExpandImm_C (bits w 11 0) (cflag s1))) (begin_instr s1 op)).
    apply BicImmediate_sem; try (unfold d, n; lia); try exact Wi; try exact Wc; [apply ictx_begin; exact Hctx|apply cond_holds_begin; exact Hcond].
Qed.
