#!/venv/bin/python
"""run every claimed check (quick tier) on the current tree and validate MANIFEST/evidence against the schemas"""
import json, os, subprocess, sys, time
VERIF = os.path.dirname(os.path.dirname(os.path.abspath(__file__)))
m = json.load(open(os.path.join(VERIF, 'MANIFEST.json')))
bad = 0
ids = sys.argv[1:] or [c['property_id'] for c in m['checks']]
for c in m['checks']:
    if c['property_id'] not in ids:
        continue
    t0 = time.time()
    p = subprocess.run(c['quick_cmd'], shell=True, cwd=VERIF, capture_output=True, text=True)
    last = [l for l in p.stdout.split('\n') if l.startswith(('OK', 'VIOLATION', 'KNOWN'))]
    print(c['property_id'], 'rc', p.returncode, f'{time.time()-t0:.0f}s', '|', ' ; '.join(last)[:200])
    if p.returncode != 0:
        bad += 1
        print(p.stdout[-1500:], p.stderr[-1500:])
v = subprocess.run(['python3-vt', '-c', '''
import json, jsonschema, sys
m = json.load(open("/verif/MANIFEST.json"))
jsonschema.validate(m, json.load(open("/root/.vp/MANIFEST.schema.json")))
es = json.load(open("/root/.vp/EVIDENCE.schema.json"))
for c in m["checks"]:
    e = json.load(open("/verif/" + c["evidence_file"]))
    jsonschema.validate(e, es)
    cov = e["coverage"]
    assert cov["obligations"] == cov["discharged"], (c["property_id"], cov["obligations"], cov["discharged"])
    assert e["violations"] == 0, c["property_id"]
print("manifest and evidence valid")
'''], capture_output=True, text=True)
print(v.stdout, v.stderr[-800:])
sys.exit(1 if bad or v.returncode else 0)
