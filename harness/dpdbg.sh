#!/bin/bash
# usage: dpdbg.sh <ClassName> [extra tactics]  -- run dp_tac's first phase on one class theorem and show the goal
cd /verif/coq
F=${DPFILE:-theories/Proofs/DPClasses.v}
TAC=${TAC:-dp_tac}
sed -n '1,/^Open Scope Z_scope/p' $F > /tmp/dpd.v
awk -v c="Theorem $1_sem" '$0 ~ c {p=1} p {print} p && /^Proof\./ {exit}' $F | sed '$d' >> /tmp/dpd.v
cat >> /tmp/dpd.v <<EOT
Proof.
  dp_intro; unfold_head; unfold dp_sem, eval_op2, dp_alu;
  unfold enums.SRType_LSL, enums.SRType_LSR, enums.SRType_ASR, enums.SRType_ROR, enums.SRType_RRX,
    Pseudocode.SRType_LSL, Pseudocode.SRType_LSR, Pseudocode.SRType_ASR, Pseudocode.SRType_ROR, Pseudocode.SRType_RRX, valid_shift in *;
  rewrite run_bind;
  match goal with Hc : cond_holds ?s |- _ => rewrite (run_cond_pass s Hc) end;
  cbn beta iota; change (truthy 1) with true; cbv iota;
  repeat first [dp_step | split_shift | split_awc];
  cbn [fst snd]. $2 Show.
EOT
coqc -Q theories ArmV -Q gen Gen /tmp/dpd.v 2>&1 | sed -n '/=====/,$p' | head -${3:-50} | cut -c1-150
