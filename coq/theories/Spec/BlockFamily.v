(* Spec/BlockFamily.v — the rest of the block-transfer family as executable specifications over the machine view, written
   from the ARM ARM pseudocode (A8.8.57-61 LDM*, A8.8.199-202 STM*, A8.8.131-133 POP/PUSH, B9.3.6 LDM (user registers),
   B9.3.5 LDM (exception return), B9.3.17 STM (user registers), B9.3.16 SRS, B9.3.13 RFE), with the memory accessors as
   parameters.  LDM/STM increment-after are proved equal to the code (Proofs/BlockProofs.v); the members below are compared
   with the implementation and with the regenerated model by the correspondence check only.  Imports nothing generated. *)
From Coq Require Import ZArith List Bool.
From ArmV Require Import Lib.PyZ Lib.Monad Lib.Machine Spec.Pseudocode Spec.Arch Spec.MachineView Spec.BlockTransfer Spec.Exceptions.
Import ListNotations.
Open Scope Z_scope.

Definition sub32 (a b : Z) := (a - b) mod 2 ^ 32.
Definition rget_mode (s : machine) (n mode : Z) : Z := getl (R s) (spec_ridx n mode).
Definition rset_mode (s : machine) (n mode v : Z) : machine := set_R s (setl (R s) (spec_ridx n mode) v).
Definition get_SPSR (s : machine) : Z := match spsr_index (mode_of s) with Some i => getl (sys s) i | None => 0 end.
Definition ctx_of (have_sec have_virt : Z) (s : machine) : sysctx :=
  {| c_have_sec := have_sec; c_have_virt := have_virt; c_scr := getl (sys s) 9; c_sctlr := getl (sys s) 11; c_nsacr := getl (sys s) 10 |}.
Definition lowest_set (regs : Z) : Z :=
  (fix go (l : list Z) := match l with [] => 32 | i :: t => if bit regs i =? 1 then i else go t end) (zrange 0 16).

Section Family.
  Variable rd : Z -> Z -> M machine Z.
  Variable wr : Z -> Z -> Z -> M machine unit.
  Variables (arch jaz have_sec have_virt : Z).

  (* for i = 0 to 14: if registers<i> then target(i) = Mem[address,4]; address = address + 4 *)
  Fixpoint load_loop (setr : machine -> Z -> Z -> machine) (regs : Z) (l : list Z) (address : Z) (s : machine) : outcome machine Z :=
    match l with
    | [] => Ok address s
    | i :: t => if bit regs i =? 1
                then match rd address 4 s with
                     | Exc e s' => Exc e s'
                     | Ok d s1 => load_loop setr regs t (add32 address 4) (setr s1 i d)
                     end
                else load_loop setr regs t address s
    end.
  (* for i = 0 to 14: if registers<i> then Mem[address,4] = value(i); address = address + 4 *)
  Fixpoint store_loop (getr : machine -> Z -> Z) (regs : Z) (l : list Z) (address : Z) (s : machine) : outcome machine Z :=
    match l with
    | [] => Ok address s
    | i :: t => if bit regs i =? 1
                then match wr address 4 (getr s i) s with
                     | Exc e s' => Exc e s'
                     | Ok _ s1 => store_loop getr regs t (add32 address 4) s1
                     end
                else store_loop getr regs t address s
    end.

  (* addressing modes: 0 IA, 1 DA, 2 DB, 3 IB — start address and written-back value *)
  Definition bt_start (mode base len : Z) : Z :=
    match mode with 0 => base | 1 => add32 (sub32 base len) 4 | 2 => sub32 base len | _ => add32 base 4 end.
  Definition bt_final (mode base len : Z) : Z := match mode with 0 | 3 => add32 base len | _ => sub32 base len end.

  (* LDM / LDMDA / LDMDB / LDMIB *)
  Definition LDMx (mode : Z) (s : machine) (wback regs n : Z) : outcome machine unit :=
    let len := 4 * BitCount 16 regs in
    match load_loop rset regs (zrange 0 15) (bt_start mode (rget s n) len) s with
    | Exc e s' => Exc e s'
    | Ok address s1 =>
        let after_pc :=
          if bit regs 15 =? 1 then
            match rd address 4 s1 with
            | Exc e s' => Exc e s'
            | Ok d s2 => Ok tt (apply_pc s2 (LoadWritePC arch (cpsr_of s2) jaz d))
            end
          else Ok tt s1 in
        match after_pc with
        | Exc e s' => Exc e s'
        | Ok _ s3 => if wback =? 0 then Ok tt s3
                     else if bit regs n =? 0 then Ok tt (rset s3 n (bt_final mode (rget s3 n) len))
                     else Ok tt (rset s3 n 0)
        end
    end.

  (* STM / STMDA / STMDB / STMIB: a written-back base that is not the lowest register is stored as UNKNOWN (0) *)
  Definition STMx (mode : Z) (s : machine) (wback regs n : Z) : outcome machine unit :=
    let len := 4 * BitCount 16 regs in
    let getr := fun s i => if (i =? n) && negb (wback =? 0) && negb (i =? lowest_set regs) then 0 else rget s i in
    match store_loop getr regs (zrange 0 15) (bt_start mode (rget s n) len) s with
    | Exc e s' => Exc e s'
    | Ok address s1 =>
        let after_pc :=
          if bit regs 15 =? 1 then match wr address 4 (rget s1 15) s1 with Exc e s' => Exc e s' | Ok _ s2 => Ok tt s2 end
          else Ok tt s1 in
        match after_pc with
        | Exc e s' => Exc e s'
        | Ok _ s3 => if wback =? 0 then Ok tt s3 else Ok tt (rset s3 n (bt_final mode (rget s3 n) len))
        end
    end.

  (* PUSH: address = SP - 4*BitCount; SP stored as UNKNOWN unless it is the lowest register; SP = SP - 4*BitCount *)
  Definition PUSH (s : machine) (regs : Z) : outcome machine unit :=
    let len := 4 * BitCount 16 regs in
    let getr := fun s i => if (i =? 13) && negb (i =? lowest_set regs) then 0 else rget s i in
    match store_loop getr regs (zrange 0 15) (sub32 (rget s 13) len) s with
    | Exc e s' => Exc e s'
    | Ok address s1 =>
        let after_pc :=
          if bit regs 15 =? 1 then match wr address 4 (rget s1 15) s1 with Exc e s' => Exc e s' | Ok _ s2 => Ok tt s2 end
          else Ok tt s1 in
        match after_pc with
        | Exc e s' => Exc e s'
        | Ok _ s3 => Ok tt (rset s3 13 (sub32 (rget s3 13) len))
        end
    end.

  (* POP: address = SP; loads; PC last; then SP = SP + 4*BitCount (UNKNOWN if SP is in the list) *)
  Definition POP (s : machine) (regs : Z) : outcome machine unit :=
    let len := 4 * BitCount 16 regs in
    match load_loop rset regs (zrange 0 15) (rget s 13) s with
    | Exc e s' => Exc e s'
    | Ok address s1 =>
        let after_pc :=
          if bit regs 15 =? 1 then
            match rd address 4 s1 with
            | Exc e s' => Exc e s'
            | Ok d s2 => Ok tt (apply_pc s2 (LoadWritePC arch (cpsr_of s2) jaz d))
            end
          else Ok tt s1 in
        match after_pc with
        | Exc e s' => Exc e s'
        | Ok _ s3 => if bit regs 13 =? 0 then Ok tt (rset s3 13 (add32 (rget s3 13) len)) else Ok tt (rset s3 13 0)
        end
    end.

  (* the privileged forms; defined when the current mode is neither Hyp nor User/System *)
  Definition ua_start (increment word_higher base len : Z) : Z :=
    let a := if increment =? 0 then sub32 base len else base in if word_higher =? 0 then a else add32 a 4.

  Definition STM_user (s : machine) (increment word_higher regs n : Z) : outcome machine unit :=
    let len := 4 * BitCount 16 regs in
    match store_loop (fun s i => rget_mode s i M_usr) regs (zrange 0 15) (ua_start increment word_higher (rget s n) len) s with
    | Exc e s' => Exc e s'
    | Ok address s1 =>
        if bit regs 15 =? 1 then match wr address 4 (rget s1 15) s1 with Exc e s' => Exc e s' | Ok _ s2 => Ok tt s2 end
        else Ok tt s1
    end.
  Definition LDM_user (s : machine) (increment word_higher regs n : Z) : outcome machine unit :=
    let len := 4 * BitCount 16 regs in
    match load_loop (fun s i v => rset_mode s i M_usr v) regs (zrange 0 15) (ua_start increment word_higher (rget s n) len) s with
    | Exc e s' => Exc e s'
    | Ok _ s1 => Ok tt s1
    end.

  (* exception return: CPSRWriteByInstr(value, '1111', TRUE); BranchWritePC(new_pc) *)
  Definition eret_to (s : machine) (psr new_pc : Z) : machine :=
    let s1 := with_cpsr s (CPSRWriteByInstr (ctx_of have_sec have_virt s) (cpsr_of s) psr 15 1) in
    apply_pc s1 (BranchWritePC (cpsr_of s1) jaz new_pc).

  Definition LDM_eret (s : machine) (increment word_higher wback regs n : Z) : outcome machine unit :=
    let len := 4 * BitCount 16 regs + 4 in
    match load_loop rset regs (zrange 0 15) (ua_start increment word_higher (rget s n) len) s with
    | Exc e s' => Exc e s'
    | Ok address s1 =>
        match rd address 4 s1 with
        | Exc e s' => Exc e s'
        | Ok new_pc s2 =>
            let s3 := if wback =? 0 then s2
                      else if bit regs n =? 0
                           then rset s2 n (if increment =? 0 then sub32 (rget s2 n) len else add32 (rget s2 n) len)
                           else rset s2 n 0 in
            Ok tt (eret_to s3 (get_SPSR s3) new_pc)
        end
    end.

  Definition RFE (s : machine) (increment word_higher wback n : Z) : outcome machine unit :=
    let address := ua_start increment word_higher (rget s n) 8 in
    match rd address 4 s with
    | Exc e s' => Exc e s'
    | Ok new_pc s1 =>
        match rd (add32 address 4) 4 s1 with
        | Exc e s' => Exc e s'
        | Ok psr s2 =>
            let s3 := if wback =? 0 then s2
                      else rset s2 n (if increment =? 0 then sub32 (rget s2 n) 8 else add32 (rget s2 n) 8) in
            Ok tt (eret_to s3 psr new_pc)
        end
    end.

  (* SRS: store LR and SPSR of the current mode on the stack of [mode]; write back that mode's SP *)
  Definition SRS (s : machine) (increment word_higher wback mode : Z) : outcome machine unit :=
    let base := rget_mode s 13 mode in
    let address := ua_start increment word_higher base 8 in
    match wr address 4 (rget s 14) s with
    | Exc e s' => Exc e s'
    | Ok _ s1 =>
        match wr (add32 address 4) 4 (get_SPSR s1) s1 with
        | Exc e s' => Exc e s'
        | Ok _ s2 => if wback =? 0 then Ok tt s2
                     else Ok tt (rset_mode s2 13 mode (if increment =? 0 then sub32 base 8 else add32 base 8))
        end
    end.
End Family.
