"""C09 — multiply / saturating / bit-field / select / CLZ: execute() of the proved classes."""
import copy
import common as C
import statelib
from framework import Unit
from props.c02 import set_reg

PROPS_FILES = ['C09', 'C09par', 'C09ext', 'C09dsp', 'C09step']

IMPORTS = 'From Gen Require Import enums core exec.'
SPEC_IMPORTS = 'From ArmV Require Import Spec.Pseudocode Spec.Arch Spec.MachineView Spec.Arith.'
EDGE = [0, 1, 0x7F, 0x80, 0xFF, 0x7FFF, 0x8000, 0xFFFF, 0x10000, 0x7FFFFFFF, 0x80000000, 0xFFFFFFFF, 0x00010000, 0xFFFF0000, 0x40000000]


def mk(rng, t):
    cfgd = copy.deepcopy(statelib.DEFAULT_CFG)
    cfgd['arch_version'] = rng.choice([4, 5, 6, 7])
    st = statelib.reset_state(t, cfg=cfgd, mem=[])
    icpsr = t['sys_names'].index('cpsr')
    st['sys'][icpsr] = (rng.getrandbits(5) << 27) | (rng.getrandbits(4) << 16) | rng.choice([16, 19, 31])
    st['R'] = [rng.getrandbits(32) for _ in range(34)]
    st['opcode'], st['opcode_len'] = 0xE0000000, 32
    return cfgd, st


def val(rng):
    return rng.choice(EDGE) if rng.random() < 0.6 else rng.getrandbits(32)


def cases(rng, tier):
    t = statelib.load_index(C.GEN)['tables']
    out = []
    per = 60 if tier == 'quick' else 3000
    def add(cls, module, fields, spec_fn, cfgd, st, label):
        cfg = statelib.coq_config(cfgd, t)
        m = statelib.coq_machine(st)
        args = ' '.join(C.zc(x) for x in fields)
        out.append({'impl': {'kind': 'exec', 'state': st, 'module': module, 'cls': cls, 'fields': [0] + fields},
                    'model': f'(enc_out enc_machine enc_unit ({cls}_execute {cfg} 0 {args} {m}))',
                    'spec': f'(enc_out enc_machine enc_unit (Ok tt {spec_fn(m, cfgd)}))', 'label': label, 'nontrivial': True})
    for _ in range(per):
        cfgd, st = mk(rng, t)
        m_, d_, n_ = rng.sample(range(13), 3)
        a, b = val(rng), val(rng)
        if rng.random() < 0.3:      # products that are multiples of 2^32
            a, b = rng.choice([(0x10000, 0x10000), (0x80000000, 2), (0x40000000, 4), (0xFFFF0000, 0x10000)])
        set_reg(st, t, n_, a); set_reg(st, t, m_, b)
        sf = rng.choice([0, 1, 1])
        add('Mul', 'mul', [sf, m_, d_, n_], lambda m, c: f'(MUL_sem {c["arch_version"]} {m} {sf} {m_} {d_} {n_})', cfgd, st, 'MUL')
        cfgd, st = mk(rng, t)
        a, b = val(rng), val(rng)
        if rng.random() < 0.4:      # exact-limit and saturating sums
            a, b = rng.choice([(0x7FFFFFFE, 1), (0x7FFFFFFF, 1), (0x80000000, 0xFFFFFFFF), (0x80000001, 0xFFFFFFFF), (0x7FFFFFFF, 0x7FFFFFFF)])
        set_reg(st, t, n_, a); set_reg(st, t, m_, b)
        add('Qadd', 'qadd', [m_, d_, n_], lambda m, c: f'(QADD_sem {m} {m_} {d_} {n_})', cfgd, st, 'QADD')
        cfgd, st = mk(rng, t)
        set_reg(st, t, n_, val(rng))
        lsb = rng.randrange(32); wm1 = rng.randrange(32 - lsb)
        add('Ubfx', 'ubfx', [lsb, wm1, d_, n_], lambda m, c: f'(UBFX_sem {m} {lsb} {wm1} {d_} {n_})', cfgd, st, 'UBFX')
        cfgd, st = mk(rng, t)
        set_reg(st, t, m_, rng.choice([0, 1, 2, 0x80000000, 0x7FFFFFFF, 0x00010000, rng.getrandbits(rng.randrange(1, 33))]))
        add('Clz', 'clz', [m_, d_], lambda m, c: f'(CLZ_sem {m} {m_} {d_})', cfgd, st, 'CLZ')
        cfgd, st = mk(rng, t)
        set_reg(st, t, n_, val(rng)); set_reg(st, t, m_, val(rng))
        add('Sel', 'sel', [m_, d_, n_], lambda m, c: f'(SEL_sem {m} {m_} {d_} {n_})', cfgd, st, 'SEL')
        cfgd, st = mk(rng, t)
        set_reg(st, t, n_, val(rng)); set_reg(st, t, d_, val(rng))
        lsb = rng.randrange(32); msb = rng.randrange(lsb, 32)
        add('Bfi', 'bfi', [lsb, msb, d_, n_], lambda m, c: f'(BFI_sem {m} {lsb} {msb} {d_} {n_})', cfgd, st, 'BFI')
    return out


PAR_OPS = ['add16', 'asx', 'sax', 'sub16', 'add8', 'sub8']
PAR_KINDS = [('S', 'true', 0), ('Q', 'true', 1), ('Sh', 'true', 2), ('U', 'false', 0), ('Uq', 'false', 1), ('Uh', 'false', 2)]
FAMILY = ['Mla', 'Mls', 'Umull', 'Umlal', 'Umaal', 'Smull', 'Smlal', 'Smla', 'Smul', 'Smlalxy', 'Smlaw', 'Smulw', 'Smlad', 'Smlsd',
          'Smuad', 'Smusd', 'Smlald', 'Smlsld', 'Smmla', 'Smmls', 'Smmul', 'Sdiv', 'Udiv', 'Qsub', 'Qdadd', 'Qdsub', 'Ssat', 'Usat',
          'Ssat16', 'Usat16', 'Usad8', 'Usada8', 'Sxtb', 'Sxth', 'Uxtb', 'Uxth', 'Sxtb16', 'Uxtb16', 'Sxtab', 'Sxtah', 'Uxtab', 'Uxtah',
          'Sxtab16', 'Uxtab16', 'Pkh', 'Rev', 'Rev16', 'Revsh', 'Rbit', 'Bfc', 'Sbfx']
LANE = [0, 1, 0x7F, 0x80, 0xFF, 0x7FFF, 0x8000, 0xFFFF, 0x7F7F7F7F, 0x80808080, 0xFFFFFFFF, 0x7FFF7FFF, 0x80008000, 0x00FF00FF,
        0xFF00FF00, 0x0001FFFF, 0xFFFF0001, 0x7FFFFFFF, 0x80000000, 0x00010000]


def par_classes():
    out = []
    for pf, sg, kind in PAR_KINDS:
        for i, o in enumerate(PAR_OPS):
            c = pf + o
            out.append((c[0].upper() + c[1:], f'par {sg} {kind} {i}'))
    return out


def family_cases(rng, tier):
    """the rest of the family against the executable specifications of Spec/Arith2.v (no theorem)"""
    return class_cases(rng, tier, [(c, c + '_sem') for c in FAMILY])


def par_cases(rng, tier):
    """the 36 parallel addition/subtraction classes (proved in Proofs/ParProofs.v) on concrete lanes"""
    return class_cases(rng, tier, par_classes())


def class_cases(rng, tier, classes):
    t = statelib.load_index(C.GEN)['tables']
    oc = t['opcode_classes']
    out = []
    per = 12 if tier == 'quick' else 600
    for cls, sem in classes:
        names = oc[cls]['fields'][1:]
        for _ in range(per):
            cfgd, st = mk(rng, t)
            regs = rng.sample(range(13), 6)
            vals = {}
            ri = 0
            for f in names:
                if f in ('m', 'd', 'n', 'a', 'd_hi', 'd_lo'):
                    vals[f] = regs[ri]
                    ri += 1
                    set_reg(st, t, vals[f], rng.choice(LANE) if rng.random() < 0.7 else rng.getrandbits(32))
                elif f in ('setflags', 'm_high', 'n_high', 'm_swap', 'round_', 'tb_form'):
                    vals[f] = rng.getrandbits(1)
                elif f == 'rotation':
                    vals[f] = rng.choice([0, 8, 16, 24])
                elif f == 'saturate_to':
                    vals[f] = {'Ssat': rng.randrange(1, 33), 'Usat': rng.randrange(0, 32), 'Ssat16': rng.randrange(1, 17),
                               'Usat16': rng.randrange(0, 16)}[cls]
                elif f == 'lsbit':
                    vals[f] = rng.randrange(32)
                elif f == 'msbit':
                    vals[f] = rng.randrange(vals['lsbit'], 32)
                elif f == 'widthminus1':
                    vals[f] = rng.randrange(32 - vals['lsbit'])
                elif f == 'shift_t':
                    asr = vals.get('tb_form', rng.getrandbits(1))
                    vals[f] = 3 if asr else 1
                    vals['shift_n'] = rng.randrange(1, 33) if asr else rng.randrange(0, 32)
                elif f == 'shift_n':
                    pass
                else:
                    raise RuntimeError(f'C09 family: unknown field {f} of {cls}')
            if cls in ('Sdiv', 'Udiv') and rng.random() < 0.3:
                set_reg(st, t, vals['m'], rng.choice([0, 0xFFFFFFFF, 1]))
                set_reg(st, t, vals['n'], rng.choice([0x80000000, 0xFFFFFFFF, 7, 0x7FFFFFFF]))
            if cls in ('Smlad', 'Smuad', 'Smlsd', 'Smla', 'Smlaw') and rng.random() < 0.4:
                set_reg(st, t, vals['n'], 0x80008000)
                set_reg(st, t, vals['m'], 0x80008000)
                if 'a' in vals:
                    set_reg(st, t, vals['a'], rng.choice([0, 0x7FFFFFFF, 0x80000000, 0xFFFFFFFF, 1]))
            fields = []
            for f in names:
                v = vals[f]
                fields.append(['enum', 'shift', 'SRType', v] if f == 'shift_t' else v)
            cfg = statelib.coq_config(cfgd, t)
            m = statelib.coq_machine(st)
            args = ' '.join(str(vals[f]) for f in names)
            arch = cfgd['arch_version']
            out.append({'impl': {'kind': 'exec', 'state': st, 'module': cls.lower(), 'cls': cls, 'fields': [0] + fields},
                        'model': f'(enc_out enc_machine enc_unit ({cls}_execute {cfg} 0 {args} {m}))',
                        'spec': f'(enc_out enc_machine enc_unit (Ok tt ({sem} {arch} {m} {args})))', 'label': 'family_' + cls,
                        'nontrivial': True})
    return out


ARITH2 = ['Mla', 'Mls', 'Smul', 'Umaal', 'Umull', 'Umlal', 'Smull', 'Smlal', 'Usad8', 'Qsub']
EXT = ['Sxtb', 'Sxth', 'Uxtb', 'Uxth', 'Sxtb16', 'Uxtb16', 'Sxtab', 'Sxtah', 'Uxtab', 'Uxtah', 'Sxtab16', 'Uxtab16', 'Rev', 'Rev16',
       'Revsh', 'Bfc', 'Sbfx', 'Usada8', 'Qdadd', 'Qdsub', 'Smmul', 'Smmla', 'Smmls']
DSP = ['Smla', 'Smuad', 'Smusd', 'Smlad', 'Smlsd', 'Smlald', 'Smlsld', 'Smlalxy', 'Smulw', 'Smlaw', 'Udiv', 'Sdiv', 'Ssat', 'Usat',
       'Ssat16', 'Usat16', 'Pkh', 'Rbit']
assert sorted(ARITH2 + EXT + DSP) == sorted(FAMILY)


def sem_cases(classes):
    return lambda rng, tier: class_cases(rng, tier, [(c, c + '_sem') for c in classes])


def arith_cases(rng, tier):
    return cases(rng, tier) + sem_cases(ARITH2)(rng, tier)


def need(c):
    return 'opcodes.abstract_opcodes.%s.%s.execute' % (c.lower(), c)


def units():
    thms = ['C09_MUL', 'C09_QADD', 'C09_UBFX', 'C09_CLZ', 'C09_SEL', 'C09_BFI_actual', 'C09_BFI_refuted', 'C09_MLA', 'C09_MLS',
            'C09_SMULxy', 'C09_UMAAL', 'C09_UMULL', 'C09_UMLAL', 'C09_SMULL', 'C09_SMLAL', 'C09_USAD8', 'C09_QSUB']
    needs = [need(c) for c in ['Mul', 'Qadd', 'Ubfx', 'Clz', 'Sel', 'Bfi'] + ARITH2]
    par = par_classes()
    a2 = SPEC_IMPORTS + '\nFrom ArmV Require Import Spec.Arith2.'
    return [Unit('parallel', ['C09_' + c.upper() for c, _ in par], ['Proofs/ParProofs.v'], [need(c) for c, _ in par], par_cases, IMPORTS, a2),
            Unit('arith', thms, ['Proofs/ArithProofs.v', 'Proofs/ArithProofs2.v'], needs, arith_cases, IMPORTS, a2),
            Unit('extend', ['C09_' + c.upper() for c in EXT], ['Proofs/ExtProofs.v', 'Proofs/ExtProofs2.v'], [need(c) for c in EXT],
                 sem_cases(EXT), IMPORTS, a2),
            Unit('dsp', ['C09_' + c.upper() for c in DSP], ['Proofs/DspProofs.v', 'Proofs/SatProofs.v', 'Proofs/RbitProofs.v'],
                 [need(c) for c in DSP], sem_cases(DSP), IMPORTS, a2),
            Unit('whole_step', ['C09_plain_step', 'C09_mul_a1_step', 'C09_clz_a1_step', 'C09_mla_a1_step', 'C09_mls_a1_step', 'C09_mul_t2_step', 'C09_mlaT1_step', 'C09_mlsT1_step'], ['Proofs/StepProofs.v', 'Proofs/StepInstancesMul.v', 'Proofs/StepInstancesMla.v', 'Proofs/StepInstancesMulT2.v', 'Proofs/StepInstancesMlaT1.v'],
                 ['arm_v6.ArmV6.emulate_cycle', 'arm_v6.ArmV6.execute_instruction', 'arm_v6.ArmV6.increment_pc_if_needed'], None, IMPORTS, a2)]
