(* Spec/DecTablesT32.v — hand-written first-match tables of 32-bit Thumb encodings (A6.3 and its sub-tables A6.3.1, A6.3.3,
   A6.3.11, A6.3.12): bit pattern of hw1:hw2 (most significant bit first) -> concrete encoding class.  Row order is priority. *)
From Coq Require Import ZArith List Bool String.
From ArmV Require Import Lib.PyZ Proofs.Cube Spec.DecTables.
From Gen Require Import bits_ops opsyn decoders.
Import ListNotations.
Open Scope Z_scope.

Local Notation O c := (LRet (Some c)) (only parsing).

(* ---------- A6.3: 111 op1(28:27) op2(26:20) .... op(15) ---------- *)
Definition call_res32 (f : Z -> res (option Z)) (w : Z) : res (option Z) := ebind (f w) (fun t => Val t).
Definition call_opt32 (f : Z -> option Z) (w : Z) : res (option Z) := Val (f w).
Definition t32_env : list (Z -> res (option Z)) :=
  [ call_opt32 dec_thumb_load_store_multiple;
    call_opt32 dec_thumb_load_store_dual_load_store_exclusive_table_branch;
    call_opt32 dec_thumb_data_processing_shifted_register;
    call_res32 dec_thumb_coprocessor_advanced_simd_and_floating_point_instructions;
    call_opt32 dec_thumb_data_processing_modified_immediate;
    call_opt32 dec_thumb_data_processing_plain_binary_immediate;
    call_res32 dec_thumb_branches_and_miscellaneous_control;
    call_opt32 dec_thumb_store_single_data_item;
    call_res32 dec_thumb_load_byte_memory_hints;
    call_opt32 dec_thumb_load_halfword_memory_hints;
    call_opt32 dec_thumb_load_word;
    call_opt32 dec_thumb_data_processing_register;
    call_opt32 dec_thumb_multiply_multiply_accumulate_and_absolute_difference;
    call_opt32 dec_thumb_long_multiply_long_multiply_accumulate_and_divide ].
Definition t32_table : list (entry (res (option Z))) := [
  row "xxx 01 00xx0xx xxxx x xxx xxxx xxxx xxxx" (LCall 0);
  row "xxx 01 00xx1xx xxxx x xxx xxxx xxxx xxxx" (LCall 1);
  row "xxx 01 01xxxxx xxxx x xxx xxxx xxxx xxxx" (LCall 2);
  row "xxx 01 1xxxxxx xxxx x xxx xxxx xxxx xxxx" (LCall 3);
  row "xxx 10 x0xxxxx xxxx 0 xxx xxxx xxxx xxxx" (LCall 4);
  row "xxx 10 x1xxxxx xxxx 0 xxx xxxx xxxx xxxx" (LCall 5);
  row "xxx 10 xxxxxxx xxxx 1 xxx xxxx xxxx xxxx" (LCall 6);
  row "xxx 11 000xxx0 xxxx x xxx xxxx xxxx xxxx" (LCall 7);
  row "xxx 11 00xx001 xxxx x xxx xxxx xxxx xxxx" (LCall 8);
  row "xxx 11 00xx011 xxxx x xxx xxxx xxxx xxxx" (LCall 9);
  row "xxx 11 00xx101 xxxx x xxx xxxx xxxx xxxx" (LCall 10);
  row "xxx 11 00xx111 xxxx x xxx xxxx xxxx xxxx" (LRet (Err EUndefined));
  row "xxx 11 001xxx0 xxxx x xxx xxxx xxxx xxxx" (LRet (Err ENotImpl));        (* Advanced SIMD element/structure load/store *)
  row "xxx 11 010xxxx xxxx x xxx xxxx xxxx xxxx" (LCall 11);
  row "xxx 11 0110xxx xxxx x xxx xxxx xxxx xxxx" (LCall 12);
  row "xxx 11 0111xxx xxxx x xxx xxxx xxxx xxxx" (LCall 13);
  row "xxx 11 1xxxxxx xxxx x xxx xxxx xxxx xxxx" (LCall 3) ].

Definition no_env : list (Z -> option Z) := [].

(* ---------- A6.3.12 Move register and immediate shifts: type(5:4), imm3(14:12):imm2(7:6) ---------- *)
Definition t32_mvsh_table : list (entry (option Z)) := [
  row "xxxx xxxx xxxx xxxx x 000 xxxx 00 00 xxxx" (O enc_MovRegisterThumbT3);
  row "xxxx xxxx xxxx xxxx x xxx xxxx xx 00 xxxx" (O enc_LslImmediateT2);
  row "xxxx xxxx xxxx xxxx x xxx xxxx xx 01 xxxx" (O enc_LsrImmediateT2);
  row "xxxx xxxx xxxx xxxx x xxx xxxx xx 10 xxxx" (O enc_AsrImmediateT2);
  row "xxxx xxxx xxxx xxxx x 000 xxxx 00 11 xxxx" (O enc_RrxT1);
  row "xxxx xxxx xxxx xxxx x xxx xxxx xx 11 xxxx" (O enc_RorImmediateT1) ].

(* ---------- A6.3.11 Data-processing (shifted register): op(24:21) S(20) Rn(19:16) Rd(11:8) ---------- *)
Definition t32_dpsr_env : list (Z -> option Z) := [dec_thumb_move_register_and_immediate_shifts].
Definition t32_dpsr_table : list (entry (option Z)) := [
  row "xxxxxxx 0000 1 xxxx x xxx 1111 xxxx xxxx" (O enc_TstRegisterT2);
  row "xxxxxxx 0000 x xxxx x xxx xxxx xxxx xxxx" (O enc_AndRegisterT2);
  row "xxxxxxx 0001 x xxxx x xxx xxxx xxxx xxxx" (O enc_BicRegisterT2);
  row "xxxxxxx 0010 x 1111 x xxx xxxx xxxx xxxx" (LCall 0);
  row "xxxxxxx 0010 x xxxx x xxx xxxx xxxx xxxx" (O enc_OrrRegisterT2);
  row "xxxxxxx 0011 x 1111 x xxx xxxx xxxx xxxx" (O enc_MvnRegisterT2);
  row "xxxxxxx 0011 x xxxx x xxx xxxx xxxx xxxx" (O enc_OrnRegisterT1);
  row "xxxxxxx 0100 1 xxxx x xxx 1111 xxxx xxxx" (O enc_TeqRegisterT1);
  row "xxxxxxx 0100 x xxxx x xxx xxxx xxxx xxxx" (O enc_EorRegisterT2);
  row "xxxxxxx 0110 x xxxx x xxx xxxx xxxx xxxx" (O enc_PkhT1);
  row "xxxxxxx 1000 1 xxxx x xxx 1111 xxxx xxxx" (O enc_CmnRegisterT2);
  row "xxxxxxx 1000 x 1101 x xxx xxxx xxxx xxxx" (O enc_AddSpPlusRegisterThumbT3);
  row "xxxxxxx 1000 x xxxx x xxx xxxx xxxx xxxx" (O enc_AddRegisterThumbT3);
  row "xxxxxxx 1010 x xxxx x xxx xxxx xxxx xxxx" (O enc_AdcRegisterT2);
  row "xxxxxxx 1011 x xxxx x xxx xxxx xxxx xxxx" (O enc_SbcRegisterT2);
  row "xxxxxxx 1101 1 xxxx x xxx 1111 xxxx xxxx" (O enc_CmpRegisterT3);
  row "xxxxxxx 1101 x 1101 x xxx xxxx xxxx xxxx" (O enc_SubSpMinusRegisterT1);
  row "xxxxxxx 1101 x xxxx x xxx xxxx xxxx xxxx" (O enc_SubRegisterT2);
  row "xxxxxxx 1110 x xxxx x xxx xxxx xxxx xxxx" (O enc_RsbRegisterT1) ].

(* ---------- A6.3.1 Data-processing (modified immediate): op(24:21) S(20) Rn(19:16) Rd(11:8) ---------- *)
Definition t32_dpmi_table : list (entry (option Z)) := [
  row "xxxxxxx 0000 1 xxxx x xxx 1111 xxxx xxxx" (O enc_TstImmediateT1);
  row "xxxxxxx 0000 x xxxx x xxx xxxx xxxx xxxx" (O enc_AndImmediateT1);
  row "xxxxxxx 0001 x xxxx x xxx xxxx xxxx xxxx" (O enc_BicImmediateT1);
  row "xxxxxxx 0010 x 1111 x xxx xxxx xxxx xxxx" (O enc_MovImmediateT2);
  row "xxxxxxx 0010 x xxxx x xxx xxxx xxxx xxxx" (O enc_OrrImmediateT1);
  row "xxxxxxx 0011 x 1111 x xxx xxxx xxxx xxxx" (O enc_MvnImmediateT1);
  row "xxxxxxx 0011 x xxxx x xxx xxxx xxxx xxxx" (O enc_OrnImmediateT1);
  row "xxxxxxx 0100 1 xxxx x xxx 1111 xxxx xxxx" (O enc_TeqImmediateT1);
  row "xxxxxxx 0100 x xxxx x xxx xxxx xxxx xxxx" (O enc_EorImmediateT1);
  row "xxxxxxx 1000 1 xxxx x xxx 1111 xxxx xxxx" (O enc_CmnImmediateT1);
  row "xxxxxxx 1000 x 1101 x xxx xxxx xxxx xxxx" (O enc_AddSpPlusImmediateT3);
  row "xxxxxxx 1000 x xxxx x xxx xxxx xxxx xxxx" (O enc_AddImmediateThumbT3);
  row "xxxxxxx 1010 x xxxx x xxx xxxx xxxx xxxx" (O enc_AdcImmediateT1);
  row "xxxxxxx 1011 x xxxx x xxx xxxx xxxx xxxx" (O enc_SbcImmediateT1);
  row "xxxxxxx 1101 1 xxxx x xxx 1111 xxxx xxxx" (O enc_CmpImmediateT2);
  row "xxxxxxx 1101 x 1101 x xxx xxxx xxxx xxxx" (O enc_SubSpMinusImmediateT2);
  row "xxxxxxx 1101 x xxxx x xxx xxxx xxxx xxxx" (O enc_SubImmediateThumbT3);
  row "xxxxxxx 1110 x xxxx x xxx xxxx xxxx xxxx" (O enc_RsbImmediateT2) ].

(* ---------- A6.3.3 Data-processing (plain binary immediate): op(24:20) Rn(19:16) ---------- *)
Definition t32_pbi_table : list (entry (option Z)) := [
  row "xxxxxxx 00000 1111 x xxx xxxx xxxx xxxx" (O enc_AdrT3);
  row "xxxxxxx 00000 1101 x xxx xxxx xxxx xxxx" (O enc_AddSpPlusImmediateT4);
  row "xxxxxxx 00000 xxxx x xxx xxxx xxxx xxxx" (O enc_AddImmediateThumbT4);
  row "xxxxxxx 00100 xxxx x xxx xxxx xxxx xxxx" (O enc_MovImmediateT3);
  row "xxxxxxx 01010 1111 x xxx xxxx xxxx xxxx" (O enc_AdrT2);
  row "xxxxxxx 01010 1101 x xxx xxxx xxxx xxxx" (O enc_SubSpMinusImmediateT3);
  row "xxxxxxx 01010 xxxx x xxx xxxx xxxx xxxx" (O enc_SubImmediateThumbT4);
  row "xxxxxxx 01100 xxxx x xxx xxxx xxxx xxxx" (O enc_MovtT1);
  row "xxxxxxx 10000 xxxx x xxx xxxx xxxx xxxx" (O enc_SsatT1);
  row "xxxxxxx 10010 xxxx x 000 xxxx 00xx xxxx" (O enc_Ssat16T1);
  row "xxxxxxx 10010 xxxx x xxx xxxx xxxx xxxx" (O enc_SsatT1);
  row "xxxxxxx 10100 xxxx x xxx xxxx xxxx xxxx" (O enc_SbfxT1);
  row "xxxxxxx 10110 1111 x xxx xxxx xxxx xxxx" (O enc_BfcT1);
  row "xxxxxxx 10110 xxxx x xxx xxxx xxxx xxxx" (O enc_BfiT1);
  row "xxxxxxx 11000 xxxx x xxx xxxx xxxx xxxx" (O enc_UsatT1);
  row "xxxxxxx 11010 xxxx x 000 xxxx 00xx xxxx" (O enc_Usat16T1);
  row "xxxxxxx 11010 xxxx x xxx xxxx xxxx xxxx" (O enc_UsatT1);
  row "xxxxxxx 11100 xxxx x xxx xxxx xxxx xxxx" (O enc_UbfxT1) ].
