(* Props/C08it.v — C08: executing IT sets ITSTATE to firstcond:mask and changes nothing else, for every state, first condition
   and mask.  Statement only; proof in Proofs/MiscProofs.v. *)
From Coq Require Import ZArith Bool List.
From ArmV Require Import Lib.PyZ Lib.Monad Lib.Machine Spec.Pseudocode Spec.Arch Spec.MachineView Proofs.StateLemmas Proofs.MiscProofs.
From Gen Require Import enums core exec.
Import ListNotations.
Open Scope Z_scope.

Theorem C08_IT_execute instr firstcond mask s : word (cpsr_of s) -> 0 <= firstcond < 16 -> 0 <= mask < 16 ->
  It_execute instr firstcond mask s = Ok tt (with_cpsr s (with_IT (cpsr_of s) (firstcond * 16 + mask))).
Proof. exact (It_ok instr firstcond mask s). Qed.
Print Assumptions C08_IT_execute.
