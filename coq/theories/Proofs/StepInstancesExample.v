(* Proofs/StepInstancesExample.v — concrete machines on which every hypothesis of the end-to-end theorems holds:
   ARM state, Supervisor mode, flat RAM, ADDSNE r2, r1, #4 with Z clear; Thumb state, last instruction of an IT EQ block
   with Z set, ADD r1, r2, #3. *)
Set Default Timeout 240.
From Coq Require Import ZArith List Bool Lia.
From ArmV Require Import Lib.PyZ Lib.Monad Lib.Machine Spec.Pseudocode Spec.Arch Spec.MachineView Spec.Branches Spec.StepFrame
  Spec.OperandSpec Spec.DPSem Proofs.StateLemmas Proofs.CondProofs Proofs.GuardProofs Proofs.BankProofs Proofs.MachineOps Proofs.DPLemmas
  Proofs.StepProofs Proofs.StepDP Proofs.StepInstances.
From Gen Require Import enums bits_ops shift regviews records hubm opsyn core exec conc decoders step.
Import ListNotations.
Open Scope Z_scope.

Lemma Forall_getl (P : Z -> Prop) l k : Forall P l -> 0 <= k < Z.of_nat (length l) -> P (getl l k).
Proof. intros HF Hk. unfold getl. rewrite Forall_forall in HF. apply HF. apply nth_In. lia. Qed.

Definition ex2_cfg : config := (mk_config 12 1 0 6 0 2 0 0 0 0 0 0 0 0 0 0 1 1 0 1 1 1 1 0 24 28 [0; 0; 0; 0; 0; 0; 0; 0; 0; 0; 0; 1074069625; 0; 0; 0; 0; 0; 0; 0; 0; 0; 0; 0; 0; 0; 0; 0; 0; 0; 0; 0; 0; 0; 0; 0; 0; 0; 0; 0; 0; 0; 0; 0; 0; 0; 0; 0; 0; 1091544928; 0; 0; 0; 0; 0; 0; 0; 0; 0; 0; 0; 0; 0; 0; 0; 0; 0; 0; 0; 0; 0; 0; 0; 0; 0; 0; 0; 0; 0; 0; 0; 0; 0; 0; 0; 0; 0; 0; 0; 0; 0; 0; 0; 0; 0; 0; 0; 0; 0; 0; 0; 0; 0; 0; 0; 0; 0; 0; 0; 0; 0; 0; 0; 0; 0]).
Definition ex2_s : machine := (mk_machine [3185950873; 4348; 3177840169; 2276503845; 2147483648; 1069673014; 3869338171; 65535; 4222; 3; 4102; 1752995436; 65536; 2; 4100; 4; 0; 128; 712347993; 1242556253; 128; 4200; 4348; 65536; 65535; 4; 32768; 4100; 4269; 65535; 2064784837; 793595014; 4186; 4160] [536870931; 77599483; 1572750363; 2484719451; 1944856784; 3039798576; 2678827058; 511189395; 0; 0; 0; 1074069626; 0; 0; 0; 0; 0; 0; 0; 0; 0; 0; 0; 0; 0; 0; 0; 0; 0; 0; 0; 0; 0; 0; 0; 0; 0; 0; 0; 0; 0; 0; 0; 0; 0; 0; 0; 0; 1091544928; 0; 0; 0; 0; 0; 0; 0; 0; 0; 0; 0; 0; 0; 0; 0; 0; 0; 0; 0; 0; 0; 0; 0; 0; 0; 0; 0; 0; 0; 0; 0; 0; 0; 0; 0; 0; 0; 0; 0; 0; 0; 0; 0; 0; 0; 0; 0; 0; 0; 0; 0; 0; 0; 0; 0; 0; 0; 0; 0; 0; 0; 0; 0; 0; 0] [[0; 0; 0; 0; 0; 0; 0; 0; 0; 0; 0; 0]; [0; 0; 0; 0; 0; 0; 0; 0; 0; 0; 0; 0]; [0; 0; 0; 0; 0; 0; 0; 0; 0; 0; 0; 0]; [0; 0; 0; 0; 0; 0; 0; 0; 0; 0; 0; 0]; [0; 0; 0; 0; 0; 0; 0; 0; 0; 0; 0; 0]; [0; 0; 0; 0; 0; 0; 0; 0; 0; 0; 0; 0]] [0; 0; 0; 0; 0; 0; 0; 0; 0; 0; 0; 0; 0; 0; 0; 0] 0 0 1 0 0 None [mk_device 0 256 [0; 0; 90; 0; 118; 191; 0; 75; 242; 0; 131; 0; 0; 236; 0; 175; 45; 0; 0; 0; 123; 12; 153; 0; 60; 0; 64; 107; 250; 0; 126; 53; 187; 0; 229; 0; 111; 15; 0; 116; 0; 0; 133; 124; 0; 70; 103; 0; 210; 0; 0; 0; 86; 125; 200; 0; 0; 203; 0; 0; 0; 0; 180; 0; 0; 251; 0; 242; 45; 0; 140; 0; 70; 209; 0; 0; 70; 0; 0; 0; 215; 221; 0; 0; 0; 0; 0; 214; 218; 177; 171; 0; 199; 0; 0; 0; 141; 0; 0; 0; 40; 0; 0; 194; 0; 0; 120; 0; 228; 81; 0; 140; 119; 169; 0; 0; 231; 89; 71; 0; 0; 0; 0; 0; 0; 75; 0; 148; 90; 0; 208; 0; 0; 40; 0; 0; 0; 0; 0; 228; 0; 83; 0; 0; 161; 0; 0; 250; 74; 181; 246; 0; 152; 251; 64; 81; 0; 237; 122; 168; 0; 75; 34; 0; 136; 0; 121; 0; 68; 0; 0; 126; 0; 165; 0; 0; 0; 32; 136; 0; 0; 0; 89; 190; 0; 0; 116; 0; 175; 0; 199; 0; 0; 0; 0; 0; 0; 0; 174; 0; 75; 194; 214; 199; 73; 0; 79; 122; 0; 0; 0; 0; 138; 0; 58; 21; 0; 0; 184; 17; 0; 0; 215; 157; 0; 0; 0; 74; 0; 46; 0; 41; 54; 27; 0; 0; 146; 0; 0; 0; 110; 175; 0; 240; 0; 0; 75; 161; 0; 241; 0; 0; 141; 213; 0; 0]; mk_device 4096 4352 [60; 0; 99; 182; 87; 170; 221; 152; 99; 0; 82; 135; 185; 217; 243; 203; 29; 233; 0; 0; 159; 213; 85; 0; 0; 0; 185; 0; 0; 0; 218; 9; 0; 0; 0; 24; 47; 10; 239; 194; 109; 227; 0; 0; 118; 39; 0; 222; 225; 141; 71; 0; 0; 0; 229; 236; 0; 15; 0; 0; 242; 201; 0; 172; 1; 47; 145; 18; 0; 0; 0; 0; 0; 92; 187; 0; 198; 172; 11; 0; 249; 118; 199; 0; 8; 0; 0; 0; 24; 0; 205; 239; 174; 12; 200; 65; 0; 163; 9; 0; 178; 0; 136; 237; 27; 252; 0; 0; 0; 4; 91; 146; 0; 0; 3; 0; 114; 0; 0; 0; 123; 197; 103; 33; 0; 178; 109; 0; 0; 126; 0; 51; 0; 0; 0; 196; 192; 0; 73; 0; 0; 0; 209; 0; 0; 12; 0; 207; 0; 0; 78; 67; 82; 16; 0; 0; 31; 33; 0; 66; 0; 0; 109; 51; 3; 158; 0; 0; 135; 0; 0; 195; 0; 0; 81; 58; 111; 12; 0; 0; 0; 0; 0; 208; 0; 0; 0; 147; 180; 0; 55; 210; 143; 0; 0; 0; 207; 251; 0; 0; 126; 36; 61; 9; 101; 183; 235; 204; 0; 120; 0; 0; 0; 2; 154; 0; 99; 173; 79; 0; 0; 0; 0; 201; 0; 0; 0; 0; 0; 0; 151; 197; 0; 19; 198; 148; 0; 0; 247; 0; 183; 9; 0; 0; 0; 0; 0; 0; 0; 0; 132; 30; 249; 0; 248; 99]]).
Definition ex2_w : Z := 311504641.                                    (* 0x12912F01 = ADDSNE r2, r1, #4 *)
Definition ex2_s1 : machine := set_opcode_len (set_opcode_w ex2_s ex2_w) 32.

Lemma ex2_fetch : ArmV6_fetch_instruction ex2_cfg ex2_s = Ok ex2_w ex2_s1.
Proof. vm_compute. reflexivity. Qed.
Lemma ex2_cube : is_add_imm_a1 ex2_w.
Proof. unfold is_add_imm_a1. vm_compute. repeat split; congruence. Qed.
Lemma ex2_ictx : ictx ex2_cfg ex2_s1.
Proof.
  split; [split|]; try reflexivity.
  - vm_compute. split; [discriminate|reflexivity].
  - intros k Hk. apply Forall_getl; [|change (length (R ex2_s1)) with 34%nat; lia].
    cbn [R ex2_s1 set_opcode_len set_opcode_w ex2_s]. repeat (constructor; [unfold word; lia|]). constructor.
Qed.
Lemma ex2_cond : cond_holds ex2_s1.
Proof. vm_compute. reflexivity. Qed.

Example add_imm_a1_step_example :
  exists s2, ArmV6_emulate_cycle ex2_cfg ex2_s = Ok tt (AdvancePC (it_step_after ex2_s1 s2)) /\
             pc_of (AdvancePC (it_step_after ex2_s1 s2)) = pc_of ex2_s + 4.
Proof.
  destruct (add_imm_a1_step ex2_cfg ex2_s ex2_w ex2_s1 ex2_fetch ltac:(vm_compute; split; [discriminate|reflexivity]) ex2_cube
              ltac:(vm_compute; reflexivity) ex2_ictx ex2_cond) as (s2 & _ & H1 & H2).
  exists s2. split; [exact H1|]. rewrite H2. vm_compute. reflexivity.
Qed.

Definition ex3_cfg : config := (mk_config 12 1 0 6 0 2 0 0 0 0 0 0 0 0 0 0 1 1 0 1 1 1 1 0 24 28 [0; 0; 0; 0; 0; 0; 0; 0; 0; 0; 0; 1074069625; 0; 0; 0; 0; 0; 0; 0; 0; 0; 0; 0; 0; 0; 0; 0; 0; 0; 0; 0; 0; 0; 0; 0; 0; 0; 0; 0; 0; 0; 0; 0; 0; 0; 0; 0; 0; 1091544928; 0; 0; 0; 0; 0; 0; 0; 0; 0; 0; 0; 0; 0; 0; 0; 0; 0; 0; 0; 0; 0; 0; 0; 0; 0; 0; 0; 0; 0; 0; 0; 0; 0; 0; 0; 0; 0; 0; 0; 0; 0; 0; 0; 0; 0; 0; 0; 0; 0; 0; 0; 0; 0; 0; 0; 0; 0; 0; 0; 0; 0; 0; 0; 0; 0]).
Definition ex3_s : machine := (mk_machine [4; 1; 4294967295; 4096; 4294967294; 2; 2; 4294967295; 4096; 255; 2503952625; 2478638287; 4121; 200071088; 4164; 4; 4253; 4188; 4096; 1599435267; 4348; 1; 2132084004; 1836494974; 1999744784; 4328; 255; 3002158228; 351564607; 4349; 3132943648; 4100; 507088656; 4160] [1073743923; 4131840496; 3283806865; 1460814423; 2552799191; 2490630943; 295334623; 4057374417; 0; 713; 0; 1074069626; 0; 0; 0; 0; 0; 0; 0; 0; 0; 0; 0; 0; 0; 0; 0; 0; 0; 0; 0; 0; 0; 0; 0; 0; 0; 0; 0; 0; 0; 0; 0; 0; 0; 0; 0; 0; 1091544928; 0; 0; 0; 0; 0; 0; 0; 0; 0; 0; 0; 0; 0; 0; 0; 0; 0; 0; 0; 0; 0; 0; 0; 0; 0; 0; 0; 0; 0; 0; 0; 0; 0; 0; 0; 0; 0; 0; 0; 0; 0; 0; 0; 0; 0; 0; 0; 0; 0; 0; 0; 0; 0; 0; 0; 0; 0; 0; 0; 0; 0; 0; 0; 0; 0] [[0; 0; 0; 0; 0; 0; 0; 0; 0; 0; 0; 0]; [0; 0; 0; 0; 0; 0; 0; 0; 0; 0; 0; 0]; [0; 0; 0; 0; 0; 0; 0; 0; 0; 0; 0; 0]; [0; 0; 0; 0; 0; 0; 0; 0; 0; 0; 0; 0]; [0; 0; 0; 0; 0; 0; 0; 0; 0; 0; 0; 0]; [0; 0; 0; 0; 0; 0; 0; 0; 0; 0; 0; 0]] [0; 0; 0; 0; 0; 0; 0; 0; 0; 0; 0; 0; 0; 0; 0; 0] 0 0 1 0 0 None [mk_device 0 256 [0; 179; 147; 0; 0; 98; 0; 240; 43; 0; 55; 0; 63; 234; 0; 114; 71; 0; 0; 0; 106; 0; 0; 59; 45; 168; 124; 0; 72; 107; 0; 0; 32; 0; 0; 0; 0; 230; 0; 0; 0; 0; 100; 162; 48; 53; 28; 13; 145; 25; 0; 0; 53; 0; 64; 0; 0; 29; 0; 0; 123; 36; 87; 0; 177; 5; 243; 0; 139; 0; 0; 164; 0; 0; 93; 0; 57; 0; 0; 57; 0; 0; 0; 61; 0; 0; 132; 187; 7; 0; 49; 0; 0; 239; 0; 249; 56; 120; 52; 252; 0; 0; 167; 164; 169; 99; 0; 0; 45; 162; 205; 0; 0; 190; 0; 0; 32; 151; 0; 0; 211; 0; 239; 140; 0; 204; 0; 0; 0; 0; 223; 223; 64; 128; 150; 139; 33; 189; 117; 0; 0; 0; 0; 0; 38; 0; 112; 0; 0; 0; 36; 185; 15; 132; 0; 198; 143; 48; 197; 115; 0; 0; 0; 156; 0; 0; 70; 136; 0; 0; 133; 0; 0; 143; 0; 114; 31; 80; 61; 54; 0; 0; 0; 183; 0; 64; 0; 0; 243; 226; 253; 0; 180; 131; 107; 81; 93; 141; 180; 84; 0; 245; 252; 0; 224; 67; 231; 0; 33; 0; 0; 0; 0; 137; 0; 0; 0; 14; 0; 229; 240; 22; 0; 219; 67; 0; 86; 0; 234; 33; 181; 28; 0; 46; 79; 0; 0; 114; 0; 88; 0; 0; 4; 0; 0; 121; 114; 209; 0; 0; 0; 0; 0; 55; 0; 213]; mk_device 4096 4352 [0; 0; 253; 13; 0; 160; 0; 41; 170; 0; 0; 0; 62; 0; 47; 114; 93; 0; 0; 0; 247; 0; 46; 97; 71; 0; 129; 0; 209; 102; 0; 76; 59; 245; 0; 0; 0; 0; 0; 83; 0; 72; 0; 0; 213; 0; 0; 179; 0; 134; 0; 0; 0; 175; 0; 0; 0; 0; 7; 163; 26; 115; 0; 0; 209; 28; 0; 17; 0; 0; 0; 0; 188; 207; 67; 193; 189; 0; 216; 122; 0; 11; 0; 0; 37; 166; 0; 145; 123; 68; 0; 55; 0; 132; 119; 30; 0; 0; 21; 0; 117; 129; 0; 68; 234; 0; 148; 191; 0; 0; 209; 0; 28; 0; 229; 0; 40; 125; 0; 186; 88; 30; 0; 192; 101; 237; 3; 0; 95; 99; 0; 0; 109; 0; 0; 13; 0; 239; 248; 130; 197; 244; 7; 0; 0; 0; 0; 0; 0; 187; 157; 0; 0; 12; 0; 0; 106; 76; 189; 0; 167; 123; 0; 42; 0; 128; 0; 56; 85; 0; 35; 0; 44; 23; 94; 145; 5; 0; 105; 0; 69; 15; 147; 0; 128; 0; 0; 0; 229; 102; 0; 79; 0; 0; 8; 195; 0; 150; 18; 237; 0; 0; 114; 27; 38; 0; 0; 0; 0; 0; 0; 141; 0; 32; 235; 183; 32; 0; 0; 195; 18; 241; 0; 57; 0; 137; 117; 80; 0; 0; 60; 0; 105; 0; 5; 226; 0; 65; 108; 0; 8; 0; 0; 101; 204; 216; 0; 248; 196; 0; 56; 227; 243; 0; 0; 0]]).
Definition ex3_w : Z := 7377.                                         (* 0x1CD1 = ADD r1, r2, #3 *)
Definition ex3_s1 : machine := set_opcode_len (set_opcode_w ex3_s ex3_w) 16.

Lemma ex3_fetch : ArmV6_fetch_instruction ex3_cfg ex3_s = Ok ex3_w ex3_s1.
Proof. vm_compute. reflexivity. Qed.
Lemma ex3_cube : is_add_imm_t1 ex3_w.
Proof. unfold is_add_imm_t1. vm_compute. split; reflexivity. Qed.
Lemma ex3_ictx : ictx ex3_cfg ex3_s1.
Proof.
  split; [split|]; try reflexivity.
  - vm_compute. split; [discriminate|reflexivity].
  - intros k Hk. apply Forall_getl; [|change (length (R ex3_s1)) with 34%nat; lia].
    cbn [R ex3_s1 set_opcode_len set_opcode_w ex3_s]. repeat (constructor; [unfold word; lia|]). constructor.
Qed.
Lemma ex3_cond : cond_holds ex3_s1.
Proof. vm_compute. reflexivity. Qed.
Lemma ex3_in_it : InITBlock (psr_IT (cpsr_of ex3_s1)) = true.
Proof. vm_compute. reflexivity. Qed.

Example add_imm_t1_step_example :
  exists s2, ArmV6_emulate_cycle ex3_cfg ex3_s = Ok tt (AdvancePC (it_step_after ex3_s1 s2)) /\
             pc_of (AdvancePC (it_step_after ex3_s1 s2)) = pc_of ex3_s + 2 /\ not_in_it ex3_s1 = 0.
Proof.
  destruct (add_imm_t1_step ex3_cfg ex3_s ex3_w ex3_s1 ex3_fetch ltac:(vm_compute; split; [discriminate|reflexivity]) ex3_cube
              ltac:(vm_compute; reflexivity) ltac:(reflexivity) ex3_ictx ex3_cond) as (s2 & _ & H1 & H2).
  exists s2. split; [exact H1|]. split; [rewrite H2; vm_compute; reflexivity|vm_compute; reflexivity].
Qed.
