(* Proofs/DPClasses3.v — STATIC (written by tools/spec/mkdp.py from its table; committed).
   One theorem per data-processing opcode class: with its condition passed and operand fields in range, the
   regenerated execute() equals dp_sem (Proofs/DPSem.v) for every operand value, flag state, mode, configuration. *)
From Coq Require Import ZArith List Bool Lia ZifyBool.
From ArmV Require Import Lib.PyZ Lib.Monad Lib.Machine Spec.Pseudocode Spec.Expected Spec.Arch
  Proofs.BitLemmas Proofs.SpecFacts Proofs.BitsOps Proofs.BitsOps2 Proofs.ShiftOps Proofs.FieldsProofs Proofs.StateLemmas
  Proofs.CondProofs Proofs.GuardProofs Proofs.BankProofs Proofs.MachineOps Spec.DPSem Proofs.DPLemmas Proofs.DPTactics.
From Gen Require Import enums bits_ops shift regviews records hubm opsyn core exec.
Import ListNotations.
Open Scope Z_scope.

Theorem SbcImmediate_sem cfg instruction setflags d n imm32 st :
  ictx cfg st ->
  cond_holds st ->
  0 <= d <= 15 ->
  0 <= n <= 15 ->
  word imm32 ->
  SbcImmediate_execute cfg instruction setflags d n imm32 st = dp_sem cfg SBC setflags (Some d) n (Op2Imm imm32 0) st.
Proof. dp_tac. Qed.

Theorem AddRegisterArm_sem cfg instruction setflags m d n shift_t shift_n st :
  ictx cfg st ->
  cond_holds st ->
  0 <= d <= 15 ->
  0 <= n <= 15 ->
  0 <= m <= 15 ->
  valid_shift shift_t shift_n ->
  AddRegisterArm_execute cfg instruction setflags m d n shift_t shift_n st = dp_sem cfg ADD setflags (Some d) n (Op2Reg m shift_t shift_n) st.
Proof. dp_tac. Qed.

Theorem SubRegister_sem cfg instruction setflags m d n shift_t shift_n st :
  ictx cfg st ->
  cond_holds st ->
  0 <= d <= 15 ->
  0 <= n <= 15 ->
  0 <= m <= 15 ->
  valid_shift shift_t shift_n ->
  SubRegister_execute cfg instruction setflags m d n shift_t shift_n st = dp_sem cfg SUB setflags (Some d) n (Op2Reg m shift_t shift_n) st.
Proof. dp_tac. Qed.

Theorem AndRegister_sem cfg instruction setflags m d n shift_t shift_n st :
  ictx cfg st ->
  cond_holds st ->
  0 <= d <= 15 ->
  0 <= n <= 15 ->
  0 <= m <= 15 ->
  valid_shift shift_t shift_n ->
  AndRegister_execute cfg instruction setflags m d n shift_t shift_n st = dp_sem cfg AND setflags (Some d) n (Op2Reg m shift_t shift_n) st.
Proof. dp_tac. Qed.

Theorem BicImmediate_sem cfg instruction setflags d n imm32 carry st :
  ictx cfg st ->
  cond_holds st ->
  0 <= d <= 15 ->
  0 <= n <= 15 ->
  word imm32 ->
  0 <= carry <= 1 ->
  BicImmediate_execute cfg instruction setflags d n imm32 carry st = dp_sem cfg BIC setflags (Some d) n (Op2Imm imm32 carry) st.
Proof. dp_tac. Qed.

Theorem MovImmediate_sem cfg instruction setflags d imm32 carry st :
  ictx cfg st ->
  cond_holds st ->
  0 <= d <= 15 ->
  word imm32 ->
  0 <= carry <= 1 ->
  MovImmediate_execute cfg instruction setflags d imm32 carry st = dp_sem cfg MOV setflags (Some d) 0 (Op2Imm imm32 carry) st.
Proof. dp_tac. Qed.

Theorem LslRegister_sem cfg instruction setflags m d n st :
  ictx cfg st ->
  cond_holds st ->
  0 <= d <= 14 ->
  0 <= m <= 15 ->
  0 <= n <= 15 ->
  LslRegister_execute cfg instruction setflags m d n st = dp_sem cfg MOV setflags (Some d) 0 (Op2RegReg n Pseudocode.SRType_LSL m) st.
Proof. dp_tac. Qed.

Theorem CmnRegister_sem cfg instruction m n shift_t shift_n st :
  ictx cfg st ->
  cond_holds st ->
  0 <= n <= 15 ->
  0 <= m <= 15 ->
  valid_shift shift_t shift_n ->
  CmnRegister_execute cfg instruction m n shift_t shift_n st = dp_sem cfg ADD 1 None n (Op2Reg m shift_t shift_n) st.
Proof. dp_tac. Qed.
