(* driver.ml — hand-written glue around the extracted model (armsim.ml).
   stdin: one case per line:  <cmd> <n> <ints...>  where ints = config, then machine (layout of Lib/Enc.v)
   stdout: one line of space-separated integers per case (enc_out ...). *)
open Armsim

let rec pos_of_int n = if n = 1 then XH else if n land 1 = 0 then XO (pos_of_int (n lsr 1)) else XI (pos_of_int (n lsr 1))
let z_of_int n = if n = 0 then Z0 else if n > 0 then Zpos (pos_of_int n) else Zneg (pos_of_int (-n))
let ten = z_of_int 10
let z_of_string s =
  let neg = String.length s > 0 && s.[0] = '-' in
  let acc = ref Z0 in
  String.iteri (fun i ch -> if not (neg && i = 0) then
    acc := Z.add (Z.mul !acc ten) (z_of_int (Char.code ch - 48))) s;
  if neg then Z.opp !acc else !acc
let rec int_of_pos = function XH -> 1 | XO p -> 2 * int_of_pos p | XI p -> 2 * int_of_pos p + 1
let int_of_z = function Z0 -> 0 | Zpos p -> int_of_pos p | Zneg p -> - (int_of_pos p)
let rec z_to_string z =
  match z with
  | Z0 -> "0"
  | Zneg p -> "-" ^ z_to_string (Zpos p)
  | Zpos _ ->
    let buf = Buffer.create 20 in
    let rec go z acc = match z with
      | Z0 -> acc
      | _ -> let (q, r) = Z.div_eucl z ten in go q (string_of_int (int_of_z r) :: acc) in
    List.iter (Buffer.add_string buf) (go z []); Buffer.contents buf
let rec nat_of_int n = if n = 0 then O else S (nat_of_int (n - 1))

let () =
  try
    while true do
      let line = input_line stdin in
      let toks = Array.of_list (List.filter (fun s -> s <> "") (String.split_on_char ' ' line)) in
      let pos = ref 2 in
      let next () = let v = z_of_string toks.(!pos) in incr pos; v in
      let nexti () = int_of_z (next ()) in
      let rec take n = if n = 0 then [] else let v = next () in v :: take (n - 1) in
      let lst () = let n = nexti () in take n in
      let cmd = toks.(0) in
      let n = int_of_string toks.(1) in
      (* config: 26 scalars then reset list *)
      let c = Array.init 26 (fun _ -> next ()) in
      let resets = lst () in
      let cfg = { cfg_number_of_mpu_regions = c.(0); cfg_have_security_ext = c.(1); cfg_have_virt_ext = c.(2);
        cfg_arch_version = c.(3); cfg_jazelle_accepts_execution = c.(4); cfg_memory_system_architecture = c.(5);
        cfg_have_lpae = c.(6); cfg_have_mp_ext = c.(7); cfg_have_adv_simd_or_vfp = c.(8); cfg_have_thumbee = c.(9);
        cfg_have_jazelle = c.(10); cfg_implementation_supports_transient = c.(11); cfg_processor_id = c.(12);
        cfg_is_armv7r_profile = c.(13); cfg_has_imp_def_reset_vector = c.(14); cfg_write_hsr_hsr_value_24 = c.(15);
        cfg_write_hsr_23_22_cond = c.(16); cfg_dfsr_string_12 = c.(17); cfg_data_abort_hsr_9 = c.(18);
        cfg_data_abort_pmsa_change_dfar = c.(19); cfg_translation_walk_sd_l1descaddr_attrs_10 = c.(20);
        cfg_translation_walk_sd_l1descaddr_hints_01 = c.(21); cfg_coproc_accepted_pl0_undefined = c.(22);
        cfg_impdef_reset_vector = c.(23); cfg_impdef_irq_vector = c.(24); cfg_impdef_fiq_vector = c.(25);
        cfg_reset_values = resets } in
      let r = lst () in
      let sys = lst () in
      let nl = nexti () in
      let rec lists k = if k = 0 then [] else let l = lst () in l :: lists (k - 1) in
      let sysl = lists nl in
      let changed = lst () in
      let ow = next () in let ol = next () in let run = next () in let wfe = next () in let wfi = next () in
      let ex = (let tag = nexti () in if tag = 0 then None else (let code = next () in let fl = lst () in Some (code, fl))) in
      let nd = nexti () in
      let rec devs k = if k = 0 then [] else
          (let b = next () in let e = next () in let bytes = lst () in
           let d = { dev_beg = b; dev_end = e; dev_bytes = bytes } in d :: devs (k - 1)) in
      let mem = devs nd in
      let s = { r = r; sys = sys; sysl = sysl; changed = changed; opcode_w = ow; opcode_len = ol; run_ = run;
                wfe = wfe; wfi = wfi; executed = ex; mem = mem } in
      let out =
        if cmd = "run" then run_enc cfg (nat_of_int n) s
        else if cmd = "decode" then decode_only cfg s (z_of_int 0 |> fun _ -> z_of_string toks.(Array.length toks - 1))
        else if cmd = "operands" then decode_operands cfg s (z_of_string toks.(Array.length toks - 1))
        else [] in
      print_string (String.concat " " (List.map z_to_string out)); print_newline ()
    done
  with End_of_file -> ()
