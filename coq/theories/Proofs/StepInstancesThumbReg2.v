(* Proofs/StepInstancesThumbReg2.v — GENERATED text (one block per encoding, same script): the remaining dp_sem members of the 16-bit
   Thumb data-processing group 010000 opc Rm Rdn end to end — LSLS, LSRS, ASRS, RORS Rdn, Rm (shift by register), MVNS Rd, Rm and
   RSBS Rd, Rn, #0 (flags = !InITBlock()) — for every halfword of the encoding, in any IT position, and every state. *)
Set Default Timeout 240.
From Coq Require Import ZArith List Bool Lia ZifyBool.
From ArmV Require Import Lib.PyZ Lib.Monad Lib.Machine Spec.Pseudocode Spec.Arch Spec.MachineView Spec.Branches Spec.StepFrame
  Spec.OperandSpec Spec.DPSem
  Proofs.SpecFacts Proofs.StateLemmas Proofs.CondProofs Proofs.GuardProofs Proofs.BankProofs Proofs.MachineOps Proofs.DPLemmas
  Proofs.DPClasses0 Proofs.DPClasses1 Proofs.DPClasses2 Proofs.DPClasses3 Proofs.DPClasses4 Proofs.DPClasses5 Proofs.DPClasses6 Proofs.DPClasses7
  Proofs.StepProofs Proofs.StepDP Proofs.DPRange Proofs.StepDPReg Proofs.StepInstances Proofs.StepInstancesCmp Proofs.StepInstancesThumbReg Proofs.OpTac
  Proofs.OpsT0 Proofs.OpsT1 Proofs.OpsT2 Proofs.OpsT3 Proofs.OpsT4 Proofs.OpsT5 Proofs.OpsT6 Proofs.OpsT7.
From Gen Require Import enums bits_ops shift regviews records hubm opsyn core exec conc decoders step.
Import ListNotations.
Open Scope Z_scope.
Ltac Zify.zify_post_hook ::= Z.to_euclidean_division_equations.

(* ================= LslRegisterT1 ================= *)
Lemma decode_LslRegisterT1 w s : 0 <= w < 2 ^ 16 -> is_dp_t16 2 w -> iset_of s = 1 -> opcode_len s = 16 ->
  ArmV6_decode_instruction w s = Ok (Some enc_LslRegisterT1) s.
Proof.
  intros Hw (H1 & H2) Hi Hl. dec_t16 w Hi Hl.
  assert (D : dec_thumb_instruction_set_encoding_16_bit w = Some enc_LslRegisterT1).
  { dec_step dec_thumb_instruction_set_encoding_16_bit. top_t16 w. ops_if.
    dec_step dec_thumb_data_processing. ops_if. reflexivity. }
  rewrite D. reflexivity.
Qed.
Lemma from_bitarray_LslRegisterT1 cfg w s : 0 <= w < 2 ^ 16 ->
  from_bitarray_dispatch cfg enc_LslRegisterT1 w s = Ok (Some (code_LslRegister, [w; not_in_it s; bits w 5 3; bits w 2 0; bits w 2 0])) s.
Proof.
  intros Hw. pose proof (ops_LslRegisterT1 w s Hw) as H. unfold fb_out, fb_plain, fb_opt, fb_res, fb_res_opt, fb_m, fb_m_opt in H.
  unfold from_bitarray_dispatch, enc_LslRegisterT1. cbv iota. unfold bind, ret, lift in *.
  repeat match goal with
  | H : match ?x with _ => _ end = _ |- context[?x] => destruct x; try discriminate H
  end.
  inversion H. first [reflexivity | match goal with E : _ = Some _ |- _ => rewrite E end; reflexivity].
Qed.
Theorem lslRegisterT1_step cfg s w s1 :
  ArmV6_fetch_instruction cfg s = Ok w s1 ->
  0 <= w < 2 ^ 16 -> is_dp_t16 2 w -> iset_of s1 = 1 -> opcode_len s1 = 16 -> ictx cfg s1 -> cond_holds s1 ->
  let dn := bits w 2 0 in let m := bits w 5 3 in
  let op := (code_LslRegister, [w; not_in_it s1; m; dn; dn]) in
  exists s2,
    dp_sem cfg MOV (not_in_it s1) (Some dn) 0 (Op2RegReg dn SRType_LSL m) (begin_instr s1 op) = Ok tt s2 /\
    ArmV6_emulate_cycle cfg s = Ok tt (AdvancePC (it_step_after s1 s2)) /\
    pc_of (AdvancePC (it_step_after s1 s2)) = add32 (pc_of s1) 2.
Proof.
  intros Hf Hw Hcube Hi Hl Hctx Hcond. pose_all_ranges. intros dn m op.
  assert (Qd : 0 <= dn <= 14) by (unfold dn; lia). assert (Qn : 0 <= dn <= 15) by (unfold dn; lia). assert (Qm : 0 <= m <= 15) by (unfold m; lia).
  destruct (dp_step cfg s w s1 enc_LslRegisterT1 op MOV (not_in_it s1) dn 0 (Op2RegReg dn SRType_LSL m) Hf) as (s2 & A & B & C); try lia; try assumption.
  - apply decode_LslRegisterT1; assumption.
  - apply from_bitarray_LslRegisterT1; assumption.
  - change (execute_dispatch cfg op (begin_instr s1 op)) with (LslRegister_execute cfg w (not_in_it s1) m dn dn (begin_instr s1 op)).
    apply LslRegister_sem; try lia; [apply ictx_begin; exact Hctx|apply cond_holds_begin; exact Hcond].
  - cbn [op2_valid]. split; [lia|]. split; [lia|]. auto.
  - exists s2. split; [exact A|]. split; [exact B|]. rewrite C, Hl. reflexivity.
Qed.

(* ================= LsrRegisterT1 ================= *)
Lemma decode_LsrRegisterT1 w s : 0 <= w < 2 ^ 16 -> is_dp_t16 3 w -> iset_of s = 1 -> opcode_len s = 16 ->
  ArmV6_decode_instruction w s = Ok (Some enc_LsrRegisterT1) s.
Proof.
  intros Hw (H1 & H2) Hi Hl. dec_t16 w Hi Hl.
  assert (D : dec_thumb_instruction_set_encoding_16_bit w = Some enc_LsrRegisterT1).
  { dec_step dec_thumb_instruction_set_encoding_16_bit. top_t16 w. ops_if.
    dec_step dec_thumb_data_processing. ops_if. reflexivity. }
  rewrite D. reflexivity.
Qed.
Lemma from_bitarray_LsrRegisterT1 cfg w s : 0 <= w < 2 ^ 16 ->
  from_bitarray_dispatch cfg enc_LsrRegisterT1 w s = Ok (Some (code_LsrRegister, [w; not_in_it s; bits w 5 3; bits w 2 0; bits w 2 0])) s.
Proof.
  intros Hw. pose proof (ops_LsrRegisterT1 w s Hw) as H. unfold fb_out, fb_plain, fb_opt, fb_res, fb_res_opt, fb_m, fb_m_opt in H.
  unfold from_bitarray_dispatch, enc_LsrRegisterT1. cbv iota. unfold bind, ret, lift in *.
  repeat match goal with
  | H : match ?x with _ => _ end = _ |- context[?x] => destruct x; try discriminate H
  end.
  inversion H. first [reflexivity | match goal with E : _ = Some _ |- _ => rewrite E end; reflexivity].
Qed.
Theorem lsrRegisterT1_step cfg s w s1 :
  ArmV6_fetch_instruction cfg s = Ok w s1 ->
  0 <= w < 2 ^ 16 -> is_dp_t16 3 w -> iset_of s1 = 1 -> opcode_len s1 = 16 -> ictx cfg s1 -> cond_holds s1 ->
  let dn := bits w 2 0 in let m := bits w 5 3 in
  let op := (code_LsrRegister, [w; not_in_it s1; m; dn; dn]) in
  exists s2,
    dp_sem cfg MOV (not_in_it s1) (Some dn) 0 (Op2RegReg dn SRType_LSR m) (begin_instr s1 op) = Ok tt s2 /\
    ArmV6_emulate_cycle cfg s = Ok tt (AdvancePC (it_step_after s1 s2)) /\
    pc_of (AdvancePC (it_step_after s1 s2)) = add32 (pc_of s1) 2.
Proof.
  intros Hf Hw Hcube Hi Hl Hctx Hcond. pose_all_ranges. intros dn m op.
  assert (Qd : 0 <= dn <= 14) by (unfold dn; lia). assert (Qn : 0 <= dn <= 15) by (unfold dn; lia). assert (Qm : 0 <= m <= 15) by (unfold m; lia).
  destruct (dp_step cfg s w s1 enc_LsrRegisterT1 op MOV (not_in_it s1) dn 0 (Op2RegReg dn SRType_LSR m) Hf) as (s2 & A & B & C); try lia; try assumption.
  - apply decode_LsrRegisterT1; assumption.
  - apply from_bitarray_LsrRegisterT1; assumption.
  - change (execute_dispatch cfg op (begin_instr s1 op)) with (LsrRegister_execute cfg w (not_in_it s1) m dn dn (begin_instr s1 op)).
    apply LsrRegister_sem; try lia; [apply ictx_begin; exact Hctx|apply cond_holds_begin; exact Hcond].
  - cbn [op2_valid]. split; [lia|]. split; [lia|]. auto.
  - exists s2. split; [exact A|]. split; [exact B|]. rewrite C, Hl. reflexivity.
Qed.

(* ================= AsrRegisterT1 ================= *)
Lemma decode_AsrRegisterT1 w s : 0 <= w < 2 ^ 16 -> is_dp_t16 4 w -> iset_of s = 1 -> opcode_len s = 16 ->
  ArmV6_decode_instruction w s = Ok (Some enc_AsrRegisterT1) s.
Proof.
  intros Hw (H1 & H2) Hi Hl. dec_t16 w Hi Hl.
  assert (D : dec_thumb_instruction_set_encoding_16_bit w = Some enc_AsrRegisterT1).
  { dec_step dec_thumb_instruction_set_encoding_16_bit. top_t16 w. ops_if.
    dec_step dec_thumb_data_processing. ops_if. reflexivity. }
  rewrite D. reflexivity.
Qed.
Lemma from_bitarray_AsrRegisterT1 cfg w s : 0 <= w < 2 ^ 16 ->
  from_bitarray_dispatch cfg enc_AsrRegisterT1 w s = Ok (Some (code_AsrRegister, [w; not_in_it s; bits w 5 3; bits w 2 0; bits w 2 0])) s.
Proof.
  intros Hw. pose proof (ops_AsrRegisterT1 w s Hw) as H. unfold fb_out, fb_plain, fb_opt, fb_res, fb_res_opt, fb_m, fb_m_opt in H.
  unfold from_bitarray_dispatch, enc_AsrRegisterT1. cbv iota. unfold bind, ret, lift in *.
  repeat match goal with
  | H : match ?x with _ => _ end = _ |- context[?x] => destruct x; try discriminate H
  end.
  inversion H. first [reflexivity | match goal with E : _ = Some _ |- _ => rewrite E end; reflexivity].
Qed.
Theorem asrRegisterT1_step cfg s w s1 :
  ArmV6_fetch_instruction cfg s = Ok w s1 ->
  0 <= w < 2 ^ 16 -> is_dp_t16 4 w -> iset_of s1 = 1 -> opcode_len s1 = 16 -> ictx cfg s1 -> cond_holds s1 ->
  let dn := bits w 2 0 in let m := bits w 5 3 in
  let op := (code_AsrRegister, [w; not_in_it s1; m; dn; dn]) in
  exists s2,
    dp_sem cfg MOV (not_in_it s1) (Some dn) 0 (Op2RegReg dn SRType_ASR m) (begin_instr s1 op) = Ok tt s2 /\
    ArmV6_emulate_cycle cfg s = Ok tt (AdvancePC (it_step_after s1 s2)) /\
    pc_of (AdvancePC (it_step_after s1 s2)) = add32 (pc_of s1) 2.
Proof.
  intros Hf Hw Hcube Hi Hl Hctx Hcond. pose_all_ranges. intros dn m op.
  assert (Qd : 0 <= dn <= 14) by (unfold dn; lia). assert (Qn : 0 <= dn <= 15) by (unfold dn; lia). assert (Qm : 0 <= m <= 15) by (unfold m; lia).
  destruct (dp_step cfg s w s1 enc_AsrRegisterT1 op MOV (not_in_it s1) dn 0 (Op2RegReg dn SRType_ASR m) Hf) as (s2 & A & B & C); try lia; try assumption.
  - apply decode_AsrRegisterT1; assumption.
  - apply from_bitarray_AsrRegisterT1; assumption.
  - change (execute_dispatch cfg op (begin_instr s1 op)) with (AsrRegister_execute cfg w (not_in_it s1) m dn dn (begin_instr s1 op)).
    apply AsrRegister_sem; try lia; [apply ictx_begin; exact Hctx|apply cond_holds_begin; exact Hcond].
  - cbn [op2_valid]. split; [lia|]. split; [lia|]. auto.
  - exists s2. split; [exact A|]. split; [exact B|]. rewrite C, Hl. reflexivity.
Qed.

(* ================= RorRegisterT1 ================= *)
Lemma decode_RorRegisterT1 w s : 0 <= w < 2 ^ 16 -> is_dp_t16 7 w -> iset_of s = 1 -> opcode_len s = 16 ->
  ArmV6_decode_instruction w s = Ok (Some enc_RorRegisterT1) s.
Proof.
  intros Hw (H1 & H2) Hi Hl. dec_t16 w Hi Hl.
  assert (D : dec_thumb_instruction_set_encoding_16_bit w = Some enc_RorRegisterT1).
  { dec_step dec_thumb_instruction_set_encoding_16_bit. top_t16 w. ops_if.
    dec_step dec_thumb_data_processing. ops_if. reflexivity. }
  rewrite D. reflexivity.
Qed.
Lemma from_bitarray_RorRegisterT1 cfg w s : 0 <= w < 2 ^ 16 ->
  from_bitarray_dispatch cfg enc_RorRegisterT1 w s = Ok (Some (code_RorRegister, [w; not_in_it s; bits w 5 3; bits w 2 0; bits w 2 0])) s.
Proof.
  intros Hw. pose proof (ops_RorRegisterT1 w s Hw) as H. unfold fb_out, fb_plain, fb_opt, fb_res, fb_res_opt, fb_m, fb_m_opt in H.
  unfold from_bitarray_dispatch, enc_RorRegisterT1. cbv iota. unfold bind, ret, lift in *.
  repeat match goal with
  | H : match ?x with _ => _ end = _ |- context[?x] => destruct x; try discriminate H
  end.
  inversion H. first [reflexivity | match goal with E : _ = Some _ |- _ => rewrite E end; reflexivity].
Qed.
Theorem rorRegisterT1_step cfg s w s1 :
  ArmV6_fetch_instruction cfg s = Ok w s1 ->
  0 <= w < 2 ^ 16 -> is_dp_t16 7 w -> iset_of s1 = 1 -> opcode_len s1 = 16 -> ictx cfg s1 -> cond_holds s1 ->
  let dn := bits w 2 0 in let m := bits w 5 3 in
  let op := (code_RorRegister, [w; not_in_it s1; m; dn; dn]) in
  exists s2,
    dp_sem cfg MOV (not_in_it s1) (Some dn) 0 (Op2RegReg dn SRType_ROR m) (begin_instr s1 op) = Ok tt s2 /\
    ArmV6_emulate_cycle cfg s = Ok tt (AdvancePC (it_step_after s1 s2)) /\
    pc_of (AdvancePC (it_step_after s1 s2)) = add32 (pc_of s1) 2.
Proof.
  intros Hf Hw Hcube Hi Hl Hctx Hcond. pose_all_ranges. intros dn m op.
  assert (Qd : 0 <= dn <= 14) by (unfold dn; lia). assert (Qn : 0 <= dn <= 15) by (unfold dn; lia). assert (Qm : 0 <= m <= 15) by (unfold m; lia).
  destruct (dp_step cfg s w s1 enc_RorRegisterT1 op MOV (not_in_it s1) dn 0 (Op2RegReg dn SRType_ROR m) Hf) as (s2 & A & B & C); try lia; try assumption.
  - apply decode_RorRegisterT1; assumption.
  - apply from_bitarray_RorRegisterT1; assumption.
  - change (execute_dispatch cfg op (begin_instr s1 op)) with (RorRegister_execute cfg w (not_in_it s1) m dn dn (begin_instr s1 op)).
    apply RorRegister_sem; try lia; [apply ictx_begin; exact Hctx|apply cond_holds_begin; exact Hcond].
  - cbn [op2_valid]. split; [lia|]. split; [lia|]. auto.
  - exists s2. split; [exact A|]. split; [exact B|]. rewrite C, Hl. reflexivity.
Qed.

(* ================= MvnRegisterT1 ================= *)
Lemma decode_MvnRegisterT1 w s : 0 <= w < 2 ^ 16 -> is_dp_t16 15 w -> iset_of s = 1 -> opcode_len s = 16 ->
  ArmV6_decode_instruction w s = Ok (Some enc_MvnRegisterT1) s.
Proof.
  intros Hw (H1 & H2) Hi Hl. dec_t16 w Hi Hl.
  assert (D : dec_thumb_instruction_set_encoding_16_bit w = Some enc_MvnRegisterT1).
  { dec_step dec_thumb_instruction_set_encoding_16_bit. top_t16 w. ops_if.
    dec_step dec_thumb_data_processing. ops_if. reflexivity. }
  rewrite D. reflexivity.
Qed.
Lemma from_bitarray_MvnRegisterT1 cfg w s : 0 <= w < 2 ^ 16 ->
  from_bitarray_dispatch cfg enc_MvnRegisterT1 w s = Ok (Some (code_MvnRegister, [w; not_in_it s; bits w 5 3; bits w 2 0; 1; 0])) s.
Proof.
  intros Hw. pose proof (ops_MvnRegisterT1 w s Hw) as H. unfold fb_out, fb_plain, fb_opt, fb_res, fb_res_opt, fb_m, fb_m_opt in H.
  unfold from_bitarray_dispatch, enc_MvnRegisterT1. cbv iota. unfold bind, ret, lift in *.
  repeat match goal with
  | H : match ?x with _ => _ end = _ |- context[?x] => destruct x; try discriminate H
  end.
  inversion H. first [reflexivity | match goal with E : _ = Some _ |- _ => rewrite E end; reflexivity].
Qed.
Theorem mvnRegisterT1_step cfg s w s1 :
  ArmV6_fetch_instruction cfg s = Ok w s1 ->
  0 <= w < 2 ^ 16 -> is_dp_t16 15 w -> iset_of s1 = 1 -> opcode_len s1 = 16 -> ictx cfg s1 -> cond_holds s1 ->
  let d := bits w 2 0 in let m := bits w 5 3 in
  let op := (code_MvnRegister, [w; not_in_it s1; m; d; 1; 0]) in
  exists s2,
    dp_sem cfg MVN (not_in_it s1) (Some d) 0 (Op2Reg m SRType_LSL 0) (begin_instr s1 op) = Ok tt s2 /\
    ArmV6_emulate_cycle cfg s = Ok tt (AdvancePC (it_step_after s1 s2)) /\
    pc_of (AdvancePC (it_step_after s1 s2)) = add32 (pc_of s1) 2.
Proof.
  intros Hf Hw Hcube Hi Hl Hctx Hcond. pose_all_ranges. intros d m op.
  assert (Qd : 0 <= d <= 14) by (unfold d; lia). assert (Qm : 0 <= m <= 15) by (unfold m; lia).
  destruct (dp_step cfg s w s1 enc_MvnRegisterT1 op MVN (not_in_it s1) d 0 (Op2Reg m SRType_LSL 0) Hf) as (s2 & A & B & C); try lia; try assumption.
  - apply decode_MvnRegisterT1; assumption.
  - apply from_bitarray_MvnRegisterT1; assumption.
  - change (execute_dispatch cfg op (begin_instr s1 op)) with (MvnRegister_execute cfg w (not_in_it s1) m d 1 0 (begin_instr s1 op)).
    apply MvnRegister_sem; try lia; try exact valid_lsl0; [apply ictx_begin; exact Hctx|apply cond_holds_begin; exact Hcond].
  - split; [lia|exact valid_lsl0].
  - exists s2. split; [exact A|]. split; [exact B|]. rewrite C, Hl. reflexivity.
Qed.

(* ================= RsbImmediateT1 ================= *)
Lemma decode_RsbImmediateT1 w s : 0 <= w < 2 ^ 16 -> is_dp_t16 9 w -> iset_of s = 1 -> opcode_len s = 16 ->
  ArmV6_decode_instruction w s = Ok (Some enc_RsbImmediateT1) s.
Proof.
  intros Hw (H1 & H2) Hi Hl. dec_t16 w Hi Hl.
  assert (D : dec_thumb_instruction_set_encoding_16_bit w = Some enc_RsbImmediateT1).
  { dec_step dec_thumb_instruction_set_encoding_16_bit. top_t16 w. ops_if.
    dec_step dec_thumb_data_processing. ops_if. reflexivity. }
  rewrite D. reflexivity.
Qed.
Lemma from_bitarray_RsbImmediateT1 cfg w s : 0 <= w < 2 ^ 16 ->
  from_bitarray_dispatch cfg enc_RsbImmediateT1 w s = Ok (Some (code_RsbImmediate, [w; not_in_it s; bits w 2 0; bits w 5 3; 0])) s.
Proof.
  intros Hw. pose proof (ops_RsbImmediateT1 w s Hw) as H. unfold fb_out, fb_plain, fb_opt, fb_res, fb_res_opt, fb_m, fb_m_opt in H.
  unfold from_bitarray_dispatch, enc_RsbImmediateT1. cbv iota. unfold bind, ret, lift in *.
  repeat match goal with
  | H : match ?x with _ => _ end = _ |- context[?x] => destruct x; try discriminate H
  end.
  inversion H. first [reflexivity | match goal with E : _ = Some _ |- _ => rewrite E end; reflexivity].
Qed.
Theorem rsbImmediateT1_step cfg s w s1 :
  ArmV6_fetch_instruction cfg s = Ok w s1 ->
  0 <= w < 2 ^ 16 -> is_dp_t16 9 w -> iset_of s1 = 1 -> opcode_len s1 = 16 -> ictx cfg s1 -> cond_holds s1 ->
  let d := bits w 2 0 in let n := bits w 5 3 in
  let op := (code_RsbImmediate, [w; not_in_it s1; d; n; 0]) in
  exists s2,
    dp_sem cfg RSB (not_in_it s1) (Some d) n (Op2Imm 0 0) (begin_instr s1 op) = Ok tt s2 /\
    ArmV6_emulate_cycle cfg s = Ok tt (AdvancePC (it_step_after s1 s2)) /\
    pc_of (AdvancePC (it_step_after s1 s2)) = add32 (pc_of s1) 2.
Proof.
  intros Hf Hw Hcube Hi Hl Hctx Hcond. pose_all_ranges. intros d n op.
  assert (Qd : 0 <= d <= 14) by (unfold d; lia). assert (Qn : 0 <= n <= 15) by (unfold n; lia).
  assert (W0 : word 0) by (unfold word; lia).
  destruct (dp_step cfg s w s1 enc_RsbImmediateT1 op RSB (not_in_it s1) d n (Op2Imm 0 0) Hf) as (s2 & A & B & C); try lia; try assumption.
  - apply decode_RsbImmediateT1; assumption.
  - apply from_bitarray_RsbImmediateT1; assumption.
  - change (execute_dispatch cfg op (begin_instr s1 op)) with (RsbImmediate_execute cfg w (not_in_it s1) d n 0 (begin_instr s1 op)).
    apply RsbImmediate_sem; try lia; try exact W0; [apply ictx_begin; exact Hctx|apply cond_holds_begin; exact Hcond].
  - cbn [op2_valid]. split; [exact W0|lia].
  - exists s2. split; [exact A|]. split; [exact B|]. rewrite C, Hl. reflexivity.
Qed.
