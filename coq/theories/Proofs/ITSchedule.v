(* Proofs/ITSchedule.v — facts about the specification's ITSTATE machine (A2.5.2), proved for all
   256 values / all legal IT instructions by exhaustive evaluation lifted with forallb_forall.
   The domain is finite and its bound is in every statement. *)
From Coq Require Import ZArith List Bool Lia.
From ArmV Require Import Spec.Pseudocode Spec.Arch.
Import ListNotations.
Open Scope Z_scope.

Lemma forall_range (n : nat) (P : Z -> bool) :
  forallb P (map Z.of_nat (seq 0 n)) = true -> forall x, 0 <= x < Z.of_nat n -> P x = true.
Proof.
  intros H x Hx. rewrite forallb_forall in H. apply H. apply in_map_iff. exists (Z.to_nat x).
  split; [lia|]. apply in_seq. lia.
Qed.

Fixpoint iter_adv (k : nat) (it : Z) : Z := match k with O => it | S j => iter_adv j (ITAdvance it) end.
(* number of instructions covered by an IT instruction with this mask (mask <> 0) *)
Definition it_len (mask : Z) : nat :=
  if bit mask 0 =? 1 then 4%nat else if bit mask 1 =? 1 then 3%nat else if bit mask 2 =? 1 then 2%nat else 1%nat.
(* the condition the k-th instruction of the block must execute under *)
Definition sched_cond (firstcond mask : Z) (k : nat) : Z :=
  bits firstcond 3 1 * 2 + (match k with O => bit firstcond 0 | _ => bit mask (4 - Z.of_nat k) end).

Definition sched_ok (firstcond mask : Z) : bool :=
  let it := firstcond * 16 + mask in
  let n := it_len mask in
  forallb (fun k => (bits (iter_adv k it) 7 4 =? sched_cond firstcond mask k) && InITBlock (iter_adv k it)
                    && (LastInITBlock (iter_adv k it) || negb (Nat.eqb (S k) n))
                    && (negb (LastInITBlock (iter_adv k it)) || Nat.eqb (S k) n)) (seq 0 n)
  && (iter_adv n it =? 0).

Theorem it_schedule firstcond mask : 0 <= firstcond < 16 -> 1 <= mask < 16 -> sched_ok firstcond mask = true.
Proof.
  intros Hf Hm.
  pose proof (forall_range 16 (fun fc => forallb (fun m => (m =? 0) || sched_ok fc m) (map Z.of_nat (seq 0 16)))) as H.
  assert (C : forallb (fun fc => forallb (fun m => (m =? 0) || sched_ok fc m) (map Z.of_nat (seq 0 16)))
                (map Z.of_nat (seq 0 16)) = true) by (vm_compute; reflexivity).
  specialize (H C firstcond ltac:(lia)). cbv beta in H.
  pose proof (forall_range 16 (fun m => (m =? 0) || sched_ok firstcond m) H mask ltac:(lia)) as H2. cbv beta in H2.
  replace (mask =? 0) with false in H2 by lia. exact H2.
Qed.

(* ITAdvance on every 8-bit state: the base condition is kept while the block continues, the state
   becomes 0 exactly when the low three bits were 0, and it stays an 8-bit value *)
Definition adv_ok (it : Z) : bool :=
  let a := ITAdvance it in
  (0 <=? a) && (a <? 256)
  && (if bits it 2 0 =? 0 then a =? 0 else (bits a 7 5 =? bits it 7 5) && (bits a 4 0 =? (bits it 4 0 * 2) mod 32)).
Theorem it_advance_all it : 0 <= it < 256 -> adv_ok it = true.
Proof.
  intros H. apply (forall_range 256 adv_ok); [vm_compute; reflexivity|lia].
Qed.
