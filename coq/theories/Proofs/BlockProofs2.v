(* Proofs/BlockProofs2.v — the other addressing modes of LDM (decrement after / decrement before / increment before): the
   regenerated execute() equals the pseudocode of Spec/BlockFamily.v [LDMx] with MemA instantiated by the emulator's
   mem_a_get, by the loop lemma of Proofs/BlockProofs.v and one tail lemma shared by the four modes. *)
From Coq Require Import ZArith List Bool Lia ZifyBool.
From ArmV Require Import Lib.PyZ Lib.Monad Lib.Machine Spec.Pseudocode Spec.Expected Spec.Arch
  Proofs.BitLemmas Proofs.SpecFacts Proofs.BitsOps Proofs.BitsOps2 Proofs.ShiftOps Proofs.FieldsProofs Proofs.StateLemmas
  Proofs.CondProofs Proofs.GuardProofs Proofs.BankProofs Proofs.MachineOps Proofs.DPLemmas Proofs.DPTactics Proofs.BranchProofs
  Proofs.LSProofs Proofs.ExcProofs Spec.MachineView Spec.BlockTransfer Spec.BlockFamily Proofs.BlockProofs.
From Gen Require Import enums bits_ops shift regviews records hubm opsyn core exec.
Import ListNotations.
Open Scope Z_scope.
(* a sentence that runs this long no longer matches the code it was written for: fail instead of searching *)
Set Default Timeout 240.
Ltac Zify.zify_post_hook ::= Z.to_euclidean_division_equations.

Lemma load_loop_ldm rd regs : forall l a s, load_loop rd rset regs l a s = ldm_loop rd regs l a s.
Proof.
  induction l as [|i l IH]; intros a s; [reflexivity|]. cbn [load_loop ldm_loop].
  destruct (bit regs i =? 1); [|apply IH]. destruct (rd a 4 s); [apply IH|reflexivity].
Qed.

Lemma zrange_bounds' : forall n a i, In i (zrange a n) -> a <= i < a + Z.of_nat n.
Proof. induction n as [|n IH]; intros a i H; cbn [zrange] in H; [contradiction|]. destruct H as [<-|H]; [lia|]. apply IH in H. lia. Qed.

Section Block2.
  Variable cfg : config.
  Variable Inv : machine -> Prop.
  Hypothesis Inv_ictx : forall s, Inv s -> ictx cfg s.
  Hypothesis Inv_rset : forall s n v, Inv s -> 0 <= n <= 14 -> word v -> Inv (rset s n v).
  Hypothesis Inv_rd : forall s a d s1, Inv s -> ArmV6_mem_a_get cfg a 4 s = Ok d s1 -> Inv s1 /\ word d.
  Hypothesis Inv_wr : forall s a v s1, Inv s -> word v -> ArmV6_mem_a_set cfg a 4 v s = Ok tt s1 -> Inv s1.

  (* the register loop from [a0], the PC load, and the two write-back statements, for any written-back value [wbf R[n]] *)
  Lemma ldm_tail regs n wback a0 (wbf : Z -> Z) s :
    Inv s -> 0 <= n <= 14 -> word a0 ->
    bind (foldM (fun v_i v_address =>
             bind (if truthy (bit_at regs v_i)
                   then bind (ArmV6_mem_a_get cfg v_address 4) (fun t_4 => bind (Registers_set cfg v_i t_4) (fun _ => ret (add v_address 4 32)))
                   else ret v_address) (fun v_address => ret v_address)) (zrange 0 15) a0) (fun v_address =>
    bind (if truthy (bit_at regs 15)
          then bind (ArmV6_mem_a_get cfg v_address 4) (fun t_6 => bind (ArmV6_load_write_pc cfg t_6) (fun _ => ret tt)) else ret tt) (fun _ =>
    bind (if truthy wback && negb (truthy (bit_at regs n))
          then bind (Registers_get cfg n) (fun t_8 => bind (Registers_set cfg n (wbf t_8)) (fun _ => ret tt)) else ret tt) (fun _ =>
    bind (if truthy wback && truthy (bit_at regs n) then bind (Registers_set cfg n 0) (fun _ => ret tt) else ret tt) (fun _ => ret tt)))) s
    = match ldm_loop (ArmV6_mem_a_get cfg) regs (zrange 0 15) a0 s with
      | Exc e s' => Exc e s'
      | Ok address s1 =>
          match (if bit regs 15 =? 1 then
                   match ArmV6_mem_a_get cfg address 4 s1 with
                   | Exc e s' => Exc e s'
                   | Ok d s2 => Ok tt (apply_pc s2 (LoadWritePC (cfg_arch_version cfg) (cpsr_of s2) (cfg_jazelle_accepts_execution cfg) d))
                   end else Ok tt s1) with
          | Exc e s' => Exc e s'
          | Ok _ s3 => if wback =? 0 then Ok tt s3
                       else if bit regs n =? 0 then Ok tt (rset s3 n (wbf (rget s3 n))) else Ok tt (rset s3 n 0)
          end
      end.
  Proof.
    intros HI Hn Wa. pose proof (Inv_ictx _ HI) as H.
    assert (Hr15 : forall i, In i (zrange 0 15) -> 0 <= i <= 14).
    { intros i Hin. apply zrange_bounds' in Hin. change (Z.of_nat 15) with 15 in Hin. lia. }
    rewrite run_bind, (ldm_loop_code cfg Inv Inv_ictx Inv_rset Inv_rd Inv_wr regs (zrange 0 15) a0 s HI Hr15).
    destruct (ldm_loop (ArmV6_mem_a_get cfg) regs (zrange 0 15) a0 s) as [addr s1|e s1] eqn:EL; [|reflexivity].
    destruct (ldm_loop_inv cfg Inv Inv_rset Inv_rd Inv_wr regs _ _ _ _ _ HI Hr15 Wa EL) as [HI1 Wad].
    cbn beta iota. rewrite truthy_bit_at by lia.
    assert (Epc : forall k : unit -> M machine unit,
      bind (if bit regs 15 =? 1 then bind (ArmV6_mem_a_get cfg addr 4) (fun t_6 => bind (ArmV6_load_write_pc cfg t_6) (fun _ => ret tt)) else ret tt) k s1
      = match (if bit regs 15 =? 1 then
                 match ArmV6_mem_a_get cfg addr 4 s1 with
                 | Exc e s' => Exc e s'
                 | Ok d s2 => Ok tt (apply_pc s2 (LoadWritePC (cfg_arch_version cfg) (cpsr_of s2) (cfg_jazelle_accepts_execution cfg) d))
                 end else Ok tt s1) with Exc e s' => Exc e s' | Ok _ s3 => k tt s3 end).
    { intros k. destruct (bit regs 15 =? 1); [|reflexivity].
      rewrite bind_assoc_run, run_bind. destruct (ArmV6_mem_a_get cfg addr 4 s1) as [d s2|e s2] eqn:E2; [|reflexivity].
      destruct (Inv_rd _ _ _ _ HI1 E2) as [HI2 Wd]. pose proof (Inv_ictx _ HI2) as H2. cbn beta iota.
      rewrite bind_assoc_run, run_bind, load_write_pc_spec; [reflexivity|apply H2|apply H2|apply H2|exact Wd]. }
    rewrite Epc.
    match goal with |- match ?o with _ => _ end = _ => destruct o as [[] s3|e s3] eqn:E3 end; [|reflexivity].
    assert (H3 : ictx cfg s3).
    { destruct (bit regs 15 =? 1).
      - destruct (ArmV6_mem_a_get cfg addr 4 s1) as [d s2|e s2] eqn:E2; [|discriminate].
        destruct (Inv_rd _ _ _ _ HI1 E2) as [HI2 Wd]. inversion E3; subst. apply ictx_load_write_pc; [apply Inv_ictx; exact HI2|exact Wd].
      - inversion E3; subst. apply Inv_ictx. exact HI1. }
    clear Epc. rewrite truthy_bit_at by lia. unfold truthy.
    pose proof (bit01 regs n) as Bn.
    destruct (wback =? 0) eqn:Ew; cbn [negb andb]; [reflexivity|].
    destruct (bit regs n =? 1) eqn:E1; cbn [negb].
    - replace (bit regs n =? 0) with false by lia. rewrite bind_ret_run. rewrite !bind_ret_tt, reg_set; [reflexivity|lia|apply H3|apply H3].
    - replace (bit regs n =? 0) with true by lia.
      rewrite bind_assoc_run, (b_get cfg) by (try exact H3; lia). rewrite bind_assoc_run, (b_set cfg) by (try exact H3; lia).
      rewrite !bind_ret_run. reflexivity.
  Qed.

  Lemma word_sub32 a b : word (sub32 a b).
  Proof. unfold sub32, word. apply Z.mod_pos_bound. lia. Qed.

  Ltac ldm_mode HI Hc Hi Hn Hregs :=
    let H := fresh "H" in pose proof (Inv_ictx _ HI) as H;
    rewrite guard_pass by exact Hc; rewrite bind_ret_tt; cbv zeta; rewrite try_null_check by exact Hi;
    rewrite (b_get cfg) by (try exact H; lia); cbv zeta; rewrite py_range_15;
    rewrite !bit_count_spec by lia; rewrite ?sub_spec, ?add_spec.

  Theorem Ldmdb_sem instr wback regs n s :
    Inv s -> cond_holds s -> iset_of s <> 3 -> 0 <= n <= 14 -> 0 <= regs < 2 ^ 16 ->
    Ldmdb_execute cfg instr wback regs n s =
    LDMx (ArmV6_mem_a_get cfg) (cfg_arch_version cfg) (cfg_jazelle_accepts_execution cfg) 2 s wback regs n.
  Proof.
    intros HI Hc Hi Hn Hregs. unfold Ldmdb_execute. ldm_mode HI Hc Hi Hn Hregs.
    rewrite (ldm_tail regs n wback _ (fun t => sub t (4 * BitCount 16 regs) 32)) by (try assumption; apply Z.mod_pos_bound; lia).
    unfold LDMx, bt_start, bt_final, sub32. rewrite load_loop_ldm. cbv beta. rewrite ?sub_spec. reflexivity.
  Qed.

  Theorem LdmThumb_sem instr wback regs n s :
    Inv s -> cond_holds s -> iset_of s <> 3 -> 0 <= n <= 14 -> 0 <= regs < 2 ^ 16 ->
    LdmThumb_execute cfg instr wback regs n s =
    LDMx (ArmV6_mem_a_get cfg) (cfg_arch_version cfg) (cfg_jazelle_accepts_execution cfg) 0 s wback regs n.
  Proof.
    intros HI Hc Hi Hn Hregs. unfold LdmThumb_execute. ldm_mode HI Hc Hi Hn Hregs.
    rewrite (ldm_tail regs n wback _ (fun t => add t (4 * BitCount 16 regs) 32)) by (first [assumption | apply (word_rget cfg); [apply Inv_ictx; exact HI|lia]]).
    unfold LDMx, bt_start, bt_final, add32. rewrite load_loop_ldm. cbv beta. rewrite ?add_spec. reflexivity.
  Qed.

  Ltac ldm_mode2 HI Hc Hn Hregs :=
    let H := fresh "H" in pose proof (Inv_ictx _ HI) as H; cbv zeta;
    rewrite guard_pass by exact Hc; rewrite bind_ret_tt;
    rewrite (b_get cfg) by (try exact H; lia); cbv zeta; rewrite py_range_15;
    rewrite !bit_count_spec by lia; rewrite ?sub_spec, ?add_spec.

  Theorem Ldmda_sem instr wback regs n s :
    Inv s -> cond_holds s -> 0 <= n <= 14 -> 0 <= regs < 2 ^ 16 ->
    Ldmda_execute cfg instr wback regs n s =
    LDMx (ArmV6_mem_a_get cfg) (cfg_arch_version cfg) (cfg_jazelle_accepts_execution cfg) 1 s wback regs n.
  Proof.
    intros HI Hc Hn Hregs. unfold Ldmda_execute. ldm_mode2 HI Hc Hn Hregs.
    rewrite (ldm_tail regs n wback _ (fun t => sub t (4 * BitCount 16 regs) 32)) by (try assumption; apply Z.mod_pos_bound; lia).
    unfold LDMx, bt_start, bt_final, sub32, add32. rewrite load_loop_ldm. cbv beta. rewrite ?sub_spec. reflexivity.
  Qed.
  Theorem Ldmib_sem instr wback regs n s :
    Inv s -> cond_holds s -> 0 <= n <= 14 -> 0 <= regs < 2 ^ 16 ->
    Ldmib_execute cfg instr wback regs n s =
    LDMx (ArmV6_mem_a_get cfg) (cfg_arch_version cfg) (cfg_jazelle_accepts_execution cfg) 3 s wback regs n.
  Proof.
    intros HI Hc Hn Hregs. unfold Ldmib_execute. ldm_mode2 HI Hc Hn Hregs.
    rewrite (ldm_tail regs n wback _ (fun t => add t (4 * BitCount 16 regs) 32)) by (try assumption; apply Z.mod_pos_bound; lia).
    unfold LDMx, bt_start, bt_final, sub32, add32. rewrite load_loop_ldm. cbv beta. rewrite ?add_spec. reflexivity.
  Qed.

  (* ---------- POP (every access through MemA: unaligned_allowed = 0) ---------- *)
  Lemma b_get_sp' {A} (k : Z -> M machine A) s : ictx cfg s -> bind (Registers_get_sp cfg) k s = k (rget s 13) s.
  Proof. intros H. unfold Registers_get_sp. rewrite bind_assoc_run, (b_get cfg) by (try exact H; lia). reflexivity. Qed.
  Lemma b_set_sp' {A} v (k : unit -> M machine A) s : ictx cfg s -> bind (Registers_set_sp cfg v) k s = k tt (rset s 13 v).
  Proof. intros H. unfold Registers_set_sp. rewrite bind_assoc_run, (b_set cfg) by (try exact H; lia). reflexivity. Qed.

  Lemma pop_loop_code regs : forall l address s, Inv s -> (forall i, In i l -> 0 <= i <= 14) ->
    foldM (fun v_i v_address =>
             bind (if truthy (bit_at regs v_i)
                   then bind (if truthy 0 then bind (ArmV6_mem_u_get cfg v_address 4) (fun t_4 => ret t_4)
                              else bind (ArmV6_mem_a_get cfg v_address 4) (fun t_5 => ret t_5))
                          (fun c_6 => bind (Registers_set cfg v_i c_6) (fun _ => ret (add v_address 4 32)))
                   else ret v_address) (fun v_address => ret v_address)) l address s
    = ldm_loop (ArmV6_mem_a_get cfg) regs l address s.
  Proof.
    induction l as [|i l IH]; intros address s HI Hl; [reflexivity|].
    cbn [foldM ldm_loop]. assert (Hi : 0 <= i <= 14) by (apply Hl; left; reflexivity).
    rewrite truthy_bit_at by lia. change (truthy 0) with false. cbv iota. destruct (bit regs i =? 1).
    - rewrite !bind_assoc_run. rewrite run_bind. destruct (ArmV6_mem_a_get cfg address 4 s) as [d s1|e s1] eqn:E; [|reflexivity].
      destruct (Inv_rd _ _ _ _ HI E) as [HI1 Wd]. cbn beta iota. rewrite bind_ret_run.
      rewrite !bind_assoc_run, (b_set cfg) by (try apply Inv_ictx; try exact HI1; lia).
      rewrite ?bind_assoc_run, !bind_ret_run. rewrite add_spec. fold (add32 address 4).
      apply IH; [apply Inv_rset; assumption|intros j Hj; apply Hl; right; exact Hj].
    - rewrite !bind_assoc_run, !bind_ret_run. apply IH; [exact HI|intros j Hj; apply Hl; right; exact Hj].
  Qed.

  Lemma pop_body regs s : Inv s -> 0 <= regs < 2 ^ 16 ->
    bind (Registers_get_sp cfg) (fun t_3 =>
    bind (foldM (fun v_i v_address =>
             bind (if truthy (bit_at regs v_i)
                   then bind (if truthy 0 then bind (ArmV6_mem_u_get cfg v_address 4) (fun t_4 => ret t_4)
                              else bind (ArmV6_mem_a_get cfg v_address 4) (fun t_5 => ret t_5))
                          (fun c_6 => bind (Registers_set cfg v_i c_6) (fun _ => ret (add v_address 4 32)))
                   else ret v_address) (fun v_address => ret v_address)) (zrange 0 15) t_3) (fun v_address =>
    bind (if truthy (bit_at regs 15)
          then bind (if truthy 0
                     then bind (if substring v_address 1 0 =? 0
                                then bind (ArmV6_mem_u_get cfg v_address 4) (fun t_8 => bind (ArmV6_load_write_pc cfg t_8) (fun _ => ret tt))
                                else ret tt) (fun _ => ret tt)
                     else bind (ArmV6_mem_a_get cfg v_address 4) (fun t_10 => bind (ArmV6_load_write_pc cfg t_10) (fun _ => ret tt)))
                    (fun _ => ret tt)
          else ret tt) (fun _ =>
    bind (if negb (truthy (bit_at regs 13))
          then bind (Registers_get_sp cfg) (fun t_12 => bind (Registers_set_sp cfg (add t_12 (4 * bit_count regs 1 16) 32)) (fun _ => ret tt))
          else ret tt) (fun _ =>
    bind (if truthy (bit_at regs 13) then bind (Registers_set_sp cfg 0) (fun _ => ret tt) else ret tt) (fun _ => ret tt))))) s
    = POP (ArmV6_mem_a_get cfg) (cfg_arch_version cfg) (cfg_jazelle_accepts_execution cfg) s regs.
  Proof.
    intros HI Hregs. pose proof (Inv_ictx _ HI) as H. rewrite b_get_sp' by exact H.
    assert (Hr15 : forall i, In i (zrange 0 15) -> 0 <= i <= 14).
    { intros i Hin. apply zrange_bounds' in Hin. change (Z.of_nat 15) with 15 in Hin. lia. }
    assert (Wa : word (rget s 13)) by (apply (word_rget cfg); [exact H|lia]).
    rewrite run_bind, (pop_loop_code regs (zrange 0 15) (rget s 13) s HI Hr15).
    unfold POP. rewrite load_loop_ldm.
    destruct (ldm_loop (ArmV6_mem_a_get cfg) regs (zrange 0 15) (rget s 13) s) as [addr s1|e s1] eqn:EL; [|reflexivity].
    destruct (ldm_loop_inv cfg Inv Inv_rset Inv_rd Inv_wr regs _ _ _ _ _ HI Hr15 Wa EL) as [HI1 Wad].
    cbn beta iota. rewrite truthy_bit_at by lia. change (truthy 0) with false. cbv iota.
    assert (Epc : forall k : unit -> M machine unit,
      bind (if bit regs 15 =? 1 then bind (bind (ArmV6_mem_a_get cfg addr 4) (fun t_6 => bind (ArmV6_load_write_pc cfg t_6) (fun _ => ret tt))) (fun _ => ret tt) else ret tt) k s1
      = match (if bit regs 15 =? 1 then
                 match ArmV6_mem_a_get cfg addr 4 s1 with
                 | Exc e s' => Exc e s'
                 | Ok d s2 => Ok tt (apply_pc s2 (LoadWritePC (cfg_arch_version cfg) (cpsr_of s2) (cfg_jazelle_accepts_execution cfg) d))
                 end else Ok tt s1) with Exc e s' => Exc e s' | Ok _ s3 => k tt s3 end).
    { intros k. destruct (bit regs 15 =? 1); [|reflexivity].
      rewrite !bind_assoc_run, run_bind. destruct (ArmV6_mem_a_get cfg addr 4 s1) as [d s2|e s2] eqn:E2; [|reflexivity].
      destruct (Inv_rd _ _ _ _ HI1 E2) as [HI2 Wd]. pose proof (Inv_ictx _ HI2) as H2. cbn beta iota.
      rewrite !bind_assoc_run, run_bind, load_write_pc_spec; [reflexivity|apply H2|apply H2|apply H2|exact Wd]. }
    rewrite Epc.
    match goal with |- match ?o with _ => _ end = _ => destruct o as [[] s3|e s3] eqn:E3 end; [|reflexivity].
    assert (H3 : ictx cfg s3).
    { destruct (bit regs 15 =? 1).
      - destruct (ArmV6_mem_a_get cfg addr 4 s1) as [d s2|e s2] eqn:E2; [|discriminate].
        destruct (Inv_rd _ _ _ _ HI1 E2) as [HI2 Wd]. inversion E3; subst. apply ictx_load_write_pc; [apply Inv_ictx; exact HI2|exact Wd].
      - inversion E3; subst. apply Inv_ictx. exact HI1. }
    clear Epc. rewrite !truthy_bit_at by lia. rewrite bit_count_spec by lia.
    pose proof (bit01 regs 13) as B13.
    destruct (bit regs 13 =? 1) eqn:E1; cbn [negb].
    - replace (bit regs 13 =? 0) with false by lia. rewrite bind_ret_run. rewrite ?bind_assoc_run. rewrite b_set_sp' by exact H3. reflexivity.
    - replace (bit regs 13 =? 0) with true by lia.
      rewrite bind_assoc_run, b_get_sp' by exact H3. rewrite bind_assoc_run, b_set_sp' by exact H3.
      rewrite !bind_ret_run. rewrite add_spec. reflexivity.
  Qed.

  Theorem PopArm_sem instr regs s :
    Inv s -> cond_holds s -> iset_of s <> 3 -> 0 <= regs < 2 ^ 16 ->
    PopArm_execute cfg instr regs 0 s = POP (ArmV6_mem_a_get cfg) (cfg_arch_version cfg) (cfg_jazelle_accepts_execution cfg) s regs.
  Proof.
    intros HI Hc Hi Hregs. unfold PopArm_execute. rewrite guard_pass by exact Hc. rewrite bind_ret_tt. cbv zeta.
    rewrite try_null_check by exact Hi. rewrite py_range_15. apply pop_body; assumption.
  Qed.
  Theorem PopThumb_sem instr regs s :
    Inv s -> cond_holds s -> iset_of s <> 3 -> 0 <= regs < 2 ^ 16 ->
    PopThumb_execute cfg instr regs 0 s = POP (ArmV6_mem_a_get cfg) (cfg_arch_version cfg) (cfg_jazelle_accepts_execution cfg) s regs.
  Proof.
    intros HI Hc Hi Hregs. unfold PopThumb_execute. rewrite guard_pass by exact Hc. rewrite bind_ret_tt. cbv zeta.
    rewrite try_null_check by exact Hi. rewrite py_range_15. apply pop_body; assumption.
  Qed.
End Block2.
