(* Proofs/StepProofs.v — one emulate_cycle as the composition of its stages, and the whole step of an instruction whose
   condition fails. *)
Set Default Timeout 240.
From Coq Require Import ZArith List Bool Lia ZifyBool.
From ArmV Require Import Lib.PyZ Lib.Monad Lib.Machine Spec.Pseudocode Spec.Arch Spec.MachineView Spec.Branches Spec.StepFrame
  Proofs.StateLemmas Proofs.CondProofs Proofs.GuardProofs Proofs.BranchProofs Proofs.ExcProofs.
From Gen Require Import enums bits_ops shift regviews records hubm opsyn core exec conc decoders step.
Import ListNotations.
Open Scope Z_scope.

(* fetch, decode and operand extraction succeeded: what is left is the body and the PC advance *)
Definition exec_and_advance (cfg : config) (op : opcode) : M machine unit :=
  bind (ArmV6_execute_instruction cfg (Some op)) (fun _ => ArmV6_increment_pc_if_needed).

Theorem step_compose cfg s w s1 cls op :
  ArmV6_fetch_instruction cfg s = Ok w s1 ->
  ArmV6_decode_instruction w s1 = Ok (Some cls) s1 ->
  from_bitarray_dispatch cfg cls w s1 = Ok (Some op) s1 ->
  ArmV6_emulate_cycle cfg s = dispatch cfg (exec_and_advance cfg op s1).
Proof.
  intros Hf Hd Hb. rewrite emulate_cycle_dispatch. f_equal. unfold cycle_body.
  rewrite run_bind, Hf. cbv zeta. rewrite run_bind, Hd. cbn [negb unsome]. cbv iota.
  rewrite run_bind, Hb. cbv iota. cbn [unsome]. unfold exec_and_advance.
  unfold bind, ret.
  match goal with |- match ?a with Ok _ _ => _ | Exc _ _ => _ end = match ?b with Ok _ _ => _ | Exc _ _ => _ end => change a with b end.
  destruct (ArmV6_execute_instruction cfg (Some op) s1) as [[] s2|e s2]; [|reflexivity].
  destruct (ArmV6_increment_pc_if_needed s2) as [[] s3|e s3]; reflexivity.
Qed.

(* ---- the instruction body around execute(): bookkeeping, body, ITAdvance ---- *)
Lemma cond_of_begin s op : cond_of (begin_instr s op) = cond_of s.
Proof. reflexivity. Qed.
Lemma cpsr_of_begin s op : cpsr_of (begin_instr s op) = cpsr_of s.
Proof. reflexivity. Qed.
Lemma cond_fails_begin s op : cond_fails s -> cond_fails (begin_instr s op).
Proof. intros H. exact H. Qed.
Lemma cond_holds_begin s op : cond_holds s -> cond_holds (begin_instr s op).
Proof. intros H. exact H. Qed.

Lemma execute_instruction_shape cfg op s :
  ArmV6_execute_instruction cfg (Some op) s =
  match execute_dispatch cfg op (begin_instr s op) with
  | Ok _ s' => if InITBlock (psr_IT (cpsr_of s)) then bind Registers_it_advance (fun _ => ret tt) s' else Ok tt s'
  | Exc e s' => Exc e s'
  end.
Proof.
  unfold ArmV6_execute_instruction. unfold reset_changed, put_executed.
  change (Z.to_nat 16) with 16%nat.
  rewrite run_bind. cbv beta iota. rewrite run_bind. cbv beta iota.
  fold (begin_instr s op).
  rewrite run_bind, in_it_block_spec. cbv beta iota. rewrite cpsr_of_begin.
  rewrite run_bind. unfold truthy. destruct (InITBlock (psr_IT (cpsr_of s))); cbn [B2Z Z.eqb negb]; cbv iota.
  - cbn [enone]. unfold bind at 1. unfold lift at 1. unfold bind at 1.
    destruct (execute_dispatch cfg op (begin_instr s op)) as [[] s2|e s2]; [|reflexivity].
    unfold bind, ret. destruct (Registers_it_advance s2) as [[] s3|e s3]; reflexivity.
  - cbn [enone]. unfold bind at 1. unfold lift at 1. unfold bind at 1.
    destruct (execute_dispatch cfg op (begin_instr s op)) as [[] s2|e s2]; reflexivity.
Qed.

Lemma it_step_run s1 s : word (cpsr_of s) ->
  (if InITBlock (psr_IT (cpsr_of s1)) then bind Registers_it_advance (fun _ => ret tt) s else Ok tt s) = Ok tt (it_step_after s1 s).
Proof.
  intros Hw. unfold it_step_after. destruct (InITBlock (psr_IT (cpsr_of s1))); [|reflexivity].
  rewrite run_bind, it_advance_spec by exact Hw. reflexivity.
Qed.
Lemma it_step_after_same s : it_step_after s s = it_step s.
Proof. reflexivity. Qed.

(* the body ran to completion in state s2: ITAdvance, then the PC advance unless the body wrote the PC *)
Theorem step_completes cfg s w s1 cls op s2 :
  ArmV6_fetch_instruction cfg s = Ok w s1 ->
  ArmV6_decode_instruction w s1 = Ok (Some cls) s1 ->
  from_bitarray_dispatch cfg cls w s1 = Ok (Some op) s1 ->
  execute_dispatch cfg op (begin_instr s1 op) = Ok tt s2 ->
  word (cpsr_of s2) -> length (changed s2) = 16%nat ->
  ArmV6_emulate_cycle cfg s = Ok tt (AdvancePC (it_step_after s1 s2)).
Proof.
  intros Hf Hd Hb He Hw Hl. rewrite (step_compose cfg s w s1 cls op Hf Hd Hb). unfold exec_and_advance.
  rewrite run_bind, execute_instruction_shape, He. rewrite it_step_run by exact Hw.
  rewrite increment_pc_spec; [reflexivity|].
  unfold it_step_after. destruct (InITBlock _); [|exact Hl]. exact Hl.
Qed.

(* the whole step of an instruction whose condition fails: nothing but the PC, ITSTATE and the emulator's bookkeeping *)
Theorem step_cond_fails cfg s w s1 cls c fl :
  ArmV6_fetch_instruction cfg s = Ok w s1 ->
  ArmV6_decode_instruction w s1 = Ok (Some cls) s1 ->
  from_bitarray_dispatch cfg cls w s1 = Ok (Some (c, fl)) s1 ->
  In c all_opcode_codes -> is_conditional_class c = true -> cond_fails s1 -> word (cpsr_of s1) ->
  ArmV6_emulate_cycle cfg s = Ok tt (SkipInstr s1 (c, fl)).
Proof.
  intros Hf Hd Hb Hin Hc Hcf Hw. unfold SkipInstr.
  change (it_step (begin_instr s1 (c, fl))) with (it_step_after s1 (begin_instr s1 (c, fl))).
  apply (step_completes cfg s w s1 cls (c, fl) (begin_instr s1 (c, fl)) Hf Hd Hb); try reflexivity; [|exact Hw].
  apply guard_all_classes; [exact Hin|exact Hc|]. apply cond_fails_begin. exact Hcf.
Qed.

(* what SkipInstr changes: the PC moves on by the instruction length (modulo 2^32), ITSTATE by one step; every other
   register, every other system register and field, and memory are left alone *)
Lemma it_step_R s : R (it_step s) = R s.
Proof. unfold it_step. destruct (InITBlock _); reflexivity. Qed.
Lemma it_step_changed s : changed (it_step s) = changed s.
Proof. unfold it_step. destruct (InITBlock _); reflexivity. Qed.
Lemma it_step_mem s : mem (it_step s) = mem s.
Proof. unfold it_step. destruct (InITBlock _); reflexivity. Qed.
Lemma it_step_len s : opcode_len (it_step s) = opcode_len s.
Proof. unfold it_step. destruct (InITBlock _); reflexivity. Qed.

Lemma skip_unfold s op :
  SkipInstr s op = set_R (it_step (begin_instr s op)) (setl (R s) pc_index (add32 (pc_of s) (opcode_len s / 8))).
Proof.
  unfold SkipInstr, AdvancePC, pc_written. rewrite it_step_changed. cbn [begin_instr changed set_executed set_changed].
  change (getl (repeat 0 16) 15) with 0. cbn [Z.eqb negb]. cbv iota.
  rewrite it_step_R, it_step_len. unfold pc_of. rewrite it_step_R. reflexivity.
Qed.
Theorem skip_pc s op : (33 < length (R s))%nat -> pc_of (SkipInstr s op) = add32 (pc_of s) (opcode_len s / 8).
Proof.
  intros HL. rewrite skip_unfold. unfold pc_of at 1. cbn [R set_R]. apply getl_setl_same. unfold pc_index. lia.
Qed.
Theorem skip_regs s op k : 0 <= k -> k <> pc_index -> getl (R (SkipInstr s op)) k = getl (R s) k.
Proof. intros Hk Hne. rewrite skip_unfold. cbn [R set_R]. apply getl_setl_other; unfold pc_index in *; lia. Qed.
Theorem skip_mem s op : mem (SkipInstr s op) = mem s.
Proof. rewrite skip_unfold. cbn [mem set_R]. rewrite it_step_mem. reflexivity. Qed.
Theorem skip_sys s op i : 0 < i -> getl (sys (SkipInstr s op)) i = getl (sys s) i.
Proof.
  intros Hi. rewrite skip_unfold. cbn [sys set_R]. unfold it_step, it_advance_state. destruct (InITBlock _); [|reflexivity].
  cbn [sys set_sys]. apply getl_setl_other; lia.
Qed.
Theorem skip_cpsr s op : (0 < length (sys s))%nat ->
  cpsr_of (SkipInstr s op) =
  if InITBlock (psr_IT (cpsr_of s)) then with_IT (cpsr_of s) (ITAdvance (psr_IT (cpsr_of s))) else cpsr_of s.
Proof.
  intros HL. rewrite skip_unfold. unfold cpsr_of at 1. cbn [sys set_R]. unfold it_step. rewrite cpsr_of_begin.
  destruct (InITBlock _); [|reflexivity].
  unfold it_advance_state. cbn [sys set_sys begin_instr set_executed set_changed]. apply getl_setl_same. lia.
Qed.
