(* Proofs/VmsaXlate.v — TranslateAddressV (stage 1, short-descriptor format) against Spec/Vmsa.v. *)
From Coq Require Import ZArith List Bool Lia ZifyBool.
From ArmV Require Import Lib.PyZ Lib.Monad Lib.Machine Spec.Pseudocode Spec.Expected Spec.Arch Spec.MachineView Spec.Hub Spec.Memory Spec.Vmsa
  Proofs.BitLemmas Proofs.SpecFacts Proofs.BitsOps Proofs.BitsOps2 Proofs.FieldsProofs Proofs.StateLemmas
  Proofs.CondProofs Proofs.BankProofs Proofs.MachineOps Proofs.HubProofs Proofs.MemProofs Proofs.MpuProofs Proofs.VmsaProofs Proofs.VmsaWalk.
From Gen Require Import enums bits_ops shift regviews records hubm opsyn core.
Import ListNotations.
Open Scope Z_scope.
Ltac Zify.zify_post_hook ::= Z.to_euclidean_division_equations.

(* ---------- TranslateAddressV (stage 1, short descriptors, not Hyp) ---------- *)
Ltac vstep := repeat (first [rewrite bind_assoc_run | rewrite bind_ret_run | rewrite run_get_sys_bind | rewrite b_is_secure | rewrite b_is_hyp]; cbv beta iota).
Ltac rec_cbv := cbv beta zeta iota delta [new_FullAddress set_FullAddress_physicaladdress set_FullAddress_ns new_MemoryAttributes set_MemoryAttributes_type set_MemoryAttributes_innerattrs set_MemoryAttributes_outerattrs set_MemoryAttributes_innerhints set_MemoryAttributes_outerhints set_MemoryAttributes_innertransient set_MemoryAttributes_outertransient set_MemoryAttributes_shareable set_MemoryAttributes_outershareable new_AddressDescriptor set_AddressDescriptor_memattrs set_AddressDescriptor_paddress new_Permissions set_Permissions_ap set_Permissions_xn set_Permissions_pxn new_TLBRecord set_TLBRecord_perms set_TLBRecord_ng set_TLBRecord_domain set_TLBRecord_contiguousbit set_TLBRecord_level set_TLBRecord_blocksize set_TLBRecord_addrdesc FullAddress_physicaladdress FullAddress_ns MemoryAttributes_type MemoryAttributes_innerattrs MemoryAttributes_outerattrs MemoryAttributes_innerhints MemoryAttributes_outerhints MemoryAttributes_innertransient MemoryAttributes_outertransient MemoryAttributes_shareable MemoryAttributes_outershareable AddressDescriptor_memattrs AddressDescriptor_paddress Permissions_ap Permissions_xn Permissions_pxn TLBRecord_perms TLBRecord_ng TLBRecord_domain TLBRecord_contiguousbit TLBRecord_level TLBRecord_blocksize TLBRecord_addrdesc].
Definition flat_desc (secure : bool) (mva : Z) : AddressDescriptor :=
  mk_AddressDescriptor (mk_MemoryAttributes MemType_STRONGLY_ORDERED 0 0 0 0 0 0 1 1) (mk_FullAddress mva (if secure then 0 else 1)).
Definition xlate_ctx (cfg : config) (s : machine) : Prop :=
  vmsa cfg /\ no_lpae cfg /\ cfg_have_virt_ext cfg = 0 /\ word (getl (sys s) 23) /\
  mode_of s <> 26 /\ bit (sreg s i_ttbcr) 31 = 0 (* EAE *).

Lemma FCSE_word f va : word va -> word (FCSE f va).
Proof.
  intros Hva. unfold FCSE, word in *. destruct (bits va 31 25 =? 0); [|exact Hva].
  pose proof (bits_lt f 31 25 128 ltac:(lia) eq_refl). pose proof (bits_lt va 24 0 (2 ^ 25) ltac:(lia) eq_refl). lia.
Qed.

Lemma alignment_fault_v_sd cfg a w s : xlate_ctx cfg s -> 0 <= w <= 1 ->
  ArmV6_alignment_fault_v cfg a w 0 0 s
  = Exc (EDataAbort DAbort_ALIGNMENT 0) (vmsa_fault_state s (FCSE (sreg s i_fcseidr) a) VF_alignment 0 0 w).
Proof.
  intros (Hv & Hl & Hvirt & Wd & Hm & Heae) Hw. unfold ArmV6_alignment_fault_v. cbv zeta.
  rewrite run_get_sys_bind. cbv beta. unfold TTBCR_get_eae. rewrite flag_get by lia. unfold sreg, i_ttbcr in Heae. rewrite Heae.
  change (por 0 0) with 0. rewrite run_bind, fcse_translate_spec. cbv iota beta. rewrite run_bind.
  change DAbort_ALIGNMENT with (vf_dtype VF_alignment).
  rewrite (vmsa_data_abort cfg _ 0 0 0 w VF_alignment 0 0 0 s) by (try assumption; lia). reflexivity.
Qed.

Theorem translate_address_v_mmu_off cfg va priv w size wa s :
  xlate_ctx cfg s -> 0 <= w <= 1 -> bit (sreg s i_sctlr) 0 = 0 ->
  ArmV6_translate_address_v cfg va priv w size wa s =
  let mva := FCSE (sreg s i_fcseidr) va in
  if truthy wa then Ok (flat_desc (IsSecure (sysctx_of cfg s) (cpsr_of s)) mva) s
  else Exc (EDataAbort DAbort_ALIGNMENT 0) (vmsa_fault_state s (FCSE (sreg s i_fcseidr) mva) VF_alignment 0 0 w).
Proof.
  intros Hc Hw Hm0. pose proof Hc as (Hv & Hl & Hvirt & Wd & Hm & Heae).
  unfold ArmV6_translate_address_v. cbv zeta. rewrite run_bind, fcse_translate_spec. cbv iota beta.
  set (mva := FCSE (sreg s i_fcseidr) va).
  rewrite b_is_hyp. cbv beta. replace (mode_of s =? 26) with false by lia. change (B2Z false) with 0.
  rewrite run_get_sys_bind. cbv beta. rewrite run_get_sys_bind. cbv beta.
  change (truthy 0) with false. cbn [andb orb negb]. unfold SCTLR_get_m. rewrite flag_get by lia. unfold sreg, i_sctlr in Hm0. rewrite Hm0.
  change (truthy 0) with false. cbv iota. mnorm.
  unfold ArmV6_translate_address_v_s1_off. rec_cbv. unfold conf_have_virt_ext. rewrite Hvirt. change (negb (truthy 0)) with true. cbn [orb].
  vstep. rewrite truthy_B2Z''. rec_cbv.
  change (MemType_STRONGLY_ORDERED =? MemType_STRONGLY_ORDERED) with true. cbn [orb]. rewrite andb_true_r.
  destruct (truthy wa); cbn [negb]; cbv iota.
  - vstep. change (truthy 0) with false. cbv iota. vstep. cbn [andb]. cbv iota. vstep. reflexivity.
  - mnorm. rewrite run_bind. rewrite (alignment_fault_v_sd cfg mva w s Hc Hw). reflexivity.
Qed.

Definition xlate_result (cfg : config) (s : machine) (w : Z) (x : xlate) : outcome machine AddressDescriptor :=
  match x with
  | X_fault a vf lvl dom => Exc (EDataAbort (vf_dtype vf) 0) (vmsa_fault_state s a vf lvl dom w)
  | X_ok l => Ok (TLBRecord_addrdesc (leaf_record (IsSecure (sysctx_of cfg s) (cpsr_of s)) l
                                                   (tex_remap (sreg s i_prrr) (sreg s i_nmrr) (lf_texcb l) (lf_s l)))) s
  | X_flat mva => Ok (flat_desc (IsSecure (sysctx_of cfg s) (cpsr_of s)) mva) s
  end.

Theorem translate_address_v_spec cfg va priv w size wa s :
  xlate_ctx cfg s -> walk_ctx cfg s -> 0 <= w <= 1 -> word va ->
  ArmV6_translate_address_v cfg va priv w size wa s =
  xlate_result cfg s w (vmsa_translate (truthy (cfg_have_security_ext cfg)) s (leaf_device s) va (truthy priv) (truthy w) (truthy wa)).
Proof.
  intros Hc Hwc Hw Hva. destruct (bit (sreg s i_sctlr) 0 =? 0) eqn:EM.
  { rewrite translate_address_v_mmu_off by (try assumption; lia). unfold vmsa_translate. rewrite EM. cbv zeta.
    destruct (truthy wa); reflexivity. }
  pose proof Hc as (Hv & Hl & Hvirt & Wd & Hm & Heae).
  unfold ArmV6_translate_address_v. cbv zeta. rewrite run_bind, fcse_translate_spec. cbv iota beta.
  unfold vmsa_translate. rewrite EM. set (mva := FCSE (sreg s i_fcseidr) va).
  assert (Hmva : word mva) by (apply FCSE_word; exact Hva).
  rewrite b_is_hyp. cbv beta. replace (mode_of s =? 26) with false by lia. change (B2Z false) with 0.
  rewrite run_get_sys_bind. cbv beta. rewrite run_get_sys_bind. cbv beta.
  change (truthy 0) with false. cbn [andb orb negb]. unfold SCTLR_get_m. rewrite flag_get by lia. rewrite truthy_bit'.
  pose proof (bit01 (sreg s i_sctlr) 0) as HM01. unfold sreg, i_sctlr in EM, HM01. replace (bit (getl (sys s) 11) 0 =? 1) with true by lia.
  cbv iota. vstep. unfold TTBCR_get_eae. rewrite flag_get by lia. unfold sreg, i_ttbcr in Heae. rewrite Heae. change (por 0 0) with 0.
  change (truthy 0) with false. cbv iota. vstep.
  rewrite run_bind, (walk_sd_spec cfg mva w size s Hwc Hw Hmva).
  destruct (sd_walk (truthy (cfg_have_security_ext cfg)) s mva) as [vf lvl dom|l] eqn:EW; [reflexivity|].
  destruct (sd_walk_leaf_ranges _ _ _ _ EW) as (Rdom & Rlvl & Rap & Rs).
  cbv iota beta. vstep.
  set (ma := tex_remap (sreg s i_prrr) (sreg s i_nmrr) (lf_texcb l) (lf_s l)).
  set (sec := IsSecure (sysctx_of cfg s) (cpsr_of s)).
  assert (Ety : MemoryAttributes_type (AddressDescriptor_memattrs (TLBRecord_addrdesc (leaf_record sec l ma))) = MemoryAttributes_type ma)
    by (destruct ma; reflexivity).
  rewrite Ety. unfold leaf_device. fold ma. rewrite (orb_comm (MemoryAttributes_type ma =? MemType_DEVICE)).
  destruct (negb (truthy wa) && ((MemoryAttributes_type ma =? MemType_STRONGLY_ORDERED) || (MemoryAttributes_type ma =? MemType_DEVICE))).
  { vstep. rewrite run_bind, (alignment_fault_v_sd cfg mva w s Hc Hw). reflexivity. }
  vstep. change (truthy 1) with true. cbv iota. vstep.
  change (TLBRecord_domain (leaf_record sec l ma)) with (lf_domain l). change (TLBRecord_level (leaf_record sec l ma)) with (lf_level l).
  change (TLBRecord_perms (leaf_record sec l ma)) with (mk_Permissions (lf_ap l) (lf_xn l) (lf_pxn l)).
  rewrite run_bind, check_domain_vmsa by (try assumption; lia).
  set (df := dacr_field (sreg s i_dacr) (lf_domain l)).
  destruct df as [|p|p] eqn:Edf.
  - reflexivity.
  - destruct p as [p|p|]; cbv iota beta.
    + (* 3 or more: manager / reserved *) vstep. change (truthy 0) with false. cbv iota. vstep.
      unfold conf_have_virt_ext. rewrite Hvirt. change (truthy 0) with false. cbn [andb]. cbv iota. vstep.
      destruct p; reflexivity.
    + vstep. change (truthy 0) with false. cbv iota. vstep.
      unfold conf_have_virt_ext. rewrite Hvirt. change (truthy 0) with false. cbn [andb]. cbv iota. vstep.
      destruct p; reflexivity.
    + (* client *) vstep. change (truthy 1) with true. cbv iota. unfold lift, eunbound. vstep.
      rewrite run_bind, check_permission_vmsa by (try assumption; cbn [Permissions_ap]; lia).
      cbn [Permissions_ap].
      destruct (vmsa_ap_denies (bit (sreg s i_sctlr) 29 =? 1) (lf_ap l) (truthy priv) (truthy w)); [reflexivity|].
      cbv iota beta. vstep. unfold conf_have_virt_ext. rewrite Hvirt. change (truthy 0) with false. cbn [andb]. cbv iota. vstep. reflexivity.
  - exfalso. unfold df, dacr_field in Edf. pose proof (bits_lt (sreg s i_dacr) (2 * lf_domain l + 1) (2 * lf_domain l) 4 ltac:(lia)
      ltac:(replace (2 * lf_domain l + 1 - 2 * lf_domain l + 1) with 2 by lia; reflexivity)). lia.
Qed.

(* ---------- the executable driver of the correspondence check computes the same outcome ---------- *)
From ArmV Require Import Corr.VmsaSpecRun.
Lemma spec_run_eq cfg s va priv w wa : cfg_have_virt_ext cfg = 0 -> 0 <= w <= 1 ->
  translate_spec (cfg_have_security_ext cfg) s va (truthy priv) (truthy w) (truthy wa)
  = xlate_result cfg s w (vmsa_translate (truthy (cfg_have_security_ext cfg)) s (leaf_device s) va (truthy priv) (truthy w) (truthy wa)).
Proof.
  intros Hvirt Hw. unfold translate_spec, translate_spec_gen, xlate_result.
  change (fun l : sd_leaf => is_device (tex_remap (sreg s i_prrr) (sreg s i_nmrr) (lf_texcb l) (lf_s l))) with (leaf_device s).
  assert (Et : negb (cfg_have_security_ext cfg =? 0) = truthy (cfg_have_security_ext cfg)) by reflexivity. rewrite Et.
  assert (Es : secure_of (cfg_have_security_ext cfg) s = IsSecure (sysctx_of cfg s) (cpsr_of s)) by reflexivity. rewrite Es.
  assert (Ew : (if truthy w then 1 else 0) = w) by (assert (w = 0 \/ w = 1) as [->| ->] by lia; reflexivity). rewrite Ew.
  destruct (vmsa_translate _ _ _ _ _ _ _) as [a vf lvl dom|l|mva]; reflexivity.
Qed.
