"""C16 — memory hub."""
import common as C
from framework import Unit

IMPORTS = 'From ArmV Require Import Spec.Hub Corr.HubModelRun.\nFrom Gen Require Import records hubm.'
SPEC_IMPORTS = 'From ArmV Require Import Spec.Hub Corr.HubSpecRun.'
LEVEL_NOTE = ('bytearray slices / struct.pack / struct.unpack are modelled by Lib/Machine.v '
              '(py_slice, py_slice_assign, struct_pack, struct_unpack); the device payload is RAM only')


def gen_devices(rng):
    kind = rng.randrange(6)
    if kind == 0:
        devs = [[0, 8, 8]]
    elif kind == 1:
        devs = [[0, 8, 8], [8, 16, 8]]                 # adjacent
    elif kind == 2:
        devs = [[4, 11, 7], [32, 37, 5]]               # odd sizes, gap
    elif kind == 3:
        devs = [[0, 16, 16], [8, 24, 16]]              # overlapping: first match wins
    elif kind == 4:
        devs = [[0x1000, 0x1010, 16], [0, 3, 3], [0x100C, 0x1014, 8]]
    else:
        n = rng.randrange(1, 4)
        devs = []
        for _ in range(n):
            b = rng.randrange(0, 40)
            sz = rng.randrange(1, 13)
            devs.append([b, b + sz, sz])
    out = []
    for (b, e, sz) in devs:
        out.append([b, e, [rng.getrandbits(8) for _ in range(sz)]])
    return out


def gen_ops(rng, devs, n):
    ops = []
    lo = min(d[0] for d in devs) - 2
    hi = max(d[1] for d in devs) + 2
    edges = []
    for d in devs:
        edges += [d[0] - 1, d[0], d[1] - 1, d[1], d[1] - 2, d[1] - 3, d[1] - 4, d[1] - 7, d[1] - 8]
    for _ in range(n):
        size = rng.choice([1, 2, 4, 8]) if rng.random() < 0.93 else rng.choice([0, 3, 5, 16])
        pa = rng.choice(edges) if rng.random() < 0.5 else rng.randrange(lo, hi + 1)
        if rng.random() < 0.5:
            ops.append(['r', pa, size])
        else:
            if rng.random() < 0.92 and size > 0:
                v = rng.getrandbits(8 * size)
            else:
                v = rng.choice([-1, 1 << (8 * max(size, 1)), (1 << (8 * max(size, 1))) + 5])
            ops.append(['w', pa, size, v])
    return ops


def coq_dev(d):
    return f'(mk_device {C.zc(d[0])} {C.zc(d[1])} [{"; ".join(map(str, d[2]))}])'


def coq_ops(ops):
    out = []
    for o in ops:
        if o[0] == 'r':
            out.append(f'HRead {C.zc(o[1])} {C.zc(o[2])}')
        else:
            out.append(f'HWrite {C.zc(o[1])} {C.zc(o[2])} {C.zc(o[3])}')
    return '[' + '; '.join(out) + ']'


def cases(rng, tier):
    n = 250 if tier == 'quick' else 4000
    out = []
    for i in range(n):
        devs = gen_devices(rng)
        ops = gen_ops(rng, devs, rng.randrange(1, 9))
        h = '[' + '; '.join(coq_dev(d) for d in devs) + ']'
        o = coq_ops(ops)
        label = 'err' if any((op[2] not in (1, 2, 4, 8)) or (op[0] == 'w' and not (0 <= op[3] < (1 << (8 * max(op[2], 0))))) for op in ops) else 'valid'
        out.append({'impl': {'kind': 'hub', 'devices': devs, 'ops': ops},
                    'model': f'(model_hub_history {o} {h})', 'spec': f'(spec_hub_history {o} {h})',
                    'label': label, 'nontrivial': True})
    return out


def units():
    thms = ['C16_lookup', 'C16_read', 'C16_write', 'C16_bad_size', 'C16_bad_value', 'C16_history',
            'C16_shape_invariant', 'C16_write_bytes', 'C16_write_other_device', 'C16_store_load']
    needs = ['memory_controller_hub.MemoryControllerHub.__getitem__', 'memory_controller_hub.MemoryControllerHub.__setitem__',
             'memory_controller_hub.MemoryControllerHub.get_memory_by_address', 'memory_types.RAM.read',
             'memory_types.RAM.write', 'memory_controller_hub.to_int', 'memory_controller_hub.from_int']
    return [Unit('hub', thms, ['Proofs/HubProofs.v'], needs, cases, IMPORTS, SPEC_IMPORTS)]
