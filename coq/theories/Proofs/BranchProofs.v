(* Proofs/BranchProofs.v — execute() of the branch classes equals Spec/Branches.v; the offsets assembled by the
   concrete encodings are the sign-extended fields. *)
From Coq Require Import ZArith List Bool Lia ZifyBool.
From ArmV Require Import Lib.PyZ Lib.Monad Lib.Machine Spec.Pseudocode Spec.Expected Spec.Arch
  Proofs.BitLemmas Proofs.SpecFacts Proofs.BitsOps Proofs.BitsOps2 Proofs.ShiftOps Proofs.FieldsProofs Proofs.StateLemmas
  Proofs.CondProofs Proofs.GuardProofs Proofs.BankProofs Proofs.MachineOps Proofs.DPLemmas Proofs.DPTactics Spec.Branches.
From Gen Require Import enums bits_ops shift regviews records hubm opsyn core exec conc.
Import ListNotations.
Open Scope Z_scope.
Ltac Zify.zify_post_hook ::= Z.to_euclidean_division_equations.

(* ---------- monadic steps in continuation form ---------- *)
Lemma b_get {A} cfg n (k : Z -> M machine A) s : ictx cfg s -> 0 <= n <= 15 ->
  bind (Registers_get cfg n) k s = k (rget s n) s.
Proof. intros H Hn. rewrite run_bind, reg_get; [reflexivity|exact Hn|apply H]. Qed.
Lemma b_get_pc {A} cfg (k : Z -> M machine A) s : ictx cfg s -> bind (Registers_get_pc cfg) k s = k (rget s 15) s.
Proof. intros H. unfold Registers_get_pc. rewrite run_bind, (b_get cfg 15) by (try exact H; lia). reflexivity. Qed.
Lemma b_set_lr {A} cfg v (k : unit -> M machine A) s : ictx cfg s -> bind (Registers_set_lr cfg v) k s = k tt (rset s 14 v).
Proof. intros H. unfold Registers_set_lr. rewrite run_bind, run_bind, reg_set; [reflexivity|lia|apply H|apply H]. Qed.
Lemma b_cur_iset {A} (k : Z -> M machine A) s : bind Registers_current_instr_set k s = k (iset_of s) s.
Proof. rewrite run_bind, current_instr_set_spec. reflexivity. Qed.

Lemma ictx_rset cfg s n v : ictx cfg s -> 0 <= n <= 14 -> word v -> ictx cfg (rset s n v).
Proof.
  intros [[HL HC HR Hw Hm] HRw] Hn Hv. split; [split|]; try assumption.
  - unfold rset, mark_changed. cbn [changed set_R set_changed]. rewrite upd_length. exact HC.
  - unfold rset. cbn [R set_R]. unfold setl. rewrite upd_length. exact HR.
  - intros k Hk. unfold rset. cbn [R set_R]. pose proof (spec_ridx_range n (mode_of s) Hn).
    destruct (Z.eq_dec k (spec_ridx n (mode_of s))) as [->|Hne].
    + rewrite getl_setl_same by (rewrite HR; lia). exact Hv.
    + rewrite getl_setl_other by lia. apply HRw. exact Hk.
Qed.

Lemma rget_pc_rset s n v : 0 <= n <= 14 -> rget (rset s n v) 15 = rget s 15.
Proof.
  intros Hn. unfold rget. cbn [Z.eqb Pos.eqb]. unfold pc_of, rset, pc_index. cbn [R set_R].
  pose proof (spec_ridx_range n (mode_of s) Hn). rewrite getl_setl_other by lia. reflexivity.
Qed.
Lemma word_add32 a b : word (add32 a b).
Proof. unfold add32, word. apply Z.mod_pos_bound. lia. Qed.
Lemma word_sub32 a b : word (sub32 a b).
Proof. unfold sub32, word. apply Z.mod_pos_bound. lia. Qed.

(* ---------- execute() of the branch classes ---------- *)
Theorem B_exec cfg instr imm32 s : ictx cfg s -> cond_holds s ->
  B_execute cfg instr imm32 s = Ok tt (B_sem (cfg_jazelle_accepts_execution cfg) s imm32).
Proof.
  intros H Hc. unfold B_execute. rewrite guard_pass by exact Hc.
  rewrite bind_ret_tt, (b_get_pc cfg) by exact H.
  rewrite bind_ret_tt, branch_write_pc_spec; [reflexivity|apply H|apply H|apply add_range; lia].
Qed.

Theorem BX_exec cfg instr m s : ictx cfg s -> cond_holds s -> 0 <= m <= 15 ->
  Bx_execute cfg instr m s = Ok tt (BX_sem s m).
Proof.
  intros H Hc Hm. unfold Bx_execute. rewrite guard_pass by exact Hc.
  rewrite bind_ret_tt, (b_get cfg) by (try exact H; lia).
  rewrite bind_ret_tt, bx_write_pc_spec; [reflexivity|apply H|apply H|apply H|apply (word_rget cfg); [exact H|lia]].
Qed.

Theorem CBZ_exec cfg instr nonzero n imm32 s : ictx cfg s -> 0 <= n <= 14 ->
  Cbz_execute cfg instr nonzero n imm32 s = Ok tt (CBZ_sem (cfg_jazelle_accepts_execution cfg) s nonzero n imm32).
Proof.
  intros H Hn. unfold Cbz_execute, CBZ_sem. rewrite (b_get cfg) by (try exact H; lia).
  unfold truthy, b2z. destruct (Z.lxor nonzero (if rget s n =? 0 then 1 else 0) =? 0); cbn [negb].
  - reflexivity.
  - rewrite bind_ret_tt, (b_get_pc cfg) by exact H.
    rewrite bind_ret_tt, branch_write_pc_spec; [reflexivity|apply H|apply H|apply add_range; lia].
Qed.

Theorem BL_exec cfg instr tiset imm32 s : ictx cfg s -> cond_holds s -> 0 <= tiset < 4 ->
  BlBlxImmediate_execute cfg instr tiset imm32 s = Ok tt (BL_sem (cfg_jazelle_accepts_execution cfg) s tiset imm32).
Proof.
  intros H Hc Ht. unfold BlBlxImmediate_execute. rewrite guard_pass by exact Hc.
  rewrite bind_ret_tt, b_cur_iset. unfold BL_sem, BL_link, BL_target, enums.InstrSet_ARM, Arch.InstrSet_ARM.
  assert (Wpc : word (rget s 15)) by (apply (word_rget cfg); [exact H|lia]).
  set (lr := if iset_of s =? 0 then sub32 (rget s 15) 4 else Z.lor (rget s 15) 1).
  assert (Wlr : word lr).
  { unfold lr. destruct (_ =? 0); [apply word_sub32|]. apply word_lor; [exact Wpc|unfold word; lia]. }
  assert (E1 : forall k : unit -> M machine unit,
     bind (if iset_of s =? 0 then bind (Registers_get_pc cfg) (fun t => bind (Registers_set_lr cfg (sub t 4 32)) (fun _ => ret tt))
           else bind (Registers_get_pc cfg) (fun t => bind (Registers_set_lr cfg (Z.lor t 1)) (fun _ => ret tt))) k s
     = k tt (rset s 14 lr)).
  { intros k. unfold lr. destruct (iset_of s =? 0); rewrite bind_assoc_run, (b_get_pc cfg) by exact H;
      rewrite bind_assoc_run, (b_set_lr cfg) by exact H; reflexivity. }
  rewrite E1. set (s1 := rset s 14 lr). assert (H1 : ictx cfg s1) by (apply ictx_rset; [exact H|lia|exact Wlr]).
  set (tgt := if tiset =? 0 then add32 (Align (rget s 15) 4) imm32 else add32 (rget s 15) imm32).
  assert (E2 : forall k : Z -> M machine unit,
     bind (if tiset =? 0 then bind (Registers_get_pc cfg) (fun t => ret (add (align t 4) imm32 32))
           else bind (Registers_get_pc cfg) (fun t => ret (add t imm32 32))) k s1 = k tgt s1).
  { intros k. unfold tgt. destruct (tiset =? 0); rewrite bind_assoc_run, (b_get_pc cfg) by exact H1;
      rewrite bind_ret_run; rewrite ?align_spec; unfold s1; rewrite rget_pc_rset by lia; reflexivity. }
  rewrite E2. rewrite run_bind, select_instr_set_spec; [|apply H1|apply H1|exact Ht]. cbn beta iota.
  rewrite bind_ret_tt, branch_write_pc_spec; [reflexivity| | |].
  - unfold with_cpsr. cbn [sys set_sys]. unfold setl. rewrite upd_length. apply H1.
  - apply H1.
  - unfold tgt. destruct (tiset =? 0); apply word_add32.
Qed.

Theorem BLXr_exec cfg instr m s : ictx cfg s -> cond_holds s -> 0 <= m <= 15 ->
  BlxRegister_execute cfg instr m s = Ok tt (BLXr_sem s m).
Proof.
  intros H Hc Hm. unfold BlxRegister_execute. rewrite guard_pass by exact Hc.
  rewrite bind_ret_tt, (b_get cfg) by (try exact H; lia). cbv zeta. rewrite b_cur_iset.
  unfold BLXr_sem, BLXr_link, enums.InstrSet_ARM, Arch.InstrSet_ARM.
  assert (Wt : word (rget s m)) by (apply (word_rget cfg); [exact H|lia]).
  set (lr := if iset_of s =? 0 then sub32 (rget s 15) 4 else insert (sub32 (rget s 15) 2) 0 0 1).
  assert (Wlr : word lr).
  { unfold lr. destruct (_ =? 0); [apply word_sub32|]. apply word_insert_bit; [apply word_sub32|lia|lia]. }
  assert (E1 : forall k : unit -> M machine unit,
     bind (if iset_of s =? 0 then bind (Registers_get_pc cfg) (fun t => bind (Registers_set_lr cfg (sub t 4 32)) (fun _ => ret tt))
           else bind (Registers_get_pc cfg) (fun t => bind (Registers_set_lr cfg (set_bit_at (sub t 2 32) 0 1)) (fun _ => ret tt))) k s
     = k tt (rset s 14 lr)).
  { intros k. unfold lr. destruct (iset_of s =? 0); rewrite bind_assoc_run, (b_get_pc cfg) by exact H;
      rewrite bind_assoc_run, (b_set_lr cfg) by exact H; [reflexivity|].
    rewrite set_bit_at_insert; [reflexivity|lia| |lia]. apply word_lt256. apply word_sub32. }
  rewrite E1. set (s1 := rset s 14 lr). assert (H1 : ictx cfg s1) by (apply ictx_rset; [exact H|lia|exact Wlr]).
  rewrite bind_ret_tt, bx_write_pc_spec; [reflexivity|apply H1|apply H1|apply H1|exact Wt].
Qed.

(* ---------- the offsets assembled by the concrete encodings ---------- *)
Definition imm_field (o : opcode) (k : nat) : Z := nth k (snd o) 0.
Lemma shiftl_mul a n : 0 <= n -> Z.shiftl a n = a * 2 ^ n.
Proof. intros. apply Z.shiftl_mul_pow2. exact H. Qed.

Theorem BA1_operands w : BA1_from_bitarray w = (code_B, [w; off_A1 w]).
Proof.
  unfold BA1_from_bitarray, off_A1. cbv zeta. rewrite substring_bits, shiftl_mul by lia.
  pose proof (bits_range w 23 0 ltac:(lia)). change (2 ^ (23 - 0 + 1)) with (2 ^ 24) in *. change (2 ^ 2) with 4.
  rewrite sign_extend_spec by lia. reflexivity.
Qed.
Theorem BLA1_operands w : BlBlxImmediateA1_from_bitarray w = (code_BlBlxImmediate, [w; 0; off_A1 w]).
Proof.
  unfold BlBlxImmediateA1_from_bitarray, off_A1. cbv zeta. rewrite substring_bits, shiftl_mul by lia.
  pose proof (bits_range w 23 0 ltac:(lia)). change (2 ^ (23 - 0 + 1)) with (2 ^ 24) in *. change (2 ^ 2) with 4.
  rewrite sign_extend_spec by lia. reflexivity.
Qed.
Theorem BLXA2_operands w : BlBlxImmediateA2_from_bitarray w = (code_BlBlxImmediate, [w; 1; off_BLX_A2 w]).
Proof.
  unfold BlBlxImmediateA2_from_bitarray, off_BLX_A2. cbv zeta. rewrite substring_bits, bit_at_bit, chain_spec, shiftl_mul by lia.
  pose proof (bits_range w 23 0 ltac:(lia)). pose proof (bit01 w 24). change (2 ^ (23 - 0 + 1)) with (2 ^ 24) in *. change (2 ^ 1) with 2.
  rewrite sign_extend_spec by lia. f_equal. f_equal. f_equal. f_equal. f_equal. lia.
Qed.

Lemma B_sem_mod jaz s imm : B_sem jaz s imm = B_sem jaz s (imm mod 2 ^ 32).
Proof. unfold B_sem, add32. rewrite Zplus_mod_idemp_r. reflexivity. Qed.

Lemma b_in_it {A} (k : Z -> M machine A) s : bind ArmV6_in_it_block k s = k (B2Z (InITBlock (psr_IT (cpsr_of s)))) s.
Proof. rewrite run_bind, in_it_block_spec. reflexivity. Qed.
Lemma b_last_in_it {A} (k : Z -> M machine A) s : bind ArmV6_last_in_it_block k s = k (B2Z (LastInITBlock (psr_IT (cpsr_of s)))) s.
Proof. rewrite run_bind, last_in_it_block_spec. reflexivity. Qed.
Lemma truthy_B2Z' c : truthy (B2Z c) = c.
Proof. destruct c; reflexivity. Qed.

Definition it_unpredictable (s : machine) : bool :=
  InITBlock (psr_IT (cpsr_of s)) && negb (LastInITBlock (psr_IT (cpsr_of s))).

Theorem BT1_operands w s :
  BT1_from_bitarray w s = Ok (if InITBlock (psr_IT (cpsr_of s)) then None else Some (code_B, [w; SInt (bits w 7 0 * 2) 9])) s
  /\ SInt (bits w 7 0 * 2) 9 mod 2 ^ 32 = off_T1 w.
Proof.
  split; [|reflexivity]. unfold BT1_from_bitarray. cbv zeta. rewrite b_in_it, truthy_B2Z'. rewrite substring_bits by lia.
  pose proof (bits_range w 7 0 ltac:(lia)). change (2 ^ (7 - 0 + 1)) with (2 ^ 8) in *.
  rewrite to_signed_SInt by lia. destruct (InITBlock _); reflexivity.
Qed.
Theorem BT2_operands w s :
  BT2_from_bitarray w s = Ok (if it_unpredictable s then None else Some (code_B, [w; off_T2 w])) s.
Proof.
  unfold BT2_from_bitarray, off_T2, it_unpredictable. cbv zeta. rewrite b_in_it, b_last_in_it, !truthy_B2Z'. rewrite substring_bits by lia.
  pose proof (bits_range w 10 0 ltac:(lia)). change (2 ^ (10 - 0 + 1)) with (2 ^ 11) in *.
  rewrite sign_extend_spec by lia. destruct (_ && _); reflexivity.
Qed.
Theorem BT3_operands w s :
  BT3_from_bitarray w s = Ok (if InITBlock (psr_IT (cpsr_of s)) then None else Some (code_B, [w; off_T3 w])) s.
Proof.
  unfold BT3_from_bitarray, off_T3. cbv zeta. rewrite b_in_it, truthy_B2Z'. rewrite !substring_bits, !bit_at_bit, !chain_spec, shiftl_mul by lia.
  pose proof (bits_range w 10 0 ltac:(lia)). pose proof (bits_range w 21 16 ltac:(lia)).
  pose proof (bit01 w 26). pose proof (bit01 w 11). pose proof (bit01 w 13).
  change (2 ^ (10 - 0 + 1)) with (2 ^ 11) in *. change (2 ^ (21 - 16 + 1)) with (2 ^ 6) in *.
  rewrite sign_extend_spec by lia.
  replace ((bit w 26 * 2 ^ 19 + (bit w 11 * 2 ^ 18 + (bit w 13 * 2 ^ 17 + (bits w 21 16 * 2 ^ 11 + bits w 10 0)))) * 2 ^ 1)
    with (bit w 26 * 2 ^ 20 + bit w 11 * 2 ^ 19 + bit w 13 * 2 ^ 18 + bits w 21 16 * 2 ^ 12 + bits w 10 0 * 2) by lia.
  destruct (InITBlock _); reflexivity.
Qed.

Lemma bit_not_1 x : 0 <= x <= 1 -> bit_not x 1 = 1 - x.
Proof. intros. assert (x = 0 \/ x = 1) as [-> | ->] by lia; reflexivity. Qed.
Lemma lxor_bit a b : 0 <= a <= 1 -> 0 <= b <= 1 -> 0 <= Z.lxor a b <= 1.
Proof. intros. assert (a = 0 \/ a = 1) as [-> | ->] by lia; assert (b = 0 \/ b = 1) as [-> | ->] by lia; cbn; lia. Qed.

Ltac t4_prep w :=
  rewrite ?substring_bits, ?bit_at_bit, ?chain_spec, ?shiftl_mul by lia;
  pose proof (bits_range w 10 0 ltac:(lia)); pose proof (bits_range w 25 16 ltac:(lia)); pose proof (bits_range w 10 1 ltac:(lia));
  pose proof (bit01 w 26); pose proof (bit01 w 11); pose proof (bit01 w 13);
  pose proof (lxor_bit (bit w 13) (bit w 26) ltac:(lia) ltac:(lia)); pose proof (lxor_bit (bit w 11) (bit w 26) ltac:(lia) ltac:(lia));
  change (2 ^ (10 - 0 + 1)) with (2 ^ 11) in *; change (2 ^ (25 - 16 + 1)) with (2 ^ 10) in *; change (2 ^ (10 - 1 + 1)) with (2 ^ 10) in *;
  rewrite !bit_not_1 by lia.

Theorem BT4_operands w s :
  BT4_from_bitarray w s = Ok (if it_unpredictable s then None else Some (code_B, [w; off_T4 w])) s.
Proof.
  unfold BT4_from_bitarray, off_T4, it_unpredictable. cbv zeta. rewrite b_in_it, b_last_in_it, !truthy_B2Z'. t4_prep w.
  rewrite sign_extend_spec by nia.
  replace (bit w 26 * 2 ^ 24 + ((1 - Z.lxor (bit w 13) (bit w 26)) * 2 ^ 23 + ((1 - Z.lxor (bit w 11) (bit w 26)) * 2 ^ 22 + (bits w 25 16 * 2 ^ 12 + bits w 10 0 * 2 ^ 1))))
    with (bit w 26 * 2 ^ 24 + (1 - Z.lxor (bit w 13) (bit w 26)) * 2 ^ 23 + (1 - Z.lxor (bit w 11) (bit w 26)) * 2 ^ 22 + bits w 25 16 * 2 ^ 12 + bits w 10 0 * 2) by lia.
  destruct (_ && _); reflexivity.
Qed.
Theorem BLT1_operands w s :
  BlBlxImmediateT1_from_bitarray w s = Ok (if it_unpredictable s then None else Some (code_BlBlxImmediate, [w; iset_of s; off_T4 w])) s.
Proof.
  unfold BlBlxImmediateT1_from_bitarray, off_T4, it_unpredictable. cbv zeta. rewrite b_cur_iset. cbv zeta. rewrite b_in_it, b_last_in_it, !truthy_B2Z'. t4_prep w.
  rewrite sign_extend_spec by nia.
  replace (bit w 26 * 2 ^ 24 + ((1 - Z.lxor (bit w 13) (bit w 26)) * 2 ^ 23 + ((1 - Z.lxor (bit w 11) (bit w 26)) * 2 ^ 22 + (bits w 25 16 * 2 ^ 12 + bits w 10 0 * 2 ^ 1))))
    with (bit w 26 * 2 ^ 24 + (1 - Z.lxor (bit w 13) (bit w 26)) * 2 ^ 23 + (1 - Z.lxor (bit w 11) (bit w 26)) * 2 ^ 22 + bits w 25 16 * 2 ^ 12 + bits w 10 0 * 2) by lia.
  destruct (_ && _); reflexivity.
Qed.
Theorem BLXT2_operands w s : iset_of s <> 3 -> bit w 0 = 0 ->
  BlBlxImmediateT2_from_bitarray w s = Ok (if it_unpredictable s then None else Some (code_BlBlxImmediate, [w; 0; off_BLX_T2 w])) s.
Proof.
  intros Hi H0. unfold BlBlxImmediateT2_from_bitarray, off_BLX_T2, it_unpredictable. cbv zeta. rewrite b_cur_iset.
  unfold enums.InstrSet_THUMB_EE, enums.InstrSet_ARM. replace (iset_of s =? 3) with false by lia. rewrite bit_at_bit, H0 by lia.
  change (false || truthy 0) with false. cbv iota. rewrite b_in_it, b_last_in_it, !truthy_B2Z'. t4_prep w.
  rewrite sign_extend_spec by nia.
  replace (bit w 26 * 2 ^ 24 + ((1 - Z.lxor (bit w 13) (bit w 26)) * 2 ^ 23 + ((1 - Z.lxor (bit w 11) (bit w 26)) * 2 ^ 22 + (bits w 25 16 * 2 ^ 12 + bits w 10 1 * 2 ^ 2))))
    with (bit w 26 * 2 ^ 24 + (1 - Z.lxor (bit w 13) (bit w 26)) * 2 ^ 23 + (1 - Z.lxor (bit w 11) (bit w 26)) * 2 ^ 22 + bits w 25 16 * 2 ^ 12 + bits w 10 1 * 4) by lia.
  destruct (_ && _); reflexivity.
Qed.
Theorem BLXT2_undefined w s : iset_of s = 3 \/ bit w 0 = 1 -> BlBlxImmediateT2_from_bitarray w s = Exc EUndefined s.
Proof.
  intros Hc. unfold BlBlxImmediateT2_from_bitarray. cbv zeta. rewrite b_cur_iset. unfold enums.InstrSet_THUMB_EE.
  rewrite bit_at_bit by lia. destruct Hc as [-> | ->]; [reflexivity|]. rewrite orb_true_r. reflexivity.
Qed.

(* CBZ/CBNZ: the architecture's offset is ZeroExtend(i:imm5:'0'); the code computes i:imm5:'00' — twice that.
   The first theorem states exactly what the code does, the second that it is not the architectural value. *)
Theorem CBZ_operands_actual w : CbzT1_from_bitarray w = (code_Cbz, [w; bit w 11; bits w 2 0; 2 * off_CBZ w]).
Proof.
  unfold CbzT1_from_bitarray, off_CBZ. cbv zeta. rewrite !substring_bits, !bit_at_bit, chain_spec, shiftl_mul by lia.
  f_equal. f_equal. f_equal. f_equal. f_equal. lia.
Qed.
Theorem CBZ_offset_refuted : exists w, 0 <= w < 2 ^ 16 /\ imm_field (CbzT1_from_bitarray w) 3 <> off_CBZ w.
Proof. exists 45344. split; [lia|]. vm_compute. discriminate. Qed.

(* ---------- sequential advance ---------- *)
Theorem increment_pc_spec s : length (changed s) = 16%nat ->
  ArmV6_increment_pc_if_needed s = Ok tt (AdvancePC s).
Proof.
  intros HL. unfold ArmV6_increment_pc_if_needed, AdvancePC, pc_written.
  rewrite run_bind. unfold get_changed, py_index. rewrite HL.
  cbn [Z.leb Z.ltb Z.compare Z.of_nat Pos.of_succ_nat Pos.succ Pos.compare Pos.compare_cont andb Z.to_nat].
  cbn beta iota. unfold truthy. change (nth (Pos.to_nat 15) (changed s) 0) with (getl (changed s) 15).
  destruct (getl (changed s) 15 =? 0); cbn [negb]; [|reflexivity].
  unfold ArmV6_this_instr_length, Registers_increment_pc. mred. unfold getR, putR, RName_PC.
  cbn [Z.leb Z.compare Pos.compare Pos.compare_cont andb]. mred. reflexivity.
Qed.

Theorem pc_read_spec cfg s : legal_mode cfg (mode_of s) ->
  Registers_get cfg 15 s = Ok ((pc_of s + (if iset_of s =? 0 then 8 else 4)) mod 2 ^ 32) s.
Proof. intros H. rewrite (reg_get cfg 15 s ltac:(lia) H). reflexivity. Qed.
