(* Proofs/LowestSweep2.v — lowest_set_bit_ref(x, 32) equals the expected lowest set bit (Spec/Expected.v) for every 16-bit x
   (an exhaustive evaluation, bound stated). *)
From Coq Require Import ZArith List Bool Lia ZifyBool.
From ArmV Require Import Lib.PyZ Spec.Pseudocode Spec.Expected Spec.BlockTransfer Proofs.LowestSweep.
From Gen Require Import bits_ops.
Import ListNotations.
Open Scope Z_scope.

Definition low_agrees2 (r : Z) : bool :=
  match lowest_set_bit_ref r 32, exp_lowest_set_bit r 32 with Some a, Some b => a =? b | _, _ => false end.
Lemma low_sweep2 : forallb low_agrees2 (zrange 0 (Z.to_nat 65536)) = true.
Proof. vm_compute. reflexivity. Qed.
Theorem lowest_set_bit_spec16 x : 0 <= x < 2 ^ 16 -> lowest_set_bit_ref x 32 = exp_lowest_set_bit x 32.
Proof.
  intros Hr. pose proof low_sweep2 as S. rewrite forallb_forall in S.
  assert (I : In x (zrange 0 (Z.to_nat 65536))) by (apply zrange_In; rewrite Z2Nat.id by lia; lia).
  specialize (S x I). unfold low_agrees2 in S. destruct (lowest_set_bit_ref x 32) as [a|]; [|discriminate].
  destruct (exp_lowest_set_bit x 32) as [b|]; [|discriminate]. apply Z.eqb_eq in S. rewrite S. reflexivity.
Qed.
