(* Proofs/CondProofs.v — CurrentCond / ConditionPassed / IT helpers of the translated ArmV6 and
   Registers equal Spec/Arch, for every machine state. *)
From Coq Require Import ZArith List Bool Lia ZifyBool.
From ArmV Require Import Lib.PyZ Lib.Monad Lib.Machine Spec.Pseudocode Spec.Expected Spec.Arch Spec.MachineView
  Proofs.BitLemmas Proofs.SpecFacts Proofs.BitsOps Proofs.BitsOps2 Proofs.ShiftOps Proofs.FieldsProofs Proofs.StateLemmas.
From Gen Require Import enums bits_ops shift regviews records hubm opsyn core.
From ArmV Require Export Spec.MachineView.
Import ListNotations.
Open Scope Z_scope.


Lemma run_get_opcode_w s : get_opcode_w s = Ok (opcode_w s) s. Proof. reflexivity. Qed.
Lemma run_get_opcode_len s : get_opcode_len s = Ok (opcode_len s) s. Proof. reflexivity. Qed.

Lemma CPSR_get_it_bits v : CPSR_get_it v = psr_IT v.
Proof. unfold CPSR_get_it, psr_IT. rewrite !get_slice by lia. rewrite chain_spec by lia. reflexivity. Qed.
Lemma CPSR_get_isetstate_bits v : CPSR_get_isetstate v = bit v 24 * 2 + bit v 5.
Proof. unfold CPSR_get_isetstate, AbstractRegister_getitem_int. rewrite !bit_at_bit by lia. rewrite chain_spec by lia. reflexivity. Qed.
Lemma flag_get v i : 0 <= i -> AbstractRegister_getitem_int v i = bit v i.
Proof. intros. unfold AbstractRegister_getitem_int. apply bit_at_bit. lia. Qed.

Lemma current_instr_set_spec s : Registers_current_instr_set s = Ok (iset_of s) s.
Proof. unfold Registers_current_instr_set. mstep. rewrite CPSR_get_isetstate_bits. reflexivity. Qed.

Theorem current_cond_spec s :
  ArmV6_current_cond s = Ok (CurrentCond (iset_of s) (opcode_w s) (opcode_len s) (psr_IT (cpsr_of s))) s.
Proof.
  unfold ArmV6_current_cond, Registers_current_instr_set.
  unfold enums.InstrSet_ARM. mrun;
    unfold CurrentCond, Arch.InstrSet_ARM, iset_of, cpsr_of, slot_cpsr in *;
    rewrite ?CPSR_get_isetstate_bits, ?CPSR_get_it_bits, ?substring_bits, ?bit_at_bit in * by lia;
    unfold truthy in *;
    split_ifs; try reflexivity; exfalso; lia.
Qed.

(* ---------- ConditionPassed: the 16 x 16 table, for every state ---------- *)
Lemma bit01 x i : bit x i = 0 \/ bit x i = 1.
Proof. pose proof (bit_range x i). lia. Qed.

Lemma cond_table_pure cond n z c v :
  0 <= cond < 16 -> (n = 0 \/ n = 1) -> (z = 0 \/ z = 1) -> (c = 0 \/ c = 1) -> (v = 0 \/ v = 1) ->
  (let higher := substring cond 3 1 in
   let r :=
     if higher =? 0 then z else if higher =? 1 then c else if higher =? 2 then n else if higher =? 3 then v
     else if higher =? 4 then (if truthy (b2z (truthy c)) then b2z (negb (truthy z)) else b2z (truthy c))
     else if higher =? 5 then b2z (n =? v)
     else if higher =? 6 then (if truthy (b2z (n =? v)) then b2z (negb (truthy z)) else b2z (n =? v))
     else if higher =? 7 then 1 else 0 in
   if truthy (lower_chunk cond 1) && negb (cond =? 15) then b2z (negb (truthy r)) else r)
  = B2Z (ConditionHolds cond n z c v).
Proof.
  intros Hc Hn Hz Hcc Hv.
  assert (C : cond = 0 \/ cond = 1 \/ cond = 2 \/ cond = 3 \/ cond = 4 \/ cond = 5 \/ cond = 6 \/ cond = 7 \/
              cond = 8 \/ cond = 9 \/ cond = 10 \/ cond = 11 \/ cond = 12 \/ cond = 13 \/ cond = 14 \/ cond = 15) by lia.
  destruct Hn as [-> | ->]; destruct Hz as [-> | ->]; destruct Hcc as [-> | ->]; destruct Hv as [-> | ->];
    repeat (destruct C as [-> | C]; [vm_compute; reflexivity|]); subst cond; vm_compute; reflexivity.
Qed.

Lemma CurrentCond_range iset op len it : 0 <= CurrentCond iset op len it < 16.
Proof.
  unfold CurrentCond.
  pose proof (bits_range op 31 28 ltac:(lia)). pose proof (bits_range op 11 8 ltac:(lia)).
  pose proof (bits_range op 25 22 ltac:(lia)). pose proof (bits_range it 7 4 ltac:(lia)).
  change (2 ^ (31 - 28 + 1)) with 16 in *. change (2 ^ (11 - 8 + 1)) with 16 in *.
  change (2 ^ (25 - 22 + 1)) with 16 in *. change (2 ^ (7 - 4 + 1)) with 16 in *.
  split_ifs; lia.
Qed.

Definition cond_of (s : machine) : Z := CurrentCond (iset_of s) (opcode_w s) (opcode_len s) (psr_IT (cpsr_of s)).

Theorem condition_passed_spec s :
  ArmV6_condition_passed s =
  Ok (B2Z (ConditionHolds (cond_of s) (psr_N (cpsr_of s)) (psr_Z (cpsr_of s)) (psr_C (cpsr_of s)) (psr_V (cpsr_of s)))) s.
Proof.
  unfold ArmV6_condition_passed. rewrite run_bind, current_cond_spec. cbn beta iota. fold (cond_of s).
  pose proof (CurrentCond_range (iset_of s) (opcode_w s) (opcode_len s) (psr_IT (cpsr_of s))) as Rg. fold (cond_of s) in Rg.
  rewrite <- (cond_table_pure (cond_of s) (psr_N (cpsr_of s)) (psr_Z (cpsr_of s)) (psr_C (cpsr_of s)) (psr_V (cpsr_of s)) Rg
                (bit01 _ _) (bit01 _ _) (bit01 _ _) (bit01 _ _)).
  cbv zeta. unfold CPSR_get_z, CPSR_get_c, CPSR_get_n, CPSR_get_v. unfold cpsr_of, slot_cpsr.
  generalize (cond_of s) as cond. intro cond.
  mrun; rewrite ?flag_get in * by lia; unfold psr_N, psr_Z, psr_C, psr_V; reflexivity.
Qed.

(* ---------- IT-block helpers ---------- *)
Theorem in_it_block_spec s : ArmV6_in_it_block s = Ok (B2Z (InITBlock (psr_IT (cpsr_of s)))) s.
Proof.
  unfold ArmV6_in_it_block. mrun. fold slot_cpsr. fold (cpsr_of s). rewrite CPSR_get_it_bits, lower_chunk_mod by lia.
  unfold InITBlock, bits. rewrite Z.pow_0_r, Z.div_1_r. reflexivity.
Qed.
Theorem last_in_it_block_spec s : ArmV6_last_in_it_block s = Ok (B2Z (LastInITBlock (psr_IT (cpsr_of s)))) s.
Proof.
  unfold ArmV6_last_in_it_block. mrun. fold slot_cpsr. fold (cpsr_of s). rewrite CPSR_get_it_bits, lower_chunk_mod by lia.
  unfold LastInITBlock, bits. rewrite Z.pow_0_r, Z.div_1_r. reflexivity.
Qed.

(* ---------- ITAdvance ---------- *)
Lemma psr_IT_range p : 0 <= psr_IT p < 2 ^ 8.
Proof.
  unfold psr_IT. pose proof (bits_range p 15 10 ltac:(lia)). pose proof (bits_range p 26 25 ltac:(lia)).
  change (2 ^ (15 - 10 + 1)) with 64 in *. change (2 ^ (26 - 25 + 1)) with 4 in *. change (2 ^ 8) with 256. lia.
Qed.

Lemma it_advance_arith it : 0 <= it < 2 ^ 8 -> bits it 2 0 <> 0 ->
  set_substring it 4 0 (chain ((it mod 2 ^ 4 * 2 ^ 1 / 2 ^ 4) mod 2) ((it mod 2 ^ 4 * 2 ^ 1) mod 2 ^ 4) 4) = ITAdvance it.
Proof.
  intros Hit Hnz. unfold ITAdvance. replace (bits it 2 0 =? 0) with false by lia.
  rewrite chain_spec by lia.
  assert (Hcs : 0 <= (it mod 2 ^ 4 * 2 ^ 1 / 2 ^ 4) mod 2 * 2 ^ 4 + (it mod 2 ^ 4 * 2 ^ 1) mod 2 ^ 4 < 2 ^ (4 - 0 + 1)).
  { change (2 ^ (4 - 0 + 1)) with 32. change (2 ^ 4) with 16. change (2 ^ 1) with 2. lia. }
  rewrite set_substring_insert; [|lia|lia| |exact Hcs].
  - unfold exp_set_substring, insert, bits. change (2 ^ 8) with 256 in Hit.
    change (2 ^ (4 - 0 + 1)) with 32. change (2 ^ (7 - 5 + 1)) with 8. change (2 ^ 0) with 1.
    change (2 ^ 5) with 32. change (2 ^ 4) with 16. change (2 ^ 1) with 2. lia.
  - split; [lia|]. apply Z.lt_le_trans with (2 ^ 8); [lia|]. apply Z.pow_le_mono_r; lia.
Qed.

Theorem it_advance_spec s : word (cpsr_of s) ->
  Registers_it_advance s =
  Ok tt (set_sys s (setl (sys s) slot_cpsr (with_IT (cpsr_of s) (ITAdvance (psr_IT (cpsr_of s)))))).
Proof.
  unfold cpsr_of, slot_cpsr. intros Hw. unfold Registers_it_advance.
  set (p := getl (sys s) 0) in *.
  pose proof (psr_IT_range p) as Rit.
  mred. fold p. rewrite !CPSR_get_it_bits. rewrite lower_chunk_mod by lia.
  assert (B : psr_IT p mod 2 ^ 3 = bits (psr_IT p) 2 0).
  { unfold bits at 1. rewrite Z.pow_0_r, Z.div_1_r. reflexivity. }
  rewrite B.
  destruct (bits (psr_IT p) 2 0 =? 0) eqn:E.
  - mred. fold p.
    destruct (CPSR_it_spec p 0 Hw ltac:(lia)) as [_ Hs]. rewrite Hs.
    unfold ITAdvance. rewrite E. reflexivity.
  - mred. fold p. rewrite ?CPSR_get_it_bits, ?lower_chunk_mod by lia.
    rewrite lsl_c_spec by lia. unfold LSL_C. mred. fold p. rewrite ?CPSR_get_it_bits.
    rewrite it_advance_arith by (try assumption; lia).
    assert (RA : 0 <= ITAdvance (psr_IT p) < 2 ^ 8).
    { unfold ITAdvance. rewrite E. pose proof (bits_range (psr_IT p) 7 5 ltac:(lia)).
      change (2 ^ (7 - 5 + 1)) with 8 in *. change (2 ^ 8) with 256. lia. }
    destruct (CPSR_it_spec p _ Hw RA) as [_ Hs]. rewrite Hs. reflexivity.
Qed.
