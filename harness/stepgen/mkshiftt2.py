# (cls, type, zero?, abstract, op2, kind)
rows=[('MovRegisterThumbT3',0,True,'MovRegisterThumb','Op2Plain m',None),
      ('RrxT1',3,True,'Rrx','Op2Reg m SRType_RRX 1',None),
      ('LslImmediateT2',0,False,'LslImmediate',None,'SRType_LSL'),
      ('LsrImmediateT2',1,False,'LsrImmediate',None,'SRType_LSR'),
      ('AsrImmediateT2',2,False,'AsrImmediate',None,'SRType_ASR'),
      ('RorImmediateT1',3,False,'RorImmediate',None,'SRType_ROR')]
hdr='''(* Proofs/StepInstancesShiftT2.v — GENERATED text (one block per encoding, same script): the 32-bit Thumb "move register and immediate
   shifts" group 11101 01 0010 S 1111 : (0) imm3 Rd imm2 type Rm end to end — MOV{S}.W Rd, Rm (T3), RRX{S} (T1), and LSL / LSR / ASR / ROR{S}.W
   Rd, Rm, #imm5 with imm5 != 0 — Rd, Rm in r0-r12 and different. *)
Set Default Timeout 240.
From Coq Require Import ZArith List Bool Lia ZifyBool.
From ArmV Require Import Lib.PyZ Lib.Monad Lib.Machine Spec.Pseudocode Spec.Arch Spec.MachineView Spec.Branches Spec.StepFrame
  Spec.OperandSpec Spec.DPSem
  Proofs.SpecFacts Proofs.StateLemmas Proofs.CondProofs Proofs.GuardProofs Proofs.BankProofs Proofs.MachineOps Proofs.DPLemmas
  Proofs.DPClasses0 Proofs.DPClasses1 Proofs.DPClasses2 Proofs.DPClasses3 Proofs.DPClasses4 Proofs.DPClasses5 Proofs.DPClasses6 Proofs.DPClasses7
  Proofs.StepProofs Proofs.StepDP Proofs.DPRange Proofs.StepDPReg Proofs.StepInstances Proofs.StepInstancesThumb2 Proofs.StepInstancesThumb2Reg Proofs.OpTac
  Proofs.OpsT0 Proofs.OpsT1 Proofs.OpsT2 Proofs.OpsT3 Proofs.OpsT4 Proofs.OpsT5 Proofs.OpsT6 Proofs.OpsT7.
From Gen Require Import enums bits_ops shift regviews records hubm opsyn core exec conc decoders step.
Import ListNotations.
Open Scope Z_scope.
Ltac Zify.zify_post_hook ::= Z.to_euclidean_division_equations.

Definition is_shift_t32 (ty : Z) (zero : bool) (w : Z) : Prop :=
  bit w 31 = 1 /\\ bit w 30 = 1 /\\ bit w 29 = 1 /\\ bit w 28 = 0 /\\ bit w 27 = 1 /\\ bit w 26 = 0 /\\ bit w 25 = 1 /\\
  bit w 24 = 0 /\\ bit w 23 = 0 /\\ bit w 22 = 1 /\\ bit w 21 = 0 /\\ bits w 19 16 = 15 /\\ bits w 5 4 = ty /\\
  (if zero then bits w 14 12 = 0 /\\ bits w 7 6 = 0 else imm5t w <> 0) /\\ regs13 [bits w 11 8; bits w 3 0] = true.
'''
body=''; props='(* the 32-bit Thumb move-register-and-immediate-shifts group: MOV.W (register), RRX, LSL/LSR/ASR/ROR by a non-zero immediate *)\n'
for cls,ty,zero,ab,o2,srt in rows:
    low=cls[0].lower()+cls[1:]
    zb='true' if zero else 'false'
    if zero:
        fields='[w; bit w 20; bits w 3 0; bits w 11 8]'
        lets='let d := bits w 11 8 in let m := bits w 3 0 in'
        opx=f'(code_{ab}, [w; bit w 20; m; d])'
        intro='d m op'
        exe=f'{ab}_execute cfg w (bit w 20) m d'
        pre=''
        opsargs='w s Hw Hr'
    else:
        fields=f'[w; bit w 20; bits w 3 0; bits w 11 8; snd (DecodeImmShift {ty} (imm5t w))]'
        lets=f'let d := bits w 11 8 in let m := bits w 3 0 in let n := snd (DecodeImmShift {ty} (imm5t w)) in'
        opx=f'(code_{ab}, [w; bit w 20; m; d; n])'
        o2=f'Op2Reg m {srt} n'
        intro='d m n op'
        exe=f'{ab}_execute cfg w (bit w 20) m d n'
        opsargs='w s Hw Hr ltac:(unfold pre_imm5t_nz; lia)'
    st=f'''  ArmV6_fetch_instruction cfg s = Ok w s1 ->
  0 <= w < 2 ^ 32 -> is_shift_t32 {ty} {zb} w -> iset_of s1 = 1 -> opcode_len s1 = 32 -> ictx cfg s1 -> cond_holds s1 ->
  {lets}
  let op := {opx} in
  exists s2,
    dp_sem cfg MOV (bit w 20) (Some d) 0 ({o2}) (begin_instr s1 op) = Ok tt s2 /\\
    ArmV6_emulate_cycle cfg s = Ok tt (AdvancePC (it_step_after s1 s2)) /\\
    pc_of (AdvancePC (it_step_after s1 s2)) = add32 (pc_of s1) 4.
'''
    if zero:
        validity = ''
        tryv = '; try (cbn [op2_valid]; first [lia | (split; [lia|]; split; [lia|]; right; right; right; right; split; reflexivity)])'
        semextra=''
        prep=''
    else:
        validity = '''  - split; [lia|exact Hv].
'''
        tryv = ''
        semextra='|apply Hv'
        prep=f'''  pose proof (imm5t_range w) as R5.
  pose proof (DecodeImmShift_valid {ty} (imm5t w) ltac:(lia) ltac:(lia)) as Hv.
  assert (Hk : fst (DecodeImmShift {ty} (imm5t w)) = {srt}).
  {{ unfold DecodeImmShift. cbn [Z.eqb Pos.eqb]. try (replace (imm5t w =? 0) with false by lia). reflexivity. }}
  rewrite Hk in Hv. fold n in Hv.
'''
    body+=f'''
(* ================= {cls} ================= *)
Lemma decode_{cls} w s : 0 <= w < 2 ^ 32 -> is_shift_t32 {ty} {zb} w -> iset_of s = 1 -> opcode_len s = 32 ->
  ArmV6_decode_instruction w s = Ok (Some enc_{cls}) s.
Proof.
  intros Hw (H31 & H30 & H29 & H28 & H27 & H26 & H25 & H24 & H23 & H22 & H21 & Hrn & Hty & Hz & Hr) Hi Hl. split_regs. dec_t32 w Hi Hl.
  cbv iota in Hz. unfold imm5t in Hz.
  assert (D : dec_thumb_instruction_set_encoding_32_bit w = Val (Some enc_{cls})).
  {{ dec_step dec_thumb_instruction_set_encoding_32_bit. pose_expand w 28 27. pose_expand w 26 25. ops_if.
    dec_step dec_thumb_data_processing_shifted_register. pose_expand w 24 21. ops_if.
    dec_step dec_thumb_move_register_and_immediate_shifts. ops_if. reflexivity. }}
  unfold lift. rewrite D. rewrite ?Hl. reflexivity.
Qed.
Lemma from_bitarray_{cls} cfg w s : 0 <= w < 2 ^ 32 -> is_shift_t32 {ty} {zb} w ->
  from_bitarray_dispatch cfg enc_{cls} w s = Ok (Some (code_{ab}, {fields})) s.
Proof.
  intros Hw (_ & _ & _ & _ & _ & _ & _ & _ & _ & _ & _ & _ & _ & Hz & Hr). cbv iota in Hz.
  pose proof (ops_{cls} {opsargs}) as H. unfold fb_out, fb_plain, fb_opt, fb_res, fb_res_opt, fb_m, fb_m_opt in H.
  unfold from_bitarray_dispatch, enc_{cls}. cbv iota. unfold bind, ret, lift in *.
  repeat match goal with
  | H : match ?x with _ => _ end = _ |- context[?x] => destruct x; try discriminate H
  end.
  inversion H. first [reflexivity | match goal with E : _ = Some _ |- _ => rewrite E end; reflexivity].
Qed.
Theorem {low}_step cfg s w s1 :
{st}Proof.
  intros Hf Hw Hcube Hi Hl Hctx Hcond. pose_all_ranges. intros {intro}.
  pose proof Hcube as (_ & _ & _ & _ & _ & _ & _ & _ & _ & _ & _ & _ & _ & Hz & Hr). cbv iota in Hz. split_regs.
  assert (Qd : 0 <= d <= 14) by (unfold d; lia). assert (Qm : 0 <= m <= 15) by (unfold m; lia).
{prep}  destruct (dp_step cfg s w s1 enc_{cls} op MOV (bit w 20) d 0 ({o2}) Hf) as (s2 & A & B & C); try lia; try assumption{tryv}.
  - apply decode_{cls}; assumption.
  - apply from_bitarray_{cls}; assumption.
  - change (execute_dispatch cfg op (begin_instr s1 op)) with ({exe} (begin_instr s1 op)).
    apply {ab}_sem; try lia; [apply ictx_begin; exact Hctx|apply cond_holds_begin; exact Hcond{semextra}].
{validity}  - exists s2. split; [exact A|]. split; [exact B|]. rewrite C, Hl. reflexivity.
Qed.
'''
    props+=f'Theorem C01_{low}_step cfg s w s1 :\n{st}Proof. exact ({low}_step cfg s w s1). Qed.\nPrint Assumptions C01_{low}_step.\n'
open('/tmp/coqdev/theories/Proofs/StepInstancesShiftT2.v','w').write(hdr+body)
open('/tmp/opproto/shiftt2_props_add.txt','w').write(props)
