(* Props/C09.v — C09: multiply, saturating, packed, bit-field instructions (representative classes).
   Statements only; proofs in Proofs/ArithProofs.v. *)
From Coq Require Import ZArith Bool List.
From ArmV Require Import Lib.PyZ Lib.Monad Lib.Machine Spec.Pseudocode Spec.Arch Spec.MachineView Spec.Arith Spec.Arith2
  Proofs.StateLemmas Proofs.CondProofs Proofs.GuardProofs Proofs.BankProofs Proofs.MachineOps Proofs.DPLemmas Proofs.ArithProofs Proofs.ArithProofs2.
From Gen Require Import enums core exec.
Import ListNotations.
Open Scope Z_scope.

Theorem C09_MUL cfg instr setflags m d n s : ictx cfg s -> cond_holds s -> 0 <= m <= 14 -> 0 <= d <= 14 -> 0 <= n <= 14 ->
  Mul_execute cfg instr setflags m d n s = Ok tt (MUL_sem (cfg_arch_version cfg) s setflags m d n).
Proof. exact (Mul_sem cfg instr setflags m d n s). Qed.
Print Assumptions C09_MUL.
Theorem C09_QADD cfg instr m d n s : ictx cfg s -> cond_holds s -> 0 <= m <= 14 -> 0 <= d <= 14 -> 0 <= n <= 14 ->
  Qadd_execute cfg instr m d n s = Ok tt (QADD_sem s m d n).
Proof. exact (Qadd_sem cfg instr m d n s). Qed.
Print Assumptions C09_QADD.
Theorem C09_UBFX cfg instr lsbit widthminus1 d n s :
  ictx cfg s -> cond_holds s -> 0 <= d <= 14 -> 0 <= n <= 14 -> 0 <= lsbit -> 0 <= widthminus1 ->
  Ubfx_execute cfg instr lsbit widthminus1 d n s = Ok tt (UBFX_sem s lsbit widthminus1 d n).
Proof. exact (Ubfx_sem cfg instr lsbit widthminus1 d n s). Qed.
Print Assumptions C09_UBFX.
Theorem C09_CLZ cfg instr m d s : ictx cfg s -> cond_holds s -> 0 <= d <= 14 -> 0 <= m <= 14 ->
  Clz_execute cfg instr m d s = Ok tt (CLZ_sem s m d).
Proof. exact (Clz_sem cfg instr m d s). Qed.
Print Assumptions C09_CLZ.
Theorem C09_SEL cfg instr m d n s : ictx cfg s -> cond_holds s -> 0 <= m <= 14 -> 0 <= d <= 14 -> 0 <= n <= 14 ->
  Sel_execute cfg instr m d n s = Ok tt (SEL_sem s m d n).
Proof. exact (Sel_sem cfg instr m d n s). Qed.
Print Assumptions C09_SEL.
(* BFI: the code's exact behaviour, and the refutation of the architectural statement (recorded finding) *)
Theorem C09_BFI_actual cfg instr lsbit msbit d n s :
  ictx cfg s -> cond_holds s -> 0 <= d <= 14 -> 0 <= n <= 14 -> 0 <= lsbit -> msbit <= 31 ->
  Bfi_execute cfg instr lsbit msbit d n s = Ok tt (BFI_code_sem s lsbit msbit d n).
Proof. exact (Bfi_actual cfg instr lsbit msbit d n s). Qed.
Print Assumptions C09_BFI_actual.
Theorem C09_BFI_refuted : exists rd rn lsbit msbit, 0 <= lsbit <= msbit /\ msbit <= 31 /\
  insert rd msbit lsbit (bits rn msbit lsbit) <> insert rd msbit lsbit (bits rn (msbit - lsbit) 0).
Proof. exact Bfi_refuted. Qed.
Print Assumptions C09_BFI_refuted.

(* further classes (Spec/Arith2.v), each for every operand value, flag state and mode *)
Theorem C09_MLA cfg instr setflags m a d n s : ictx cfg s -> cond_holds s -> 0 <= m <= 14 -> 0 <= a <= 14 -> 0 <= d <= 14 -> 0 <= n <= 14 ->
  Mla_execute cfg instr setflags m a d n s = Ok tt (Mla_sem (cfg_arch_version cfg) s setflags m a d n).
Proof. exact (Mla_ok cfg instr setflags m a d n s). Qed.
Print Assumptions C09_MLA.
Theorem C09_MLS cfg instr m a d n s : ictx cfg s -> cond_holds s -> 0 <= m <= 14 -> 0 <= a <= 14 -> 0 <= d <= 14 -> 0 <= n <= 14 ->
  Mls_execute cfg instr m a d n s = Ok tt (Mls_sem (cfg_arch_version cfg) s m a d n).
Proof. exact (Mls_ok cfg instr m a d n s). Qed.
Print Assumptions C09_MLS.
Theorem C09_SMULxy cfg instr m_high n_high m d n s : ictx cfg s -> cond_holds s -> 0 <= m <= 14 -> 0 <= d <= 14 -> 0 <= n <= 14 ->
  Smul_execute cfg instr m_high n_high m d n s = Ok tt (Smul_sem (cfg_arch_version cfg) s m_high n_high m d n).
Proof. exact (Smul_ok cfg instr m_high n_high m d n s). Qed.
Print Assumptions C09_SMULxy.
Theorem C09_UMAAL cfg instr m dhi dlo n s : ictx cfg s -> cond_holds s -> 0 <= m <= 14 -> 0 <= dhi <= 14 -> 0 <= dlo <= 14 -> 0 <= n <= 14 ->
  Umaal_execute cfg instr m dhi dlo n s = Ok tt (Umaal_sem (cfg_arch_version cfg) s m dhi dlo n).
Proof. exact (Umaal_ok cfg instr m dhi dlo n s). Qed.
Print Assumptions C09_UMAAL.
Theorem C09_UMULL cfg instr setflags m dhi dlo n s : ictx cfg s -> cond_holds s -> 0 <= m <= 14 -> 0 <= dhi <= 14 -> 0 <= dlo <= 14 -> 0 <= n <= 14 ->
  Umull_execute cfg instr setflags m dhi dlo n s = Ok tt (Umull_sem (cfg_arch_version cfg) s setflags m dhi dlo n).
Proof. exact (Umull_ok cfg instr setflags m dhi dlo n s). Qed.
Print Assumptions C09_UMULL.
Theorem C09_UMLAL cfg instr setflags m dhi dlo n s : ictx cfg s -> cond_holds s -> 0 <= m <= 14 -> 0 <= dhi <= 14 -> 0 <= dlo <= 14 -> 0 <= n <= 14 ->
  Umlal_execute cfg instr setflags m dhi dlo n s = Ok tt (Umlal_sem (cfg_arch_version cfg) s setflags m dhi dlo n).
Proof. exact (Umlal_ok cfg instr setflags m dhi dlo n s). Qed.
Print Assumptions C09_UMLAL.
Theorem C09_SMULL cfg instr setflags m dhi dlo n s : ictx cfg s -> cond_holds s -> 0 <= m <= 14 -> 0 <= dhi <= 14 -> 0 <= dlo <= 14 -> 0 <= n <= 14 ->
  Smull_execute cfg instr setflags m dhi dlo n s = Ok tt (Smull_sem (cfg_arch_version cfg) s setflags m dhi dlo n).
Proof. exact (Smull_ok cfg instr setflags m dhi dlo n s). Qed.
Print Assumptions C09_SMULL.
Theorem C09_SMLAL cfg instr setflags m dhi dlo n s : ictx cfg s -> cond_holds s -> 0 <= m <= 14 -> 0 <= dhi <= 14 -> 0 <= dlo <= 14 -> 0 <= n <= 14 ->
  Smlal_execute cfg instr setflags m dhi dlo n s = Ok tt (Smlal_sem (cfg_arch_version cfg) s setflags m dhi dlo n).
Proof. exact (Smlal_ok cfg instr setflags m dhi dlo n s). Qed.
Print Assumptions C09_SMLAL.
Theorem C09_USAD8 cfg instr m d n s : ictx cfg s -> cond_holds s -> 0 <= m <= 14 -> 0 <= d <= 14 -> 0 <= n <= 14 ->
  Usad8_execute cfg instr m d n s = Ok tt (Usad8_sem (cfg_arch_version cfg) s m d n).
Proof. exact (Usad8_ok cfg instr m d n s). Qed.
Print Assumptions C09_USAD8.
Theorem C09_QSUB cfg instr m d n s : ictx cfg s -> cond_holds s -> 0 <= m <= 14 -> 0 <= d <= 14 -> 0 <= n <= 14 ->
  Qsub_execute cfg instr m d n s = Ok tt (Qsub_sem (cfg_arch_version cfg) s m d n).
Proof. exact (Qsub_ok cfg instr m d n s). Qed.
Print Assumptions C09_QSUB.
