(* Props/C18fb1.v — C18: operand extraction is total (shard 1 of 8).  For EVERY integer w and every machine state,
   from_bitarray of the encoding class returns an operand record or None (UNPREDICTABLE), or raises the Undefined
   Instruction exception — never a host error — and leaves the state untouched.  One theorem per concrete class. *)
From Coq Require Import ZArith List Bool Lia ZifyBool.
From ArmV Require Import Lib.PyZ Lib.Monad Lib.Machine Spec.Pseudocode Spec.Arch Spec.MachineView Spec.OperandSpec.
From Gen Require Import enums bits_ops shift regviews records hubm opsyn core exec conc.
Import ListNotations.
Open Scope Z_scope.
From ArmV Require Proofs.FbTotal1.

Theorem C18_fb_AdcImmediateT1 w s : fb_safe (fb_out (AdcImmediateT1_from_bitarray w) s) s.
Proof. exact (FbTotal1.safe_AdcImmediateT1 w s). Qed.
Print Assumptions C18_fb_AdcImmediateT1.

Theorem C18_fb_AddImmediateThumbT3 w s : fb_safe (fb_out (AddImmediateThumbT3_from_bitarray w) s) s.
Proof. exact (FbTotal1.safe_AddImmediateThumbT3 w s). Qed.
Print Assumptions C18_fb_AddImmediateThumbT3.

Theorem C18_fb_AddSpPlusImmediateT1 w s : fb_safe (fb_out (AddSpPlusImmediateT1_from_bitarray w) s) s.
Proof. exact (FbTotal1.safe_AddSpPlusImmediateT1 w s). Qed.
Print Assumptions C18_fb_AddSpPlusImmediateT1.

Theorem C18_fb_AdrA1 w s : fb_safe (fb_out (AdrA1_from_bitarray w) s) s.
Proof. exact (FbTotal1.safe_AdrA1 w s). Qed.
Print Assumptions C18_fb_AdrA1.

Theorem C18_fb_AndRegisterShiftedRegisterA1 w s : fb_safe (fb_out (AndRegisterShiftedRegisterA1_from_bitarray w) s) s.
Proof. exact (FbTotal1.safe_AndRegisterShiftedRegisterA1 w s). Qed.
Print Assumptions C18_fb_AndRegisterShiftedRegisterA1.

Theorem C18_fb_AsrRegisterT2 w s : fb_safe (fb_out (AsrRegisterT2_from_bitarray w) s) s.
Proof. exact (FbTotal1.safe_AsrRegisterT2 w s). Qed.
Print Assumptions C18_fb_AsrRegisterT2.

Theorem C18_fb_BfiA1 w s : fb_safe (fb_out (BfiA1_from_bitarray w) s) s.
Proof. exact (FbTotal1.safe_BfiA1 w s). Qed.
Print Assumptions C18_fb_BfiA1.

Theorem C18_fb_BkptA1 w s : fb_safe (fb_out (BkptA1_from_bitarray w) s) s.
Proof. exact (FbTotal1.safe_BkptA1 w s). Qed.
Print Assumptions C18_fb_BkptA1.

Theorem C18_fb_BxA1 w s : fb_safe (fb_out (BxA1_from_bitarray w) s) s.
Proof. exact (FbTotal1.safe_BxA1 w s). Qed.
Print Assumptions C18_fb_BxA1.

Theorem C18_fb_CdpCdp2T2 w s : fb_safe (fb_out (CdpCdp2T2_from_bitarray w) s) s.
Proof. exact (FbTotal1.safe_CdpCdp2T2 w s). Qed.
Print Assumptions C18_fb_CdpCdp2T2.

Theorem C18_fb_CmnRegisterShiftedRegisterA1 w s : fb_safe (fb_out (CmnRegisterShiftedRegisterA1_from_bitarray w) s) s.
Proof. exact (FbTotal1.safe_CmnRegisterShiftedRegisterA1 w s). Qed.
Print Assumptions C18_fb_CmnRegisterShiftedRegisterA1.

Theorem C18_fb_CmpRegisterT1 w s : fb_safe (fb_out (CmpRegisterT1_from_bitarray w) s) s.
Proof. exact (FbTotal1.safe_CmpRegisterT1 w s). Qed.
Print Assumptions C18_fb_CmpRegisterT1.

Theorem C18_fb_EnterxLeavexT1 w s : fb_safe (fb_out (EnterxLeavexT1_from_bitarray w) s) s.
Proof. exact (FbTotal1.safe_EnterxLeavexT1 w s). Qed.
Print Assumptions C18_fb_EnterxLeavexT1.

Theorem C18_fb_IsbA1 w s : fb_safe (fb_out (IsbA1_from_bitarray w) s) s.
Proof. exact (FbTotal1.safe_IsbA1 w s). Qed.
Print Assumptions C18_fb_IsbA1.

Theorem C18_fb_LdcLdc2LiteralA2 w s : fb_safe (fb_out (LdcLdc2LiteralA2_from_bitarray w) s) s.
Proof. exact (FbTotal1.safe_LdcLdc2LiteralA2 w s). Qed.
Print Assumptions C18_fb_LdcLdc2LiteralA2.

Theorem C18_fb_LdmdaA1 (cfg : config) w s : fb_safe (fb_out (LdmdaA1_from_bitarray cfg w) s) s.
Proof. exact (FbTotal1.safe_LdmdaA1 cfg w s). Qed.
Print Assumptions C18_fb_LdmdaA1.

Theorem C18_fb_LdrImmediateThumbT4 w s : fb_safe (fb_out (LdrImmediateThumbT4_from_bitarray w) s) s.
Proof. exact (FbTotal1.safe_LdrImmediateThumbT4 w s). Qed.
Print Assumptions C18_fb_LdrImmediateThumbT4.

Theorem C18_fb_LdrbImmediateThumbT1 w s : fb_safe (fb_out (LdrbImmediateThumbT1_from_bitarray w) s) s.
Proof. exact (FbTotal1.safe_LdrbImmediateThumbT1 w s). Qed.
Print Assumptions C18_fb_LdrbImmediateThumbT1.

Theorem C18_fb_LdrbtA1 w s : fb_safe (fb_out (LdrbtA1_from_bitarray w) s) s.
Proof. exact (FbTotal1.safe_LdrbtA1 w s). Qed.
Print Assumptions C18_fb_LdrbtA1.

Theorem C18_fb_LdrexA1 w s : fb_safe (fb_out (LdrexA1_from_bitarray w) s) s.
Proof. exact (FbTotal1.safe_LdrexA1 w s). Qed.
Print Assumptions C18_fb_LdrexA1.

Theorem C18_fb_LdrhImmediateArmA1 w s : fb_safe (fb_out (LdrhImmediateArmA1_from_bitarray w) s) s.
Proof. exact (FbTotal1.safe_LdrhImmediateArmA1 w s). Qed.
Print Assumptions C18_fb_LdrhImmediateArmA1.

Theorem C18_fb_LdrhRegisterT2 w s : fb_safe (fb_out (LdrhRegisterT2_from_bitarray w) s) s.
Proof. exact (FbTotal1.safe_LdrhRegisterT2 w s). Qed.
Print Assumptions C18_fb_LdrhRegisterT2.

Theorem C18_fb_LdrsbLiteralT1 w s : fb_safe (fb_out (LdrsbLiteralT1_from_bitarray w) s) s.
Proof. exact (FbTotal1.safe_LdrsbLiteralT1 w s). Qed.
Print Assumptions C18_fb_LdrsbLiteralT1.

Theorem C18_fb_LdrshImmediateT1 w s : fb_safe (fb_out (LdrshImmediateT1_from_bitarray w) s) s.
Proof. exact (FbTotal1.safe_LdrshImmediateT1 w s). Qed.
Print Assumptions C18_fb_LdrshImmediateT1.

Theorem C18_fb_LdrshtA2 w s : fb_safe (fb_out (LdrshtA2_from_bitarray w) s) s.
Proof. exact (FbTotal1.safe_LdrshtA2 w s). Qed.
Print Assumptions C18_fb_LdrshtA2.

Theorem C18_fb_LslRegisterA1 w s : fb_safe (fb_out (LslRegisterA1_from_bitarray w) s) s.
Proof. exact (FbTotal1.safe_LslRegisterA1 w s). Qed.
Print Assumptions C18_fb_LslRegisterA1.

Theorem C18_fb_LsrRegisterT2 w s : fb_safe (fb_out (LsrRegisterT2_from_bitarray w) s) s.
Proof. exact (FbTotal1.safe_LsrRegisterT2 w s). Qed.
Print Assumptions C18_fb_LsrRegisterT2.

Theorem C18_fb_McrrMcrr2T2 w s : fb_safe (fb_out (McrrMcrr2T2_from_bitarray w) s) s.
Proof. exact (FbTotal1.safe_McrrMcrr2T2 w s). Qed.
Print Assumptions C18_fb_McrrMcrr2T2.

Theorem C18_fb_MovImmediateT2 w s : fb_safe (fb_out (MovImmediateT2_from_bitarray w) s) s.
Proof. exact (FbTotal1.safe_MovImmediateT2 w s). Qed.
Print Assumptions C18_fb_MovImmediateT2.

Theorem C18_fb_MrcMrc2A1 w s : fb_safe (fb_out (MrcMrc2A1_from_bitarray w) s) s.
Proof. exact (FbTotal1.safe_MrcMrc2A1 w s). Qed.
Print Assumptions C18_fb_MrcMrc2A1.

Theorem C18_fb_MrsApplicationA1 w s : fb_safe (fb_out (MrsApplicationA1_from_bitarray w) s) s.
Proof. exact (FbTotal1.safe_MrsApplicationA1 w s). Qed.
Print Assumptions C18_fb_MrsApplicationA1.

Theorem C18_fb_MsrRegisterSystemA1 w s : fb_safe (fb_out (MsrRegisterSystemA1_from_bitarray w) s) s.
Proof. exact (FbTotal1.safe_MsrRegisterSystemA1 w s). Qed.
Print Assumptions C18_fb_MsrRegisterSystemA1.

Theorem C18_fb_MvnRegisterShiftedRegisterA1 w s : fb_safe (fb_out (MvnRegisterShiftedRegisterA1_from_bitarray w) s) s.
Proof. exact (FbTotal1.safe_MvnRegisterShiftedRegisterA1 w s). Qed.
Print Assumptions C18_fb_MvnRegisterShiftedRegisterA1.

Theorem C18_fb_OrrImmediateA1 w s : fb_safe (fb_out (OrrImmediateA1_from_bitarray w) s) s.
Proof. exact (FbTotal1.safe_OrrImmediateA1 w s). Qed.
Print Assumptions C18_fb_OrrImmediateA1.

Theorem C18_fb_PldImmediateA1 w s : fb_safe (fb_out (PldImmediateA1_from_bitarray w) s) s.
Proof. exact (FbTotal1.safe_PldImmediateA1 w s). Qed.
Print Assumptions C18_fb_PldImmediateA1.

Theorem C18_fb_PopArmA2 w s : fb_safe (fb_out (PopArmA2_from_bitarray w) s) s.
Proof. exact (FbTotal1.safe_PopArmA2 w s). Qed.
Print Assumptions C18_fb_PopArmA2.

Theorem C18_fb_PushT3 w s : fb_safe (fb_out (PushT3_from_bitarray w) s) s.
Proof. exact (FbTotal1.safe_PushT3 w s). Qed.
Print Assumptions C18_fb_PushT3.

Theorem C18_fb_QasxT1 w s : fb_safe (fb_out (QasxT1_from_bitarray w) s) s.
Proof. exact (FbTotal1.safe_QasxT1 w s). Qed.
Print Assumptions C18_fb_QasxT1.

Theorem C18_fb_Qsub16T1 w s : fb_safe (fb_out (Qsub16T1_from_bitarray w) s) s.
Proof. exact (FbTotal1.safe_Qsub16T1 w s). Qed.
Print Assumptions C18_fb_Qsub16T1.

Theorem C18_fb_Rev16T1 w s : fb_safe (fb_out (Rev16T1_from_bitarray w) s) s.
Proof. exact (FbTotal1.safe_Rev16T1 w s). Qed.
Print Assumptions C18_fb_Rev16T1.

Theorem C18_fb_RfeA1 w s : fb_safe (fb_out (RfeA1_from_bitarray w) s) s.
Proof. exact (FbTotal1.safe_RfeA1 w s). Qed.
Print Assumptions C18_fb_RfeA1.

Theorem C18_fb_RrxA1 w s : fb_safe (fb_out (RrxA1_from_bitarray w) s) s.
Proof. exact (FbTotal1.safe_RrxA1 w s). Qed.
Print Assumptions C18_fb_RrxA1.

Theorem C18_fb_RscImmediateA1 w s : fb_safe (fb_out (RscImmediateA1_from_bitarray w) s) s.
Proof. exact (FbTotal1.safe_RscImmediateA1 w s). Qed.
Print Assumptions C18_fb_RscImmediateA1.

Theorem C18_fb_SasxT1 w s : fb_safe (fb_out (SasxT1_from_bitarray w) s) s.
Proof. exact (FbTotal1.safe_SasxT1 w s). Qed.
Print Assumptions C18_fb_SasxT1.

Theorem C18_fb_SbfxT1 w s : fb_safe (fb_out (SbfxT1_from_bitarray w) s) s.
Proof. exact (FbTotal1.safe_SbfxT1 w s). Qed.
Print Assumptions C18_fb_SbfxT1.

Theorem C18_fb_SevT1 w s : fb_safe (fb_out (SevT1_from_bitarray w) s) s.
Proof. exact (FbTotal1.safe_SevT1 w s). Qed.
Print Assumptions C18_fb_SevT1.

Theorem C18_fb_ShsaxA1 w s : fb_safe (fb_out (ShsaxA1_from_bitarray w) s) s.
Proof. exact (FbTotal1.safe_ShsaxA1 w s). Qed.
Print Assumptions C18_fb_ShsaxA1.

Theorem C18_fb_SmlaA1 w s : fb_safe (fb_out (SmlaA1_from_bitarray w) s) s.
Proof. exact (FbTotal1.safe_SmlaA1 w s). Qed.
Print Assumptions C18_fb_SmlaA1.

Theorem C18_fb_SmlalxyA1 w s : fb_safe (fb_out (SmlalxyA1_from_bitarray w) s) s.
Proof. exact (FbTotal1.safe_SmlalxyA1 w s). Qed.
Print Assumptions C18_fb_SmlalxyA1.

Theorem C18_fb_SmmlaA1 w s : fb_safe (fb_out (SmmlaA1_from_bitarray w) s) s.
Proof. exact (FbTotal1.safe_SmmlaA1 w s). Qed.
Print Assumptions C18_fb_SmmlaA1.

Theorem C18_fb_SmulA1 w s : fb_safe (fb_out (SmulA1_from_bitarray w) s) s.
Proof. exact (FbTotal1.safe_SmulA1 w s). Qed.
Print Assumptions C18_fb_SmulA1.

Theorem C18_fb_SrsArmA1 w s : fb_safe (fb_out (SrsArmA1_from_bitarray w) s) s.
Proof. exact (FbTotal1.safe_SrsArmA1 w s). Qed.
Print Assumptions C18_fb_SrsArmA1.

Theorem C18_fb_SsaxT1 w s : fb_safe (fb_out (SsaxT1_from_bitarray w) s) s.
Proof. exact (FbTotal1.safe_SsaxT1 w s). Qed.
Print Assumptions C18_fb_SsaxT1.

Theorem C18_fb_StcStc2T2 w s : fb_safe (fb_out (StcStc2T2_from_bitarray w) s) s.
Proof. exact (FbTotal1.safe_StcStc2T2 w s). Qed.
Print Assumptions C18_fb_StcStc2T2.

Theorem C18_fb_StmibA1 w s : fb_safe (fb_out (StmibA1_from_bitarray w) s) s.
Proof. exact (FbTotal1.safe_StmibA1 w s). Qed.
Print Assumptions C18_fb_StmibA1.

Theorem C18_fb_StrRegisterT2 w s : fb_safe (fb_out (StrRegisterT2_from_bitarray w) s) s.
Proof. exact (FbTotal1.safe_StrRegisterT2 w s). Qed.
Print Assumptions C18_fb_StrRegisterT2.

Theorem C18_fb_StrbtA1 w s : fb_safe (fb_out (StrbtA1_from_bitarray w) s) s.
Proof. exact (FbTotal1.safe_StrbtA1 w s). Qed.
Print Assumptions C18_fb_StrbtA1.

Theorem C18_fb_StrexbA1 w s : fb_safe (fb_out (StrexbA1_from_bitarray w) s) s.
Proof. exact (FbTotal1.safe_StrexbA1 w s). Qed.
Print Assumptions C18_fb_StrexbA1.

Theorem C18_fb_StrhImmediateThumbT2 w s : fb_safe (fb_out (StrhImmediateThumbT2_from_bitarray w) s) s.
Proof. exact (FbTotal1.safe_StrhImmediateThumbT2 w s). Qed.
Print Assumptions C18_fb_StrhImmediateThumbT2.

Theorem C18_fb_StrtA1 w s : fb_safe (fb_out (StrtA1_from_bitarray w) s) s.
Proof. exact (FbTotal1.safe_StrtA1 w s). Qed.
Print Assumptions C18_fb_StrtA1.

Theorem C18_fb_SubRegisterA1 w s : fb_safe (fb_out (SubRegisterA1_from_bitarray w) s) s.
Proof. exact (FbTotal1.safe_SubRegisterA1 w s). Qed.
Print Assumptions C18_fb_SubRegisterA1.

Theorem C18_fb_SubSpMinusRegisterA1 w s : fb_safe (fb_out (SubSpMinusRegisterA1_from_bitarray w) s) s.
Proof. exact (FbTotal1.safe_SubSpMinusRegisterA1 w s). Qed.
Print Assumptions C18_fb_SubSpMinusRegisterA1.

Theorem C18_fb_Sxtab16T1 w s : fb_safe (fb_out (Sxtab16T1_from_bitarray w) s) s.
Proof. exact (FbTotal1.safe_Sxtab16T1 w s). Qed.
Print Assumptions C18_fb_Sxtab16T1.

Theorem C18_fb_SxtbT1 w s : fb_safe (fb_out (SxtbT1_from_bitarray w) s) s.
Proof. exact (FbTotal1.safe_SxtbT1 w s). Qed.
Print Assumptions C18_fb_SxtbT1.

Theorem C18_fb_TeqRegisterA1 w s : fb_safe (fb_out (TeqRegisterA1_from_bitarray w) s) s.
Proof. exact (FbTotal1.safe_TeqRegisterA1 w s). Qed.
Print Assumptions C18_fb_TeqRegisterA1.

Theorem C18_fb_TstRegisterT2 w s : fb_safe (fb_out (TstRegisterT2_from_bitarray w) s) s.
Proof. exact (FbTotal1.safe_TstRegisterT2 w s). Qed.
Print Assumptions C18_fb_TstRegisterT2.

Theorem C18_fb_UbfxT1 w s : fb_safe (fb_out (UbfxT1_from_bitarray w) s) s.
Proof. exact (FbTotal1.safe_UbfxT1 w s). Qed.
Print Assumptions C18_fb_UbfxT1.

Theorem C18_fb_Uhadd8A1 w s : fb_safe (fb_out (Uhadd8A1_from_bitarray w) s) s.
Proof. exact (FbTotal1.safe_Uhadd8A1 w s). Qed.
Print Assumptions C18_fb_Uhadd8A1.

Theorem C18_fb_Uhsub8A1 w s : fb_safe (fb_out (Uhsub8A1_from_bitarray w) s) s.
Proof. exact (FbTotal1.safe_Uhsub8A1 w s). Qed.
Print Assumptions C18_fb_Uhsub8A1.

Theorem C18_fb_Uqadd16A1 w s : fb_safe (fb_out (Uqadd16A1_from_bitarray w) s) s.
Proof. exact (FbTotal1.safe_Uqadd16A1 w s). Qed.
Print Assumptions C18_fb_Uqadd16A1.

Theorem C18_fb_Uqsub16A1 w s : fb_safe (fb_out (Uqsub16A1_from_bitarray w) s) s.
Proof. exact (FbTotal1.safe_Uqsub16A1 w s). Qed.
Print Assumptions C18_fb_Uqsub16A1.

Theorem C18_fb_Usat16A1 w s : fb_safe (fb_out (Usat16A1_from_bitarray w) s) s.
Proof. exact (FbTotal1.safe_Usat16A1 w s). Qed.
Print Assumptions C18_fb_Usat16A1.

Theorem C18_fb_Usub8A1 w s : fb_safe (fb_out (Usub8A1_from_bitarray w) s) s.
Proof. exact (FbTotal1.safe_Usub8A1 w s). Qed.
Print Assumptions C18_fb_Usub8A1.

Theorem C18_fb_Uxtb16A1 w s : fb_safe (fb_out (Uxtb16A1_from_bitarray w) s) s.
Proof. exact (FbTotal1.safe_Uxtb16A1 w s). Qed.
Print Assumptions C18_fb_Uxtb16A1.

Theorem C18_fb_WfeA1 w s : fb_safe (fb_out (WfeA1_from_bitarray w) s) s.
Proof. exact (FbTotal1.safe_WfeA1 w s). Qed.
Print Assumptions C18_fb_WfeA1.

Theorem C18_fb_YieldT2 w s : fb_safe (fb_out (YieldT2_from_bitarray w) s) s.
Proof. exact (FbTotal1.safe_YieldT2 w s). Qed.
Print Assumptions C18_fb_YieldT2.
