hdr='''(* Proofs/StepInstancesSpThumb2.v — GENERATED text (one block per encoding, same script): the 32-bit Thumb SP-relative additions and
   subtractions (Rn = 1101) end to end — ADD{S}.W / SUB{S}.W Rd, SP, #const (T3 / T2, modified immediate), ADDW / SUBW Rd, SP, #imm12
   (T4 / T3), ADD{S}.W / SUB{S} Rd, SP, Rm{, <shift>} (T3 / T1) — Rd (and Rm) in r0-r12. *)
Set Default Timeout 240.
From Coq Require Import ZArith List Bool Lia ZifyBool.
From ArmV Require Import Lib.PyZ Lib.Monad Lib.Machine Spec.Pseudocode Spec.Arch Spec.MachineView Spec.Branches Spec.StepFrame
  Spec.OperandSpec Spec.DPSem
  Proofs.SpecFacts Proofs.StateLemmas Proofs.CondProofs Proofs.GuardProofs Proofs.BankProofs Proofs.MachineOps Proofs.DPLemmas
  Proofs.DPClasses0 Proofs.DPClasses1 Proofs.DPClasses2 Proofs.DPClasses3 Proofs.DPClasses4 Proofs.DPClasses5 Proofs.DPClasses6 Proofs.DPClasses7
  Proofs.StepProofs Proofs.StepDP Proofs.DPRange Proofs.StepDPReg Proofs.StepInstances Proofs.StepInstancesThumb2 Proofs.StepInstancesThumb2Reg Proofs.OpTac
  Proofs.OpsT0 Proofs.OpsT1 Proofs.OpsT2 Proofs.OpsT3 Proofs.OpsT4 Proofs.OpsT5 Proofs.OpsT6 Proofs.OpsT7.
From Gen Require Import enums bits_ops shift regviews records hubm opsyn core exec conc decoders step.
Import ListNotations.
Open Scope Z_scope.
Ltac Zify.zify_post_hook ::= Z.to_euclidean_division_equations.

Definition is_sp_mi_t32 (o24 o23 o22 o21 w : Z) : Prop :=
  bit w 31 = 1 /\\ bit w 30 = 1 /\\ bit w 29 = 1 /\\ bit w 28 = 1 /\\ bit w 27 = 0 /\\ bit w 25 = 0 /\\ bit w 15 = 0 /\\
  bit w 24 = o24 /\\ bit w 23 = o23 /\\ bit w 22 = o22 /\\ bit w 21 = o21 /\\ bits w 19 16 = 13 /\\ regs13 [bits w 11 8] = true.
Definition is_sp_pbi_t32 (o24 o23 o22 o21 w : Z) : Prop :=
  bit w 31 = 1 /\\ bit w 30 = 1 /\\ bit w 29 = 1 /\\ bit w 28 = 1 /\\ bit w 27 = 0 /\\ bit w 25 = 1 /\\ bit w 15 = 0 /\\
  bit w 24 = o24 /\\ bit w 23 = o23 /\\ bit w 22 = o22 /\\ bit w 21 = o21 /\\ bit w 20 = 0 /\\ bits w 19 16 = 13 /\\ regs13 [bits w 11 8] = true.
Definition is_sp_sr_t32 (o24 o23 o22 o21 w : Z) : Prop :=
  bit w 31 = 1 /\\ bit w 30 = 1 /\\ bit w 29 = 1 /\\ bit w 28 = 0 /\\ bit w 27 = 1 /\\ bit w 26 = 0 /\\ bit w 25 = 1 /\\
  bit w 24 = o24 /\\ bit w 23 = o23 /\\ bit w 22 = o22 /\\ bit w 21 = o21 /\\ bits w 19 16 = 13 /\\ regs13 [bits w 11 8; bits w 3 0] = true.
'''
FB='''Proof.
  intros Hw HCUBE.
  pose proof (ops_{cls} w s Hw Hr) as H. unfold fb_out, fb_plain, fb_opt, fb_res, fb_res_opt, fb_m, fb_m_opt in H.
  unfold from_bitarray_dispatch, enc_{cls}. cbv iota. unfold bind, ret, lift in *.
  repeat match goal with
  | H : match ?x with _ => _ end = _ |- context[?x] => destruct x; try discriminate H
  end.
  inversion H. first [reflexivity | match goal with E : _ = Some _ |- _ => rewrite E end; reflexivity].
Qed.
'''
def dec(cls,cube,pat,path):
    return f'''
(* ================= {cls} ================= *)
Lemma decode_{cls} w s : 0 <= w < 2 ^ 32 -> {cube} w -> iset_of s = 1 -> opcode_len s = 32 ->
  ArmV6_decode_instruction w s = Ok (Some enc_{cls}) s.
Proof.
  intros Hw {pat} Hi Hl. split_regs. dec_t32 w Hi Hl.
  assert (D : dec_thumb_instruction_set_encoding_32_bit w = Val (Some enc_{cls})).
  {{ {path} }}
  unfold lift. rewrite D. rewrite ?Hl. reflexivity.
Qed.
'''
TAIL='''    ArmV6_emulate_cycle cfg s = Ok tt (AdvancePC (it_step_after s1 s2)) /\\
    pc_of (AdvancePC (it_step_after s1 s2)) = add32 (pc_of s1) 4.
'''
body=''; props='(* the 32-bit Thumb SP-relative ADD / SUB: modified immediate, plain 12-bit immediate, shifted register *)\n'
# modified immediate
for cls,o,op,ab in (('AddSpPlusImmediateT3','1 0 0 0','ADD','AddSpPlusImmediate'),('SubSpMinusImmediateT2','1 1 0 1','SUB','SubSpMinusImmediate')):
    low=cls[0].lower()+cls[1:]; cube=f'is_sp_mi_t32 {o}'
    body+=dec(cls,cube,'(H31 & H30 & H29 & H28 & H27 & H25 & H15 & H24 & H23 & H22 & H21 & Hrn & Hr)',
      'dec_step dec_thumb_instruction_set_encoding_32_bit. pose_expand w 28 27. ops_if.\n    dec_step dec_thumb_data_processing_modified_immediate. pose_expand w 24 21. ops_if. reflexivity.')
    body+=f'''Lemma from_bitarray_{cls} cfg w s : 0 <= w < 2 ^ 32 -> {cube} w ->
  from_bitarray_dispatch cfg enc_{cls} w s = Ok (Some (code_{ab}, [w; bit w 20; bits w 11 8; ThumbExpandImm (imm12t w)])) s.
'''+FB.replace('{cls}',cls).replace('HCUBE','(_ & _ & _ & _ & _ & _ & _ & _ & _ & _ & _ & _ & Hr)')
    st=f'''  ArmV6_fetch_instruction cfg s = Ok w s1 ->
  0 <= w < 2 ^ 32 -> {cube} w -> iset_of s1 = 1 -> opcode_len s1 = 32 -> ictx cfg s1 -> cond_holds s1 ->
  let d := bits w 11 8 in let imm32 := ThumbExpandImm (imm12t w) in
  let op := (code_{ab}, [w; bit w 20; d; imm32]) in
  exists s2,
    dp_sem cfg {op} (bit w 20) (Some d) 13 (Op2Imm imm32 0) (begin_instr s1 op) = Ok tt s2 /\\
'''+TAIL
    body+=f'Theorem {low}_step cfg s w s1 :\n'+st+f'''Proof.
  intros Hf Hw Hcube Hi Hl Hctx Hcond. pose_all_ranges. intros d imm32 op.
  pose proof Hcube as (_ & _ & _ & _ & _ & _ & _ & _ & _ & _ & _ & _ & Hr). split_regs.
  assert (Qd : 0 <= d <= 14) by (unfold d; lia).
  pose proof (imm12t_range w) as Ri.
  assert (Wi : word imm32) by (apply word_ThumbExpandImm; exact Ri).
  destruct (dp_imm_step cfg s w s1 enc_{cls} op {op} (bit w 20) d 13 imm32 0 Hf) as (s2 & A & B & C); try lia; try assumption.
  - apply decode_{cls}; assumption.
  - apply from_bitarray_{cls}; assumption.
  - change (execute_dispatch cfg op (begin_instr s1 op)) with ({ab}_execute cfg w (bit w 20) d imm32 (begin_instr s1 op)).
    apply {ab}_sem; try lia; try exact Wi; [apply ictx_begin; exact Hctx|apply cond_holds_begin; exact Hcond].
  - exists s2. split; [exact A|]. split; [exact B|]. rewrite C, Hl. reflexivity.
Qed.
'''
    props+=f'Theorem C01_{low}_step cfg s w s1 :\n'+st+f'Proof. exact ({low}_step cfg s w s1). Qed.\nPrint Assumptions C01_{low}_step.\n'
# plain immediate
for cls,o,op,ab in (('AddSpPlusImmediateT4','0 0 0 0','ADD','AddSpPlusImmediate'),('SubSpMinusImmediateT3','0 1 0 1','SUB','SubSpMinusImmediate')):
    low=cls[0].lower()+cls[1:]; cube=f'is_sp_pbi_t32 {o}'
    body+=dec(cls,cube,'(H31 & H30 & H29 & H28 & H27 & H25 & H15 & H24 & H23 & H22 & H21 & H20 & Hrn & Hr)',
      'dec_step dec_thumb_instruction_set_encoding_32_bit. pose_expand w 28 27. ops_if.\n    dec_step dec_thumb_data_processing_plain_binary_immediate. pose_expand w 24 20. ops_if. reflexivity.')
    body+=f'''Lemma from_bitarray_{cls} cfg w s : 0 <= w < 2 ^ 32 -> {cube} w ->
  from_bitarray_dispatch cfg enc_{cls} w s = Ok (Some (code_{ab}, [w; 0; bits w 11 8; imm12t w])) s.
'''+FB.replace('{cls}',cls).replace('HCUBE','(_ & _ & _ & _ & _ & _ & _ & _ & _ & _ & _ & _ & _ & Hr)')
    st=f'''  ArmV6_fetch_instruction cfg s = Ok w s1 ->
  0 <= w < 2 ^ 32 -> {cube} w -> iset_of s1 = 1 -> opcode_len s1 = 32 -> ictx cfg s1 -> cond_holds s1 ->
  let d := bits w 11 8 in let imm32 := imm12t w in
  let op := (code_{ab}, [w; 0; d; imm32]) in
  exists s2,
    dp_sem cfg {op} 0 (Some d) 13 (Op2Imm imm32 0) (begin_instr s1 op) = Ok tt s2 /\\
'''+TAIL
    body+=f'Theorem {low}_step cfg s w s1 :\n'+st+f'''Proof.
  intros Hf Hw Hcube Hi Hl Hctx Hcond. pose_all_ranges. intros d imm32 op.
  pose proof Hcube as (_ & _ & _ & _ & _ & _ & _ & _ & _ & _ & _ & _ & _ & Hr). split_regs.
  assert (Qd : 0 <= d <= 14) by (unfold d; lia).
  pose proof (imm12t_range w) as Ri.
  assert (Wi : word imm32) by (unfold word, imm32; lia).
  destruct (dp_imm_step cfg s w s1 enc_{cls} op {op} 0 d 13 imm32 0 Hf) as (s2 & A & B & C); try lia; try assumption.
  - apply decode_{cls}; assumption.
  - apply from_bitarray_{cls}; assumption.
  - change (execute_dispatch cfg op (begin_instr s1 op)) with ({ab}_execute cfg w 0 d imm32 (begin_instr s1 op)).
    apply {ab}_sem; try lia; try exact Wi; [apply ictx_begin; exact Hctx|apply cond_holds_begin; exact Hcond].
  - exists s2. split; [exact A|]. split; [exact B|]. rewrite C, Hl. reflexivity.
Qed.
'''
    props+=f'Theorem C01_{low}_step cfg s w s1 :\n'+st+f'Proof. exact ({low}_step cfg s w s1). Qed.\nPrint Assumptions C01_{low}_step.\n'
# shifted register
for cls,o,op,ab in (('AddSpPlusRegisterThumbT3','1 0 0 0','ADD','AddSpPlusRegisterThumb'),('SubSpMinusRegisterT1','1 1 0 1','SUB','SubSpMinusRegister')):
    low=cls[0].lower()+cls[1:]; cube=f'is_sp_sr_t32 {o}'
    body+=dec(cls,cube,'(H31 & H30 & H29 & H28 & H27 & H26 & H25 & H24 & H23 & H22 & H21 & Hrn & Hr)',
      'dec_step dec_thumb_instruction_set_encoding_32_bit. pose_expand w 28 27. pose_expand w 26 25. ops_if.\n    dec_step dec_thumb_data_processing_shifted_register. pose_expand w 24 21. ops_if. reflexivity.')
    body+=f'''Lemma from_bitarray_{cls} cfg w s : 0 <= w < 2 ^ 32 -> {cube} w ->
  from_bitarray_dispatch cfg enc_{cls} w s = Ok (Some (code_{ab}, [w; bit w 20; bits w 3 0; bits w 11 8; fst (DecodeImmShift (bits w 5 4) (imm5t w)); snd (DecodeImmShift (bits w 5 4) (imm5t w))])) s.
'''+FB.replace('{cls}',cls).replace('HCUBE','(_ & _ & _ & _ & _ & _ & _ & _ & _ & _ & _ & _ & Hr)')
    st=f'''  ArmV6_fetch_instruction cfg s = Ok w s1 ->
  0 <= w < 2 ^ 32 -> {cube} w -> iset_of s1 = 1 -> opcode_len s1 = 32 -> ictx cfg s1 -> cond_holds s1 ->
  let d := bits w 11 8 in let m := bits w 3 0 in
  let sh := DecodeImmShift (bits w 5 4) (imm5t w) in
  let op := (code_{ab}, [w; bit w 20; m; d; fst sh; snd sh]) in
  exists s2,
    dp_sem cfg {op} (bit w 20) (Some d) 13 (Op2Reg m (fst sh) (snd sh)) (begin_instr s1 op) = Ok tt s2 /\\
'''+TAIL
    body+=f'Theorem {low}_step cfg s w s1 :\n'+st+f'''Proof.
  intros Hf Hw Hcube Hi Hl Hctx Hcond. pose_all_ranges. intros d m sh op.
  pose proof Hcube as (_ & _ & _ & _ & _ & _ & _ & _ & _ & _ & _ & _ & Hr). split_regs.
  assert (Qd : 0 <= d <= 14) by (unfold d; lia). assert (Qm : 0 <= m <= 15) by (unfold m; lia).
  pose proof (imm5t_range w) as R5.
  assert (Hsh : valid_shift (fst sh) (snd sh)) by (unfold sh; apply DecodeImmShift_valid; lia).
  destruct (dp_step cfg s w s1 enc_{cls} op {op} (bit w 20) d 13 (Op2Reg m (fst sh) (snd sh)) Hf) as (s2 & A & B & C); try lia; try assumption.
  - apply decode_{cls}; assumption.
  - apply from_bitarray_{cls}; assumption.
  - change (execute_dispatch cfg op (begin_instr s1 op)) with ({ab}_execute cfg w (bit w 20) m d (fst sh) (snd sh) (begin_instr s1 op)).
    apply {ab}_sem; try lia; try exact Hsh; [apply ictx_begin; exact Hctx|apply cond_holds_begin; exact Hcond].
  - split; assumption.
  - exists s2. split; [exact A|]. split; [exact B|]. rewrite C, Hl. reflexivity.
Qed.
'''
    props+=f'Theorem C01_{low}_step cfg s w s1 :\n'+st+f'Proof. exact ({low}_step cfg s w s1). Qed.\nPrint Assumptions C01_{low}_step.\n'
open('/tmp/coqdev/theories/Proofs/StepInstancesSpThumb2.v','w').write(hdr+body)
open('/tmp/opproto/spt_props_add.txt','w').write(props)
