#!/venv/bin/python
"""Entry point of every registered check:  check.py <property id> [--tier quick|thorough] | --replay <file>"""
import importlib
import json
import os
import sys

sys.path.insert(0, os.path.dirname(os.path.abspath(__file__)))
import common as C  # noqa: E402
import framework  # noqa: E402


def main():
    args = sys.argv[1:]
    if args and args[0] == '--replay':
        return replay(args[1])
    pid = args[0]
    tier = os.environ.get('VERIF_TIER', 'quick')
    if '--tier' in args:
        tier = args[args.index('--tier') + 1]
    seed = int(os.environ.get('VERIF_SEED', '0'))
    mod = importlib.import_module('props.' + pid.lower())
    units = mod.units()
    return framework.run_check(pid, units, tier, seed, props_files=getattr(mod, 'PROPS_FILES', None),
                               default_imports=getattr(mod, 'IMPORTS', ''),
                               level_note=getattr(mod, 'LEVEL_NOTE', ''))


def replay(path):
    d = json.load(open(path))
    print(json.dumps({k: d[k] for k in d if k in ('property', 'unit', 'kind', 'case', 'impl', 'spec', 'why')}, indent=1))
    if d.get('kind') != 'input':
        print('no concrete input recorded: the replay names the broken obligation')
        print(json.dumps(d.get('broken_obligation'), indent=1))
        return 0
    res = framework.run_impl([d['case']], 'replay')
    print('implementation now returns:', res[0])
    print('spec expects              :', d.get('spec'))
    return 0 if res[0] == d.get('spec') else 1


if __name__ == '__main__':
    sys.exit(main())
