(* Props/C06ops4.v — C06: operand extraction of the ARM encodings (shard 4 of 8).
   For every word of the stated domain, from_bitarray returns the class with the fields the encoding diagram
   names, and leaves the state alone.  Statements rendered from harness/optable.py by harness/mkopthm.py. *)
From Coq Require Import ZArith List Bool Lia ZifyBool.
From ArmV Require Import Lib.PyZ Lib.Monad Lib.Machine Spec.Pseudocode Spec.Arch Spec.MachineView Spec.OperandSpec.
From Gen Require Import enums bits_ops shift regviews records hubm opsyn core exec conc.
Import ListNotations.
Open Scope Z_scope.
From ArmV Require Proofs.OpsA4.

Theorem C06_ops_AddRegisterArmA1 w s :
  0 <= w < 2 ^ 32 ->
  regs13 [bits w 19 16; bits w 15 12; bits w 3 0] = true ->
  fb_out (AddRegisterArmA1_from_bitarray w) s = Ok (Some (code_AddRegisterArm, [w; bit w 20; bits w 3 0; bits w 15 12; bits w 19 16; fst (DecodeImmShift (bits w 6 5) (bits w 11 7)); snd (DecodeImmShift (bits w 6 5) (bits w 11 7))])) s.
Proof. exact (OpsA4.ops_AddRegisterArmA1 w s). Qed.
Print Assumptions C06_ops_AddRegisterArmA1.

Theorem C06_ops_AndRegisterShiftedRegisterA1 w s :
  0 <= w < 2 ^ 32 ->
  regs13 [bits w 19 16; bits w 15 12; bits w 11 8; bits w 3 0] = true ->
  fb_out (AndRegisterShiftedRegisterA1_from_bitarray w) s = Ok (Some (code_AndRegisterShiftedRegister, [w; bit w 20; bits w 3 0; bits w 11 8; bits w 15 12; bits w 19 16; DecodeRegShift (bits w 6 5)])) s.
Proof. exact (OpsA4.ops_AndRegisterShiftedRegisterA1 w s). Qed.
Print Assumptions C06_ops_AndRegisterShiftedRegisterA1.

Theorem C06_ops_BkptA1 w s :
  0 <= w < 2 ^ 32 ->
  bit w 28 = 0 ->
  bit w 31 = 1 ->
  bit w 30 = 1 ->
  bit w 29 = 1 ->
  fb_out (BkptA1_from_bitarray w) s = Ok (Some (code_Bkpt, [w])) s.
Proof. exact (OpsA4.ops_BkptA1 w s). Qed.
Print Assumptions C06_ops_BkptA1.

Theorem C06_ops_CmnImmediateA1 w s :
  0 <= w < 2 ^ 32 ->
  regs13 [bits w 19 16] = true ->
  fb_out (CmnImmediateA1_from_bitarray w) s = Ok (Some (code_CmnImmediate, [w; bits w 19 16; ARMExpandImm (bits w 11 0)])) s.
Proof. exact (OpsA4.ops_CmnImmediateA1 w s). Qed.
Print Assumptions C06_ops_CmnImmediateA1.

Theorem C06_ops_EorImmediateA1 w s :
  0 <= w < 2 ^ 32 ->
  regs13 [bits w 19 16; bits w 15 12] = true ->
  fb_out (EorImmediateA1_from_bitarray w) s = Ok (Some (code_EorImmediate, [w; bit w 20; bits w 15 12; bits w 19 16; ARMExpandImm (bits w 11 0); snd (ARMExpandImm_C (bits w 11 0) (cflag s))])) s.
Proof. exact (OpsA4.ops_EorImmediateA1 w s). Qed.
Print Assumptions C06_ops_EorImmediateA1.

Theorem C06_ops_LdmArmA1 (cfg : config) w s :
  0 <= w < 2 ^ 32 ->
  regs13 [bits w 19 16] = true ->
  pre_reglist w = true ->
  fb_out (LdmArmA1_from_bitarray cfg w) s = Ok (Some (code_LdmArm, [w; bit w 21; bits w 15 0; bits w 19 16])) s.
Proof. exact (OpsA4.ops_LdmArmA1 cfg w s). Qed.
Print Assumptions C06_ops_LdmArmA1.

Theorem C06_ops_LdrRegisterArmA1 (cfg : config) w s :
  0 <= w < 2 ^ 32 ->
  regs13 [bits w 19 16; bits w 15 12; bits w 3 0] = true ->
  fb_out (LdrRegisterArmA1_from_bitarray cfg w) s = Ok (Some (code_LdrRegisterArm, [w; bit w 23; if (bit w 24 =? 0) || (bit w 21 =? 1) then 1 else 0; bit w 24; bits w 3 0; bits w 15 12; bits w 19 16; fst (DecodeImmShift (bits w 6 5) (bits w 11 7)); snd (DecodeImmShift (bits w 6 5) (bits w 11 7))])) s.
Proof. exact (OpsA4.ops_LdrRegisterArmA1 cfg w s). Qed.
Print Assumptions C06_ops_LdrRegisterArmA1.

Theorem C06_ops_LdrdRegisterA1 (cfg : config) w s :
  0 <= w < 2 ^ 32 ->
  pre_dual_a w = true ->
  fb_out (LdrdRegisterA1_from_bitarray cfg w) s = Ok (Some (code_LdrdRegister, [w; bit w 23; if (bit w 24 =? 0) || (bit w 21 =? 1) then 1 else 0; bit w 24; bits w 3 0; bits w 15 12; bits w 15 12 + 1; bits w 19 16])) s.
Proof. exact (OpsA4.ops_LdrdRegisterA1 cfg w s). Qed.
Print Assumptions C06_ops_LdrdRegisterA1.

Theorem C06_ops_LdrhtA1 w s :
  0 <= w < 2 ^ 32 ->
  regs13 [bits w 19 16; bits w 15 12] = true ->
  fb_out (LdrhtA1_from_bitarray w) s = Ok (Some (code_Ldrht, [w; bit w 23; 0; 1; bits w 15 12; bits w 19 16; 0; bits w 11 8 * 16 + bits w 3 0])) s.
Proof. exact (OpsA4.ops_LdrhtA1 w s). Qed.
Print Assumptions C06_ops_LdrhtA1.

Theorem C06_ops_LdrshLiteralA1 w s :
  0 <= w < 2 ^ 32 ->
  regs13 [bits w 15 12] = true ->
  pre_lit w = true ->
  fb_out (LdrshLiteralA1_from_bitarray w) s = Ok (Some (code_LdrshLiteral, [w; bit w 23; bits w 11 8 * 16 + bits w 3 0; bits w 15 12])) s.
Proof. exact (OpsA4.ops_LdrshLiteralA1 w s). Qed.
Print Assumptions C06_ops_LdrshLiteralA1.

Theorem C06_ops_LsrImmediateA1 w s :
  0 <= w < 2 ^ 32 ->
  regs13 [bits w 15 12; bits w 3 0] = true ->
  fb_out (LsrImmediateA1_from_bitarray w) s = Ok (Some (code_LsrImmediate, [w; bit w 20; bits w 3 0; bits w 15 12; snd (DecodeImmShift 1 (bits w 11 7))])) s.
Proof. exact (OpsA4.ops_LsrImmediateA1 w s). Qed.
Print Assumptions C06_ops_LsrImmediateA1.

Theorem C06_ops_MovImmediateA1 w s :
  0 <= w < 2 ^ 32 ->
  regs13 [bits w 15 12] = true ->
  fb_out (MovImmediateA1_from_bitarray w) s = Ok (Some (code_MovImmediate, [w; bit w 20; bits w 15 12; ARMExpandImm (bits w 11 0); snd (ARMExpandImm_C (bits w 11 0) (cflag s))])) s.
Proof. exact (OpsA4.ops_MovImmediateA1 w s). Qed.
Print Assumptions C06_ops_MovImmediateA1.

Theorem C06_ops_MrsApplicationA1 w s :
  0 <= w < 2 ^ 32 ->
  regs13 [bits w 15 12] = true ->
  fb_out (MrsApplicationA1_from_bitarray w) s = Ok (Some (code_MrsApplication, [w; bits w 15 12])) s.
Proof. exact (OpsA4.ops_MrsApplicationA1 w s). Qed.
Print Assumptions C06_ops_MrsApplicationA1.

Theorem C06_ops_MvnRegisterA1 w s :
  0 <= w < 2 ^ 32 ->
  regs13 [bits w 15 12; bits w 3 0] = true ->
  fb_out (MvnRegisterA1_from_bitarray w) s = Ok (Some (code_MvnRegister, [w; bit w 20; bits w 3 0; bits w 15 12; fst (DecodeImmShift (bits w 6 5) (bits w 11 7)); snd (DecodeImmShift (bits w 6 5) (bits w 11 7))])) s.
Proof. exact (OpsA4.ops_MvnRegisterA1 w s). Qed.
Print Assumptions C06_ops_MvnRegisterA1.

Theorem C06_ops_PldLiteralA1 w s :
  0 <= w < 2 ^ 32 ->
  fb_out (PldLiteralA1_from_bitarray w) s = Ok (Some (code_PldLiteral, [w; bit w 23; bits w 11 0])) s.
Proof. exact (OpsA4.ops_PldLiteralA1 w s). Qed.
Print Assumptions C06_ops_PldLiteralA1.

Theorem C06_ops_QaddA1 w s :
  0 <= w < 2 ^ 32 ->
  regs13 [bits w 19 16; bits w 15 12; bits w 3 0] = true ->
  fb_out (QaddA1_from_bitarray w) s = Ok (Some (code_Qadd, [w; bits w 3 0; bits w 15 12; bits w 19 16])) s.
Proof. exact (OpsA4.ops_QaddA1 w s). Qed.
Print Assumptions C06_ops_QaddA1.

Theorem C06_ops_RbitA1 w s :
  0 <= w < 2 ^ 32 ->
  regs13 [bits w 15 12; bits w 3 0] = true ->
  fb_out (RbitA1_from_bitarray w) s = Ok (Some (code_Rbit, [w; bits w 3 0; bits w 15 12])) s.
Proof. exact (OpsA4.ops_RbitA1 w s). Qed.
Print Assumptions C06_ops_RbitA1.

Theorem C06_ops_RsbImmediateA1 w s :
  0 <= w < 2 ^ 32 ->
  regs13 [bits w 19 16; bits w 15 12] = true ->
  fb_out (RsbImmediateA1_from_bitarray w) s = Ok (Some (code_RsbImmediate, [w; bit w 20; bits w 15 12; bits w 19 16; ARMExpandImm (bits w 11 0)])) s.
Proof. exact (OpsA4.ops_RsbImmediateA1 w s). Qed.
Print Assumptions C06_ops_RsbImmediateA1.

Theorem C06_ops_SasxA1 w s :
  0 <= w < 2 ^ 32 ->
  regs13 [bits w 19 16; bits w 15 12; bits w 3 0] = true ->
  fb_out (SasxA1_from_bitarray w) s = Ok (Some (code_Sasx, [w; bits w 3 0; bits w 15 12; bits w 19 16])) s.
Proof. exact (OpsA4.ops_SasxA1 w s). Qed.
Print Assumptions C06_ops_SasxA1.

Theorem C06_ops_SevA1 w s :
  0 <= w < 2 ^ 32 ->
  in_it s = false ->
  fb_out (SevA1_from_bitarray w) s = Ok (Some (code_Sev, [w])) s.
Proof. exact (OpsA4.ops_SevA1 w s). Qed.
Print Assumptions C06_ops_SevA1.

Theorem C06_ops_SmlaA1 w s :
  0 <= w < 2 ^ 32 ->
  regs13 [bits w 19 16; bits w 15 12; bits w 11 8; bits w 3 0] = true ->
  fb_out (SmlaA1_from_bitarray w) s = Ok (Some (code_Smla, [w; bit w 6; bit w 5; bits w 11 8; bits w 15 12; bits w 19 16; bits w 3 0])) s.
Proof. exact (OpsA4.ops_SmlaA1 w s). Qed.
Print Assumptions C06_ops_SmlaA1.

Theorem C06_ops_SmmlaA1 w s :
  0 <= w < 2 ^ 32 ->
  regs13 [bits w 19 16; bits w 15 12; bits w 11 8; bits w 3 0] = true ->
  fb_out (SmmlaA1_from_bitarray w) s = Ok (Some (code_Smmla, [w; bit w 5; bits w 11 8; bits w 15 12; bits w 19 16; bits w 3 0])) s.
Proof. exact (OpsA4.ops_SmmlaA1 w s). Qed.
Print Assumptions C06_ops_SmmlaA1.

Theorem C06_ops_SrsArmA1 w s :
  0 <= w < 2 ^ 32 ->
  fb_out (SrsArmA1_from_bitarray w) s = Ok (Some (code_SrsArm, [w; bit w 23; if bit w 24 =? bit w 23 then 1 else 0; bit w 21; bits w 4 0])) s.
Proof. exact (OpsA4.ops_SrsArmA1 w s). Qed.
Print Assumptions C06_ops_SrsArmA1.

Theorem C06_ops_StmA1 w s :
  0 <= w < 2 ^ 32 ->
  regs13 [bits w 19 16] = true ->
  pre_reglist w = true ->
  fb_out (StmA1_from_bitarray w) s = Ok (Some (code_Stm, [w; bit w 21; bits w 15 0; bits w 19 16])) s.
Proof. exact (OpsA4.ops_StmA1 w s). Qed.
Print Assumptions C06_ops_StmA1.

Theorem C06_ops_StrbRegisterA1 (cfg : config) w s :
  0 <= w < 2 ^ 32 ->
  regs13 [bits w 19 16; bits w 15 12; bits w 3 0] = true ->
  fb_out (StrbRegisterA1_from_bitarray cfg w) s = Ok (Some (code_StrbRegister, [w; bit w 23; if (bit w 24 =? 0) || (bit w 21 =? 1) then 1 else 0; bit w 24; bits w 3 0; bits w 15 12; bits w 19 16; fst (DecodeImmShift (bits w 6 5) (bits w 11 7)); snd (DecodeImmShift (bits w 6 5) (bits w 11 7))])) s.
Proof. exact (OpsA4.ops_StrbRegisterA1 cfg w s). Qed.
Print Assumptions C06_ops_StrbRegisterA1.

Theorem C06_ops_StrexhA1 w s :
  0 <= w < 2 ^ 32 ->
  regs13 [bits w 19 16; bits w 15 12; bits w 3 0] = true ->
  fb_out (StrexhA1_from_bitarray w) s = Ok (Some (code_Strexh, [w; bits w 3 0; bits w 15 12; bits w 19 16])) s.
Proof. exact (OpsA4.ops_StrexhA1 w s). Qed.
Print Assumptions C06_ops_StrexhA1.

Theorem C06_ops_SubRegisterA1 w s :
  0 <= w < 2 ^ 32 ->
  regs13 [bits w 19 16; bits w 15 12; bits w 3 0] = true ->
  fb_out (SubRegisterA1_from_bitarray w) s = Ok (Some (code_SubRegister, [w; bit w 20; bits w 3 0; bits w 15 12; bits w 19 16; fst (DecodeImmShift (bits w 6 5) (bits w 11 7)); snd (DecodeImmShift (bits w 6 5) (bits w 11 7))])) s.
Proof. exact (OpsA4.ops_SubRegisterA1 w s). Qed.
Print Assumptions C06_ops_SubRegisterA1.

Theorem C06_ops_SxtabA1 w s :
  0 <= w < 2 ^ 32 ->
  regs13 [bits w 19 16; bits w 15 12; bits w 3 0] = true ->
  fb_out (SxtabA1_from_bitarray w) s = Ok (Some (code_Sxtab, [w; bits w 3 0; bits w 15 12; bits w 19 16; bits w 11 10 * 8])) s.
Proof. exact (OpsA4.ops_SxtabA1 w s). Qed.
Print Assumptions C06_ops_SxtabA1.

Theorem C06_ops_TstImmediateA1 w s :
  0 <= w < 2 ^ 32 ->
  regs13 [bits w 19 16] = true ->
  fb_out (TstImmediateA1_from_bitarray w) s = Ok (Some (code_TstImmediate, [w; bits w 19 16; ARMExpandImm (bits w 11 0); snd (ARMExpandImm_C (bits w 11 0) (cflag s))])) s.
Proof. exact (OpsA4.ops_TstImmediateA1 w s). Qed.
Print Assumptions C06_ops_TstImmediateA1.

Theorem C06_ops_UdivA1 w s :
  0 <= w < 2 ^ 32 ->
  regs13 [bits w 19 16; bits w 11 8; bits w 3 0] = true ->
  fb_out (UdivA1_from_bitarray w) s = Ok (Some (code_Udiv, [w; bits w 11 8; bits w 19 16; bits w 3 0])) s.
Proof. exact (OpsA4.ops_UdivA1 w s). Qed.
Print Assumptions C06_ops_UdivA1.

Theorem C06_ops_UmlalA1 (cfg : config) w s :
  0 <= w < 2 ^ 32 ->
  regs13 [bits w 19 16; bits w 15 12; bits w 11 8; bits w 3 0] = true ->
  fb_out (UmlalA1_from_bitarray cfg w) s = Ok (Some (code_Umlal, [w; bit w 20; bits w 11 8; bits w 19 16; bits w 15 12; bits w 3 0])) s.
Proof. exact (OpsA4.ops_UmlalA1 cfg w s). Qed.
Print Assumptions C06_ops_UmlalA1.

Theorem C06_ops_Usad8A1 w s :
  0 <= w < 2 ^ 32 ->
  regs13 [bits w 19 16; bits w 11 8; bits w 3 0] = true ->
  fb_out (Usad8A1_from_bitarray w) s = Ok (Some (code_Usad8, [w; bits w 11 8; bits w 19 16; bits w 3 0])) s.
Proof. exact (OpsA4.ops_Usad8A1 w s). Qed.
Print Assumptions C06_ops_Usad8A1.

Theorem C06_ops_UxtabA1 w s :
  0 <= w < 2 ^ 32 ->
  regs13 [bits w 19 16; bits w 15 12; bits w 3 0] = true ->
  fb_out (UxtabA1_from_bitarray w) s = Ok (Some (code_Uxtab, [w; bits w 3 0; bits w 15 12; bits w 19 16; bits w 11 10 * 8])) s.
Proof. exact (OpsA4.ops_UxtabA1 w s). Qed.
Print Assumptions C06_ops_UxtabA1.
