(* Proofs/BitsOps.v — the translated bits_ops.py equals Spec/Pseudocode for every width. *)
From Coq Require Import ZArith Znumtheory Bool Lia ZifyBool List.
From ArmV Require Import Lib.PyZ Spec.Pseudocode Proofs.BitLemmas Proofs.SpecFacts.
From Gen Require Import bits_ops.
Open Scope Z_scope.
Ltac Zify.zify_post_hook ::= Z.to_euclidean_division_equations.

Lemma lower_chunk_mod b n : 0 <= n -> lower_chunk b n = b mod 2 ^ n.
Proof. intros. unfold lower_chunk. apply land_ones_mod; lia. Qed.

Theorem add_spec a b n : add a b n = (a + b) mod 2 ^ n.
Proof. reflexivity. Qed.
Theorem sub_spec a b n : sub a b n = (a - b) mod 2 ^ n.
Proof. reflexivity. Qed.
Theorem add_range a b n : 0 <= n -> 0 <= add a b n < 2 ^ n.
Proof. intros. unfold add. apply Z.mod_pos_bound. apply pow_pos; lia. Qed.
Theorem sub_range a b n : 0 <= n -> 0 <= sub a b n < 2 ^ n.
Proof. intros. unfold sub. apply Z.mod_pos_bound. apply pow_pos; lia. Qed.

Theorem substring_bits x hi lo : 0 <= lo <= hi -> substring x hi lo = bits x hi lo.
Proof.
  intros. unfold substring, bits. rewrite lower_chunk_mod by lia. rewrite Z.shiftr_div_pow2 by lia.
  replace (hi + 1) with (lo + (hi - lo + 1)) by lia. rewrite pow_split by lia.
  apply mod_div_swap; apply pow_pos; lia.
Qed.
Theorem bit_at_bit x i : 0 <= i -> bit_at x i = bit x i.
Proof. intros. unfold bit_at. rewrite substring_bits by lia. unfold bits, bit.
  replace (i - i + 1) with 1 by lia. reflexivity. Qed.
Theorem to_signed_SInt x N : 0 < N -> 0 <= x < 2 ^ N -> to_signed x N = SInt x N.
Proof.
  intros HN Hx. unfold to_signed, SInt. cbv zeta.
  rewrite Z.shiftr_div_pow2, Z.shiftl_mul_pow2 by lia.
  pose proof (pow_succ N HN) as Hp. pose proof (pow_pos (N - 1) ltac:(lia)).
  destruct (x <? 2 ^ (N - 1)) eqn:E.
  - rewrite Z.div_small by lia. reflexivity.
  - assert (D : x / 2 ^ (N - 1) = 1) by (symmetry; apply Z.div_unique with (r := x - 2 ^ (N - 1)); lia).
    rewrite D. change (truthy 1) with true. cbv iota. lia.
Qed.
Theorem to_unsigned_spec x n : to_unsigned x n = x mod 2 ^ n.
Proof. reflexivity. Qed.
Theorem sign_extend_spec x N M : 0 < N -> 0 <= x < 2 ^ N -> sign_extend x N M = SignExtend x N M.
Proof. intros. unfold sign_extend, SignExtend, to_unsigned. rewrite to_signed_SInt by lia. reflexivity. Qed.

Theorem add_with_carry_spec N x y c : 0 < N -> 0 <= x < 2 ^ N -> 0 <= y < 2 ^ N ->
  add_with_carry x y c N = AddWithCarry N x y c.
Proof.
  intros HN Hx Hy. unfold add_with_carry, AddWithCarry. cbv zeta.
  rewrite lower_chunk_mod by lia. rewrite !to_signed_SInt by (try lia; apply Z.mod_pos_bound; apply pow_pos; lia).
  destruct (_ =? _); destruct (_ =? _); reflexivity.
Qed.

Theorem signed_sat_q_spec i n : signed_sat_q i n = SignedSatQ i n.
Proof.
  unfold signed_sat_q, SignedSatQ, to_unsigned.
  replace (-1 * 2 ^ (n - 1)) with (- 2 ^ (n - 1)) by lia.
  destruct (i >? 2 ^ (n - 1) - 1); [reflexivity|].
  destruct (i <? - 2 ^ (n - 1)); reflexivity.
Qed.
Theorem unsigned_sat_q_spec i n : unsigned_sat_q i n = UnsignedSatQ i n.
Proof.
  unfold unsigned_sat_q, UnsignedSatQ.
  destruct (i >? 2 ^ n - 1); [reflexivity|]. destruct (i <? 0); reflexivity.
Qed.
Theorem signed_sat_spec i n : signed_sat i n = fst (SignedSatQ i n).
Proof. unfold signed_sat. rewrite signed_sat_q_spec. reflexivity. Qed.
Theorem unsigned_sat_spec i n : unsigned_sat i n = fst (UnsignedSatQ i n).
Proof. unfold unsigned_sat. rewrite unsigned_sat_q_spec. reflexivity. Qed.
Theorem sat_q_spec i n u : sat_q i n u = if truthy u then UnsignedSatQ i n else SignedSatQ i n.
Proof. unfold sat_q. rewrite signed_sat_q_spec, unsigned_sat_q_spec. reflexivity. Qed.

(* SignedSatQ yields an N-bit string that is the saturated value *)
Lemma SignedSatQ_value i N : 0 < N ->
  SInt (fst (SignedSatQ i N)) N = Z.max (- 2 ^ (N - 1)) (Z.min i (2 ^ (N - 1) - 1)).
Proof.
  intros HN. unfold SignedSatQ.
  pose proof (pow_succ N HN) as Hp. pose proof (pow_pos (N - 1) ltac:(lia)) as P.
  assert (K : forall v, - 2 ^ (N - 1) <= v < 2 ^ (N - 1) -> SInt (v mod 2 ^ N) N = v).
  { intros v Hv. unfold SInt. destruct (Z_lt_dec v 0).
    - assert (v mod 2 ^ N = v + 2 ^ N) by (symmetry; apply Z.mod_unique with (q := -1); lia).
      rewrite H. replace (v + 2 ^ N <? 2 ^ (N - 1)) with false by lia. lia.
    - rewrite Z.mod_small by lia. replace (v <? 2 ^ (N - 1)) with true by lia. reflexivity. }
  destruct (i >? 2 ^ (N - 1) - 1) eqn:E1; cbn [fst].
  - rewrite K by lia. lia.
  - destruct (i <? - 2 ^ (N - 1)) eqn:E2; cbn [fst]; rewrite K by lia; lia.
Qed.

Theorem align_spec x y : align x y = Align x y.
Proof. reflexivity. Qed.
Theorem chain_spec h l k : 0 <= k -> chain h l k = h * 2 ^ k + l.
Proof. intros. unfold chain. rewrite Z.shiftl_mul_pow2 by lia. reflexivity. Qed.

(* set_substring, bit level: inside <hi:lo> the bits of v, outside the old bits *)
Theorem set_substring_bits b hi lo v i :
  0 <= lo <= hi -> hi < 256 -> 0 <= b < 2 ^ 256 -> 0 <= v < 2 ^ (hi - lo + 1) -> 0 <= i ->
  Z.testbit (set_substring b hi lo v) i = if (lo <=? i) && (i <=? hi) then Z.testbit v (i - lo) else Z.testbit b i.
Proof.
  intros Hl Hh Hb Hv Hi. unfold set_substring, bit_not. cbv zeta.
  rewrite Z.lor_spec, Z.land_spec, Z.lxor_spec, tb_shl1m1 by lia.
  rewrite !Z.shiftl_spec by lia.
  destruct (lo <=? i) eqn:E1; cbn [andb].
  - rewrite tb_ones by lia.
    destruct (i <=? hi) eqn:E2; cbn [andb].
    + replace (i - lo <? hi + 1 - lo) with true by lia. replace (i <? 256) with true by lia. cbn [xorb].
      rewrite andb_false_r. reflexivity.
    + replace (i - lo <? hi + 1 - lo) with false by lia. cbn [xorb].
      rewrite (tb_small v (hi - lo + 1)) by lia. rewrite orb_false_r.
      destruct (i <? 256) eqn:E3; [apply andb_true_r|]. rewrite andb_false_r. symmetry. apply (tb_small b 256); lia.
  - rewrite (Z.testbit_neg_r v) by lia. rewrite (Z.testbit_neg_r (2 ^ (hi + 1 - lo) - 1)) by lia. cbn [xorb].
    replace (i <? 256) with true by lia. rewrite orb_false_r. apply andb_true_r.
Qed.

(* reading back a field that was just written, and reading any disjoint field *)
Theorem get_set_substring_same b hi lo v :
  0 <= lo <= hi -> hi < 256 -> 0 <= b < 2 ^ 256 -> 0 <= v < 2 ^ (hi - lo + 1) ->
  substring (set_substring b hi lo v) hi lo = v.
Proof.
  intros. rewrite substring_bits by lia. apply Z.bits_inj'. intros j Hj.
  rewrite testbit_bits by lia. destruct (j <=? hi - lo) eqn:E.
  - rewrite set_substring_bits by lia. replace ((lo <=? j + lo) && (j + lo <=? hi)) with true by lia.
    f_equal. lia.
  - symmetry. apply (tb_small v (hi - lo + 1)); lia.
Qed.
Theorem get_set_substring_other b hi lo v hi' lo' :
  0 <= lo <= hi -> hi < 256 -> 0 <= b < 2 ^ 256 -> 0 <= v < 2 ^ (hi - lo + 1) ->
  0 <= lo' <= hi' -> (hi' < lo \/ hi < lo') ->
  substring (set_substring b hi lo v) hi' lo' = substring b hi' lo'.
Proof.
  intros. rewrite !substring_bits by lia. apply Z.bits_inj'. intros j Hj.
  rewrite !testbit_bits by lia. destruct (j <=? hi' - lo') eqn:E; [|reflexivity].
  rewrite set_substring_bits by lia. replace ((lo <=? j + lo') && (j + lo' <=? hi)) with false by lia. reflexivity.
Qed.
Theorem set_substring_range b hi lo v N :
  0 <= lo <= hi -> hi < N -> N <= 256 -> 0 <= b < 2 ^ N -> 0 <= v < 2 ^ (hi - lo + 1) ->
  0 <= set_substring b hi lo v < 2 ^ N.
Proof.
  intros. assert (B : 0 <= b < 2 ^ 256).
  { split; [lia|]. apply Z.lt_le_trans with (2 ^ N); [lia|]. apply Z.pow_le_mono_r; lia. }
  assert (NN : 0 <= set_substring b hi lo v).
  { unfold set_substring. cbv zeta. apply Z.lor_nonneg. split.
    - apply Z.land_nonneg. left; lia.
    - apply Z.shiftl_nonneg. lia. }
  split; [exact NN|].
  destruct (Z.eq_dec (set_substring b hi lo v) 0) as [->|NZ]; [apply pow_pos; lia|].
  apply Z.log2_lt_pow2; [lia|].
  destruct (Z_lt_dec (Z.log2 (set_substring b hi lo v)) N); [assumption|exfalso].
  pose proof (Z.bit_log2 (set_substring b hi lo v) ltac:(lia)) as T.
  rewrite set_substring_bits in T by (try lia; apply Z.log2_nonneg).
  replace ((lo <=? Z.log2 (set_substring b hi lo v)) && (Z.log2 (set_substring b hi lo v) <=? hi)) with false in T by lia.
  rewrite (tb_small b N) in T by lia. discriminate.
Qed.

Theorem bit_not_bits b len i : 0 <= len -> 0 <= i ->
  Z.testbit (bit_not b len) i = if i <? len then negb (Z.testbit b i) else Z.testbit b i.
Proof.
  intros. unfold bit_not. rewrite Z.lxor_spec, tb_shl1m1 by lia.
  destruct (i <? len); [apply xorb_true_r|apply xorb_false_r].
Qed.

(* popcount of an in-range value is the number of one bits among the low N *)
Lemma pos_popcount_pos p : 0 < pos_popcount p.
Proof. induction p; cbn [pos_popcount]; lia. Qed.
Lemma bit_succ y k : 0 <= k -> bit y (k + 1) = bit (y / 2) k.
Proof. intros. unfold bit. rewrite Z.pow_add_r by lia. rewrite Z.pow_1_r, Z.mul_comm.
  rewrite <- Z.div_div by (try lia; apply pow_pos; lia). reflexivity. Qed.
Lemma BitCountN_shift n y : BitCountN (S n) y = bit y 0 + BitCountN n (y / 2).
Proof.
  induction n as [|n IH]; [cbn [BitCountN Z.of_nat]; lia|].
  change (BitCountN (S (S n)) y) with (BitCountN (S n) y + bit y (Z.of_nat (S n))).
  rewrite IH. cbn [BitCountN]. replace (Z.of_nat (S n)) with (Z.of_nat n + 1) by lia.
  rewrite bit_succ by lia. lia.
Qed.
Lemma BitCountN_0 n : BitCountN n 0 = 0.
Proof. induction n; cbn [BitCountN]; [reflexivity|]. rewrite IHn. unfold bit. rewrite Z.div_0_l by (apply Z.pow_nonzero; lia). reflexivity. Qed.
Lemma popcount_BitCountN p : forall n, Zpos p < 2 ^ Z.of_nat n -> pos_popcount p = BitCountN n (Zpos p).
Proof.
  induction p as [p IH|p IH|]; intros n Hn.
  - destruct n as [|n]; [cbn in Hn; lia|]. rewrite BitCountN_shift. cbn [pos_popcount].
    replace (Z.of_nat (S n)) with (Z.of_nat n + 1) in Hn by lia. rewrite Z.pow_add_r in Hn by lia.
    rewrite (Pos2Z.inj_xI p) in *. replace ((2 * Z.pos p + 1) / 2) with (Z.pos p) by lia.
    unfold bit. rewrite Z.pow_0_r, Z.div_1_r. replace ((2 * Z.pos p + 1) mod 2) with 1 by lia.
    f_equal. apply IH. rewrite Z.pow_1_r in Hn. lia.
  - destruct n as [|n]; [cbn in Hn; lia|]. rewrite BitCountN_shift. cbn [pos_popcount].
    replace (Z.of_nat (S n)) with (Z.of_nat n + 1) in Hn by lia. rewrite Z.pow_add_r in Hn by lia.
    rewrite (Pos2Z.inj_xO p) in *. replace ((2 * Z.pos p) / 2) with (Z.pos p) by lia.
    unfold bit. rewrite Z.pow_0_r, Z.div_1_r. replace ((2 * Z.pos p) mod 2) with 0 by lia.
    rewrite Z.add_0_l. apply IH. rewrite Z.pow_1_r in Hn. lia.
  - destruct n as [|n]; [cbn in Hn; lia|]. rewrite BitCountN_shift. cbn [pos_popcount].
    change (1 / 2) with 0. rewrite BitCountN_0. reflexivity.
Qed.
Theorem bit_count_spec x N : 0 <= N -> 0 <= x < 2 ^ N -> bit_count x 1 N = BitCount N x.
Proof.
  intros HN Hx. unfold bit_count, BitCount. cbv zeta. change (truthy 1) with true. cbv iota.
  destruct x as [|p|p]; [cbn [popcount]; symmetry; apply BitCountN_0| |lia].
  cbn [popcount]. apply popcount_BitCountN. rewrite Z2Nat.id by lia. lia.
Qed.
Theorem bit_count_zeros_spec x N : 0 <= N -> 0 <= x < 2 ^ N -> bit_count x 0 N = N - BitCount N x.
Proof.
  intros HN Hx. pose proof (bit_count_spec x N HN Hx) as H. unfold bit_count in *. cbv zeta in *.
  change (truthy 1) with true in H. change (truthy 0) with false. cbv iota in *. rewrite H. reflexivity.
Qed.

Theorem big_endian_reverse_assert v n : ~ (n = 1 \/ n = 2 \/ n = 4 \/ n = 8) -> big_endian_reverse v n = Err (EHost HAssert).
Proof.
  intros H. unfold big_endian_reverse.
  replace ((((n =? 1) || (n =? 2)) || (n =? 4)) || (n =? 8)) with false by lia. reflexivity.
Qed.
