
val negb : bool -> bool

type nat =
| O
| S of nat

type ('a, 'b) sum =
| Inl of 'a
| Inr of 'b

val fst : ('a1 * 'a2) -> 'a1

val snd : ('a1 * 'a2) -> 'a2

val length : 'a1 list -> nat

val app : 'a1 list -> 'a1 list -> 'a1 list

type comparison =
| Eq
| Lt
| Gt

val compOpp : comparison -> comparison

val add : nat -> nat -> nat

type positive =
| XI of positive
| XO of positive
| XH

type n =
| N0
| Npos of positive

type z =
| Z0
| Zpos of positive
| Zneg of positive

module Pos :
 sig
  type mask =
  | IsNul
  | IsPos of positive
  | IsNeg
 end

module Coq_Pos :
 sig
  val succ : positive -> positive

  val add : positive -> positive -> positive

  val add_carry : positive -> positive -> positive

  val pred_double : positive -> positive

  val pred_N : positive -> n

  type mask = Pos.mask =
  | IsNul
  | IsPos of positive
  | IsNeg

  val succ_double_mask : mask -> mask

  val double_mask : mask -> mask

  val double_pred_mask : positive -> mask

  val sub_mask : positive -> positive -> mask

  val sub_mask_carry : positive -> positive -> mask

  val mul : positive -> positive -> positive

  val iter : ('a1 -> 'a1) -> 'a1 -> positive -> 'a1

  val div2 : positive -> positive

  val div2_up : positive -> positive

  val size : positive -> positive

  val compare_cont : comparison -> positive -> positive -> comparison

  val compare : positive -> positive -> comparison

  val eqb : positive -> positive -> bool

  val coq_Nsucc_double : n -> n

  val coq_Ndouble : n -> n

  val coq_lor : positive -> positive -> positive

  val coq_land : positive -> positive -> n

  val ldiff : positive -> positive -> n

  val coq_lxor : positive -> positive -> n

  val iter_op : ('a1 -> 'a1 -> 'a1) -> positive -> 'a1 -> 'a1

  val to_nat : positive -> nat

  val of_succ_nat : nat -> positive
 end

module N :
 sig
  val succ_double : n -> n

  val double : n -> n

  val succ_pos : n -> positive

  val sub : n -> n -> n

  val compare : n -> n -> comparison

  val leb : n -> n -> bool

  val pos_div_eucl : positive -> n -> n * n

  val coq_lor : n -> n -> n

  val coq_land : n -> n -> n

  val ldiff : n -> n -> n

  val coq_lxor : n -> n -> n
 end

module Z :
 sig
  val double : z -> z

  val succ_double : z -> z

  val pred_double : z -> z

  val pos_sub : positive -> positive -> z

  val add : z -> z -> z

  val opp : z -> z

  val sub : z -> z -> z

  val mul : z -> z -> z

  val pow_pos : z -> positive -> z

  val pow : z -> z -> z

  val compare : z -> z -> comparison

  val leb : z -> z -> bool

  val ltb : z -> z -> bool

  val geb : z -> z -> bool

  val gtb : z -> z -> bool

  val eqb : z -> z -> bool

  val max : z -> z -> z

  val min : z -> z -> z

  val abs : z -> z

  val to_nat : z -> nat

  val of_nat : nat -> z

  val of_N : n -> z

  val pos_div_eucl : positive -> z -> z * z

  val div_eucl : z -> z -> z * z

  val div : z -> z -> z

  val modulo : z -> z -> z

  val quotrem : z -> z -> z * z

  val quot : z -> z -> z

  val div2 : z -> z

  val log2 : z -> z

  val shiftl : z -> z -> z

  val shiftr : z -> z -> z

  val coq_lor : z -> z -> z

  val coq_land : z -> z -> z

  val coq_lxor : z -> z -> z
 end

val nth : nat -> 'a1 list -> 'a1 -> 'a1

val flat_map : ('a1 -> 'a2 list) -> 'a1 list -> 'a2 list

val firstn : nat -> 'a1 list -> 'a1 list

val skipn : nat -> 'a1 list -> 'a1 list

val repeat : 'a1 -> nat -> 'a1 list

val truthy : z -> bool

val b2z : bool -> z

val pand : z -> z -> z

val por : z -> z -> z

val pos_popcount : positive -> z

val popcount : z -> z

val bit_length : z -> z

val int_truediv : z -> z -> z

val range_up : z -> nat -> z -> z list

val py_range : z -> z -> z -> z list

type hosterr =
| HAssert
| HUnbound
| HNone
| HType
| HKey
| HIndex
| HStruct
| HValue
| HZeroDiv
| HFuel

type exn =
| EHost of hosterr
| EEndOfInstruction
| ESVC
| ESMC
| EDataAbort of z * z
| EHypTrap
| EUndefined
| ENotImpl
| EUnsupported

type 'a res =
| Val of 'a
| Err of exn

val ebind : 'a1 res -> ('a1 -> 'a2 res) -> 'a2 res

val eassert : bool -> unit res

val eunbound : 'a1 option -> 'a1 res

val enone : 'a1 option -> 'a1 res

val pfold : (z -> 'a1 -> 'a1) -> z list -> 'a1 -> 'a1

val pfold_ret :
  (z -> 'a1 -> ('a2, 'a1) sum) -> z list -> 'a1 -> ('a2, 'a1) sum

val unsome : 'a1 -> 'a1 option -> 'a1

val getl : z list -> z -> z

val upd : 'a1 list -> nat -> 'a1 -> 'a1 list

val setl : z list -> z -> z -> z list

type ('s, 'a) outcome =
| Ok of 'a * 's
| Exc of exn * 's

type ('s, 'a) m = 's -> ('s, 'a) outcome

val ret : 'a2 -> ('a1, 'a2) m

val bind : ('a1, 'a2) m -> ('a2 -> ('a1, 'a3) m) -> ('a1, 'a3) m

val raise : exn -> ('a1, 'a2) m

val lift : 'a2 res -> ('a1, 'a2) m

val reads : ('a1 -> 'a2) -> ('a1, 'a2) m

val modify : ('a1 -> 'a1) -> ('a1, unit) m

val foldM : (z -> 'a2 -> ('a1, 'a2) m) -> z list -> 'a2 -> ('a1, 'a2) m

val foldM_ret :
  (z -> 'a2 -> ('a1, ('a3, 'a2) sum) m) -> z list -> 'a2 -> ('a1, ('a3, 'a2)
  sum) m

val whileM :
  nat -> ('a2 -> ('a1, bool) m) -> ('a2 -> ('a1, 'a2) m) -> 'a2 -> ('a1, 'a2)
  m

val catch :
  ('a1, 'a2) m -> (exn -> bool) -> (exn -> ('a1, 'a2) m) -> ('a1, 'a2) m

val try_else :
  ('a1, 'a2) m -> (exn -> bool) -> ('a1, 'a3) m -> ('a1, 'a3) m -> ('a1, 'a3)
  m

val zoom : ('a1 -> 'a2) -> ('a1 -> 'a2 -> 'a1) -> ('a2, 'a3) m -> ('a1, 'a3) m

val is_EndOfInstruction : exn -> bool

val is_SVC : exn -> bool

val is_SMC : exn -> bool

val is_DataAbort : exn -> bool

val is_HypTrap : exn -> bool

val is_Undefined : exn -> bool

val py_index : 'a1 list -> z -> nat option

type config = { cfg_number_of_mpu_regions : z; cfg_have_security_ext : 
                z; cfg_have_virt_ext : z; cfg_arch_version : z;
                cfg_jazelle_accepts_execution : z;
                cfg_memory_system_architecture : z; cfg_have_lpae : z;
                cfg_have_mp_ext : z; cfg_have_adv_simd_or_vfp : z;
                cfg_have_thumbee : z; cfg_have_jazelle : z;
                cfg_implementation_supports_transient : z;
                cfg_processor_id : z; cfg_is_armv7r_profile : z;
                cfg_has_imp_def_reset_vector : z;
                cfg_write_hsr_hsr_value_24 : z; cfg_write_hsr_23_22_cond : 
                z; cfg_dfsr_string_12 : z; cfg_data_abort_hsr_9 : z;
                cfg_data_abort_pmsa_change_dfar : z;
                cfg_translation_walk_sd_l1descaddr_attrs_10 : z;
                cfg_translation_walk_sd_l1descaddr_hints_01 : z;
                cfg_coproc_accepted_pl0_undefined : z;
                cfg_impdef_reset_vector : z; cfg_impdef_irq_vector : 
                z; cfg_impdef_fiq_vector : z; cfg_reset_values : z list }

type device = { dev_beg : z; dev_end : z; dev_bytes : z list }

type hub = device list

type opcode = z * z list

type machine = { r : z list; sys : z list; sysl : z list list;
                 changed : z list; opcode_w : z; opcode_len : z; run_ : 
                 z; wfe : z; wfi : z; executed : opcode option; mem : 
                 hub }

type 'a mM = (machine, 'a) m

val set_R : machine -> z list -> machine

val set_sys : machine -> z list -> machine

val set_changed : machine -> z list -> machine

val set_opcode_w : machine -> z -> machine

val set_opcode_len : machine -> z -> machine

val set_wfe : machine -> z -> machine

val set_wfi : machine -> z -> machine

val set_executed : machine -> opcode option -> machine

val set_mem : machine -> hub -> machine

val getR : z option -> z mM

val putR : z option -> z -> unit mM

val get_sys : z -> z mM

val put_sys : z -> z -> unit mM

val get_sysl : z -> z -> z mM

val get_changed : z -> z mM

val put_changed : z -> z -> unit mM

val reset_changed : z -> z -> unit mM

val get_opcode_w : z mM

val put_opcode_w : z -> unit mM

val get_opcode_len : z mM

val put_opcode_len : z -> unit mM

val put_wfe : z -> unit mM

val put_wfi : z -> unit mM

val get_executed : opcode option mM

val put_executed : opcode option -> unit mM

val zoom_mem : (hub, 'a1) m -> 'a1 mM

val zoom_dev : z -> (z list, 'a1) m -> (hub, 'a1) m

val while_fuel : nat

val op_field : opcode -> nat -> z

val clip : z -> z -> z

val py_slice : z list -> z -> z -> z list

val py_slice_assign : z list -> z -> z -> z list -> z list

val le_bytes : nat -> z -> z list

val le_value : z list -> z

val struct_pack : z -> z -> z list res

val struct_unpack : z -> z list -> z res

val host_code : hosterr -> z

val exn_enc : exn -> z list

val enc_Z : z -> z list

val enc_unit : unit -> z list

val enc_opt : ('a1 -> z list) -> 'a1 option -> z list

val enc_list : z list -> z list

val enc_opcode : opcode -> z list

val enc_device : device -> z list

val enc_hub : hub -> z list

val enc_machine : machine -> z list

val enc_out :
  ('a1 -> z list) -> ('a2 -> z list) -> ('a1, 'a2) outcome -> z list

val memArch_VMSA : z

val memArch_PMSA : z

val mBReqDomain_FULL_SYSTEM : z

val mBReqDomain_OUTER_SHAREABLE : z

val mBReqDomain_INNER_SHAREABLE : z

val mBReqDomain_NONSHAREABLE : z

val mBReqTypes_ALL : z

val mBReqTypes_WRITES : z

val instrSet_ARM : z

val instrSet_THUMB : z

val instrSet_JAZELLE : z

val instrSet_THUMB_EE : z

val dAbort_ACCESS_FLAG : z

val dAbort_ALIGNMENT : z

val dAbort_BACKGROUND : z

val dAbort_DOMAIN : z

val dAbort_PERMISSION : z

val dAbort_TRANSLATION : z

val dAbort_SYNC_EXTERNAL : z

val dAbort_SYNC_EXTERNAL_ON_WALK : z

val dAbort_SYNC_PARITY : z

val dAbort_SYNC_PARITY_ON_WALK : z

val dAbort_ASYNC_PARITY : z

val dAbort_ASYNC_EXTERNAL : z

val dAbort_SYNC_WATCHPOINT : z

val dAbort_ASYNC_WATCHPOINT : z

val dAbort_TLB_CONFLICT : z

val dAbort_LOCKDOWN : z

val dAbort_COPROC : z

val dAbort_ICACHE_MAINT : z

val memType_NORMAL : z

val memType_DEVICE : z

val memType_STRONGLY_ORDERED : z

val rName_R0usr : z

val rName_R1usr : z

val rName_R2usr : z

val rName_R3usr : z

val rName_R4usr : z

val rName_R5usr : z

val rName_R6usr : z

val rName_R7usr : z

val rName_R8usr : z

val rName_R8fiq : z

val rName_R9usr : z

val rName_R9fiq : z

val rName_R10usr : z

val rName_R10fiq : z

val rName_R11usr : z

val rName_R11fiq : z

val rName_R12usr : z

val rName_R12fiq : z

val rName_SPusr : z

val rName_SPfiq : z

val rName_SPirq : z

val rName_SPsvc : z

val rName_SPabt : z

val rName_SPund : z

val rName_SPmon : z

val rName_SPhyp : z

val rName_LRusr : z

val rName_LRfiq : z

val rName_LRirq : z

val rName_LRsvc : z

val rName_LRabt : z

val rName_LRund : z

val rName_LRmon : z

val rName_PC : z

val sRType_LSL : z

val sRType_LSR : z

val sRType_ASR : z

val sRType_ROR : z

val sRType_RRX : z

val add0 : z -> z -> z -> z

val sub0 : z -> z -> z -> z

val to_unsigned : z -> z -> z

val to_signed : z -> z -> z

val sign_extend : z -> z -> z -> z

val lower_chunk : z -> z -> z

val add_with_carry : z -> z -> z -> z -> (z * z) * z

val signed_sat_q : z -> z -> z * z

val unsigned_sat_q : z -> z -> z * z

val signed_sat : z -> z -> z

val unsigned_sat : z -> z -> z

val align : z -> z -> z

val lowest_set_bit_ref : z -> z -> z option

val substring : z -> z -> z -> z

val bit_not : z -> z -> z

val set_substring : z -> z -> z -> z -> z

val bit_at : z -> z -> z

val set_bit_at : z -> z -> z -> z

val chain : z -> z -> z -> z

val bit_count : z -> z -> z -> z

val big_endian_reverse : z -> z -> z res

val is_ones : z -> z -> z

val decode_imm_shift : z -> z -> (z * z) res

val decode_reg_shift : z -> z res

val lsl_c : z -> z -> z -> (z * z) res

val lsl0 : z -> z -> z -> z res

val lsr_c : z -> z -> z -> (z * z) res

val lsr0 : z -> z -> z -> z res

val asr_c : z -> z -> z -> (z * z) res

val ror_c : z -> z -> z -> (z * z) res

val ror : z -> z -> z -> z res

val rrx_c : z -> z -> z -> z * z

val shift_c : z -> z -> z -> z -> z -> (z * z) res

val shift : z -> z -> z -> z -> z -> z res

val arm_expand_imm_c : z -> z -> (z * z) res

val arm_expand_imm : z -> z res

val thumb_expand_imm_c : z -> z -> (z * z) res

val thumb_expand_imm : z -> z res

val abstractRegister_getitem_int : z -> z -> z

val abstractRegister_setitem_int : z -> z -> z -> z

val abstractRegister_getitem_slice : z -> z -> z -> z

val abstractRegister_setitem_slice : z -> z -> z -> z -> z

val cPACR_get_cp_n : z -> z -> z res

val cPSR_get_n : z -> z

val cPSR_get_z : z -> z

val cPSR_get_c : z -> z

val cPSR_get_v : z -> z

val cPSR_get_j : z -> z

val cPSR_get_ge : z -> z

val cPSR_get_it : z -> z

val cPSR_get_e : z -> z

val cPSR_get_t : z -> z

val cPSR_get_m : z -> z

val cPSR_get_isetstate : z -> z

val cPSR_get_apsr : z -> z

val cPSR_set_n : z -> z -> z

val cPSR_set_z : z -> z -> z

val cPSR_set_c : z -> z -> z

val cPSR_set_v : z -> z -> z

val cPSR_set_q : z -> z -> z

val cPSR_set_j : z -> z -> z

val cPSR_set_ge : z -> z -> z

val cPSR_set_it : z -> z -> z

val cPSR_set_e : z -> z -> z

val cPSR_set_a : z -> z -> z

val cPSR_set_i : z -> z -> z

val cPSR_set_f : z -> z -> z

val cPSR_set_t : z -> z -> z

val cPSR_set_m : z -> z -> z

val cPSR_set_isetstate : z -> z -> z

val dACR_get_d_n : z -> z -> z res

val dBGDIDR_get_version : z -> z

val fCSEIDR_get_pid : z -> z

val hCPTR_get_tcp_n : z -> z -> z

val hCR_get_tge : z -> z

val hCR_get_tidcp : z -> z

val hCR_get_tsc : z -> z

val hCR_get_twe : z -> z

val hCR_get_twi : z -> z

val hCR_get_dc : z -> z

val hCR_get_bsu : z -> z

val hCR_get_amo : z -> z

val hCR_get_ptw : z -> z

val hCR_get_vm : z -> z

val hDCR_get_tde : z -> z

val hPFAR_set_fipa : z -> z -> z

val hSCTLR_get_te : z -> z

val hSCTLR_get_ee : z -> z

val hSCTLR_get_a : z -> z

val hSCTLR_get_m : z -> z

val hSTR_get_tjdbx : z -> z

val hSTR_get_ttee : z -> z

val hSTR_get_t_n : z -> z -> z

val hTCR_get_sh0 : z -> z

val hTCR_get_irgn0 : z -> z

val hTCR_get_t0sz : z -> z

val jMCR_get_je : z -> z

val mPUIR_get_dregion : z -> z

val nMRR_get_ir_n : z -> z -> z res

val nMRR_get_or_n : z -> z -> z res

val nSACR_get_cp_n : z -> z -> z res

val nSACR_get_rfr : z -> z

val pRRR_get_tr_n : z -> z -> z

val pRRR_get_nos_n : z -> z -> z

val pRRR_get_ns1 : z -> z

val pRRR_get_ns0 : z -> z

val rACR_get_xn : z -> z

val rACR_get_ap : z -> z

val rACR_get_tex : z -> z

val rACR_get_s : z -> z

val rACR_get_c : z -> z

val rACR_get_b : z -> z

val rSR_get_sd_n : z -> z -> z

val rSR_get_rsize : z -> z

val rSR_get_en : z -> z

val sCR_get_ns : z -> z

val sCR_get_irq : z -> z

val sCR_get_fiq : z -> z

val sCR_get_ea : z -> z

val sCR_get_fw : z -> z

val sCR_get_aw : z -> z

val sCR_get_scd : z -> z

val sCR_set_ns : z -> z -> z

val sCTLR_get_te : z -> z

val sCTLR_get_afe : z -> z

val sCTLR_get_tre : z -> z

val sCTLR_get_nmfi : z -> z

val sCTLR_get_ee : z -> z

val sCTLR_get_u : z -> z

val sCTLR_get_dz : z -> z

val sCTLR_get_ha : z -> z

val sCTLR_get_br : z -> z

val sCTLR_get_v : z -> z

val sCTLR_get_c : z -> z

val sCTLR_get_a : z -> z

val sCTLR_get_m : z -> z

val tEECR_get_xed : z -> z

val tTBCR_get_eae : z -> z

val tTBCR_get_sh1 : z -> z

val tTBCR_get_orgn1 : z -> z

val tTBCR_get_irgn1 : z -> z

val tTBCR_get_epd1 : z -> z

val tTBCR_get_t1sz : z -> z

val tTBCR_get_sh0 : z -> z

val tTBCR_get_orgn0 : z -> z

val tTBCR_get_irgn0 : z -> z

val tTBCR_get_epd0 : z -> z

val tTBCR_get_pd1 : z -> z

val tTBCR_get_t0sz : z -> z

val tTBCR_get_n : z -> z

val vTCR_get_sh0 : z -> z

val vTCR_get_orgn0 : z -> z

val vTCR_get_irgn0 : z -> z

val vTCR_get_sl0 : z -> z

val vTCR_get_t0sz : z -> z

type fullAddress = { fullAddress_physicaladdress : z; fullAddress_ns : z }

val new_FullAddress : fullAddress

val set_FullAddress_physicaladdress : fullAddress -> z -> fullAddress

val set_FullAddress_ns : fullAddress -> z -> fullAddress

type memoryAttributes = { memoryAttributes_type : z;
                          memoryAttributes_innerattrs : z;
                          memoryAttributes_outerattrs : z;
                          memoryAttributes_innerhints : z;
                          memoryAttributes_outerhints : z;
                          memoryAttributes_innertransient : z;
                          memoryAttributes_outertransient : z;
                          memoryAttributes_shareable : z;
                          memoryAttributes_outershareable : z }

val new_MemoryAttributes : memoryAttributes

val set_MemoryAttributes_type : memoryAttributes -> z -> memoryAttributes

val set_MemoryAttributes_innerattrs :
  memoryAttributes -> z -> memoryAttributes

val set_MemoryAttributes_outerattrs :
  memoryAttributes -> z -> memoryAttributes

val set_MemoryAttributes_innerhints :
  memoryAttributes -> z -> memoryAttributes

val set_MemoryAttributes_outerhints :
  memoryAttributes -> z -> memoryAttributes

val set_MemoryAttributes_innertransient :
  memoryAttributes -> z -> memoryAttributes

val set_MemoryAttributes_outertransient :
  memoryAttributes -> z -> memoryAttributes

val set_MemoryAttributes_shareable : memoryAttributes -> z -> memoryAttributes

val set_MemoryAttributes_outershareable :
  memoryAttributes -> z -> memoryAttributes

type addressDescriptor = { addressDescriptor_memattrs : memoryAttributes;
                           addressDescriptor_paddress : fullAddress }

val new_AddressDescriptor : addressDescriptor

val set_AddressDescriptor_memattrs :
  addressDescriptor -> memoryAttributes -> addressDescriptor

val set_AddressDescriptor_paddress :
  addressDescriptor -> fullAddress -> addressDescriptor

type permissions = { permissions_ap : z; permissions_xn : z;
                     permissions_pxn : z }

val new_Permissions : permissions

val set_Permissions_ap : permissions -> z -> permissions

val set_Permissions_xn : permissions -> z -> permissions

val set_Permissions_pxn : permissions -> z -> permissions

type tLBRecord = { tLBRecord_perms : permissions; tLBRecord_ng : z;
                   tLBRecord_domain : z; tLBRecord_contiguousbit : z;
                   tLBRecord_level : z; tLBRecord_blocksize : z;
                   tLBRecord_addrdesc : addressDescriptor }

val new_TLBRecord : tLBRecord

val set_TLBRecord_perms : tLBRecord -> permissions -> tLBRecord

val set_TLBRecord_ng : tLBRecord -> z -> tLBRecord

val set_TLBRecord_domain : tLBRecord -> z -> tLBRecord

val set_TLBRecord_contiguousbit : tLBRecord -> z -> tLBRecord

val set_TLBRecord_level : tLBRecord -> z -> tLBRecord

val set_TLBRecord_blocksize : tLBRecord -> z -> tLBRecord

val set_TLBRecord_addrdesc : tLBRecord -> addressDescriptor -> tLBRecord

val memory_controller_hub_to_int : z list -> z -> z res

val memory_controller_hub_from_int : z -> z -> z list res

val hub_get_memory_by_address : z -> (hub, z option) m

val rAM_read : z -> z -> (z list, z list) m

val rAM_getitem : (z * z) -> (z list, z list) m

val hub_getitem : (addressDescriptor * z) -> (hub, z) m

val rAM_write : z -> z -> z list -> (z list, unit) m

val rAM_setitem : (z * z) -> z list -> (z list, unit) m

val hub_setitem : (addressDescriptor * z) -> z -> (hub, unit) m

val hub_set_bits : addressDescriptor -> z -> z -> z -> z -> unit res

val ldrImmediateArm_instruction_syndrome :
  z -> z -> z -> z -> z -> z -> z -> z

val ldrImmediateThumb_instruction_syndrome :
  z -> z -> z -> z -> z -> z -> z -> z

val ldrLiteral_instruction_syndrome : z -> z -> z -> z -> z

val ldrRegisterArm_instruction_syndrome :
  z -> z -> z -> z -> z -> z -> z -> z -> z -> z

val ldrRegisterThumb_instruction_syndrome : z -> z -> z -> z -> z -> z -> z

val ldrbImmediateArm_instruction_syndrome :
  z -> z -> z -> z -> z -> z -> z -> z

val ldrbImmediateThumb_instruction_syndrome :
  z -> z -> z -> z -> z -> z -> z -> z

val ldrbLiteral_instruction_syndrome : z -> z -> z -> z -> z

val ldrbRegister_instruction_syndrome :
  z -> z -> z -> z -> z -> z -> z -> z -> z -> z

val ldrbt_instruction_syndrome :
  z -> z -> z -> z -> z -> z -> z -> z -> z -> z -> z

val ldrhImmediateArm_instruction_syndrome :
  z -> z -> z -> z -> z -> z -> z -> z

val ldrhImmediateThumb_instruction_syndrome :
  z -> z -> z -> z -> z -> z -> z -> z

val ldrhLiteral_instruction_syndrome : z -> z -> z -> z -> z

val ldrhRegister_instruction_syndrome :
  z -> z -> z -> z -> z -> z -> z -> z -> z -> z

val ldrht_instruction_syndrome : z -> z -> z -> z -> z -> z -> z -> z -> z

val ldrsbImmediate_instruction_syndrome : z -> z -> z -> z -> z -> z -> z -> z

val ldrsbLiteral_instruction_syndrome : z -> z -> z -> z -> z

val ldrsbRegister_instruction_syndrome :
  z -> z -> z -> z -> z -> z -> z -> z -> z -> z

val ldrsbt_instruction_syndrome : z -> z -> z -> z -> z -> z -> z -> z -> z

val ldrshImmediate_instruction_syndrome : z -> z -> z -> z -> z -> z -> z -> z

val ldrshLiteral_instruction_syndrome : z -> z -> z -> z -> z

val ldrshRegister_instruction_syndrome :
  z -> z -> z -> z -> z -> z -> z -> z -> z -> z

val ldrsht_instruction_syndrome : z -> z -> z -> z -> z -> z -> z -> z -> z

val ldrt_instruction_syndrome :
  z -> z -> z -> z -> z -> z -> z -> z -> z -> z -> z

val strImmediateArm_instruction_syndrome :
  z -> z -> z -> z -> z -> z -> z -> z

val strImmediateThumb_instruction_syndrome :
  z -> z -> z -> z -> z -> z -> z -> z

val strRegister_instruction_syndrome :
  z -> z -> z -> z -> z -> z -> z -> z -> z -> z

val strbImmediateArm_instruction_syndrome :
  z -> z -> z -> z -> z -> z -> z -> z

val strbImmediateThumb_instruction_syndrome :
  z -> z -> z -> z -> z -> z -> z -> z

val strbRegister_instruction_syndrome :
  z -> z -> z -> z -> z -> z -> z -> z -> z -> z

val strbt_instruction_syndrome :
  z -> z -> z -> z -> z -> z -> z -> z -> z -> z -> z

val strhImmediateArm_instruction_syndrome :
  z -> z -> z -> z -> z -> z -> z -> z

val strhImmediateThumb_instruction_syndrome :
  z -> z -> z -> z -> z -> z -> z -> z

val strhRegister_instruction_syndrome :
  z -> z -> z -> z -> z -> z -> z -> z -> z -> z

val strht_instruction_syndrome : z -> z -> z -> z -> z -> z -> z -> z -> z

val strt_instruction_syndrome :
  z -> z -> z -> z -> z -> z -> z -> z -> z -> z -> z

val instruction_syndrome_dispatch : opcode -> z res

val conf_have_security_ext : config -> z

val conf_have_virt_ext : config -> z

val conf_arch_version : config -> z

val conf_jazelle_accepts_execution : config -> z

val conf_memory_system_architecture : config -> z

val conf_have_lpae : config -> z

val conf_have_mp_ext : config -> z

val conf_implementation_supports_transient : config -> z

val conf_processor_id : config -> z

val conf_is_armv7r_profile : config -> z

val registers_pc_store_value : (machine, z) m

val registers_set_event_register : z -> (machine, unit) m

val registers_get_event_register : (machine, z) m

val registers_current_instr_set : (machine, z) m

val registers_select_instr_set : z -> (machine, unit) m

val registers_is_secure : config -> (machine, z) m

val registers_bad_mode : config -> z -> z

val registers_current_mode_is_not_user : config -> (machine, z) m

val registers_current_mode_is_hyp : config -> (machine, z) m

val registers_current_mode_is_user_or_system : config -> (machine, z) m

val registers_r_bank_select :
  config -> z -> z -> z -> z -> z -> z -> z -> z -> z -> z option

val registers_r_fiq_bank_select : config -> z -> z -> z -> z option

val registers_look_up_rname : config -> z -> z -> z option res

val registers_get_rmode : config -> z -> z -> (machine, z) m

val registers_set_rmode : config -> z -> z -> z -> (machine, unit) m

val registers_get : config -> z -> (machine, z) m

val registers_set : config -> z -> z -> (machine, unit) m

val registers_get_sp : config -> (machine, z) m

val registers_set_sp : config -> z -> (machine, unit) m

val registers_get_lr : config -> (machine, z) m

val registers_set_lr : config -> z -> (machine, unit) m

val registers_get_pc : config -> (machine, z) m

val registers_branch_to : z -> (machine, unit) m

val registers_get_spsr : config -> (machine, z) m

val registers_set_spsr : config -> z -> (machine, unit) m

val registers_it_advance : (machine, unit) m

val registers_cpsr_write_by_instr : config -> z -> z -> z -> (machine, unit) m

val registers_spsr_write_by_instr : config -> z -> z -> (machine, unit) m

val registers_is_external_abort : z

val registers_is_async_abort : z

val registers_debug_exception : z

val registers_exc_vector_base : config -> (machine, z) m

val registers_enter_hyp_mode : config -> z -> z -> z -> (machine, unit) m

val registers_enter_monitor_mode : config -> z -> z -> z -> (machine, unit) m

val registers_take_hyp_trap_exception : config -> (machine, unit) m

val registers_take_smc_exception : config -> (machine, unit) m

val dataAbortException_second_stage_abort : z -> z -> z

val dataAbortException_is_alignment_fault : z -> z -> z

val registers_take_data_abort_exception : config -> exn -> (machine, unit) m

val registers_take_undef_instr_exception : config -> (machine, unit) m

val registers_take_svc_exception : config -> (machine, unit) m

val registers_increment_pc : z -> (machine, unit) m

val armV6_encode_ldfsr : z -> z -> z

val armV6_encode_sdfsr : z -> z -> z

val armV6_encode_pmsafsr : z -> z

val armV6_current_cond : (machine, z) m

val armV6_condition_passed : (machine, z) m

val armV6_this_instr_length : (machine, z) m

val armV6_this_instr : (machine, z) m

val armV6_write_hsr : config -> z -> z -> (machine, unit) m

val armV6_switch_to_jazelle_execution : unit res

val armV6_branch_write_pc : config -> z -> (machine, unit) m

val armV6_bx_write_pc : z -> (machine, unit) m

val armV6_alu_write_pc : config -> z -> (machine, unit) m

val armV6_load_write_pc : config -> z -> (machine, unit) m

val armV6_tlb_lookup_came_from_cache_maintenance : unit res

val armV6_ls_instruction_syndrome : (machine, z) m

val armV6_null_check_if_thumbee : config -> z -> (machine, unit) m

val armV6_fcse_translate : z -> (machine, z) m

val armV6_default_memory_attributes : z -> (machine, memoryAttributes) m

val armV6_convert_attrs_hints : z -> z

val armV6_data_abort :
  config -> z -> z -> z -> z -> z -> z -> z -> z -> z -> z -> z -> (machine,
  unit) m

val armV6_check_permission :
  config -> permissions -> z -> z -> z -> z -> z -> z -> z -> (machine, unit)
  m

val armV6_check_permission_s2 :
  config -> permissions -> z -> z -> z -> z -> z -> (machine, unit) m

val armV6_check_domain : config -> z -> z -> z -> z -> (machine, z) m

val armV6_mair_decode : config -> z -> (machine, memoryAttributes) m

val armV6_s2_attr_decode : z -> memoryAttributes

val armV6_translation_table_walk_ld :
  config -> z -> z -> z -> z -> z -> z -> (machine, tLBRecord) m

val armV6_combine_s1s2_desc :
  addressDescriptor -> addressDescriptor -> addressDescriptor

val armV6_second_stage_translate :
  config -> addressDescriptor -> z -> z -> z -> (machine, addressDescriptor) m

val armV6_alignment_fault_v : config -> z -> z -> z -> z -> (machine, unit) m

val armV6_alignment_fault_p : config -> z -> z -> (machine, unit) m

val armV6_alignment_fault : config -> z -> z -> (machine, unit) m

val armV6_remap_regs_have_reset_values : unit res

val armV6_default_tex_decode : z -> z -> memoryAttributes

val armV6_remapped_tex_decode : z -> z -> (machine, memoryAttributes) m

val armV6_translation_table_walk_sd :
  config -> z -> z -> z -> (machine, tLBRecord) m

val armV6_translate_address_v_s1_off : config -> z -> (machine, tLBRecord) m

val armV6_translate_address_v :
  config -> z -> z -> z -> z -> z -> (machine, addressDescriptor) m

val armV6_translate_address_p :
  config -> z -> z -> z -> z -> (machine, addressDescriptor) m

val armV6_translate_address :
  config -> z -> z -> z -> z -> z -> (machine, addressDescriptor option) m

val armV6_is_exclusive_local : fullAddress -> z -> z -> z

val armV6_is_exclusive_global : fullAddress -> z -> z -> z

val armV6_bkpt_instr_debug_event : unit res

val armV6_exclusive_monitors_pass : config -> z -> z -> (machine, z) m

val armV6_set_exclusive_monitors : config -> z -> z -> (machine, unit) m

val armV6_mem_a_with_priv_set :
  config -> z -> z -> z -> z -> z -> (machine, unit) m

val armV6_mem_a_with_priv_get : config -> z -> z -> z -> z -> (machine, z) m

val armV6_mem_a_set : config -> z -> z -> z -> (machine, unit) m

val armV6_mem_a_get : config -> z -> z -> (machine, z) m

val armV6_mem_u_with_priv_set :
  config -> z -> z -> z -> z -> (machine, unit) m

val armV6_mem_u_with_priv_get : config -> z -> z -> z -> (machine, z) m

val armV6_mem_u_unpriv_get : config -> z -> z -> (machine, z) m

val armV6_mem_u_unpriv_set : config -> z -> z -> z -> (machine, unit) m

val armV6_mem_u_get : config -> z -> z -> (machine, z) m

val armV6_mem_u_set : config -> z -> z -> z -> (machine, unit) m

val armV6_big_endian : (machine, z) m

val armV6_unaligned_support : (machine, z) m

val armV6_hint_yield : unit res

val armV6_clear_event_register : (machine, unit) m

val armV6_event_registered : (machine, z) m

val armV6_send_event : unit res

val armV6_wait_for_event : (machine, unit) m

val armV6_wait_for_interrupt : (machine, unit) m

val armV6_integer_zero_divide_trapping_enabled : config -> (machine, z) m

val armV6_generate_integer_zero_divide : unit res

val armV6_generate_coprocessor_exception : unit res

val armV6_call_supervisor : config -> z -> (machine, unit) m

val armV6_cpx_instr_decode : z -> unit res

val armV6_cp15_instr_decode : z -> unit res

val armV6_cp14_debug_instr_decode : z -> unit res

val armV6_cp14_trace_instr_decode : z -> unit res

val armV6_cp14_jazelle_instr_decode : z -> unit res

val armV6_instr_is_pl0_undefined : z -> unit res

val armV6_coproc_accepted : config -> z -> z -> (machine, z option) m

val armV6_coproc_get_word_to_store : z -> z -> unit res

val armV6_coproc_done_storing : z -> z -> unit res

val armV6_coproc_done_loading : z -> z -> unit res

val armV6_coproc_send_loaded_word : z -> z -> z -> unit res

val armV6_coproc_send_two_words : z -> z -> z -> z -> unit res

val armV6_coproc_get_two_words : z -> z -> unit res

val armV6_coproc_internal_operation : z -> z -> unit res

val armV6_coproc_send_one_word : z -> z -> z -> unit res

val armV6_coproc_get_one_word : z -> z -> unit res

val armV6_hint_preload_data_for_write : z -> unit res

val armV6_hint_preload_data : z -> unit res

val armV6_data_synchronization_barrier : z -> z -> unit res

val armV6_instruction_synchronization_barrier : unit res

val armV6_in_it_block : (machine, z) m

val armV6_last_in_it_block : (machine, z) m

val armV6_increment_pc_if_needed : (machine, unit) m

val armV6_fetch_instruction : config -> (machine, z) m

val adcImmediate_execute :
  config -> z -> z -> z -> z -> z -> (machine, unit) m

val adcRegister_execute :
  config -> z -> z -> z -> z -> z -> z -> z -> (machine, unit) m

val adcRegisterShiftedRegister_execute :
  config -> z -> z -> z -> z -> z -> z -> z -> (machine, unit) m

val addImmediateArm_execute :
  config -> z -> z -> z -> z -> z -> (machine, unit) m

val addImmediateThumb_execute :
  config -> z -> z -> z -> z -> z -> (machine, unit) m

val addRegisterArm_execute :
  config -> z -> z -> z -> z -> z -> z -> z -> (machine, unit) m

val addRegisterShiftedRegister_execute :
  config -> z -> z -> z -> z -> z -> z -> z -> (machine, unit) m

val addRegisterThumb_execute :
  config -> z -> z -> z -> z -> z -> z -> z -> (machine, unit) m

val addSpPlusImmediate_execute :
  config -> z -> z -> z -> z -> (machine, unit) m

val addSpPlusRegisterArm_execute :
  config -> z -> z -> z -> z -> z -> z -> (machine, unit) m

val addSpPlusRegisterThumb_execute :
  config -> z -> z -> z -> z -> z -> z -> (machine, unit) m

val adr_execute : config -> z -> z -> z -> z -> (machine, unit) m

val andImmediate_execute :
  config -> z -> z -> z -> z -> z -> z -> (machine, unit) m

val andRegister_execute :
  config -> z -> z -> z -> z -> z -> z -> z -> (machine, unit) m

val andRegisterShiftedRegister_execute :
  config -> z -> z -> z -> z -> z -> z -> z -> (machine, unit) m

val asrImmediate_execute :
  config -> z -> z -> z -> z -> z -> (machine, unit) m

val asrRegister_execute : config -> z -> z -> z -> z -> z -> (machine, unit) m

val b_execute : config -> z -> z -> (machine, unit) m

val bfc_execute : config -> z -> z -> z -> z -> (machine, unit) m

val bfi_execute : config -> z -> z -> z -> z -> z -> (machine, unit) m

val bicImmediate_execute :
  config -> z -> z -> z -> z -> z -> z -> (machine, unit) m

val bicRegister_execute :
  config -> z -> z -> z -> z -> z -> z -> z -> (machine, unit) m

val bicRegisterShiftedRegister_execute :
  config -> z -> z -> z -> z -> z -> z -> z -> (machine, unit) m

val bkpt_execute : z -> unit res

val blBlxImmediate_execute : config -> z -> z -> z -> (machine, unit) m

val blxRegister_execute : config -> z -> z -> (machine, unit) m

val bx_execute : config -> z -> z -> (machine, unit) m

val bxj_execute : config -> z -> z -> (machine, unit) m

val cbz_execute : config -> z -> z -> z -> z -> (machine, unit) m

val cdpCdp2_execute : config -> z -> z -> (machine, unit) m

val clrex_execute : config -> z -> (machine, unit) m

val clz_execute : config -> z -> z -> z -> (machine, unit) m

val cmnImmediate_execute : config -> z -> z -> z -> (machine, unit) m

val cmnRegister_execute : config -> z -> z -> z -> z -> z -> (machine, unit) m

val cmnRegisterShiftedRegister_execute :
  config -> z -> z -> z -> z -> z -> (machine, unit) m

val cmpImmediate_execute : config -> z -> z -> z -> (machine, unit) m

val cmpRegister_execute : config -> z -> z -> z -> z -> z -> (machine, unit) m

val cmpRegisterShiftedRegister_execute :
  config -> z -> z -> z -> z -> z -> (machine, unit) m

val cpsArm_execute :
  config -> z -> z -> z -> z -> z -> z -> z -> z -> (machine, unit) m

val cpsThumb_execute :
  config -> z -> z -> z -> z -> z -> z -> z -> z -> (machine, unit) m

val dsb_execute : config -> z -> z -> (machine, unit) m

val enterxLeavex_execute : config -> z -> z -> (machine, unit) m

val eorImmediate_execute :
  config -> z -> z -> z -> z -> z -> z -> (machine, unit) m

val eorRegister_execute :
  config -> z -> z -> z -> z -> z -> z -> z -> (machine, unit) m

val eorRegisterShiftedRegister_execute :
  config -> z -> z -> z -> z -> z -> z -> z -> (machine, unit) m

val eret_execute : config -> z -> (machine, unit) m

val isb_execute : z -> (machine, unit) m

val it_execute : z -> z -> z -> (machine, unit) m

val ldcLdc2Immediate_execute :
  config -> z -> z -> z -> z -> z -> z -> z -> (machine, unit) m

val ldcLdc2Literal_execute :
  config -> z -> z -> z -> z -> z -> (machine, unit) m

val ldmArm_execute : config -> z -> z -> z -> z -> (machine, unit) m

val ldmExceptionReturn_execute :
  config -> z -> z -> z -> z -> z -> z -> (machine, unit) m

val ldmThumb_execute : config -> z -> z -> z -> z -> (machine, unit) m

val ldmUserRegisters_execute :
  config -> z -> z -> z -> z -> z -> (machine, unit) m

val ldmda_execute : config -> z -> z -> z -> z -> (machine, unit) m

val ldmdb_execute : config -> z -> z -> z -> z -> (machine, unit) m

val ldmib_execute : config -> z -> z -> z -> z -> (machine, unit) m

val ldrImmediateArm_execute :
  config -> z -> z -> z -> z -> z -> z -> z -> (machine, unit) m

val ldrImmediateThumb_execute :
  config -> z -> z -> z -> z -> z -> z -> z -> (machine, unit) m

val ldrLiteral_execute : config -> z -> z -> z -> z -> (machine, unit) m

val ldrRegisterArm_execute :
  config -> z -> z -> z -> z -> z -> z -> z -> z -> z -> (machine, unit) m

val ldrRegisterThumb_execute :
  config -> z -> z -> z -> z -> z -> z -> (machine, unit) m

val ldrbImmediateArm_execute :
  config -> z -> z -> z -> z -> z -> z -> z -> (machine, unit) m

val ldrbImmediateThumb_execute :
  config -> z -> z -> z -> z -> z -> z -> z -> (machine, unit) m

val ldrbLiteral_execute : config -> z -> z -> z -> z -> (machine, unit) m

val ldrbRegister_execute :
  config -> z -> z -> z -> z -> z -> z -> z -> z -> z -> (machine, unit) m

val ldrbt_execute :
  config -> z -> z -> z -> z -> z -> z -> z -> z -> z -> z -> (machine, unit)
  m

val ldrdImmediate_execute :
  config -> z -> z -> z -> z -> z -> z -> z -> z -> (machine, unit) m

val ldrdLiteral_execute : config -> z -> z -> z -> z -> z -> (machine, unit) m

val ldrdRegister_execute :
  config -> z -> z -> z -> z -> z -> z -> z -> z -> (machine, unit) m

val ldrex_execute : config -> z -> z -> z -> z -> (machine, unit) m

val ldrexb_execute : config -> z -> z -> z -> (machine, unit) m

val ldrexd_execute : config -> z -> z -> z -> z -> (machine, unit) m

val ldrexh_execute : config -> z -> z -> z -> (machine, unit) m

val ldrhImmediateArm_execute :
  config -> z -> z -> z -> z -> z -> z -> z -> (machine, unit) m

val ldrhImmediateThumb_execute :
  config -> z -> z -> z -> z -> z -> z -> z -> (machine, unit) m

val ldrhLiteral_execute : config -> z -> z -> z -> z -> (machine, unit) m

val ldrhRegister_execute :
  config -> z -> z -> z -> z -> z -> z -> z -> z -> z -> (machine, unit) m

val ldrht_execute :
  config -> z -> z -> z -> z -> z -> z -> z -> z -> (machine, unit) m

val ldrsbImmediate_execute :
  config -> z -> z -> z -> z -> z -> z -> z -> (machine, unit) m

val ldrsbLiteral_execute : config -> z -> z -> z -> z -> (machine, unit) m

val ldrsbRegister_execute :
  config -> z -> z -> z -> z -> z -> z -> z -> z -> z -> (machine, unit) m

val ldrsbt_execute :
  config -> z -> z -> z -> z -> z -> z -> z -> z -> (machine, unit) m

val ldrshImmediate_execute :
  config -> z -> z -> z -> z -> z -> z -> z -> (machine, unit) m

val ldrshLiteral_execute : config -> z -> z -> z -> z -> (machine, unit) m

val ldrshRegister_execute :
  config -> z -> z -> z -> z -> z -> z -> z -> z -> z -> (machine, unit) m

val ldrsht_execute :
  config -> z -> z -> z -> z -> z -> z -> z -> z -> (machine, unit) m

val ldrt_execute :
  config -> z -> z -> z -> z -> z -> z -> z -> z -> z -> z -> (machine, unit)
  m

val lslImmediate_execute :
  config -> z -> z -> z -> z -> z -> (machine, unit) m

val lslRegister_execute : config -> z -> z -> z -> z -> z -> (machine, unit) m

val lsrImmediate_execute :
  config -> z -> z -> z -> z -> z -> (machine, unit) m

val lsrRegister_execute : config -> z -> z -> z -> z -> z -> (machine, unit) m

val mcrMcr2_execute : config -> z -> z -> z -> (machine, unit) m

val mcrrMcrr2_execute : config -> z -> z -> z -> z -> (machine, unit) m

val mla_execute : config -> z -> z -> z -> z -> z -> z -> (machine, unit) m

val mls_execute : config -> z -> z -> z -> z -> z -> (machine, unit) m

val movImmediate_execute :
  config -> z -> z -> z -> z -> z -> (machine, unit) m

val movRegisterArm_execute : config -> z -> z -> z -> z -> (machine, unit) m

val movRegisterThumb_execute : config -> z -> z -> z -> z -> (machine, unit) m

val movt_execute : config -> z -> z -> z -> (machine, unit) m

val mrcMrc2_execute : config -> z -> z -> z -> (machine, unit) m

val mrrcMrrc2_execute : config -> z -> z -> z -> z -> (machine, unit) m

val mrsApplication_execute : config -> z -> z -> (machine, unit) m

val mrsSystem_execute : config -> z -> z -> z -> (machine, unit) m

val msrImmediateApplication_execute : z -> z -> z -> z -> (machine, unit) m

val msrImmediateSystem_execute :
  config -> z -> z -> z -> z -> (machine, unit) m

val msrRegisterApplication_execute :
  config -> z -> z -> z -> z -> (machine, unit) m

val msrRegisterSystem_execute :
  config -> z -> z -> z -> z -> (machine, unit) m

val mul_execute : config -> z -> z -> z -> z -> z -> (machine, unit) m

val mvnImmediate_execute :
  config -> z -> z -> z -> z -> z -> (machine, unit) m

val mvnRegister_execute :
  config -> z -> z -> z -> z -> z -> z -> (machine, unit) m

val mvnRegisterShiftedRegister_execute :
  config -> z -> z -> z -> z -> z -> z -> (machine, unit) m

val nop_execute : z -> (machine, unit) m

val ornImmediate_execute :
  config -> z -> z -> z -> z -> z -> z -> (machine, unit) m

val ornRegister_execute :
  config -> z -> z -> z -> z -> z -> z -> z -> (machine, unit) m

val orrImmediate_execute :
  config -> z -> z -> z -> z -> z -> z -> (machine, unit) m

val orrRegister_execute :
  config -> z -> z -> z -> z -> z -> z -> z -> (machine, unit) m

val orrRegisterShiftedRegister_execute :
  config -> z -> z -> z -> z -> z -> z -> z -> (machine, unit) m

val pkh_execute :
  config -> z -> z -> z -> z -> z -> z -> z -> (machine, unit) m

val pldImmediate_execute :
  config -> z -> z -> z -> z -> z -> (machine, unit) m

val pldLiteral_execute : config -> z -> z -> z -> (machine, unit) m

val pldRegister_execute :
  config -> z -> z -> z -> z -> z -> z -> z -> (machine, unit) m

val popArm_execute : config -> z -> z -> z -> (machine, unit) m

val popThumb_execute : config -> z -> z -> z -> (machine, unit) m

val push_execute : config -> z -> z -> z -> (machine, unit) m

val qadd_execute : config -> z -> z -> z -> z -> (machine, unit) m

val qadd16_execute : config -> z -> z -> z -> z -> (machine, unit) m

val qadd8_execute : config -> z -> z -> z -> z -> (machine, unit) m

val qasx_execute : config -> z -> z -> z -> z -> (machine, unit) m

val qdadd_execute : config -> z -> z -> z -> z -> (machine, unit) m

val qdsub_execute : config -> z -> z -> z -> z -> (machine, unit) m

val qsax_execute : config -> z -> z -> z -> z -> (machine, unit) m

val qsub_execute : config -> z -> z -> z -> z -> (machine, unit) m

val qsub16_execute : config -> z -> z -> z -> z -> (machine, unit) m

val qsub8_execute : config -> z -> z -> z -> z -> (machine, unit) m

val rbit_execute : config -> z -> z -> z -> (machine, unit) m

val rev_execute : config -> z -> z -> z -> (machine, unit) m

val rev16_execute : config -> z -> z -> z -> (machine, unit) m

val revsh_execute : config -> z -> z -> z -> (machine, unit) m

val rfe_execute : config -> z -> z -> z -> z -> z -> (machine, unit) m

val rorImmediate_execute :
  config -> z -> z -> z -> z -> z -> (machine, unit) m

val rorRegister_execute : config -> z -> z -> z -> z -> z -> (machine, unit) m

val rrx_execute : config -> z -> z -> z -> z -> (machine, unit) m

val rsbImmediate_execute :
  config -> z -> z -> z -> z -> z -> (machine, unit) m

val rsbRegister_execute :
  config -> z -> z -> z -> z -> z -> z -> z -> (machine, unit) m

val rsbRegisterShiftedRegister_execute :
  config -> z -> z -> z -> z -> z -> z -> z -> (machine, unit) m

val rscImmediate_execute :
  config -> z -> z -> z -> z -> z -> (machine, unit) m

val rscRegister_execute :
  config -> z -> z -> z -> z -> z -> z -> z -> (machine, unit) m

val rscRegisterShiftedRegister_execute :
  config -> z -> z -> z -> z -> z -> z -> z -> (machine, unit) m

val sadd16_execute : config -> z -> z -> z -> z -> (machine, unit) m

val sadd8_execute : config -> z -> z -> z -> z -> (machine, unit) m

val sasx_execute : config -> z -> z -> z -> z -> (machine, unit) m

val sbcImmediate_execute :
  config -> z -> z -> z -> z -> z -> (machine, unit) m

val sbcRegister_execute :
  config -> z -> z -> z -> z -> z -> z -> z -> (machine, unit) m

val sbcRegisterShiftedRegister_execute :
  config -> z -> z -> z -> z -> z -> z -> z -> (machine, unit) m

val sbfx_execute : config -> z -> z -> z -> z -> z -> (machine, unit) m

val sdiv_execute : config -> z -> z -> z -> z -> (machine, unit) m

val sel_execute : config -> z -> z -> z -> z -> (machine, unit) m

val setend_execute : z -> z -> (machine, unit) m

val sev_execute : z -> (machine, unit) m

val shadd16_execute : config -> z -> z -> z -> z -> (machine, unit) m

val shadd8_execute : config -> z -> z -> z -> z -> (machine, unit) m

val shasx_execute : config -> z -> z -> z -> z -> (machine, unit) m

val shsax_execute : config -> z -> z -> z -> z -> (machine, unit) m

val shsub16_execute : config -> z -> z -> z -> z -> (machine, unit) m

val shsub8_execute : config -> z -> z -> z -> z -> (machine, unit) m

val smc_execute : config -> z -> (machine, unit) m

val smla_execute :
  config -> z -> z -> z -> z -> z -> z -> z -> (machine, unit) m

val smlad_execute : config -> z -> z -> z -> z -> z -> z -> (machine, unit) m

val smlal_execute : config -> z -> z -> z -> z -> z -> z -> (machine, unit) m

val smlald_execute : config -> z -> z -> z -> z -> z -> z -> (machine, unit) m

val smlalxy_execute :
  config -> z -> z -> z -> z -> z -> z -> z -> (machine, unit) m

val smlaw_execute : config -> z -> z -> z -> z -> z -> z -> (machine, unit) m

val smlsd_execute : config -> z -> z -> z -> z -> z -> z -> (machine, unit) m

val smlsld_execute : config -> z -> z -> z -> z -> z -> z -> (machine, unit) m

val smmla_execute : config -> z -> z -> z -> z -> z -> z -> (machine, unit) m

val smmls_execute : config -> z -> z -> z -> z -> z -> z -> (machine, unit) m

val smmul_execute : config -> z -> z -> z -> z -> z -> (machine, unit) m

val smuad_execute : config -> z -> z -> z -> z -> z -> (machine, unit) m

val smul_execute : config -> z -> z -> z -> z -> z -> z -> (machine, unit) m

val smull_execute : config -> z -> z -> z -> z -> z -> z -> (machine, unit) m

val smulw_execute : config -> z -> z -> z -> z -> z -> (machine, unit) m

val smusd_execute : config -> z -> z -> z -> z -> z -> (machine, unit) m

val srsArm_execute : config -> z -> z -> z -> z -> z -> (machine, unit) m

val srsThumb_execute : config -> z -> z -> z -> z -> z -> (machine, unit) m

val ssat_execute : config -> z -> z -> z -> z -> z -> z -> (machine, unit) m

val ssat16_execute : config -> z -> z -> z -> z -> (machine, unit) m

val ssax_execute : config -> z -> z -> z -> z -> (machine, unit) m

val ssub16_execute : config -> z -> z -> z -> z -> (machine, unit) m

val ssub8_execute : config -> z -> z -> z -> z -> (machine, unit) m

val stcStc2_execute :
  config -> z -> z -> z -> z -> z -> z -> z -> (machine, unit) m

val stm_execute : config -> z -> z -> z -> z -> (machine, unit) m

val stmUserRegisters_execute :
  config -> z -> z -> z -> z -> z -> (machine, unit) m

val stmda_execute : config -> z -> z -> z -> z -> (machine, unit) m

val stmdb_execute : config -> z -> z -> z -> z -> (machine, unit) m

val stmib_execute : config -> z -> z -> z -> z -> (machine, unit) m

val strImmediateArm_execute :
  config -> z -> z -> z -> z -> z -> z -> z -> (machine, unit) m

val strImmediateThumb_execute :
  config -> z -> z -> z -> z -> z -> z -> z -> (machine, unit) m

val strRegister_execute :
  config -> z -> z -> z -> z -> z -> z -> z -> z -> z -> (machine, unit) m

val strbImmediateArm_execute :
  config -> z -> z -> z -> z -> z -> z -> z -> (machine, unit) m

val strbImmediateThumb_execute :
  config -> z -> z -> z -> z -> z -> z -> z -> (machine, unit) m

val strbRegister_execute :
  config -> z -> z -> z -> z -> z -> z -> z -> z -> z -> (machine, unit) m

val strbt_execute :
  config -> z -> z -> z -> z -> z -> z -> z -> z -> z -> z -> (machine, unit)
  m

val strdImmediate_execute :
  config -> z -> z -> z -> z -> z -> z -> z -> z -> (machine, unit) m

val strdRegister_execute :
  config -> z -> z -> z -> z -> z -> z -> z -> z -> (machine, unit) m

val strex_execute : config -> z -> z -> z -> z -> z -> (machine, unit) m

val strexb_execute : config -> z -> z -> z -> z -> (machine, unit) m

val strexd_execute : config -> z -> z -> z -> z -> z -> (machine, unit) m

val strexh_execute : config -> z -> z -> z -> z -> (machine, unit) m

val strhImmediateArm_execute :
  config -> z -> z -> z -> z -> z -> z -> z -> (machine, unit) m

val strhImmediateThumb_execute :
  config -> z -> z -> z -> z -> z -> z -> z -> (machine, unit) m

val strhRegister_execute :
  config -> z -> z -> z -> z -> z -> z -> z -> z -> z -> (machine, unit) m

val strht_execute :
  config -> z -> z -> z -> z -> z -> z -> z -> z -> (machine, unit) m

val strt_execute :
  config -> z -> z -> z -> z -> z -> z -> z -> z -> z -> z -> (machine, unit)
  m

val subImmediateArm_execute :
  config -> z -> z -> z -> z -> z -> (machine, unit) m

val subImmediateThumb_execute :
  config -> z -> z -> z -> z -> z -> (machine, unit) m

val subRegister_execute :
  config -> z -> z -> z -> z -> z -> z -> z -> (machine, unit) m

val subRegisterShiftedRegister_execute :
  config -> z -> z -> z -> z -> z -> z -> z -> (machine, unit) m

val subSpMinusImmediate_execute :
  config -> z -> z -> z -> z -> (machine, unit) m

val subSpMinusRegister_execute :
  config -> z -> z -> z -> z -> z -> z -> (machine, unit) m

val subsPcLrArm_execute :
  config -> z -> z -> z -> z -> z -> z -> z -> z -> (machine, unit) m

val subsPcLrThumb_execute : config -> z -> z -> z -> (machine, unit) m

val svc_execute : config -> z -> z -> (machine, unit) m

val sxtab_execute : config -> z -> z -> z -> z -> z -> (machine, unit) m

val sxtab16_execute : config -> z -> z -> z -> z -> z -> (machine, unit) m

val sxtah_execute : config -> z -> z -> z -> z -> z -> (machine, unit) m

val sxtb_execute : config -> z -> z -> z -> z -> (machine, unit) m

val sxtb16_execute : config -> z -> z -> z -> z -> (machine, unit) m

val sxth_execute : config -> z -> z -> z -> z -> (machine, unit) m

val tbbTbh_execute : config -> z -> z -> z -> z -> (machine, unit) m

val teqImmediate_execute : config -> z -> z -> z -> z -> (machine, unit) m

val teqRegister_execute : config -> z -> z -> z -> z -> z -> (machine, unit) m

val teqRegisterShiftedRegister_execute :
  config -> z -> z -> z -> z -> z -> (machine, unit) m

val tstImmediate_execute : config -> z -> z -> z -> z -> (machine, unit) m

val tstRegister_execute : config -> z -> z -> z -> z -> z -> (machine, unit) m

val tstRegisterShiftedRegister_execute :
  config -> z -> z -> z -> z -> z -> (machine, unit) m

val uadd16_execute : config -> z -> z -> z -> z -> (machine, unit) m

val uadd8_execute : config -> z -> z -> z -> z -> (machine, unit) m

val uasx_execute : config -> z -> z -> z -> z -> (machine, unit) m

val ubfx_execute : config -> z -> z -> z -> z -> z -> (machine, unit) m

val udf_execute : z -> (machine, unit) m

val udiv_execute : config -> z -> z -> z -> z -> (machine, unit) m

val uhadd16_execute : config -> z -> z -> z -> z -> (machine, unit) m

val uhadd8_execute : config -> z -> z -> z -> z -> (machine, unit) m

val uhasx_execute : config -> z -> z -> z -> z -> (machine, unit) m

val uhsax_execute : config -> z -> z -> z -> z -> (machine, unit) m

val uhsub16_execute : config -> z -> z -> z -> z -> (machine, unit) m

val uhsub8_execute : config -> z -> z -> z -> z -> (machine, unit) m

val umaal_execute : config -> z -> z -> z -> z -> z -> (machine, unit) m

val umlal_execute : config -> z -> z -> z -> z -> z -> z -> (machine, unit) m

val umull_execute : config -> z -> z -> z -> z -> z -> z -> (machine, unit) m

val uqadd16_execute : config -> z -> z -> z -> z -> (machine, unit) m

val uqadd8_execute : config -> z -> z -> z -> z -> (machine, unit) m

val uqasx_execute : config -> z -> z -> z -> z -> (machine, unit) m

val uqsax_execute : config -> z -> z -> z -> z -> (machine, unit) m

val uqsub16_execute : config -> z -> z -> z -> z -> (machine, unit) m

val uqsub8_execute : config -> z -> z -> z -> z -> (machine, unit) m

val usad8_execute : config -> z -> z -> z -> z -> (machine, unit) m

val usada8_execute : config -> z -> z -> z -> z -> z -> (machine, unit) m

val usat_execute : config -> z -> z -> z -> z -> z -> z -> (machine, unit) m

val usat16_execute : config -> z -> z -> z -> z -> (machine, unit) m

val usax_execute : config -> z -> z -> z -> z -> (machine, unit) m

val usub16_execute : config -> z -> z -> z -> z -> (machine, unit) m

val usub8_execute : config -> z -> z -> z -> z -> (machine, unit) m

val uxtab_execute : config -> z -> z -> z -> z -> z -> (machine, unit) m

val uxtab16_execute : config -> z -> z -> z -> z -> z -> (machine, unit) m

val uxtah_execute : config -> z -> z -> z -> z -> z -> (machine, unit) m

val uxtb_execute : config -> z -> z -> z -> z -> (machine, unit) m

val uxtb16_execute : config -> z -> z -> z -> z -> (machine, unit) m

val uxth_execute : config -> z -> z -> z -> z -> (machine, unit) m

val wfe_execute : config -> z -> (machine, unit) m

val wfi_execute : config -> z -> (machine, unit) m

val yield_execute : z -> (machine, unit) m

val adcImmediateA1_from_bitarray : z -> opcode res

val adcImmediateT1_from_bitarray : z -> opcode option res

val adcRegisterA1_from_bitarray : z -> opcode res

val adcRegisterShiftedRegisterA1_from_bitarray : z -> opcode option res

val adcRegisterT1_from_bitarray : z -> (machine, opcode) m

val adcRegisterT2_from_bitarray : z -> opcode option res

val addImmediateArmA1_from_bitarray : z -> (machine, opcode) m

val addImmediateThumbT1_from_bitarray : z -> (machine, opcode) m

val addImmediateThumbT2_from_bitarray : z -> (machine, opcode) m

val addImmediateThumbT3_from_bitarray : z -> (machine, opcode option) m

val addImmediateThumbT4_from_bitarray : z -> opcode option

val addRegisterArmA1_from_bitarray : z -> opcode res

val addRegisterShiftedRegisterA1_from_bitarray : z -> opcode option res

val addRegisterThumbT1_from_bitarray : z -> (machine, opcode) m

val addRegisterThumbT2_from_bitarray : z -> (machine, opcode option) m

val addRegisterThumbT3_from_bitarray : z -> opcode option res

val addSpPlusImmediateA1_from_bitarray : z -> (machine, opcode) m

val addSpPlusImmediateT1_from_bitarray : z -> opcode

val addSpPlusImmediateT2_from_bitarray : z -> opcode

val addSpPlusImmediateT3_from_bitarray : z -> opcode option res

val addSpPlusImmediateT4_from_bitarray : z -> opcode option

val addSpPlusRegisterArmA1_from_bitarray : z -> opcode res

val addSpPlusRegisterThumbT1_from_bitarray : z -> (machine, opcode option) m

val addSpPlusRegisterThumbT2_from_bitarray : z -> opcode

val addSpPlusRegisterThumbT3_from_bitarray : z -> opcode option res

val adrA1_from_bitarray : z -> opcode res

val adrA2_from_bitarray : z -> opcode res

val adrT1_from_bitarray : z -> opcode

val adrT2_from_bitarray : z -> opcode option

val adrT3_from_bitarray : z -> opcode option

val andImmediateA1_from_bitarray : z -> (machine, opcode) m

val andImmediateT1_from_bitarray : z -> (machine, opcode option) m

val andRegisterA1_from_bitarray : z -> opcode res

val andRegisterShiftedRegisterA1_from_bitarray : z -> opcode option res

val andRegisterT1_from_bitarray : z -> (machine, opcode) m

val andRegisterT2_from_bitarray : z -> opcode option res

val asrImmediateA1_from_bitarray : z -> opcode res

val asrImmediateT1_from_bitarray : z -> (machine, opcode) m

val asrImmediateT2_from_bitarray : z -> opcode option res

val asrRegisterA1_from_bitarray : z -> opcode option

val asrRegisterT1_from_bitarray : z -> (machine, opcode) m

val asrRegisterT2_from_bitarray : z -> opcode option

val bA1_from_bitarray : z -> opcode

val bT1_from_bitarray : z -> (machine, opcode option) m

val bT2_from_bitarray : z -> (machine, opcode option) m

val bT3_from_bitarray : z -> (machine, opcode option) m

val bT4_from_bitarray : z -> (machine, opcode option) m

val bfcA1_from_bitarray : z -> opcode option

val bfcT1_from_bitarray : z -> opcode option

val bfiA1_from_bitarray : z -> opcode option

val bfiT1_from_bitarray : z -> opcode option

val bicImmediateA1_from_bitarray : z -> (machine, opcode) m

val bicImmediateT1_from_bitarray : z -> (machine, opcode option) m

val bicRegisterA1_from_bitarray : z -> opcode res

val bicRegisterShiftedRegisterA1_from_bitarray : z -> opcode option res

val bicRegisterT1_from_bitarray : z -> (machine, opcode) m

val bicRegisterT2_from_bitarray : z -> opcode option res

val bkptA1_from_bitarray : z -> opcode option

val bkptT1_from_bitarray : z -> opcode

val blBlxImmediateA1_from_bitarray : z -> opcode

val blBlxImmediateA2_from_bitarray : z -> opcode

val blBlxImmediateT1_from_bitarray : z -> (machine, opcode option) m

val blBlxImmediateT2_from_bitarray : z -> (machine, opcode option) m

val blxRegisterA1_from_bitarray : z -> opcode option

val blxRegisterT1_from_bitarray : z -> (machine, opcode option) m

val bxA1_from_bitarray : z -> opcode

val bxT1_from_bitarray : z -> (machine, opcode option) m

val bxjA1_from_bitarray : z -> opcode option

val bxjT1_from_bitarray : z -> (machine, opcode option) m

val cbzT1_from_bitarray : z -> opcode

val cdpCdp2A1_from_bitarray : z -> opcode

val cdpCdp2A2_from_bitarray : z -> opcode res

val cdpCdp2T1_from_bitarray : z -> opcode

val cdpCdp2T2_from_bitarray : z -> opcode res

val clrexA1_from_bitarray : z -> opcode

val clrexT1_from_bitarray : z -> opcode

val clzA1_from_bitarray : z -> opcode option

val clzT1_from_bitarray : z -> opcode option

val cmnImmediateA1_from_bitarray : z -> opcode res

val cmnImmediateT1_from_bitarray : z -> opcode option res

val cmnRegisterA1_from_bitarray : z -> opcode res

val cmnRegisterShiftedRegisterA1_from_bitarray : z -> opcode option res

val cmnRegisterT1_from_bitarray : z -> opcode

val cmnRegisterT2_from_bitarray : z -> opcode option res

val cmpImmediateA1_from_bitarray : z -> opcode res

val cmpImmediateT1_from_bitarray : z -> opcode

val cmpImmediateT2_from_bitarray : z -> opcode option res

val cmpRegisterA1_from_bitarray : z -> opcode res

val cmpRegisterShiftedRegisterA1_from_bitarray : z -> opcode option res

val cmpRegisterT1_from_bitarray : z -> opcode

val cmpRegisterT2_from_bitarray : z -> opcode option

val cmpRegisterT3_from_bitarray : z -> opcode option res

val cpsArmA1_from_bitarray : z -> opcode option

val cpsThumbT1_from_bitarray : z -> (machine, opcode option) m

val cpsThumbT2_from_bitarray : z -> (machine, opcode option) m

val dsbA1_from_bitarray : z -> opcode

val dsbT1_from_bitarray : z -> opcode

val enterxLeavexT1_from_bitarray : z -> opcode

val eorImmediateA1_from_bitarray : z -> (machine, opcode) m

val eorImmediateT1_from_bitarray : z -> (machine, opcode option) m

val eorRegisterA1_from_bitarray : z -> opcode res

val eorRegisterShiftedRegisterA1_from_bitarray : z -> opcode option res

val eorRegisterT1_from_bitarray : z -> (machine, opcode) m

val eorRegisterT2_from_bitarray : z -> opcode option res

val eretT1_from_bitarray : z -> opcode

val isbA1_from_bitarray : z -> opcode

val isbT1_from_bitarray : z -> opcode

val itT1_from_bitarray : z -> (machine, opcode option) m

val ldcLdc2ImmediateA1_from_bitarray : z -> opcode res

val ldcLdc2ImmediateA2_from_bitarray : z -> opcode res

val ldcLdc2ImmediateT1_from_bitarray : z -> opcode res

val ldcLdc2ImmediateT2_from_bitarray : z -> opcode res

val ldcLdc2LiteralA1_from_bitarray : z -> opcode option res

val ldcLdc2LiteralA2_from_bitarray : z -> opcode option res

val ldcLdc2LiteralT1_from_bitarray : z -> (machine, opcode option) m

val ldcLdc2LiteralT2_from_bitarray : z -> (machine, opcode option) m

val ldmArmA1_from_bitarray : config -> z -> opcode option

val ldmExceptionReturnA1_from_bitarray : config -> z -> opcode option

val ldmThumbT1_from_bitarray : z -> opcode option

val ldmThumbT2_from_bitarray : z -> (machine, opcode option) m

val ldmUserRegistersA1_from_bitarray : z -> opcode option

val ldmdaA1_from_bitarray : config -> z -> opcode option

val ldmdbA1_from_bitarray : config -> z -> opcode option

val ldmdbT1_from_bitarray : z -> (machine, opcode option) m

val ldmibA1_from_bitarray : config -> z -> opcode option

val ldrImmediateArmA1_from_bitarray : z -> opcode option

val ldrImmediateThumbT1_from_bitarray : z -> opcode

val ldrImmediateThumbT2_from_bitarray : z -> opcode

val ldrImmediateThumbT3_from_bitarray : z -> (machine, opcode option) m

val ldrImmediateThumbT4_from_bitarray : z -> (machine, opcode option) m

val ldrLiteralA1_from_bitarray : z -> opcode option

val ldrLiteralT1_from_bitarray : z -> opcode

val ldrLiteralT2_from_bitarray : z -> (machine, opcode option) m

val ldrRegisterArmA1_from_bitarray : config -> z -> opcode option res

val ldrRegisterThumbT1_from_bitarray : z -> opcode

val ldrRegisterThumbT2_from_bitarray : z -> (machine, opcode option) m

val ldrbImmediateArmA1_from_bitarray : z -> opcode option

val ldrbImmediateThumbT1_from_bitarray : z -> opcode

val ldrbImmediateThumbT2_from_bitarray : z -> opcode option

val ldrbImmediateThumbT3_from_bitarray : z -> opcode option res

val ldrbLiteralA1_from_bitarray : z -> opcode option

val ldrbLiteralT1_from_bitarray : z -> opcode option

val ldrbRegisterA1_from_bitarray : config -> z -> opcode option res

val ldrbRegisterT1_from_bitarray : z -> opcode

val ldrbRegisterT2_from_bitarray : z -> opcode option

val ldrbtA1_from_bitarray : z -> opcode option

val ldrbtA2_from_bitarray : config -> z -> opcode option res

val ldrbtT1_from_bitarray : z -> opcode option

val ldrdImmediateA1_from_bitarray : z -> opcode option

val ldrdImmediateT1_from_bitarray : z -> opcode option

val ldrdLiteralA1_from_bitarray : z -> opcode option

val ldrdLiteralT1_from_bitarray : z -> opcode option

val ldrdRegisterA1_from_bitarray : config -> z -> opcode option

val ldrexA1_from_bitarray : z -> opcode option

val ldrexT1_from_bitarray : z -> opcode option

val ldrexbA1_from_bitarray : z -> opcode option

val ldrexbT1_from_bitarray : z -> opcode option

val ldrexdA1_from_bitarray : z -> opcode option

val ldrexdT1_from_bitarray : z -> opcode option

val ldrexhA1_from_bitarray : z -> opcode option

val ldrexhT1_from_bitarray : z -> opcode option

val ldrhImmediateArmA1_from_bitarray : z -> opcode option

val ldrhImmediateThumbT1_from_bitarray : z -> opcode

val ldrhImmediateThumbT2_from_bitarray : z -> opcode option

val ldrhImmediateThumbT3_from_bitarray : z -> opcode option res

val ldrhLiteralA1_from_bitarray : z -> opcode option

val ldrhLiteralT1_from_bitarray : z -> opcode option

val ldrhRegisterA1_from_bitarray : config -> z -> opcode option

val ldrhRegisterT1_from_bitarray : z -> opcode

val ldrhRegisterT2_from_bitarray : z -> opcode option

val ldrhtA1_from_bitarray : z -> opcode option

val ldrhtA2_from_bitarray : z -> opcode option

val ldrhtT1_from_bitarray : z -> opcode option

val ldrsbImmediateA1_from_bitarray : z -> opcode option

val ldrsbImmediateT1_from_bitarray : z -> opcode option

val ldrsbImmediateT2_from_bitarray : z -> opcode option res

val ldrsbLiteralA1_from_bitarray : z -> opcode option

val ldrsbLiteralT1_from_bitarray : z -> opcode option

val ldrsbRegisterA1_from_bitarray : config -> z -> opcode option

val ldrsbRegisterT1_from_bitarray : z -> opcode

val ldrsbRegisterT2_from_bitarray : z -> opcode option

val ldrsbtA1_from_bitarray : z -> opcode option

val ldrsbtA2_from_bitarray : z -> opcode option

val ldrsbtT1_from_bitarray : z -> opcode option

val ldrshImmediateA1_from_bitarray : z -> opcode option

val ldrshImmediateT1_from_bitarray : z -> opcode option

val ldrshImmediateT2_from_bitarray : z -> opcode option res

val ldrshLiteralA1_from_bitarray : z -> opcode option

val ldrshLiteralT1_from_bitarray : z -> opcode option

val ldrshRegisterA1_from_bitarray : config -> z -> opcode option

val ldrshRegisterT1_from_bitarray : z -> opcode

val ldrshRegisterT2_from_bitarray : z -> opcode option

val ldrshtA1_from_bitarray : z -> opcode option

val ldrshtA2_from_bitarray : z -> opcode option

val ldrshtT1_from_bitarray : z -> opcode option

val ldrtA1_from_bitarray : z -> opcode option

val ldrtA2_from_bitarray : config -> z -> opcode option res

val ldrtT1_from_bitarray : z -> opcode option

val lslImmediateA1_from_bitarray : z -> opcode res

val lslImmediateT1_from_bitarray : z -> (machine, opcode) m

val lslImmediateT2_from_bitarray : z -> opcode option res

val lslRegisterA1_from_bitarray : z -> opcode option

val lslRegisterT1_from_bitarray : z -> (machine, opcode) m

val lslRegisterT2_from_bitarray : z -> opcode option

val lsrImmediateA1_from_bitarray : z -> opcode res

val lsrImmediateT1_from_bitarray : z -> (machine, opcode) m

val lsrImmediateT2_from_bitarray : z -> opcode option res

val lsrRegisterA1_from_bitarray : z -> opcode option

val lsrRegisterT1_from_bitarray : z -> (machine, opcode) m

val lsrRegisterT2_from_bitarray : z -> opcode option

val mcrMcr2A1_from_bitarray : z -> opcode option

val mcrMcr2A2_from_bitarray : z -> opcode option res

val mcrMcr2T1_from_bitarray : z -> opcode option

val mcrMcr2T2_from_bitarray : z -> opcode option res

val mcrrMcrr2A1_from_bitarray : z -> opcode option

val mcrrMcrr2A2_from_bitarray : z -> opcode option res

val mcrrMcrr2T1_from_bitarray : z -> opcode option

val mcrrMcrr2T2_from_bitarray : z -> opcode option res

val mlaA1_from_bitarray : config -> z -> opcode option

val mlaT1_from_bitarray : z -> opcode option

val mlsA1_from_bitarray : z -> opcode option

val mlsT1_from_bitarray : z -> opcode option

val movImmediateA1_from_bitarray : z -> (machine, opcode) m

val movImmediateA2_from_bitarray : z -> opcode option

val movImmediateT1_from_bitarray : z -> (machine, opcode) m

val movImmediateT2_from_bitarray : z -> (machine, opcode option) m

val movImmediateT3_from_bitarray : z -> opcode option

val movRegisterArmA1_from_bitarray : z -> opcode

val movRegisterThumbT1_from_bitarray : z -> (machine, opcode option) m

val movRegisterThumbT2_from_bitarray : z -> (machine, opcode option) m

val movRegisterThumbT3_from_bitarray : z -> opcode option

val movtA1_from_bitarray : z -> opcode option

val movtT1_from_bitarray : z -> opcode option

val mrcMrc2A1_from_bitarray : z -> opcode

val mrcMrc2A2_from_bitarray : z -> opcode res

val mrcMrc2T1_from_bitarray : z -> opcode option

val mrcMrc2T2_from_bitarray : z -> opcode option res

val mrrcMrrc2A1_from_bitarray : z -> opcode option

val mrrcMrrc2A2_from_bitarray : z -> opcode option res

val mrrcMrrc2T1_from_bitarray : z -> opcode option

val mrrcMrrc2T2_from_bitarray : z -> opcode option res

val mrsApplicationA1_from_bitarray : z -> opcode option

val mrsApplicationT1_from_bitarray : z -> opcode option

val mrsSystemA1_from_bitarray : z -> opcode option

val mrsSystemT1_from_bitarray : z -> opcode option

val msrImmediateApplicationA1_from_bitarray : z -> opcode res

val msrImmediateSystemA1_from_bitarray : z -> opcode option res

val msrRegisterApplicationA1_from_bitarray : z -> opcode option

val msrRegisterApplicationT1_from_bitarray : z -> opcode option

val msrRegisterSystemA1_from_bitarray : z -> opcode option

val msrRegisterSystemT1_from_bitarray : z -> opcode option

val mulA1_from_bitarray : config -> z -> opcode option

val mulT1_from_bitarray : config -> z -> (machine, opcode option) m

val mulT2_from_bitarray : z -> opcode option

val mvnImmediateA1_from_bitarray : z -> (machine, opcode) m

val mvnImmediateT1_from_bitarray : z -> (machine, opcode option) m

val mvnRegisterA1_from_bitarray : z -> opcode res

val mvnRegisterShiftedRegisterA1_from_bitarray : z -> opcode option res

val mvnRegisterT1_from_bitarray : z -> (machine, opcode) m

val mvnRegisterT2_from_bitarray : z -> opcode option res

val nopA1_from_bitarray : z -> opcode

val nopT1_from_bitarray : z -> opcode

val nopT2_from_bitarray : z -> opcode

val ornImmediateT1_from_bitarray : z -> (machine, opcode option) m

val ornRegisterT1_from_bitarray : z -> opcode option res

val orrImmediateA1_from_bitarray : z -> (machine, opcode) m

val orrImmediateT1_from_bitarray : z -> (machine, opcode option) m

val orrRegisterA1_from_bitarray : z -> opcode res

val orrRegisterShiftedRegisterA1_from_bitarray : z -> opcode option res

val orrRegisterT1_from_bitarray : z -> (machine, opcode) m

val orrRegisterT2_from_bitarray : z -> opcode option res

val pkhA1_from_bitarray : z -> opcode option res

val pkhT1_from_bitarray : z -> opcode option res

val pldImmediateA1_from_bitarray : z -> opcode

val pldImmediateT1_from_bitarray : z -> opcode

val pldImmediateT2_from_bitarray : z -> opcode

val pldLiteralA1_from_bitarray : z -> opcode

val pldLiteralT1_from_bitarray : z -> opcode

val pldRegisterA1_from_bitarray : z -> opcode option res

val pldRegisterT1_from_bitarray : z -> opcode option

val popArmA1_from_bitarray : config -> z -> opcode option

val popArmA2_from_bitarray : z -> opcode option

val popThumbT1_from_bitarray : z -> (machine, opcode option) m

val popThumbT2_from_bitarray : z -> (machine, opcode option) m

val popThumbT3_from_bitarray : z -> (machine, opcode option) m

val pushA1_from_bitarray : z -> opcode

val pushA2_from_bitarray : z -> opcode option

val pushT1_from_bitarray : z -> opcode option

val pushT2_from_bitarray : z -> opcode option

val pushT3_from_bitarray : z -> opcode option

val qadd16A1_from_bitarray : z -> opcode option

val qadd16T1_from_bitarray : z -> opcode option

val qadd8A1_from_bitarray : z -> opcode option

val qadd8T1_from_bitarray : z -> opcode option

val qaddA1_from_bitarray : z -> opcode option

val qaddT1_from_bitarray : z -> opcode option

val qasxA1_from_bitarray : z -> opcode option

val qasxT1_from_bitarray : z -> opcode option

val qdaddA1_from_bitarray : z -> opcode option

val qdaddT1_from_bitarray : z -> opcode option

val qdsubA1_from_bitarray : z -> opcode option

val qdsubT1_from_bitarray : z -> opcode option

val qsaxA1_from_bitarray : z -> opcode option

val qsaxT1_from_bitarray : z -> opcode option

val qsub16A1_from_bitarray : z -> opcode option

val qsub16T1_from_bitarray : z -> opcode option

val qsub8A1_from_bitarray : z -> opcode option

val qsub8T1_from_bitarray : z -> opcode option

val qsubA1_from_bitarray : z -> opcode option

val qsubT1_from_bitarray : z -> opcode option

val rbitA1_from_bitarray : z -> opcode option

val rbitT1_from_bitarray : z -> opcode option

val rev16A1_from_bitarray : z -> opcode option

val rev16T1_from_bitarray : z -> opcode

val rev16T2_from_bitarray : z -> opcode option

val revA1_from_bitarray : z -> opcode option

val revT1_from_bitarray : z -> opcode

val revT2_from_bitarray : z -> opcode option

val revshA1_from_bitarray : z -> opcode option

val revshT1_from_bitarray : z -> opcode

val revshT2_from_bitarray : z -> opcode option

val rfeA1_from_bitarray : z -> opcode option

val rfeT1_from_bitarray : z -> (machine, opcode option) m

val rfeT2_from_bitarray : z -> (machine, opcode option) m

val rorImmediateA1_from_bitarray : z -> opcode res

val rorImmediateT1_from_bitarray : z -> opcode option res

val rorRegisterA1_from_bitarray : z -> opcode option

val rorRegisterT1_from_bitarray : z -> (machine, opcode) m

val rorRegisterT2_from_bitarray : z -> opcode option

val rrxA1_from_bitarray : z -> opcode

val rrxT1_from_bitarray : z -> opcode option

val rsbImmediateA1_from_bitarray : z -> opcode res

val rsbImmediateT1_from_bitarray : z -> (machine, opcode) m

val rsbImmediateT2_from_bitarray : z -> opcode option res

val rsbRegisterA1_from_bitarray : z -> opcode res

val rsbRegisterShiftedRegisterA1_from_bitarray : z -> opcode option res

val rsbRegisterT1_from_bitarray : z -> opcode option res

val rscImmediateA1_from_bitarray : z -> opcode res

val rscRegisterA1_from_bitarray : z -> opcode res

val rscRegisterShiftedRegisterA1_from_bitarray : z -> opcode option res

val sadd16A1_from_bitarray : z -> opcode option

val sadd16T1_from_bitarray : z -> opcode option

val sadd8A1_from_bitarray : z -> opcode option

val sadd8T1_from_bitarray : z -> opcode option

val sasxA1_from_bitarray : z -> opcode option

val sasxT1_from_bitarray : z -> opcode option

val sbcImmediateA1_from_bitarray : z -> opcode res

val sbcImmediateT1_from_bitarray : z -> opcode option res

val sbcRegisterA1_from_bitarray : z -> opcode res

val sbcRegisterShiftedRegisterA1_from_bitarray : z -> opcode option res

val sbcRegisterT1_from_bitarray : z -> (machine, opcode) m

val sbcRegisterT2_from_bitarray : z -> opcode option res

val sbfxA1_from_bitarray : z -> opcode option

val sbfxT1_from_bitarray : z -> opcode option

val sdivA1_from_bitarray : z -> opcode option

val sdivT1_from_bitarray : z -> opcode option

val selA1_from_bitarray : z -> opcode option

val selT1_from_bitarray : z -> opcode option

val setendA1_from_bitarray : z -> opcode

val setendT1_from_bitarray : z -> (machine, opcode option) m

val sevA1_from_bitarray : z -> opcode

val sevT1_from_bitarray : z -> opcode

val sevT2_from_bitarray : z -> opcode

val shadd16A1_from_bitarray : z -> opcode option

val shadd16T1_from_bitarray : z -> opcode option

val shadd8A1_from_bitarray : z -> opcode option

val shadd8T1_from_bitarray : z -> opcode option

val shasxA1_from_bitarray : z -> opcode option

val shasxT1_from_bitarray : z -> opcode option

val shsaxA1_from_bitarray : z -> opcode option

val shsaxT1_from_bitarray : z -> opcode option

val shsub16A1_from_bitarray : z -> opcode option

val shsub16T1_from_bitarray : z -> opcode option

val shsub8A1_from_bitarray : z -> opcode option

val shsub8T1_from_bitarray : z -> opcode option

val smcA1_from_bitarray : z -> opcode

val smcT1_from_bitarray : z -> (machine, opcode option) m

val smlaA1_from_bitarray : z -> opcode option

val smlaT1_from_bitarray : z -> opcode option

val smladA1_from_bitarray : z -> opcode option

val smladT1_from_bitarray : z -> opcode option

val smlalA1_from_bitarray : config -> z -> opcode option

val smlalT1_from_bitarray : z -> opcode option

val smlaldA1_from_bitarray : z -> opcode option

val smlaldT1_from_bitarray : z -> opcode option

val smlalxyA1_from_bitarray : z -> opcode option

val smlalxyT1_from_bitarray : z -> opcode option

val smlawA1_from_bitarray : z -> opcode option

val smlawT1_from_bitarray : z -> opcode option

val smlsdA1_from_bitarray : z -> opcode option

val smlsdT1_from_bitarray : z -> opcode option

val smlsldA1_from_bitarray : z -> opcode option

val smlsldT1_from_bitarray : z -> opcode option

val smmlaA1_from_bitarray : z -> opcode option

val smmlaT1_from_bitarray : z -> opcode option

val smmlsA1_from_bitarray : z -> opcode option

val smmlsT1_from_bitarray : z -> opcode option

val smmulA1_from_bitarray : z -> opcode option

val smmulT1_from_bitarray : z -> opcode option

val smuadA1_from_bitarray : z -> opcode option

val smuadT1_from_bitarray : z -> opcode option

val smulA1_from_bitarray : z -> opcode option

val smulT1_from_bitarray : z -> opcode option

val smullA1_from_bitarray : config -> z -> opcode option

val smullT1_from_bitarray : z -> opcode option

val smulwA1_from_bitarray : z -> opcode option

val smulwT1_from_bitarray : z -> opcode option

val smusdA1_from_bitarray : z -> opcode option

val smusdT1_from_bitarray : z -> opcode option

val srsArmA1_from_bitarray : z -> opcode

val srsThumbT1_from_bitarray : z -> opcode

val srsThumbT2_from_bitarray : z -> opcode

val ssat16A1_from_bitarray : z -> opcode option

val ssat16T1_from_bitarray : z -> opcode option

val ssatA1_from_bitarray : z -> opcode option res

val ssatT1_from_bitarray : z -> opcode option res

val ssaxA1_from_bitarray : z -> opcode option

val ssaxT1_from_bitarray : z -> opcode option

val ssub16A1_from_bitarray : z -> opcode option

val ssub16T1_from_bitarray : z -> opcode option

val ssub8A1_from_bitarray : z -> opcode option

val ssub8T1_from_bitarray : z -> opcode option

val stcStc2A1_from_bitarray : z -> opcode option res

val stcStc2A2_from_bitarray : z -> opcode option res

val stcStc2T1_from_bitarray : z -> opcode option res

val stcStc2T2_from_bitarray : z -> opcode option res

val stmA1_from_bitarray : z -> opcode option

val stmT1_from_bitarray : z -> opcode option

val stmT2_from_bitarray : z -> opcode option

val stmUserRegistersA1_from_bitarray : z -> opcode option

val stmdaA1_from_bitarray : z -> opcode option

val stmdbA1_from_bitarray : z -> opcode option

val stmdbT1_from_bitarray : z -> opcode option

val stmibA1_from_bitarray : z -> opcode option

val strImmediateArmA1_from_bitarray : z -> opcode option

val strImmediateThumbT1_from_bitarray : z -> opcode

val strImmediateThumbT2_from_bitarray : z -> opcode

val strImmediateThumbT3_from_bitarray : z -> opcode option res

val strImmediateThumbT4_from_bitarray : z -> opcode option res

val strRegisterA1_from_bitarray : config -> z -> opcode option res

val strRegisterT1_from_bitarray : z -> opcode

val strRegisterT2_from_bitarray : z -> opcode option res

val strbImmediateArmA1_from_bitarray : z -> opcode option

val strbImmediateThumbT1_from_bitarray : z -> opcode

val strbImmediateThumbT2_from_bitarray : z -> opcode option res

val strbImmediateThumbT3_from_bitarray : z -> opcode option res

val strbRegisterA1_from_bitarray : config -> z -> opcode option res

val strbRegisterT1_from_bitarray : z -> opcode

val strbRegisterT2_from_bitarray : z -> opcode option res

val strbtA1_from_bitarray : z -> opcode option

val strbtA2_from_bitarray : config -> z -> opcode option res

val strbtT1_from_bitarray : z -> opcode option res

val strdImmediateA1_from_bitarray : z -> opcode option

val strdImmediateT1_from_bitarray : z -> opcode option

val strdRegisterA1_from_bitarray : config -> z -> opcode option

val strexA1_from_bitarray : z -> opcode option

val strexT1_from_bitarray : z -> opcode option

val strexbA1_from_bitarray : z -> opcode option

val strexbT1_from_bitarray : z -> opcode option

val strexdA1_from_bitarray : z -> opcode option

val strexdT1_from_bitarray : z -> opcode option

val strexhA1_from_bitarray : z -> opcode option

val strexhT1_from_bitarray : z -> opcode option

val strhImmediateArmA1_from_bitarray : z -> opcode option

val strhImmediateThumbT1_from_bitarray : z -> opcode

val strhImmediateThumbT2_from_bitarray : z -> opcode option res

val strhImmediateThumbT3_from_bitarray : z -> opcode option res

val strhRegisterA1_from_bitarray : config -> z -> opcode option

val strhRegisterT1_from_bitarray : z -> opcode

val strhRegisterT2_from_bitarray : z -> opcode option res

val strhtA1_from_bitarray : z -> opcode option

val strhtA2_from_bitarray : z -> opcode option

val strhtT1_from_bitarray : z -> opcode option res

val strtA1_from_bitarray : z -> opcode option

val strtA2_from_bitarray : config -> z -> opcode option res

val strtT1_from_bitarray : z -> opcode option res

val subImmediateArmA1_from_bitarray : z -> (machine, opcode) m

val subImmediateThumbT1_from_bitarray : z -> (machine, opcode) m

val subImmediateThumbT2_from_bitarray : z -> (machine, opcode) m

val subImmediateThumbT3_from_bitarray : z -> (machine, opcode option) m

val subImmediateThumbT4_from_bitarray : z -> opcode option

val subRegisterA1_from_bitarray : z -> opcode res

val subRegisterShiftedRegisterA1_from_bitarray : z -> opcode option res

val subRegisterT1_from_bitarray : z -> (machine, opcode) m

val subRegisterT2_from_bitarray : z -> opcode option res

val subSpMinusImmediateA1_from_bitarray : z -> (machine, opcode) m

val subSpMinusImmediateT1_from_bitarray : z -> opcode

val subSpMinusImmediateT2_from_bitarray : z -> opcode option res

val subSpMinusImmediateT3_from_bitarray : z -> opcode option

val subSpMinusRegisterA1_from_bitarray : z -> opcode res

val subSpMinusRegisterT1_from_bitarray : z -> opcode option res

val subsPcLrArmA1_from_bitarray : z -> opcode res

val subsPcLrArmA2_from_bitarray : z -> opcode res

val subsPcLrThumbT1_from_bitarray : config -> z -> (machine, opcode option) m

val svcA1_from_bitarray : z -> opcode

val svcT1_from_bitarray : z -> opcode

val sxtab16A1_from_bitarray : z -> opcode option

val sxtab16T1_from_bitarray : z -> opcode option

val sxtabA1_from_bitarray : z -> opcode option

val sxtabT1_from_bitarray : z -> opcode option

val sxtahA1_from_bitarray : z -> opcode option

val sxtahT1_from_bitarray : z -> opcode option

val sxtb16A1_from_bitarray : z -> opcode option

val sxtb16T1_from_bitarray : z -> opcode option

val sxtbA1_from_bitarray : z -> opcode option

val sxtbT1_from_bitarray : z -> opcode

val sxtbT2_from_bitarray : z -> opcode option

val sxthA1_from_bitarray : z -> opcode option

val sxthT1_from_bitarray : z -> opcode

val sxthT2_from_bitarray : z -> opcode option

val tbbTbhT1_from_bitarray : z -> (machine, opcode option) m

val teqImmediateA1_from_bitarray : z -> (machine, opcode) m

val teqImmediateT1_from_bitarray : z -> (machine, opcode option) m

val teqRegisterA1_from_bitarray : z -> opcode res

val teqRegisterShiftedRegisterA1_from_bitarray : z -> opcode option res

val teqRegisterT1_from_bitarray : z -> opcode option res

val tstImmediateA1_from_bitarray : z -> (machine, opcode) m

val tstImmediateT1_from_bitarray : z -> (machine, opcode option) m

val tstRegisterA1_from_bitarray : z -> opcode res

val tstRegisterShiftedRegisterA1_from_bitarray : z -> opcode option res

val tstRegisterT1_from_bitarray : z -> opcode

val tstRegisterT2_from_bitarray : z -> opcode option res

val uadd16A1_from_bitarray : z -> opcode option

val uadd16T1_from_bitarray : z -> opcode option

val uadd8A1_from_bitarray : z -> opcode option

val uadd8T1_from_bitarray : z -> opcode option

val uasxA1_from_bitarray : z -> opcode option

val uasxT1_from_bitarray : z -> opcode option

val ubfxA1_from_bitarray : z -> opcode option

val ubfxT1_from_bitarray : z -> opcode option

val udfA1_from_bitarray : z -> opcode

val udfT1_from_bitarray : z -> opcode

val udfT2_from_bitarray : z -> opcode

val udivA1_from_bitarray : z -> opcode option

val udivT1_from_bitarray : z -> opcode option

val uhadd16A1_from_bitarray : z -> opcode option

val uhadd16T1_from_bitarray : z -> opcode option

val uhadd8A1_from_bitarray : z -> opcode option

val uhadd8T1_from_bitarray : z -> opcode option

val uhasxA1_from_bitarray : z -> opcode option

val uhasxT1_from_bitarray : z -> opcode option

val uhsaxA1_from_bitarray : z -> opcode option

val uhsaxT1_from_bitarray : z -> opcode option

val uhsub16A1_from_bitarray : z -> opcode option

val uhsub16T1_from_bitarray : z -> opcode option

val uhsub8A1_from_bitarray : z -> opcode option

val uhsub8T1_from_bitarray : z -> opcode option

val umaalA1_from_bitarray : z -> opcode option

val umaalT1_from_bitarray : z -> opcode option

val umlalA1_from_bitarray : config -> z -> opcode option

val umlalT1_from_bitarray : z -> opcode option

val umullA1_from_bitarray : config -> z -> opcode option

val umullT1_from_bitarray : z -> opcode option

val uqadd16A1_from_bitarray : z -> opcode option

val uqadd16T1_from_bitarray : z -> opcode option

val uqadd8A1_from_bitarray : z -> opcode option

val uqadd8T1_from_bitarray : z -> opcode option

val uqasxA1_from_bitarray : z -> opcode option

val uqasxT1_from_bitarray : z -> opcode option

val uqsaxA1_from_bitarray : z -> opcode option

val uqsaxT1_from_bitarray : z -> opcode option

val uqsub16A1_from_bitarray : z -> opcode option

val uqsub16T1_from_bitarray : z -> opcode option

val uqsub8A1_from_bitarray : z -> opcode option

val uqsub8T1_from_bitarray : z -> opcode option

val usad8A1_from_bitarray : z -> opcode option

val usad8T1_from_bitarray : z -> opcode option

val usada8A1_from_bitarray : z -> opcode option

val usada8T1_from_bitarray : z -> opcode option

val usat16A1_from_bitarray : z -> opcode option

val usat16T1_from_bitarray : z -> opcode option

val usatA1_from_bitarray : z -> opcode option res

val usatT1_from_bitarray : z -> opcode option res

val usaxA1_from_bitarray : z -> opcode option

val usaxT1_from_bitarray : z -> opcode option

val usub16A1_from_bitarray : z -> opcode option

val usub16T1_from_bitarray : z -> opcode option

val usub8A1_from_bitarray : z -> opcode option

val usub8T1_from_bitarray : z -> opcode option

val uxtab16A1_from_bitarray : z -> opcode option

val uxtab16T1_from_bitarray : z -> opcode option

val uxtabA1_from_bitarray : z -> opcode option

val uxtabT1_from_bitarray : z -> opcode option

val uxtahA1_from_bitarray : z -> opcode option

val uxtahT1_from_bitarray : z -> opcode option

val uxtb16A1_from_bitarray : z -> opcode option

val uxtb16T1_from_bitarray : z -> opcode option

val uxtbA1_from_bitarray : z -> opcode option

val uxtbT1_from_bitarray : z -> opcode

val uxtbT2_from_bitarray : z -> opcode option

val uxthA1_from_bitarray : z -> opcode option

val uxthT1_from_bitarray : z -> opcode

val uxthT2_from_bitarray : z -> opcode option

val wfeA1_from_bitarray : z -> opcode

val wfeT1_from_bitarray : z -> opcode

val wfeT2_from_bitarray : z -> opcode

val wfiA1_from_bitarray : z -> opcode

val wfiT1_from_bitarray : z -> opcode

val wfiT2_from_bitarray : z -> opcode

val yieldA1_from_bitarray : z -> opcode

val yieldT1_from_bitarray : z -> opcode

val yieldT2_from_bitarray : z -> opcode

val dec_arm_data_processing_register : z -> z option

val dec_arm_data_processing_register_shifted_register : z -> z option

val dec_arm_saturating_addition_and_subtraction : z -> z option

val dec_arm_miscellaneous_instructions : z -> z option res

val dec_arm_halfword_multiply_and_multiply_accumulate : z -> z option

val dec_arm_multiply_and_multiply_accumulate : z -> z option res

val dec_arm_synchronization_primitives : z -> z option

val dec_arm_extra_load_store_instructions : z -> z option

val dec_arm_extra_load_store_instructions_unprivileged : z -> z option

val dec_arm_data_processing_immediate : z -> z option

val dec_arm_msr_immediate_and_hints : z -> z option res

val dec_arm_data_processing_and_miscellaneous_instructions : z -> z option res

val dec_arm_load_store_word_and_unsigned_byte : z -> z option

val dec_arm_parallel_addition_and_subtraction_signed : z -> z option

val dec_arm_parallel_addition_and_subtraction_unsigned : z -> z option

val dec_arm_packing_unpacking_saturation_and_reversal : z -> z option

val dec_arm_signed_multiply_signed_and_unsigned_divide : z -> z option

val dec_arm_media_instructions : z -> z option

val dec_arm_branch_branch_with_link_and_block_data_transfer : z -> z option

val dec_arm_coprocessor_instructions_and_supervisor_call : z -> z option res

val dec_arm_memory_hints_advanced_simd_instructions_and_miscellaneous_instructions :
  z -> z option res

val dec_arm_unconditional_instructions : z -> z option res

val dec_arm_instruction_set : z -> z option res

val dec_thumb_shift_immediate_add_subtract_move_and_compare : z -> z option

val dec_thumb_data_processing : z -> z option

val dec_thumb_special_data_instructions_and_branch_and_exchange :
  z -> z option

val dec_thumb_load_store_single_data_item : z -> z option

val dec_thumb_if_then_and_hints : z -> z option

val dec_thumb_miscellaneous_16_bit_instructions : z -> z option

val dec_thumb_conditional_branch_and_supervisor_call : z -> z option

val dec_thumb_instruction_set_encoding_16_bit : z -> z option

val dec_thumb_load_store_multiple : z -> z option

val dec_thumb_load_store_dual_load_store_exclusive_table_branch :
  z -> z option

val dec_thumb_move_register_and_immediate_shifts : z -> z option

val dec_thumb_data_processing_shifted_register : z -> z option

val dec_thumb_coprocessor_advanced_simd_and_floating_point_instructions :
  z -> z option res

val dec_thumb_data_processing_modified_immediate : z -> z option

val dec_thumb_data_processing_plain_binary_immediate : z -> z option

val dec_thumb_change_processor_state_and_hints : z -> z option res

val dec_thumb_miscellaneous_control_instructions : z -> z option res

val dec_thumb_branches_and_miscellaneous_control : z -> z option res

val dec_thumb_store_single_data_item : z -> z option

val dec_thumb_load_byte_memory_hints : z -> z option res

val dec_thumb_load_halfword_memory_hints : z -> z option

val dec_thumb_load_word : z -> z option

val dec_thumb_parallel_addition_and_subtraction_signed : z -> z option

val dec_thumb_parallel_addition_and_subtraction_unsigned : z -> z option

val dec_thumb_miscellaneous_operations : z -> z option

val dec_thumb_data_processing_register : z -> z option

val dec_thumb_multiply_multiply_accumulate_and_absolute_difference :
  z -> z option

val dec_thumb_long_multiply_long_multiply_accumulate_and_divide :
  z -> z option

val dec_thumb_instruction_set_encoding_32_bit : z -> z option res

val dec_thumb_instruction_set : z -> (machine, z option) m

val op_decode_instruction : z -> (machine, z option) m

val armV6_decode_instruction : z -> (machine, z option) m

val execute_dispatch : config -> opcode -> (machine, unit) m

val from_bitarray_dispatch : config -> z -> z -> (machine, opcode option) m

val armV6_execute_instruction : config -> opcode option -> (machine, unit) m

val armV6_emulate_cycle : config -> (machine, unit) m

val run_cycles : config -> nat -> machine -> (machine, unit) outcome

val run_enc : config -> nat -> machine -> z list

val decode_only : config -> machine -> z -> z list

val decode_operands : config -> machine -> z -> z list
