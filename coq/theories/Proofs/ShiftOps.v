(* Proofs/ShiftOps.v — the translated shift.py equals Spec/Pseudocode for every width,
   operand and shift amount; the assertion failures are characterised exactly. *)
From Coq Require Import ZArith Znumtheory Bool Lia ZifyBool List.
From ArmV Require Import Lib.PyZ Spec.Pseudocode Proofs.BitLemmas Proofs.SpecFacts Proofs.BitsOps.
From Gen Require Import enums bits_ops shift.
Open Scope Z_scope.
Ltac Zify.zify_post_hook ::= Z.to_euclidean_division_equations.

Theorem lsl_c_spec N x n : 0 <= N -> 1 <= n -> lsl_c x N n = Val (LSL_C N x n).
Proof.
  intros. unfold lsl_c, LSL_C. replace (n >? 0) with true by lia. cbn [eassert ebind]. cbv zeta.
  rewrite lower_chunk_mod by lia. rewrite Z.shiftl_mul_pow2, Z.shiftr_div_pow2 by lia. rewrite land1. reflexivity.
Qed.
Theorem lsl_c_assert N x n : n <= 0 -> lsl_c x N n = Err (EHost HAssert).
Proof. intros. unfold lsl_c. replace (n >? 0) with false by lia. reflexivity. Qed.

Theorem lsr_c_spec N x n : 0 < N -> 0 <= x < 2 ^ N -> 1 <= n -> lsr_c x N n = Val (LSR_C N x n).
Proof.
  intros HN Hx Hn. unfold lsr_c, LSR_C. replace (n >? 0) with true by lia. cbn [eassert ebind]. cbv zeta.
  rewrite bit_at_bit by lia. rewrite !substring_bits by lia. unfold bits, bit.
  replace (n + N - 1 - n + 1) with N by lia.
  f_equal. f_equal. apply Z.mod_small. split. apply Z.div_pos; [lia|apply pow_pos; lia].
  apply Z.div_lt_upper_bound; [apply pow_pos; lia|]. pose proof (pow_pos n ltac:(lia)). nia.
Qed.
Theorem lsr_c_assert N x n : n <= 0 -> lsr_c x N n = Err (EHost HAssert).
Proof. intros. unfold lsr_c. replace (n >? 0) with false by lia. reflexivity. Qed.

Theorem asr_c_spec N x n : 0 < N -> 0 <= x < 2 ^ N -> 1 <= n -> asr_c x N n = Val (ASR_C N x n).
Proof.
  intros HN Hx Hn. unfold asr_c, ASR_C. replace (n >? 0) with true by lia. cbn [eassert ebind]. cbv zeta.
  unfold sign_extend, to_unsigned. rewrite to_signed_SInt by lia.
  rewrite bit_at_bit by lia. rewrite !substring_bits by lia. unfold bits, bit.
  replace (n + N - 1 - n + 1) with N by lia.
  set (s := SInt x N).
  assert (P1: 0 < 2 ^ n) by (apply pow_pos; lia). assert (P2: 0 < 2 ^ N) by (apply pow_pos; lia).
  assert (P3: 0 < 2 ^ (n - 1)) by (apply pow_pos; lia).
  f_equal. f_equal.
  - rewrite pow_split by lia. rewrite mod_div_swap by lia. apply Z.mod_mod. lia.
  - replace (n + N) with ((n - 1) + (N + 1)) by lia. rewrite pow_split by lia.
    rewrite mod_div_swap by (try apply pow_pos; lia).
    symmetry. apply Znumtheory.Zmod_div_mod; [lia|apply pow_pos; lia|].
    exists (2 ^ N). rewrite Z.pow_add_r by lia. lia.
Qed.
Theorem asr_c_assert N x n : n <= 0 -> asr_c x N n = Err (EHost HAssert).
Proof. intros. unfold asr_c. replace (n >? 0) with false by lia. reflexivity. Qed.

Lemma lsl_val N x n : 0 <= N -> 0 <= n -> lsl x N n = Val ((x * 2 ^ n) mod 2 ^ N).
Proof.
  intros. unfold lsl. replace (n >=? 0) with true by lia. cbn [eassert ebind].
  destruct (n =? 0) eqn:E.
  - cbn [ebind]. cbv zeta. assert (n = 0) by lia. subst. rewrite Z.pow_0_r, Z.mul_1_r.
    (* x mod 2^N = x needs x in range: stated separately *) Abort.

Lemma lsl_val N x n : 0 <= N -> 0 <= x < 2 ^ N -> 0 <= n -> lsl x N n = Val ((x * 2 ^ n) mod 2 ^ N).
Proof.
  intros. unfold lsl. replace (n >=? 0) with true by lia. cbn [eassert ebind].
  destruct (n =? 0) eqn:E.
  - cbn [ebind]. cbv zeta. assert (n = 0) by lia. subst. rewrite Z.pow_0_r, Z.mul_1_r.
    rewrite Z.mod_small by lia. reflexivity.
  - rewrite lsl_c_spec by lia. reflexivity.
Qed.
Lemma lsr_val N x n : 0 < N -> 0 <= x < 2 ^ N -> 0 <= n -> lsr x N n = Val (x / 2 ^ n).
Proof.
  intros. unfold lsr. replace (n >=? 0) with true by lia. cbn [eassert ebind].
  destruct (n =? 0) eqn:E.
  - cbn [ebind]. cbv zeta. assert (n = 0) by lia. subst. rewrite Z.pow_0_r, Z.div_1_r. reflexivity.
  - rewrite lsr_c_spec by lia. reflexivity.
Qed.
Theorem lsl_assert N x n : n < 0 -> lsl x N n = Err (EHost HAssert).
Proof. intros. unfold lsl. replace (n >=? 0) with false by lia. reflexivity. Qed.
Theorem lsr_assert N x n : n < 0 -> lsr x N n = Err (EHost HAssert).
Proof. intros. unfold lsr. replace (n >=? 0) with false by lia. reflexivity. Qed.
Theorem asr_spec N x n : 0 < N -> 0 <= x < 2 ^ N -> 0 <= n ->
  asr x N n = Val (if n =? 0 then x else fst (ASR_C N x n)).
Proof.
  intros. unfold asr. replace (n >=? 0) with true by lia. cbn [eassert ebind].
  destruct (n =? 0) eqn:E; [reflexivity|]. rewrite asr_c_spec by lia. reflexivity.
Qed.

Theorem ror_c_spec N x n : 0 < N -> 0 <= x < 2 ^ N -> n <> 0 -> ror_c x N n = Val (ROR_C N x n).
Proof.
  intros HN Hx Hn. unfold ror_c, ROR_C, ROR. replace (negb (n =? 0)) with true by lia. cbn [eassert ebind]. cbv zeta.
  pose proof (Z.mod_pos_bound n N HN) as Hm. set (m := n mod N) in *.
  rewrite lsr_val by lia. cbn [ebind]. rewrite lsl_val by lia. cbn [ebind].
  assert (Pm : 0 < 2 ^ m) by (apply pow_pos; lia).
  assert (PNm : 0 < 2 ^ (N - m)) by (apply pow_pos; lia).
  assert (Split : 2 ^ N = 2 ^ m * 2 ^ (N - m)) by (rewrite <- Z.pow_add_r by lia; f_equal; lia).
  assert (E1 : (x * 2 ^ (N - m)) mod 2 ^ N = (x mod 2 ^ m) * 2 ^ (N - m)).
  { rewrite Split. rewrite Z.mul_mod_distr_r by lia. reflexivity. }
  rewrite E1.
  assert (Q : 0 <= x / 2 ^ m < 2 ^ (N - m)).
  { split; [apply Z.div_pos; lia|]. apply Z.div_lt_upper_bound; [lia|]. rewrite <- Split. lia. }
  rewrite lor_disjoint_add by lia.
  assert (R : 0 <= x / 2 ^ m + x mod 2 ^ m * 2 ^ (N - m) < 2 ^ N).
  { pose proof (Z.mod_pos_bound x (2 ^ m) Pm). rewrite Split. nia. }
  rewrite (Z.mod_small _ (2 ^ N)) by lia.
  f_equal. f_equal. rewrite bit_at_bit by lia. unfold bit.
  apply Z.mod_small. split; [apply Z.div_pos; [lia|apply pow_pos; lia]|].
  apply Z.div_lt_upper_bound; [apply pow_pos; lia|]. pose proof (pow_succ N HN). lia.
Qed.
Theorem ror_c_assert N x : ror_c x N 0 = Err (EHost HAssert).
Proof. reflexivity. Qed.

Theorem rrx_c_spec N x c : 0 < N -> 0 <= x < 2 ^ N -> rrx_c x N c = RRX_C N x c.
Proof.
  intros HN Hx. unfold rrx_c, RRX_C. cbv zeta. rewrite bit_at_bit by lia. unfold bit. rewrite Z.pow_0_r, Z.div_1_r.
  destruct (Z.eq_dec N 1) as [->|N1].
  - (* width 1: substring x 0 1 is the empty field *)
    assert (X : x = 0 \/ x = 1) by (change (2 ^ 1) with 2 in Hx; lia).
    unfold chain, substring, lower_chunk. change (1 - 1) with 0. rewrite Z.shiftl_0_r, Z.pow_0_r.
    destruct X; subst x; cbn [Z.land Z.shiftr Z.shiftl Z.add Z.pow Z.pow_pos Pos.iter Z.mul Pos.mul Z.sub Z.opp Z.pos_sub Pos.pred_double Z.div Z.div_eucl Z.modulo Z.pos_div_eucl Z.leb Z.ltb Z.compare Pos.compare Pos.compare_cont Z.succ_double Z.double Pos.land Pos.succ Z.of_N N.succ_double N.double Pos.iter Z.div2 Pos.div2];
    f_equal; lia.
  - rewrite chain_spec by lia. rewrite substring_bits by lia. unfold bits.
    replace (N - 1 - 1 + 1) with (N - 1) by lia. rewrite Z.pow_1_r.
    rewrite Z.mod_small; [reflexivity|]. pose proof (pow_succ N HN). split; [apply Z.div_pos; lia|].
    apply Z.div_lt_upper_bound; lia.
Qed.

Theorem shift_c_spec N v t n c : 0 < N -> 0 <= v < 2 ^ N -> 0 <= n ->
  (t = Pseudocode.SRType_LSL \/ t = Pseudocode.SRType_LSR \/ t = Pseudocode.SRType_ASR \/ t = Pseudocode.SRType_ROR \/ (t = Pseudocode.SRType_RRX /\ n = 1)) ->
  shift_c v N t n c = Val (Shift_C N v t n c).
Proof.
  intros HN Hv Hn Ht. unfold shift_c, Shift_C.
  unfold enums.SRType_LSL, enums.SRType_LSR, enums.SRType_ASR, enums.SRType_ROR, enums.SRType_RRX,
    Pseudocode.SRType_LSL, Pseudocode.SRType_LSR, Pseudocode.SRType_ASR, Pseudocode.SRType_ROR, Pseudocode.SRType_RRX in *.
  replace (negb ((t =? 5) && negb (n =? 1))) with true by lia. cbn [eassert ebind].
  destruct (n =? 0) eqn:E0; [reflexivity|].
  destruct (t =? 1) eqn:E1. { rewrite lsl_c_spec by lia. destruct (LSL_C N v n). reflexivity. }
  destruct (t =? 2) eqn:E2. { rewrite lsr_c_spec by lia. destruct (LSR_C N v n). reflexivity. }
  destruct (t =? 3) eqn:E3. { rewrite asr_c_spec by lia. destruct (ASR_C N v n). reflexivity. }
  destruct (t =? 4) eqn:E4. { rewrite ror_c_spec by lia. destruct (ROR_C N v n). reflexivity. }
  replace (t =? 5) with true by lia. rewrite rrx_c_spec by lia. destruct (RRX_C N v c). reflexivity.
Qed.
Theorem shift_c_assert N v n c : n <> 1 -> shift_c v N Pseudocode.SRType_RRX n c = Err (EHost HAssert).
Proof.
  intros. unfold shift_c. unfold enums.SRType_RRX, Pseudocode.SRType_RRX.
  replace (negb ((5 =? 5) && negb (n =? 1))) with false by lia. reflexivity.
Qed.
Theorem shift_spec N v t n c : 0 < N -> 0 <= v < 2 ^ N -> 0 <= n ->
  (t = Pseudocode.SRType_LSL \/ t = Pseudocode.SRType_LSR \/ t = Pseudocode.SRType_ASR \/ t = Pseudocode.SRType_ROR \/ (t = Pseudocode.SRType_RRX /\ n = 1)) ->
  shift.shift v N t n c = Val (fst (Shift_C N v t n c)).
Proof. intros. unfold shift.shift. rewrite shift_c_spec by assumption. reflexivity. Qed.

Theorem decode_imm_shift_spec t imm5 : 0 <= t <= 3 -> decode_imm_shift t imm5 = Val (DecodeImmShift t imm5).
Proof.
  intros. unfold decode_imm_shift, DecodeImmShift.
  destruct (t =? 0) eqn:E0; [reflexivity|]. destruct (t =? 1) eqn:E1; [reflexivity|].
  destruct (t =? 2) eqn:E2; [reflexivity|]. replace (t =? 3) with true by lia.
  destruct (imm5 =? 0); reflexivity.
Qed.
Theorem decode_imm_shift_unbound t imm5 : ~ 0 <= t <= 3 -> decode_imm_shift t imm5 = Err (EHost HUnbound).
Proof.
  intros. unfold decode_imm_shift.
  replace (t =? 0) with false by lia. replace (t =? 1) with false by lia.
  replace (t =? 2) with false by lia. replace (t =? 3) with false by lia. reflexivity.
Qed.
Theorem decode_reg_shift_spec t : 0 <= t <= 3 -> decode_reg_shift t = Val (DecodeRegShift t).
Proof.
  intros. unfold decode_reg_shift, DecodeRegShift.
  destruct (t =? 0) eqn:E0; [reflexivity|]. destruct (t =? 1) eqn:E1; [reflexivity|].
  destruct (t =? 2) eqn:E2; [reflexivity|]. replace (t =? 3) with true by lia. reflexivity.
Qed.

Theorem arm_expand_imm_c_spec imm12 c : 0 <= imm12 < 4096 ->
  arm_expand_imm_c imm12 c = Val (ARMExpandImm_C imm12 c).
Proof.
  intros. unfold arm_expand_imm_c, ARMExpandImm_C. cbv zeta. rewrite !substring_bits by lia.
  pose proof (bits_range imm12 7 0 ltac:(lia)). pose proof (bits_range imm12 11 8 ltac:(lia)).
  rewrite shift_c_spec; [reflexivity|lia| |lia|].
  - change (2 ^ 32) with 4294967296. change (2 ^ (7 - 0 + 1)) with 256 in *. lia.
  - right; right; right; left. reflexivity.
Qed.
Theorem arm_expand_imm_spec imm12 : 0 <= imm12 < 4096 ->
  arm_expand_imm imm12 = Val (fst (ARMExpandImm_C imm12 0)).
Proof. intros. unfold arm_expand_imm. rewrite arm_expand_imm_c_spec by lia. reflexivity. Qed.

Theorem thumb_expand_imm_c_spec imm12 c : 0 <= imm12 < 4096 ->
  thumb_expand_imm_c imm12 c = Val (ThumbExpandImm_C imm12 c).
Proof.
  intros H. unfold thumb_expand_imm_c, ThumbExpandImm_C. cbv zeta. rewrite !substring_bits by lia.
  rewrite lower_chunk_mod by lia.
  destruct (bits imm12 11 10 =? 0) eqn:E.
  - assert (B : imm12 mod 2 ^ 8 = bits imm12 7 0) by (unfold bits; rewrite Z.pow_0_r, Z.div_1_r; reflexivity).
    rewrite B. pose proof (bits_range imm12 9 8 ltac:(lia)) as R. change (2 ^ (9 - 8 + 1)) with 4 in R.
    set (b := bits imm12 7 0). rewrite !chain_spec by lia. rewrite Z.shiftl_mul_pow2 by lia.
    destruct (bits imm12 9 8 =? 0) eqn:E0; [reflexivity|].
    destruct (bits imm12 9 8 =? 1) eqn:E1; [cbn [ebind eunbound]; reflexivity|].
    destruct (bits imm12 9 8 =? 2) eqn:E2; [cbn [ebind eunbound]; f_equal; f_equal; lia|].
    replace (bits imm12 9 8 =? 3) with true by lia. cbn [ebind eunbound]. f_equal. f_equal. lia.
  - rewrite chain_spec by lia. pose proof (bits_range imm12 6 0 ltac:(lia)) as R6.
    pose proof (bits_range imm12 11 7 ltac:(lia)) as R7. change (2 ^ (6 - 0 + 1)) with 128 in R6.
    assert (NZ : bits imm12 11 7 <> 0).
    { intro Z0. unfold bits in *. change (11 - 10 + 1) with 2 in E. change (11 - 7 + 1) with 5 in Z0.
      change (2 ^ 10) with 1024 in *. change (2 ^ 7) with 128 in *. change (2 ^ 2) with 4 in *. change (2 ^ 5) with 32 in *. lia. }
    rewrite ror_c_spec; [|lia| |exact NZ].
    + cbn [ebind eunbound]. rewrite Z.mul_1_l. destruct (ROR_C 32 _ _). reflexivity.
    + change (2 ^ 32) with 4294967296. change (2 ^ 7) with 128. lia.
Qed.
Theorem thumb_expand_imm_spec imm12 : 0 <= imm12 < 4096 ->
  thumb_expand_imm imm12 = Val (fst (ThumbExpandImm_C imm12 0)).
Proof. intros. unfold thumb_expand_imm. rewrite thumb_expand_imm_c_spec by lia. reflexivity. Qed.
