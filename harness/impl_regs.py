"""implrun handlers for register field views."""
import contextlib
import importlib
import io
import pkgutil

_CLS = {}


def reg_class(name):
    if not _CLS:
        from armulator.armv6.arm_v6 import ArmV6
        ArmV6()
        import armulator.armv6.all_registers as pkg
        for m in pkgutil.iter_modules(pkg.__path__):
            mod = importlib.import_module('armulator.armv6.all_registers.' + m.name)
            for k, v in vars(mod).items():
                if isinstance(v, type):
                    _CLS[k] = v
    return _CLS[name]


def run_field(case):
    """case: cls, field, v, x, family (None | [getter, setter, n]) -> [0, get, value after set] or exception"""
    import implrun
    cls = reg_class(case['cls'])
    try:
        with contextlib.redirect_stdout(io.StringIO()):
            r = cls() if case['cls'] != 'RGNR' else cls(12)
            r.value = case['v']
            if case.get('family'):
                g, s, n = case['family']
                got = getattr(r, g)(n)
                getattr(r, s)(n, case['x'])
            else:
                got = getattr(r, case['field'])
                setattr(r, case['field'], case['x'])
            return [0, int(got), int(r.value)]
    except Exception as e:  # noqa
        return implrun.exn_enc(e)


HANDLERS = {'regfield': run_field}
