(* Proofs/VmsaWalk.v — the short-descriptor translation table walk and TranslateAddressV against Spec/Vmsa.v. *)
From Coq Require Import ZArith List Bool Lia ZifyBool.
From ArmV Require Import Lib.PyZ Lib.Monad Lib.Machine Spec.Pseudocode Spec.Expected Spec.Arch Spec.MachineView Spec.Hub Spec.Memory Spec.Vmsa
  Proofs.BitLemmas Proofs.SpecFacts Proofs.BitsOps Proofs.BitsOps2 Proofs.FieldsProofs Proofs.StateLemmas
  Proofs.CondProofs Proofs.BankProofs Proofs.MachineOps Proofs.HubProofs Proofs.MemProofs Proofs.MpuProofs Proofs.VmsaProofs.
From Gen Require Import enums bits_ops shift regviews records hubm opsyn core.
Import ListNotations.
Open Scope Z_scope.
Ltac Zify.zify_post_hook ::= Z.to_euclidean_division_equations.

(* ---------- the short-descriptor table walk ---------- *)
Definition leaf_record (secure : bool) (l : sd_leaf) (ma : MemoryAttributes) : TLBRecord :=
  mk_TLBRecord (mk_Permissions (lf_ap l) (lf_xn l) (lf_pxn l)) (lf_ng l) (lf_domain l) 0 (lf_level l) (lf_blocksize l)
    (mk_AddressDescriptor (set_MemoryAttributes_outertransient (set_MemoryAttributes_innertransient ma 0) 0)
                          (mk_FullAddress (lf_pa l) (if secure then lf_ns l else 1))).

Definition walk_ctx (cfg : config) (s : machine) : Prop :=
  vmsa cfg /\ no_lpae cfg /\ cfg_have_virt_ext cfg = 0 /\ hub_ok (mem s) /\ word (getl (sys s) 23) /\
  bit (sreg s i_sctlr) 17 = 0 (* HA *) /\ bit (sreg s i_sctlr) 28 = 1 (* TRE *).

Lemma desc_at_range s pa : hub_ok (mem s) -> 0 <= desc_at s pa < 2 ^ 32.
Proof. intros Hh. unfold desc_at. apply (endian_range _ 4); [lia|]. apply hub_read_range; [exact Hh|lia]. Qed.
Lemma ee_desc {A} s pa (k : Z -> M machine A) : hub_ok (mem s) ->
  bind (lift (if truthy (SCTLR_get_ee (getl (sys s) 11))
              then ebind (big_endian_reverse (hub_read (mem s) pa 4) 4) (fun t => Val t) else Val (hub_read (mem s) pa 4))) k s
  = k (desc_at s pa) s.
Proof.
  intros Hh. unfold desc_at, endian, sreg, i_sctlr, SCTLR_get_ee. rewrite flag_get, truthy_bit' by lia.
  pose proof (hub_read_range (mem s) pa 4 Hh ltac:(lia)) as R.
  destruct (bit (getl (sys s) 11) 25 =? 1); [|reflexivity].
  rewrite big_endian_reverse_spec by exact R. reflexivity.
Qed.
Lemma bits10_cases d : bits d 1 0 = 0 \/ bits d 1 0 = 1 \/ (bits d 1 0 <> 0 /\ bits d 1 0 <> 1 /\ bit d 1 = 1).
Proof. unfold bits, bit. change (2 ^ (1 - 0 + 1)) with 4. change (2 ^ 0) with 1. change (2 ^ 1) with 2. lia. Qed.

Theorem walk_sd_spec cfg mva w size s :
  walk_ctx cfg s -> 0 <= w <= 1 -> word mva ->
  ArmV6_translation_table_walk_sd cfg mva w size s =
  match sd_walk (truthy (cfg_have_security_ext cfg)) s mva with
  | W_fault vf lvl dom => Exc (EDataAbort (vf_dtype vf) 0) (vmsa_fault_state s mva vf lvl dom w)
  | W_leaf l => Ok (leaf_record (IsSecure (sysctx_of cfg s) (cpsr_of s)) l
                                (tex_remap (sreg s i_prrr) (sreg s i_nmrr) (lf_texcb l) (lf_s l))) s
  end.
Proof.
  intros (Hv & Hl & Hvirt & Hh & Wd & Hha & Htre) Hw Hm.
  unfold ArmV6_translation_table_walk_sd. cbv zeta. rewrite run_get_sys_bind. cbv beta.
  unfold sd_walk, ttbr_select, sreg, i_ttbcr, i_ttbr0, i_ttbr1, i_sctlr in *.
  unfold TTBCR_get_n. rewrite get_slice by lia.
  set (n := bits (getl (sys s) 27) 2 0).
  assert (Hn : 0 <= n < 8). { subst n. unfold bits. change (2 ^ (2 - 0 + 1)) with 8. lia. }
  assert (Esel : ((n =? 0) || (substring mva 31 (32 - n) =? 0)) = ((n =? 0) || (bits mva 31 (32 - n) =? 0))).
  { destruct (n =? 0) eqn:E0; [reflexivity|]. rewrite substring_bits by lia. reflexivity. }
  rewrite Esel. clear Esel.
  match goal with |- bind _ ?K _ = _ => set (K0 := K) end.
  set (sel := (n =? 0) || (bits mva 31 (32 - n) =? 0)).
  set (ttbr := if sel then getl (sys s) 31 else getl (sys s) 32).
  set (n' := if sel then n else 0).
  set (dis := if sel then bit (getl (sys s) 27) 4 =? 1 else bit (getl (sys s) 27) 5 =? 1).
  assert (E0 : forall k : Z * Z * Z -> M machine TLBRecord,
    bind (if sel then bind (get_sys 31) (fun r_2 => bind (get_sys 27) (fun r_3 => ret (r_2, b2z (TTBCR_get_pd0 r_3 =? 1), n)))
          else bind (get_sys 32) (fun r_4 => bind (get_sys 27) (fun r_5 => ret (r_4, b2z (TTBCR_get_pd1 r_5 =? 1), 0)))) k s
    = k (ttbr, b2z dis, n') s).
  { intros k. unfold ttbr, n', dis, TTBCR_get_pd0, TTBCR_get_pd1. destruct sel; mnorm; rewrite run_get_sys_bind; cbv beta; mnorm;
      rewrite run_get_sys_bind; cbv beta; mnorm; rewrite flag_get by lia; reflexivity. }
  rewrite E0. clear E0. subst K0. cbv beta iota.
  replace (if sel then (getl (sys s) 31, n, bit (getl (sys s) 27) 4 =? 1) else (getl (sys s) 32, 0, bit (getl (sys s) 27) 5 =? 1))
    with (ttbr, n', dis) by (unfold ttbr, n', dis; destruct sel; reflexivity).
  rewrite truthy_b2z. unfold conf_have_security_ext.
  destruct (truthy (cfg_have_security_ext cfg) && dis) eqn:Edis.
  { rewrite run_bind, run_bind. change DAbort_TRANSLATION with (vf_dtype VF_translation).
    rewrite (vmsa_data_abort cfg mva 0 0 1 w VF_translation 0 0 0 s) by (try assumption; lia). reflexivity. }
  rewrite bind_ret_run. cbv beta. rewrite b_is_secure. cbv beta. rewrite b_is_secure. cbv beta.
  unfold conf_have_virt_ext. rewrite Hvirt. change (negb (truthy 0)) with true. cbn [orb]. cbv iota.
  rewrite bind_ret_run. cbv beta.
  match goal with |- context [zoom_mem (Hub_getitem (?D, 4))] => set (D1 := D) end.
  assert (Hn' : 0 <= n' < 8) by (unfold n'; destruct sel; lia).
  assert (EpaD1 : pa_of D1 = l1_address ttbr n' mva).
  { assert (E : pa_of D1 = Z.shiftl (chain (substring ttbr 31 (14 - n')) (substring mva (31 - n') 20) (12 - n')) 2)
      by (subst D1; destruct (truthy (conf_have_mp_ext cfg)); [reflexivity|destruct (bit_at ttbr 0 =? 0); reflexivity]).
    rewrite E. unfold l1_address. rewrite !substring_bits by lia. rewrite chain_spec by lia. rewrite Z.shiftl_mul_pow2 by lia.
    replace (2 ^ (14 - n')) with (2 ^ (12 - n') * 2 ^ 2) by (rewrite <- Z.pow_add_r by lia; f_equal; lia). change (2 ^ 2) with 4. ring. }
  rewrite run_bind. rewrite (run_zoom_mem_ok _ s _ _ (Hub_getitem_spec (mem s) D1 4 eq_refl)). cbv iota beta. rewrite set_mem_same, EpaD1.
  clearbody D1. rewrite run_get_sys_bind. cbv beta.
  rewrite (ee_desc s _ _ Hh). cbv beta.
  set (d1 := desc_at s (l1_address ttbr n' mva)).
  assert (Hd1 : 0 <= d1 < 2 ^ 32) by (apply desc_at_range; exact Hh).
  match goal with |- bind _ ?K _ = _ => set (Ktail := K) end.
  assert (Etail : forall lv dm px nsb sb ap ng tx xn bs ext pa, 0 <= sb <= 1 -> 0 <= ext ->
    Ktail (Some lv, dm, Some px, Some nsb, Some sb, Some ap, Some ng, Some tx, Some xn, Some bs, Some ext, Some pa) s
    = Ok (leaf_record (IsSecure (sysctx_of cfg s) (cpsr_of s)) (mk_leaf lv dm ap xn px ng nsb sb tx bs (ext * 2 ^ 32 + pa))
                      (tex_remap (getl (sys s) 39) (getl (sys s) 40) tx sb)) s).
  { intros lv dm px nsb sb ap ng tx xn bs ext pa Hsb Hext. subst Ktail. cbv beta iota.
    rewrite run_get_sys_bind. cbv beta. unfold SCTLR_get_tre. rewrite flag_get by lia. rewrite Htre.
    change (negb (truthy 1)) with false. cbv iota. unfold lift, eunbound.
    repeat (first [rewrite bind_assoc_run | rewrite bind_ret_run]; cbv beta iota).
    rewrite run_bind, (remapped_tex_decode_spec tx sb s Hsb). cbv iota beta.
    repeat (first [rewrite bind_assoc_run | rewrite bind_ret_run]; cbv beta iota).
    rewrite b_is_secure. cbv beta. rewrite truthy_B2Z''.
    rewrite chain_spec by lia. unfold sreg, i_prrr, i_nmrr.
    destruct (IsSecure (sysctx_of cfg s) (cpsr_of s)); cbn [ebind]; reflexivity. }
  clearbody Ktail.
  assert (Eafe : forall d i, (truthy (SCTLR_get_afe (getl (sys s) 11)) && (bit_at d i =? 0)) = ((bit (getl (sys s) 11) 29 =? 1) && (bit_at d i =? 0))).
  { intros. unfold SCTLR_get_afe. rewrite flag_get, truthy_bit' by lia. reflexivity. }
  assert (Eha : negb (truthy (SCTLR_get_ha (getl (sys s) 11))) = true).
  { unfold SCTLR_get_ha. rewrite flag_get by lia. rewrite Hha. reflexivity. }
  rewrite !(substring_bits d1 1 0) by lia.
  destruct (bits10_cases d1) as [E|[E|(E0 & E1 & Eb)]].
  - (* invalid first-level descriptor *)
    rewrite E. cbn [Z.eqb]. cbv iota. rewrite run_bind, run_bind. change DAbort_TRANSLATION with (vf_dtype VF_translation).
    rewrite (vmsa_data_abort cfg mva 0 0 1 w VF_translation 0 0 0 s) by (try assumption; lia). reflexivity.
  - (* page table *)
    rewrite E. cbn [Z.eqb Pos.eqb]. cbv iota. mnorm. rewrite b_is_secure. cbv beta. mnorm. rewrite b_is_secure. cbv beta. mnorm.
    match goal with |- context [zoom_mem (Hub_getitem (?D, 4))] => set (D2 := D) end.
    assert (EpaD2 : pa_of D2 = l2_address d1 mva).
    { assert (E' : pa_of D2 = Z.shiftl (chain (substring d1 31 10) (substring mva 19 12) 8) 2) by reflexivity.
      rewrite E'. unfold l2_address. rewrite !substring_bits by lia. rewrite chain_spec by lia.
      rewrite Z.shiftl_mul_pow2 by lia. change (2 ^ 10) with (2 ^ 8 * 4). change (2 ^ 2) with 4. ring. }
    rewrite run_bind. rewrite (run_zoom_mem_ok _ s _ _ (Hub_getitem_spec (mem s) D2 4 eq_refl)). cbv iota beta. rewrite set_mem_same, EpaD2.
    clearbody D2. mnorm. rewrite run_get_sys_bind. cbv beta. mnorm. rewrite (ee_desc s _ _ Hh). cbv beta.
    set (d2 := desc_at s (l2_address d1 mva)).
    assert (Hd2 : 0 <= d2 < 2 ^ 32) by (apply desc_at_range; exact Hh).
    rewrite (substring_bits d2 1 0) by lia.
    assert (Hdom : 0 <= bits d1 8 5 < 16) by (unfold bits; change (2 ^ (8 - 5 + 1)) with 16; lia).
    rewrite !substring_bits by lia. rewrite !chain_spec by lia.
    unfold i_prrr, i_nmrr.
    destruct (bits d2 1 0 =? 0) eqn:E20.
    { mnorm. rewrite run_bind. change DAbort_TRANSLATION with (vf_dtype VF_translation).
      rewrite (vmsa_data_abort cfg mva 0 (bits d1 8 5) 2 w VF_translation 0 0 0 s) by (try assumption; lia). reflexivity. }
    mnorm. rewrite run_get_sys_bind. cbv beta. mnorm. rewrite Eafe. rewrite !bit_at_bit by lia.
    destruct ((bit (getl (sys s) 11) 29 =? 1) && (bit d2 4 =? 0)) eqn:Eaf.
    { mnorm. rewrite run_get_sys_bind. cbv beta. rewrite Eha. cbv iota. mnorm. rewrite run_bind. change DAbort_ACCESS_FLAG with (vf_dtype VF_access_flag).
      rewrite (vmsa_data_abort cfg mva 0 (bits d1 8 5) 2 w VF_access_flag 0 0 0 s) by (try assumption; lia). reflexivity. }
    mnorm. pose proof (bit01 d2 10) as Hs10.
    destruct (bit d2 1 =? 0) eqn:E21; cbv iota beta; mnorm; rewrite Etail by lia; reflexivity.
  - (* section or supersection *)
    replace (bits d1 1 0 =? 0) with false by lia. replace (bits d1 1 0 =? 1) with false by lia. cbv iota.
    rewrite !bit_at_bit by lia. rewrite Eb. change (truthy 1) with true. cbv iota.
    rewrite !substring_bits by lia. rewrite !chain_spec by lia. unfold i_prrr, i_nmrr.
    mnorm. rewrite run_get_sys_bind. cbv beta. mnorm. unfold SCTLR_get_afe. rewrite flag_get, truthy_bit' by lia.
    destruct ((bit (getl (sys s) 11) 29 =? 1) && (bit d1 10 =? 0)) eqn:Eaf.
    { mnorm. rewrite run_get_sys_bind. cbv beta. rewrite Eha. cbv iota. mnorm. rewrite run_bind. change DAbort_ACCESS_FLAG with (vf_dtype VF_access_flag).
      rewrite (vmsa_data_abort cfg mva 0 0 1 w VF_access_flag 0 0 0 s) by (try assumption; lia). reflexivity. }
    mnorm. pose proof (bit01 d1 16) as Hs16.
    assert (0 <= bits d1 8 5 * 2 ^ 4 + bits d1 23 20) by (unfold bits; lia).
    destruct (bit d1 18 =? 0) eqn:E18; cbv iota beta; mnorm; rewrite Etail by lia.
    + reflexivity.
    + f_equal. f_equal. f_equal. ring.
Qed.

(* ---------- leaves produced by the walk are well-formed ---------- *)
Lemma bits_lt x hi lo k : 0 <= lo <= hi -> k = 2 ^ (hi - lo + 1) -> 0 <= bits x hi lo < k.
Proof. intros H ->. unfold bits. apply Z.mod_pos_bound. apply pow_pos. lia. Qed.
Lemma sd_walk_leaf_ranges sec s mva l : sd_walk sec s mva = W_leaf l ->
  0 <= lf_domain l < 16 /\ 1 <= lf_level l <= 2 /\ 0 <= lf_ap l < 8 /\ 0 <= lf_s l <= 1.
Proof.
  unfold sd_walk. destruct (ttbr_select s mva) as [[ttbr n] dis].
  destruct (sec && dis); [discriminate|].
  set (d1 := desc_at s (l1_address ttbr n mva)). set (d2 := desc_at s (l2_address d1 mva)).
  pose proof (bits_lt d1 8 5 16 ltac:(lia) eq_refl). pose proof (bit01 d2 9). pose proof (bits_lt d2 5 4 4 ltac:(lia) eq_refl).
  pose proof (bit01 d2 10). pose proof (bit01 d1 15). pose proof (bits_lt d1 11 10 4 ltac:(lia) eq_refl). pose proof (bit01 d1 16).
  destruct (bits d1 1 0 =? 0); [discriminate|]. destruct (bits d1 1 0 =? 1).
  - destruct (bits d2 1 0 =? 0); [discriminate|]. destruct (_ && _); [discriminate|].
    destruct (bit d2 1 =? 0); intros E; inversion E; subst l; cbn [lf_domain lf_level lf_ap lf_s]; lia.
  - destruct (_ && _); [discriminate|].
    destruct (bit d1 18 =? 0); intros E; inversion E; subst l; cbn [lf_domain lf_level lf_ap lf_s]; lia.
Qed.

