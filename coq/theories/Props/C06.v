(* Props/C06.v — C06: ARM decode (class selection).  Statements only; proofs in Proofs/DecArm1.v by the reflective cube
   checker of Proofs/Cube.v: the regenerated decoder function is turned into a decision tree (checked by conversion) and
   compared with the hand-written architectural table (Spec/DecTables.v) on every word of the group's domain. *)
From Coq Require Import ZArith Bool List String.
From ArmV Require Import Lib.PyZ Proofs.Cube Proofs.DecodeReify Spec.DecTables Proofs.DecArm1.
From Gen Require Import bits_ops opsyn decoders.
Import ListNotations.
Open Scope Z_scope.

(* A5.1: every 32-bit word is routed to the group decoder the top-level table names *)
Theorem C06_top_level w : 0 <= w < 2 ^ 32 ->
  dec_arm_instruction_set w = eval_leaf top_env (Val None) (lookup top_table (LRet (Val None)) w) w.
Proof. exact (dec_arm_top_table w). Qed.
Print Assumptions C06_top_level.
(* A5.2.5 multiply and multiply accumulate (incl. the two UNDEFINED slots) *)
Theorem C06_multiply w : 0 <= w < 2 ^ 32 -> Z.land w (fst (pat mul_domain)) = snd (pat mul_domain) ->
  dec_arm_multiply_and_multiply_accumulate w = eval_leaf [] (Val None) (lookup mul_table (LRet (Val None)) w) w.
Proof. exact (dec_multiply_table w). Qed.
Print Assumptions C06_multiply.
(* A5.3 load/store word and unsigned byte (incl. the PUSH/POP single-register forms, LDR literal, unprivileged forms) *)
Theorem C06_load_store_word w : 0 <= w < 2 ^ 32 -> Z.land w (fst (pat lsw_domain)) = snd (pat lsw_domain) ->
  dec_arm_load_store_word_and_unsigned_byte w = eval_leaf [] None (lookup lsw_table (LRet None) w) w.
Proof. exact (dec_load_store_word_table w). Qed.
Print Assumptions C06_load_store_word.
(* A5.5 branch, branch with link, and block data transfer (PUSH/POP of two or more registers) *)
Theorem C06_branch_block w : 0 <= w < 2 ^ 32 -> Z.land w (fst (pat bbt_domain)) = snd (pat bbt_domain) ->
  dec_arm_branch_branch_with_link_and_block_data_transfer w = eval_leaf bbt_env None (lookup bbt_table (LRet None) w) w.
Proof. exact (dec_branch_block_table w). Qed.
Print Assumptions C06_branch_block.
(* A5.2.3 data-processing (immediate) *)
Theorem C06_dp_immediate w : 0 <= w < 2 ^ 32 -> in_domains w dpi_domains ->
  dec_arm_data_processing_immediate w = eval_leaf [] None (lookup dpi_table (LRet None) w) w.
Proof. exact (dec_dp_immediate_table w). Qed.
Print Assumptions C06_dp_immediate.
