(* Enc.v — canonical encodings of model/spec results as `list Z`, used only by the
   correspondence check (harness/common.py coq_eval).  Mirrors harness/implrun.py. *)
From Coq Require Import ZArith List Bool.
From ArmV Require Import Lib.PyZ Lib.Monad Lib.Machine.
Import ListNotations.
Open Scope Z_scope.

Definition host_code (h : hosterr) : Z :=
  match h with HAssert => 1 | HUnbound => 2 | HNone => 3 | HType => 3 | HKey => 4 | HIndex => 5
             | HStruct => 6 | HValue => 7 | HZeroDiv => 8 | HFuel => 9 end.
Definition exn_enc (e : exn) : list Z :=
  match e with
  | EHost h => [1; host_code h]
  | EEndOfInstruction => [2; 1]
  | ESVC => [2; 2]
  | ESMC => [2; 3]
  | EDataAbort d s => [2; 4; d; s]
  | EHypTrap => [2; 5]
  | EUndefined => [2; 6]
  | ENotImpl => [2; 7]
  | EUnsupported => [3; 0]
  end.

(* outcome class of an encoded from_bitarray result: [0] = operand record / None / UNDEFINED, else the exception codes *)
Definition fb_kind_of (l : list Z) : list Z :=
  match l with
  | 0 :: _ => [0]
  | 2 :: 6 :: _ => [0]
  | a :: b :: _ => [a; b]
  | _ => l
  end.

Definition enc_Z (z : Z) : list Z := [z].
Definition enc_unit (u : unit) : list Z := [].
Definition enc_pair {A B} (ea : A -> list Z) (eb : B -> list Z) (p : A * B) : list Z := ea (fst p) ++ eb (snd p).
Definition enc_opt {A} (ea : A -> list Z) (o : option A) : list Z :=
  match o with Some a => 1 :: ea a | None => [0] end.
Definition enc_list (l : list Z) : list Z := Z.of_nat (length l) :: l.
Definition enc_opcode (o : opcode) : list Z := fst o :: enc_list (snd o).
Definition enc_res {A} (ea : A -> list Z) (r : res A) : list Z :=
  match r with Val a => 0 :: ea a | Err e => exn_enc e end.
Definition enc_pure {A} (ea : A -> list Z) (a : A) : list Z := 0 :: ea a.

Definition enc_device (d : device) : list Z := dev_beg d :: dev_end d :: enc_list (dev_bytes d).
Definition enc_hub (h : hub) : list Z := Z.of_nat (length h) :: flat_map enc_device h.
Definition enc_machine (s : machine) : list Z :=
  enc_list (R s) ++ enc_list (sys s) ++ (Z.of_nat (length (sysl s)) :: flat_map enc_list (sysl s))
  ++ enc_list (changed s) ++ [opcode_w s; opcode_len s; run_ s; wfe s; wfi s]
  ++ enc_opt enc_opcode (executed s) ++ enc_hub (mem s).
Definition enc_out {S A} (es : S -> list Z) (ea : A -> list Z) (o : outcome S A) : list Z :=
  match o with
  | Ok a s => (0 :: ea a) ++ es s
  | Exc e s => exn_enc e ++ es s
  end.
