(* Props/C07ops1.v — C07: operand extraction of the Thumb encodings (shard 1 of 8).
   For every word of the stated domain, from_bitarray returns the class with the fields the encoding diagram
   names, and leaves the state alone.  Statements rendered from harness/optable.py by harness/mkopthm.py. *)
From Coq Require Import ZArith List Bool Lia ZifyBool.
From ArmV Require Import Lib.PyZ Lib.Monad Lib.Machine Spec.Pseudocode Spec.Arch Spec.MachineView Spec.OperandSpec.
From Gen Require Import enums bits_ops shift regviews records hubm opsyn core exec conc.
Import ListNotations.
Open Scope Z_scope.
From ArmV Require Proofs.OpsT1.

Theorem C07_ops_AdcRegisterT1 w s :
  0 <= w < 2 ^ 16 ->
  fb_out (AdcRegisterT1_from_bitarray w) s = Ok (Some (code_AdcRegister, [w; not_in_it s; bits w 5 3; bits w 2 0; bits w 2 0; 1; 0])) s.
Proof. exact (OpsT1.ops_AdcRegisterT1 w s). Qed.
Print Assumptions C07_ops_AdcRegisterT1.

Theorem C07_ops_AddRegisterThumbT3 w s :
  0 <= w < 2 ^ 32 ->
  regs13 [bits w 19 16; bits w 11 8; bits w 3 0] = true ->
  fb_out (AddRegisterThumbT3_from_bitarray w) s = Ok (Some (code_AddRegisterThumb, [w; bit w 20; bits w 3 0; bits w 11 8; bits w 19 16; fst (DecodeImmShift (bits w 5 4) (imm5t w)); snd (DecodeImmShift (bits w 5 4) (imm5t w))])) s.
Proof. exact (OpsT1.ops_AddRegisterThumbT3 w s). Qed.
Print Assumptions C07_ops_AddRegisterThumbT3.

Theorem C07_ops_AdrT1 w s :
  0 <= w < 2 ^ 16 ->
  fb_out (AdrT1_from_bitarray w) s = Ok (Some (code_Adr, [w; 1; bits w 10 8; bits w 7 0 * 4])) s.
Proof. exact (OpsT1.ops_AdrT1 w s). Qed.
Print Assumptions C07_ops_AdrT1.

Theorem C07_ops_AsrRegisterT1 w s :
  0 <= w < 2 ^ 16 ->
  fb_out (AsrRegisterT1_from_bitarray w) s = Ok (Some (code_AsrRegister, [w; not_in_it s; bits w 5 3; bits w 2 0; bits w 2 0])) s.
Proof. exact (OpsT1.ops_AsrRegisterT1 w s). Qed.
Print Assumptions C07_ops_AsrRegisterT1.

Theorem C07_ops_BxT1 w s :
  0 <= w < 2 ^ 16 ->
  in_it s = false ->
  fb_out (BxT1_from_bitarray w) s = Ok (Some (code_Bx, [w; bits w 6 3])) s.
Proof. exact (OpsT1.ops_BxT1 w s). Qed.
Print Assumptions C07_ops_BxT1.

Theorem C07_ops_CmpImmediateT1 w s :
  0 <= w < 2 ^ 16 ->
  fb_out (CmpImmediateT1_from_bitarray w) s = Ok (Some (code_CmpImmediate, [w; bits w 10 8; bits w 7 0])) s.
Proof. exact (OpsT1.ops_CmpImmediateT1 w s). Qed.
Print Assumptions C07_ops_CmpImmediateT1.

Theorem C07_ops_EnterxLeavexT1 w s :
  0 <= w < 2 ^ 32 ->
  fb_out (EnterxLeavexT1_from_bitarray w) s = Ok (Some (code_EnterxLeavex, [w; bit w 4])) s.
Proof. exact (OpsT1.ops_EnterxLeavexT1 w s). Qed.
Print Assumptions C07_ops_EnterxLeavexT1.

Theorem C07_ops_LdcLdc2ImmediateT2 w s :
  0 <= w < 2 ^ 32 ->
  regs13 [bits w 19 16] = true ->
  pre_ldc w = true ->
  fb_out (LdcLdc2ImmediateT2_from_bitarray w) s = Ok (Some (code_LdcLdc2Immediate, [w; bits w 11 8; bits w 19 16; bit w 23; bits w 7 0 * 4; bit w 24; bit w 21])) s.
Proof. exact (OpsT1.ops_LdcLdc2ImmediateT2 w s). Qed.
Print Assumptions C07_ops_LdcLdc2ImmediateT2.

Theorem C07_ops_LdrImmediateThumbT3 w s :
  0 <= w < 2 ^ 32 ->
  regs13 [bits w 19 16; bits w 15 12] = true ->
  fb_out (LdrImmediateThumbT3_from_bitarray w) s = Ok (Some (code_LdrImmediateThumb, [w; 1; 0; 1; bits w 15 12; bits w 19 16; bits w 11 0])) s.
Proof. exact (OpsT1.ops_LdrImmediateThumbT3 w s). Qed.
Print Assumptions C07_ops_LdrImmediateThumbT3.

Theorem C07_ops_LdrbImmediateThumbT3 w s :
  0 <= w < 2 ^ 32 ->
  regs13 [bits w 19 16; bits w 15 12] = true ->
  pre_puw w = true ->
  fb_out (LdrbImmediateThumbT3_from_bitarray w) s = Ok (Some (code_LdrbImmediateThumb, [w; bit w 9; bit w 8; bit w 10; bits w 15 12; bits w 19 16; bits w 7 0])) s.
Proof. exact (OpsT1.ops_LdrbImmediateThumbT3 w s). Qed.
Print Assumptions C07_ops_LdrbImmediateThumbT3.

Theorem C07_ops_LdrexbT1 w s :
  0 <= w < 2 ^ 32 ->
  regs13 [bits w 19 16; bits w 15 12] = true ->
  bit w 0 = 1 ->
  bit w 1 = 1 ->
  bit w 2 = 1 ->
  bit w 3 = 1 ->
  bit w 8 = 1 ->
  bit w 9 = 1 ->
  bit w 10 = 1 ->
  bit w 11 = 1 ->
  fb_out (LdrexbT1_from_bitarray w) s = Ok (Some (code_Ldrexb, [w; bits w 15 12; bits w 19 16])) s.
Proof. exact (OpsT1.ops_LdrexbT1 w s). Qed.
Print Assumptions C07_ops_LdrexbT1.

Theorem C07_ops_LdrhRegisterT2 w s :
  0 <= w < 2 ^ 32 ->
  regs13 [bits w 19 16; bits w 15 12; bits w 3 0] = true ->
  fb_out (LdrhRegisterT2_from_bitarray w) s = Ok (Some (code_LdrhRegister, [w; 1; 0; 1; bits w 3 0; bits w 15 12; bits w 19 16; 1; bits w 5 4])) s.
Proof. exact (OpsT1.ops_LdrhRegisterT2 w s). Qed.
Print Assumptions C07_ops_LdrhRegisterT2.

Theorem C07_ops_LdrshImmediateT1 w s :
  0 <= w < 2 ^ 32 ->
  regs13 [bits w 19 16; bits w 15 12] = true ->
  fb_out (LdrshImmediateT1_from_bitarray w) s = Ok (Some (code_LdrshImmediate, [w; 1; 0; 1; bits w 11 0; bits w 15 12; bits w 19 16])) s.
Proof. exact (OpsT1.ops_LdrshImmediateT1 w s). Qed.
Print Assumptions C07_ops_LdrshImmediateT1.

Theorem C07_ops_LslImmediateT2 w s :
  0 <= w < 2 ^ 32 ->
  regs13 [bits w 11 8; bits w 3 0] = true ->
  pre_imm5t_nz w = true ->
  fb_out (LslImmediateT2_from_bitarray w) s = Ok (Some (code_LslImmediate, [w; bit w 20; bits w 3 0; bits w 11 8; snd (DecodeImmShift 0 (imm5t w))])) s.
Proof. exact (OpsT1.ops_LslImmediateT2 w s). Qed.
Print Assumptions C07_ops_LslImmediateT2.

Theorem C07_ops_McrMcr2T2 w s :
  0 <= w < 2 ^ 32 ->
  regs13 [bits w 15 12] = true ->
  pre_cp_ok w = true ->
  fb_out (McrMcr2T2_from_bitarray w) s = Ok (Some (code_McrMcr2, [w; bits w 11 8; bits w 15 12])) s.
Proof. exact (OpsT1.ops_McrMcr2T2 w s). Qed.
Print Assumptions C07_ops_McrMcr2T2.

Theorem C07_ops_MovRegisterThumbT1 w s :
  0 <= w < 2 ^ 16 ->
  pre_mov_t1 w = true ->
  fb_out (MovRegisterThumbT1_from_bitarray w) s = Ok (Some (code_MovRegisterThumb, [w; 0; bits w 6 3; bit w 7 * 8 + bits w 2 0])) s.
Proof. exact (OpsT1.ops_MovRegisterThumbT1 w s). Qed.
Print Assumptions C07_ops_MovRegisterThumbT1.

Theorem C07_ops_MrsApplicationT1 w s :
  0 <= w < 2 ^ 32 ->
  regs13 [bits w 11 8] = true ->
  fb_out (MrsApplicationT1_from_bitarray w) s = Ok (Some (code_MrsApplication, [w; bits w 11 8])) s.
Proof. exact (OpsT1.ops_MrsApplicationT1 w s). Qed.
Print Assumptions C07_ops_MrsApplicationT1.

Theorem C07_ops_MvnRegisterT2 w s :
  0 <= w < 2 ^ 32 ->
  regs13 [bits w 11 8; bits w 3 0] = true ->
  fb_out (MvnRegisterT2_from_bitarray w) s = Ok (Some (code_MvnRegister, [w; bit w 20; bits w 3 0; bits w 11 8; fst (DecodeImmShift (bits w 5 4) (imm5t w)); snd (DecodeImmShift (bits w 5 4) (imm5t w))])) s.
Proof. exact (OpsT1.ops_MvnRegisterT2 w s). Qed.
Print Assumptions C07_ops_MvnRegisterT2.

Theorem C07_ops_PkhT1 w s :
  0 <= w < 2 ^ 32 ->
  regs13 [bits w 19 16; bits w 11 8; bits w 3 0] = true ->
  pre_pkh_t w = true ->
  fb_out (PkhT1_from_bitarray w) s = Ok (Some (code_Pkh, [w; bit w 5; bits w 3 0; bits w 11 8; bits w 19 16; fst (DecodeImmShift (bit w 5 * 2) (imm5t w)); snd (DecodeImmShift (bit w 5 * 2) (imm5t w))])) s.
Proof. exact (OpsT1.ops_PkhT1 w s). Qed.
Print Assumptions C07_ops_PkhT1.

Theorem C07_ops_PushT1 w s :
  0 <= w < 2 ^ 16 ->
  pre_list8_nz w = true ->
  fb_out (PushT1_from_bitarray w) s = Ok (Some (code_Push, [w; bit w 8 * 2 ^ 14 + bits w 7 0; 0])) s.
Proof. exact (OpsT1.ops_PushT1 w s). Qed.
Print Assumptions C07_ops_PushT1.

Theorem C07_ops_QsaxT1 w s :
  0 <= w < 2 ^ 32 ->
  regs13 [bits w 19 16; bits w 11 8; bits w 3 0] = true ->
  fb_out (QsaxT1_from_bitarray w) s = Ok (Some (code_Qsax, [w; bits w 3 0; bits w 11 8; bits w 19 16])) s.
Proof. exact (OpsT1.ops_QsaxT1 w s). Qed.
Print Assumptions C07_ops_QsaxT1.

Theorem C07_ops_RevT2 w s :
  0 <= w < 2 ^ 32 ->
  regs13 [bits w 11 8; bits w 3 0] = true ->
  pre_rm_twice w = true ->
  fb_out (RevT2_from_bitarray w) s = Ok (Some (code_Rev, [w; bits w 3 0; bits w 11 8])) s.
Proof. exact (OpsT1.ops_RevT2 w s). Qed.
Print Assumptions C07_ops_RevT2.

Theorem C07_ops_RrxT1 w s :
  0 <= w < 2 ^ 32 ->
  regs13 [bits w 11 8; bits w 3 0] = true ->
  fb_out (RrxT1_from_bitarray w) s = Ok (Some (code_Rrx, [w; bit w 20; bits w 3 0; bits w 11 8])) s.
Proof. exact (OpsT1.ops_RrxT1 w s). Qed.
Print Assumptions C07_ops_RrxT1.

Theorem C07_ops_SbcRegisterT1 w s :
  0 <= w < 2 ^ 16 ->
  fb_out (SbcRegisterT1_from_bitarray w) s = Ok (Some (code_SbcRegister, [w; not_in_it s; bits w 5 3; bits w 2 0; bits w 2 0; 1; 0])) s.
Proof. exact (OpsT1.ops_SbcRegisterT1 w s). Qed.
Print Assumptions C07_ops_SbcRegisterT1.

Theorem C07_ops_Shadd16T1 w s :
  0 <= w < 2 ^ 32 ->
  regs13 [bits w 19 16; bits w 11 8; bits w 3 0] = true ->
  fb_out (Shadd16T1_from_bitarray w) s = Ok (Some (code_Shadd16, [w; bits w 3 0; bits w 11 8; bits w 19 16])) s.
Proof. exact (OpsT1.ops_Shadd16T1 w s). Qed.
Print Assumptions C07_ops_Shadd16T1.

Theorem C07_ops_SmladT1 w s :
  0 <= w < 2 ^ 32 ->
  regs13 [bits w 19 16; bits w 15 12; bits w 11 8; bits w 3 0] = true ->
  fb_out (SmladT1_from_bitarray w) s = Ok (Some (code_Smlad, [w; bit w 4; bits w 3 0; bits w 15 12; bits w 11 8; bits w 19 16])) s.
Proof. exact (OpsT1.ops_SmladT1 w s). Qed.
Print Assumptions C07_ops_SmladT1.

Theorem C07_ops_SmmlsT1 w s :
  0 <= w < 2 ^ 32 ->
  regs13 [bits w 19 16; bits w 15 12; bits w 11 8; bits w 3 0] = true ->
  fb_out (SmmlsT1_from_bitarray w) s = Ok (Some (code_Smmls, [w; bit w 4; bits w 3 0; bits w 15 12; bits w 11 8; bits w 19 16])) s.
Proof. exact (OpsT1.ops_SmmlsT1 w s). Qed.
Print Assumptions C07_ops_SmmlsT1.

Theorem C07_ops_SrsThumbT2 w s :
  0 <= w < 2 ^ 32 ->
  in_it s = false ->
  fb_out (SrsThumbT2_from_bitarray w) s = Ok (Some (code_SrsThumb, [w; 1; 0; bit w 21; bits w 4 0])) s.
Proof. exact (OpsT1.ops_SrsThumbT2 w s). Qed.
Print Assumptions C07_ops_SrsThumbT2.

Theorem C07_ops_StmT1 w s :
  0 <= w < 2 ^ 16 ->
  pre_list8_nz w = true ->
  fb_out (StmT1_from_bitarray w) s = Ok (Some (code_Stm, [w; 1; bits w 7 0; bits w 10 8])) s.
Proof. exact (OpsT1.ops_StmT1 w s). Qed.
Print Assumptions C07_ops_StmT1.

Theorem C07_ops_StrRegisterT2 w s :
  0 <= w < 2 ^ 32 ->
  regs13 [bits w 19 16; bits w 15 12; bits w 3 0] = true ->
  fb_out (StrRegisterT2_from_bitarray w) s = Ok (Some (code_StrRegister, [w; 1; 0; 1; bits w 3 0; bits w 15 12; bits w 19 16; 1; bits w 5 4])) s.
Proof. exact (OpsT1.ops_StrRegisterT2 w s). Qed.
Print Assumptions C07_ops_StrRegisterT2.

Theorem C07_ops_StrexT1 w s :
  0 <= w < 2 ^ 32 ->
  regs13 [bits w 19 16; bits w 15 12; bits w 11 8] = true ->
  fb_out (StrexT1_from_bitarray w) s = Ok (Some (code_Strex, [w; bits w 7 0 * 4; bits w 15 12; bits w 11 8; bits w 19 16])) s.
Proof. exact (OpsT1.ops_StrexT1 w s). Qed.
Print Assumptions C07_ops_StrexT1.

Theorem C07_ops_StrhRegisterT2 w s :
  0 <= w < 2 ^ 32 ->
  regs13 [bits w 19 16; bits w 15 12; bits w 3 0] = true ->
  fb_out (StrhRegisterT2_from_bitarray w) s = Ok (Some (code_StrhRegister, [w; 1; 0; 1; bits w 3 0; bits w 15 12; bits w 19 16; 1; bits w 5 4])) s.
Proof. exact (OpsT1.ops_StrhRegisterT2 w s). Qed.
Print Assumptions C07_ops_StrhRegisterT2.

Theorem C07_ops_SubRegisterT2 w s :
  0 <= w < 2 ^ 32 ->
  regs13 [bits w 19 16; bits w 11 8; bits w 3 0] = true ->
  fb_out (SubRegisterT2_from_bitarray w) s = Ok (Some (code_SubRegister, [w; bit w 20; bits w 3 0; bits w 11 8; bits w 19 16; fst (DecodeImmShift (bits w 5 4) (imm5t w)); snd (DecodeImmShift (bits w 5 4) (imm5t w))])) s.
Proof. exact (OpsT1.ops_SubRegisterT2 w s). Qed.
Print Assumptions C07_ops_SubRegisterT2.

Theorem C07_ops_SxtabT1 w s :
  0 <= w < 2 ^ 32 ->
  regs13 [bits w 19 16; bits w 11 8; bits w 3 0] = true ->
  fb_out (SxtabT1_from_bitarray w) s = Ok (Some (code_Sxtab, [w; bits w 3 0; bits w 11 8; bits w 19 16; bits w 5 4 * 8])) s.
Proof. exact (OpsT1.ops_SxtabT1 w s). Qed.
Print Assumptions C07_ops_SxtabT1.

Theorem C07_ops_TeqImmediateT1 w s :
  0 <= w < 2 ^ 32 ->
  regs13 [bits w 19 16] = true ->
  fb_out (TeqImmediateT1_from_bitarray w) s = Ok (Some (code_TeqImmediate, [w; bits w 19 16; ThumbExpandImm (imm12t w); snd (ThumbExpandImm_C (imm12t w) (cflag s))])) s.
Proof. exact (OpsT1.ops_TeqImmediateT1 w s). Qed.
Print Assumptions C07_ops_TeqImmediateT1.

Theorem C07_ops_UbfxT1 w s :
  0 <= w < 2 ^ 32 ->
  regs13 [bits w 19 16; bits w 11 8] = true ->
  pre_width_fits_t w = true ->
  fb_out (UbfxT1_from_bitarray w) s = Ok (Some (code_Ubfx, [w; imm5t w; bits w 4 0; bits w 11 8; bits w 19 16])) s.
Proof. exact (OpsT1.ops_UbfxT1 w s). Qed.
Print Assumptions C07_ops_UbfxT1.

Theorem C07_ops_Uhsub16T1 w s :
  0 <= w < 2 ^ 32 ->
  regs13 [bits w 19 16; bits w 11 8; bits w 3 0] = true ->
  fb_out (Uhsub16T1_from_bitarray w) s = Ok (Some (code_Uhsub16, [w; bits w 3 0; bits w 11 8; bits w 19 16])) s.
Proof. exact (OpsT1.ops_Uhsub16T1 w s). Qed.
Print Assumptions C07_ops_Uhsub16T1.

Theorem C07_ops_UqsaxT1 w s :
  0 <= w < 2 ^ 32 ->
  regs13 [bits w 19 16; bits w 11 8; bits w 3 0] = true ->
  fb_out (UqsaxT1_from_bitarray w) s = Ok (Some (code_Uqsax, [w; bits w 3 0; bits w 11 8; bits w 19 16])) s.
Proof. exact (OpsT1.ops_UqsaxT1 w s). Qed.
Print Assumptions C07_ops_UqsaxT1.

Theorem C07_ops_Usub16T1 w s :
  0 <= w < 2 ^ 32 ->
  regs13 [bits w 19 16; bits w 11 8; bits w 3 0] = true ->
  fb_out (Usub16T1_from_bitarray w) s = Ok (Some (code_Usub16, [w; bits w 3 0; bits w 11 8; bits w 19 16])) s.
Proof. exact (OpsT1.ops_Usub16T1 w s). Qed.
Print Assumptions C07_ops_Usub16T1.

Theorem C07_ops_UxthT1 w s :
  0 <= w < 2 ^ 16 ->
  fb_out (UxthT1_from_bitarray w) s = Ok (Some (code_Uxth, [w; bits w 5 3; bits w 2 0; 0])) s.
Proof. exact (OpsT1.ops_UxthT1 w s). Qed.
Print Assumptions C07_ops_UxthT1.
