(* Proofs/BankProofs.v — register banking of the translated Registers class equals the
   architectural bank table (Spec/Arch.phys_bank); reads/writes by mode; histories. *)
From Coq Require Import ZArith List Bool Lia ZifyBool.
From ArmV Require Import Lib.PyZ Lib.Monad Lib.Machine Spec.Pseudocode Spec.Arch Spec.MachineView
  Proofs.BitLemmas Proofs.SpecFacts Proofs.BitsOps Proofs.FieldsProofs Proofs.StateLemmas Proofs.CondProofs.
From Gen Require Import enums bits_ops shift regviews records hubm opsyn core.
Import ListNotations.
Open Scope Z_scope.

(* the code's name (RName value) of the spec's physical register (n, bank) *)
Definition code_of_phys (n : Z) (b : bank) : Z :=
  if n =? 0 then RName_R0usr else if n =? 1 then RName_R1usr else if n =? 2 then RName_R2usr
  else if n =? 3 then RName_R3usr else if n =? 4 then RName_R4usr else if n =? 5 then RName_R5usr
  else if n =? 6 then RName_R6usr else if n =? 7 then RName_R7usr
  else if n =? 8 then (match b with Bfiq => RName_R8fiq | _ => RName_R8usr end)
  else if n =? 9 then (match b with Bfiq => RName_R9fiq | _ => RName_R9usr end)
  else if n =? 10 then (match b with Bfiq => RName_R10fiq | _ => RName_R10usr end)
  else if n =? 11 then (match b with Bfiq => RName_R11fiq | _ => RName_R11usr end)
  else if n =? 12 then (match b with Bfiq => RName_R12fiq | _ => RName_R12usr end)
  else if n =? 13 then (match b with Busr => RName_SPusr | Bfiq => RName_SPfiq | Birq => RName_SPirq | Bsvc => RName_SPsvc
                                  | Babt => RName_SPabt | Bund => RName_SPund | Bmon => RName_SPmon | Bhyp => RName_SPhyp end)
  else (match b with Busr => RName_LRusr | Bfiq => RName_LRfiq | Birq => RName_LRirq | Bsvc => RName_LRsvc
                   | Babt => RName_LRabt | Bund => RName_LRund | Bmon => RName_LRmon | Bhyp => RName_LRusr end).

Definition have_sec (cfg : config) := cfg_have_security_ext cfg.
Definition have_virt (cfg : config) := cfg_have_virt_ext cfg.
Definition legal_mode (cfg : config) (mode : Z) : Prop := BadMode (have_sec cfg) (have_virt cfg) mode = false.

Lemma bad_mode_spec cfg mode : Registers_bad_mode cfg mode = B2Z (BadMode (have_sec cfg) (have_virt cfg) mode).
Proof.
  unfold Registers_bad_mode, BadMode, conf_have_security_ext, conf_have_virt_ext, have_sec, have_virt,
    M_usr, M_fiq, M_irq, M_svc, M_mon, M_abt, M_hyp, M_und, M_sys, truthy.
  split_ifs; try reflexivity; try lia; rewrite negb_involutive; destruct (_ =? 0); reflexivity.
Qed.

Lemma legal_mode_cases cfg mode : legal_mode cfg mode ->
  mode = 16 \/ mode = 17 \/ mode = 18 \/ mode = 19 \/ mode = 22 \/ mode = 23 \/ mode = 26 \/ mode = 27 \/ mode = 31.
Proof.
  unfold legal_mode, BadMode, M_usr, M_fiq, M_irq, M_svc, M_mon, M_abt, M_hyp, M_und, M_sys. intros H.
  destruct (Z.eq_dec mode 16); [lia|]. destruct (Z.eq_dec mode 17); [lia|]. destruct (Z.eq_dec mode 18); [lia|].
  destruct (Z.eq_dec mode 19); [lia|]. destruct (Z.eq_dec mode 22); [lia|]. destruct (Z.eq_dec mode 23); [lia|].
  destruct (Z.eq_dec mode 26); [lia|]. destruct (Z.eq_dec mode 27); [lia|]. destruct (Z.eq_dec mode 31); [lia|].
  exfalso. revert H. split_ifs; intros; try discriminate; lia.
Qed.

Theorem bank_table cfg n mode : 0 <= n <= 14 -> legal_mode cfg mode ->
  Registers_look_up_rname cfg n mode = Val (Some (code_of_phys n (phys_bank n mode))).
Proof.
  intros Hn Hm. pose proof (legal_mode_cases cfg mode Hm) as Cases.
  unfold Registers_look_up_rname. replace ((0 <=? n) && (n <=? 14)) with true by lia. cbn [eassert ebind].
  unfold Registers_r_fiq_bank_select, Registers_r_bank_select. rewrite bad_mode_spec. unfold legal_mode in Hm. rewrite Hm.
  change (truthy (B2Z false)) with false. cbv iota.
  unfold code_of_phys, phys_bank, mode_bank, M_usr, M_fiq, M_irq, M_svc, M_mon, M_abt, M_hyp, M_und, M_sys.
  assert (Cn : n = 0 \/ n = 1 \/ n = 2 \/ n = 3 \/ n = 4 \/ n = 5 \/ n = 6 \/ n = 7 \/ n = 8 \/ n = 9 \/ n = 10 \/
               n = 11 \/ n = 12 \/ n = 13 \/ n = 14) by lia.
  repeat (destruct Cn as [-> | Cn]; [repeat (destruct Cases as [-> | Cases]; [reflexivity|]); subst; reflexivity|]).
  subst n. repeat (destruct Cases as [-> | Cases]; [reflexivity|]). subst; reflexivity.
Qed.

(* distinct architectural registers have distinct names; equal ones share a name *)
Definition valid_bank (n : Z) (b : bank) : bool :=
  if n <=? 7 then bank_eqb b Busr
  else if n <=? 12 then bank_eqb b Busr || bank_eqb b Bfiq
  else if n =? 13 then true else negb (bank_eqb b Bhyp).
Lemma code_of_phys_range n b : 0 <= n <= 14 -> 1 <= code_of_phys n b <= 33.
Proof.
  intros Hn.
  assert (Cn : n = 0 \/ n = 1 \/ n = 2 \/ n = 3 \/ n = 4 \/ n = 5 \/ n = 6 \/ n = 7 \/ n = 8 \/ n = 9 \/ n = 10 \/
               n = 11 \/ n = 12 \/ n = 13 \/ n = 14) by lia.
  repeat (destruct Cn as [-> | Cn]; [destruct b; vm_compute; split; discriminate|]). subst; destruct b; vm_compute; split; discriminate.
Qed.
Lemma code_of_phys_inj n b n' b' : 0 <= n <= 14 -> 0 <= n' <= 14 -> valid_bank n b = true -> valid_bank n' b' = true ->
  code_of_phys n b = code_of_phys n' b' -> n = n' /\ b = b'.
Proof.
  intros Hn Hn' Vb Vb' E.
  assert (Cn : n = 0 \/ n = 1 \/ n = 2 \/ n = 3 \/ n = 4 \/ n = 5 \/ n = 6 \/ n = 7 \/ n = 8 \/ n = 9 \/ n = 10 \/
               n = 11 \/ n = 12 \/ n = 13 \/ n = 14) by lia.
  assert (Cn' : n' = 0 \/ n' = 1 \/ n' = 2 \/ n' = 3 \/ n' = 4 \/ n' = 5 \/ n' = 6 \/ n' = 7 \/ n' = 8 \/ n' = 9 \/ n' = 10 \/
               n' = 11 \/ n' = 12 \/ n' = 13 \/ n' = 14) by lia.
  repeat (destruct Cn as [-> | Cn]);
    (repeat (destruct Cn' as [-> | Cn']));
    subst; destruct b; try discriminate Vb; destruct b'; try discriminate Vb'; vm_compute in E; first [discriminate E | split; reflexivity].
Qed.
Lemma phys_bank_valid n mode : 0 <= n <= 14 -> valid_bank n (phys_bank n mode) = true.
Proof.
  intros Hn. unfold valid_bank, phys_bank, mode_bank. split_ifs; try reflexivity; try lia.
Qed.

(* ---------- accessors ---------- *)
Definition sysctx_of (cfg : config) (s : machine) : sysctx :=
  {| c_have_sec := have_sec cfg; c_have_virt := have_virt cfg;
     c_scr := getl (sys s) slot_scr; c_sctlr := getl (sys s) slot_sctlr; c_nsacr := getl (sys s) slot_nsacr |}.

Lemma is_secure_spec cfg s : Registers_is_secure cfg s = Ok (B2Z (IsSecure (sysctx_of cfg s) (cpsr_of s))) s.
Proof.
  unfold Registers_is_secure. mred. unfold IsSecure, sysctx_of, scr_NS, psr_M, cpsr_of, slot_cpsr, slot_scr,
    conf_have_security_ext, have_sec, M_mon. cbn [c_have_sec c_scr].
  unfold SCR_get_ns, CPSR_get_m. rewrite flag_get, get_slice by lia. unfold truthy, por, truthy.
  pose proof (bit01 (getl (sys s) 9) 0). f_equal.
  destruct (cfg_have_security_ext cfg =? 0); cbn; [reflexivity|].
  destruct (bit (getl (sys s) 9) 0 =? 0) eqn:E; cbn; [reflexivity|].
  destruct (bits (getl (sys s) 0) 4 0 =? 22); reflexivity.
Qed.

Definition ridx (n mode : Z) : Z := code_of_phys n (phys_bank n mode) - 1.

Theorem get_rmode_spec cfg n mode s : 0 <= n <= 14 -> legal_mode cfg mode ->
  Registers_get_rmode cfg n mode s = Ok (getl (R s) (ridx n mode)) s.
Proof.
  intros Hn Hm. unfold Registers_get_rmode. rewrite run_bind. unfold lift at 1.
  replace ((0 <=? n) && (n <=? 14)) with true by lia. cbn [eassert]. cbn beta iota.
  rewrite run_bind, is_secure_spec. cbn beta iota. rewrite run_bind, is_secure_spec. cbn beta iota.
  rewrite run_bind, run_get_sys. cbn beta iota. rewrite run_bind. unfold lift at 1. rewrite bank_table by assumption.
  cbn beta iota. pose proof (code_of_phys_range n (phys_bank n mode) Hn) as Rg.
  rewrite run_bind. unfold getR. replace ((1 <=? code_of_phys n (phys_bank n mode)) && (code_of_phys n (phys_bank n mode) <=? 34)) with true by lia.
  reflexivity.
Qed.

Theorem set_rmode_spec cfg n mode v s : 0 <= n <= 14 -> legal_mode cfg mode ->
  Registers_set_rmode cfg n mode v s = Ok tt (set_R s (setl (R s) (ridx n mode) v)).
Proof.
  intros Hn Hm. unfold Registers_set_rmode. rewrite run_bind. unfold lift at 1.
  replace ((0 <=? n) && (n <=? 14)) with true by lia. cbn [eassert]. cbn beta iota.
  rewrite run_bind, is_secure_spec. cbn beta iota. rewrite run_bind, is_secure_spec. cbn beta iota.
  rewrite run_bind, run_get_sys. cbn beta iota. rewrite run_bind, current_instr_set_spec. cbn beta iota.
  rewrite run_bind. unfold lift at 1. rewrite bank_table by assumption.
  cbn beta iota. pose proof (code_of_phys_range n (phys_bank n mode) Hn) as Rg.
  rewrite run_bind. unfold putR. replace ((1 <=? code_of_phys n (phys_bank n mode)) && (code_of_phys n (phys_bank n mode) <=? 34)) with true by lia.
  reflexivity.
Qed.

Theorem rmode_rejects cfg n mode v s : ~ 0 <= n <= 14 ->
  Registers_get_rmode cfg n mode s = Exc (EHost HAssert) s /\ Registers_set_rmode cfg n mode v s = Exc (EHost HAssert) s.
Proof.
  intros Hn. unfold Registers_get_rmode, Registers_set_rmode. split; rewrite run_bind; unfold lift at 1;
    replace ((0 <=? n) && (n <=? 14)) with false by lia; reflexivity.
Qed.

Lemma ridx_spec_ridx n mode : 0 <= n <= 14 -> ridx n mode = spec_ridx n mode.
Proof.
  intros Hn. unfold ridx, spec_ridx. cbv zeta.
  assert (Cn : n = 0 \/ n = 1 \/ n = 2 \/ n = 3 \/ n = 4 \/ n = 5 \/ n = 6 \/ n = 7 \/ n = 8 \/ n = 9 \/ n = 10 \/
               n = 11 \/ n = 12 \/ n = 13 \/ n = 14) by lia.
  repeat (destruct Cn as [-> | Cn]; [destruct (phys_bank _ mode); vm_compute; reflexivity|]).
  subst n. destruct (phys_bank 14 mode); vm_compute; reflexivity.
Qed.
Lemma pc_index_code : RName_PC - 1 = pc_index.
Proof. reflexivity. Qed.

(* two (register, mode) pairs name the same storage exactly when the architecture says so *)
Lemma ridx_same n m n' m' : 0 <= n <= 14 -> 0 <= n' <= 14 ->
  (ridx n m = ridx n' m' <-> n = n' /\ same_phys n m m' = true).
Proof.
  intros Hn Hn'. unfold ridx, same_phys. split.
  - intros E. assert (E' : code_of_phys n (phys_bank n m) = code_of_phys n' (phys_bank n' m')) by lia.
    apply code_of_phys_inj in E'; try assumption; try (apply phys_bank_valid; assumption).
    destruct E' as [-> Eb]. rewrite Eb. split; [reflexivity|]. destruct (phys_bank n' m'); reflexivity.
  - intros [-> Eb]. f_equal. f_equal. destruct (phys_bank n' m), (phys_bank n' m'); try discriminate; reflexivity.
Qed.
Lemma ridx_range n m : 0 <= n <= 14 -> 0 <= ridx n m < 33.
Proof. intros. unfold ridx. pose proof (code_of_phys_range n (phys_bank n m) H). lia. Qed.
Lemma spec_ridx_range n m : 0 <= n <= 14 -> 0 <= spec_ridx n m < 33.
Proof. intros. rewrite <- ridx_spec_ridx by lia. apply ridx_range. lia. Qed.

(* read after write by (register, mode) *)
Theorem rmode_read_after_write cfg n m v n' m' s : 0 <= n <= 14 -> 0 <= n' <= 14 -> legal_mode cfg m -> legal_mode cfg m' ->
  length (R s) = 34%nat ->
  forall s', Registers_set_rmode cfg n m v s = Ok tt s' ->
  Registers_get_rmode cfg n' m' s' =
  Ok (if (n =? n') && same_phys n m m' then v else getl (R s) (ridx n' m')) s'.
Proof.
  intros Hn Hn' Hm Hm' HL s' Hs. rewrite set_rmode_spec in Hs by assumption. inversion Hs; subst s'; clear Hs.
  rewrite get_rmode_spec by assumption. cbn [R set_R]. f_equal.
  pose proof (ridx_range n m Hn). pose proof (ridx_range n' m' Hn').
  destruct ((n =? n') && same_phys n m m') eqn:E.
  - assert (ridx n m = ridx n' m') by (apply ridx_same; try assumption; split; [lia|]; destruct (same_phys n m m'); [reflexivity|]; rewrite andb_false_r in E; discriminate).
    rewrite <- H1. apply getl_setl_same. lia.
  - apply getl_setl_other; try lia. intro Eq. apply ridx_same in Eq; try assumption. destruct Eq as [-> Ep].
    rewrite Z.eqb_refl, Ep in E. discriminate.
Qed.

(* ---------- histories of register writes by mode ---------- *)
Definition rop_ok (cfg : config) (o : rop) : Prop := match o with RWrite n m _ => 0 <= n <= 14 /\ legal_mode cfg m end.
Fixpoint run_rops (cfg : config) (ops : list rop) (s : machine) : outcome machine unit :=
  match ops with
  | [] => Ok tt s
  | RWrite n m v :: t => match Registers_set_rmode cfg n m v s with Ok _ s' => run_rops cfg t s' | Exc e s' => Exc e s' end
  end.

Theorem rmode_history cfg ops : forall s, Forall (rop_ok cfg) ops -> length (R s) = 34%nat ->
  exists s', run_rops cfg ops s = Ok tt s' /\ length (R s') = 34%nat /\
  (forall n m, 0 <= n <= 14 -> legal_mode cfg m ->
     Registers_get_rmode cfg n m s' = Ok (last_write ops n m (getl (R s) (ridx n m))) s') /\
  sys s' = sys s /\ mem s' = mem s.
Proof.
  induction ops as [|[n0 m0 v0] t IH]; intros s F HL.
  - exists s. split; [reflexivity|]. split; [assumption|]. split; [|split; reflexivity].
    intros n m Hn Hm. cbn [last_write]. apply get_rmode_spec; assumption.
  - inversion F as [|? ? Ho Ft]; subst. cbn [rop_ok] in Ho. destruct Ho as [Hn0 Hm0]. cbn [run_rops]. rewrite set_rmode_spec by assumption.
    set (s1 := set_R s (setl (R s) (ridx n0 m0) v0)).
    assert (HL1 : length (R s1) = 34%nat) by (unfold s1; cbn [R set_R]; rewrite setl_length; assumption).
    destruct (IH s1 Ft HL1) as (s' & Hr & HL' & Hget & Hsys & Hmem).
    exists s'. split; [exact Hr|]. split; [exact HL'|]. split; [|split; [rewrite Hsys|rewrite Hmem]; reflexivity].
    intros n m Hn Hm. rewrite Hget by assumption. cbn [last_write]. f_equal. f_equal.
    unfold s1. cbn [R set_R].
    pose proof (ridx_range n0 m0 Hn0). pose proof (ridx_range n m Hn).
    destruct ((n0 =? n) && same_phys n0 m0 m) eqn:E.
    + assert (ridx n0 m0 = ridx n m) by (apply ridx_same; try assumption; split; [lia|]; destruct (same_phys n0 m0 m); [reflexivity|]; rewrite andb_false_r in E; discriminate).
      rewrite <- H1. apply getl_setl_same. lia.
    + apply getl_setl_other; try lia. intro Eq. apply ridx_same in Eq; try assumption. destruct Eq as [-> Ep].
      rewrite Z.eqb_refl, Ep in E. discriminate.
Qed.

(* ---------- access through the current mode; PC reads ---------- *)

Lemma mode_of_get s : CPSR_get_m (getl (sys s) 0) = mode_of s.
Proof. unfold CPSR_get_m. rewrite get_slice by lia. reflexivity. Qed.

Theorem registers_get_spec cfg n s : 0 <= n <= 14 -> legal_mode cfg (mode_of s) ->
  Registers_get cfg n s = Ok (getl (R s) (ridx n (mode_of s))) s.
Proof.
  intros Hn Hm. unfold Registers_get. replace ((0 <=? n) && (n <=? 15)) with true by lia.
  replace (n =? 15) with false by lia. mred. rewrite mode_of_get, get_rmode_spec by assumption. reflexivity.
Qed.
Theorem registers_get_pc cfg s :
  Registers_get cfg 15 s = Ok ((getl (R s) (RName_PC - 1) + (if iset_of s =? 0 then 8 else 4)) mod 2 ^ 32) s.
Proof.
  unfold Registers_get. cbn [Z.leb Z.compare Pos.compare Pos.compare_cont andb Z.eqb Pos.eqb]. mred.
  rewrite current_instr_set_spec. unfold getR, RName_PC. cbn [Z.leb Z.compare Pos.compare Pos.compare_cont andb].
  unfold enums.InstrSet_ARM, add. reflexivity.
Qed.
Theorem registers_get_rejects cfg n s : ~ 0 <= n <= 15 -> Registers_get cfg n s = Exc (EHost HAssert) s.
Proof. intros. unfold Registers_get. replace ((0 <=? n) && (n <=? 15)) with false by lia. reflexivity. Qed.

Theorem registers_set_spec cfg n v s : 0 <= n <= 14 -> legal_mode cfg (mode_of s) -> length (changed s) = 16%nat ->
  Registers_set cfg n v s =
  Ok tt (set_R (set_changed s (upd (changed s) (Z.to_nat n) 1)) (setl (R s) (ridx n (mode_of s)) v)).
Proof.
  intros Hn Hm HL. unfold Registers_set. replace ((0 <=? n) && (n <=? 14)) with true by lia. mred.
  unfold put_changed, py_index. rewrite HL. replace ((0 <=? n) && (n <? Z.of_nat 16)) with true by lia. mred.
  rewrite mode_of_get, set_rmode_spec by assumption. reflexivity.
Qed.
Theorem registers_set_rejects cfg n v s : ~ 0 <= n <= 14 -> Registers_set cfg n v s = Exc (EHost HAssert) s.
Proof. intros. unfold Registers_set. replace ((0 <=? n) && (n <=? 14)) with false by lia. reflexivity. Qed.

(* ---------- SPSR banking ---------- *)
Definition spsr_slot (mode : Z) : option Z :=
  if mode =? M_fiq then Some slot_spsr_fiq else if mode =? M_irq then Some slot_spsr_irq
  else if mode =? M_svc then Some slot_spsr_svc else if mode =? M_mon then Some slot_spsr_mon
  else if mode =? M_abt then Some slot_spsr_abt else if mode =? M_hyp then Some slot_spsr_hyp
  else if mode =? M_und then Some slot_spsr_und else None.

Theorem get_spsr_spec cfg s : legal_mode cfg (mode_of s) ->
  Registers_get_spsr cfg s = Ok (match spsr_slot (mode_of s) with Some i => getl (sys s) i | None => 0 end) s.
Proof.
  intros Hm. unfold Registers_get_spsr. mred. rewrite mode_of_get, bad_mode_spec. pose proof Hm as Hm'. unfold legal_mode in Hm'.
  rewrite Hm'. change (truthy (B2Z false)) with false. cbv iota.
  mrun; rewrite ?mode_of_get in *; unfold spsr_slot, M_fiq, M_irq, M_svc, M_mon, M_abt, M_hyp, M_und,
    slot_spsr_fiq, slot_spsr_irq, slot_spsr_svc, slot_spsr_mon, slot_spsr_abt, slot_spsr_hyp, slot_spsr_und;
    split_ifs; try reflexivity; exfalso; lia.
Qed.
Theorem set_spsr_spec cfg v s : legal_mode cfg (mode_of s) ->
  Registers_set_spsr cfg v s = Ok tt (match spsr_slot (mode_of s) with Some i => set_sys s (setl (sys s) i v) | None => s end).
Proof.
  intros Hm. unfold Registers_set_spsr. mred. rewrite mode_of_get, bad_mode_spec. pose proof Hm as Hm'. unfold legal_mode in Hm'.
  rewrite Hm'. change (truthy (B2Z false)) with false. cbv iota.
  mrun; rewrite ?mode_of_get in *; unfold spsr_slot, M_fiq, M_irq, M_svc, M_mon, M_abt, M_hyp, M_und,
    slot_spsr_fiq, slot_spsr_irq, slot_spsr_svc, slot_spsr_mon, slot_spsr_abt, slot_spsr_hyp, slot_spsr_und;
    split_ifs; try reflexivity; exfalso; lia.
Qed.
