(* Props/C03.v — C03: block transfers.  Statements only; proofs in Proofs/BlockProofs.v.
   LDM and STM (increment after) are the architecture's loops (Spec/BlockTransfer.v) with MemA instantiated by the emulator's
   mem_a_get / mem_a_set, for every register list, base, write-back flag and state: lowest-numbered register at the lowest
   address, consecutive words modulo 2^32, the PC last, base write-back by 4*BitCount(registers) only after every access
   succeeded.  [Inv] is any invariant of the states passed through that implies the representation invariant and
   survives register writes and successful accesses; C03_flat_* show the flat-map invariant is one. *)
From Coq Require Import ZArith Bool List.
From ArmV Require Import Lib.PyZ Lib.Monad Lib.Machine Spec.Pseudocode Spec.Arch Spec.MachineView Spec.BlockTransfer
  Spec.Hub Spec.Memory
  Proofs.StateLemmas Proofs.CondProofs Proofs.GuardProofs Proofs.BankProofs Proofs.MachineOps Proofs.DPLemmas Proofs.MemProofs
  Proofs.BlockProofs.
From Gen Require Import enums bits_ops core exec.
Import ListNotations.
Open Scope Z_scope.

Theorem C03_LDM cfg (Inv : machine -> Prop) :
  (forall s, Inv s -> ictx cfg s) ->
  (forall s n v, Inv s -> 0 <= n <= 14 -> word v -> Inv (rset s n v)) ->
  (forall s a d s1, Inv s -> ArmV6_mem_a_get cfg a 4 s = Ok d s1 -> Inv s1 /\ word d) ->
  (forall s a v s1, Inv s -> word v -> ArmV6_mem_a_set cfg a 4 v s = Ok tt s1 -> Inv s1) ->
  forall instr wback regs n s,
  Inv s -> cond_holds s -> iset_of s <> 3 -> 0 <= n <= 14 -> 0 <= regs < 2 ^ 16 ->
  LdmArm_execute cfg instr wback regs n s =
  LDM (ArmV6_mem_a_get cfg) (cfg_arch_version cfg) (cfg_jazelle_accepts_execution cfg) s wback regs n.
Proof. exact (LdmArm_sem cfg Inv). Qed.
Print Assumptions C03_LDM.
Theorem C03_STM cfg (Inv : machine -> Prop) :
  (forall s, Inv s -> ictx cfg s) ->
  (forall s n v, Inv s -> 0 <= n <= 14 -> word v -> Inv (rset s n v)) ->
  (forall s a d s1, Inv s -> ArmV6_mem_a_get cfg a 4 s = Ok d s1 -> Inv s1 /\ word d) ->
  (forall s a v s1, Inv s -> word v -> ArmV6_mem_a_set cfg a 4 v s = Ok tt s1 -> Inv s1) ->
  forall instr wback regs n lowest s,
  Inv s -> cond_holds s -> iset_of s <> 3 -> 0 <= n <= 14 -> 0 <= regs < 2 ^ 16 -> lowest_set_bit_ref regs 32 = Some lowest ->
  Stm_execute cfg instr wback regs n s = STM (ArmV6_mem_a_set cfg) s wback regs n lowest.
Proof. exact (Stm_sem cfg Inv). Qed.
Print Assumptions C03_STM.
Theorem C03_lowest_total x : exists l, lowest_set_bit_ref x 32 = Some l.
Proof. exact (lowest_total x). Qed.
Print Assumptions C03_lowest_total.
(* the flat-map invariant meets the four requirements *)
Theorem C03_flat_ictx cfg s : flat_inv cfg s -> ictx cfg s.
Proof. exact (flat_inv_ictx cfg s). Qed.
Print Assumptions C03_flat_ictx.
Theorem C03_flat_rset cfg s n v : flat_inv cfg s -> 0 <= n <= 14 -> word v -> flat_inv cfg (rset s n v).
Proof. exact (flat_inv_rset cfg s n v). Qed.
Print Assumptions C03_flat_rset.
Theorem C03_flat_rd cfg s a d s1 : flat_inv cfg s -> ArmV6_mem_a_get cfg a 4 s = Ok d s1 -> flat_inv cfg s1 /\ word d.
Proof. exact (flat_inv_rd cfg s a d s1). Qed.
Print Assumptions C03_flat_rd.
Theorem C03_flat_wr cfg s a v s1 : flat_inv cfg s -> word v -> ArmV6_mem_a_set cfg a 4 v s = Ok tt s1 -> flat_inv cfg s1.
Proof. exact (flat_inv_wr cfg s a v s1). Qed.
Print Assumptions C03_flat_wr.
