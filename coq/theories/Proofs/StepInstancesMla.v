(* Proofs/StepInstancesMla.v — the multiply family end to end, two more members: MLA{S}<c> Rd, Rn, Rm, Ra (ARM A1:
   cond 0000 001S Rd Ra Rm 1001 Rn) and MLS<c> Rd, Rn, Rm, Ra (ARM A1: cond 0000 0110 Rd Ra Rm 1001 Rn), for every word of the
   encoding (the four registers in r0-r12 and pairwise different) and every state; same script as MUL in StepInstancesMul.v. *)
Set Default Timeout 240.
From Coq Require Import ZArith List Bool Lia ZifyBool.
From ArmV Require Import Lib.PyZ Lib.Monad Lib.Machine Spec.Pseudocode Spec.Arch Spec.MachineView Spec.Branches Spec.StepFrame
  Spec.OperandSpec Spec.DPSem Spec.Arith Spec.Arith2
  Proofs.SpecFacts Proofs.StateLemmas Proofs.CondProofs Proofs.GuardProofs Proofs.BankProofs Proofs.MachineOps Proofs.DPLemmas
  Proofs.BranchProofs Proofs.ArithProofs Proofs.ArithProofs2 Proofs.StepProofs Proofs.StepDP Proofs.StepInstances Proofs.StepInstancesMul Proofs.OpTac
  Proofs.OpsA0 Proofs.OpsA1 Proofs.OpsA2 Proofs.OpsA3 Proofs.OpsA4 Proofs.OpsA5 Proofs.OpsA6 Proofs.OpsA7.
From Gen Require Import enums bits_ops shift regviews records hubm opsyn core exec conc decoders step.
Import ListNotations.
Open Scope Z_scope.
Ltac Zify.zify_post_hook ::= Z.to_euclidean_division_equations.

Definition is_mla_a1 (w : Z) : Prop :=
  bits w 31 28 <> 15 /\ bit w 27 = 0 /\ bit w 26 = 0 /\ bit w 25 = 0 /\ bit w 24 = 0 /\ bit w 23 = 0 /\ bit w 22 = 0 /\ bit w 21 = 1
  /\ bit w 7 = 1 /\ bit w 6 = 0 /\ bit w 5 = 0 /\ bit w 4 = 1 /\ regs13 [bits w 19 16; bits w 15 12; bits w 11 8; bits w 3 0] = true.
Definition is_mls_a1 (w : Z) : Prop :=
  bits w 31 28 <> 15 /\ bit w 27 = 0 /\ bit w 26 = 0 /\ bit w 25 = 0 /\ bit w 24 = 0 /\ bit w 23 = 0 /\ bit w 22 = 1 /\ bit w 21 = 1
  /\ bit w 20 = 0 /\ bit w 7 = 1 /\ bit w 6 = 0 /\ bit w 5 = 0 /\ bit w 4 = 1 /\ regs13 [bits w 19 16; bits w 15 12; bits w 11 8; bits w 3 0] = true.

Lemma decode_MlaA1 w s : 0 <= w < 2 ^ 32 -> is_mla_a1 w -> iset_of s = 0 ->
  ArmV6_decode_instruction w s = Ok (Some enc_MlaA1) s.
Proof.
  intros Hw (Hc & H27 & H26 & H25 & H24 & H23 & H22 & H21 & H7 & H6 & H5 & H4 & Hr) Hi. split_regs.
  unfold ArmV6_decode_instruction, op_decode_instruction.
  rewrite !run_bind, current_instr_set_spec. cbv beta iota. rewrite Hi. unfold InstrSet_ARM. cbn [Z.eqb]. cbv iota.
  rewrite run_bind.
  assert (D : dec_arm_instruction_set w = Val (Some enc_MlaA1)).
  { dec_step dec_arm_instruction_set. pose_expand w 27 25. pose_expand w 27 26. ops_if. cbn [ebind].
    dec_step dec_arm_data_processing_and_miscellaneous_instructions. pose_expand w 24 23. pose_expand w 7 4. ops_if. cbn [ebind].
    dec_step dec_arm_multiply_and_multiply_accumulate. pose_expand w 23 21. ops_if. reflexivity. }
  rewrite D. reflexivity.
Qed.
Lemma decode_MlsA1 w s : 0 <= w < 2 ^ 32 -> is_mls_a1 w -> iset_of s = 0 ->
  ArmV6_decode_instruction w s = Ok (Some enc_MlsA1) s.
Proof.
  intros Hw (Hc & H27 & H26 & H25 & H24 & H23 & H22 & H21 & H20 & H7 & H6 & H5 & H4 & Hr) Hi. split_regs.
  unfold ArmV6_decode_instruction, op_decode_instruction.
  rewrite !run_bind, current_instr_set_spec. cbv beta iota. rewrite Hi. unfold InstrSet_ARM. cbn [Z.eqb]. cbv iota.
  rewrite run_bind.
  assert (D : dec_arm_instruction_set w = Val (Some enc_MlsA1)).
  { dec_step dec_arm_instruction_set. pose_expand w 27 25. pose_expand w 27 26. ops_if. cbn [ebind].
    dec_step dec_arm_data_processing_and_miscellaneous_instructions. pose_expand w 24 23. pose_expand w 7 4. ops_if. cbn [ebind].
    dec_step dec_arm_multiply_and_multiply_accumulate. pose_expand w 23 21. pose_expand w 23 20. ops_if. reflexivity. }
  rewrite D. reflexivity.
Qed.

Lemma from_bitarray_MlaA1 cfg w s : 0 <= w < 2 ^ 32 -> is_mla_a1 w ->
  from_bitarray_dispatch cfg enc_MlaA1 w s = Ok (Some (code_Mla, [w; bit w 20; bits w 11 8; bits w 15 12; bits w 19 16; bits w 3 0])) s.
Proof.
  intros Hw (_ & _ & _ & _ & _ & _ & _ & _ & _ & _ & _ & _ & Hr).
  pose proof (ops_MlaA1 cfg w s Hw Hr) as H. unfold fb_out, fb_plain, fb_opt, fb_res, fb_res_opt, fb_m, fb_m_opt in H.
  unfold from_bitarray_dispatch, enc_MlaA1. cbv iota. unfold bind, ret, lift in *.
  repeat match goal with
  | H : match ?x with _ => _ end = _ |- context[?x] => destruct x; try discriminate H
  end.
  inversion H. first [reflexivity | match goal with E : _ = Some _ |- _ => rewrite E end; reflexivity].
Qed.
Lemma from_bitarray_MlsA1 cfg w s : 0 <= w < 2 ^ 32 -> is_mls_a1 w ->
  from_bitarray_dispatch cfg enc_MlsA1 w s = Ok (Some (code_Mls, [w; bits w 11 8; bits w 15 12; bits w 19 16; bits w 3 0])) s.
Proof.
  intros Hw (_ & _ & _ & _ & _ & _ & _ & _ & _ & _ & _ & _ & _ & Hr).
  pose proof (ops_MlsA1 w s Hw Hr) as H. unfold fb_out, fb_plain, fb_opt, fb_res, fb_res_opt, fb_m, fb_m_opt in H.
  unfold from_bitarray_dispatch, enc_MlsA1. cbv iota. unfold bind, ret, lift in *.
  repeat match goal with
  | H : match ?x with _ => _ end = _ |- context[?x] => destruct x; try discriminate H
  end.
  inversion H. first [reflexivity | match goal with E : _ = Some _ |- _ => rewrite E end; reflexivity].
Qed.

Lemma Mla_sem_ok cfg s S m a d n : ictx cfg s -> 0 <= d <= 14 ->
  ictx cfg (Mla_sem (cfg_arch_version cfg) s S m a d n) /\ keeps_pc s (Mla_sem (cfg_arch_version cfg) s S m a d n).
Proof.
  intros Hctx Hd. unfold Mla_sem. cbv zeta.
  set (r := w32 (s32 (rget s n) * s32 (rget s m) + s32 (rget s a))).
  assert (Wr : word r) by (unfold r, w32, word; apply Z.mod_pos_bound; lia).
  assert (H1 : ictx cfg (rset s d r)) by (apply ictx_rset; [exact Hctx|lia|exact Wr]).
  pose proof (keeps_pc_rset s d r Hd) as K1.
  destruct (S =? 0); [split; assumption|].
  assert (Hb : 0 <= bit r 31 <= 1) by apply bit_range.
  assert (Hz : 0 <= zbit r <= 1) by (unfold zbit; destruct (r =? 0); lia).
  assert (H2 : ictx cfg (upd_cpsr (rset s d r) (setbit 31 (bit r 31)))) by (apply ictx_upd_bit; [exact H1|lia|exact Hb]).
  assert (H3 : ictx cfg (upd_cpsr (upd_cpsr (rset s d r) (setbit 31 (bit r 31))) (setbit 30 (zbit r)))) by (apply ictx_upd_bit; [exact H2|lia|exact Hz]).
  destruct (cfg_arch_version cfg =? 4).
  - split; [apply ictx_upd_bit; [exact H3|lia|lia]|].
    eapply keeps_pc_trans; [exact K1|]. eapply keeps_pc_trans; [apply keeps_pc_upd_cpsr|].
    eapply keeps_pc_trans; [apply keeps_pc_upd_cpsr|apply keeps_pc_upd_cpsr].
  - split; [exact H3|]. eapply keeps_pc_trans; [exact K1|]. eapply keeps_pc_trans; apply keeps_pc_upd_cpsr.
Qed.
Lemma Mls_sem_ok cfg s m a d n : ictx cfg s -> 0 <= d <= 14 ->
  ictx cfg (Mls_sem (cfg_arch_version cfg) s m a d n) /\ keeps_pc s (Mls_sem (cfg_arch_version cfg) s m a d n).
Proof.
  intros Hctx Hd. unfold Mls_sem.
  set (r := w32 (s32 (rget s a) - s32 (rget s n) * s32 (rget s m))).
  assert (Wr : word r) by (unfold r, w32, word; apply Z.mod_pos_bound; lia).
  split; [apply ictx_rset; [exact Hctx|lia|exact Wr]|apply keeps_pc_rset; exact Hd].
Qed.

Theorem mla_a1_step cfg s w s1 :
  ArmV6_fetch_instruction cfg s = Ok w s1 ->
  0 <= w < 2 ^ 32 -> is_mla_a1 w -> iset_of s1 = 0 -> ictx cfg s1 -> cond_holds s1 ->
  let d := bits w 19 16 in let a := bits w 15 12 in let n := bits w 3 0 in let m := bits w 11 8 in
  let op := (code_Mla, [w; bit w 20; m; a; d; n]) in
  let s2 := Mla_sem (cfg_arch_version cfg) (begin_instr s1 op) (bit w 20) m a d n in
  ArmV6_emulate_cycle cfg s = Ok tt (AdvancePC (it_step_after s1 s2)) /\
  pc_of (AdvancePC (it_step_after s1 s2)) = add32 (pc_of s1) (opcode_len s1 / 8).
Proof.
  intros Hf Hw Hcube Hi Hctx Hcond. pose_all_ranges. intros d a n m op s2.
  pose proof Hcube as (_ & _ & _ & _ & _ & _ & _ & _ & _ & _ & _ & _ & Hr). split_regs.
  assert (Qd : 0 <= d <= 12) by (unfold d; lia). assert (Qn : 0 <= n <= 12) by (unfold n; lia). assert (Qm : 0 <= m <= 12) by (unfold m; lia).
  assert (Qa : 0 <= a <= 12) by (unfold a; lia).
  destruct (Mla_sem_ok cfg (begin_instr s1 op) (bit w 20) m a d n (ictx_begin cfg s1 op Hctx) ltac:(lia)) as [Hc2 Hk].
  apply (plain_step cfg s w s1 enc_MlaA1 op s2 Hf); try assumption.
  - apply decode_MlaA1; assumption.
  - apply from_bitarray_MlaA1; assumption.
  - change (execute_dispatch cfg op (begin_instr s1 op)) with (Mla_execute cfg w (bit w 20) m a d n (begin_instr s1 op)).
    apply Mla_ok; try lia; [apply ictx_begin; exact Hctx|apply cond_holds_begin; exact Hcond].
Qed.
Theorem mls_a1_step cfg s w s1 :
  ArmV6_fetch_instruction cfg s = Ok w s1 ->
  0 <= w < 2 ^ 32 -> is_mls_a1 w -> iset_of s1 = 0 -> ictx cfg s1 -> cond_holds s1 ->
  let d := bits w 19 16 in let a := bits w 15 12 in let n := bits w 3 0 in let m := bits w 11 8 in
  let op := (code_Mls, [w; m; a; d; n]) in
  let s2 := Mls_sem (cfg_arch_version cfg) (begin_instr s1 op) m a d n in
  ArmV6_emulate_cycle cfg s = Ok tt (AdvancePC (it_step_after s1 s2)) /\
  pc_of (AdvancePC (it_step_after s1 s2)) = add32 (pc_of s1) (opcode_len s1 / 8).
Proof.
  intros Hf Hw Hcube Hi Hctx Hcond. pose_all_ranges. intros d a n m op s2.
  pose proof Hcube as (_ & _ & _ & _ & _ & _ & _ & _ & _ & _ & _ & _ & _ & Hr). split_regs.
  assert (Qd : 0 <= d <= 12) by (unfold d; lia). assert (Qn : 0 <= n <= 12) by (unfold n; lia). assert (Qm : 0 <= m <= 12) by (unfold m; lia).
  assert (Qa : 0 <= a <= 12) by (unfold a; lia).
  destruct (Mls_sem_ok cfg (begin_instr s1 op) m a d n (ictx_begin cfg s1 op Hctx) ltac:(lia)) as [Hc2 Hk].
  apply (plain_step cfg s w s1 enc_MlsA1 op s2 Hf); try assumption.
  - apply decode_MlsA1; assumption.
  - apply from_bitarray_MlsA1; assumption.
  - change (execute_dispatch cfg op (begin_instr s1 op)) with (Mls_execute cfg w m a d n (begin_instr s1 op)).
    apply Mls_ok; try lia; [apply ictx_begin; exact Hctx|apply cond_holds_begin; exact Hcond].
Qed.
