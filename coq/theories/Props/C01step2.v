(* Props/C01step2.v — C01 end to end, continued (same statement shape as Props/C01step.v): one emulate_cycle of each encoding below, for
   every word of the encoding and every machine state, ends in the architectural dp_sem result, ITAdvance, and PC + instruction length.
   Statements only (proofs in Proofs/StepInstancesMvn.v, StepInstancesThumbReg2.v, StepInstancesMovT2.v, StepInstancesMvnT2.v,
   StepInstancesShiftT2.v, StepInstancesShiftRegT2.v, StepInstancesCmpRegT2.v, StepInstancesAddRegT1.v, StepInstancesPlainImm.v, StepInstancesSpecialT16.v, StepInstancesSpArm.v, StepInstancesSpThumb2.v, StepInstancesSpT16.v).
   With these, every concrete encoding of the 67 dp_sem classes has its end-to-end theorem. *)
From Coq Require Import ZArith Bool List.
From ArmV Require Import Lib.PyZ Lib.Monad Lib.Machine Spec.Pseudocode Spec.Arch Spec.MachineView Spec.Branches Spec.StepFrame
  Spec.OperandSpec Spec.DPSem Proofs.StateLemmas Proofs.CondProofs Proofs.GuardProofs Proofs.DPLemmas Proofs.StepProofs Proofs.StepDP
  Proofs.StepInstances Proofs.DPRange Proofs.StepDPReg Proofs.StepInstancesThumbReg Proofs.StepInstancesMvn Proofs.StepInstancesThumbReg2
  Proofs.StepInstancesMovT2 Proofs.StepInstancesMvnT2 Proofs.StepInstancesShiftT2 Proofs.StepInstancesShiftRegT2 Proofs.StepInstancesCmp
  Proofs.StepInstancesCmpRegT2 Proofs.StepInstancesAddRegT1 Proofs.StepInstancesPlainImm Proofs.StepInstancesSpecialT16 Proofs.StepInstancesSpArm Proofs.StepInstancesSpThumb2 Proofs.StepInstancesSpT16.
From Gen Require Import enums opsyn core exec conc decoders step.
Import ListNotations.
Open Scope Z_scope.

(* MVN{S}<c> Rd, Rm{, <shift>}, MVN{S}<c> Rd, Rm, <type> Rs, and the ARM shifts by register LSL, LSR, ASR, ROR{S}<c> Rd, Rn, Rm *)
Theorem C01_mvnRegisterA1_step cfg s w s1 :
  ArmV6_fetch_instruction cfg s = Ok w s1 ->
  0 <= w < 2 ^ 32 -> is_mvn_reg_a1 w -> iset_of s1 = 0 -> ictx cfg s1 -> cond_holds s1 ->
  let d := bits w 15 12 in let m := bits w 3 0 in
  let sh := DecodeImmShift (bits w 6 5) (bits w 11 7) in
  let op := (code_MvnRegister, [w; bit w 20; m; d; fst sh; snd sh]) in
  exists s2,
    dp_sem cfg MVN (bit w 20) (Some d) 0 (Op2Reg m (fst sh) (snd sh)) (begin_instr s1 op) = Ok tt s2 /\
    ArmV6_emulate_cycle cfg s = Ok tt (AdvancePC (it_step_after s1 s2)) /\
    pc_of (AdvancePC (it_step_after s1 s2)) = add32 (pc_of s1) (opcode_len s1 / 8).
Proof. exact (mvnRegisterA1_step cfg s w s1). Qed.
Print Assumptions C01_mvnRegisterA1_step.
Theorem C01_mvnRegisterShiftedRegisterA1_step cfg s w s1 :
  ArmV6_fetch_instruction cfg s = Ok w s1 ->
  0 <= w < 2 ^ 32 -> is_mvn_rsr_a1 w -> iset_of s1 = 0 -> ictx cfg s1 -> cond_holds s1 ->
  let d := bits w 15 12 in let m := bits w 3 0 in let rs := bits w 11 8 in
  let st := DecodeRegShift (bits w 6 5) in
  let op := (code_MvnRegisterShiftedRegister, [w; bit w 20; m; rs; d; st]) in
  exists s2,
    dp_sem cfg MVN (bit w 20) (Some d) 0 (Op2RegReg m st rs) (begin_instr s1 op) = Ok tt s2 /\
    ArmV6_emulate_cycle cfg s = Ok tt (AdvancePC (it_step_after s1 s2)) /\
    pc_of (AdvancePC (it_step_after s1 s2)) = add32 (pc_of s1) (opcode_len s1 / 8).
Proof. exact (mvnRegisterShiftedRegisterA1_step cfg s w s1). Qed.
Print Assumptions C01_mvnRegisterShiftedRegisterA1_step.
Theorem C01_lslRegisterA1_step cfg s w s1 :
  ArmV6_fetch_instruction cfg s = Ok w s1 ->
  0 <= w < 2 ^ 32 -> is_shift_reg_a1 0 w -> iset_of s1 = 0 -> ictx cfg s1 -> cond_holds s1 ->
  let d := bits w 15 12 in let n := bits w 3 0 in let m := bits w 11 8 in
  let op := (code_LslRegister, [w; bit w 20; m; d; n]) in
  exists s2,
    dp_sem cfg MOV (bit w 20) (Some d) 0 (Op2RegReg n SRType_LSL m) (begin_instr s1 op) = Ok tt s2 /\
    ArmV6_emulate_cycle cfg s = Ok tt (AdvancePC (it_step_after s1 s2)) /\
    pc_of (AdvancePC (it_step_after s1 s2)) = add32 (pc_of s1) (opcode_len s1 / 8).
Proof. exact (lslRegisterA1_step cfg s w s1). Qed.
Print Assumptions C01_lslRegisterA1_step.
Theorem C01_lsrRegisterA1_step cfg s w s1 :
  ArmV6_fetch_instruction cfg s = Ok w s1 ->
  0 <= w < 2 ^ 32 -> is_shift_reg_a1 1 w -> iset_of s1 = 0 -> ictx cfg s1 -> cond_holds s1 ->
  let d := bits w 15 12 in let n := bits w 3 0 in let m := bits w 11 8 in
  let op := (code_LsrRegister, [w; bit w 20; m; d; n]) in
  exists s2,
    dp_sem cfg MOV (bit w 20) (Some d) 0 (Op2RegReg n SRType_LSR m) (begin_instr s1 op) = Ok tt s2 /\
    ArmV6_emulate_cycle cfg s = Ok tt (AdvancePC (it_step_after s1 s2)) /\
    pc_of (AdvancePC (it_step_after s1 s2)) = add32 (pc_of s1) (opcode_len s1 / 8).
Proof. exact (lsrRegisterA1_step cfg s w s1). Qed.
Print Assumptions C01_lsrRegisterA1_step.
Theorem C01_asrRegisterA1_step cfg s w s1 :
  ArmV6_fetch_instruction cfg s = Ok w s1 ->
  0 <= w < 2 ^ 32 -> is_shift_reg_a1 2 w -> iset_of s1 = 0 -> ictx cfg s1 -> cond_holds s1 ->
  let d := bits w 15 12 in let n := bits w 3 0 in let m := bits w 11 8 in
  let op := (code_AsrRegister, [w; bit w 20; m; d; n]) in
  exists s2,
    dp_sem cfg MOV (bit w 20) (Some d) 0 (Op2RegReg n SRType_ASR m) (begin_instr s1 op) = Ok tt s2 /\
    ArmV6_emulate_cycle cfg s = Ok tt (AdvancePC (it_step_after s1 s2)) /\
    pc_of (AdvancePC (it_step_after s1 s2)) = add32 (pc_of s1) (opcode_len s1 / 8).
Proof. exact (asrRegisterA1_step cfg s w s1). Qed.
Print Assumptions C01_asrRegisterA1_step.
Theorem C01_rorRegisterA1_step cfg s w s1 :
  ArmV6_fetch_instruction cfg s = Ok w s1 ->
  0 <= w < 2 ^ 32 -> is_shift_reg_a1 3 w -> iset_of s1 = 0 -> ictx cfg s1 -> cond_holds s1 ->
  let d := bits w 15 12 in let n := bits w 3 0 in let m := bits w 11 8 in
  let op := (code_RorRegister, [w; bit w 20; m; d; n]) in
  exists s2,
    dp_sem cfg MOV (bit w 20) (Some d) 0 (Op2RegReg n SRType_ROR m) (begin_instr s1 op) = Ok tt s2 /\
    ArmV6_emulate_cycle cfg s = Ok tt (AdvancePC (it_step_after s1 s2)) /\
    pc_of (AdvancePC (it_step_after s1 s2)) = add32 (pc_of s1) (opcode_len s1 / 8).
Proof. exact (rorRegisterA1_step cfg s w s1). Qed.
Print Assumptions C01_rorRegisterA1_step.

(* the remaining 16-bit Thumb 010000-group members: LSLS/LSRS/ASRS/RORS by register, MVNS, RSBS #0 *)
Theorem C01_lslRegisterT1_step cfg s w s1 :
  ArmV6_fetch_instruction cfg s = Ok w s1 ->
  0 <= w < 2 ^ 16 -> is_dp_t16 2 w -> iset_of s1 = 1 -> opcode_len s1 = 16 -> ictx cfg s1 -> cond_holds s1 ->
  let dn := bits w 2 0 in let m := bits w 5 3 in
  let op := (code_LslRegister, [w; not_in_it s1; m; dn; dn]) in
  exists s2,
    dp_sem cfg MOV (not_in_it s1) (Some dn) 0 (Op2RegReg dn SRType_LSL m) (begin_instr s1 op) = Ok tt s2 /\
    ArmV6_emulate_cycle cfg s = Ok tt (AdvancePC (it_step_after s1 s2)) /\
    pc_of (AdvancePC (it_step_after s1 s2)) = add32 (pc_of s1) 2.
Proof. exact (lslRegisterT1_step cfg s w s1). Qed.
Print Assumptions C01_lslRegisterT1_step.
Theorem C01_lsrRegisterT1_step cfg s w s1 :
  ArmV6_fetch_instruction cfg s = Ok w s1 ->
  0 <= w < 2 ^ 16 -> is_dp_t16 3 w -> iset_of s1 = 1 -> opcode_len s1 = 16 -> ictx cfg s1 -> cond_holds s1 ->
  let dn := bits w 2 0 in let m := bits w 5 3 in
  let op := (code_LsrRegister, [w; not_in_it s1; m; dn; dn]) in
  exists s2,
    dp_sem cfg MOV (not_in_it s1) (Some dn) 0 (Op2RegReg dn SRType_LSR m) (begin_instr s1 op) = Ok tt s2 /\
    ArmV6_emulate_cycle cfg s = Ok tt (AdvancePC (it_step_after s1 s2)) /\
    pc_of (AdvancePC (it_step_after s1 s2)) = add32 (pc_of s1) 2.
Proof. exact (lsrRegisterT1_step cfg s w s1). Qed.
Print Assumptions C01_lsrRegisterT1_step.
Theorem C01_asrRegisterT1_step cfg s w s1 :
  ArmV6_fetch_instruction cfg s = Ok w s1 ->
  0 <= w < 2 ^ 16 -> is_dp_t16 4 w -> iset_of s1 = 1 -> opcode_len s1 = 16 -> ictx cfg s1 -> cond_holds s1 ->
  let dn := bits w 2 0 in let m := bits w 5 3 in
  let op := (code_AsrRegister, [w; not_in_it s1; m; dn; dn]) in
  exists s2,
    dp_sem cfg MOV (not_in_it s1) (Some dn) 0 (Op2RegReg dn SRType_ASR m) (begin_instr s1 op) = Ok tt s2 /\
    ArmV6_emulate_cycle cfg s = Ok tt (AdvancePC (it_step_after s1 s2)) /\
    pc_of (AdvancePC (it_step_after s1 s2)) = add32 (pc_of s1) 2.
Proof. exact (asrRegisterT1_step cfg s w s1). Qed.
Print Assumptions C01_asrRegisterT1_step.
Theorem C01_rorRegisterT1_step cfg s w s1 :
  ArmV6_fetch_instruction cfg s = Ok w s1 ->
  0 <= w < 2 ^ 16 -> is_dp_t16 7 w -> iset_of s1 = 1 -> opcode_len s1 = 16 -> ictx cfg s1 -> cond_holds s1 ->
  let dn := bits w 2 0 in let m := bits w 5 3 in
  let op := (code_RorRegister, [w; not_in_it s1; m; dn; dn]) in
  exists s2,
    dp_sem cfg MOV (not_in_it s1) (Some dn) 0 (Op2RegReg dn SRType_ROR m) (begin_instr s1 op) = Ok tt s2 /\
    ArmV6_emulate_cycle cfg s = Ok tt (AdvancePC (it_step_after s1 s2)) /\
    pc_of (AdvancePC (it_step_after s1 s2)) = add32 (pc_of s1) 2.
Proof. exact (rorRegisterT1_step cfg s w s1). Qed.
Print Assumptions C01_rorRegisterT1_step.
Theorem C01_mvnRegisterT1_step cfg s w s1 :
  ArmV6_fetch_instruction cfg s = Ok w s1 ->
  0 <= w < 2 ^ 16 -> is_dp_t16 15 w -> iset_of s1 = 1 -> opcode_len s1 = 16 -> ictx cfg s1 -> cond_holds s1 ->
  let d := bits w 2 0 in let m := bits w 5 3 in
  let op := (code_MvnRegister, [w; not_in_it s1; m; d; 1; 0]) in
  exists s2,
    dp_sem cfg MVN (not_in_it s1) (Some d) 0 (Op2Reg m SRType_LSL 0) (begin_instr s1 op) = Ok tt s2 /\
    ArmV6_emulate_cycle cfg s = Ok tt (AdvancePC (it_step_after s1 s2)) /\
    pc_of (AdvancePC (it_step_after s1 s2)) = add32 (pc_of s1) 2.
Proof. exact (mvnRegisterT1_step cfg s w s1). Qed.
Print Assumptions C01_mvnRegisterT1_step.
Theorem C01_rsbImmediateT1_step cfg s w s1 :
  ArmV6_fetch_instruction cfg s = Ok w s1 ->
  0 <= w < 2 ^ 16 -> is_dp_t16 9 w -> iset_of s1 = 1 -> opcode_len s1 = 16 -> ictx cfg s1 -> cond_holds s1 ->
  let d := bits w 2 0 in let n := bits w 5 3 in
  let op := (code_RsbImmediate, [w; not_in_it s1; d; n; 0]) in
  exists s2,
    dp_sem cfg RSB (not_in_it s1) (Some d) n (Op2Imm 0 0) (begin_instr s1 op) = Ok tt s2 /\
    ArmV6_emulate_cycle cfg s = Ok tt (AdvancePC (it_step_after s1 s2)) /\
    pc_of (AdvancePC (it_step_after s1 s2)) = add32 (pc_of s1) 2.
Proof. exact (rsbImmediateT1_step cfg s w s1). Qed.
Print Assumptions C01_rsbImmediateT1_step.

(* 32-bit Thumb MOV{S}.W / MVN{S} Rd, #const (modified immediate) *)
Theorem C01_movImmediateT2_step cfg s w s1 :
  ArmV6_fetch_instruction cfg s = Ok w s1 ->
  0 <= w < 2 ^ 32 -> is_mov_mi_t32 0 0 1 0 w -> iset_of s1 = 1 -> opcode_len s1 = 32 -> ictx cfg s1 -> cond_holds s1 ->
  let d := bits w 11 8 in let imm32 := ThumbExpandImm (imm12t w) in let c := snd (ThumbExpandImm_C (imm12t w) (cflag s1)) in
  let op := (code_MovImmediate, [w; bit w 20; d; imm32; c]) in
  exists s2,
    dp_sem cfg MOV (bit w 20) (Some d) 0 (Op2Imm imm32 c) (begin_instr s1 op) = Ok tt s2 /\
    ArmV6_emulate_cycle cfg s = Ok tt (AdvancePC (it_step_after s1 s2)) /\
    pc_of (AdvancePC (it_step_after s1 s2)) = add32 (pc_of s1) 4.
Proof. exact (movImmediateT2_step cfg s w s1). Qed.
Print Assumptions C01_movImmediateT2_step.
Theorem C01_mvnImmediateT1_step cfg s w s1 :
  ArmV6_fetch_instruction cfg s = Ok w s1 ->
  0 <= w < 2 ^ 32 -> is_mov_mi_t32 0 0 1 1 w -> iset_of s1 = 1 -> opcode_len s1 = 32 -> ictx cfg s1 -> cond_holds s1 ->
  let d := bits w 11 8 in let imm32 := ThumbExpandImm (imm12t w) in let c := snd (ThumbExpandImm_C (imm12t w) (cflag s1)) in
  let op := (code_MvnImmediate, [w; bit w 20; d; imm32; c]) in
  exists s2,
    dp_sem cfg MVN (bit w 20) (Some d) 0 (Op2Imm imm32 c) (begin_instr s1 op) = Ok tt s2 /\
    ArmV6_emulate_cycle cfg s = Ok tt (AdvancePC (it_step_after s1 s2)) /\
    pc_of (AdvancePC (it_step_after s1 s2)) = add32 (pc_of s1) 4.
Proof. exact (mvnImmediateT1_step cfg s w s1). Qed.
Print Assumptions C01_mvnImmediateT1_step.

(* 32-bit Thumb MVN{S}.W Rd, Rm{, <shift>} *)
Theorem C01_mvnRegisterT2_step cfg s w s1 :
  ArmV6_fetch_instruction cfg s = Ok w s1 ->
  0 <= w < 2 ^ 32 -> is_mvn_sr_t32 w -> iset_of s1 = 1 -> opcode_len s1 = 32 -> ictx cfg s1 -> cond_holds s1 ->
  let d := bits w 11 8 in let m := bits w 3 0 in
  let sh := DecodeImmShift (bits w 5 4) (imm5t w) in
  let op := (code_MvnRegister, [w; bit w 20; m; d; fst sh; snd sh]) in
  exists s2,
    dp_sem cfg MVN (bit w 20) (Some d) 0 (Op2Reg m (fst sh) (snd sh)) (begin_instr s1 op) = Ok tt s2 /\
    ArmV6_emulate_cycle cfg s = Ok tt (AdvancePC (it_step_after s1 s2)) /\
    pc_of (AdvancePC (it_step_after s1 s2)) = add32 (pc_of s1) 4.
Proof. exact (mvnRegisterT2_step cfg s w s1). Qed.
Print Assumptions C01_mvnRegisterT2_step.

(* the 32-bit Thumb move-register-and-immediate-shifts group: MOV.W (register), RRX, LSL/LSR/ASR/ROR by a non-zero immediate *)
Theorem C01_movRegisterThumbT3_step cfg s w s1 :
  ArmV6_fetch_instruction cfg s = Ok w s1 ->
  0 <= w < 2 ^ 32 -> is_shift_t32 0 true w -> iset_of s1 = 1 -> opcode_len s1 = 32 -> ictx cfg s1 -> cond_holds s1 ->
  let d := bits w 11 8 in let m := bits w 3 0 in
  let op := (code_MovRegisterThumb, [w; bit w 20; m; d]) in
  exists s2,
    dp_sem cfg MOV (bit w 20) (Some d) 0 (Op2Plain m) (begin_instr s1 op) = Ok tt s2 /\
    ArmV6_emulate_cycle cfg s = Ok tt (AdvancePC (it_step_after s1 s2)) /\
    pc_of (AdvancePC (it_step_after s1 s2)) = add32 (pc_of s1) 4.
Proof. exact (movRegisterThumbT3_step cfg s w s1). Qed.
Print Assumptions C01_movRegisterThumbT3_step.
Theorem C01_rrxT1_step cfg s w s1 :
  ArmV6_fetch_instruction cfg s = Ok w s1 ->
  0 <= w < 2 ^ 32 -> is_shift_t32 3 true w -> iset_of s1 = 1 -> opcode_len s1 = 32 -> ictx cfg s1 -> cond_holds s1 ->
  let d := bits w 11 8 in let m := bits w 3 0 in
  let op := (code_Rrx, [w; bit w 20; m; d]) in
  exists s2,
    dp_sem cfg MOV (bit w 20) (Some d) 0 (Op2Reg m SRType_RRX 1) (begin_instr s1 op) = Ok tt s2 /\
    ArmV6_emulate_cycle cfg s = Ok tt (AdvancePC (it_step_after s1 s2)) /\
    pc_of (AdvancePC (it_step_after s1 s2)) = add32 (pc_of s1) 4.
Proof. exact (rrxT1_step cfg s w s1). Qed.
Print Assumptions C01_rrxT1_step.
Theorem C01_lslImmediateT2_step cfg s w s1 :
  ArmV6_fetch_instruction cfg s = Ok w s1 ->
  0 <= w < 2 ^ 32 -> is_shift_t32 0 false w -> iset_of s1 = 1 -> opcode_len s1 = 32 -> ictx cfg s1 -> cond_holds s1 ->
  let d := bits w 11 8 in let m := bits w 3 0 in let n := snd (DecodeImmShift 0 (imm5t w)) in
  let op := (code_LslImmediate, [w; bit w 20; m; d; n]) in
  exists s2,
    dp_sem cfg MOV (bit w 20) (Some d) 0 (Op2Reg m SRType_LSL n) (begin_instr s1 op) = Ok tt s2 /\
    ArmV6_emulate_cycle cfg s = Ok tt (AdvancePC (it_step_after s1 s2)) /\
    pc_of (AdvancePC (it_step_after s1 s2)) = add32 (pc_of s1) 4.
Proof. exact (lslImmediateT2_step cfg s w s1). Qed.
Print Assumptions C01_lslImmediateT2_step.
Theorem C01_lsrImmediateT2_step cfg s w s1 :
  ArmV6_fetch_instruction cfg s = Ok w s1 ->
  0 <= w < 2 ^ 32 -> is_shift_t32 1 false w -> iset_of s1 = 1 -> opcode_len s1 = 32 -> ictx cfg s1 -> cond_holds s1 ->
  let d := bits w 11 8 in let m := bits w 3 0 in let n := snd (DecodeImmShift 1 (imm5t w)) in
  let op := (code_LsrImmediate, [w; bit w 20; m; d; n]) in
  exists s2,
    dp_sem cfg MOV (bit w 20) (Some d) 0 (Op2Reg m SRType_LSR n) (begin_instr s1 op) = Ok tt s2 /\
    ArmV6_emulate_cycle cfg s = Ok tt (AdvancePC (it_step_after s1 s2)) /\
    pc_of (AdvancePC (it_step_after s1 s2)) = add32 (pc_of s1) 4.
Proof. exact (lsrImmediateT2_step cfg s w s1). Qed.
Print Assumptions C01_lsrImmediateT2_step.
Theorem C01_asrImmediateT2_step cfg s w s1 :
  ArmV6_fetch_instruction cfg s = Ok w s1 ->
  0 <= w < 2 ^ 32 -> is_shift_t32 2 false w -> iset_of s1 = 1 -> opcode_len s1 = 32 -> ictx cfg s1 -> cond_holds s1 ->
  let d := bits w 11 8 in let m := bits w 3 0 in let n := snd (DecodeImmShift 2 (imm5t w)) in
  let op := (code_AsrImmediate, [w; bit w 20; m; d; n]) in
  exists s2,
    dp_sem cfg MOV (bit w 20) (Some d) 0 (Op2Reg m SRType_ASR n) (begin_instr s1 op) = Ok tt s2 /\
    ArmV6_emulate_cycle cfg s = Ok tt (AdvancePC (it_step_after s1 s2)) /\
    pc_of (AdvancePC (it_step_after s1 s2)) = add32 (pc_of s1) 4.
Proof. exact (asrImmediateT2_step cfg s w s1). Qed.
Print Assumptions C01_asrImmediateT2_step.
Theorem C01_rorImmediateT1_step cfg s w s1 :
  ArmV6_fetch_instruction cfg s = Ok w s1 ->
  0 <= w < 2 ^ 32 -> is_shift_t32 3 false w -> iset_of s1 = 1 -> opcode_len s1 = 32 -> ictx cfg s1 -> cond_holds s1 ->
  let d := bits w 11 8 in let m := bits w 3 0 in let n := snd (DecodeImmShift 3 (imm5t w)) in
  let op := (code_RorImmediate, [w; bit w 20; m; d; n]) in
  exists s2,
    dp_sem cfg MOV (bit w 20) (Some d) 0 (Op2Reg m SRType_ROR n) (begin_instr s1 op) = Ok tt s2 /\
    ArmV6_emulate_cycle cfg s = Ok tt (AdvancePC (it_step_after s1 s2)) /\
    pc_of (AdvancePC (it_step_after s1 s2)) = add32 (pc_of s1) 4.
Proof. exact (rorImmediateT1_step cfg s w s1). Qed.
Print Assumptions C01_rorImmediateT1_step.

(* the 32-bit Thumb shifts by register LSL / LSR / ASR / ROR{S}.W Rd, Rn, Rm *)
Theorem C01_lslRegisterT2_step cfg s w s1 :
  ArmV6_fetch_instruction cfg s = Ok w s1 ->
  0 <= w < 2 ^ 32 -> is_shift_reg_t32 0 0 w -> iset_of s1 = 1 -> opcode_len s1 = 32 -> ictx cfg s1 -> cond_holds s1 ->
  let d := bits w 11 8 in let n := bits w 19 16 in let m := bits w 3 0 in
  let op := (code_LslRegister, [w; bit w 20; m; d; n]) in
  exists s2,
    dp_sem cfg MOV (bit w 20) (Some d) 0 (Op2RegReg n SRType_LSL m) (begin_instr s1 op) = Ok tt s2 /\
    ArmV6_emulate_cycle cfg s = Ok tt (AdvancePC (it_step_after s1 s2)) /\
    pc_of (AdvancePC (it_step_after s1 s2)) = add32 (pc_of s1) 4.
Proof. exact (lslRegisterT2_step cfg s w s1). Qed.
Print Assumptions C01_lslRegisterT2_step.
Theorem C01_lsrRegisterT2_step cfg s w s1 :
  ArmV6_fetch_instruction cfg s = Ok w s1 ->
  0 <= w < 2 ^ 32 -> is_shift_reg_t32 0 1 w -> iset_of s1 = 1 -> opcode_len s1 = 32 -> ictx cfg s1 -> cond_holds s1 ->
  let d := bits w 11 8 in let n := bits w 19 16 in let m := bits w 3 0 in
  let op := (code_LsrRegister, [w; bit w 20; m; d; n]) in
  exists s2,
    dp_sem cfg MOV (bit w 20) (Some d) 0 (Op2RegReg n SRType_LSR m) (begin_instr s1 op) = Ok tt s2 /\
    ArmV6_emulate_cycle cfg s = Ok tt (AdvancePC (it_step_after s1 s2)) /\
    pc_of (AdvancePC (it_step_after s1 s2)) = add32 (pc_of s1) 4.
Proof. exact (lsrRegisterT2_step cfg s w s1). Qed.
Print Assumptions C01_lsrRegisterT2_step.
Theorem C01_asrRegisterT2_step cfg s w s1 :
  ArmV6_fetch_instruction cfg s = Ok w s1 ->
  0 <= w < 2 ^ 32 -> is_shift_reg_t32 1 0 w -> iset_of s1 = 1 -> opcode_len s1 = 32 -> ictx cfg s1 -> cond_holds s1 ->
  let d := bits w 11 8 in let n := bits w 19 16 in let m := bits w 3 0 in
  let op := (code_AsrRegister, [w; bit w 20; m; d; n]) in
  exists s2,
    dp_sem cfg MOV (bit w 20) (Some d) 0 (Op2RegReg n SRType_ASR m) (begin_instr s1 op) = Ok tt s2 /\
    ArmV6_emulate_cycle cfg s = Ok tt (AdvancePC (it_step_after s1 s2)) /\
    pc_of (AdvancePC (it_step_after s1 s2)) = add32 (pc_of s1) 4.
Proof. exact (asrRegisterT2_step cfg s w s1). Qed.
Print Assumptions C01_asrRegisterT2_step.
Theorem C01_rorRegisterT2_step cfg s w s1 :
  ArmV6_fetch_instruction cfg s = Ok w s1 ->
  0 <= w < 2 ^ 32 -> is_shift_reg_t32 1 1 w -> iset_of s1 = 1 -> opcode_len s1 = 32 -> ictx cfg s1 -> cond_holds s1 ->
  let d := bits w 11 8 in let n := bits w 19 16 in let m := bits w 3 0 in
  let op := (code_RorRegister, [w; bit w 20; m; d; n]) in
  exists s2,
    dp_sem cfg MOV (bit w 20) (Some d) 0 (Op2RegReg n SRType_ROR m) (begin_instr s1 op) = Ok tt s2 /\
    ArmV6_emulate_cycle cfg s = Ok tt (AdvancePC (it_step_after s1 s2)) /\
    pc_of (AdvancePC (it_step_after s1 s2)) = add32 (pc_of s1) 4.
Proof. exact (rorRegisterT2_step cfg s w s1). Qed.
Print Assumptions C01_rorRegisterT2_step.

(* the 32-bit Thumb comparisons with a shifted register: TST.W, TEQ, CMN.W, CMP.W *)
Theorem C01_tstRegisterT2_step cfg s w s1 :
  ArmV6_fetch_instruction cfg s = Ok w s1 ->
  0 <= w < 2 ^ 32 -> is_cmp_sr_t32 0 0 0 0 w -> iset_of s1 = 1 -> opcode_len s1 = 32 -> ictx cfg s1 -> cond_holds s1 ->
  let n := bits w 19 16 in let m := bits w 3 0 in let sh := DecodeImmShift (bits w 5 4) (imm5t w) in
  let op := (code_TstRegister, [w; m; n; fst sh; snd sh]) in
  exists s2,
    dp_sem cfg AND 1 None n (Op2Reg m (fst sh) (snd sh)) (begin_instr s1 op) = Ok tt s2 /\
    ArmV6_emulate_cycle cfg s = Ok tt (AdvancePC (it_step_after s1 s2)) /\
    pc_of (AdvancePC (it_step_after s1 s2)) = add32 (pc_of s1) 4 /\
    (forall k, 0 <= k -> k <> pc_index -> getl (R (AdvancePC (it_step_after s1 s2))) k = getl (R s1) k).
Proof. exact (tstRegisterT2_step cfg s w s1). Qed.
Print Assumptions C01_tstRegisterT2_step.
Theorem C01_teqRegisterT1_step cfg s w s1 :
  ArmV6_fetch_instruction cfg s = Ok w s1 ->
  0 <= w < 2 ^ 32 -> is_cmp_sr_t32 0 1 0 0 w -> iset_of s1 = 1 -> opcode_len s1 = 32 -> ictx cfg s1 -> cond_holds s1 ->
  let n := bits w 19 16 in let m := bits w 3 0 in let sh := DecodeImmShift (bits w 5 4) (imm5t w) in
  let op := (code_TeqRegister, [w; m; n; fst sh; snd sh]) in
  exists s2,
    dp_sem cfg EOR 1 None n (Op2Reg m (fst sh) (snd sh)) (begin_instr s1 op) = Ok tt s2 /\
    ArmV6_emulate_cycle cfg s = Ok tt (AdvancePC (it_step_after s1 s2)) /\
    pc_of (AdvancePC (it_step_after s1 s2)) = add32 (pc_of s1) 4 /\
    (forall k, 0 <= k -> k <> pc_index -> getl (R (AdvancePC (it_step_after s1 s2))) k = getl (R s1) k).
Proof. exact (teqRegisterT1_step cfg s w s1). Qed.
Print Assumptions C01_teqRegisterT1_step.
Theorem C01_cmnRegisterT2_step cfg s w s1 :
  ArmV6_fetch_instruction cfg s = Ok w s1 ->
  0 <= w < 2 ^ 32 -> is_cmp_sr_t32 1 0 0 0 w -> iset_of s1 = 1 -> opcode_len s1 = 32 -> ictx cfg s1 -> cond_holds s1 ->
  let n := bits w 19 16 in let m := bits w 3 0 in let sh := DecodeImmShift (bits w 5 4) (imm5t w) in
  let op := (code_CmnRegister, [w; m; n; fst sh; snd sh]) in
  exists s2,
    dp_sem cfg ADD 1 None n (Op2Reg m (fst sh) (snd sh)) (begin_instr s1 op) = Ok tt s2 /\
    ArmV6_emulate_cycle cfg s = Ok tt (AdvancePC (it_step_after s1 s2)) /\
    pc_of (AdvancePC (it_step_after s1 s2)) = add32 (pc_of s1) 4 /\
    (forall k, 0 <= k -> k <> pc_index -> getl (R (AdvancePC (it_step_after s1 s2))) k = getl (R s1) k).
Proof. exact (cmnRegisterT2_step cfg s w s1). Qed.
Print Assumptions C01_cmnRegisterT2_step.
Theorem C01_cmpRegisterT3_step cfg s w s1 :
  ArmV6_fetch_instruction cfg s = Ok w s1 ->
  0 <= w < 2 ^ 32 -> is_cmp_sr_t32 1 1 0 1 w -> iset_of s1 = 1 -> opcode_len s1 = 32 -> ictx cfg s1 -> cond_holds s1 ->
  let n := bits w 19 16 in let m := bits w 3 0 in let sh := DecodeImmShift (bits w 5 4) (imm5t w) in
  let op := (code_CmpRegister, [w; m; n; fst sh; snd sh]) in
  exists s2,
    dp_sem cfg SUB 1 None n (Op2Reg m (fst sh) (snd sh)) (begin_instr s1 op) = Ok tt s2 /\
    ArmV6_emulate_cycle cfg s = Ok tt (AdvancePC (it_step_after s1 s2)) /\
    pc_of (AdvancePC (it_step_after s1 s2)) = add32 (pc_of s1) 4 /\
    (forall k, 0 <= k -> k <> pc_index -> getl (R (AdvancePC (it_step_after s1 s2))) k = getl (R s1) k).
Proof. exact (cmpRegisterT3_step cfg s w s1). Qed.
Print Assumptions C01_cmpRegisterT3_step.

(* 16-bit Thumb ADDS / SUBS Rd, Rn, Rm (T1) *)
Theorem C01_addRegisterThumbT1_step cfg s w s1 :
  ArmV6_fetch_instruction cfg s = Ok w s1 ->
  0 <= w < 2 ^ 16 -> is_addsub_reg_t1 12 w -> iset_of s1 = 1 -> opcode_len s1 = 16 -> ictx cfg s1 -> cond_holds s1 ->
  let d := bits w 2 0 in let n := bits w 5 3 in let m := bits w 8 6 in
  let op := (code_AddRegisterThumb, [w; not_in_it s1; m; d; n; 1; 0]) in
  exists s2,
    dp_sem cfg ADD (not_in_it s1) (Some d) n (Op2Reg m SRType_LSL 0) (begin_instr s1 op) = Ok tt s2 /\
    ArmV6_emulate_cycle cfg s = Ok tt (AdvancePC (it_step_after s1 s2)) /\
    pc_of (AdvancePC (it_step_after s1 s2)) = add32 (pc_of s1) 2.
Proof. exact (addRegisterThumbT1_step cfg s w s1). Qed.
Print Assumptions C01_addRegisterThumbT1_step.
Theorem C01_subRegisterT1_step cfg s w s1 :
  ArmV6_fetch_instruction cfg s = Ok w s1 ->
  0 <= w < 2 ^ 16 -> is_addsub_reg_t1 13 w -> iset_of s1 = 1 -> opcode_len s1 = 16 -> ictx cfg s1 -> cond_holds s1 ->
  let d := bits w 2 0 in let n := bits w 5 3 in let m := bits w 8 6 in
  let op := (code_SubRegister, [w; not_in_it s1; m; d; n; 1; 0]) in
  exists s2,
    dp_sem cfg SUB (not_in_it s1) (Some d) n (Op2Reg m SRType_LSL 0) (begin_instr s1 op) = Ok tt s2 /\
    ArmV6_emulate_cycle cfg s = Ok tt (AdvancePC (it_step_after s1 s2)) /\
    pc_of (AdvancePC (it_step_after s1 s2)) = add32 (pc_of s1) 2.
Proof. exact (subRegisterT1_step cfg s w s1). Qed.
Print Assumptions C01_subRegisterT1_step.

(* the 32-bit Thumb plain-binary-immediate encodings ADDW, SUBW (T4) and MOVW (T3) *)
Theorem C01_addImmediateThumbT4_step cfg s w s1 :
  ArmV6_fetch_instruction cfg s = Ok w s1 ->
  0 <= w < 2 ^ 32 -> is_pbi_t32 0 0 0 0 w /\ regs13 [bits w 19 16; bits w 11 8] = true -> iset_of s1 = 1 -> opcode_len s1 = 32 -> ictx cfg s1 -> cond_holds s1 ->
  let d := bits w 11 8 in let n := bits w 19 16 in let imm32 := imm12t w in
  let op := (code_AddImmediateThumb, [w; 0; d; n; imm32]) in
  exists s2,
    dp_sem cfg ADD 0 (Some d) n (Op2Imm imm32 0) (begin_instr s1 op) = Ok tt s2 /\
    ArmV6_emulate_cycle cfg s = Ok tt (AdvancePC (it_step_after s1 s2)) /\
    pc_of (AdvancePC (it_step_after s1 s2)) = add32 (pc_of s1) 4.
Proof. exact (addImmediateThumbT4_step cfg s w s1). Qed.
Print Assumptions C01_addImmediateThumbT4_step.
Theorem C01_subImmediateThumbT4_step cfg s w s1 :
  ArmV6_fetch_instruction cfg s = Ok w s1 ->
  0 <= w < 2 ^ 32 -> is_pbi_t32 0 1 0 1 w /\ regs13 [bits w 19 16; bits w 11 8] = true -> iset_of s1 = 1 -> opcode_len s1 = 32 -> ictx cfg s1 -> cond_holds s1 ->
  let d := bits w 11 8 in let n := bits w 19 16 in let imm32 := imm12t w in
  let op := (code_SubImmediateThumb, [w; 0; d; n; imm32]) in
  exists s2,
    dp_sem cfg SUB 0 (Some d) n (Op2Imm imm32 0) (begin_instr s1 op) = Ok tt s2 /\
    ArmV6_emulate_cycle cfg s = Ok tt (AdvancePC (it_step_after s1 s2)) /\
    pc_of (AdvancePC (it_step_after s1 s2)) = add32 (pc_of s1) 4.
Proof. exact (subImmediateThumbT4_step cfg s w s1). Qed.
Print Assumptions C01_subImmediateThumbT4_step.
Theorem C01_movImmediateT3_step cfg s w s1 :
  ArmV6_fetch_instruction cfg s = Ok w s1 ->
  0 <= w < 2 ^ 32 -> is_pbi_t32 0 0 1 0 w /\ regs13 [bits w 11 8] = true -> iset_of s1 = 1 -> opcode_len s1 = 32 -> ictx cfg s1 -> cond_holds s1 ->
  let d := bits w 11 8 in let imm16 := bits w 19 16 * 2 ^ 12 + imm12t w in
  let op := (code_MovImmediate, [w; 0; d; imm16; 0]) in
  exists s2,
    dp_sem cfg MOV 0 (Some d) 0 (Op2Imm imm16 0) (begin_instr s1 op) = Ok tt s2 /\
    ArmV6_emulate_cycle cfg s = Ok tt (AdvancePC (it_step_after s1 s2)) /\
    pc_of (AdvancePC (it_step_after s1 s2)) = add32 (pc_of s1) 4.
Proof. exact (movImmediateT3_step cfg s w s1). Qed.
Print Assumptions C01_movImmediateT3_step.

(* the 16-bit Thumb special data instructions with high registers: ADD Rdn, Rm (T2), CMP Rn, Rm (T2), MOV Rd, Rm (T1) *)
Theorem C01_addRegisterThumbT2_step cfg s w s1 :
  ArmV6_fetch_instruction cfg s = Ok w s1 ->
  0 <= w < 2 ^ 16 -> is_special_t16 0 0 w -> pre_add_t2 w = true -> iset_of s1 = 1 -> opcode_len s1 = 16 -> ictx cfg s1 -> cond_holds s1 ->
  let dn := bit w 7 * 8 + bits w 2 0 in let m := bits w 6 3 in
  let op := (code_AddRegisterThumb, [w; 0; m; dn; dn; 1; 0]) in
  exists s2,
    dp_sem cfg ADD 0 (Some dn) dn (Op2Reg m SRType_LSL 0) (begin_instr s1 op) = Ok tt s2 /\
    ArmV6_emulate_cycle cfg s = Ok tt (AdvancePC (it_step_after s1 s2)) /\
    pc_of (AdvancePC (it_step_after s1 s2)) = add32 (pc_of s1) 2.
Proof. exact (addRegisterThumbT2_step cfg s w s1). Qed.
Print Assumptions C01_addRegisterThumbT2_step.
Theorem C01_movRegisterThumbT1_step cfg s w s1 :
  ArmV6_fetch_instruction cfg s = Ok w s1 ->
  0 <= w < 2 ^ 16 -> is_special_t16 1 0 w -> pre_mov_t1 w = true -> iset_of s1 = 1 -> opcode_len s1 = 16 -> ictx cfg s1 -> cond_holds s1 ->
  let d := bit w 7 * 8 + bits w 2 0 in let m := bits w 6 3 in
  let op := (code_MovRegisterThumb, [w; 0; m; d]) in
  exists s2,
    dp_sem cfg MOV 0 (Some d) 0 (Op2Plain m) (begin_instr s1 op) = Ok tt s2 /\
    ArmV6_emulate_cycle cfg s = Ok tt (AdvancePC (it_step_after s1 s2)) /\
    pc_of (AdvancePC (it_step_after s1 s2)) = add32 (pc_of s1) 2.
Proof. exact (movRegisterThumbT1_step cfg s w s1). Qed.
Print Assumptions C01_movRegisterThumbT1_step.
Theorem C01_cmpRegisterT2_step cfg s w s1 :
  ArmV6_fetch_instruction cfg s = Ok w s1 ->
  0 <= w < 2 ^ 16 -> is_special_t16 0 1 w -> pre_cmp_t2 w = true -> iset_of s1 = 1 -> opcode_len s1 = 16 -> ictx cfg s1 -> cond_holds s1 ->
  let n := bit w 7 * 8 + bits w 2 0 in let m := bits w 6 3 in
  let op := (code_CmpRegister, [w; m; n; 1; 0]) in
  exists s2,
    dp_sem cfg SUB 1 None n (Op2Reg m SRType_LSL 0) (begin_instr s1 op) = Ok tt s2 /\
    ArmV6_emulate_cycle cfg s = Ok tt (AdvancePC (it_step_after s1 s2)) /\
    pc_of (AdvancePC (it_step_after s1 s2)) = add32 (pc_of s1) 2 /\
    (forall k, 0 <= k -> k <> pc_index -> getl (R (AdvancePC (it_step_after s1 s2))) k = getl (R s1) k).
Proof. exact (cmpRegisterT2_step cfg s w s1). Qed.
Print Assumptions C01_cmpRegisterT2_step.

(* ARM SP-relative ADD / SUB (immediate and register) and MOVW (A2) *)
Theorem C01_addSpPlusImmediateA1_step cfg s w s1 :
  ArmV6_fetch_instruction cfg s = Ok w s1 ->
  0 <= w < 2 ^ 32 -> is_sp_imm_a1 0 1 0 0 w -> iset_of s1 = 0 -> ictx cfg s1 -> cond_holds s1 ->
  let d := bits w 15 12 in let imm32 := ARMExpandImm (bits w 11 0) in
  let op := (code_AddSpPlusImmediate, [w; bit w 20; d; imm32]) in
  exists s2,
    dp_sem cfg ADD (bit w 20) (Some d) 13 (Op2Imm imm32 0) (begin_instr s1 op) = Ok tt s2 /\
    ArmV6_emulate_cycle cfg s = Ok tt (AdvancePC (it_step_after s1 s2)) /\
    pc_of (AdvancePC (it_step_after s1 s2)) = add32 (pc_of s1) (opcode_len s1 / 8).
Proof. exact (addSpPlusImmediateA1_step cfg s w s1). Qed.
Print Assumptions C01_addSpPlusImmediateA1_step.
Theorem C01_subSpMinusImmediateA1_step cfg s w s1 :
  ArmV6_fetch_instruction cfg s = Ok w s1 ->
  0 <= w < 2 ^ 32 -> is_sp_imm_a1 0 0 1 0 w -> iset_of s1 = 0 -> ictx cfg s1 -> cond_holds s1 ->
  let d := bits w 15 12 in let imm32 := ARMExpandImm (bits w 11 0) in
  let op := (code_SubSpMinusImmediate, [w; bit w 20; d; imm32]) in
  exists s2,
    dp_sem cfg SUB (bit w 20) (Some d) 13 (Op2Imm imm32 0) (begin_instr s1 op) = Ok tt s2 /\
    ArmV6_emulate_cycle cfg s = Ok tt (AdvancePC (it_step_after s1 s2)) /\
    pc_of (AdvancePC (it_step_after s1 s2)) = add32 (pc_of s1) (opcode_len s1 / 8).
Proof. exact (subSpMinusImmediateA1_step cfg s w s1). Qed.
Print Assumptions C01_subSpMinusImmediateA1_step.
Theorem C01_addSpPlusRegisterArmA1_step cfg s w s1 :
  ArmV6_fetch_instruction cfg s = Ok w s1 ->
  0 <= w < 2 ^ 32 -> is_sp_reg_a1 0 1 0 0 w -> iset_of s1 = 0 -> ictx cfg s1 -> cond_holds s1 ->
  let d := bits w 15 12 in let m := bits w 3 0 in
  let sh := DecodeImmShift (bits w 6 5) (bits w 11 7) in
  let op := (code_AddSpPlusRegisterArm, [w; bit w 20; m; d; fst sh; snd sh]) in
  exists s2,
    dp_sem cfg ADD (bit w 20) (Some d) 13 (Op2Reg m (fst sh) (snd sh)) (begin_instr s1 op) = Ok tt s2 /\
    ArmV6_emulate_cycle cfg s = Ok tt (AdvancePC (it_step_after s1 s2)) /\
    pc_of (AdvancePC (it_step_after s1 s2)) = add32 (pc_of s1) (opcode_len s1 / 8).
Proof. exact (addSpPlusRegisterArmA1_step cfg s w s1). Qed.
Print Assumptions C01_addSpPlusRegisterArmA1_step.
Theorem C01_subSpMinusRegisterA1_step cfg s w s1 :
  ArmV6_fetch_instruction cfg s = Ok w s1 ->
  0 <= w < 2 ^ 32 -> is_sp_reg_a1 0 0 1 0 w -> iset_of s1 = 0 -> ictx cfg s1 -> cond_holds s1 ->
  let d := bits w 15 12 in let m := bits w 3 0 in
  let sh := DecodeImmShift (bits w 6 5) (bits w 11 7) in
  let op := (code_SubSpMinusRegister, [w; bit w 20; m; d; fst sh; snd sh]) in
  exists s2,
    dp_sem cfg SUB (bit w 20) (Some d) 13 (Op2Reg m (fst sh) (snd sh)) (begin_instr s1 op) = Ok tt s2 /\
    ArmV6_emulate_cycle cfg s = Ok tt (AdvancePC (it_step_after s1 s2)) /\
    pc_of (AdvancePC (it_step_after s1 s2)) = add32 (pc_of s1) (opcode_len s1 / 8).
Proof. exact (subSpMinusRegisterA1_step cfg s w s1). Qed.
Print Assumptions C01_subSpMinusRegisterA1_step.
Theorem C01_movImmediateA2_step cfg s w s1 :
  ArmV6_fetch_instruction cfg s = Ok w s1 ->
  0 <= w < 2 ^ 32 -> is_movw_a2 w -> iset_of s1 = 0 -> ictx cfg s1 -> cond_holds s1 ->
  let d := bits w 15 12 in let imm16 := bits w 19 16 * 2 ^ 12 + bits w 11 0 in
  let op := (code_MovImmediate, [w; 0; d; imm16; 0]) in
  exists s2,
    dp_sem cfg MOV 0 (Some d) 0 (Op2Imm imm16 0) (begin_instr s1 op) = Ok tt s2 /\
    ArmV6_emulate_cycle cfg s = Ok tt (AdvancePC (it_step_after s1 s2)) /\
    pc_of (AdvancePC (it_step_after s1 s2)) = add32 (pc_of s1) (opcode_len s1 / 8).
Proof. exact (movImmediateA2_step cfg s w s1). Qed.
Print Assumptions C01_movImmediateA2_step.

(* the 32-bit Thumb SP-relative ADD / SUB: modified immediate, plain 12-bit immediate, shifted register *)
Theorem C01_addSpPlusImmediateT3_step cfg s w s1 :
  ArmV6_fetch_instruction cfg s = Ok w s1 ->
  0 <= w < 2 ^ 32 -> is_sp_mi_t32 1 0 0 0 w -> iset_of s1 = 1 -> opcode_len s1 = 32 -> ictx cfg s1 -> cond_holds s1 ->
  let d := bits w 11 8 in let imm32 := ThumbExpandImm (imm12t w) in
  let op := (code_AddSpPlusImmediate, [w; bit w 20; d; imm32]) in
  exists s2,
    dp_sem cfg ADD (bit w 20) (Some d) 13 (Op2Imm imm32 0) (begin_instr s1 op) = Ok tt s2 /\
    ArmV6_emulate_cycle cfg s = Ok tt (AdvancePC (it_step_after s1 s2)) /\
    pc_of (AdvancePC (it_step_after s1 s2)) = add32 (pc_of s1) 4.
Proof. exact (addSpPlusImmediateT3_step cfg s w s1). Qed.
Print Assumptions C01_addSpPlusImmediateT3_step.
Theorem C01_subSpMinusImmediateT2_step cfg s w s1 :
  ArmV6_fetch_instruction cfg s = Ok w s1 ->
  0 <= w < 2 ^ 32 -> is_sp_mi_t32 1 1 0 1 w -> iset_of s1 = 1 -> opcode_len s1 = 32 -> ictx cfg s1 -> cond_holds s1 ->
  let d := bits w 11 8 in let imm32 := ThumbExpandImm (imm12t w) in
  let op := (code_SubSpMinusImmediate, [w; bit w 20; d; imm32]) in
  exists s2,
    dp_sem cfg SUB (bit w 20) (Some d) 13 (Op2Imm imm32 0) (begin_instr s1 op) = Ok tt s2 /\
    ArmV6_emulate_cycle cfg s = Ok tt (AdvancePC (it_step_after s1 s2)) /\
    pc_of (AdvancePC (it_step_after s1 s2)) = add32 (pc_of s1) 4.
Proof. exact (subSpMinusImmediateT2_step cfg s w s1). Qed.
Print Assumptions C01_subSpMinusImmediateT2_step.
Theorem C01_addSpPlusImmediateT4_step cfg s w s1 :
  ArmV6_fetch_instruction cfg s = Ok w s1 ->
  0 <= w < 2 ^ 32 -> is_sp_pbi_t32 0 0 0 0 w -> iset_of s1 = 1 -> opcode_len s1 = 32 -> ictx cfg s1 -> cond_holds s1 ->
  let d := bits w 11 8 in let imm32 := imm12t w in
  let op := (code_AddSpPlusImmediate, [w; 0; d; imm32]) in
  exists s2,
    dp_sem cfg ADD 0 (Some d) 13 (Op2Imm imm32 0) (begin_instr s1 op) = Ok tt s2 /\
    ArmV6_emulate_cycle cfg s = Ok tt (AdvancePC (it_step_after s1 s2)) /\
    pc_of (AdvancePC (it_step_after s1 s2)) = add32 (pc_of s1) 4.
Proof. exact (addSpPlusImmediateT4_step cfg s w s1). Qed.
Print Assumptions C01_addSpPlusImmediateT4_step.
Theorem C01_subSpMinusImmediateT3_step cfg s w s1 :
  ArmV6_fetch_instruction cfg s = Ok w s1 ->
  0 <= w < 2 ^ 32 -> is_sp_pbi_t32 0 1 0 1 w -> iset_of s1 = 1 -> opcode_len s1 = 32 -> ictx cfg s1 -> cond_holds s1 ->
  let d := bits w 11 8 in let imm32 := imm12t w in
  let op := (code_SubSpMinusImmediate, [w; 0; d; imm32]) in
  exists s2,
    dp_sem cfg SUB 0 (Some d) 13 (Op2Imm imm32 0) (begin_instr s1 op) = Ok tt s2 /\
    ArmV6_emulate_cycle cfg s = Ok tt (AdvancePC (it_step_after s1 s2)) /\
    pc_of (AdvancePC (it_step_after s1 s2)) = add32 (pc_of s1) 4.
Proof. exact (subSpMinusImmediateT3_step cfg s w s1). Qed.
Print Assumptions C01_subSpMinusImmediateT3_step.
Theorem C01_addSpPlusRegisterThumbT3_step cfg s w s1 :
  ArmV6_fetch_instruction cfg s = Ok w s1 ->
  0 <= w < 2 ^ 32 -> is_sp_sr_t32 1 0 0 0 w -> iset_of s1 = 1 -> opcode_len s1 = 32 -> ictx cfg s1 -> cond_holds s1 ->
  let d := bits w 11 8 in let m := bits w 3 0 in
  let sh := DecodeImmShift (bits w 5 4) (imm5t w) in
  let op := (code_AddSpPlusRegisterThumb, [w; bit w 20; m; d; fst sh; snd sh]) in
  exists s2,
    dp_sem cfg ADD (bit w 20) (Some d) 13 (Op2Reg m (fst sh) (snd sh)) (begin_instr s1 op) = Ok tt s2 /\
    ArmV6_emulate_cycle cfg s = Ok tt (AdvancePC (it_step_after s1 s2)) /\
    pc_of (AdvancePC (it_step_after s1 s2)) = add32 (pc_of s1) 4.
Proof. exact (addSpPlusRegisterThumbT3_step cfg s w s1). Qed.
Print Assumptions C01_addSpPlusRegisterThumbT3_step.
Theorem C01_subSpMinusRegisterT1_step cfg s w s1 :
  ArmV6_fetch_instruction cfg s = Ok w s1 ->
  0 <= w < 2 ^ 32 -> is_sp_sr_t32 1 1 0 1 w -> iset_of s1 = 1 -> opcode_len s1 = 32 -> ictx cfg s1 -> cond_holds s1 ->
  let d := bits w 11 8 in let m := bits w 3 0 in
  let sh := DecodeImmShift (bits w 5 4) (imm5t w) in
  let op := (code_SubSpMinusRegister, [w; bit w 20; m; d; fst sh; snd sh]) in
  exists s2,
    dp_sem cfg SUB (bit w 20) (Some d) 13 (Op2Reg m (fst sh) (snd sh)) (begin_instr s1 op) = Ok tt s2 /\
    ArmV6_emulate_cycle cfg s = Ok tt (AdvancePC (it_step_after s1 s2)) /\
    pc_of (AdvancePC (it_step_after s1 s2)) = add32 (pc_of s1) 4.
Proof. exact (subSpMinusRegisterT1_step cfg s w s1). Qed.
Print Assumptions C01_subSpMinusRegisterT1_step.

(* the remaining 16-bit Thumb data-processing encodings: SP-relative ADD / SUB and MOVS Rd, Rm *)
Theorem C01_addSpPlusImmediateT1_step cfg s w s1 :
  ArmV6_fetch_instruction cfg s = Ok w s1 ->
  0 <= w < 2 ^ 16 -> is_add_sp_t1 w -> iset_of s1 = 1 -> opcode_len s1 = 16 -> ictx cfg s1 -> cond_holds s1 ->
  let d := bits w 10 8 in let imm32 := bits w 7 0 * 4 in
  let op := (code_AddSpPlusImmediate, [w; 0; d; imm32]) in
  exists s2,
    dp_sem cfg ADD 0 (Some d) 13 (Op2Imm imm32 0) (begin_instr s1 op) = Ok tt s2 /\
    ArmV6_emulate_cycle cfg s = Ok tt (AdvancePC (it_step_after s1 s2)) /\
    pc_of (AdvancePC (it_step_after s1 s2)) = add32 (pc_of s1) 2.
Proof. exact (addSpPlusImmediateT1_step cfg s w s1). Qed.
Print Assumptions C01_addSpPlusImmediateT1_step.
Theorem C01_addSpPlusImmediateT2_step cfg s w s1 :
  ArmV6_fetch_instruction cfg s = Ok w s1 ->
  0 <= w < 2 ^ 16 -> is_sp_adj_t16 0 w -> iset_of s1 = 1 -> opcode_len s1 = 16 -> ictx cfg s1 -> cond_holds s1 ->
  let imm32 := bits w 6 0 * 4 in
  let op := (code_AddSpPlusImmediate, [w; 0; 13; imm32]) in
  exists s2,
    dp_sem cfg ADD 0 (Some 13) 13 (Op2Imm imm32 0) (begin_instr s1 op) = Ok tt s2 /\
    ArmV6_emulate_cycle cfg s = Ok tt (AdvancePC (it_step_after s1 s2)) /\
    pc_of (AdvancePC (it_step_after s1 s2)) = add32 (pc_of s1) 2.
Proof. exact (addSpPlusImmediateT2_step cfg s w s1). Qed.
Print Assumptions C01_addSpPlusImmediateT2_step.
Theorem C01_subSpMinusImmediateT1_step cfg s w s1 :
  ArmV6_fetch_instruction cfg s = Ok w s1 ->
  0 <= w < 2 ^ 16 -> is_sp_adj_t16 1 w -> iset_of s1 = 1 -> opcode_len s1 = 16 -> ictx cfg s1 -> cond_holds s1 ->
  let imm32 := bits w 6 0 * 4 in
  let op := (code_SubSpMinusImmediate, [w; 0; 13; imm32]) in
  exists s2,
    dp_sem cfg SUB 0 (Some 13) 13 (Op2Imm imm32 0) (begin_instr s1 op) = Ok tt s2 /\
    ArmV6_emulate_cycle cfg s = Ok tt (AdvancePC (it_step_after s1 s2)) /\
    pc_of (AdvancePC (it_step_after s1 s2)) = add32 (pc_of s1) 2.
Proof. exact (subSpMinusImmediateT1_step cfg s w s1). Qed.
Print Assumptions C01_subSpMinusImmediateT1_step.
Theorem C01_addSpPlusRegisterThumbT1_step cfg s w s1 :
  ArmV6_fetch_instruction cfg s = Ok w s1 ->
  0 <= w < 2 ^ 16 -> is_add_special_t16 w -> bits w 6 3 = 13 -> pre_dm_low w = true ->
  iset_of s1 = 1 -> opcode_len s1 = 16 -> ictx cfg s1 -> cond_holds s1 ->
  let dm := bit w 7 * 8 + bits w 2 0 in
  let op := (code_AddSpPlusRegisterThumb, [w; 0; dm; dm; 1; 0]) in
  exists s2,
    dp_sem cfg ADD 0 (Some dm) 13 (Op2Reg dm SRType_LSL 0) (begin_instr s1 op) = Ok tt s2 /\
    ArmV6_emulate_cycle cfg s = Ok tt (AdvancePC (it_step_after s1 s2)) /\
    pc_of (AdvancePC (it_step_after s1 s2)) = add32 (pc_of s1) 2.
Proof. exact (addSpPlusRegisterThumbT1_step cfg s w s1). Qed.
Print Assumptions C01_addSpPlusRegisterThumbT1_step.
Theorem C01_addSpPlusRegisterThumbT2_step cfg s w s1 :
  ArmV6_fetch_instruction cfg s = Ok w s1 ->
  0 <= w < 2 ^ 16 -> is_add_special_t16 w -> bit w 7 = 1 -> bits w 2 0 = 5 -> pre_rm63_low w = true ->
  iset_of s1 = 1 -> opcode_len s1 = 16 -> ictx cfg s1 -> cond_holds s1 ->
  let m := bits w 6 3 in
  let op := (code_AddSpPlusRegisterThumb, [w; 0; m; 13; 1; 0]) in
  exists s2,
    dp_sem cfg ADD 0 (Some 13) 13 (Op2Reg m SRType_LSL 0) (begin_instr s1 op) = Ok tt s2 /\
    ArmV6_emulate_cycle cfg s = Ok tt (AdvancePC (it_step_after s1 s2)) /\
    pc_of (AdvancePC (it_step_after s1 s2)) = add32 (pc_of s1) 2.
Proof. exact (addSpPlusRegisterThumbT2_step cfg s w s1). Qed.
Print Assumptions C01_addSpPlusRegisterThumbT2_step.
Theorem C01_movRegisterThumbT2_step cfg s w s1 :
  ArmV6_fetch_instruction cfg s = Ok w s1 ->
  0 <= w < 2 ^ 16 -> is_movs_t2 w -> in_it s1 = false -> iset_of s1 = 1 -> opcode_len s1 = 16 -> ictx cfg s1 -> cond_holds s1 ->
  let d := bits w 2 0 in let m := bits w 5 3 in
  let op := (code_MovRegisterThumb, [w; 1; m; d]) in
  exists s2,
    dp_sem cfg MOV 1 (Some d) 0 (Op2Plain m) (begin_instr s1 op) = Ok tt s2 /\
    ArmV6_emulate_cycle cfg s = Ok tt (AdvancePC (it_step_after s1 s2)) /\
    pc_of (AdvancePC (it_step_after s1 s2)) = add32 (pc_of s1) 2.
Proof. exact (movRegisterThumbT2_step cfg s w s1). Qed.
Print Assumptions C01_movRegisterThumbT2_step.
