(* Props/C12hints.v — C12: SETEND, CPS (ARM and Thumb), ERET, and the hint / event instructions NOP, CLREX, YIELD, SEV, WFE, WFI,
   each equal to Spec/StatusAccess.v: CPS changes the selected masks and mode only through CPSRWriteByInstr and nothing in User
   mode; SETEND writes CPSR.E only; WFE/WFI touch only the event register and the wait flags; NOP/CLREX change nothing; YIELD and
   SEV stop at the emulator's not-implemented stubs with the state untouched.  Statements only; proofs in Proofs/HintProofs.v. *)
From Coq Require Import ZArith Bool List.
From ArmV Require Import Lib.PyZ Lib.Monad Lib.Machine Spec.Pseudocode Spec.Arch Spec.DPSem Spec.MachineView Spec.Exceptions Spec.BlockFamily
  Spec.Return Spec.StatusAccess Proofs.StateLemmas Proofs.CondProofs Proofs.GuardProofs Proofs.BankProofs Proofs.MachineOps Proofs.DPLemmas
  Proofs.ReturnProofs Proofs.HintProofs.
From Gen Require Import enums core exec.
Import ListNotations.
Open Scope Z_scope.

Theorem C12_Nop instr s : Nop_execute instr s = Ok tt s.
Proof. exact (Nop_ok instr s). Qed.
Print Assumptions C12_Nop.
Theorem C12_Clrex cfg instr s : Clrex_execute cfg instr s = Ok tt s.
Proof. exact (Clrex_ok cfg instr s). Qed.
Print Assumptions C12_Clrex.
Theorem C12_Yield instr s : cond_holds s -> Yield_execute instr s = Exc ENotImpl s.
Proof. exact (Yield_ok instr s). Qed.
Print Assumptions C12_Yield.
Theorem C12_Sev instr s : cond_holds s -> Sev_execute instr s = Exc ENotImpl s.
Proof. exact (Sev_ok instr s). Qed.
Print Assumptions C12_Sev.
Theorem C12_Setend cfg instr set_bigend s : ictx cfg s -> 0 <= set_bigend <= 1 -> Setend_execute instr set_bigend s = Ok tt (SETEND s set_bigend).
Proof. exact (Setend_ok cfg instr set_bigend s). Qed.
Print Assumptions C12_Setend.
Theorem C12_Wfe cfg instr s : cond_holds s -> have_virt cfg = 0 -> Wfe_execute cfg instr s = Ok tt (WFE s).
Proof. exact (Wfe_ok cfg instr s). Qed.
Print Assumptions C12_Wfe.
Theorem C12_Wfi cfg instr s : cond_holds s -> have_virt cfg = 0 -> Wfi_execute cfg instr s = Ok tt (WFI s).
Proof. exact (Wfi_ok cfg instr s). Qed.
Print Assumptions C12_Wfi.
Theorem C12_Eret cfg instr s : ictx cfg s -> cond_holds s -> mode_of s <> 16 -> mode_of s <> 31 -> iset_of s <> 3 ->
  word (getl (sys s) slot_elr_hyp) -> ret_ok cfg s ->
  Eret_execute cfg instr s = Ok tt (ERET (cfg_jazelle_accepts_execution cfg) (have_sec cfg) (have_virt cfg) s).
Proof. exact (Eret_ok cfg instr s). Qed.
Print Assumptions C12_Eret.
Theorem C12_CpsArm cfg instr a i f en dis cm mode s : ictx cfg s -> 0 <= mode < 32 ->
  CpsArm_execute cfg instr a i f en dis cm mode s = Ok tt (CPS (sysctx_of cfg s) s a i f en dis cm mode).
Proof. exact (CpsArm_ok cfg instr a i f en dis cm mode s). Qed.
Print Assumptions C12_CpsArm.
Theorem C12_CpsThumb cfg instr a i f en dis cm mode s : ictx cfg s -> 0 <= mode < 32 ->
  CpsThumb_execute cfg instr a i f en dis cm mode s = Ok tt (CPS (sysctx_of cfg s) s a i f en dis cm mode).
Proof. exact (CpsThumb_ok cfg instr a i f en dis cm mode s). Qed.
Print Assumptions C12_CpsThumb.
