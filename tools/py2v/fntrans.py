"""Per-function translation: statements -> computation IR (expressions are in exprtrans.py)."""
import ast
from front import Unsupported
from ir import *
import trans as T
from exprtrans import ExprMixin


class FnTranslator(ExprMixin):
    def __init__(self, tr, ctx, variant):
        self.tr = tr
        self.prog = tr.prog
        self.ctx = ctx
        self.fi = ctx.fi
        self.out = ctx.out
        self.variant = variant
        self.mod = ctx.fi.mod
        self.knames = 0

    def uns(self, msg, node=None):
        return Unsupported(msg, node, self.mod.path)

    # ------------------------------------------------------------------ entry
    def run(self):
        fi, ctx, out = self.fi, self.ctx, self.out
        node = fi.node
        args = node.args
        if args.vararg or args.kwarg or args.kwonlyargs or args.posonlyargs:
            raise self.uns('unsupported parameter kinds', node)
        names = [a.arg for a in args.args]
        defaults = {}
        for a, d in zip(reversed(args.args), reversed(args.defaults)):
            defaults[a.arg] = d
        env = T.Env(ctx)
        kind = ctx.kind
        params = []
        pnames = list(names)
        if kind in ('regmethod', 'registers', 'armv6', 'hub', 'ram', 'execute', 'opmethod', 'excmethod'):
            if not names or names[0] != 'self':
                raise self.uns('method without self', node)
            ctx.self_name = 'self'
            pnames = names[1:]
        if kind == 'regmethod':
            env.vars['self'] = T.Var('v_self', T.TReg(fi.cls.name, ('self',)))
            params.append(('v_self', T.TZ))
        elif kind in ('registers',):
            env.vars['self'] = T.Var(None, T.TObj('Registers'), alias=True)
            out.state = 'machine'
        elif kind == 'armv6':
            env.vars['self'] = T.Var(None, T.TObj('ArmV6'), alias=True)
            out.state = 'machine'
        elif kind == 'hub':
            env.vars['self'] = T.Var(None, T.TObj('MemoryControllerHub'), alias=True)
            out.state = 'hub'
        elif kind == 'ram':
            env.vars['self'] = T.Var(None, T.TObj('RAM'), alias=True)
            out.state = 'ram'
        elif kind in ('execute', 'opmethod'):
            absname = None
            for c in fi.cls.mro(self.prog):
                if c.name in self.tr.opcode_classes:
                    absname = c.name
                    break
            if absname is None:
                raise self.uns('opcode method outside an abstract opcode class', node)
            fields = self.tr.opcode_classes[absname][1]
            ctx.opcode_fields = fields
            ctx.opcode_class = absname
            env.vars['self'] = T.Var(None, ('opself', absname), alias=True)
            for f in fields:
                params.append((f'f_{f}', T.TZ))
            out.state = 'machine' if kind == 'execute' else None
        elif kind == 'excmethod':
            env.vars['self'] = T.Var(None, ('excself',), alias=True)
            params.append(('e_abort_type', T.TZ))
            params.append(('e_is_second_stage', T.TZ))
        if kind in ('execute', 'from_bitarray'):
            out.state = 'machine'
        for p in pnames:
            ty = self.param_type(p, kind)
            if ty[0] == 'obj':
                env.vars[p] = T.Var(None, ty, alias=True)
                ctx.proc_name = p
                out.state = 'machine'
                continue
            if ty == T.TEXN:
                env.vars[p] = T.Var('v_' + p, ty)
                params.append(('v_' + p, ty))
                continue
            if ty[0] == 'tup' and p == 'memaddrdesc_size':
                pass
            env.vars[p] = T.Var('v_' + p, ty)
            params.append(('v_' + p, ty))
        out.param_names = pnames
        out.defaults = defaults
        if kind == 'regmethod' and self.variant in ('int', 'slice'):
            # partial evaluation of AbstractRegister.__getitem__/__setitem__
            ctx.partial['isinstance(item, int)'] = (self.variant == 'int')
            if self.variant == 'slice':
                # item.start / item.stop become parameters
                idx = [i for i, (n, _) in enumerate(params) if n == 'v_item'][0]
                params[idx:idx + 1] = [('v_item_start', T.TZ), ('v_item_stop', T.TZ)]
                ctx.subst['item.start'] = 'v_item_start'
                ctx.subst['item.stop'] = 'v_item_stop'
                del env.vars['item']
        out.params = params
        body = node.body
        if body and isinstance(body[0], ast.Expr) and isinstance(body[0].value, ast.Constant) and \
                isinstance(body[0].value.value, str):
            body = body[1:]
        self.mutated_self = False

        def k_end(env2):
            return self.mk_ret('tt', T.TNONE, env2)

        c = self.stmts(body, env, k_end, live_out=set())
        # return type
        rt = None
        for t in ctx.ret_types:
            rt = T.join_type(rt, t, node)
        if rt is None or rt == T.TNONE:
            rt = T.TUNIT
        out.rettype = rt
        c = self.coerce_rets(c, rt)
        out.level = c.level
        if out.level == 2 and out.state is None:
            raise self.uns('stateful code in a stateless context', node)
        if out.level < 2:
            out.state = None
        out.mutates_self = self.mutated_self
        out.ro = is_ro(c)
        self.emit(c)

    def param_type(self, p, kind):
        node = self.fi.node
        ann = None
        for a in node.args.args:
            if a.arg == p and a.annotation is not None:
                ann = T.unparse(a.annotation)
        if p == 'processor':
            return T.TObj('ArmV6')
        table = {'perms': T.TRec('Permissions'), 'memaddrdesc': T.TRec('AddressDescriptor'),
                 's1desc': T.TRec('AddressDescriptor'), 's2desc': T.TRec('AddressDescriptor'),
                 's1_out_addr_desc': T.TRec('AddressDescriptor'), 'paddress': T.TRec('FullAddress'),
                 'dabort_exception': T.TEXN, 'opcode': T.TOpt(T.TOPC),
                 'memaddrdesc_size': T.TTup([T.TRec('AddressDescriptor'), T.TZ]),
                 'address_size': T.TTup([T.TZ, T.TZ])}
        if ann in T.RECORD_CLASSES:
            return T.TRec(ann)
        if self.ctx.kind == 'ram' and p == 'value':
            return T.TBYTES
        if self.fi.mod.name == 'memory_controller_hub' and p == 'bytes_':
            return T.TBYTES
        if p in table:
            return table[p]
        return T.TZ

    # ------------------------------------------------------------------ returns
    def mk_ret(self, term, ty, env):
        """the function's result; for register methods that mutated self the result is the new value"""
        if self.ctx.kind == 'regmethod' and self.mutated_self:
            if ty not in (T.TNONE, T.TUNIT):
                raise self.uns('register method both mutates self and returns a value')
            v = env.vars['self']
            self.ctx.ret_types.append(T.TZ)
            r = Ret(v.coq)
            r.ty = T.TZ
            return r
        self.ctx.ret_types.append(ty)
        r = Ret(term)
        r.ty = ty
        return r

    def coerce_rets(self, c, rt):
        """post-pass: coerce every function-level Ret to the joined return type"""
        def go(c, top):
            if isinstance(c, Ret):
                if top and hasattr(c, 'ty'):
                    c.term = T.coerce_term(c.term, c.ty, rt)
                return
            if isinstance(c, Let):
                go(c.body, top)
            elif isinstance(c, Bind):
                go(c.c2, top)
                # c1 is an inner computation: its Rets are not function results, except
                # when built by value-joins, which never contain function-level returns
            elif isinstance(c, If):
                go(c.a, top); go(c.b, top)
            elif isinstance(c, MatchOpt):
                go(c.csome, top); go(c.cnone, top)
            elif isinstance(c, MatchSum):
                go(c.cl, top); go(c.cr, top)
            elif isinstance(c, LetK):
                go(c.kbody, top); go(c.body, top)
            elif isinstance(c, TryElse):
                go(c.handler, top); go(c.orelse, top)
            elif isinstance(c, Catch):
                go(c.body, top); go(c.handler, top)
        go(c, True)
        return c

    # ------------------------------------------------------------------ emission
    def emit(self, c):
        out = self.out
        params = []
        if self.cfg_used(c):
            out.uses_cfg = True
        if out.uses_cfg:
            params.append('(cfg : config)')
        for (n, t) in out.params:
            params.append(f'({n} : {T.coq_type(t)})')
        rt = T.coq_type(out.rettype)
        if out.level == 0:
            full = rt
        elif out.level == 1:
            full = f'res {rt}'
        else:
            full = f'M {T.STATE_TYPE[out.state]} {rt}'
        body = render(c, out.level)
        src = self.fi.src().replace('(*', '( *').replace('*)', '* )')
        out.text = (f'(* {out.pyname}  [{self.mod.path.split("/armulator/")[-1]}:{self.fi.node.lineno}]\n'
                    f'{src}\n*)\nDefinition {out.coqname} {" ".join(params)} : {full} :=\n{body}.\n')

    def cfg_used(self, c):
        return getattr(self, '_cfg_used', False)

    def use_cfg(self):
        self._cfg_used = True

    # ------------------------------------------------------------------ statements
    def stmts(self, sts, env, k, live_out):
        """translate statement list then continue with k(env)"""
        if not sts:
            return k(env)
        st, rest = sts[0], sts[1:]
        live_rest = T.loaded_names(rest) | live_out

        def k_rest(env2):
            return self.stmts(rest, env2, k, live_out)

        return self.stmt(st, env, k_rest, live_rest, rest_terminates=False)

    def wrap_pre(self, pre, c):
        for (pat, comp) in reversed(pre):
            c = Bind(pat, comp, c)
        return c

    def stmt(self, st, env, k, live, rest_terminates):
        if isinstance(st, ast.Pass):
            return k(env)
        if isinstance(st, ast.Expr):
            v = st.value
            if isinstance(v, ast.Constant):
                return k(env)
            if isinstance(v, ast.Call) and isinstance(v.func, ast.Name) and v.func.id == 'print':
                return k(env)
            pre, term, ty = self.expr(v, env)
            env2 = self.after_effects(env)
            return self.wrap_pre(pre, k(env2))
        if isinstance(st, ast.Return):
            if st.value is None:
                return self.mk_ret('tt', T.TNONE, env)
            pre, term, ty = self.expr(st.value, env)
            if ty[0] in ('reg', 'obj', 'mod'):
                raise self.uns('returning an object reference', st)
            return self.wrap_pre(pre, self.mk_ret(term, ty, env))
        if isinstance(st, ast.Raise):
            return self.raise_stmt(st, env)
        if isinstance(st, ast.Assert):
            pre, b = self.cond(st.test, env)
            return self.wrap_pre(pre, Bind('_', Prim(f'eassert {paren(b)}', 1), k(env)))
        if isinstance(st, ast.Assign):
            if len(st.targets) != 1:
                raise self.uns('chained assignment', st)
            return self.assign(st.targets[0], st.value, env, k, st)
        if isinstance(st, ast.AugAssign):
            binop = ast.BinOp(left=self.as_load(st.target), op=st.op, right=st.value)
            ast.copy_location(binop, st)
            return self.assign(st.target, binop, env, k, st)
        if isinstance(st, ast.If):
            return self.if_stmt(st, env, k, live)
        if isinstance(st, ast.For):
            return self.for_stmt(st, env, k, live)
        if isinstance(st, ast.While):
            return self.while_stmt(st, env, k, live)
        if isinstance(st, ast.Try):
            return self.try_stmt(st, env, k, live)
        raise self.uns(f'statement {type(st).__name__}', st)

    def after_effects(self, env):
        return env

    def as_load(self, t):
        n = ast.parse(T.unparse(t), mode='eval').body
        for x in ast.walk(n):
            if hasattr(t, 'lineno'):
                x.lineno = t.lineno
        return n

    def raise_stmt(self, st, env):
        e = st.exc
        if e is None:
            raise self.uns('bare raise', st)
        name = None
        args = []
        if isinstance(e, ast.Call) and isinstance(e.func, ast.Name):
            name, args = e.func.id, e.args
        elif isinstance(e, ast.Name):
            name = e.id
        if name in T.EXN_CLASSES:
            return Raise(T.EXN_CLASSES[name], 1)
        if name == 'DataAbortException':
            if len(args) != 2:
                raise self.uns('DataAbortException arity', st)
            pre1, t1, _ = self.expr(args[0], env)
            pre2, t2, _ = self.expr(args[1], env)
            return self.wrap_pre(pre1 + pre2, Raise(f'EDataAbort {paren(t1)} {paren(t2)}', 1))
        if name == 'AttributeError':
            return Raise('EHost HNone', 1)
        raise self.uns(f'raise of {T.unparse(e)}', st)

    # ---------------- assignment
    def assign(self, target, value, env, k, st):
        # tuple unpacking
        if isinstance(target, (ast.Tuple, ast.List)):
            if isinstance(value, ast.Tuple) and len(value.elts) == len(target.elts):
                # a, b = x, y : evaluate all then bind
                pres, terms, tys = [], [], []
                for v in value.elts:
                    p, t, ty = self.expr(v, env)
                    pres += p; terms.append(t); tys.append(ty)
                env2 = env.copy()
                c_bind = []
                tmp = [self.ctx.fresh('u') for _ in terms]
                for tv, t in zip(tmp, terms):
                    c_bind.append((tv, t))
                for tg, tv, ty in zip(target.elts, tmp, tys):
                    if not isinstance(tg, ast.Name):
                        raise self.uns('tuple target', st)
                    env2.vars[tg.id] = T.Var('v_' + tg.id, ty)
                body = k(env2)
                for tg, tv in reversed(list(zip(target.elts, tmp))):
                    body = Let('v_' + tg.id, tv, body)
                for tv, t in reversed(c_bind):
                    body = Let(tv, t, body)
                return self.wrap_pre(pres, body)
            pre, term, ty = self.expr(value, env)
            if ty in (T.TUNIT, T.TNONE, T.TZ):
                # unpacking a non-iterable: TypeError
                env2 = env.copy()
                body_names = []
                for tg in target.elts:
                    if not isinstance(tg, ast.Name):
                        raise self.uns('tuple target', st)
                    env2.vars[tg.id] = T.Var('v_' + tg.id, T.TZ)
                    body_names.append('v_' + tg.id)
                c = k(env2)
                for nm in body_names:
                    c = Let(nm, '0', c)
                return self.wrap_pre(pre, Bind('_', Raise('EHost HType', 1), c))
            if ty[0] != 'tup' or len(ty[1]) != len(target.elts):
                raise self.uns(f'unpacking non-tuple {ty}', st)
            env2 = env.copy()
            names = []
            for tg, t1 in zip(target.elts, ty[1]):
                if not isinstance(tg, ast.Name):
                    raise self.uns('tuple target', st)
                env2.vars[tg.id] = T.Var('v_' + tg.id, t1)
                names.append('v_' + tg.id)
            return self.wrap_pre(pre, Let('(' + ', '.join(names) + ')', term, k(env2)))
        if isinstance(target, ast.Name):
            pre, term, ty = self.expr(value, env)
            env2 = env.copy()
            if ty[0] in ('reg', 'devref') and ty[0] == 'reg':
                env2.vars[target.id] = T.Var(None, ty, alias=True)
                return self.wrap_pre(pre, k(env2))
            if ty[0] in ('obj', 'mod'):
                raise self.uns('binding an object to a local', st)
            if ty == T.TNONE:
                raise self.uns('assigning None to a local', st)
            env2.vars[target.id] = T.Var('v_' + target.id, ty)
            return self.wrap_pre(pre, Let('v_' + target.id, term, k(env2)))
        if isinstance(target, (ast.Attribute, ast.Subscript)):
            return self.assign_place(target, value, env, k, st)
        raise self.uns('assignment target', st)

    # ---------------- if
    def if_stmt(self, st, env, k, live):
        # partial evaluation (isinstance in AbstractRegister)
        key = T.unparse(st.test)
        if key in self.ctx.partial:
            return self.stmts(st.body if self.ctx.partial[key] else st.orelse, env,
                              k, live) if (st.body if self.ctx.partial[key] else st.orelse) else k(env)
        pre, b = self.cond(st.test, env)
        nar = self.narrowing(st.test, env)
        if nar:
            return self.wrap_pre(pre, self.if_narrowed(st, b, nar, env, k, live))
        ta = T.always_terminates(st.body)
        tb = T.always_terminates(st.orelse) if st.orelse else False
        if ta and tb:
            ca = self.stmts(st.body, env.copy(), lambda e: self.unreachable(), live)
            cb = self.stmts(st.orelse, env.copy(), lambda e: self.unreachable(), live)
            return self.wrap_pre(pre, If(b, ca, cb))
        if ta:
            ca = self.stmts(st.body, env.copy(), lambda e: self.unreachable(), live)
            cb = self.stmts(st.orelse, env.copy(), k, live)
            return self.wrap_pre(pre, If(b, ca, cb))
        if tb:
            ca = self.stmts(st.body, env.copy(), k, live)
            cb = self.stmts(st.orelse, env.copy(), lambda e: self.unreachable(), live)
            return self.wrap_pre(pre, If(b, ca, cb))
        # both branches may fall through: join
        assigned = T.assigned_names(st.body + st.orelse)
        jvars = [v for v in assigned if v in live or v == 'self']
        if self.ctx.kind == 'regmethod' and self.writes_self(st.body + st.orelse):
            if 'self' not in jvars:
                jvars.append('self')
        jvars = [v for v in jvars if not (v in env.vars and env.vars[v].alias and v != 'self')]
        if 'self' in jvars and self.ctx.kind != 'regmethod':
            jvars.remove('self')
        use_k = T.contains_return(st.body + st.orelse)
        # translate both branches, capturing their final envs
        ends = []

        def cap(e):
            ends.append(e)
            return Hole(len(ends) - 1)

        if use_k:
            return self.wrap_pre(pre, self.join_with_k(st, b, env, k, live, jvars))
        mutated_before = self.mutated_self
        ca = self.stmts(st.body, env.copy(), cap, live)
        cb = self.stmts(st.orelse, env.copy(), cap, live) if st.orelse else cap(env.copy())
        # compute join variable types / optionality
        jinfo = self.join_info(jvars, env, ends, st)
        tuple_terms = []
        for e in ends:
            tuple_terms.append(self.join_tuple(jinfo, e, st))
        pat = self.join_pat(jinfo)
        ca = self.fill_holes(ca, tuple_terms)
        cb = self.fill_holes(cb, tuple_terms)
        env2 = env.copy()
        # aliases defined in exactly both branches are not supported; keep env
        for (v, ty, opt) in jinfo:
            env2.vars[v] = T.Var('v_' + v if v != 'self' else 'v_self', ty if v != 'self' else env.vars['self'].ty,
                                 optional=opt)
        if not jinfo:
            inner = If(b, ca, cb)
            if inner.level == 0:
                # no effects, no joined variables: dead code (only prints)
                return self.wrap_pre(pre, k(env2))
            return self.wrap_pre(pre, Bind('_', inner, k(env2)))
        return self.wrap_pre(pre, Bind(pat, If(b, ca, cb), k(env2)))

    def narrowing(self, test, env):
        """`if x is not None` / `if x is None` / `if x` / `if not x` on an option-typed local"""
        def optvar(n):
            return isinstance(n, ast.Name) and n.id in env.vars and not env.vars[n.id].alias and \
                not env.vars[n.id].optional and env.vars[n.id].ty[0] == 'opt'
        if isinstance(test, ast.Compare) and len(test.ops) == 1 and optvar(test.left) and \
                isinstance(test.comparators[0], ast.Constant) and test.comparators[0].value is None:
            if isinstance(test.ops[0], ast.IsNot):
                return (test.left.id, 'body')
            if isinstance(test.ops[0], ast.Is):
                return (test.left.id, 'else')
        if optvar(test):
            return (test.id, 'body')
        if isinstance(test, ast.UnaryOp) and isinstance(test.op, ast.Not) and optvar(test.operand):
            return (test.operand.id, 'else')
        return None

    def default_of(self, ty):
        if ty in (T.TZ, T.TCCLS, T.TDevRef()):
            return '0'
        if ty == T.TOPC:
            return '(0, [])'
        if ty[0] == 'rec':
            return 'new_' + ty[1]
        if ty == T.TBYTES:
            return '[]'
        raise self.uns(f'no default for {ty}')

    def if_narrowed(self, st, b, nar, env, k, live):
        var, which = nar
        v = env.vars[var]
        inner = v.ty[1]
        nenv = env.copy()
        nenv.vars[var] = T.Var(v.coq, inner)
        fake = ast.If(test=ast.Constant(value=True), body=st.body, orelse=st.orelse)
        ast.copy_location(fake, st)
        # translate as an ordinary if whose condition is already computed, with one branch narrowed
        body_env = nenv if which == 'body' else env
        else_env = nenv if which == 'else' else env
        narrow_let = lambda c: Let(v.coq, f'unsome {self.default_of(inner)} {v.coq}', c)  # noqa: E731
        return self.if_core(st, b, body_env, else_env, env, k, live,
                            wrap_body=narrow_let if which == 'body' else None,
                            wrap_else=narrow_let if which == 'else' else None)

    def if_core(self, st, b, benv, eenv, env, k, live, wrap_body=None, wrap_else=None):
        wb = wrap_body or (lambda c: c)
        we = wrap_else or (lambda c: c)
        ta = T.always_terminates(st.body)
        tb = T.always_terminates(st.orelse) if st.orelse else False
        if ta and tb:
            return If(b, wb(self.stmts(st.body, benv.copy(), lambda e: self.unreachable(), live)),
                      we(self.stmts(st.orelse, eenv.copy(), lambda e: self.unreachable(), live)))
        if ta:
            return If(b, wb(self.stmts(st.body, benv.copy(), lambda e: self.unreachable(), live)),
                      we(self.stmts(st.orelse, eenv.copy(), k, live)))
        if tb:
            return If(b, wb(self.stmts(st.body, benv.copy(), k, live)),
                      we(self.stmts(st.orelse, eenv.copy(), lambda e: self.unreachable(), live)))
        if T.contains_return(st.body + st.orelse):
            raise self.uns('narrowing if with early return and fall-through', st)
        assigned = T.assigned_names(st.body + st.orelse)
        jvars = [v for v in assigned if v in live]
        jvars = [v for v in jvars if not (v in env.vars and env.vars[v].alias)]
        ends = []

        def cap(e):
            ends.append(e)
            return Hole(len(ends) - 1)

        ca = self.stmts(st.body, benv.copy(), cap, live)
        cb = self.stmts(st.orelse, eenv.copy(), cap, live) if st.orelse else cap(eenv.copy())
        jinfo = self.join_info(jvars, env, ends, st)
        terms = [self.join_tuple(jinfo, e, st) for e in ends]
        ca = wb(self.fill_holes(ca, terms))
        cb = we(self.fill_holes(cb, terms))
        env2 = env.copy()
        for (v, ty, opt) in jinfo:
            env2.vars[v] = T.Var('v_' + v, ty, optional=opt)
        if not jinfo:
            inner = If(b, ca, cb)
            if inner.level == 0:
                return k(env2)
            return Bind('_', inner, k(env2))
        return Bind(self.join_pat(jinfo), If(b, ca, cb), k(env2))

    def writes_self(self, stmts):
        for st in stmts:
            for n in ast.walk(st):
                if isinstance(n, (ast.Assign, ast.AugAssign)):
                    tg = n.targets if isinstance(n, ast.Assign) else [n.target]
                    for t in tg:
                        b = t
                        while isinstance(b, (ast.Attribute, ast.Subscript)):
                            b = b.value
                        if isinstance(b, ast.Name) and b.id == 'self' and not isinstance(t, ast.Name):
                            return True
                if isinstance(n, ast.Call) and isinstance(n.func, ast.Attribute) and \
                        isinstance(n.func.value, ast.Name) and n.func.value.id == 'self' and \
                        n.func.attr.startswith(('_set', 'set_')):
                    return True
        return False

    def unreachable(self):
        # continuation after a block that always terminates: never rendered
        return Raise('EHost HAssert', 1)

    def join_info(self, jvars, env, ends, node):
        info = []
        for v in jvars:
            ty = None
            opt = False
            for e in ends:
                if v in e.vars and not e.vars[v].alias:
                    ty = T.join_type(ty, e.vars[v].ty, node)
                    opt = opt or e.vars[v].optional
                elif v in e.vars and e.vars[v].alias and v == 'self':
                    ty = T.TZ
                else:
                    opt = True
            if ty is None:
                continue
            if v == 'self':
                ty = T.TZ
                opt = False
            info.append((v, ty, opt))
        return info

    def join_tuple(self, jinfo, e, node):
        parts = []
        for (v, ty, opt) in jinfo:
            if v == 'self':
                parts.append(e.vars['self'].coq)
                continue
            if v in e.vars and not e.vars[v].alias:
                var = e.vars[v]
                t = T.coerce_term(var.coq, var.ty, ty, node) if not var.optional else var.coq
                if var.optional and var.ty != ty:
                    raise self.uns('join of optional variable with type change', node)
                if opt and not var.optional:
                    t = f'(Some {paren(t)})'
                parts.append(t)
            else:
                parts.append('None')
        if not parts:
            return 'tt'
        if len(parts) == 1:
            return parts[0]
        return '(' + ', '.join(parts) + ')'

    def join_pat(self, jinfo):
        names = [('v_' + v) if v != 'self' else 'v_self' for (v, _, _) in jinfo]
        if not names:
            return '_'
        if len(names) == 1:
            return names[0]
        return '(' + ', '.join(names) + ')'

    def fill_holes(self, c, terms):
        if isinstance(c, Hole):
            return Ret(terms[c.idx])
        if isinstance(c, Let):
            c.body = self.fill_holes(c.body, terms); c.level = c.body.level
        elif isinstance(c, Bind):
            c.c2 = self.fill_holes(c.c2, terms); c.level = max(c.c1.level, c.c2.level)
        elif isinstance(c, If):
            c.a = self.fill_holes(c.a, terms); c.b = self.fill_holes(c.b, terms)
            c.level = max(c.a.level, c.b.level)
        elif isinstance(c, MatchOpt):
            c.csome = self.fill_holes(c.csome, terms); c.cnone = self.fill_holes(c.cnone, terms)
            c.level = max(c.csome.level, c.cnone.level)
        elif isinstance(c, MatchSum):
            c.cl = self.fill_holes(c.cl, terms); c.cr = self.fill_holes(c.cr, terms)
            c.level = max(c.cl.level, c.cr.level)
        elif isinstance(c, TryElse):
            c.handler = self.fill_holes(c.handler, terms); c.orelse = self.fill_holes(c.orelse, terms)
            c.level = max(2, c.body.level, c.handler.level, c.orelse.level)
        elif isinstance(c, LetK):
            c.kbody = self.fill_holes(c.kbody, terms); c.body = self.fill_holes(c.body, terms)
            c.level = max(c.kbody.level, c.body.level)
        return c

    def join_with_k(self, st, b, env, k, live, jvars):
        """if-statement whose branches may return early: local continuation"""
        # Variables must be definitely assigned or pre-existing for simplicity.
        self.knames += 1
        kname = f'k_{self.knames}'
        ends = []

        def cap(e):
            ends.append(e)
            return Hole(len(ends) - 1)

        ca = self.stmts(st.body, env.copy(), cap, live)
        cb = self.stmts(st.orelse, env.copy(), cap, live) if st.orelse else cap(env.copy())
        jinfo = self.join_info(jvars, env, ends, st)
        env2 = env.copy()
        for (v, ty, opt) in jinfo:
            env2.vars[v] = T.Var('v_' + v if v != 'self' else 'v_self', ty if v != 'self' else env.vars['self'].ty,
                                 optional=opt)
        kbody = k(env2)
        pat = self.join_pat(jinfo)
        if pat == '_':
            pat = '_u'
        holder = LetK(kname, pat, kbody, Ret('tt'))
        terms = [AppK(kname, self.join_tuple(jinfo, e, st), kbody) for e in ends]

        def fill(c):
            if isinstance(c, Hole):
                return terms[c.idx]
            if isinstance(c, Let):
                c.body = fill(c.body); c.level = c.body.level
            elif isinstance(c, Bind):
                c.c2 = fill(c.c2); c.level = max(c.c1.level, c.c2.level)
            elif isinstance(c, If):
                c.a = fill(c.a); c.b = fill(c.b); c.level = max(c.a.level, c.b.level)
            elif isinstance(c, MatchOpt):
                c.csome = fill(c.csome); c.cnone = fill(c.cnone); c.level = max(c.csome.level, c.cnone.level)
            elif isinstance(c, MatchSum):
                c.cl = fill(c.cl); c.cr = fill(c.cr); c.level = max(c.cl.level, c.cr.level)
            elif isinstance(c, TryElse):
                c.handler = fill(c.handler); c.orelse = fill(c.orelse)
                c.level = max(2, c.body.level, c.handler.level, c.orelse.level)
            elif isinstance(c, LetK):
                c.kbody = fill(c.kbody); c.body = fill(c.body); c.level = max(c.kbody.level, c.body.level)
            return c

        ca = fill(ca)
        cb = fill(cb)
        holder.body = If(b, ca, cb)
        holder.level = max(kbody.level, holder.body.level)
        return holder

    # ---------------- for
    def for_stmt(self, st, env, k, live):
        if st.orelse:
            raise self.uns('for-else', st)
        it = st.iter
        devloop = False
        if isinstance(it, ast.Call) and isinstance(it.func, ast.Name) and it.func.id == 'range':
            pres, ts = [], []
            for a in it.args:
                p, t, ty = self.expr(a, env)
                pres += p; ts.append(t)
            if len(ts) == 1:
                lst = f'py_range 0 {paren(ts[0])} 1'
            elif len(ts) == 2:
                lst = f'py_range {paren(ts[0])} {paren(ts[1])} 1'
            elif len(ts) == 3:
                lst = f'py_range {paren(ts[0])} {paren(ts[1])} {paren(ts[2])}'
            else:
                raise self.uns('range arity', st)
        elif T.unparse(it) == 'self.memories' and self.ctx.kind == 'hub':
            pres = [('v_nmem', Prim('reads (fun h => Z.of_nat (length h))', 2))]
            lst = 'py_range 0 v_nmem 1'
            devloop = True
        else:
            raise self.uns(f'for over {T.unparse(it)}', st)
        if not isinstance(st.target, ast.Name):
            raise self.uns('for target', st)
        ivar = 'v_' + st.target.id
        assigned = [v for v in T.assigned_names(st.body) if v != st.target.id]
        loop_loaded = T.loaded_names(st.body)
        carried = [v for v in assigned if (v in live or v in loop_loaded)]
        if self.ctx.kind == 'regmethod' and self.writes_self(st.body):
            carried.append('self')
        for v in carried:
            if v != 'self' and (v not in env.vars or env.vars[v].optional):
                # assigned in the loop but not before: only allowed when not read after/around
                if v in live or v in T.loaded_names(st.body):
                    # is it read before being written in the body? accept if body assigns it first
                    pass
        carried = [v for v in carried if v == 'self' or (v in env.vars and not env.vars[v].alias)]
        # variables first assigned inside the loop and used later are unsupported (none in the code base)
        for v in assigned:
            if v not in env.vars and v in live:
                raise self.uns(f'variable {v} first assigned in a loop and used after it', st)
        early = T.contains_return(st.body)
        benv = env.copy()
        benv.vars[st.target.id] = T.Var(ivar, T.TDevRef() if devloop else T.TZ)
        info = [(v, (T.TZ if v == 'self' else env.vars[v].ty), (False if v == 'self' else env.vars[v].optional))
                for v in carried]
        for (v, ty, opt) in info:
            if v != 'self':
                benv.vars[v] = T.Var('v_' + v, ty, optional=opt)
        accpat = self.join_pat(info)
        if accpat == '_':
            accpat = '_a'
        init = self.join_tuple(info, env, st) if info else 'tt'

        if not early:
            def k_body(e):
                return Ret(self.join_tuple(info, e, st) if info else 'tt')
            body = self.stmts(st.body, benv, k_body, live | loop_loaded | set(carried))
            fold = Fold(ivar, accpat, body, lst, init, early=False)
            env2 = env.copy()
            for (v, ty, opt) in info:
                if v != 'self':
                    env2.vars[v] = T.Var('v_' + v, ty, optional=opt)
            if not info and fold.level == 0:
                return self.wrap_pre(pres, k(env2))
            pat = self.join_pat(info)
            return self.wrap_pre(pres, Bind(pat, fold, k(env2)))
        # early return inside the loop body: accumulator is inl result | inr carried
        saved = list(self.ctx.ret_types)

        def k_body(e):
            return Ret('inr ' + paren(self.join_tuple(info, e, st) if info else 'tt'))

        # returns inside the body must produce inl; temporarily redirect mk_ret
        orig_mk_ret = self.mk_ret
        loop_ret_types = []

        def mk_ret_loop(term, ty, e):
            loop_ret_types.append(ty)
            r = Ret(term)
            r.loop_ret = True
            r.ty = ty
            return r

        self.mk_ret = mk_ret_loop
        try:
            body = self.stmts(st.body, benv, k_body, live | loop_loaded | set(carried))
        finally:
            self.mk_ret = orig_mk_ret
        rty = None
        for t in loop_ret_types:
            rty = T.join_type(rty, t, st)

        def fix(c):
            if isinstance(c, Ret):
                if getattr(c, 'loop_ret', False):
                    c.term = 'inl ' + paren(T.coerce_term(c.term, c.ty, rty))
            elif isinstance(c, Let):
                fix(c.body)
            elif isinstance(c, Bind):
                fix(c.c2)
            elif isinstance(c, If):
                fix(c.a); fix(c.b)
            elif isinstance(c, MatchOpt):
                fix(c.csome); fix(c.cnone)
        fix(body)
        fold = Fold(ivar, accpat, body, lst, init, early=True)
        env2 = env.copy()
        for (v, ty, opt) in info:
            if v != 'self':
                env2.vars[v] = T.Var('v_' + v, ty, optional=opt)
        rv = self.ctx.fresh('r')
        pat = self.join_pat(info)
        if pat == '_':
            pat = '_a'
        res = self.ctx.fresh('lr')
        cont = MatchSum(res, rv, self.mk_ret(rv, rty, env2), pat if pat_is_var(pat) else pat, k(env2))
        return self.wrap_pre(pres, Bind(res, fold, cont))

    # ---------------- while (fuel)
    def while_stmt(self, st, env, k, live):
        if st.orelse:
            raise self.uns('while-else', st)
        if T.contains_return(st.body):
            raise self.uns('return inside while', st)
        assigned = T.assigned_names(st.body)
        carried = [v for v in assigned if v in env.vars and not env.vars[v].alias]
        for v in assigned:
            if v not in env.vars and v in live:
                raise self.uns(f'variable {v} first assigned in a while loop and used after it', st)
        info = [(v, env.vars[v].ty, env.vars[v].optional) for v in carried]
        benv = env.copy()
        for (v, ty, opt) in info:
            benv.vars[v] = T.Var('v_' + v, ty, optional=opt)
        accpat = self.join_pat(info)
        if accpat == '_':
            accpat = '_a'
        init = self.join_tuple(info, env, st) if info else 'tt'
        pre, b = self.cond(st.test, benv)
        cond = self.wrap_pre(pre, Ret(b))
        body = self.stmts(st.body, benv, lambda e: Ret(self.join_tuple(info, e, st) if info else 'tt'),
                          live | T.loaded_names([st]))
        env2 = env.copy()
        for (v, ty, opt) in info:
            env2.vars[v] = T.Var('v_' + v, ty, optional=opt)
        w = While(accpat, cond, body, init, 'while_fuel')
        return Bind(self.join_pat(info), w, k(env2))

    # ---------------- try
    def try_stmt(self, st, env, k, live):
        if st.finalbody:
            raise self.uns('try-finally', st)
        simple = (len(st.handlers) == 1 and isinstance(st.handlers[0].type, ast.Name)
                  and st.handlers[0].type.id in T.EXN_PRED)
        if simple and not T.assigned_names(st.body + st.handlers[0].body) and st.handlers[0].name is None:
            h = st.handlers[0]
            pred = T.EXN_PRED[h.type.id]
            body = self.stmts(st.body, env.copy(), lambda e: Ret('tt'), live)
            if T.contains_return(st.body):
                raise self.uns('return inside try body', st)
            # handler and else both continue with k: use a local continuation to avoid duplication
            self.knames += 1
            kname = f'k_{self.knames}'
            kbody = k(env.copy())
            app = AppK(kname, 'tt', kbody)
            hc = self.stmts(h.body, env.copy(), lambda e: app, live)
            oc = self.stmts(st.orelse, env.copy(), lambda e: AppK(kname, 'tt', kbody), live)
            te = TryElse(body, pred, hc, oc)
            return LetK(kname, '_u', kbody, te)
        # general form (emulate_cycle): handlers with code, no else, nothing after that needs locals
        if st.orelse:
            raise self.uns('try with else and complex handlers', st)
        body = self.stmts(st.body, env.copy(), lambda e: Ret('tt'), live)
        if T.contains_return(st.body):
            raise self.uns('return inside try body', st)
        c = body
        # nest: catch (catch body h1) h2 ... is wrong if handlers raise; build one dispatcher instead
        ev = self.ctx.fresh('e')
        disp = Raise(ev, 2)
        for h in reversed(st.handlers):
            if not (isinstance(h.type, ast.Name) and h.type.id in T.EXN_PRED):
                raise self.uns('except clause', h)
            henv = env.copy()
            if h.name:
                henv.vars[h.name] = T.Var(ev, T.TEXN)
            hc = self.stmts(h.body, henv, lambda e: Ret('tt'), live)
            if T.contains_return(h.body):
                raise self.uns('return inside except handler', h)
            disp = If(f'{T.EXN_PRED[h.type.id]} {ev}', hc, disp)
        preds = ' || '.join(f'{T.EXN_PRED[h.type.id]} x' for h in st.handlers)
        cat = Catch(body, f'fun x => {preds}', ev, disp)
        return Bind('_', cat, k(env.copy()))
