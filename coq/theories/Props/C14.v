(* Props/C14.v — C14: PMSA protection.  Statements only; proofs in Proofs/MpuProofs.v (code = Spec/Memory.v),
   Proofs/MemProofs.v (fault reporting) and Proofs/MemFacts.v (consequences of the specification). *)
From Coq Require Import ZArith Bool List.
From ArmV Require Import Lib.PyZ Lib.Monad Lib.Machine Spec.Pseudocode Spec.Arch Spec.MachineView Spec.Hub Spec.Memory
  Proofs.StateLemmas Proofs.BankProofs Proofs.HubProofs Proofs.MemProofs Proofs.MemFacts Proofs.MpuProofs.
From Gen Require Import enums records core.
Import ListNotations.
Open Scope Z_scope.

(* the MPU decision: for every region configuration, address, privilege and direction, translation either returns the flat
   address or takes the Data Abort the specification names, leaving everything but DFSR/DFAR unchanged *)
Theorem C14_translate cfg va priv w wa s n : pmsa cfg -> mpu_ok s n -> word (getl (sys s) 23) -> 0 <= w <= 1 ->
  match PMSA_check s n va (truthy priv) (truthy w) with
  | P_ok => exists d, ArmV6_translate_address_p cfg va priv w wa s = Ok d s /\ pa_of d = va
  | P_abort bg => ArmV6_translate_address_p cfg va priv w wa s
                  = Exc (EDataAbort (if bg then DAbort_BACKGROUND else DAbort_PERMISSION) 0)
                        (pmsa_fault_state s va w (if bg then FS_background else FS_permission))
  end.
Proof. exact (pmsa_translate cfg va priv w wa s n). Qed.
Print Assumptions C14_translate.
Theorem C14_check_permission cfg perms va w priv s : pmsa cfg -> word (getl (sys s) 23) -> 0 <= w <= 1 ->
  0 <= Permissions_ap perms < 8 ->
  ArmV6_check_permission cfg perms va 0 0 w priv 0 0 s =
  if ap_denies (if bit (getl (sys s) 11) 29 =? 1 then insert (Permissions_ap perms) 0 0 1 else Permissions_ap perms)
               (truthy priv) (truthy w)
  then Exc (EDataAbort DAbort_PERMISSION 0) (pmsa_fault_state s va w FS_permission) else Ok tt s.
Proof. exact (check_permission_pmsa cfg perms va w priv s). Qed.
Print Assumptions C14_check_permission.
(* fault reporting: DFAR := address, DFSR<13:0> := WnR and the fault status; then the Data Abort is raised *)
Theorem C14_data_abort cfg va ip dom lvl iswrite dtype tth ssa ipav ldf s2 s :
  pmsa cfg -> sync_dtype dtype -> 0 <= iswrite <= 1 -> word (getl (sys s) 23) ->
  ArmV6_data_abort cfg va ip dom lvl iswrite dtype tth ssa ipav ldf s2 s
  = Exc (EDataAbort dtype ssa) (pmsa_fault_state s va iswrite (fs_of dtype)).
Proof. exact (pmsa_data_abort cfg va ip dom lvl iswrite dtype tth ssa ipav ldf s2 s). Qed.
Print Assumptions C14_data_abort.
Theorem C14_alignment_fault cfg address iswrite s : pmsa cfg -> 0 <= iswrite <= 1 -> word (getl (sys s) 23) ->
  ArmV6_alignment_fault cfg address iswrite s
  = Exc (EDataAbort DAbort_ALIGNMENT 0) (pmsa_fault_state s address iswrite FS_alignment).
Proof. exact (pmsa_alignment_fault cfg address iswrite s). Qed.
Print Assumptions C14_alignment_fault.
(* a denied or misaligned access transfers no data: the outcome of MemA under the MPU, as one function *)
Theorem C14_MemA_read cfg address size priv wa s n : pmsa cfg -> mpu_ok s n -> word (getl (sys s) 23) -> hub_ok (mem s) ->
  valid_size size = true ->
  ArmV6_mem_a_with_priv_get cfg address size priv wa s = MemA_get_mpu (cfg_arch_version cfg) n s address size (truthy priv).
Proof. exact (mem_a_get_mpu cfg address size priv wa s n). Qed.
Print Assumptions C14_MemA_read.
Theorem C14_MemA_write cfg address size priv wa value s n : pmsa cfg -> mpu_ok s n -> word (getl (sys s) 23) ->
  valid_size size = true -> 0 <= value < 2 ^ (8 * size) ->
  ArmV6_mem_a_with_priv_set cfg address size priv wa value s = MemA_set_mpu (cfg_arch_version cfg) n s address size value (truthy priv).
Proof. exact (mem_a_set_mpu cfg address size priv wa value s n). Qed.
Print Assumptions C14_MemA_write.

(* consequences of the specification: the deciding region is the highest-numbered one that hits *)
Theorem C14_highest_region l1 r l2 va : region_hit va r = true -> Forall (fun x => region_hit va x = false) l2 ->
  mpu_lookup (l1 ++ r :: l2) va = Some r.
Proof. exact (mpu_lookup_highest l1 r l2 va). Qed.
Print Assumptions C14_highest_region.
Theorem C14_no_region regions va : Forall (fun x => region_hit va x = false) regions -> mpu_lookup regions va = None.
Proof. exact (mpu_lookup_none regions va). Qed.
Print Assumptions C14_no_region.
Theorem C14_region_hits regions va r : mpu_lookup regions va = Some r -> In r regions /\ region_hit va r = true.
Proof. exact (mpu_lookup_some regions va r). Qed.
Print Assumptions C14_region_hits.
