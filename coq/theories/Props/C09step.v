(* Props/C09step.v — C09 end to end, one member of the family: MUL{S}<c> Rd, Rn, Rm (ARM, encoding A1).  For every word of the
   encoding (cond != 1111, 0000 000S Rd 0000 Rm 1001 Rn, the three registers in r0-r12 and pairwise different) and every state whose
   condition holds, one emulate_cycle ends in the architectural MUL (Spec/Arith.v: low 32 bits of the product, N and Z when S = 1,
   C cleared on ARMv4) followed by ITAdvance and PC + 4.  `plain_step` is the general statement for a body that completes without
   touching the PC.  Statements only (proofs in Proofs/StepInstancesMul.v). *)
From Coq Require Import ZArith Bool List.
From ArmV Require Import Lib.PyZ Lib.Monad Lib.Machine Spec.Pseudocode Spec.Arch Spec.MachineView Spec.Branches Spec.StepFrame
  Spec.OperandSpec Spec.Arith Spec.Arith2 Proofs.StateLemmas Proofs.CondProofs Proofs.GuardProofs Proofs.DPLemmas Proofs.StepProofs Proofs.StepInstancesMul Proofs.StepInstancesMla Proofs.StepInstancesMulT2 Proofs.StepInstancesMlaT1.
From Gen Require Import enums opsyn core exec conc decoders step.
Import ListNotations.
Open Scope Z_scope.

Theorem C09_plain_step cfg s w s1 cls op s2 :
  ArmV6_fetch_instruction cfg s = Ok w s1 ->
  ArmV6_decode_instruction w s1 = Ok (Some cls) s1 ->
  from_bitarray_dispatch cfg cls w s1 = Ok (Some op) s1 ->
  execute_dispatch cfg op (begin_instr s1 op) = Ok tt s2 ->
  ictx cfg s1 -> ictx cfg s2 -> keeps_pc (begin_instr s1 op) s2 ->
  ArmV6_emulate_cycle cfg s = Ok tt (AdvancePC (it_step_after s1 s2)) /\
  pc_of (AdvancePC (it_step_after s1 s2)) = add32 (pc_of s1) (opcode_len s1 / 8).
Proof. exact (plain_step cfg s w s1 cls op s2). Qed.
Print Assumptions C09_plain_step.

Theorem C09_mul_a1_step cfg s w s1 :
  ArmV6_fetch_instruction cfg s = Ok w s1 ->
  0 <= w < 2 ^ 32 -> is_mul_a1 w -> iset_of s1 = 0 -> ictx cfg s1 -> cond_holds s1 ->
  let d := bits w 19 16 in let n := bits w 3 0 in let m := bits w 11 8 in
  let op := (code_Mul, [w; bit w 20; m; d; n]) in
  let s2 := MUL_sem (cfg_arch_version cfg) (begin_instr s1 op) (bit w 20) m d n in
  ArmV6_emulate_cycle cfg s = Ok tt (AdvancePC (it_step_after s1 s2)) /\
  pc_of (AdvancePC (it_step_after s1 s2)) = add32 (pc_of s1) (opcode_len s1 / 8).
Proof. exact (mul_a1_step cfg s w s1). Qed.
Print Assumptions C09_mul_a1_step.

(* CLZ<c> Rd, Rm (ARM A1): cond != 1111, 0001 0110 (1111) Rd (1111) 0001 Rm, Rd and Rm in r0-r12 and different *)
Theorem C09_clz_a1_step cfg s w s1 :
  ArmV6_fetch_instruction cfg s = Ok w s1 ->
  0 <= w < 2 ^ 32 -> is_clz_a1 w -> iset_of s1 = 0 -> ictx cfg s1 -> cond_holds s1 ->
  let d := bits w 15 12 in let m := bits w 3 0 in
  let op := (code_Clz, [w; m; d]) in
  let s2 := CLZ_sem (begin_instr s1 op) m d in
  ArmV6_emulate_cycle cfg s = Ok tt (AdvancePC (it_step_after s1 s2)) /\
  pc_of (AdvancePC (it_step_after s1 s2)) = add32 (pc_of s1) (opcode_len s1 / 8).
Proof. exact (clz_a1_step cfg s w s1). Qed.
Print Assumptions C09_clz_a1_step.

(* MLA{S}<c> Rd, Rn, Rm, Ra (ARM A1: cond 0000 001S Rd Ra Rm 1001 Rn) and MLS<c> Rd, Rn, Rm, Ra (ARM A1: cond 0000 0110 Rd Ra Rm 1001 Rn),
   the four registers in r0-r12 and pairwise different (proofs in Proofs/StepInstancesMla.v) *)
Theorem C09_mla_a1_step cfg s w s1 :
  ArmV6_fetch_instruction cfg s = Ok w s1 ->
  0 <= w < 2 ^ 32 -> is_mla_a1 w -> iset_of s1 = 0 -> ictx cfg s1 -> cond_holds s1 ->
  let d := bits w 19 16 in let a := bits w 15 12 in let n := bits w 3 0 in let m := bits w 11 8 in
  let op := (code_Mla, [w; bit w 20; m; a; d; n]) in
  let s2 := Mla_sem (cfg_arch_version cfg) (begin_instr s1 op) (bit w 20) m a d n in
  ArmV6_emulate_cycle cfg s = Ok tt (AdvancePC (it_step_after s1 s2)) /\
  pc_of (AdvancePC (it_step_after s1 s2)) = add32 (pc_of s1) (opcode_len s1 / 8).
Proof. exact (mla_a1_step cfg s w s1). Qed.
Print Assumptions C09_mla_a1_step.

Theorem C09_mls_a1_step cfg s w s1 :
  ArmV6_fetch_instruction cfg s = Ok w s1 ->
  0 <= w < 2 ^ 32 -> is_mls_a1 w -> iset_of s1 = 0 -> ictx cfg s1 -> cond_holds s1 ->
  let d := bits w 19 16 in let a := bits w 15 12 in let n := bits w 3 0 in let m := bits w 11 8 in
  let op := (code_Mls, [w; m; a; d; n]) in
  let s2 := Mls_sem (cfg_arch_version cfg) (begin_instr s1 op) m a d n in
  ArmV6_emulate_cycle cfg s = Ok tt (AdvancePC (it_step_after s1 s2)) /\
  pc_of (AdvancePC (it_step_after s1 s2)) = add32 (pc_of s1) (opcode_len s1 / 8).
Proof. exact (mls_a1_step cfg s w s1). Qed.
Print Assumptions C09_mls_a1_step.

(* MUL<c> Rd, Rn, Rm (Thumb T2: 11111 0110 000 Rn : 1111 Rd 0000 Rm), registers in r0-r12 and pairwise different (Proofs/StepInstancesMulT2.v) *)
Theorem C09_mul_t2_step cfg s w s1 :
  ArmV6_fetch_instruction cfg s = Ok w s1 ->
  0 <= w < 2 ^ 32 -> is_mul_t2 w -> iset_of s1 = 1 -> opcode_len s1 = 32 -> ictx cfg s1 -> cond_holds s1 ->
  let d := bits w 11 8 in let n := bits w 19 16 in let m := bits w 3 0 in
  let op := (code_Mul, [w; 0; m; d; n]) in
  let s2 := MUL_sem (cfg_arch_version cfg) (begin_instr s1 op) 0 m d n in
  ArmV6_emulate_cycle cfg s = Ok tt (AdvancePC (it_step_after s1 s2)) /\
  pc_of (AdvancePC (it_step_after s1 s2)) = add32 (pc_of s1) 4.
Proof. exact (mul_t2_step cfg s w s1). Qed.
Print Assumptions C09_mul_t2_step.

(* MLA<c> / MLS<c> Rd, Rn, Rm, Ra (Thumb T1: 11111 0110 000 Rn : Ra Rd 000x Rm), registers in r0-r12 and pairwise different (Proofs/StepInstancesMlaT1.v) *)
Theorem C09_mlaT1_step cfg s w s1 :
  ArmV6_fetch_instruction cfg s = Ok w s1 ->
  0 <= w < 2 ^ 32 -> is_mlx_t1 0 w -> iset_of s1 = 1 -> opcode_len s1 = 32 -> ictx cfg s1 -> cond_holds s1 ->
  let d := bits w 11 8 in let a := bits w 15 12 in let n := bits w 19 16 in let m := bits w 3 0 in
  let op := (code_Mla, [w; 0; m; a; d; n]) in
  let s2 := Mla_sem (cfg_arch_version cfg) (begin_instr s1 op) 0 m a d n in
  ArmV6_emulate_cycle cfg s = Ok tt (AdvancePC (it_step_after s1 s2)) /\
  pc_of (AdvancePC (it_step_after s1 s2)) = add32 (pc_of s1) 4.
Proof. exact (mlaT1_step cfg s w s1). Qed.
Print Assumptions C09_mlaT1_step.
Theorem C09_mlsT1_step cfg s w s1 :
  ArmV6_fetch_instruction cfg s = Ok w s1 ->
  0 <= w < 2 ^ 32 -> is_mlx_t1 1 w -> iset_of s1 = 1 -> opcode_len s1 = 32 -> ictx cfg s1 -> cond_holds s1 ->
  let d := bits w 11 8 in let a := bits w 15 12 in let n := bits w 19 16 in let m := bits w 3 0 in
  let op := (code_Mls, [w; m; a; d; n]) in
  let s2 := Mls_sem (cfg_arch_version cfg) (begin_instr s1 op) m a d n in
  ArmV6_emulate_cycle cfg s = Ok tt (AdvancePC (it_step_after s1 s2)) /\
  pc_of (AdvancePC (it_step_after s1 s2)) = add32 (pc_of s1) 4.
Proof. exact (mlsT1_step cfg s w s1). Qed.
Print Assumptions C09_mlsT1_step.
