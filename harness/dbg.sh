#!/bin/bash
# usage: dbg.sh <file.v relative to coq/> <line>  -- show the proof state just before <line>
cd /verif/coq
head -n $(($2 - 1)) "$1" > /tmp/dbg_goal.v
echo "Show. Abort." >> /tmp/dbg_goal.v
timeout 120 coqc -Q theories ArmV -Q gen Gen /tmp/dbg_goal.v 2>&1 | grep -v "^Closed\|^$" | head -${3:-60}
