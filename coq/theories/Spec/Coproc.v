(* Spec/Coproc.v — B1.11.1 / B4.1.40 (CPACR) / B4.1.111 (NSACR): when is an access to coprocessor cp (0..13 other than
   the floating-point pair 10/11) UNDEFINED because the access-control registers deny it.  Imports nothing generated. *)
From Coq Require Import ZArith List Bool.
From ArmV Require Import Lib.PyZ Spec.Pseudocode.
Open Scope Z_scope.

(* NSACR.cp<n> = 0: no Non-secure access; CPACR.cp<n>: 00 no access, 01 PL1 only, 10 reserved, 11 full access *)
Definition coproc_denied (have_sec secure user : bool) (nsacr cpacr cp : Z) : bool :=
  (have_sec && negb secure && (bit nsacr cp =? 0)) ||
  match bits cpacr (2 * cp + 1) (2 * cp) with 0 => true | 1 => user | _ => false end.
