"""C15 — VMSA translation: short-descriptor table walks, domain/permission/access-flag checks, fault reporting, FCSE,
the MMU-off flat map; MemA through the translation."""
import copy
import common as C
import statelib
from framework import Unit

IMPORTS = 'From Gen Require Import enums records core.\nFrom ArmV Require Import Corr.VmsaSpecRun.'
SPEC_IMPORTS = ('From ArmV Require Import Spec.Pseudocode Spec.Arch Spec.MachineView Spec.Hub Spec.Memory Spec.Vmsa '
                'Corr.VmsaSpecRun.\nFrom Gen Require Import enums records.')


def b(x):
    return 'true' if x else 'false'


def bits(x, hi, lo):
    return (x >> lo) & ((1 << (hi - lo + 1)) - 1)


def word_bytes(v, big):
    bs = [(v >> (8 * i)) & 0xFF for i in range(4)]
    return bs[::-1] if big else bs


def chunk(addr, word, big, rng):
    """a 16-byte RAM device around the word at addr, the other bytes random"""
    beg = addr & ~15
    data = [rng.getrandbits(8) for _ in range(16)]
    off = addr - beg
    data[off:off + 4] = word_bytes(word, big)
    return [beg, beg + 16, data]


def overlaps(a, c):
    return a[0] < c[1] and c[0] < a[1]


def mk_case_state(rng, t, force=None):
    """registers + tables for one translation of one VA; returns (cfgd, st, va, info) — info names the descriptor kind"""
    force = force or {}
    cfgd = copy.deepcopy(statelib.DEFAULT_CFG)
    cfgd['memory_system_architecture'] = 'VMSA'
    cfgd['arch_version'] = 7
    cfgd['have_security_ext'] = rng.random() < 0.8
    cfgd['have_mp_ext'] = rng.random() < 0.3
    ix = {n: t['sys_names'].index(n) for n in ('cpsr', 'sctlr', 'ttbcr', 'ttbr0_64', 'ttbr1_64', 'dacr', 'fcseidr', 'prrr',
                                               'nmrr', 'dfsr', 'dfar', 'scr')}
    n = force.get('n', rng.choice([0, 0, 0, 1, 2, 3, 4, 5, 6, 7]))
    ee = int(rng.random() < 0.25)
    afe = force.get('afe', int(rng.random() < 0.4))
    m = force.get('m', int(rng.random() < 0.9))
    sctlr = (statelib.DEFAULT_CFG['reset_values']['SCTLR'] & ~((1 << 0) | (1 << 1) | (1 << 17) | (1 << 25) | (1 << 28) | (1 << 29)))
    sctlr |= m | (ee << 25) | (1 << 28) | (afe << 29)
    pd0 = int(rng.random() < 0.07)
    pd1 = int(rng.random() < 0.07)
    ttbcr = n | (pd0 << 4) | (pd1 << 5)
    # the virtual address: TTBR0 region, TTBR1 region or their boundary
    r = rng.random()
    if n == 0 or r < 0.5:
        va = rng.getrandbits(32 - n)
    elif r < 0.6:
        va = (1 << (32 - n)) - 1 - rng.randrange(4) if rng.random() < 0.5 else (1 << (32 - n)) + rng.randrange(4)
    else:
        va = rng.getrandbits(32)
    if rng.random() < 0.1:
        va &= (1 << 25) - 1
    pid = rng.choice([0, 0, rng.getrandbits(7)])
    fcseidr = pid << 25
    mva = ((pid << 25) | (va & ((1 << 25) - 1))) if (va >> 25) == 0 else va
    use0 = n == 0 or (mva >> (32 - n)) == 0
    nn = n if use0 else 0
    ttbr0 = rng.getrandbits(32)
    ttbr1 = rng.getrandbits(32)
    ttbr = ttbr0 if use0 else ttbr1
    l1addr = (bits(ttbr, 31, 14 - nn) << (14 - nn)) + (bits(mva, 31 - nn, 20) << 2)
    kind = force.get('kind', rng.choice(['invalid', 'table', 'table', 'table', 'section', 'section', 'super', 'table']))
    domain = rng.randrange(16)
    af = int(rng.random() < 0.7)
    ap2, ap1 = rng.getrandbits(1), rng.getrandbits(1)
    if 'ap' in force:
        ap2, ap1, af0 = (force['ap'] >> 2) & 1, (force['ap'] >> 1) & 1, force['ap'] & 1
        af = af0
    mem = []
    rnd = rng.getrandbits(32)
    if kind == 'invalid':
        d1 = rnd & ~3
    elif kind == 'table':
        d1 = (rnd & ~0x1E3) | (domain << 5) | 1
    else:
        typ = 2 | (rng.getrandbits(1) if rng.random() < 0.2 else 0)
        d1 = (rnd & ~((1 << 18) | (1 << 15) | (3 << 10) | (0xF << 5) | 3)) | typ | (domain << 5) | (af << 10) | (ap1 << 11) | (ap2 << 15)
        if kind == 'super':
            d1 |= 1 << 18
    mem.append(chunk(l1addr, d1, ee, rng))
    sub = kind
    if kind == 'table':
        l2addr = (bits(d1, 31, 10) << 10) + (bits(mva, 19, 12) << 2)
        sub = force.get('sub', rng.choice(['l2invalid', 'large', 'small', 'small', 'small']))
        rnd2 = rng.getrandbits(32)
        if sub == 'l2invalid':
            d2 = rnd2 & ~3
        else:
            d2 = (rnd2 & ~((1 << 9) | (3 << 4) | 3)) | (ap2 << 9) | (ap1 << 5) | (af << 4)
            d2 |= 1 if sub == 'large' else (2 | rng.getrandbits(1))
        c2 = chunk(l2addr, d2, ee, rng)
        if overlaps(c2, mem[0]):
            return None
        mem.append(c2)
    st = statelib.reset_state(t, cfg=cfgd, mem=mem)
    mode = rng.choice([16, 16, 19, 31, 23])
    st['sys'][ix['cpsr']] = (rng.getrandbits(1) << 9) | mode
    st['sys'][ix['sctlr']] = sctlr
    st['sys'][ix['ttbcr']] = ttbcr
    st['sys'][ix['ttbr0_64']] = ttbr0
    st['sys'][ix['ttbr1_64']] = ttbr1
    st['sys'][ix['fcseidr']] = fcseidr
    dacr = rng.getrandbits(32)
    dv = force.get('dacr', rng.choice([1, 1, 1, 1, 3, 0, 2]))
    dacr = (dacr & ~(3 << (2 * domain))) | (dv << (2 * domain))
    if kind == 'super':
        dacr = (dacr & ~3) | rng.choice([1, 1, 3, 0])
    st['sys'][ix['dacr']] = dacr
    st['sys'][ix['prrr']] = rng.choice([0x00098AA4, rng.getrandbits(32)])
    st['sys'][ix['nmrr']] = rng.choice([0x44E048E0, rng.getrandbits(32)])
    st['sys'][ix['dfsr']] = rng.getrandbits(32)
    st['sys'][ix['dfar']] = rng.getrandbits(32)
    st['sys'][ix['scr']] = rng.getrandbits(1)
    return cfgd, st, va, f'{sub}' if m else 'mmu_off'


def cases(rng, tier):
    t = statelib.load_index(C.GEN)['tables']
    out = []
    ncase = 160 if tier == 'quick' else 6000
    isc = t['sys_names'].index('sctlr')

    def translate_case(cfgd, st, va, label, spec=True):
        cfg = statelib.coq_config(cfgd, t)
        m = statelib.coq_machine(st)
        sec = int(cfgd['have_security_ext'])
        priv = rng.choice([0, 1])
        w = rng.choice([0, 1])
        wa = int(rng.random() < 0.85)
        size = rng.choice([1, 2, 4])
        impl = {'kind': 'method', 'state': st, 'method': 'translate_address', 'args': [va, bool(priv), bool(w), size, bool(wa)],
                'rt': ['addrdesc']}
        model = f'(enc_out enc_machine enc_addrdesc (ArmV6_translate_address_v {cfg} {va} {priv} {w} {size} {wa} {m}))'
        sp = f'(enc_out enc_machine enc_addrdesc (translate_spec {sec} {m} {va} {b(priv)} {b(w)} {b(wa)}))' if spec else None
        return {'impl': impl, 'model': model, 'spec': sp, 'label': label, 'nontrivial': True}

    # 1. random walks of every descriptor kind
    made = 0
    while made < ncase:
        r = mk_case_state(rng, t)
        if r is None:
            continue
        cfgd, st, va, label = r
        out.append(translate_case(cfgd, st, va, 'xlate_' + label))
        made += 1
    # 2. every AP encoding x AFE x domain mode on sections and small pages (client domains decide by AP)
    for ap in range(8):
        for afe in (0, 1):
            for kind, sub in (('section', None), ('table', 'small')):
                for _ in range(1 if tier == 'quick' else 8):
                    f = {'ap': ap, 'afe': afe, 'kind': kind, 'dacr': 1, 'm': 1}
                    if sub:
                        f['sub'] = sub
                    r = None
                    while r is None:
                        r = mk_case_state(rng, t, f)
                    cfgd, st, va, label = r
                    out.append(translate_case(cfgd, st, va, f'ap{ap}_afe{afe}_{label}'))
    # 3. TTBR0/TTBR1 boundary for every N
    for n in range(8):
        for _ in range(2 if tier == 'quick' else 12):
            r = None
            while r is None:
                r = mk_case_state(rng, t, {'n': n, 'm': 1})
            cfgd, st, va, label = r
            out.append(translate_case(cfgd, st, va, f'n{n}_{label}'))
    # 4. MemA through the translation (aligned accesses): the data comes from / goes to the translated physical address
    made = 0
    while made < ncase // 3:
        r = mk_case_state(rng, t, {'m': 1, 'dacr': rng.choice([1, 3]), 'kind': rng.choice(['section', 'table']),
                                   'sub': rng.choice(['small', 'large'])})
        if r is None:
            continue
        cfgd, st, va, label = r
        size = rng.choice([1, 2, 4])
        va &= ~(size - 1)
        # a data device at the translated address is only present when the walk succeeds; place one where the
        # section/page maps the VA (computed by the reference run of the specification is not available here, so
        # take the address from the descriptor bytes we just generated)
        pa = data_pa(st, va, t)
        if pa is None:
            continue
        dev = [pa & ~15, (pa & ~15) + 16, [rng.getrandbits(8) for _ in range(16)]]
        if any(overlaps(dev, d) for d in st['mem']):
            continue
        st['mem'].append(dev)
        cfg = statelib.coq_config(cfgd, t)
        m = statelib.coq_machine(st)
        sec = int(cfgd['have_security_ext'])
        priv = rng.choice([0, 1])
        if rng.random() < 0.5:
            impl = {'kind': 'method', 'state': st, 'method': 'mem_a_with_priv_get', 'args': [va, size, bool(priv), True], 'rt': ['Z']}
            model = f'(enc_out enc_machine enc_Z (ArmV6_mem_a_with_priv_get {cfg} {va} {size} {priv} 1 {m}))'
            spec = f'(enc_out enc_machine enc_Z (MemA_get_vmsa_spec {sec} {m} {va} {size} {b(priv)}))'
            lab = 'mema_read_' + label
        else:
            value = rng.getrandbits(8 * size)
            impl = {'kind': 'method', 'state': st, 'method': 'mem_a_with_priv_set', 'args': [va, size, bool(priv), True, value], 'rt': ['unit']}
            model = f'(enc_out enc_machine enc_unit (ArmV6_mem_a_with_priv_set {cfg} {va} {size} {priv} 1 {value} {m}))'
            spec = f'(enc_out enc_machine enc_unit (MemA_set_vmsa_spec {sec} {m} {va} {size} {value} {b(priv)}))'
            lab = 'mema_write_' + label
        out.append({'impl': impl, 'model': model, 'spec': spec, 'label': lab, 'nontrivial': True})
        made += 1
    # 5. known gaps of the implementation, kept visible: SCTLR.TRE = 0 needs the RemapRegsHaveResetValues stub
    for _ in range(4 if tier == 'quick' else 10):
        r = None
        while r is None:
            r = mk_case_state(rng, t, {'m': 1, 'kind': 'section', 'dacr': 3, 'afe': 0})
        cfgd, st, va, label = r
        st['sys'][isc] &= ~(1 << 28)
        c = translate_case(cfgd, st, va, 'tre0_section')
        c['spec'] = c['spec'].replace('translate_spec ', 'translate_spec_tre0 ')
        out.append(c)
    # 6. hardware access-flag management (SCTLR.HA = 1): implementation against the regenerated model only
    for _ in range(4 if tier == 'quick' else 40):
        r = None
        while r is None:
            r = mk_case_state(rng, t, {'m': 1, 'afe': 1})
        cfgd, st, va, label = r
        st['sys'][isc] |= 1 << 17
        out.append(translate_case(cfgd, st, va, 'ha_' + label, spec=False))
    return out


def ld_cases(rng, tier):
    """long-descriptor format (TTBCR.EAE = 1): generated one- to three-level tables; the physical address and NS bit of a
    successful translation, or the fault.  The regenerated model does not contain the long-descriptor walk (py2v cannot
    translate its mutual recursion with second_stage_translate), so these cases compare implementation and specification."""
    t = statelib.load_index(C.GEN)['tables']
    out = []
    n_cases = 80 if tier == 'quick' else 4000
    ix = {n: t['sys_names'].index(n) for n in ('cpsr', 'sctlr', 'ttbcr', 'ttbr0_64', 'ttbr1_64', 'fcseidr', 'mair0', 'mair1', 'dfsr',
                                               'dfar', 'scr')}
    made = 0
    # the first cases of the stream are directed, one (attribute, level) combination after the other, several rounds
    plan = [(bb, ll) for _ in range(3 if tier == 'quick' else 40) for bb in (63, 62, 61, 60, 59) for ll in (1, 2)]
    while made < n_cases:
        cfgd = copy.deepcopy(statelib.DEFAULT_CFG)
        cfgd['memory_system_architecture'] = 'VMSA'
        cfgd['arch_version'] = 7
        cfgd['have_lpae'] = True
        cfgd['have_security_ext'] = rng.random() < 0.8
        t0 = rng.choice([0, 0, 1, 2, 3, 5, 7])
        t1 = rng.choice([0, 0, 1, 2, 4, 7])
        planned = made < len(plan)
        if planned:
            t0, t1 = rng.choice([(0, 0), (1, 0), (0, 1), (1, 1)])      # a three-level walk: the region starts at level 1
        va = rng.getrandbits(32)
        r = rng.random()
        if r < 0.3 and t0:
            va &= (1 << (32 - t0)) - 1
        elif r < 0.6 and t1:
            va |= ((1 << t1) - 1) << (32 - t1)
        in0 = t0 == 0 or (va >> (32 - t0)) == 0
        in1 = (not in0) if t1 == 0 else (va >> (32 - t1)) == (1 << t1) - 1
        ee = int(rng.random() < 0.2)
        ttbr0, ttbr1 = rng.getrandbits(32), rng.getrandbits(32)
        mem = []
        label = 'ld_no_region'
        # directed part of the stream: full-depth walks whose leaf permits everything and in which exactly one hierarchical
        # attribute (NSTable, APTable[1], APTable[0], XNTable, PXNTable) is set in exactly one table descriptor, so that an
        # attribute dropped between levels shows in the permission check or the NS bit of the result
        directed = planned or rng.random() < 0.3
        hier_bit, hier_level = plan[made] if planned else (rng.choice([63, 62, 62, 61, 61, 60, 59]), rng.choice([1, 2]))
        if in1 or in0:
            sz, ttbr = (t1, ttbr1) if in1 else (t0, ttbr0)
            level = 1 if sz < 2 else 2
            lb = 9 * level - sz - 4
            base = (ttbr >> lb) << lb
            first = True
            ok = True
            while True:
                offset = 9 * level
                sel = bits(va, 31 - sz, 39 - offset) if first else bits(va, 47 - offset, 39 - offset)
                first = False
                addr = base + sel * 8
                kinds = ['invalid', 'leaf', 'leaf', 'table', 'table'] if level < 3 else ['invalid', 'leaf', 'leaf', 'leaf', 'reserved']
                kind = rng.choice(kinds)
                if directed:
                    kind = 'table' if level < 3 else 'leaf'
                d = rng.getrandbits(64) & ~((0xFF << 40) | 3)            # output address below 2^40
                if rng.random() < 0.8:
                    d |= 1 << 10                                          # access flag
                if rng.random() < 0.6:
                    d &= ~(0x1F << 59)                                    # table attributes mostly clear
                if rng.random() < 0.6:
                    d = (d & ~(3 << 6)) | (1 << 6)                        # AP[2:1] = 01: read/write at any privilege
                if directed:
                    d &= ~(0x1F << 59)
                    if kind == 'table' and level == hier_level:
                        d |= 1 << hier_bit
                    if kind == 'leaf':
                        d = (d | (1 << 10)) & ~((3 << 6) | (3 << 53)) | (1 << 6)     # AF, AP = 01, XN = PXN = 0
                if kind == 'invalid':
                    pass
                elif kind == 'reserved':
                    d |= 1
                elif kind == 'table' or (kind == 'leaf' and level == 3):
                    d |= 3
                else:
                    d |= 1
                nxt = ((d >> 12) & ((1 << 28) - 1)) << 12
                if kind == 'table' and nxt >= (1 << 32):
                    d &= ~(0xFF << 32)                                    # keep the next table below 4GB (the hub's address space)
                    nxt = ((d >> 12) & ((1 << 28) - 1)) << 12
                bs = [(d >> (8 * i)) & 0xFF for i in range(8)]
                if ee:
                    bs = bs[::-1]
                beg = addr & ~15
                data = [rng.getrandbits(8) for _ in range(16)]
                data[addr - beg:addr - beg + 8] = bs
                dev = [beg, beg + 16, data]
                if any(overlaps(dev, x) for x in mem) or addr >= (1 << 32):
                    ok = False
                    break
                mem.append(dev)
                label = f'ld_l{level}_{kind}'
                if kind != 'table':
                    break
                base = nxt
                level += 1
            if not ok:
                continue
        st = statelib.reset_state(t, cfg=cfgd, mem=mem)
        st['sys'][ix['cpsr']] = (rng.getrandbits(1) << 9) | rng.choice([16, 16, 19, 31, 23])
        sctlr = (statelib.DEFAULT_CFG['reset_values']['SCTLR'] & ~((1 << 1) | (1 << 17) | (1 << 25) | (1 << 29))) | 1 | (ee << 25) | (1 << 28)
        st['sys'][ix['sctlr']] = sctlr
        st['sys'][ix['ttbcr']] = (1 << 31) | t0 | (t1 << 16) | (int(rng.random() < 0.05) << 7) | (int(rng.random() < 0.05) << 23)
        st['sys'][ix['ttbr0_64']] = ttbr0
        st['sys'][ix['ttbr1_64']] = ttbr1
        st['sys'][ix['fcseidr']] = 0
        st['sys'][ix['mair0']] = rng.choice([0xFF440400, rng.getrandbits(32)])
        st['sys'][ix['mair1']] = rng.choice([0xFF440400, rng.getrandbits(32)])
        st['sys'][ix['dfsr']] = rng.getrandbits(32)
        st['sys'][ix['dfar']] = rng.getrandbits(32)
        st['sys'][ix['scr']] = rng.getrandbits(1)
        m = statelib.coq_machine(st)
        sec = int(cfgd['have_security_ext'])
        priv, w = rng.choice([0, 1]), rng.choice([0, 1])
        if directed and hier_bit == 62:
            w = 1 if rng.random() < 0.8 else w
        if directed and hier_bit == 61:
            priv = 0 if rng.random() < 0.8 else priv
        if directed and label.startswith('ld_l3'):
            label = f'ld_hier_b{hier_bit}_l{hier_level}'
        impl = {'kind': 'method', 'state': st, 'method': 'translate_address', 'args': [va, bool(priv), bool(w), 4, True],
                'rt': ['addrdesc_pa'], '_only_result': True}
        spec = f'(ld_translate_spec {sec} {m} {va} {b(priv)} {b(w)})'
        out.append({'impl': impl, 'model': None, 'spec': spec, 'label': label, 'nontrivial': True})
        made += 1
    return out


def data_pa(st, va, t):
    """physical address a successful short-descriptor walk yields for va in st (mirrors the table layout the generator
    wrote; used only to place a data device, never as an oracle)"""
    sys = st['sys']
    g = lambda n_: sys[t['sys_names'].index(n_)]
    pid = g('fcseidr') >> 25
    mva = ((pid << 25) | (va & ((1 << 25) - 1))) if (va >> 25) == 0 else va
    n = g('ttbcr') & 7
    use0 = n == 0 or (mva >> (32 - n)) == 0
    nn = n if use0 else 0
    ttbr = g('ttbr0_64') if use0 else g('ttbr1_64')
    ee = (g('sctlr') >> 25) & 1

    def rd(a):
        for beg, end, data in st['mem']:
            if beg <= a and a + 4 <= end:
                bs = data[a - beg:a - beg + 4]
                if ee:
                    bs = bs[::-1]
                return sum(x << (8 * i) for i, x in enumerate(bs))
        return None
    d1 = rd((bits(ttbr, 31, 14 - nn) << (14 - nn)) + (bits(mva, 31 - nn, 20) << 2))
    if d1 is None or d1 & 3 == 0:
        return None
    if d1 & 3 == 1:
        d2 = rd((bits(d1, 31, 10) << 10) + (bits(mva, 19, 12) << 2))
        if d2 is None or d2 & 3 == 0:
            return None
        if d2 & 2 == 0:
            return (bits(d2, 31, 16) << 16) | (mva & 0xFFFF)
        return (bits(d2, 31, 12) << 12) | (mva & 0xFFF)
    if (d1 >> 18) & 1 == 0:
        return (bits(d1, 31, 20) << 20) | (mva & 0xFFFFF)
    return None


def units():
    thms = ['C15_translate', 'C15_mmu_off', 'C15_walk', 'C15_data_abort', 'C15_check_domain', 'C15_check_permission',
            'C15_fcse', 'C15_tex_remap', 'C15_spec_run']
    needs = ['arm_v6.ArmV6.' + n for n in ('translate_address_v', 'translation_table_walk_sd', 'check_domain', 'check_permission',
                                           'data_abort', 'encode_sdfsr', 'fcse_translate', 'remapped_tex_decode',
                                           'translate_address_v_s1_off', 'alignment_fault_v', 'convert_attrs_hints',
                                           'mem_a_with_priv_get', 'mem_a_with_priv_set')]
    return [Unit('vmsa_translate', thms, ['Proofs/VmsaProofs.v', 'Proofs/VmsaWalk.v', 'Proofs/VmsaXlate.v'], needs, cases,
                 IMPORTS, SPEC_IMPORTS),
            Unit('long_descriptor', [], [], [], ld_cases, IMPORTS, SPEC_IMPORTS)]
