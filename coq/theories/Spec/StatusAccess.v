(* Spec/StatusAccess.v — MRS / MSR (A8.8.109-113, B9.3.8-12) and SPSRWriteByInstr (B1.3.3) over the machine view.
   Hand-written from the manual; imports nothing generated. *)
From Coq Require Import ZArith List Bool.
From ArmV Require Import Lib.PyZ Lib.Monad Lib.Machine Spec.Pseudocode Spec.Arch Spec.MachineView Spec.Exceptions Spec.BlockFamily.
Import ListNotations.
Open Scope Z_scope.

(* R[d] = APSR: N, Z, C, V, Q and GE only *)
Definition MRS_app (s : machine) (d : Z) : machine := rset s d (Z.land (cpsr_of s) 4161732608).       (* 0xF80F0000 *)
(* R[d] = CPSR AND '11111000 11111111 00000011 11011111' (execution state bits read as zero); in User mode the mode and
   E, A, I, F bits are UNKNOWN (the emulator returns 0).  Reading the SPSR in User or System mode is UNPREDICTABLE (no effect). *)
Definition MRS_sys (s : machine) (read_spsr d : Z) : machine :=
  if read_spsr =? 0 then
    let v := Z.land (cpsr_of s) 4177462239 in                                                            (* 0xF8FF03DF *)
    rset s d (if mode_of s =? M_usr then insert (insert v 4 0 0) 9 6 0 else v)
  else if (mode_of s =? M_usr) || (mode_of s =? M_sys) then s else rset s d (get_SPSR s).
(* application-level MSR: APSR_nzcvq and APSR_g *)
Definition MSR_app (s : machine) (write_nzcvq write_g value : Z) : machine :=
  let p := cpsr_of s in
  let p1 := if write_nzcvq =? 0 then p else insert p 31 27 (bits value 31 27) in
  let p2 := if write_g =? 0 then p1 else insert p1 19 16 (bits value 19 16) in
  with_cpsr s p2.
(* SPSRWriteByInstr(value, bytemask); a bad mode in value<4:0> is UNPREDICTABLE (the mode field is then left alone) *)
Definition SPSRWriteByInstr (have_sec have_virt spsr value bytemask : Z) : Z :=
  let p := wfield (bit bytemask 3 =? 1) 31 24 value spsr in
  let p := wfield (bit bytemask 2 =? 1) 19 16 value p in
  let p := wfield (bit bytemask 1 =? 1) 15 8 value p in
  if bit bytemask 0 =? 1
  then let p := insert p 7 5 (bits value 7 5) in
       if BadMode have_sec have_virt (bits value 4 0) then p else insert p 4 0 (bits value 4 0)
  else p.

(* system-level MSR: CPSRWriteByInstr(value, mask, FALSE) or SPSRWriteByInstr(value, mask) *)
Definition MSR_sys (x : sysctx) (s : machine) (write_spsr mask value : Z) : machine :=
  if write_spsr =? 0 then with_cpsr s (CPSRWriteByInstr x (cpsr_of s) value mask 0)
  else set_SPSR s (SPSRWriteByInstr (c_have_sec x) (c_have_virt x) (get_SPSR s) value mask).

(* ---------- SETEND, hints and events (A8.8.157, 119, 424-427; B1.8.13) ---------- *)
Definition SETEND (s : machine) (set_bigend : Z) : machine := with_cpsr s (insert (cpsr_of s) 9 9 set_bigend).
(* WFE: consume a registered event, else wait; WFI: wait.  (Trapping to Hyp mode needs the Virtualization Extensions.) *)
Definition slot_event := 47.
Definition WFE (s : machine) : machine :=
  if getl (sys s) slot_event =? 0 then set_wfe s 1 else set_sysv s slot_event 0.
Definition WFI (s : machine) : machine := set_wfi s 1.
(* ERET: exception return to ELR_hyp (from Hyp mode) or LR *)
Definition slot_elr_hyp := 8.
Definition ERET (jaz have_sec have_virt : Z) (s : machine) : machine :=
  eret_to jaz have_sec have_virt s (get_SPSR s) (if mode_of s =? M_hyp then getl (sys s) slot_elr_hyp else rget s 14).
(* CPS: the selected interrupt masks and optionally the mode, through CPSRWriteByInstr; no effect in User mode *)
Definition cps_value (p affect_a affect_i affect_f enable disable change_mode mode : Z) : Z :=
  let set_masks v p :=
    let p := if affect_a =? 0 then p else insert p 8 8 v in
    let p := if affect_i =? 0 then p else insert p 7 7 v in
    if affect_f =? 0 then p else insert p 6 6 v in
  let p := if enable =? 0 then p else set_masks 0 p in
  let p := if disable =? 0 then p else set_masks 1 p in
  if change_mode =? 0 then p else insert p 4 0 mode.
Definition CPS (x : sysctx) (s : machine) (affect_a affect_i affect_f enable disable change_mode mode : Z) : machine :=
  if mode_of s =? M_usr then s
  else with_cpsr s (CPSRWriteByInstr x (cpsr_of s) (cps_value (cpsr_of s) affect_a affect_i affect_f enable disable change_mode mode) 15 0).
