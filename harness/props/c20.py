"""C20 — determinism and isolation: several instances stepped in an interleaving against each running alone, and
against the regenerated model (a function of the instance's own configuration and state)."""
import copy
import common as C
import statelib
import stepgen
from framework import Unit

IMPORTS = 'From Gen Require Import enums core step.'


def program_state(rng, t, cfg, nsteps):
    thumb = rng.random() < 0.5
    st = stepgen.random_state(rng, t, thumb=thumb, cfg=cfg)
    pc = st['R'][33]
    if not thumb and rng.random() < 0.6:
        # a configuration-dependent instruction: MOV PC, R1 with an odd target interworks from ARMv7 on only
        st['R'][1] = (pc + 0x20) | 1
        stepgen.put_instr(st, 0xE1A0F001, 32, at=pc)
        for k in range(1, nsteps + 1):
            stepgen.put_instr(st, 0xE2800001, 32, at=pc + 4 * k)
            stepgen.put_instr(st, 0x1C40, 16, at=pc + 0x20 + 2 * (k - 1))
        return stepgen.clean(st)
    for k in range(nsteps + 1):     # a straight run of simple instructions
        if thumb:
            stepgen.put_instr(st, rng.choice([0x1C40, 0x3001, 0x4048, 0x0049, 0xBF00, 0x1889, 0x4411]), 16, at=pc + 2 * k)
        else:
            stepgen.put_instr(st, rng.choice([0xE2800001, 0xE0811002, 0xE1A02001, 0xE3A03005, 0xE0030291, 0xE2522001]), 32, at=pc + 4 * k)
    return stepgen.clean(st)


def cases(rng, tier):
    t = statelib.load_index(C.GEN)['tables']
    out = []
    n = 25 if tier == 'quick' else 600
    for k in range(n):
        same = k % 2 == 0
        cfg0 = copy.deepcopy(statelib.DEFAULT_CFG)
        cfg1 = copy.deepcopy(statelib.DEFAULT_CFG)
        if not same:
            cfg1['arch_version'] = 7 if cfg0['arch_version'] != 7 else 5
            cfg1['have_security_ext'] = not cfg0['have_security_ext']
        steps = rng.randrange(1, 4)
        sts = [program_state(rng, t, cfg0, steps), program_state(rng, t, cfg1, steps)]
        sched = [0] * steps + [1] * steps
        rng.shuffle(sched)
        for probe in (0, 1):
            label = 'same_config' if same else 'two_configs'
            out.append({'impl': {'kind': 'multi', 'states': sts, 'sched': sched, 'probe': probe},
                        'model': None, 'model_line': stepgen.case_line(sts[probe], t, steps),
                        'spec': None, 'spec_impl': {'kind': 'multi', 'states': [sts[probe]], 'sched': [0] * steps, 'probe': 0},
                        'label': label, 'nontrivial': True})
        # determinism: the same snapshot run twice (after some unrelated history on another instance)
        out.append({'impl': {'kind': 'multi', 'states': [sts[1], sts[0], sts[0]], 'sched': [0] * steps + [2] * steps, 'probe': 2},
                    'model': None, 'model_line': stepgen.case_line(sts[0], t, steps), 'spec': None,
                    'spec_impl': {'kind': 'multi', 'states': [sts[0]], 'sched': [0] * steps, 'probe': 0},
                    'label': 'rerun_same_config' if same else 'rerun_two_configs', 'nontrivial': True})
    # the same instruction word executed by two instances with different register / flag contents: anything remembered per
    # word, per class or per immediate in shared (module- or class-level) state shows in the second instance; its reference
    # run is alone in a fresh interpreter
    from props import c18
    pool = c18.class_directed_words(rng, 'quick')
    for k in range(40 if tier == 'quick' else 1500):
        kind, w = rng.choice(pool)
        cfg = copy.deepcopy(statelib.DEFAULT_CFG)
        sts = []
        for _ in range(2):
            st = stepgen.random_state(rng, t, thumb=(kind != 'arm'), cfg=cfg)
            for i in range(33):
                if rng.random() < 0.6:
                    st['R'][i] = 0x1000 + 8 * rng.randrange(0, 24)
            if kind == 't32':
                st['_thumb32'] = True
            stepgen.put_instr(st, w, 32)
            sts.append(stepgen.clean(st))
        out.append({'impl': {'kind': 'multi', 'states': sts, 'sched': [0, 1], 'probe': 1},
                    'model': None, 'model_line': stepgen.case_line(sts[1], t, 1), 'spec': None,
                    'spec_impl': {'kind': 'multi', 'states': [sts[1]], 'sched': [0], 'probe': 0}, 'spec_impl_fresh': True,
                    'label': 'same_word_' + kind, 'nontrivial': True})
    # construction and reset: two instances whose configuration files differ only in the registers' reset values
    # (the values are captured when an instance is built, so the configuration singleton does not interfere here)
    for k in range(6 if tier == 'quick' else 200):
        c0 = copy.deepcopy(statelib.DEFAULT_CFG)
        c1 = copy.deepcopy(statelib.DEFAULT_CFG)
        c1['reset_values']['VBAR'] = rng.choice([0x40, 0x1000, 0x400000])
        c1['reset_values']['SCTLR'] = c0['reset_values']['SCTLR'] ^ rng.choice([1, 1 << 30, (1 << 30) | 1, 1 << 13])
        order = [c0, c1] if k % 2 == 0 else [c1, c0]
        for probe in (0, 1):
            out.append({'impl': {'kind': 'multi_construct', 'cfgs': order, 'probe': probe, 'reset': k % 3 != 0},
                        'model': None, 'spec': None,
                        'spec_impl': {'kind': 'multi_construct', 'cfgs': [order[probe]], 'probe': 0, 'reset': k % 3 != 0},
                        'spec_impl_fresh': True,
                        'label': 'construct_then_reset' if k % 3 != 0 else 'construct_only', 'nontrivial': True})
    return out


def units():
    return [Unit('isolation', ['C20_isolation'], ['Proofs/Isolation.v'], ['arm_v6.ArmV6.emulate_cycle', '*'], cases, IMPORTS, None)]
