"""Generators of machine states and instruction words for whole-step correspondence."""
import copy
import statelib

CORN = [0, 1, 2, 3, 4, 0x7F, 0x80, 0xFF, 0x100, 0x7FFF, 0x8000, 0xFFFF, 0x10000, 0x7FFFFFFF, 0x80000000,
        0xFFFFFFFC, 0xFFFFFFFE, 0xFFFFFFFF, 0x1000, 0x1004, 0x1010, 0x10F0, 0x10FC, 0x1100]
MODES = [0b10000, 0b10001, 0b10010, 0b10011, 0b10110, 0b10111, 0b11011, 0b11111]
CODE_BASE = 0x1000
CODE_SIZE = 0x100


def val32(rng):
    r = rng.random()
    if r < 0.45:
        return rng.choice(CORN)
    if r < 0.6:
        return CODE_BASE + rng.randrange(0, CODE_SIZE)
    return rng.getrandbits(32)


def base_state(tables, cfg=None):
    st = statelib.reset_state(tables, cfg=cfg, mem=[[0, 256, [0] * 256], [CODE_BASE, CODE_BASE + CODE_SIZE, [0] * CODE_SIZE]])
    return st


def sidx(tables, name):
    return tables['sys_names'].index(name)


def random_state(rng, tables, thumb=None, mode=None, mpu=False, cfg=None, bigend=False):
    st = base_state(tables, cfg)
    for i in range(33):
        st['R'][i] = val32(rng)
    st['R'][33] = CODE_BASE + 0x40     # PC
    if thumb is None:
        thumb = rng.random() < 0.5
    if mode is None:
        mode = rng.choice(MODES)
    if mode == 0b10110 and not st['cfg']['have_security_ext']:
        mode = 0b10011
    cpsr = (rng.getrandbits(5) << 27) | (rng.getrandbits(4) << 16) | (rng.getrandbits(3) << 6) | mode
    if thumb:
        cpsr |= 1 << 5
    if bigend:
        cpsr |= 1 << 9
    st['sys'][sidx(tables, 'cpsr')] = cpsr
    sctlr = st['sys'][sidx(tables, 'sctlr')]
    if not mpu:
        sctlr &= ~1
    if rng.random() < 0.3:
        sctlr ^= (1 << 1)      # A
    if rng.random() < 0.3:
        sctlr ^= (1 << 22)     # U
    st['sys'][sidx(tables, 'sctlr')] = sctlr
    for nm in ('spsr_hyp', 'spsr_svc', 'spsr_abt', 'spsr_und', 'spsr_mon', 'spsr_irq', 'spsr_fiq'):
        m2 = rng.choice(MODES)
        st['sys'][sidx(tables, nm)] = (rng.getrandbits(27) << 5) | m2
    if rng.random() < 0.3:
        st['sys'][sidx(tables, 'scr')] = rng.getrandbits(10)
    for dev in st['mem']:
        for k in range(len(dev[2])):
            dev[2][k] = rng.getrandbits(8) if rng.random() < 0.5 else 0
    return st


def put_instr(st, word, length, at=None):
    """write an instruction (16 or 32 bit) at `at` (default PC) in fetch order (little-endian halfwords)"""
    at = st['R'][33] if at is None else at
    thumb = (length == 16) or st.get('_thumb32')
    bs = []
    if length == 16:
        bs = list(word.to_bytes(2, 'little'))
    elif st.get('_thumb32'):
        bs = list((word >> 16).to_bytes(2, 'little')) + list((word & 0xFFFF).to_bytes(2, 'little'))
    else:
        bs = list(word.to_bytes(4, 'little'))
    for dev in st['mem']:
        if dev[0] <= at < dev[1]:
            for k, b in enumerate(bs):
                if at - dev[0] + k < len(dev[2]):
                    dev[2][at - dev[0] + k] = b
    return st


def random_arm_word(rng):
    w = rng.getrandbits(32)
    r = rng.random()
    if r < 0.7:
        w = (w & 0x0FFFFFFF) | (0xE << 28)
    elif r < 0.8:
        w = (w & 0x0FFFFFFF) | (0xF << 28)
    return w


def random_thumb16(rng):
    w = rng.getrandbits(16)
    while (w >> 11) in (0b11101, 0b11110, 0b11111):
        w = rng.getrandbits(16)
    return w


def random_thumb32(rng):
    hw1 = (rng.choice([0b11101, 0b11110, 0b11111]) << 11) | rng.getrandbits(11)
    return (hw1 << 16) | rng.getrandbits(16)


def case_line(st, tables, n=1, cmd='run', extra=None):
    ints = statelib.cfg_ints(st['cfg'], tables) + statelib.machine_ints(st)
    if extra is not None:
        ints = ints + [extra]
    return f'{cmd} {n} ' + ' '.join(map(str, ints))


def clean(st):
    st = {k: v for k, v in st.items() if not k.startswith('_')}
    return st
