(* Spec/Expected.v — for every helper of bits_ops.py / shift.py the architecturally expected
   result as one executable function of the arguments, including which arguments the Python
   code must reject (assertion / unbound local).  Built only from Spec/Pseudocode; it is both
   the right-hand side of the C17 theorems and the oracle of the failing-input search. *)
From Coq Require Import ZArith List Bool.
From ArmV Require Import Lib.PyZ Spec.Pseudocode.
Open Scope Z_scope.

Definition rejects {A} (h : hosterr) : res A := Err (EHost h).

Definition exp_add (a b n : Z) : Z := (a + b) mod 2 ^ n.
Definition exp_sub (a b n : Z) : Z := (a - b) mod 2 ^ n.
Definition exp_to_signed (x N : Z) : Z := SInt x N.
Definition exp_to_unsigned (x N : Z) : Z := x mod 2 ^ N.
Definition exp_sign_extend (x N M : Z) : Z := SignExtend x N M.
Definition exp_lower_chunk (x n : Z) : Z := x mod 2 ^ n.
Definition exp_add_with_carry (x y c N : Z) : Z * Z * Z := AddWithCarry N x y c.
Definition exp_signed_sat_q (i n : Z) : Z * Z := SignedSatQ i n.
Definition exp_unsigned_sat_q (i n : Z) : Z * Z := UnsignedSatQ i n.
Definition exp_signed_sat (i n : Z) : Z := fst (SignedSatQ i n).
Definition exp_unsigned_sat (i n : Z) : Z := fst (UnsignedSatQ i n).
Definition exp_sat_q (i n u : Z) : Z * Z := if u =? 0 then SignedSatQ i n else UnsignedSatQ i n.
Definition exp_sat (i n u : Z) : Z := fst (exp_sat_q i n u).
Definition exp_align (x y : Z) : Z := Align x y.
Definition exp_substring (x hi lo : Z) : Z := bits x hi lo.
Definition exp_bit_at (x i : Z) : Z := bit x i.
Definition exp_set_substring (x hi lo v : Z) : Z := insert x hi lo v.
Definition exp_set_bit_at (x i v : Z) : Z := insert x i i v.
Definition exp_chain (h l k : Z) : Z := h * 2 ^ k + l.
Definition exp_bit_not (b len : Z) : Z := 2 ^ len - 1 - b.
Definition exp_bit_count (x b N : Z) : Z := if b =? 0 then N - BitCount N x else BitCount N x.
Definition exp_is_ones (x N : Z) : Z := B2Z (x =? 2 ^ N - 1).
Definition exp_big_endian_reverse (v n : Z) : res Z :=
  if (n =? 1) || (n =? 2) || (n =? 4) || (n =? 8) then Val (BigEndianReverse v n) else rejects HAssert.
(* LowestSetBit: index of the lowest one bit, N if x = 0 *)
Fixpoint lowest_from (fuel : nat) (i : Z) (x : Z) : Z :=
  match fuel with O => i | S k => if bit x i =? 1 then i else lowest_from k (i + 1) x end.
Definition exp_lowest_set_bit (x N : Z) : option Z := Some (if x =? 0 then N else lowest_from (Z.to_nat N) 0 x).

Definition exp_lsl_c (x N n : Z) : res (Z * Z) := if 1 <=? n then Val (LSL_C N x n) else rejects HAssert.
Definition exp_lsr_c (x N n : Z) : res (Z * Z) := if 1 <=? n then Val (LSR_C N x n) else rejects HAssert.
Definition exp_asr_c (x N n : Z) : res (Z * Z) := if 1 <=? n then Val (ASR_C N x n) else rejects HAssert.
Definition exp_ror_c (x N n : Z) : res (Z * Z) := if n =? 0 then rejects HAssert else Val (ROR_C N x n).
Definition exp_rrx_c (x N c : Z) : Z * Z := RRX_C N x c.
Definition exp_lsl (x N n : Z) : res Z := if 0 <=? n then Val ((x * 2 ^ n) mod 2 ^ N) else rejects HAssert.
Definition exp_lsr (x N n : Z) : res Z := if 0 <=? n then Val (x / 2 ^ n) else rejects HAssert.
Definition exp_asr (x N n : Z) : res Z :=
  if 0 <=? n then Val (if n =? 0 then x else fst (ASR_C N x n)) else rejects HAssert.
Definition exp_ror (x N n : Z) : res Z := Val (if n =? 0 then x else ROR N x n).
Definition exp_rrx (x N c : Z) : Z := fst (RRX_C N x c).
Definition exp_shift_c (v N t n c : Z) : res (Z * Z) :=
  if (t =? SRType_RRX) && negb (n =? 1) then rejects HAssert else Val (Shift_C N v t n c).
Definition exp_shift (v N t n c : Z) : res Z :=
  match exp_shift_c v N t n c with Val p => Val (fst p) | Err e => Err e end.
Definition exp_decode_imm_shift (t imm5 : Z) : res (Z * Z) :=
  if (0 <=? t) && (t <=? 3) then Val (DecodeImmShift t imm5) else rejects HUnbound.
Definition exp_decode_reg_shift (t : Z) : res Z :=
  if (0 <=? t) && (t <=? 3) then Val (DecodeRegShift t) else rejects HUnbound.
Definition exp_arm_expand_imm_c (imm12 c : Z) : res (Z * Z) := Val (ARMExpandImm_C imm12 c).
Definition exp_arm_expand_imm (imm12 : Z) : res Z := Val (fst (ARMExpandImm_C imm12 0)).
Definition exp_thumb_expand_imm_c (imm12 c : Z) : res (Z * Z) := Val (ThumbExpandImm_C imm12 c).
Definition exp_thumb_expand_imm (imm12 : Z) : res Z := Val (fst (ThumbExpandImm_C imm12 0)).
