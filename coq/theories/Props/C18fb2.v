(* Props/C18fb2.v — C18: operand extraction is total (shard 2 of 8).  For EVERY integer w and every machine state,
   from_bitarray of the encoding class returns an operand record or None (UNPREDICTABLE), or raises the Undefined
   Instruction exception — never a host error — and leaves the state untouched.  One theorem per concrete class. *)
From Coq Require Import ZArith List Bool Lia ZifyBool.
From ArmV Require Import Lib.PyZ Lib.Monad Lib.Machine Spec.Pseudocode Spec.Arch Spec.MachineView Spec.OperandSpec.
From Gen Require Import enums bits_ops shift regviews records hubm opsyn core exec conc.
Import ListNotations.
Open Scope Z_scope.
From ArmV Require Proofs.FbTotal2.

Theorem C18_fb_AdcRegisterA1 w s : fb_safe (fb_out (AdcRegisterA1_from_bitarray w) s) s.
Proof. exact (FbTotal2.safe_AdcRegisterA1 w s). Qed.
Print Assumptions C18_fb_AdcRegisterA1.

Theorem C18_fb_AddImmediateThumbT4 w s : fb_safe (fb_out (AddImmediateThumbT4_from_bitarray w) s) s.
Proof. exact (FbTotal2.safe_AddImmediateThumbT4 w s). Qed.
Print Assumptions C18_fb_AddImmediateThumbT4.

Theorem C18_fb_AddSpPlusImmediateT2 w s : fb_safe (fb_out (AddSpPlusImmediateT2_from_bitarray w) s) s.
Proof. exact (FbTotal2.safe_AddSpPlusImmediateT2 w s). Qed.
Print Assumptions C18_fb_AddSpPlusImmediateT2.

Theorem C18_fb_AdrA2 w s : fb_safe (fb_out (AdrA2_from_bitarray w) s) s.
Proof. exact (FbTotal2.safe_AdrA2 w s). Qed.
Print Assumptions C18_fb_AdrA2.

Theorem C18_fb_AndRegisterT1 w s : fb_safe (fb_out (AndRegisterT1_from_bitarray w) s) s.
Proof. exact (FbTotal2.safe_AndRegisterT1 w s). Qed.
Print Assumptions C18_fb_AndRegisterT1.

Theorem C18_fb_BA1 w s : fb_safe (fb_out (BA1_from_bitarray w) s) s.
Proof. exact (FbTotal2.safe_BA1 w s). Qed.
Print Assumptions C18_fb_BA1.

Theorem C18_fb_BfiT1 w s : fb_safe (fb_out (BfiT1_from_bitarray w) s) s.
Proof. exact (FbTotal2.safe_BfiT1 w s). Qed.
Print Assumptions C18_fb_BfiT1.

Theorem C18_fb_BkptT1 w s : fb_safe (fb_out (BkptT1_from_bitarray w) s) s.
Proof. exact (FbTotal2.safe_BkptT1 w s). Qed.
Print Assumptions C18_fb_BkptT1.

Theorem C18_fb_BxT1 w s : fb_safe (fb_out (BxT1_from_bitarray w) s) s.
Proof. exact (FbTotal2.safe_BxT1 w s). Qed.
Print Assumptions C18_fb_BxT1.

Theorem C18_fb_ClrexA1 w s : fb_safe (fb_out (ClrexA1_from_bitarray w) s) s.
Proof. exact (FbTotal2.safe_ClrexA1 w s). Qed.
Print Assumptions C18_fb_ClrexA1.

Theorem C18_fb_CmnRegisterT1 w s : fb_safe (fb_out (CmnRegisterT1_from_bitarray w) s) s.
Proof. exact (FbTotal2.safe_CmnRegisterT1 w s). Qed.
Print Assumptions C18_fb_CmnRegisterT1.

Theorem C18_fb_CmpRegisterT2 w s : fb_safe (fb_out (CmpRegisterT2_from_bitarray w) s) s.
Proof. exact (FbTotal2.safe_CmpRegisterT2 w s). Qed.
Print Assumptions C18_fb_CmpRegisterT2.

Theorem C18_fb_EorImmediateA1 w s : fb_safe (fb_out (EorImmediateA1_from_bitarray w) s) s.
Proof. exact (FbTotal2.safe_EorImmediateA1 w s). Qed.
Print Assumptions C18_fb_EorImmediateA1.

Theorem C18_fb_IsbT1 w s : fb_safe (fb_out (IsbT1_from_bitarray w) s) s.
Proof. exact (FbTotal2.safe_IsbT1 w s). Qed.
Print Assumptions C18_fb_IsbT1.

Theorem C18_fb_LdcLdc2LiteralT1 w s : fb_safe (fb_out (LdcLdc2LiteralT1_from_bitarray w) s) s.
Proof. exact (FbTotal2.safe_LdcLdc2LiteralT1 w s). Qed.
Print Assumptions C18_fb_LdcLdc2LiteralT1.

Theorem C18_fb_LdmdbA1 (cfg : config) w s : fb_safe (fb_out (LdmdbA1_from_bitarray cfg w) s) s.
Proof. exact (FbTotal2.safe_LdmdbA1 cfg w s). Qed.
Print Assumptions C18_fb_LdmdbA1.

Theorem C18_fb_LdrLiteralA1 w s : fb_safe (fb_out (LdrLiteralA1_from_bitarray w) s) s.
Proof. exact (FbTotal2.safe_LdrLiteralA1 w s). Qed.
Print Assumptions C18_fb_LdrLiteralA1.

Theorem C18_fb_LdrbImmediateThumbT2 w s : fb_safe (fb_out (LdrbImmediateThumbT2_from_bitarray w) s) s.
Proof. exact (FbTotal2.safe_LdrbImmediateThumbT2 w s). Qed.
Print Assumptions C18_fb_LdrbImmediateThumbT2.

Theorem C18_fb_LdrbtA2 (cfg : config) w s : fb_safe (fb_out (LdrbtA2_from_bitarray cfg w) s) s.
Proof. exact (FbTotal2.safe_LdrbtA2 cfg w s). Qed.
Print Assumptions C18_fb_LdrbtA2.

Theorem C18_fb_LdrexT1 w s : fb_safe (fb_out (LdrexT1_from_bitarray w) s) s.
Proof. exact (FbTotal2.safe_LdrexT1 w s). Qed.
Print Assumptions C18_fb_LdrexT1.

Theorem C18_fb_LdrhImmediateThumbT1 w s : fb_safe (fb_out (LdrhImmediateThumbT1_from_bitarray w) s) s.
Proof. exact (FbTotal2.safe_LdrhImmediateThumbT1 w s). Qed.
Print Assumptions C18_fb_LdrhImmediateThumbT1.

Theorem C18_fb_LdrhtA1 w s : fb_safe (fb_out (LdrhtA1_from_bitarray w) s) s.
Proof. exact (FbTotal2.safe_LdrhtA1 w s). Qed.
Print Assumptions C18_fb_LdrhtA1.

Theorem C18_fb_LdrsbRegisterA1 (cfg : config) w s : fb_safe (fb_out (LdrsbRegisterA1_from_bitarray cfg w) s) s.
Proof. exact (FbTotal2.safe_LdrsbRegisterA1 cfg w s). Qed.
Print Assumptions C18_fb_LdrsbRegisterA1.

Theorem C18_fb_LdrshImmediateT2 w s : fb_safe (fb_out (LdrshImmediateT2_from_bitarray w) s) s.
Proof. exact (FbTotal2.safe_LdrshImmediateT2 w s). Qed.
Print Assumptions C18_fb_LdrshImmediateT2.

Theorem C18_fb_LdrshtT1 w s : fb_safe (fb_out (LdrshtT1_from_bitarray w) s) s.
Proof. exact (FbTotal2.safe_LdrshtT1 w s). Qed.
Print Assumptions C18_fb_LdrshtT1.

Theorem C18_fb_LslRegisterT1 w s : fb_safe (fb_out (LslRegisterT1_from_bitarray w) s) s.
Proof. exact (FbTotal2.safe_LslRegisterT1 w s). Qed.
Print Assumptions C18_fb_LslRegisterT1.

Theorem C18_fb_McrMcr2A1 w s : fb_safe (fb_out (McrMcr2A1_from_bitarray w) s) s.
Proof. exact (FbTotal2.safe_McrMcr2A1 w s). Qed.
Print Assumptions C18_fb_McrMcr2A1.

Theorem C18_fb_MlaA1 (cfg : config) w s : fb_safe (fb_out (MlaA1_from_bitarray cfg w) s) s.
Proof. exact (FbTotal2.safe_MlaA1 cfg w s). Qed.
Print Assumptions C18_fb_MlaA1.

Theorem C18_fb_MovImmediateT3 w s : fb_safe (fb_out (MovImmediateT3_from_bitarray w) s) s.
Proof. exact (FbTotal2.safe_MovImmediateT3 w s). Qed.
Print Assumptions C18_fb_MovImmediateT3.

Theorem C18_fb_MrcMrc2A2 w s : fb_safe (fb_out (MrcMrc2A2_from_bitarray w) s) s.
Proof. exact (FbTotal2.safe_MrcMrc2A2 w s). Qed.
Print Assumptions C18_fb_MrcMrc2A2.

Theorem C18_fb_MrsApplicationT1 w s : fb_safe (fb_out (MrsApplicationT1_from_bitarray w) s) s.
Proof. exact (FbTotal2.safe_MrsApplicationT1 w s). Qed.
Print Assumptions C18_fb_MrsApplicationT1.

Theorem C18_fb_MsrRegisterSystemT1 w s : fb_safe (fb_out (MsrRegisterSystemT1_from_bitarray w) s) s.
Proof. exact (FbTotal2.safe_MsrRegisterSystemT1 w s). Qed.
Print Assumptions C18_fb_MsrRegisterSystemT1.

Theorem C18_fb_MvnRegisterT1 w s : fb_safe (fb_out (MvnRegisterT1_from_bitarray w) s) s.
Proof. exact (FbTotal2.safe_MvnRegisterT1 w s). Qed.
Print Assumptions C18_fb_MvnRegisterT1.

Theorem C18_fb_OrrImmediateT1 w s : fb_safe (fb_out (OrrImmediateT1_from_bitarray w) s) s.
Proof. exact (FbTotal2.safe_OrrImmediateT1 w s). Qed.
Print Assumptions C18_fb_OrrImmediateT1.

Theorem C18_fb_PldImmediateT1 w s : fb_safe (fb_out (PldImmediateT1_from_bitarray w) s) s.
Proof. exact (FbTotal2.safe_PldImmediateT1 w s). Qed.
Print Assumptions C18_fb_PldImmediateT1.

Theorem C18_fb_PopThumbT1 w s : fb_safe (fb_out (PopThumbT1_from_bitarray w) s) s.
Proof. exact (FbTotal2.safe_PopThumbT1 w s). Qed.
Print Assumptions C18_fb_PopThumbT1.

Theorem C18_fb_Qadd16A1 w s : fb_safe (fb_out (Qadd16A1_from_bitarray w) s) s.
Proof. exact (FbTotal2.safe_Qadd16A1 w s). Qed.
Print Assumptions C18_fb_Qadd16A1.

Theorem C18_fb_QdaddA1 w s : fb_safe (fb_out (QdaddA1_from_bitarray w) s) s.
Proof. exact (FbTotal2.safe_QdaddA1 w s). Qed.
Print Assumptions C18_fb_QdaddA1.

Theorem C18_fb_Qsub8A1 w s : fb_safe (fb_out (Qsub8A1_from_bitarray w) s) s.
Proof. exact (FbTotal2.safe_Qsub8A1 w s). Qed.
Print Assumptions C18_fb_Qsub8A1.

Theorem C18_fb_Rev16T2 w s : fb_safe (fb_out (Rev16T2_from_bitarray w) s) s.
Proof. exact (FbTotal2.safe_Rev16T2 w s). Qed.
Print Assumptions C18_fb_Rev16T2.

Theorem C18_fb_RfeT1 w s : fb_safe (fb_out (RfeT1_from_bitarray w) s) s.
Proof. exact (FbTotal2.safe_RfeT1 w s). Qed.
Print Assumptions C18_fb_RfeT1.

Theorem C18_fb_RrxT1 w s : fb_safe (fb_out (RrxT1_from_bitarray w) s) s.
Proof. exact (FbTotal2.safe_RrxT1 w s). Qed.
Print Assumptions C18_fb_RrxT1.

Theorem C18_fb_RscRegisterA1 w s : fb_safe (fb_out (RscRegisterA1_from_bitarray w) s) s.
Proof. exact (FbTotal2.safe_RscRegisterA1 w s). Qed.
Print Assumptions C18_fb_RscRegisterA1.

Theorem C18_fb_SbcImmediateA1 w s : fb_safe (fb_out (SbcImmediateA1_from_bitarray w) s) s.
Proof. exact (FbTotal2.safe_SbcImmediateA1 w s). Qed.
Print Assumptions C18_fb_SbcImmediateA1.

Theorem C18_fb_SdivA1 w s : fb_safe (fb_out (SdivA1_from_bitarray w) s) s.
Proof. exact (FbTotal2.safe_SdivA1 w s). Qed.
Print Assumptions C18_fb_SdivA1.

Theorem C18_fb_SevT2 w s : fb_safe (fb_out (SevT2_from_bitarray w) s) s.
Proof. exact (FbTotal2.safe_SevT2 w s). Qed.
Print Assumptions C18_fb_SevT2.

Theorem C18_fb_ShsaxT1 w s : fb_safe (fb_out (ShsaxT1_from_bitarray w) s) s.
Proof. exact (FbTotal2.safe_ShsaxT1 w s). Qed.
Print Assumptions C18_fb_ShsaxT1.

Theorem C18_fb_SmlaT1 w s : fb_safe (fb_out (SmlaT1_from_bitarray w) s) s.
Proof. exact (FbTotal2.safe_SmlaT1 w s). Qed.
Print Assumptions C18_fb_SmlaT1.

Theorem C18_fb_SmlalxyT1 w s : fb_safe (fb_out (SmlalxyT1_from_bitarray w) s) s.
Proof. exact (FbTotal2.safe_SmlalxyT1 w s). Qed.
Print Assumptions C18_fb_SmlalxyT1.

Theorem C18_fb_SmmlaT1 w s : fb_safe (fb_out (SmmlaT1_from_bitarray w) s) s.
Proof. exact (FbTotal2.safe_SmmlaT1 w s). Qed.
Print Assumptions C18_fb_SmmlaT1.

Theorem C18_fb_SmulT1 w s : fb_safe (fb_out (SmulT1_from_bitarray w) s) s.
Proof. exact (FbTotal2.safe_SmulT1 w s). Qed.
Print Assumptions C18_fb_SmulT1.

Theorem C18_fb_SrsThumbT1 w s : fb_safe (fb_out (SrsThumbT1_from_bitarray w) s) s.
Proof. exact (FbTotal2.safe_SrsThumbT1 w s). Qed.
Print Assumptions C18_fb_SrsThumbT1.

Theorem C18_fb_Ssub16A1 w s : fb_safe (fb_out (Ssub16A1_from_bitarray w) s) s.
Proof. exact (FbTotal2.safe_Ssub16A1 w s). Qed.
Print Assumptions C18_fb_Ssub16A1.

Theorem C18_fb_StmA1 w s : fb_safe (fb_out (StmA1_from_bitarray w) s) s.
Proof. exact (FbTotal2.safe_StmA1 w s). Qed.
Print Assumptions C18_fb_StmA1.

Theorem C18_fb_StrImmediateArmA1 w s : fb_safe (fb_out (StrImmediateArmA1_from_bitarray w) s) s.
Proof. exact (FbTotal2.safe_StrImmediateArmA1 w s). Qed.
Print Assumptions C18_fb_StrImmediateArmA1.

Theorem C18_fb_StrbImmediateArmA1 w s : fb_safe (fb_out (StrbImmediateArmA1_from_bitarray w) s) s.
Proof. exact (FbTotal2.safe_StrbImmediateArmA1 w s). Qed.
Print Assumptions C18_fb_StrbImmediateArmA1.

Theorem C18_fb_StrbtA2 (cfg : config) w s : fb_safe (fb_out (StrbtA2_from_bitarray cfg w) s) s.
Proof. exact (FbTotal2.safe_StrbtA2 cfg w s). Qed.
Print Assumptions C18_fb_StrbtA2.

Theorem C18_fb_StrexbT1 w s : fb_safe (fb_out (StrexbT1_from_bitarray w) s) s.
Proof. exact (FbTotal2.safe_StrexbT1 w s). Qed.
Print Assumptions C18_fb_StrexbT1.

Theorem C18_fb_StrhImmediateThumbT3 w s : fb_safe (fb_out (StrhImmediateThumbT3_from_bitarray w) s) s.
Proof. exact (FbTotal2.safe_StrhImmediateThumbT3 w s). Qed.
Print Assumptions C18_fb_StrhImmediateThumbT3.

Theorem C18_fb_StrtA2 (cfg : config) w s : fb_safe (fb_out (StrtA2_from_bitarray cfg w) s) s.
Proof. exact (FbTotal2.safe_StrtA2 cfg w s). Qed.
Print Assumptions C18_fb_StrtA2.

Theorem C18_fb_SubRegisterShiftedRegisterA1 w s : fb_safe (fb_out (SubRegisterShiftedRegisterA1_from_bitarray w) s) s.
Proof. exact (FbTotal2.safe_SubRegisterShiftedRegisterA1 w s). Qed.
Print Assumptions C18_fb_SubRegisterShiftedRegisterA1.

Theorem C18_fb_SubSpMinusRegisterT1 w s : fb_safe (fb_out (SubSpMinusRegisterT1_from_bitarray w) s) s.
Proof. exact (FbTotal2.safe_SubSpMinusRegisterT1 w s). Qed.
Print Assumptions C18_fb_SubSpMinusRegisterT1.

Theorem C18_fb_SxtabA1 w s : fb_safe (fb_out (SxtabA1_from_bitarray w) s) s.
Proof. exact (FbTotal2.safe_SxtabA1 w s). Qed.
Print Assumptions C18_fb_SxtabA1.

Theorem C18_fb_SxtbT2 w s : fb_safe (fb_out (SxtbT2_from_bitarray w) s) s.
Proof. exact (FbTotal2.safe_SxtbT2 w s). Qed.
Print Assumptions C18_fb_SxtbT2.

Theorem C18_fb_TeqRegisterShiftedRegisterA1 w s : fb_safe (fb_out (TeqRegisterShiftedRegisterA1_from_bitarray w) s) s.
Proof. exact (FbTotal2.safe_TeqRegisterShiftedRegisterA1 w s). Qed.
Print Assumptions C18_fb_TeqRegisterShiftedRegisterA1.

Theorem C18_fb_Uadd16A1 w s : fb_safe (fb_out (Uadd16A1_from_bitarray w) s) s.
Proof. exact (FbTotal2.safe_Uadd16A1 w s). Qed.
Print Assumptions C18_fb_Uadd16A1.

Theorem C18_fb_UdfA1 w s : fb_safe (fb_out (UdfA1_from_bitarray w) s) s.
Proof. exact (FbTotal2.safe_UdfA1 w s). Qed.
Print Assumptions C18_fb_UdfA1.

Theorem C18_fb_Uhadd8T1 w s : fb_safe (fb_out (Uhadd8T1_from_bitarray w) s) s.
Proof. exact (FbTotal2.safe_Uhadd8T1 w s). Qed.
Print Assumptions C18_fb_Uhadd8T1.

Theorem C18_fb_Uhsub8T1 w s : fb_safe (fb_out (Uhsub8T1_from_bitarray w) s) s.
Proof. exact (FbTotal2.safe_Uhsub8T1 w s). Qed.
Print Assumptions C18_fb_Uhsub8T1.

Theorem C18_fb_Uqadd16T1 w s : fb_safe (fb_out (Uqadd16T1_from_bitarray w) s) s.
Proof. exact (FbTotal2.safe_Uqadd16T1 w s). Qed.
Print Assumptions C18_fb_Uqadd16T1.

Theorem C18_fb_Uqsub16T1 w s : fb_safe (fb_out (Uqsub16T1_from_bitarray w) s) s.
Proof. exact (FbTotal2.safe_Uqsub16T1 w s). Qed.
Print Assumptions C18_fb_Uqsub16T1.

Theorem C18_fb_Usat16T1 w s : fb_safe (fb_out (Usat16T1_from_bitarray w) s) s.
Proof. exact (FbTotal2.safe_Usat16T1 w s). Qed.
Print Assumptions C18_fb_Usat16T1.

Theorem C18_fb_Usub8T1 w s : fb_safe (fb_out (Usub8T1_from_bitarray w) s) s.
Proof. exact (FbTotal2.safe_Usub8T1 w s). Qed.
Print Assumptions C18_fb_Usub8T1.

Theorem C18_fb_Uxtb16T1 w s : fb_safe (fb_out (Uxtb16T1_from_bitarray w) s) s.
Proof. exact (FbTotal2.safe_Uxtb16T1 w s). Qed.
Print Assumptions C18_fb_Uxtb16T1.

Theorem C18_fb_WfeT1 w s : fb_safe (fb_out (WfeT1_from_bitarray w) s) s.
Proof. exact (FbTotal2.safe_WfeT1 w s). Qed.
Print Assumptions C18_fb_WfeT1.
