(* Proofs/DecodeTotal.v — decoding is total: for every instruction word, every regenerated decoder returns an encoding
   class, "no such encoding", the UNDEFINED outcome or the documented not-implemented outcome — never a host error
   (TypeError, IndexError, ...) and never an untranslated construct. *)
From Coq Require Import ZArith List Bool Lia.
From ArmV Require Import Lib.PyZ Lib.Monad Lib.Machine Proofs.StateLemmas Proofs.CondProofs.
From Gen Require Import enums bits_ops opsyn core decoders.
Import ListNotations.
Open Scope Z_scope.

Definition ok_res {A} (r : res A) : Prop :=
  match r with Val _ => True | Err EUndefined => True | Err ENotImpl => True | Err _ => False end.
Lemma ok_bind {A B} (r : res A) (f : A -> res B) : ok_res r -> (forall a, ok_res (f a)) -> ok_res (ebind r f).
Proof. destruct r as [a|e]; cbn; intros H Hf; [apply Hf|exact H]. Qed.

(* walk every branch of a decoder body; sub-decoder calls are closed by their own theorems (hint database) *)
Create HintDb dectotal.
Ltac walk :=
  repeat match goal with
         | |- ok_res (if ?c then _ else _) => destruct c
         | |- ok_res (ebind _ _) => apply ok_bind; [|intros; exact I]
         | |- ok_res (Val _) => exact I
         | |- ok_res (Err EUndefined) => exact I
         | |- ok_res (Err ENotImpl) => exact I
         end; auto with dectotal.

Theorem total_arm_misc w : ok_res (dec_arm_miscellaneous_instructions w).
Proof. unfold dec_arm_miscellaneous_instructions. cbv zeta. walk. Qed.
#[export] Hint Resolve total_arm_misc : dectotal.
Theorem total_arm_mul w : ok_res (dec_arm_multiply_and_multiply_accumulate w).
Proof. unfold dec_arm_multiply_and_multiply_accumulate. cbv zeta. walk. Qed.
#[export] Hint Resolve total_arm_mul : dectotal.
Theorem total_arm_msr w : ok_res (dec_arm_msr_immediate_and_hints w).
Proof. unfold dec_arm_msr_immediate_and_hints. cbv zeta. walk. Qed.
#[export] Hint Resolve total_arm_msr : dectotal.
Theorem total_arm_dpm w : ok_res (dec_arm_data_processing_and_miscellaneous_instructions w).
Proof. unfold dec_arm_data_processing_and_miscellaneous_instructions. cbv zeta. walk. Qed.
#[export] Hint Resolve total_arm_dpm : dectotal.
Theorem total_arm_coproc w : ok_res (dec_arm_coprocessor_instructions_and_supervisor_call w).
Proof. unfold dec_arm_coprocessor_instructions_and_supervisor_call. cbv zeta. walk. Qed.
#[export] Hint Resolve total_arm_coproc : dectotal.
Theorem total_arm_hints w : ok_res (dec_arm_memory_hints_advanced_simd_instructions_and_miscellaneous_instructions w).
Proof. unfold dec_arm_memory_hints_advanced_simd_instructions_and_miscellaneous_instructions. cbv zeta. walk. Qed.
#[export] Hint Resolve total_arm_hints : dectotal.
Theorem total_arm_uncond w : ok_res (dec_arm_unconditional_instructions w).
Proof. unfold dec_arm_unconditional_instructions. cbv zeta. walk. Qed.
#[export] Hint Resolve total_arm_uncond : dectotal.
Theorem total_arm w : ok_res (dec_arm_instruction_set w).
Proof. unfold dec_arm_instruction_set. cbv zeta. walk. Qed.

(* ---------- Thumb ---------- *)
Theorem total_thumb_coproc w : ok_res (dec_thumb_coprocessor_advanced_simd_and_floating_point_instructions w).
Proof. unfold dec_thumb_coprocessor_advanced_simd_and_floating_point_instructions. cbv zeta. walk. Qed.
#[export] Hint Resolve total_thumb_coproc : dectotal.
Theorem total_thumb_cps w : ok_res (dec_thumb_change_processor_state_and_hints w).
Proof. unfold dec_thumb_change_processor_state_and_hints. cbv zeta. walk. Qed.
#[export] Hint Resolve total_thumb_cps : dectotal.
Theorem total_thumb_misc_ctl w : ok_res (dec_thumb_miscellaneous_control_instructions w).
Proof. unfold dec_thumb_miscellaneous_control_instructions. cbv zeta. walk. Qed.
#[export] Hint Resolve total_thumb_misc_ctl : dectotal.
Theorem total_thumb_branches w : ok_res (dec_thumb_branches_and_miscellaneous_control w).
Proof. unfold dec_thumb_branches_and_miscellaneous_control. cbv zeta. walk. Qed.
#[export] Hint Resolve total_thumb_branches : dectotal.
Theorem total_thumb_load_byte w : ok_res (dec_thumb_load_byte_memory_hints w).
Proof. unfold dec_thumb_load_byte_memory_hints. cbv zeta. walk. Qed.
#[export] Hint Resolve total_thumb_load_byte : dectotal.
Theorem total_thumb32 w : ok_res (dec_thumb_instruction_set_encoding_32_bit w).
Proof. unfold dec_thumb_instruction_set_encoding_32_bit. cbv zeta. walk. Qed.
#[export] Hint Resolve total_thumb32 : dectotal.

(* the processor's decode_instruction, in every instruction-set state: a class, None, UNDEFINED or not-implemented *)
Definition ok_out {A} (o : outcome machine A) (s : machine) : Prop :=
  match o with Ok _ s' => s' = s | Exc e s' => s' = s /\ (e = EUndefined \/ e = ENotImpl) end.
Lemma ok_lift {A} (r : res A) s : ok_res r -> ok_out (lift r s) s.
Proof. destruct r as [a|e]; cbn; intros H; [reflexivity|]. split; [reflexivity|]. destruct e; try contradiction; auto. Qed.
Theorem decode_total w s : ok_out (ArmV6_decode_instruction w s) s.
Proof.
  pose proof (ok_lift _ s (total_arm w)) as HA. pose proof (ok_lift _ s (total_thumb32 w)) as HT.
  unfold ArmV6_decode_instruction, op_decode_instruction, dec_thumb_instruction_set, ArmV6_this_instr_length, get_opcode_len, bind, ret.
  cbv beta. rewrite current_instr_set_spec. cbv beta iota.
  destruct (_ =? InstrSet_ARM); cbv beta iota.
  - destruct (lift (dec_arm_instruction_set w) s); exact HA.
  - rewrite current_instr_set_spec. cbv beta iota. destruct (_ =? InstrSet_THUMB); cbv beta iota; [|reflexivity].
    destruct (opcode_len s =? 16); cbv beta iota; [reflexivity|]. destruct (opcode_len s =? 32); cbv beta iota; [|reflexivity].
    destruct (lift (dec_thumb_instruction_set_encoding_32_bit w) s); exact HT.
Qed.
