(* Proofs/CoprocExec.v — every coprocessor instruction class (CDP, MCR, MCRR, MRC, MRRC, LDC immediate/literal, STC) ends exactly as
   coproc_accepted decides: UNDEFINED when the access-control registers deny the access, the emulator's not-implemented outcome
   (no coprocessor is modelled) otherwise; the state is untouched either way. *)
From Coq Require Import ZArith List Bool Lia ZifyBool.
From ArmV Require Import Lib.PyZ Lib.Monad Lib.Machine Spec.Pseudocode Spec.Arch Spec.Coproc
  Proofs.StateLemmas Proofs.CondProofs Proofs.GuardProofs Proofs.BankProofs Proofs.MachineOps Proofs.CoprocProofs.
From Gen Require Import enums bits_ops core exec.
Open Scope Z_scope.
(* a sentence that runs this long no longer matches the code it was written for: fail instead of searching *)
Set Default Timeout 240.

Definition coproc_outcome (cfg : config) (cp : Z) (s : machine) : outcome machine unit :=
  if coproc_denied (truthy (cfg_have_security_ext cfg)) (IsSecure (sysctx_of cfg s) (cpsr_of s)) (mode_of s =? 16)
                   (getl (sys s) 10) (getl (sys s) 43) cp
  then Exc EUndefined s else Exc ENotImpl s.

Theorem CdpCdp2_ok cfg instr cp s : cond_holds s -> cfg_have_virt_ext cfg = 0 -> 0 <= cp < 14 -> cp <> 10 -> cp <> 11 ->
  CdpCdp2_execute cfg instr cp s = coproc_outcome cfg cp s.
Proof.
  intros Hc Hv Hcp H10 H11. unfold CdpCdp2_execute. rewrite guard_pass by exact Hc. rewrite bind_ret_tt.
  unfold ArmV6_this_instr at 1. rewrite !bind_assoc_run. unfold bind at 1, get_opcode_w. cbn beta iota. rewrite bind_ret_run.
  rewrite run_bind, coproc_accepted_spec by assumption. unfold coproc_outcome.
  destruct (coproc_denied _ _ _ _ _ _); reflexivity.
Qed.

Theorem McrMcr2_ok cfg instr cp t s : cond_holds s -> cfg_have_virt_ext cfg = 0 -> 0 <= cp < 14 -> cp <> 10 -> cp <> 11 ->
  McrMcr2_execute cfg instr cp t s = coproc_outcome cfg cp s.
Proof.
  intros Hc Hv Hcp H10 H11. unfold McrMcr2_execute. rewrite guard_pass by exact Hc. rewrite bind_ret_tt.
  unfold ArmV6_this_instr at 1. rewrite !bind_assoc_run. unfold bind at 1, get_opcode_w. cbn beta iota. rewrite bind_ret_run.
  rewrite run_bind, coproc_accepted_spec by assumption. unfold coproc_outcome.
  destruct (coproc_denied _ _ _ _ _ _); reflexivity.
Qed.

Theorem McrrMcrr2_ok cfg instr cp t t2 s : cond_holds s -> cfg_have_virt_ext cfg = 0 -> 0 <= cp < 14 -> cp <> 10 -> cp <> 11 ->
  McrrMcrr2_execute cfg instr cp t t2 s = coproc_outcome cfg cp s.
Proof.
  intros Hc Hv Hcp H10 H11. unfold McrrMcrr2_execute. rewrite guard_pass by exact Hc. rewrite bind_ret_tt.
  unfold ArmV6_this_instr at 1. rewrite !bind_assoc_run. unfold bind at 1, get_opcode_w. cbn beta iota. rewrite bind_ret_run.
  rewrite run_bind, coproc_accepted_spec by assumption. unfold coproc_outcome.
  destruct (coproc_denied _ _ _ _ _ _); reflexivity.
Qed.

Theorem MrcMrc2_ok cfg instr cp t s : cond_holds s -> cfg_have_virt_ext cfg = 0 -> 0 <= cp < 14 -> cp <> 10 -> cp <> 11 ->
  MrcMrc2_execute cfg instr cp t s = coproc_outcome cfg cp s.
Proof.
  intros Hc Hv Hcp H10 H11. unfold MrcMrc2_execute. rewrite guard_pass by exact Hc. rewrite bind_ret_tt.
  unfold ArmV6_this_instr at 1. rewrite !bind_assoc_run. unfold bind at 1, get_opcode_w. cbn beta iota. rewrite bind_ret_run.
  rewrite run_bind, coproc_accepted_spec by assumption. unfold coproc_outcome.
  destruct (coproc_denied _ _ _ _ _ _); reflexivity.
Qed.

Theorem MrrcMrrc2_ok cfg instr cp t t2 s : cond_holds s -> cfg_have_virt_ext cfg = 0 -> 0 <= cp < 14 -> cp <> 10 -> cp <> 11 ->
  MrrcMrrc2_execute cfg instr cp t t2 s = coproc_outcome cfg cp s.
Proof.
  intros Hc Hv Hcp H10 H11. unfold MrrcMrrc2_execute. rewrite guard_pass by exact Hc. rewrite bind_ret_tt.
  unfold ArmV6_this_instr at 1. rewrite !bind_assoc_run. unfold bind at 1, get_opcode_w. cbn beta iota. rewrite bind_ret_run.
  rewrite run_bind, coproc_accepted_spec by assumption. unfold coproc_outcome.
  destruct (coproc_denied _ _ _ _ _ _); reflexivity.
Qed.

Theorem LdcLdc2Immediate_ok cfg instr cp n add imm32 index wback s : cond_holds s -> cfg_have_virt_ext cfg = 0 -> 0 <= cp < 14 -> cp <> 10 -> cp <> 11 ->
  LdcLdc2Immediate_execute cfg instr cp n add imm32 index wback s = coproc_outcome cfg cp s.
Proof.
  intros Hc Hv Hcp H10 H11. unfold LdcLdc2Immediate_execute. rewrite guard_pass by exact Hc. rewrite bind_ret_tt.
  unfold ArmV6_this_instr at 1. rewrite !bind_assoc_run. unfold bind at 1, get_opcode_w. cbn beta iota. rewrite bind_ret_run.
  rewrite run_bind, coproc_accepted_spec by assumption. unfold coproc_outcome.
  destruct (coproc_denied _ _ _ _ _ _); reflexivity.
Qed.

Theorem LdcLdc2Literal_ok cfg instr cp add imm32 index s : cond_holds s -> cfg_have_virt_ext cfg = 0 -> 0 <= cp < 14 -> cp <> 10 -> cp <> 11 ->
  LdcLdc2Literal_execute cfg instr cp add imm32 index s = coproc_outcome cfg cp s.
Proof.
  intros Hc Hv Hcp H10 H11. unfold LdcLdc2Literal_execute. rewrite guard_pass by exact Hc. rewrite bind_ret_tt.
  unfold ArmV6_this_instr at 1. rewrite !bind_assoc_run. unfold bind at 1, get_opcode_w. cbn beta iota. rewrite bind_ret_run.
  rewrite run_bind, coproc_accepted_spec by assumption. unfold coproc_outcome.
  destruct (coproc_denied _ _ _ _ _ _); reflexivity.
Qed.

Theorem StcStc2_ok cfg instr cp n add imm32 index wback s : cond_holds s -> cfg_have_virt_ext cfg = 0 -> 0 <= cp < 14 -> cp <> 10 -> cp <> 11 ->
  StcStc2_execute cfg instr cp n add imm32 index wback s = coproc_outcome cfg cp s.
Proof.
  intros Hc Hv Hcp H10 H11. unfold StcStc2_execute. rewrite guard_pass by exact Hc. rewrite bind_ret_tt.
  unfold ArmV6_this_instr at 1. rewrite !bind_assoc_run. unfold bind at 1, get_opcode_w. cbn beta iota. rewrite bind_ret_run.
  rewrite run_bind, coproc_accepted_spec by assumption. unfold coproc_outcome.
  destruct (coproc_denied _ _ _ _ _ _); reflexivity.
Qed.
