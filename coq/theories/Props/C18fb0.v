(* Props/C18fb0.v — C18: operand extraction is total (shard 0 of 8).  For EVERY integer w and every machine state,
   from_bitarray of the encoding class returns an operand record or None (UNPREDICTABLE), or raises the Undefined
   Instruction exception — never a host error — and leaves the state untouched.  One theorem per concrete class. *)
From Coq Require Import ZArith List Bool Lia ZifyBool.
From ArmV Require Import Lib.PyZ Lib.Monad Lib.Machine Spec.Pseudocode Spec.Arch Spec.MachineView Spec.OperandSpec.
From Gen Require Import enums bits_ops shift regviews records hubm opsyn core exec conc.
Import ListNotations.
Open Scope Z_scope.
From ArmV Require Proofs.FbTotal0.

Theorem C18_fb_AdcImmediateA1 w s : fb_safe (fb_out (AdcImmediateA1_from_bitarray w) s) s.
Proof. exact (FbTotal0.safe_AdcImmediateA1 w s). Qed.
Print Assumptions C18_fb_AdcImmediateA1.

Theorem C18_fb_AddImmediateThumbT2 w s : fb_safe (fb_out (AddImmediateThumbT2_from_bitarray w) s) s.
Proof. exact (FbTotal0.safe_AddImmediateThumbT2 w s). Qed.
Print Assumptions C18_fb_AddImmediateThumbT2.

Theorem C18_fb_AddSpPlusImmediateA1 w s : fb_safe (fb_out (AddSpPlusImmediateA1_from_bitarray w) s) s.
Proof. exact (FbTotal0.safe_AddSpPlusImmediateA1 w s). Qed.
Print Assumptions C18_fb_AddSpPlusImmediateA1.

Theorem C18_fb_AddSpPlusRegisterThumbT3 w s : fb_safe (fb_out (AddSpPlusRegisterThumbT3_from_bitarray w) s) s.
Proof. exact (FbTotal0.safe_AddSpPlusRegisterThumbT3 w s). Qed.
Print Assumptions C18_fb_AddSpPlusRegisterThumbT3.

Theorem C18_fb_AndRegisterA1 w s : fb_safe (fb_out (AndRegisterA1_from_bitarray w) s) s.
Proof. exact (FbTotal0.safe_AndRegisterA1 w s). Qed.
Print Assumptions C18_fb_AndRegisterA1.

Theorem C18_fb_AsrRegisterT1 w s : fb_safe (fb_out (AsrRegisterT1_from_bitarray w) s) s.
Proof. exact (FbTotal0.safe_AsrRegisterT1 w s). Qed.
Print Assumptions C18_fb_AsrRegisterT1.

Theorem C18_fb_BfcT1 w s : fb_safe (fb_out (BfcT1_from_bitarray w) s) s.
Proof. exact (FbTotal0.safe_BfcT1 w s). Qed.
Print Assumptions C18_fb_BfcT1.

Theorem C18_fb_BicRegisterT2 w s : fb_safe (fb_out (BicRegisterT2_from_bitarray w) s) s.
Proof. exact (FbTotal0.safe_BicRegisterT2 w s). Qed.
Print Assumptions C18_fb_BicRegisterT2.

Theorem C18_fb_BlxRegisterT1 w s : fb_safe (fb_out (BlxRegisterT1_from_bitarray w) s) s.
Proof. exact (FbTotal0.safe_BlxRegisterT1 w s). Qed.
Print Assumptions C18_fb_BlxRegisterT1.

Theorem C18_fb_CdpCdp2T1 w s : fb_safe (fb_out (CdpCdp2T1_from_bitarray w) s) s.
Proof. exact (FbTotal0.safe_CdpCdp2T1 w s). Qed.
Print Assumptions C18_fb_CdpCdp2T1.

Theorem C18_fb_CmnRegisterA1 w s : fb_safe (fb_out (CmnRegisterA1_from_bitarray w) s) s.
Proof. exact (FbTotal0.safe_CmnRegisterA1 w s). Qed.
Print Assumptions C18_fb_CmnRegisterA1.

Theorem C18_fb_CmpRegisterShiftedRegisterA1 w s : fb_safe (fb_out (CmpRegisterShiftedRegisterA1_from_bitarray w) s) s.
Proof. exact (FbTotal0.safe_CmpRegisterShiftedRegisterA1 w s). Qed.
Print Assumptions C18_fb_CmpRegisterShiftedRegisterA1.

Theorem C18_fb_DsbT1 w s : fb_safe (fb_out (DsbT1_from_bitarray w) s) s.
Proof. exact (FbTotal0.safe_DsbT1 w s). Qed.
Print Assumptions C18_fb_DsbT1.

Theorem C18_fb_EretT1 w s : fb_safe (fb_out (EretT1_from_bitarray w) s) s.
Proof. exact (FbTotal0.safe_EretT1 w s). Qed.
Print Assumptions C18_fb_EretT1.

Theorem C18_fb_LdcLdc2LiteralA1 w s : fb_safe (fb_out (LdcLdc2LiteralA1_from_bitarray w) s) s.
Proof. exact (FbTotal0.safe_LdcLdc2LiteralA1 w s). Qed.
Print Assumptions C18_fb_LdcLdc2LiteralA1.

Theorem C18_fb_LdmUserRegistersA1 w s : fb_safe (fb_out (LdmUserRegistersA1_from_bitarray w) s) s.
Proof. exact (FbTotal0.safe_LdmUserRegistersA1 w s). Qed.
Print Assumptions C18_fb_LdmUserRegistersA1.

Theorem C18_fb_LdrImmediateThumbT3 w s : fb_safe (fb_out (LdrImmediateThumbT3_from_bitarray w) s) s.
Proof. exact (FbTotal0.safe_LdrImmediateThumbT3 w s). Qed.
Print Assumptions C18_fb_LdrImmediateThumbT3.

Theorem C18_fb_LdrbImmediateArmA1 w s : fb_safe (fb_out (LdrbImmediateArmA1_from_bitarray w) s) s.
Proof. exact (FbTotal0.safe_LdrbImmediateArmA1 w s). Qed.
Print Assumptions C18_fb_LdrbImmediateArmA1.

Theorem C18_fb_LdrbRegisterT2 w s : fb_safe (fb_out (LdrbRegisterT2_from_bitarray w) s) s.
Proof. exact (FbTotal0.safe_LdrbRegisterT2 w s). Qed.
Print Assumptions C18_fb_LdrbRegisterT2.

Theorem C18_fb_LdrdRegisterA1 (cfg : config) w s : fb_safe (fb_out (LdrdRegisterA1_from_bitarray cfg w) s) s.
Proof. exact (FbTotal0.safe_LdrdRegisterA1 cfg w s). Qed.
Print Assumptions C18_fb_LdrdRegisterA1.

Theorem C18_fb_LdrexhT1 w s : fb_safe (fb_out (LdrexhT1_from_bitarray w) s) s.
Proof. exact (FbTotal0.safe_LdrexhT1 w s). Qed.
Print Assumptions C18_fb_LdrexhT1.

Theorem C18_fb_LdrhRegisterT1 w s : fb_safe (fb_out (LdrhRegisterT1_from_bitarray w) s) s.
Proof. exact (FbTotal0.safe_LdrhRegisterT1 w s). Qed.
Print Assumptions C18_fb_LdrhRegisterT1.

Theorem C18_fb_LdrsbLiteralA1 w s : fb_safe (fb_out (LdrsbLiteralA1_from_bitarray w) s) s.
Proof. exact (FbTotal0.safe_LdrsbLiteralA1 w s). Qed.
Print Assumptions C18_fb_LdrsbLiteralA1.

Theorem C18_fb_LdrshImmediateA1 w s : fb_safe (fb_out (LdrshImmediateA1_from_bitarray w) s) s.
Proof. exact (FbTotal0.safe_LdrshImmediateA1 w s). Qed.
Print Assumptions C18_fb_LdrshImmediateA1.

Theorem C18_fb_LdrshtA1 w s : fb_safe (fb_out (LdrshtA1_from_bitarray w) s) s.
Proof. exact (FbTotal0.safe_LdrshtA1 w s). Qed.
Print Assumptions C18_fb_LdrshtA1.

Theorem C18_fb_LslImmediateT2 w s : fb_safe (fb_out (LslImmediateT2_from_bitarray w) s) s.
Proof. exact (FbTotal0.safe_LslImmediateT2 w s). Qed.
Print Assumptions C18_fb_LslImmediateT2.

Theorem C18_fb_LsrRegisterT1 w s : fb_safe (fb_out (LsrRegisterT1_from_bitarray w) s) s.
Proof. exact (FbTotal0.safe_LsrRegisterT1 w s). Qed.
Print Assumptions C18_fb_LsrRegisterT1.

Theorem C18_fb_McrrMcrr2T1 w s : fb_safe (fb_out (McrrMcrr2T1_from_bitarray w) s) s.
Proof. exact (FbTotal0.safe_McrrMcrr2T1 w s). Qed.
Print Assumptions C18_fb_McrrMcrr2T1.

Theorem C18_fb_MovImmediateT1 w s : fb_safe (fb_out (MovImmediateT1_from_bitarray w) s) s.
Proof. exact (FbTotal0.safe_MovImmediateT1 w s). Qed.
Print Assumptions C18_fb_MovImmediateT1.

Theorem C18_fb_MovtT1 w s : fb_safe (fb_out (MovtT1_from_bitarray w) s) s.
Proof. exact (FbTotal0.safe_MovtT1 w s). Qed.
Print Assumptions C18_fb_MovtT1.

Theorem C18_fb_MrrcMrrc2T2 w s : fb_safe (fb_out (MrrcMrrc2T2_from_bitarray w) s) s.
Proof. exact (FbTotal0.safe_MrrcMrrc2T2 w s). Qed.
Print Assumptions C18_fb_MrrcMrrc2T2.

Theorem C18_fb_MsrRegisterApplicationT1 w s : fb_safe (fb_out (MsrRegisterApplicationT1_from_bitarray w) s) s.
Proof. exact (FbTotal0.safe_MsrRegisterApplicationT1 w s). Qed.
Print Assumptions C18_fb_MsrRegisterApplicationT1.

Theorem C18_fb_MvnRegisterA1 w s : fb_safe (fb_out (MvnRegisterA1_from_bitarray w) s) s.
Proof. exact (FbTotal0.safe_MvnRegisterA1 w s). Qed.
Print Assumptions C18_fb_MvnRegisterA1.

Theorem C18_fb_OrnRegisterT1 w s : fb_safe (fb_out (OrnRegisterT1_from_bitarray w) s) s.
Proof. exact (FbTotal0.safe_OrnRegisterT1 w s). Qed.
Print Assumptions C18_fb_OrnRegisterT1.

Theorem C18_fb_PkhT1 w s : fb_safe (fb_out (PkhT1_from_bitarray w) s) s.
Proof. exact (FbTotal0.safe_PkhT1 w s). Qed.
Print Assumptions C18_fb_PkhT1.

Theorem C18_fb_PopArmA1 (cfg : config) w s : fb_safe (fb_out (PopArmA1_from_bitarray cfg w) s) s.
Proof. exact (FbTotal0.safe_PopArmA1 cfg w s). Qed.
Print Assumptions C18_fb_PopArmA1.

Theorem C18_fb_PushT2 w s : fb_safe (fb_out (PushT2_from_bitarray w) s) s.
Proof. exact (FbTotal0.safe_PushT2 w s). Qed.
Print Assumptions C18_fb_PushT2.

Theorem C18_fb_QasxA1 w s : fb_safe (fb_out (QasxA1_from_bitarray w) s) s.
Proof. exact (FbTotal0.safe_QasxA1 w s). Qed.
Print Assumptions C18_fb_QasxA1.

Theorem C18_fb_Qsub16A1 w s : fb_safe (fb_out (Qsub16A1_from_bitarray w) s) s.
Proof. exact (FbTotal0.safe_Qsub16A1 w s). Qed.
Print Assumptions C18_fb_Qsub16A1.

Theorem C18_fb_Rev16A1 w s : fb_safe (fb_out (Rev16A1_from_bitarray w) s) s.
Proof. exact (FbTotal0.safe_Rev16A1 w s). Qed.
Print Assumptions C18_fb_Rev16A1.

Theorem C18_fb_RevshT2 w s : fb_safe (fb_out (RevshT2_from_bitarray w) s) s.
Proof. exact (FbTotal0.safe_RevshT2 w s). Qed.
Print Assumptions C18_fb_RevshT2.

Theorem C18_fb_RorRegisterT2 w s : fb_safe (fb_out (RorRegisterT2_from_bitarray w) s) s.
Proof. exact (FbTotal0.safe_RorRegisterT2 w s). Qed.
Print Assumptions C18_fb_RorRegisterT2.

Theorem C18_fb_RsbRegisterT1 w s : fb_safe (fb_out (RsbRegisterT1_from_bitarray w) s) s.
Proof. exact (FbTotal0.safe_RsbRegisterT1 w s). Qed.
Print Assumptions C18_fb_RsbRegisterT1.

Theorem C18_fb_SasxA1 w s : fb_safe (fb_out (SasxA1_from_bitarray w) s) s.
Proof. exact (FbTotal0.safe_SasxA1 w s). Qed.
Print Assumptions C18_fb_SasxA1.

Theorem C18_fb_SbfxA1 w s : fb_safe (fb_out (SbfxA1_from_bitarray w) s) s.
Proof. exact (FbTotal0.safe_SbfxA1 w s). Qed.
Print Assumptions C18_fb_SbfxA1.

Theorem C18_fb_SevA1 w s : fb_safe (fb_out (SevA1_from_bitarray w) s) s.
Proof. exact (FbTotal0.safe_SevA1 w s). Qed.
Print Assumptions C18_fb_SevA1.

Theorem C18_fb_ShasxT1 w s : fb_safe (fb_out (ShasxT1_from_bitarray w) s) s.
Proof. exact (FbTotal0.safe_ShasxT1 w s). Qed.
Print Assumptions C18_fb_ShasxT1.

Theorem C18_fb_SmcT1 w s : fb_safe (fb_out (SmcT1_from_bitarray w) s) s.
Proof. exact (FbTotal0.safe_SmcT1 w s). Qed.
Print Assumptions C18_fb_SmcT1.

Theorem C18_fb_SmlaldT1 w s : fb_safe (fb_out (SmlaldT1_from_bitarray w) s) s.
Proof. exact (FbTotal0.safe_SmlaldT1 w s). Qed.
Print Assumptions C18_fb_SmlaldT1.

Theorem C18_fb_SmlsldT1 w s : fb_safe (fb_out (SmlsldT1_from_bitarray w) s) s.
Proof. exact (FbTotal0.safe_SmlsldT1 w s). Qed.
Print Assumptions C18_fb_SmlsldT1.

Theorem C18_fb_SmuadT1 w s : fb_safe (fb_out (SmuadT1_from_bitarray w) s) s.
Proof. exact (FbTotal0.safe_SmuadT1 w s). Qed.
Print Assumptions C18_fb_SmuadT1.

Theorem C18_fb_SmusdT1 w s : fb_safe (fb_out (SmusdT1_from_bitarray w) s) s.
Proof. exact (FbTotal0.safe_SmusdT1 w s). Qed.
Print Assumptions C18_fb_SmusdT1.

Theorem C18_fb_SsaxA1 w s : fb_safe (fb_out (SsaxA1_from_bitarray w) s) s.
Proof. exact (FbTotal0.safe_SsaxA1 w s). Qed.
Print Assumptions C18_fb_SsaxA1.

Theorem C18_fb_StcStc2T1 w s : fb_safe (fb_out (StcStc2T1_from_bitarray w) s) s.
Proof. exact (FbTotal0.safe_StcStc2T1 w s). Qed.
Print Assumptions C18_fb_StcStc2T1.

Theorem C18_fb_StmdbT1 w s : fb_safe (fb_out (StmdbT1_from_bitarray w) s) s.
Proof. exact (FbTotal0.safe_StmdbT1 w s). Qed.
Print Assumptions C18_fb_StmdbT1.

Theorem C18_fb_StrRegisterT1 w s : fb_safe (fb_out (StrRegisterT1_from_bitarray w) s) s.
Proof. exact (FbTotal0.safe_StrRegisterT1 w s). Qed.
Print Assumptions C18_fb_StrRegisterT1.

Theorem C18_fb_StrbRegisterT2 w s : fb_safe (fb_out (StrbRegisterT2_from_bitarray w) s) s.
Proof. exact (FbTotal0.safe_StrbRegisterT2 w s). Qed.
Print Assumptions C18_fb_StrbRegisterT2.

Theorem C18_fb_StrexT1 w s : fb_safe (fb_out (StrexT1_from_bitarray w) s) s.
Proof. exact (FbTotal0.safe_StrexT1 w s). Qed.
Print Assumptions C18_fb_StrexT1.

Theorem C18_fb_StrhImmediateThumbT1 w s : fb_safe (fb_out (StrhImmediateThumbT1_from_bitarray w) s) s.
Proof. exact (FbTotal0.safe_StrhImmediateThumbT1 w s). Qed.
Print Assumptions C18_fb_StrhImmediateThumbT1.

Theorem C18_fb_StrhtT1 w s : fb_safe (fb_out (StrhtT1_from_bitarray w) s) s.
Proof. exact (FbTotal0.safe_StrhtT1 w s). Qed.
Print Assumptions C18_fb_StrhtT1.

Theorem C18_fb_SubImmediateThumbT4 w s : fb_safe (fb_out (SubImmediateThumbT4_from_bitarray w) s) s.
Proof. exact (FbTotal0.safe_SubImmediateThumbT4 w s). Qed.
Print Assumptions C18_fb_SubImmediateThumbT4.

Theorem C18_fb_SubSpMinusImmediateT3 w s : fb_safe (fb_out (SubSpMinusImmediateT3_from_bitarray w) s) s.
Proof. exact (FbTotal0.safe_SubSpMinusImmediateT3 w s). Qed.
Print Assumptions C18_fb_SubSpMinusImmediateT3.

Theorem C18_fb_Sxtab16A1 w s : fb_safe (fb_out (Sxtab16A1_from_bitarray w) s) s.
Proof. exact (FbTotal0.safe_Sxtab16A1 w s). Qed.
Print Assumptions C18_fb_Sxtab16A1.

Theorem C18_fb_SxtbA1 w s : fb_safe (fb_out (SxtbA1_from_bitarray w) s) s.
Proof. exact (FbTotal0.safe_SxtbA1 w s). Qed.
Print Assumptions C18_fb_SxtbA1.

Theorem C18_fb_TeqImmediateT1 w s : fb_safe (fb_out (TeqImmediateT1_from_bitarray w) s) s.
Proof. exact (FbTotal0.safe_TeqImmediateT1 w s). Qed.
Print Assumptions C18_fb_TeqImmediateT1.

Theorem C18_fb_TstRegisterT1 w s : fb_safe (fb_out (TstRegisterT1_from_bitarray w) s) s.
Proof. exact (FbTotal0.safe_TstRegisterT1 w s). Qed.
Print Assumptions C18_fb_TstRegisterT1.

Theorem C18_fb_UbfxA1 w s : fb_safe (fb_out (UbfxA1_from_bitarray w) s) s.
Proof. exact (FbTotal0.safe_UbfxA1 w s). Qed.
Print Assumptions C18_fb_UbfxA1.

Theorem C18_fb_Uhadd16T1 w s : fb_safe (fb_out (Uhadd16T1_from_bitarray w) s) s.
Proof. exact (FbTotal0.safe_Uhadd16T1 w s). Qed.
Print Assumptions C18_fb_Uhadd16T1.

Theorem C18_fb_Uhsub16T1 w s : fb_safe (fb_out (Uhsub16T1_from_bitarray w) s) s.
Proof. exact (FbTotal0.safe_Uhsub16T1 w s). Qed.
Print Assumptions C18_fb_Uhsub16T1.

Theorem C18_fb_UmullT1 w s : fb_safe (fb_out (UmullT1_from_bitarray w) s) s.
Proof. exact (FbTotal0.safe_UmullT1 w s). Qed.
Print Assumptions C18_fb_UmullT1.

Theorem C18_fb_UqsaxT1 w s : fb_safe (fb_out (UqsaxT1_from_bitarray w) s) s.
Proof. exact (FbTotal0.safe_UqsaxT1 w s). Qed.
Print Assumptions C18_fb_UqsaxT1.

Theorem C18_fb_Usada8T1 w s : fb_safe (fb_out (Usada8T1_from_bitarray w) s) s.
Proof. exact (FbTotal0.safe_Usada8T1 w s). Qed.
Print Assumptions C18_fb_Usada8T1.

Theorem C18_fb_Usub16T1 w s : fb_safe (fb_out (Usub16T1_from_bitarray w) s) s.
Proof. exact (FbTotal0.safe_Usub16T1 w s). Qed.
Print Assumptions C18_fb_Usub16T1.

Theorem C18_fb_UxtahT1 w s : fb_safe (fb_out (UxtahT1_from_bitarray w) s) s.
Proof. exact (FbTotal0.safe_UxtahT1 w s). Qed.
Print Assumptions C18_fb_UxtahT1.

Theorem C18_fb_UxthT2 w s : fb_safe (fb_out (UxthT2_from_bitarray w) s) s.
Proof. exact (FbTotal0.safe_UxthT2 w s). Qed.
Print Assumptions C18_fb_UxthT2.

Theorem C18_fb_YieldT1 w s : fb_safe (fb_out (YieldT1_from_bitarray w) s) s.
Proof. exact (FbTotal0.safe_YieldT1 w s). Qed.
Print Assumptions C18_fb_YieldT1.
