(* Props/C20.v — C20: determinism and isolation.  Statement only; proof in Proofs/Isolation.v.
   In the regenerated model a step is a Gallina function of (configuration, machine state): determinism holds by
   construction, and the theorem below is isolation — under every interleaving of the steps of any number of instances,
   each instance reaches exactly the state it reaches alone.  Whether the implementation has this property is the
   correspondence part of the check (it does not when instances are created with different configuration files: the
   configuration is a module-level singleton — a recorded finding). *)
From Coq Require Import ZArith List Arith.
From ArmV Require Import Lib.PyZ Lib.Monad Lib.Machine Proofs.Isolation.
From Gen Require Import enums core step.
Import ListNotations.

Theorem C20_isolation sched (l : list inst) i c s : nth_error l i = Some (c, s) ->
  nth_error (run_sched l sched) i = Some (c, Nat.iter (count i sched) (stepf c) s).
Proof. exact (isolation sched l i c s). Qed.
Print Assumptions C20_isolation.
