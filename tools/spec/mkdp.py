#!/venv/bin/python
"""Writes the STATIC file Proofs/DPClasses.v: one refinement theorem per data-processing opcode class,
from the table below (class -> architectural operation, destination, first operand, second operand).
The table is the author's reading of ARM ARM A8.8 (instruction pseudocode), not derived from the code."""
import os

# (class, op, dest, n, operand2 kind)   fields used in the statement come from the class's constructor
#   dest: 'd' | None (comparison);  n: 'n' | 'sp' | None;  op2: imm | immc | reg | regreg | plain | shift:<TYPE> | shiftreg:<TYPE> | rrx
T = []
def fam(prefix_list, op, kinds, dest='d', n='n'):
    for (cls, kind) in kinds:
        T.append((cls, op, dest, n, kind))
for name, op in [('Adc', 'ADC'), ('Sbc', 'SBC'), ('Rsc', 'RSC')]:
    fam(None, op, [(name + 'Immediate', 'imm'), (name + 'Register', 'reg'), (name + 'RegisterShiftedRegister', 'regreg')])
fam(None, 'ADD', [('AddImmediateArm', 'imm'), ('AddImmediateThumb', 'imm'), ('AddRegisterArm', 'reg'), ('AddRegisterThumb', 'reg'),
                  ('AddRegisterShiftedRegister', 'regreg')])
fam(None, 'ADD', [('AddSpPlusImmediate', 'imm'), ('AddSpPlusRegisterArm', 'reg'), ('AddSpPlusRegisterThumb', 'reg')], n='sp')
fam(None, 'SUB', [('SubImmediateArm', 'imm'), ('SubImmediateThumb', 'imm'), ('SubRegister', 'reg'), ('SubRegisterShiftedRegister', 'regreg')])
fam(None, 'SUB', [('SubSpMinusImmediate', 'imm'), ('SubSpMinusRegister', 'reg')], n='sp')
fam(None, 'RSB', [('RsbImmediate', 'imm'), ('RsbRegister', 'reg'), ('RsbRegisterShiftedRegister', 'regreg')])
for name, op in [('And', 'AND'), ('Eor', 'EOR'), ('Orr', 'ORR'), ('Bic', 'BIC')]:
    fam(None, op, [(name + 'Immediate', 'immc'), (name + 'Register', 'reg'), (name + 'RegisterShiftedRegister', 'regreg')])
fam(None, 'ORN', [('OrnImmediate', 'immc'), ('OrnRegister', 'reg')])
fam(None, 'MVN', [('MvnImmediate', 'immc'), ('MvnRegister', 'reg'), ('MvnRegisterShiftedRegister', 'regreg')], n=None)
fam(None, 'MOV', [('MovImmediate', 'immc'), ('MovRegisterArm', 'plain'), ('MovRegisterThumb', 'plain')], n=None)
fam(None, 'MOV', [('LslImmediate', 'shift:LSL'), ('LsrImmediate', 'shift:LSR'), ('AsrImmediate', 'shift:ASR'), ('RorImmediate', 'shift:ROR'),
                  ('Rrx', 'rrx'), ('LslRegister', 'shiftreg:LSL'), ('LsrRegister', 'shiftreg:LSR'), ('AsrRegister', 'shiftreg:ASR'),
                  ('RorRegister', 'shiftreg:ROR')], n=None)
fam(None, 'SUB', [('CmpImmediate', 'imm'), ('CmpRegister', 'reg'), ('CmpRegisterShiftedRegister', 'regreg')], dest=None)
fam(None, 'ADD', [('CmnImmediate', 'imm'), ('CmnRegister', 'reg'), ('CmnRegisterShiftedRegister', 'regreg')], dest=None)
fam(None, 'AND', [('TstImmediate', 'immc'), ('TstRegister', 'reg'), ('TstRegisterShiftedRegister', 'regreg')], dest=None)
fam(None, 'EOR', [('TeqImmediate', 'immc'), ('TeqRegister', 'reg'), ('TeqRegisterShiftedRegister', 'regreg')], dest=None)

FIELDS = {  # constructor parameters after `instruction`, per operand2 kind / presence of dest, n (must match the code)
}


def main():
    import json
    root = os.path.join(os.path.dirname(os.path.abspath(__file__)), '..', '..', 'coq')
    idx = json.load(open(os.path.join(root, 'gen', 'INDEX.json')))['tables']['opcode_classes']
    HEAD = ['(* Proofs/DPClasses.v — STATIC (written by tools/spec/mkdp.py from its table; committed).',
         '   One theorem per data-processing opcode class: with its condition passed and operand fields in range, the',
         '   regenerated execute() equals dp_sem (Proofs/DPSem.v) for every operand value, flag state, mode, configuration. *)',
         'From Coq Require Import ZArith List Bool Lia ZifyBool.',
         'From ArmV Require Import Lib.PyZ Lib.Monad Lib.Machine Spec.Pseudocode Spec.Expected Spec.Arch',
         '  Proofs.BitLemmas Proofs.SpecFacts Proofs.BitsOps Proofs.BitsOps2 Proofs.ShiftOps Proofs.FieldsProofs Proofs.StateLemmas',
         '  Proofs.CondProofs Proofs.GuardProofs Proofs.BankProofs Proofs.MachineOps Spec.DPSem Proofs.DPLemmas Proofs.DPTactics.',
         'From Gen Require Import enums bits_ops shift regviews records hubm opsyn core exec.',
         'Import ListNotations.', 'Open Scope Z_scope.', '']
    NCH = 8
    chunks = [list(HEAD) for _ in range(NCH)]
    count = 0
    names = []
    stmts = []
    for (cls, op, dest, n, kind) in T:
        L = chunks[count % NCH]
        count += 1
        fields = idx[cls]['fields']          # the statement quantifies over the code's constructor fields, by name
        binders = ' '.join(fields)
        hyps = ['ictx cfg st', 'cond_holds st']
        def rng(f, hi=15):
            hyps.append(f'0 <= {f} <= {hi}')
        if dest:
            # no ALUWritePC in the pseudocode of: register-shifted-register forms, shift-by-register forms,
            # ADD/SUB (immediate, Thumb), ORN (Thumb only)
            no_pc = kind in ('regreg',) or kind.startswith('shiftreg') or cls in ('AddImmediateThumb', 'SubImmediateThumb', 'OrnImmediate', 'OrnRegister')
            rng('d', 14 if no_pc else 15)
        if n == 'n':
            rng('n')
        nterm = {'n': 'n', 'sp': '13', None: '0'}[n]
        if kind == 'imm':
            o2 = 'Op2Imm imm32 0'
            hyps.append('word imm32')
        elif kind == 'immc':
            o2 = 'Op2Imm imm32 carry'
            hyps.append('word imm32'); hyps.append('0 <= carry <= 1')
        elif kind == 'reg':
            rng('m'); hyps.append('valid_shift shift_t shift_n')
            o2 = 'Op2Reg m shift_t shift_n'
        elif kind == 'regreg':
            rng('m'); rng('s'); hyps.append('valid_shift shift_t 0 \\/ shift_t = Pseudocode.SRType_RRX -> False')
            hyps[-1] = '(shift_t = Pseudocode.SRType_LSL \\/ shift_t = Pseudocode.SRType_LSR \\/ shift_t = Pseudocode.SRType_ASR \\/ shift_t = Pseudocode.SRType_ROR)'
            o2 = 'Op2RegReg m shift_t s'
        elif kind == 'plain':
            rng('m'); o2 = 'Op2Plain m'
        elif kind.startswith('shift:'):
            rng('m'); hyps.append('0 <= shift_n')
            o2 = f'Op2Reg m Pseudocode.SRType_{kind[6:]} shift_n'
        elif kind == 'rrx':
            rng('m'); o2 = 'Op2Reg m Pseudocode.SRType_RRX 1'
        elif kind.startswith('shiftreg:'):
            rng('m'); rng('n')
            o2 = f'Op2RegReg n Pseudocode.SRType_{kind[9:]} m'
        sf = 'setflags' if 'setflags' in fields else '1'
        d = '(Some d)' if dest else 'None'
        args = ' '.join(fields)
        L.append(f'Theorem {cls}_sem cfg {binders} st :')
        L.append('  ' + ' ->\n  '.join(hyps) + ' ->')
        L.append(f'  {cls}_execute cfg {args} st = dp_sem cfg {op} {sf} {d} {nterm} ({o2}) st.')
        L.append('Proof. dp_tac. Qed.')
        L.append('')
        names.append(cls)
        stmts.append((cls, binders, hyps, f'{cls}_execute cfg {args} st = dp_sem cfg {op} {sf} {d} {nterm} ({o2}) st'))
    for i, L in enumerate(chunks):
        L[0] = L[0].replace('DPClasses.v', f'DPClasses{i}.v')
        open(os.path.join(root, 'theories', 'Proofs', f'DPClasses{i}.v'), 'w').write('\n'.join(L))
    # Props/C01_<i>.v: the same statements, closed by `exact`, with Print Assumptions
    NP = 4
    PH = ['(* Props/C01_%d.v — STATIC (tools/spec/mkdp.py).  C01: every data-processing opcode class, with its condition',
          '   passed and operand fields in their encodable ranges, computes exactly dp_sem (the A8.8 pseudocode as one',
          '   function, Proofs/DPSem.v): destination, N/Z/C/V, PC writes; the frame is C01_frame (Props/C01.v). *)',
          'From Coq Require Import ZArith List Bool.',
          'From ArmV Require Import Lib.PyZ Lib.Monad Lib.Machine Spec.Pseudocode Spec.Arch',
          '  Proofs.StateLemmas Proofs.CondProofs Proofs.GuardProofs Proofs.BankProofs Proofs.MachineOps Spec.DPSem Proofs.DPLemmas',
          '  ' + ' '.join(f'Proofs.DPClasses{i}' for i in range(NCH)) + '.',
          'From Gen Require Import enums exec.', 'Open Scope Z_scope.', '']
    pch = [[(l % i if '%d' in l else l) for l in PH] for i in range(NP)]
    for k, (cls, binders, hyps, concl) in enumerate(stmts):
        P = pch[k % NP]
        P.append(f'Theorem C01_{cls} cfg {binders} st :')
        P.append('  ' + ' ->\n  '.join(hyps) + ' ->')
        P.append(f'  {concl}.')
        P.append(f'Proof. exact ({cls}_sem cfg {binders} st). Qed.')
        P.append(f'Print Assumptions C01_{cls}.')
        P.append('')
    for i, P in enumerate(pch):
        open(os.path.join(root, 'theories', 'Props', f'C01_{i}.v'), 'w').write('\n'.join(P))
    json.dump({'classes': [{'cls': c, 'op': o, 'dest': d, 'n': n, 'kind': k} for (c, o, d, n, k) in T]},
              open(os.path.join(os.path.dirname(os.path.abspath(__file__)), 'dp_table.json'), 'w'), indent=1)
    print(len(names), 'classes')


if __name__ == '__main__':
    main()
