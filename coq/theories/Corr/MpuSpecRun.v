(* Corr/MpuSpecRun.v — executable specification-side drivers for the C14 correspondence (imports nothing generated):
   MemA under the MPU, with the Data Abort type numbers written out (ALIGNMENT 2, BACKGROUND 3, PERMISSION 5). *)
From Coq Require Import ZArith List Bool.
From ArmV Require Import Lib.PyZ Lib.Monad Lib.Machine Spec.Pseudocode Spec.Arch Spec.MachineView Spec.Hub Spec.Memory.
Import ListNotations.
Open Scope Z_scope.

Definition dt (bg : bool) : Z := if bg then 3 else 5.
Definition fsb (bg : bool) : Z := if bg then FS_background else FS_permission.
Definition MemA_get_mpu_spec (arch : Z) (n : nat) (s : machine) (address size : Z) (priv : bool) : outcome machine Z :=
  match MemA_va arch s address size with
  | None => Exc (EDataAbort 2 0) (pmsa_fault_state s address 0 FS_alignment)
  | Some va => match PMSA_check s n va priv false with
               | P_ok => Ok (MemA_read s va size) s
               | P_abort bg => Exc (EDataAbort (dt bg) 0) (pmsa_fault_state s va 0 (fsb bg))
               end
  end.
Definition MemA_set_mpu_spec (arch : Z) (n : nat) (s : machine) (address size value : Z) (priv : bool) : outcome machine unit :=
  match MemA_va arch s address size with
  | None => Exc (EDataAbort 2 0) (pmsa_fault_state s address 1 FS_alignment)
  | Some va => match PMSA_check s n va priv true with
               | P_ok => Ok tt (MemA_write s va size value)
               | P_abort bg => Exc (EDataAbort (dt bg) 0) (pmsa_fault_state s va 1 (fsb bg))
               end
  end.

(* MemU under the MPU: an aligned access is MemA; with strict alignment an unaligned one faults; otherwise the bytes are
   transferred one by one in ascending address order, each checked by the MPU with the caller's privilege (so an unprivileged
   override stays unprivileged for every byte, and a denied byte stops the transfer after the earlier ones) *)
Fixpoint bytes_set_mpu (arch : Z) (n : nat) (priv : bool) (addrs : list Z) (k : Z) (v : Z) (s : machine) : outcome machine unit :=
  match addrs with
  | [] => Ok tt s
  | a :: t => match MemA_set_mpu_spec arch n s a 1 ((v / 256 ^ k) mod 256) priv with
              | Ok _ s1 => bytes_set_mpu arch n priv t (k + 1) v s1
              | Exc e s1 => Exc e s1
              end
  end.
Definition MemU_set_mpu_spec (arch : Z) (n : nat) (secure : bool) (s : machine) (address size value : Z) (priv : bool) : outcome machine unit :=
  match MemU_kind arch false secure s address size with
  | MU_aligned a => MemA_set_mpu_spec arch n s a size value priv
  | MU_fault a => Exc (EDataAbort 2 0) (pmsa_fault_state s a 1 FS_alignment)
  | MU_bytes a => bytes_set_mpu arch n priv (byte_addrs a 0 (Z.to_nat size)) 0 (endian (big_endian s) size value) s
  end.
Fixpoint bytes_get_mpu (arch : Z) (n : nat) (priv : bool) (addrs : list Z) (s : machine) : outcome machine (list Z) :=
  match addrs with
  | [] => Ok [] s
  | a :: t => match MemA_get_mpu_spec arch n s a 1 priv with
              | Ok b s1 => match bytes_get_mpu arch n priv t s1 with Ok l s2 => Ok (b :: l) s2 | Exc e s2 => Exc e s2 end
              | Exc e s1 => Exc e s1
              end
  end.
Definition MemU_get_mpu_spec (arch : Z) (n : nat) (secure : bool) (s : machine) (address size : Z) (priv : bool) : outcome machine Z :=
  match MemU_kind arch false secure s address size with
  | MU_aligned a => MemA_get_mpu_spec arch n s a size priv
  | MU_fault a => Exc (EDataAbort 2 0) (pmsa_fault_state s a 0 FS_alignment)
  | MU_bytes a => match bytes_get_mpu arch n priv (byte_addrs a 0 (Z.to_nat size)) s with
                  | Ok l s1 => Ok (endian (big_endian s1) size (le_combine l)) s1
                  | Exc e s1 => Exc e s1
                  end
  end.
