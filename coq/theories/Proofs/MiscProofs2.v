(* Proofs/MiscProofs2.v — UDF, SVC, ISB, PLD (immediate, literal, register), ENTERX/LEAVEX and BXJ. *)
From Coq Require Import ZArith List Bool Lia ZifyBool.
From ArmV Require Import Lib.PyZ Lib.Monad Lib.Machine Spec.Pseudocode Spec.Expected Spec.Arch Spec.DPSem
  Proofs.BitLemmas Proofs.SpecFacts Proofs.BitsOps Proofs.BitsOps2 Proofs.ShiftOps Proofs.FieldsProofs Proofs.StateLemmas
  Proofs.CondProofs Proofs.GuardProofs Proofs.BankProofs Proofs.MachineOps Proofs.DPLemmas Proofs.DPTactics Proofs.BranchProofs
  Spec.MachineView Proofs.LSProofs Proofs.LSProofs2 Proofs.MemProofs Proofs.HintProofs.
From Gen Require Import enums bits_ops shift regviews records hubm opsyn core exec.
Import ListNotations.
Open Scope Z_scope.
(* a sentence that runs this long no longer matches the code it was written for: fail instead of searching *)
Set Default Timeout 240.
Ltac Zify.zify_post_hook ::= Z.to_euclidean_division_equations.

(* UDF raises the Undefined Instruction exception when its condition passes, with the state untouched *)
Theorem Udf_ok instr s : cond_holds s -> Udf_execute instr s = Exc EUndefined s.
Proof. intros Hc. unfold Udf_execute. rewrite b_cond by exact Hc. reflexivity. Qed.
(* SVC (no trap to Hyp mode without the Virtualization Extensions): the Supervisor Call exception, state untouched *)
Theorem Svc_ok cfg instr imm32 s : cond_holds s -> have_virt cfg = 0 -> mode_of s <> 26 -> Svc_execute cfg instr imm32 s = Exc ESVC s.
Proof.
  intros Hc Hv Hh. unfold Svc_execute. rewrite guard_pass by exact Hc. rewrite bind_ret_tt. unfold ArmV6_call_supervisor.
  rewrite !bind_assoc_run, b_is_hyp. cbv beta. rewrite !bind_assoc_run, b_is_secure. cbv beta. rewrite !bind_assoc_run, b_not_user. cbv beta.
  rewrite !bind_assoc_run, run_get_sys_bind. cbv beta. replace (mode_of s =? 26) with false by lia.
  unfold have_virt in Hv. unfold conf_have_virt_ext. rewrite Hv. cbn [truthy B2Z Z.eqb negb andb orb]. cbv iota. reflexivity.
Qed.
(* ISB and the preload hints stop at not-implemented stubs; nothing has been written before *)
Theorem Isb_ok instr s : cond_holds s -> Isb_execute instr s = Exc ENotImpl s.
Proof. intros Hc. unfold Isb_execute. rewrite b_cond by exact Hc. reflexivity. Qed.
Theorem PldImmediate_ok cfg instr add is_pldw n imm32 s : ictx cfg s -> cond_holds s -> 0 <= n <= 15 ->
  PldImmediate_execute cfg instr add is_pldw n imm32 s = Exc ENotImpl s.
Proof.
  intros H Hc Hn. unfold PldImmediate_execute. rewrite guard_pass by exact Hc. rewrite bind_ret_tt. unfold truthy.
  destruct (add =? 0); cbn [negb]; rewrite !bind_assoc_run, (b_get cfg) by (try exact H; lia); rewrite bind_ret_run; cbv zeta;
    destruct (is_pldw =? 0); reflexivity.
Qed.
Theorem PldLiteral_ok cfg instr add imm32 s : ictx cfg s -> cond_holds s -> PldLiteral_execute cfg instr add imm32 s = Exc ENotImpl s.
Proof.
  intros H Hc. unfold PldLiteral_execute. rewrite guard_pass by exact Hc. rewrite bind_ret_tt. unfold truthy.
  destruct (add =? 0); cbn [negb]; rewrite !bind_assoc_run, (b_get_pc cfg) by exact H; rewrite bind_ret_run; reflexivity.
Qed.
Theorem PldRegister_ok cfg instr add is_pldw m n shift_t shift_n s : ictx cfg s -> cond_holds s -> 0 <= n <= 15 -> 0 <= m <= 15 ->
  valid_shift shift_t shift_n -> PldRegister_execute cfg instr add is_pldw m n shift_t shift_n s = Exc ENotImpl s.
Proof.
  intros H Hc Hn Hm Hv. unfold PldRegister_execute. rewrite guard_pass by exact Hc. rewrite bind_ret_tt.
  rewrite (reg_off_code cfg) by assumption. cbv zeta. unfold truthy.
  destruct (add =? 0); cbn [negb]; rewrite !bind_assoc_run, (b_get cfg) by (try exact H; lia); rewrite bind_ret_run; cbv zeta;
    destruct (is_pldw =? 0); reflexivity.
Qed.

(* ENTERX / LEAVEX: SelectInstrSet, unconditionally; ENTERX is UNDEFINED in Hyp mode *)
Theorem EnterxLeavex_ok cfg instr is_enterx s : ictx cfg s ->
  EnterxLeavex_execute cfg instr is_enterx s =
  if is_enterx =? 0 then Ok tt (with_cpsr s (SelectInstrSet (cpsr_of s) InstrSet_THUMB))
  else if mode_of s =? 26 then Exc EUndefined s else Ok tt (with_cpsr s (SelectInstrSet (cpsr_of s) InstrSet_THUMBEE)).
Proof.
  intros H. unfold EnterxLeavex_execute, truthy. pose proof (ok_sys_len _ _ (i_ok _ _ H)) as L. pose proof (ok_cpsr _ _ (i_ok _ _ H)) as W.
  destruct (is_enterx =? 0); cbn [negb].
  - rewrite !bind_assoc_run, run_bind, select_instr_set_spec by (first [exact L | exact W | (unfold enums.InstrSet_THUMB; lia)]). reflexivity.
  - rewrite !bind_assoc_run, b_is_hyp. destruct (mode_of s =? 26); cbn [B2Z Z.eqb negb]; cbv iota; [reflexivity|].
    rewrite !bind_assoc_run, run_bind, select_instr_set_spec by (first [exact L | exact W | (unfold enums.InstrSet_THUMB_EE; lia)]). reflexivity.
Qed.

(* BXJ without Jazelle enabled (JMCR.JE = 0) or in ThumbEE state behaves as BX *)
Theorem Bxj_ok cfg instr m s : ictx cfg s -> cond_holds s -> have_virt cfg = 0 -> 0 <= m <= 15 ->
  bit (getl (sys s) 16) 0 = 0 \/ iset_of s = 3 ->
  Bxj_execute cfg instr m s = Ok tt (apply_pc s (BXWritePC (cpsr_of s) (rget s m))).
Proof.
  intros H Hc Hv Hm Hj. unfold Bxj_execute. rewrite guard_pass by exact Hc. rewrite bind_ret_tt.
  rewrite b_is_secure, b_is_hyp, run_get_sys_bind. unfold have_virt in Hv. unfold conf_have_virt_ext. rewrite Hv.
  cbn [truthy Z.eqb negb andb]. cbv iota. rewrite bind_ret_tt. rewrite run_get_sys_bind, b_cur_iset.
  unfold JMCR_get_je. rewrite CpsrWrite.truthy_flag by lia. unfold enums.InstrSet_THUMB_EE.
  replace (negb (bit (getl (sys s) 16) 0 =? 1) || (iset_of s =? 3)) with true by (destruct Hj; lia).
  rewrite bind_ret_tt. rewrite (b_get cfg) by (try exact H; lia).
  rewrite !bind_ret_tt, bx_write_pc_spec; [reflexivity|apply H|apply H|apply H|apply (word_rget cfg); [exact H|lia]].
Qed.

(* DSB (without the Virtualization Extensions, which only widen the domain) stops at the not-implemented barrier stub: whichever
   option is encoded, the state is untouched.  BKPT is the not-implemented debug event.  SMC without the Security Extensions or from
   User mode is UNDEFINED. *)
Theorem Dsb_ok cfg instr option s : cond_holds s -> have_virt cfg = 0 -> Dsb_execute cfg instr option s = Exc ENotImpl s.
Proof.
  intros Hc Hv. unfold Dsb_execute. rewrite guard_pass by exact Hc. rewrite bind_ret_tt.
  match goal with |- context [let '(v_domain, v_types) := ?e in _] => destruct e as [dom typ] end.
  rewrite b_is_secure, b_is_hyp. unfold have_virt in Hv. unfold conf_have_virt_ext. rewrite Hv. cbn [truthy Z.eqb negb andb]. cbv iota.
  rewrite bind_ret_run. reflexivity.
Qed.
Theorem Bkpt_ok instr : Bkpt_execute instr = Err ENotImpl.
Proof. reflexivity. Qed.
Theorem Smc_undefined cfg instr s : cond_holds s -> cfg_have_security_ext cfg = 0 \/ mode_of s = 16 -> Smc_execute cfg instr s = Exc EUndefined s.
Proof.
  intros Hc Hd. unfold Smc_execute. rewrite guard_pass by exact Hc. rewrite bind_ret_tt. rewrite b_not_user. unfold conf_have_security_ext.
  destruct Hd as [E|E]; rewrite E; cbn [truthy Z.eqb negb andb B2Z]; [reflexivity|]. rewrite andb_false_r. reflexivity.
Qed.
