(* Props/C17_fields.v: C17, second half — every named field view of every register class reads and writes exactly its architectural bits (get = bits, set = insert), for every register value and every in-range field value — STATIC (written by tools/spec/mkfields.py from the reviewed architectural table; committed). *)

From Coq Require Import ZArith Bool List Lia.
From ArmV Require Import Lib.PyZ Spec.Pseudocode Proofs.BitLemmas Proofs.BitsOps Proofs.BitsOps2 Proofs.FieldsProofs.
From Gen Require Import enums bits_ops shift regviews.
Open Scope Z_scope.

Theorem C17_fields_CPACR v x : 0 <= v < 2 ^ 32 ->
  (CPACR_get_trcdis v = bits v 28 28 /\ (0 <= x < 2 ^ 1 -> CPACR_set_trcdis v x = insert v 28 28 x)) /\
  (CPACR_get_d32dis v = bits v 30 30 /\ (0 <= x < 2 ^ 1 -> CPACR_set_d32dis v x = insert v 30 30 x)) /\
  (CPACR_get_asedis v = bits v 31 31 /\ (0 <= x < 2 ^ 1 -> CPACR_set_asedis v x = insert v 31 31 x)).
Proof. intros Hv. fields_tac. Qed.
Print Assumptions C17_fields_CPACR.

Theorem C17_fields_CPSR v x : 0 <= v < 2 ^ 32 ->
  (CPSR_get_n v = bits v 31 31 /\ (0 <= x < 2 ^ 1 -> CPSR_set_n v x = insert v 31 31 x)) /\
  (CPSR_get_z v = bits v 30 30 /\ (0 <= x < 2 ^ 1 -> CPSR_set_z v x = insert v 30 30 x)) /\
  (CPSR_get_c v = bits v 29 29 /\ (0 <= x < 2 ^ 1 -> CPSR_set_c v x = insert v 29 29 x)) /\
  (CPSR_get_v v = bits v 28 28 /\ (0 <= x < 2 ^ 1 -> CPSR_set_v v x = insert v 28 28 x)) /\
  (CPSR_get_q v = bits v 27 27 /\ (0 <= x < 2 ^ 1 -> CPSR_set_q v x = insert v 27 27 x)) /\
  (CPSR_get_j v = bits v 24 24 /\ (0 <= x < 2 ^ 1 -> CPSR_set_j v x = insert v 24 24 x)) /\
  (CPSR_get_ge v = bits v 19 16 /\ (0 <= x < 2 ^ 4 -> CPSR_set_ge v x = insert v 19 16 x)) /\
  (CPSR_get_e v = bits v 9 9 /\ (0 <= x < 2 ^ 1 -> CPSR_set_e v x = insert v 9 9 x)) /\
  (CPSR_get_a v = bits v 8 8 /\ (0 <= x < 2 ^ 1 -> CPSR_set_a v x = insert v 8 8 x)) /\
  (CPSR_get_i v = bits v 7 7 /\ (0 <= x < 2 ^ 1 -> CPSR_set_i v x = insert v 7 7 x)) /\
  (CPSR_get_f v = bits v 6 6 /\ (0 <= x < 2 ^ 1 -> CPSR_set_f v x = insert v 6 6 x)) /\
  (CPSR_get_t v = bits v 5 5 /\ (0 <= x < 2 ^ 1 -> CPSR_set_t v x = insert v 5 5 x)) /\
  (CPSR_get_m v = bits v 4 0 /\ (0 <= x < 2 ^ 5 -> CPSR_set_m v x = insert v 4 0 x)).
Proof. intros Hv. fields_tac. Qed.
Print Assumptions C17_fields_CPSR.

Theorem C17_fields_DBGDIDR v x : 0 <= v < 2 ^ 32 ->
  (DBGDIDR_get_wrps v = bits v 31 28 /\ (0 <= x < 2 ^ 4 -> DBGDIDR_set_wrps v x = insert v 31 28 x)) /\
  (DBGDIDR_get_brps v = bits v 27 24 /\ (0 <= x < 2 ^ 4 -> DBGDIDR_set_brps v x = insert v 27 24 x)) /\
  (DBGDIDR_get_ctx_cmps v = bits v 23 20 /\ (0 <= x < 2 ^ 4 -> DBGDIDR_set_ctx_cmps v x = insert v 23 20 x)) /\
  (DBGDIDR_get_version v = bits v 19 16 /\ (0 <= x < 2 ^ 4 -> DBGDIDR_set_version v x = insert v 19 16 x)) /\
  (DBGDIDR_get_devid_imp v = bits v 15 15 /\ (0 <= x < 2 ^ 1 -> DBGDIDR_set_devid_imp v x = insert v 15 15 x)) /\
  (DBGDIDR_get_nsuhd_imp v = bits v 14 14 /\ (0 <= x < 2 ^ 1 -> DBGDIDR_set_nsuhd_imp v x = insert v 14 14 x)) /\
  (DBGDIDR_get_pcsr_imp v = bits v 13 13 /\ (0 <= x < 2 ^ 1 -> DBGDIDR_set_pcsr_imp v x = insert v 13 13 x)) /\
  (DBGDIDR_get_se_imp v = bits v 12 12 /\ (0 <= x < 2 ^ 1 -> DBGDIDR_set_se_imp v x = insert v 12 12 x)) /\
  (DBGDIDR_get_variant v = bits v 7 4 /\ (0 <= x < 2 ^ 4 -> DBGDIDR_set_variant v x = insert v 7 4 x)) /\
  (DBGDIDR_get_revision v = bits v 3 0 /\ (0 <= x < 2 ^ 4 -> DBGDIDR_set_revision v x = insert v 3 0 x)).
Proof. intros Hv. fields_tac. Qed.
Print Assumptions C17_fields_DBGDIDR.

Theorem C17_fields_DFSR v x : 0 <= v < 2 ^ 32 ->
  (DFSR_get_cm v = bits v 13 13 /\ (0 <= x < 2 ^ 1 -> DFSR_set_cm v x = insert v 13 13 x)) /\
  (DFSR_get_ext v = bits v 12 12 /\ (0 <= x < 2 ^ 1 -> DFSR_set_ext v x = insert v 12 12 x)) /\
  (DFSR_get_wnr v = bits v 11 11 /\ (0 <= x < 2 ^ 1 -> DFSR_set_wnr v x = insert v 11 11 x)) /\
  (DFSR_get_lpae v = bits v 9 9 /\ (0 <= x < 2 ^ 1 -> DFSR_set_lpae v x = insert v 9 9 x)) /\
  (DFSR_get_domain v = bits v 7 4 /\ (0 <= x < 2 ^ 4 -> DFSR_set_domain v x = insert v 7 4 x)) /\
  (DFSR_get_status v = bits v 5 0 /\ (0 <= x < 2 ^ 6 -> DFSR_set_status v x = insert v 5 0 x)).
Proof. intros Hv. fields_tac. Qed.
Print Assumptions C17_fields_DFSR.

Theorem C17_fields_FCSEIDR v x : 0 <= v < 2 ^ 32 ->
  (FCSEIDR_get_pid v = bits v 31 25 /\ (0 <= x < 2 ^ 7 -> FCSEIDR_set_pid v x = insert v 31 25 x)).
Proof. intros Hv. fields_tac. Qed.
Print Assumptions C17_fields_FCSEIDR.

Theorem C17_fields_FPEXC v x : 0 <= v < 2 ^ 32 ->
  (FPEXC_get_ex v = bits v 31 31 /\ (0 <= x < 2 ^ 1 -> FPEXC_set_ex v x = insert v 31 31 x)) /\
  (FPEXC_get_en v = bits v 30 30 /\ (0 <= x < 2 ^ 1 -> FPEXC_set_en v x = insert v 30 30 x)).
Proof. intros Hv. fields_tac. Qed.
Print Assumptions C17_fields_FPEXC.

Theorem C17_fields_HCPTR v x : 0 <= v < 2 ^ 32 ->
  (HCPTR_get_tcpac v = bits v 31 31 /\ (0 <= x < 2 ^ 1 -> HCPTR_set_tcpac v x = insert v 31 31 x)) /\
  (HCPTR_get_tta v = bits v 20 20 /\ (0 <= x < 2 ^ 1 -> HCPTR_set_tta v x = insert v 20 20 x)) /\
  (HCPTR_get_tase v = bits v 15 15 /\ (0 <= x < 2 ^ 1 -> HCPTR_set_tase v x = insert v 15 15 x)).
Proof. intros Hv. fields_tac. Qed.
Print Assumptions C17_fields_HCPTR.

Theorem C17_fields_HCR v x : 0 <= v < 2 ^ 32 ->
  (HCR_get_tge v = bits v 27 27 /\ (0 <= x < 2 ^ 1 -> HCR_set_tge v x = insert v 27 27 x)) /\
  (HCR_get_tvm v = bits v 26 26 /\ (0 <= x < 2 ^ 1 -> HCR_set_tvm v x = insert v 26 26 x)) /\
  (HCR_get_ttlb v = bits v 25 25 /\ (0 <= x < 2 ^ 1 -> HCR_set_ttlb v x = insert v 25 25 x)) /\
  (HCR_get_tpu v = bits v 24 24 /\ (0 <= x < 2 ^ 1 -> HCR_set_tpu v x = insert v 24 24 x)) /\
  (HCR_get_tpc v = bits v 23 23 /\ (0 <= x < 2 ^ 1 -> HCR_set_tpc v x = insert v 23 23 x)) /\
  (HCR_get_tsw v = bits v 22 22 /\ (0 <= x < 2 ^ 1 -> HCR_set_tsw v x = insert v 22 22 x)) /\
  (HCR_get_tac v = bits v 21 21 /\ (0 <= x < 2 ^ 1 -> HCR_set_tac v x = insert v 21 21 x)) /\
  (HCR_get_tidcp v = bits v 20 20 /\ (0 <= x < 2 ^ 1 -> HCR_set_tidcp v x = insert v 20 20 x)) /\
  (HCR_get_tsc v = bits v 19 19 /\ (0 <= x < 2 ^ 1 -> HCR_set_tsc v x = insert v 19 19 x)) /\
  (HCR_get_twe v = bits v 14 14 /\ (0 <= x < 2 ^ 1 -> HCR_set_twe v x = insert v 14 14 x)) /\
  (HCR_get_twi v = bits v 13 13 /\ (0 <= x < 2 ^ 1 -> HCR_set_twi v x = insert v 13 13 x)) /\
  (HCR_get_dc v = bits v 12 12 /\ (0 <= x < 2 ^ 1 -> HCR_set_dc v x = insert v 12 12 x)) /\
  (HCR_get_bsu v = bits v 11 10 /\ (0 <= x < 2 ^ 2 -> HCR_set_bsu v x = insert v 11 10 x)) /\
  (HCR_get_fb v = bits v 9 9 /\ (0 <= x < 2 ^ 1 -> HCR_set_fb v x = insert v 9 9 x)) /\
  (HCR_get_va v = bits v 8 8 /\ (0 <= x < 2 ^ 1 -> HCR_set_va v x = insert v 8 8 x)) /\
  (HCR_get_vi v = bits v 7 7 /\ (0 <= x < 2 ^ 1 -> HCR_set_vi v x = insert v 7 7 x)) /\
  (HCR_get_vf v = bits v 6 6 /\ (0 <= x < 2 ^ 1 -> HCR_set_vf v x = insert v 6 6 x)) /\
  (HCR_get_amo v = bits v 5 5 /\ (0 <= x < 2 ^ 1 -> HCR_set_amo v x = insert v 5 5 x)) /\
  (HCR_get_imo v = bits v 4 4 /\ (0 <= x < 2 ^ 1 -> HCR_set_imo v x = insert v 4 4 x)) /\
  (HCR_get_fmo v = bits v 3 3 /\ (0 <= x < 2 ^ 1 -> HCR_set_fmo v x = insert v 3 3 x)) /\
  (HCR_get_ptw v = bits v 2 2 /\ (0 <= x < 2 ^ 1 -> HCR_set_ptw v x = insert v 2 2 x)) /\
  (HCR_get_swio v = bits v 1 1 /\ (0 <= x < 2 ^ 1 -> HCR_set_swio v x = insert v 1 1 x)) /\
  (HCR_get_vm v = bits v 0 0 /\ (0 <= x < 2 ^ 1 -> HCR_set_vm v x = insert v 0 0 x)).
Proof. intros Hv. fields_tac. Qed.
Print Assumptions C17_fields_HCR.

Theorem C17_fields_HDCR v x : 0 <= v < 2 ^ 32 ->
  (HDCR_get_tdra v = bits v 11 11 /\ (0 <= x < 2 ^ 1 -> HDCR_set_tdra v x = insert v 11 11 x)) /\
  (HDCR_get_tdosa v = bits v 10 10 /\ (0 <= x < 2 ^ 1 -> HDCR_set_tdosa v x = insert v 10 10 x)) /\
  (HDCR_get_tda v = bits v 9 9 /\ (0 <= x < 2 ^ 1 -> HDCR_set_tda v x = insert v 9 9 x)) /\
  (HDCR_get_tde v = bits v 8 8 /\ (0 <= x < 2 ^ 1 -> HDCR_set_tde v x = insert v 8 8 x)) /\
  (HDCR_get_hpme v = bits v 7 7 /\ (0 <= x < 2 ^ 1 -> HDCR_set_hpme v x = insert v 7 7 x)) /\
  (HDCR_get_tpm v = bits v 6 6 /\ (0 <= x < 2 ^ 1 -> HDCR_set_tpm v x = insert v 6 6 x)) /\
  (HDCR_get_tpmcr v = bits v 5 5 /\ (0 <= x < 2 ^ 1 -> HDCR_set_tpmcr v x = insert v 5 5 x)) /\
  (HDCR_get_hpmn v = bits v 4 0 /\ (0 <= x < 2 ^ 5 -> HDCR_set_hpmn v x = insert v 4 0 x)).
Proof. intros Hv. fields_tac. Qed.
Print Assumptions C17_fields_HDCR.

Theorem C17_fields_HPFAR v x : 0 <= v < 2 ^ 32 ->
  (HPFAR_get_fipa v = bits v 31 4 /\ (0 <= x < 2 ^ 28 -> HPFAR_set_fipa v x = insert v 31 4 x)).
Proof. intros Hv. fields_tac. Qed.
Print Assumptions C17_fields_HPFAR.

Theorem C17_fields_HSCTLR v x : 0 <= v < 2 ^ 32 ->
  (HSCTLR_get_te v = bits v 30 30 /\ (0 <= x < 2 ^ 1 -> HSCTLR_set_te v x = insert v 30 30 x)) /\
  (HSCTLR_get_ee v = bits v 25 25 /\ (0 <= x < 2 ^ 1 -> HSCTLR_set_ee v x = insert v 25 25 x)) /\
  (HSCTLR_get_fi v = bits v 21 21 /\ (0 <= x < 2 ^ 1 -> HSCTLR_set_fi v x = insert v 21 21 x)) /\
  (HSCTLR_get_wxn v = bits v 19 19 /\ (0 <= x < 2 ^ 1 -> HSCTLR_set_wxn v x = insert v 19 19 x)) /\
  (HSCTLR_get_i v = bits v 12 12 /\ (0 <= x < 2 ^ 1 -> HSCTLR_set_i v x = insert v 12 12 x)) /\
  (HSCTLR_get_cp15ben v = bits v 5 5 /\ (0 <= x < 2 ^ 1 -> HSCTLR_set_cp15ben v x = insert v 5 5 x)) /\
  (HSCTLR_get_c v = bits v 2 2 /\ (0 <= x < 2 ^ 1 -> HSCTLR_set_c v x = insert v 2 2 x)) /\
  (HSCTLR_get_a v = bits v 1 1 /\ (0 <= x < 2 ^ 1 -> HSCTLR_set_a v x = insert v 1 1 x)) /\
  (HSCTLR_get_m v = bits v 0 0 /\ (0 <= x < 2 ^ 1 -> HSCTLR_set_m v x = insert v 0 0 x)).
Proof. intros Hv. fields_tac. Qed.
Print Assumptions C17_fields_HSCTLR.

Theorem C17_fields_HSR v x : 0 <= v < 2 ^ 32 ->
  (HSR_get_ec v = bits v 31 26 /\ (0 <= x < 2 ^ 6 -> HSR_set_ec v x = insert v 31 26 x)) /\
  (HSR_get_il v = bits v 25 25 /\ (0 <= x < 2 ^ 1 -> HSR_set_il v x = insert v 25 25 x)) /\
  (HSR_get_iss v = bits v 24 0 /\ (0 <= x < 2 ^ 25 -> HSR_set_iss v x = insert v 24 0 x)).
Proof. intros Hv. fields_tac. Qed.
Print Assumptions C17_fields_HSR.

Theorem C17_fields_HSTR v x : 0 <= v < 2 ^ 32 ->
  (HSTR_get_tjdbx v = bits v 17 17 /\ (0 <= x < 2 ^ 1 -> HSTR_set_tjdbx v x = insert v 17 17 x)) /\
  (HSTR_get_ttee v = bits v 16 16 /\ (0 <= x < 2 ^ 1 -> HSTR_set_ttee v x = insert v 16 16 x)).
Proof. intros Hv. fields_tac. Qed.
Print Assumptions C17_fields_HSTR.

Theorem C17_fields_HTCR v x : 0 <= v < 2 ^ 32 ->
  (HTCR_get_sh0 v = bits v 13 12 /\ (0 <= x < 2 ^ 2 -> HTCR_set_sh0 v x = insert v 13 12 x)) /\
  (HTCR_get_orgn0 v = bits v 11 10 /\ (0 <= x < 2 ^ 2 -> HTCR_set_orgn0 v x = insert v 11 10 x)) /\
  (HTCR_get_irgn0 v = bits v 9 8 /\ (0 <= x < 2 ^ 2 -> HTCR_set_irgn0 v x = insert v 9 8 x)) /\
  (HTCR_get_t0sz v = bits v 2 0 /\ (0 <= x < 2 ^ 3 -> HTCR_set_t0sz v x = insert v 2 0 x)).
Proof. intros Hv. fields_tac. Qed.
Print Assumptions C17_fields_HTCR.

Theorem C17_fields_IdPfr1 v x : 0 <= v < 2 ^ 32 ->
  (IdPfr1_get_gt v = bits v 19 16 /\ (0 <= x < 2 ^ 4 -> IdPfr1_set_gt v x = insert v 19 16 x)) /\
  (IdPfr1_get_ve v = bits v 15 12 /\ (0 <= x < 2 ^ 4 -> IdPfr1_set_ve v x = insert v 15 12 x)) /\
  (IdPfr1_get_m_profile v = bits v 11 8 /\ (0 <= x < 2 ^ 4 -> IdPfr1_set_m_profile v x = insert v 11 8 x)) /\
  (IdPfr1_get_se v = bits v 7 4 /\ (0 <= x < 2 ^ 4 -> IdPfr1_set_se v x = insert v 7 4 x)) /\
  (IdPfr1_get_pm v = bits v 3 0 /\ (0 <= x < 2 ^ 4 -> IdPfr1_set_pm v x = insert v 3 0 x)).
Proof. intros Hv. fields_tac. Qed.
Print Assumptions C17_fields_IdPfr1.

Theorem C17_fields_JMCR v x : 0 <= v < 2 ^ 32 ->
  (JMCR_get_je v = bits v 0 0 /\ (0 <= x < 2 ^ 1 -> JMCR_set_je v x = insert v 0 0 x)).
Proof. intros Hv. fields_tac. Qed.
Print Assumptions C17_fields_JMCR.

Theorem C17_fields_MIDR v x : 0 <= v < 2 ^ 32 ->
  (MIDR_get_implementer v = bits v 31 24 /\ (0 <= x < 2 ^ 8 -> MIDR_set_implementer v x = insert v 31 24 x)) /\
  (MIDR_get_variant v = bits v 23 20 /\ (0 <= x < 2 ^ 4 -> MIDR_set_variant v x = insert v 23 20 x)) /\
  (MIDR_get_architecture v = bits v 19 16 /\ (0 <= x < 2 ^ 4 -> MIDR_set_architecture v x = insert v 19 16 x)) /\
  (MIDR_get_primary_part_number v = bits v 15 4 /\ (0 <= x < 2 ^ 12 -> MIDR_set_primary_part_number v x = insert v 15 4 x)) /\
  (MIDR_get_revision v = bits v 3 0 /\ (0 <= x < 2 ^ 4 -> MIDR_set_revision v x = insert v 3 0 x)).
Proof. intros Hv. fields_tac. Qed.
Print Assumptions C17_fields_MIDR.

Theorem C17_fields_MPUIR v x : 0 <= v < 2 ^ 32 ->
  (MPUIR_get_nu v = bits v 0 0 /\ (0 <= x < 2 ^ 1 -> MPUIR_set_nu v x = insert v 0 0 x)) /\
  (MPUIR_get_iregion v = bits v 23 16 /\ (0 <= x < 2 ^ 8 -> MPUIR_set_iregion v x = insert v 23 16 x)) /\
  (MPUIR_get_dregion v = bits v 15 8 /\ (0 <= x < 2 ^ 8 -> MPUIR_set_dregion v x = insert v 15 8 x)).
Proof. intros Hv. fields_tac. Qed.
Print Assumptions C17_fields_MPUIR.

Theorem C17_fields_NSACR v x : 0 <= v < 2 ^ 32 ->
  (NSACR_get_nsd32dis v = bits v 14 14 /\ (0 <= x < 2 ^ 1 -> NSACR_set_nsd32dis v x = insert v 14 14 x)) /\
  (NSACR_get_nsasedis v = bits v 15 15 /\ (0 <= x < 2 ^ 1 -> NSACR_set_nsasedis v x = insert v 15 15 x)) /\
  (NSACR_get_rfr v = bits v 19 19 /\ (0 <= x < 2 ^ 1 -> NSACR_set_rfr v x = insert v 19 19 x)) /\
  (NSACR_get_nstrcdis v = bits v 20 20 /\ (0 <= x < 2 ^ 1 -> NSACR_set_nstrcdis v x = insert v 20 20 x)).
Proof. intros Hv. fields_tac. Qed.
Print Assumptions C17_fields_NSACR.

Theorem C17_fields_PMCR v x : 0 <= v < 2 ^ 32 ->
  (PMCR_get_e v = bits v 0 0 /\ (0 <= x < 2 ^ 1 -> PMCR_set_e v x = insert v 0 0 x)) /\
  (PMCR_get_p v = bits v 1 1 /\ (0 <= x < 2 ^ 1 -> PMCR_set_p v x = insert v 1 1 x)) /\
  (PMCR_get_c v = bits v 2 2 /\ (0 <= x < 2 ^ 1 -> PMCR_set_c v x = insert v 2 2 x)) /\
  (PMCR_get_d v = bits v 3 3 /\ (0 <= x < 2 ^ 1 -> PMCR_set_d v x = insert v 3 3 x)) /\
  (PMCR_get_x v = bits v 4 4 /\ (0 <= x < 2 ^ 1 -> PMCR_set_x v x = insert v 4 4 x)) /\
  (PMCR_get_dp v = bits v 5 5 /\ (0 <= x < 2 ^ 1 -> PMCR_set_dp v x = insert v 5 5 x)) /\
  (PMCR_get_imp v = bits v 31 24 /\ (0 <= x < 2 ^ 8 -> PMCR_set_imp v x = insert v 31 24 x)) /\
  (PMCR_get_idcode v = bits v 23 16 /\ (0 <= x < 2 ^ 8 -> PMCR_set_idcode v x = insert v 23 16 x)) /\
  (PMCR_get_n v = bits v 15 11 /\ (0 <= x < 2 ^ 5 -> PMCR_set_n v x = insert v 15 11 x)).
Proof. intros Hv. fields_tac. Qed.
Print Assumptions C17_fields_PMCR.

Theorem C17_fields_PRRR v x : 0 <= v < 2 ^ 32 ->
  (PRRR_get_ns1 v = bits v 19 19 /\ (0 <= x < 2 ^ 1 -> PRRR_set_ns1 v x = insert v 19 19 x)) /\
  (PRRR_get_ns0 v = bits v 18 18 /\ (0 <= x < 2 ^ 1 -> PRRR_set_ns0 v x = insert v 18 18 x)) /\
  (PRRR_get_ds1 v = bits v 17 17 /\ (0 <= x < 2 ^ 1 -> PRRR_set_ds1 v x = insert v 17 17 x)) /\
  (PRRR_get_ds0 v = bits v 16 16 /\ (0 <= x < 2 ^ 1 -> PRRR_set_ds0 v x = insert v 16 16 x)).
Proof. intros Hv. fields_tac. Qed.
Print Assumptions C17_fields_PRRR.

Theorem C17_fields_RACR v x : 0 <= v < 2 ^ 32 ->
  (RACR_get_xn v = bits v 12 12 /\ (0 <= x < 2 ^ 1 -> RACR_set_xn v x = insert v 12 12 x)) /\
  (RACR_get_ap v = bits v 10 8 /\ (0 <= x < 2 ^ 3 -> RACR_set_ap v x = insert v 10 8 x)) /\
  (RACR_get_tex v = bits v 5 3 /\ (0 <= x < 2 ^ 3 -> RACR_set_tex v x = insert v 5 3 x)) /\
  (RACR_get_s v = bits v 2 2 /\ (0 <= x < 2 ^ 1 -> RACR_set_s v x = insert v 2 2 x)) /\
  (RACR_get_c v = bits v 1 1 /\ (0 <= x < 2 ^ 1 -> RACR_set_c v x = insert v 1 1 x)) /\
  (RACR_get_b v = bits v 0 0 /\ (0 <= x < 2 ^ 1 -> RACR_set_b v x = insert v 0 0 x)).
Proof. intros Hv. fields_tac. Qed.
Print Assumptions C17_fields_RACR.

Theorem C17_fields_RSR v x : 0 <= v < 2 ^ 32 ->
  (RSR_get_rsize v = bits v 5 1 /\ (0 <= x < 2 ^ 5 -> RSR_set_rsize v x = insert v 5 1 x)) /\
  (RSR_get_en v = bits v 0 0 /\ (0 <= x < 2 ^ 1 -> RSR_set_en v x = insert v 0 0 x)).
Proof. intros Hv. fields_tac. Qed.
Print Assumptions C17_fields_RSR.

Theorem C17_fields_SCR v x : 0 <= v < 2 ^ 32 ->
  (SCR_get_ns v = bits v 0 0 /\ (0 <= x < 2 ^ 1 -> SCR_set_ns v x = insert v 0 0 x)) /\
  (SCR_get_irq v = bits v 1 1 /\ (0 <= x < 2 ^ 1 -> SCR_set_irq v x = insert v 1 1 x)) /\
  (SCR_get_fiq v = bits v 2 2 /\ (0 <= x < 2 ^ 1 -> SCR_set_fiq v x = insert v 2 2 x)) /\
  (SCR_get_ea v = bits v 3 3 /\ (0 <= x < 2 ^ 1 -> SCR_set_ea v x = insert v 3 3 x)) /\
  (SCR_get_fw v = bits v 4 4 /\ (0 <= x < 2 ^ 1 -> SCR_set_fw v x = insert v 4 4 x)) /\
  (SCR_get_aw v = bits v 5 5 /\ (0 <= x < 2 ^ 1 -> SCR_set_aw v x = insert v 5 5 x)) /\
  (SCR_get_net v = bits v 6 6 /\ (0 <= x < 2 ^ 1 -> SCR_set_net v x = insert v 6 6 x)) /\
  (SCR_get_scd v = bits v 7 7 /\ (0 <= x < 2 ^ 1 -> SCR_set_scd v x = insert v 7 7 x)) /\
  (SCR_get_hce v = bits v 8 8 /\ (0 <= x < 2 ^ 1 -> SCR_set_hce v x = insert v 8 8 x)) /\
  (SCR_get_sif v = bits v 9 9 /\ (0 <= x < 2 ^ 1 -> SCR_set_sif v x = insert v 9 9 x)).
Proof. intros Hv. fields_tac. Qed.
Print Assumptions C17_fields_SCR.

Theorem C17_fields_SCTLR v x : 0 <= v < 2 ^ 32 ->
  (SCTLR_get_ie v = bits v 31 31 /\ (0 <= x < 2 ^ 1 -> SCTLR_set_ie v x = insert v 31 31 x)) /\
  (SCTLR_get_te v = bits v 30 30 /\ (0 <= x < 2 ^ 1 -> SCTLR_set_te v x = insert v 30 30 x)) /\
  (SCTLR_get_afe v = bits v 29 29 /\ (0 <= x < 2 ^ 1 -> SCTLR_set_afe v x = insert v 29 29 x)) /\
  (SCTLR_get_tre v = bits v 28 28 /\ (0 <= x < 2 ^ 1 -> SCTLR_set_tre v x = insert v 28 28 x)) /\
  (SCTLR_get_nmfi v = bits v 27 27 /\ (0 <= x < 2 ^ 1 -> SCTLR_set_nmfi v x = insert v 27 27 x)) /\
  (SCTLR_get_ee v = bits v 25 25 /\ (0 <= x < 2 ^ 1 -> SCTLR_set_ee v x = insert v 25 25 x)) /\
  (SCTLR_get_ve v = bits v 24 24 /\ (0 <= x < 2 ^ 1 -> SCTLR_set_ve v x = insert v 24 24 x)) /\
  (SCTLR_get_u v = bits v 22 22 /\ (0 <= x < 2 ^ 1 -> SCTLR_set_u v x = insert v 22 22 x)) /\
  (SCTLR_get_fi v = bits v 21 21 /\ (0 <= x < 2 ^ 1 -> SCTLR_set_fi v x = insert v 21 21 x)) /\
  (SCTLR_get_uwxn v = bits v 20 20 /\ (0 <= x < 2 ^ 1 -> SCTLR_set_uwxn v x = insert v 20 20 x)) /\
  (SCTLR_get_wxn v = bits v 19 19 /\ (0 <= x < 2 ^ 1 -> SCTLR_set_wxn v x = insert v 19 19 x)) /\
  (SCTLR_get_dz v = bits v 19 19 /\ (0 <= x < 2 ^ 1 -> SCTLR_set_dz v x = insert v 19 19 x)) /\
  (SCTLR_get_ha v = bits v 17 17 /\ (0 <= x < 2 ^ 1 -> SCTLR_set_ha v x = insert v 17 17 x)) /\
  (SCTLR_get_br v = bits v 17 17 /\ (0 <= x < 2 ^ 1 -> SCTLR_set_br v x = insert v 17 17 x)) /\
  (SCTLR_get_rr v = bits v 14 14 /\ (0 <= x < 2 ^ 1 -> SCTLR_set_rr v x = insert v 14 14 x)) /\
  (SCTLR_get_v v = bits v 13 13 /\ (0 <= x < 2 ^ 1 -> SCTLR_set_v v x = insert v 13 13 x)) /\
  (SCTLR_get_i v = bits v 12 12 /\ (0 <= x < 2 ^ 1 -> SCTLR_set_i v x = insert v 12 12 x)) /\
  (SCTLR_get_z v = bits v 11 11 /\ (0 <= x < 2 ^ 1 -> SCTLR_set_z v x = insert v 11 11 x)) /\
  (SCTLR_get_sw v = bits v 10 10 /\ (0 <= x < 2 ^ 1 -> SCTLR_set_sw v x = insert v 10 10 x)) /\
  (SCTLR_get_b v = bits v 7 7 /\ (0 <= x < 2 ^ 1 -> SCTLR_set_b v x = insert v 7 7 x)) /\
  (SCTLR_get_cp15ben v = bits v 5 5 /\ (0 <= x < 2 ^ 1 -> SCTLR_set_cp15ben v x = insert v 5 5 x)) /\
  (SCTLR_get_c v = bits v 2 2 /\ (0 <= x < 2 ^ 1 -> SCTLR_set_c v x = insert v 2 2 x)) /\
  (SCTLR_get_a v = bits v 1 1 /\ (0 <= x < 2 ^ 1 -> SCTLR_set_a v x = insert v 1 1 x)) /\
  (SCTLR_get_m v = bits v 0 0 /\ (0 <= x < 2 ^ 1 -> SCTLR_set_m v x = insert v 0 0 x)).
Proof. intros Hv. fields_tac. Qed.
Print Assumptions C17_fields_SCTLR.

Theorem C17_fields_SDER v x : 0 <= v < 2 ^ 32 ->
  (SDER_get_suniden v = bits v 1 1 /\ (0 <= x < 2 ^ 1 -> SDER_set_suniden v x = insert v 1 1 x)) /\
  (SDER_get_suiden v = bits v 0 0 /\ (0 <= x < 2 ^ 1 -> SDER_set_suiden v x = insert v 0 0 x)).
Proof. intros Hv. fields_tac. Qed.
Print Assumptions C17_fields_SDER.

Theorem C17_fields_SUNAVCR v x : 0 <= v < 2 ^ 32 ->
  (SUNAVCR_get_v v = bits v 0 0 /\ (0 <= x < 2 ^ 1 -> SUNAVCR_set_v v x = insert v 0 0 x)).
Proof. intros Hv. fields_tac. Qed.
Print Assumptions C17_fields_SUNAVCR.

Theorem C17_fields_TEECR v x : 0 <= v < 2 ^ 32 ->
  (TEECR_get_xed v = bits v 0 0 /\ (0 <= x < 2 ^ 1 -> TEECR_set_xed v x = insert v 0 0 x)).
Proof. intros Hv. fields_tac. Qed.
Print Assumptions C17_fields_TEECR.

Theorem C17_fields_TTBCR v x : 0 <= v < 2 ^ 32 ->
  (TTBCR_get_eae v = bits v 31 31 /\ (0 <= x < 2 ^ 1 -> TTBCR_set_eae v x = insert v 31 31 x)) /\
  (TTBCR_get_sh1 v = bits v 29 28 /\ (0 <= x < 2 ^ 2 -> TTBCR_set_sh1 v x = insert v 29 28 x)) /\
  (TTBCR_get_orgn1 v = bits v 27 26 /\ (0 <= x < 2 ^ 2 -> TTBCR_set_orgn1 v x = insert v 27 26 x)) /\
  (TTBCR_get_irgn1 v = bits v 25 24 /\ (0 <= x < 2 ^ 2 -> TTBCR_set_irgn1 v x = insert v 25 24 x)) /\
  (TTBCR_get_epd1 v = bits v 23 23 /\ (0 <= x < 2 ^ 1 -> TTBCR_set_epd1 v x = insert v 23 23 x)) /\
  (TTBCR_get_a1 v = bits v 22 22 /\ (0 <= x < 2 ^ 1 -> TTBCR_set_a1 v x = insert v 22 22 x)) /\
  (TTBCR_get_t1sz v = bits v 18 16 /\ (0 <= x < 2 ^ 3 -> TTBCR_set_t1sz v x = insert v 18 16 x)) /\
  (TTBCR_get_sh0 v = bits v 13 12 /\ (0 <= x < 2 ^ 2 -> TTBCR_set_sh0 v x = insert v 13 12 x)) /\
  (TTBCR_get_orgn0 v = bits v 11 10 /\ (0 <= x < 2 ^ 2 -> TTBCR_set_orgn0 v x = insert v 11 10 x)) /\
  (TTBCR_get_irgn0 v = bits v 9 8 /\ (0 <= x < 2 ^ 2 -> TTBCR_set_irgn0 v x = insert v 9 8 x)) /\
  (TTBCR_get_epd0 v = bits v 7 7 /\ (0 <= x < 2 ^ 1 -> TTBCR_set_epd0 v x = insert v 7 7 x)) /\
  (TTBCR_get_pd1 v = bits v 5 5 /\ (0 <= x < 2 ^ 1 -> TTBCR_set_pd1 v x = insert v 5 5 x)) /\
  (TTBCR_get_pd0 v = bits v 4 4 /\ (0 <= x < 2 ^ 1 -> TTBCR_set_pd0 v x = insert v 4 4 x)) /\
  (TTBCR_get_t0sz v = bits v 2 0 /\ (0 <= x < 2 ^ 3 -> TTBCR_set_t0sz v x = insert v 2 0 x)) /\
  (TTBCR_get_n v = bits v 2 0 /\ (0 <= x < 2 ^ 3 -> TTBCR_set_n v x = insert v 2 0 x)).
Proof. intros Hv. fields_tac. Qed.
Print Assumptions C17_fields_TTBCR.

Theorem C17_fields_VTCR v x : 0 <= v < 2 ^ 32 ->
  (VTCR_get_sh0 v = bits v 13 12 /\ (0 <= x < 2 ^ 2 -> VTCR_set_sh0 v x = insert v 13 12 x)) /\
  (VTCR_get_orgn0 v = bits v 11 10 /\ (0 <= x < 2 ^ 2 -> VTCR_set_orgn0 v x = insert v 11 10 x)) /\
  (VTCR_get_irgn0 v = bits v 9 8 /\ (0 <= x < 2 ^ 2 -> VTCR_set_irgn0 v x = insert v 9 8 x)) /\
  (VTCR_get_sl0 v = bits v 7 6 /\ (0 <= x < 2 ^ 2 -> VTCR_set_sl0 v x = insert v 7 6 x)) /\
  (VTCR_get_s v = bits v 4 4 /\ (0 <= x < 2 ^ 1 -> VTCR_set_s v x = insert v 4 4 x)) /\
  (VTCR_get_t0sz v = bits v 3 0 /\ (0 <= x < 2 ^ 4 -> VTCR_set_t0sz v x = insert v 3 0 x)).
Proof. intros Hv. fields_tac. Qed.
Print Assumptions C17_fields_VTCR.

Theorem C17_family_CPACR_get_cp_n v n x : 0 <= v < 2 ^ 32 -> 0 <= n < 14 ->
  CPACR_get_cp_n v n = Val (bits v (2 * n + 1) (2 * n)) /\
  (0 <= x < 2 ^ 2 -> CPACR_set_cp_n v n x = Val (insert v (2 * n + 1) (2 * n) x)).
Proof. intros Hv Hn. family_tac. Qed.
Print Assumptions C17_family_CPACR_get_cp_n.

Theorem C17_family_DACR_get_d_n v n x : 0 <= v < 2 ^ 32 -> 0 <= n < 16 ->
  DACR_get_d_n v n = Val (bits v (2 * n + 1) (2 * n)) /\
  (0 <= x < 2 ^ 2 -> DACR_set_d_n v n x = Val (insert v (2 * n + 1) (2 * n) x)).
Proof. intros Hv Hn. family_tac. Qed.
Print Assumptions C17_family_DACR_get_d_n.

Theorem C17_family_HCPTR_get_tcp_n v n x : 0 <= v < 2 ^ 32 -> 0 <= n < 14 ->
  HCPTR_get_tcp_n v n = (bits v (n) (n)) /\
  (0 <= x < 2 ^ 1 -> HCPTR_set_tcp_n v n x = (insert v (n) (n) x)).
Proof. intros Hv Hn. family_tac. Qed.
Print Assumptions C17_family_HCPTR_get_tcp_n.

Theorem C17_family_HCR_get_tid_n v n x : 0 <= v < 2 ^ 32 -> 0 <= n < 4 ->
  HCR_get_tid_n v n = Val (bits v (15 + n) (15 + n)) /\
  (0 <= x < 2 ^ 1 -> HCR_set_tid_n v n x = Val (insert v (15 + n) (15 + n) x)).
Proof. intros Hv Hn. family_tac. Qed.
Print Assumptions C17_family_HCR_get_tid_n.

Theorem C17_family_HSTR_get_t_n v n x : 0 <= v < 2 ^ 32 -> 0 <= n < 16 ->
  HSTR_get_t_n v n = (bits v (n) (n)) /\
  (0 <= x < 2 ^ 1 -> HSTR_set_t_n v n x = (insert v (n) (n) x)).
Proof. intros Hv Hn. family_tac. Qed.
Print Assumptions C17_family_HSTR_get_t_n.

Theorem C17_family_NMRR_get_ir_n v n x : 0 <= v < 2 ^ 32 -> 0 <= n < 8 ->
  NMRR_get_ir_n v n = Val (bits v (2 * n + 1) (2 * n)) /\
  (0 <= x < 2 ^ 2 -> NMRR_set_ir_n v n x = Val (insert v (2 * n + 1) (2 * n) x)).
Proof. intros Hv Hn. family_tac. Qed.
Print Assumptions C17_family_NMRR_get_ir_n.

Theorem C17_family_NMRR_get_or_n v n x : 0 <= v < 2 ^ 32 -> 0 <= n < 8 ->
  NMRR_get_or_n v n = Val (bits v (2 * n + 17) (2 * n + 16)) /\
  (0 <= x < 2 ^ 2 -> NMRR_set_or_n v n x = Val (insert v (2 * n + 17) (2 * n + 16) x)).
Proof. intros Hv Hn. family_tac. Qed.
Print Assumptions C17_family_NMRR_get_or_n.

Theorem C17_family_NSACR_get_cp_n v n x : 0 <= v < 2 ^ 32 -> 0 <= n < 14 ->
  NSACR_get_cp_n v n = Val (bits v (n) (n)) /\
  (0 <= x < 2 ^ 1 -> NSACR_set_cp_n v n x = Val (insert v (n) (n) x)).
Proof. intros Hv Hn. family_tac. Qed.
Print Assumptions C17_family_NSACR_get_cp_n.

Theorem C17_family_PRRR_get_tr_n v n x : 0 <= v < 2 ^ 32 -> 0 <= n < 8 ->
  PRRR_get_tr_n v n = (bits v (2 * n + 1) (2 * n)) /\
  (0 <= x < 2 ^ 2 -> PRRR_set_tr_n v n x = (insert v (2 * n + 1) (2 * n) x)).
Proof. intros Hv Hn. family_tac. Qed.
Print Assumptions C17_family_PRRR_get_tr_n.

Theorem C17_family_PRRR_get_nos_n v n x : 0 <= v < 2 ^ 32 -> 0 <= n < 8 ->
  PRRR_get_nos_n v n = (bits v (n + 24) (n + 24)) /\
  (0 <= x < 2 ^ 1 -> PRRR_set_nos_n v n x = (insert v (n + 24) (n + 24) x)).
Proof. intros Hv Hn. family_tac. Qed.
Print Assumptions C17_family_PRRR_get_nos_n.

Theorem C17_family_RSR_get_sd_n v n x : 0 <= v < 2 ^ 32 -> 0 <= n < 8 ->
  RSR_get_sd_n v n = (bits v (8 + n) (8 + n)) /\
  (0 <= x < 2 ^ 1 -> RSR_set_sd_n v n x = (insert v (8 + n) (8 + n) x)).
Proof. intros Hv Hn. family_tac. Qed.
Print Assumptions C17_family_RSR_get_sd_n.

(* the composite views *)
Theorem C17_CPSR_it v x : 0 <= v < 2 ^ 32 -> 0 <= x < 2 ^ 8 ->
  CPSR_get_it v = bits v 15 10 * 4 + bits v 26 25 /\
  CPSR_set_it v x = insert (insert v 15 10 (bits x 7 2)) 26 25 (bits x 1 0).
Proof. exact (CPSR_it_spec v x). Qed.
Print Assumptions C17_CPSR_it.
Theorem C17_CPSR_isetstate v x : 0 <= v < 2 ^ 32 -> 0 <= x < 4 ->
  CPSR_get_isetstate v = bit v 24 * 2 + bit v 5 /\
  CPSR_set_isetstate v x = insert (insert v 24 24 (bit x 1)) 5 5 (bit x 0).
Proof. exact (CPSR_isetstate_spec v x). Qed.
Print Assumptions C17_CPSR_isetstate.
Theorem C17_CPSR_apsr v : CPSR_get_apsr v = Z.land v 4161732608.   (* 0xF80F0000: N Z C V Q GE *)
Proof. reflexivity. Qed.
Print Assumptions C17_CPSR_apsr.
Theorem C17_DFSR_fs v : 0 <= v < 2 ^ 32 -> DFSR_get_fs v = bit v 10 * 16 + bits v 3 0.
Proof. exact (DFSR_fs_spec v). Qed.
Print Assumptions C17_DFSR_fs.
Theorem C17_VBAR_base v : 0 <= v < 2 ^ 32 -> VBAR_get_base_address v = bits v 31 5.
Proof. exact (VBAR_base_spec v). Qed.
Print Assumptions C17_VBAR_base.

