(* Proofs/MemProofs.v — the regenerated MemA / MemU (mem_a_with_priv_get/set, mem_u_with_priv_get/set)
   against Spec/Memory.v, for every address, size, value, configuration and translation outcome. *)
From Coq Require Import ZArith List Bool Lia ZifyBool.
From ArmV Require Import Lib.PyZ Lib.Monad Lib.Machine Spec.Pseudocode Spec.Expected Spec.Arch Spec.Hub Spec.Memory
  Proofs.BitLemmas Proofs.SpecFacts Proofs.BitsOps Proofs.BitsOps2 Proofs.FieldsProofs Proofs.StateLemmas
  Proofs.CondProofs Proofs.BankProofs Proofs.MachineOps Proofs.HubProofs.
From Gen Require Import enums bits_ops shift regviews records hubm opsyn core.
Import ListNotations.
Open Scope Z_scope.
Ltac Zify.zify_post_hook ::= Z.to_euclidean_division_equations.

(* ---------- bytes are bytes ---------- *)
Definition bytes_ok (bs : list Z) : Prop := Forall (fun b => 0 <= b < 256) bs.
Definition hub_ok (h : hub) : Prop := Forall (fun d => bytes_ok (dev_bytes d)) h.

Lemma byte_at_range bs k : bytes_ok bs -> 0 <= byte_at bs k < 256.
Proof.
  intros H. unfold byte_at. destruct (k <? 0); [lia|].
  destruct (Nat.lt_ge_cases (Z.to_nat k) (length bs)) as [Hl|Hg].
  - unfold bytes_ok in H. rewrite Forall_forall in H. apply H. apply nth_In. exact Hl.
  - rewrite nth_overflow by exact Hg. lia.
Qed.
Lemma read_le_range bs n : bytes_ok bs -> forall off, 0 <= read_le bs off n < 256 ^ Z.of_nat n.
Proof.
  intros H. induction n as [|n IH]; intros off.
  - cbn. lia.
  - cbn [read_le]. pose proof (byte_at_range bs off H). pose proof (IH (off + 1)).
    rewrite Nat2Z.inj_succ, Z.pow_succ_r by lia. lia.
Qed.
Lemma hub_read_range h pa size : hub_ok h -> 0 <= size -> 0 <= hub_read h pa size < 2 ^ (8 * size).
Proof.
  intros H Hs. unfold hub_read. replace (2 ^ (8 * size)) with (256 ^ Z.of_nat (Z.to_nat size)).
  2:{ rewrite Z2Nat.id by lia. change 256 with (2 ^ 8). rewrite <- Z.pow_mul_r by lia. reflexivity. }
  destruct (find_dev h pa) as [i|] eqn:F.
  - apply read_le_range. destruct (find_dev_lt _ _ _ F) as [Hi _]. unfold hub_ok in H. rewrite Forall_forall in H.
    apply H. apply nth_In. exact Hi.
  - pose proof (Z.pow_pos_nonneg 256 (Z.of_nat (Z.to_nat size)) ltac:(lia) ltac:(lia)). lia.
Qed.

(* ---------- running hub computations inside the machine ---------- *)
Lemma run_zoom_mem_ok {A} (m : M hub A) s a h' : m (mem s) = Ok a h' -> zoom_mem m s = Ok a (set_mem s h').
Proof. intros E. unfold zoom_mem, zoom. rewrite E. reflexivity. Qed.
Lemma set_mem_same s : set_mem s (mem s) = s.
Proof. destruct s; reflexivity. Qed.

(* ---------- MemA ---------- *)
Lemma strict_code cfg s :
  ((conf_arch_version cfg >=? 7) || truthy (SCTLR_get_a (getl (sys s) 11)) || truthy (SCTLR_get_u (getl (sys s) 11)))
  = strict_alignment (cfg_arch_version cfg) s.
Proof.
  unfold strict_alignment, sctlr_A, sctlr_U, sctlr_of, conf_arch_version, SCTLR_get_a, SCTLR_get_u.
  rewrite !flag_get by lia. unfold truthy.
  pose proof (bit01 (getl (sys s) 11) 1). pose proof (bit01 (getl (sys s) 11) 22).
  destruct (cfg_arch_version cfg >=? 7); [reflexivity|]. cbn [orb].
  destruct (bit (getl (sys s) 11) 1 =? 0) eqn:E1, (bit (getl (sys s) 11) 1 =? 1) eqn:E1'; try lia;
  destruct (bit (getl (sys s) 11) 22 =? 0) eqn:E2, (bit (getl (sys s) 11) 22 =? 1) eqn:E2'; try lia; reflexivity.
Qed.

Definition translated (cfg : config) (s : machine) (va priv iswrite size wa : Z) (pa : Z) (s1 : machine) : Prop :=
  exists d, ArmV6_translate_address cfg va priv iswrite size wa s = Ok (Some d) s1 /\ pa_of d = pa.

Theorem mem_a_get_ok cfg address size priv wa s va pa s1 :
  valid_size size = true -> hub_ok (mem s1) ->
  MemA_va (cfg_arch_version cfg) s address size = Some va ->
  translated cfg s va priv 0 size wa pa s1 ->
  ArmV6_mem_a_with_priv_get cfg address size priv wa s = Ok (MemA_read s1 pa size) s1.
Proof.
  intros V Hh Hva [d [Ht Hpa]]. unfold ArmV6_mem_a_with_priv_get, MemA_va in *. rewrite align_spec in *.
  change (Pseudocode.Align address size) with (Align address size) in *.
  assert (E1 : forall k : option Z -> M machine Z,
    bind (if address =? Align address size then ret (Some address)
          else bind (get_sys 11) (fun r_1 => bind (get_sys 11) (fun r_2 =>
               bind (if (conf_arch_version cfg >=? 7) || truthy (SCTLR_get_a r_1) || truthy (SCTLR_get_u r_2)
                     then bind (ArmV6_alignment_fault cfg address 0) (fun _ => ret None)
                     else ret (Some (Align address size))) (fun v => ret v)))) k s = k (Some va) s).
  { intros k. destruct (address =? Align address size).
    - inversion Hva. reflexivity.
    - rewrite bind_assoc_run, run_get_sys_bind. cbv beta. rewrite bind_assoc_run, run_get_sys_bind. cbv beta.
      rewrite strict_code. destruct (strict_alignment (cfg_arch_version cfg) s); [discriminate|]. inversion Hva. reflexivity. }
  cbv zeta. rewrite E1. unfold lift at 1, eunbound. rewrite bind_ret_run. cbv beta.
  rewrite run_bind, Ht. cbn beta iota. unfold lift at 1, enone. rewrite bind_ret_run. cbv beta.
  rewrite run_bind. rewrite (run_zoom_mem_ok _ s1 _ _ (Hub_getitem_spec (mem s1) d size V)). cbn beta iota.
  rewrite set_mem_same, Hpa. rewrite run_get_sys_bind. cbv beta.
  unfold MemA_read, endian, big_endian, psr_E, cpsr_of. unfold CPSR_get_e. rewrite flag_get by lia.
  pose proof (hub_read_range (mem s1) pa size Hh ltac:(unfold valid_size in V; lia)) as R.
  unfold truthy. pose proof (bit01 (getl (sys s1) 0) 9).
  destruct (bit (getl (sys s1) 0) 9 =? 0) eqn:E0, (bit (getl (sys s1) 0) 9 =? 1) eqn:E1'; try lia; cbn [negb].
  - reflexivity.
  - rewrite big_endian_reverse_spec by exact R. unfold exp_big_endian_reverse. unfold valid_size in V. rewrite V. reflexivity.
Qed.

Lemma BigEndianReverseN_range n : forall x, 0 <= BigEndianReverseN n x < 2 ^ (8 * Z.of_nat n).
Proof.
  induction n as [|n IH]; intros x; cbn [BigEndianReverseN]; [cbn; lia|].
  pose proof (IH (x / 256)). pose proof (Z.mod_pos_bound x 256 ltac:(lia)).
  replace (8 * Z.of_nat (S n)) with (8 + 8 * Z.of_nat n) by lia. rewrite Z.pow_add_r by lia. change (2 ^ 8) with 256.
  pose proof (Z.pow_pos_nonneg 2 (8 * Z.of_nat n) ltac:(lia) ltac:(lia)). nia.
Qed.
Lemma endian_range be size v : 0 <= size -> 0 <= v < 2 ^ (8 * size) -> 0 <= endian be size v < 2 ^ (8 * size).
Proof.
  intros Hs Hv. unfold endian. destruct be; [|exact Hv]. unfold BigEndianReverse.
  pose proof (BigEndianReverseN_range (Z.to_nat size) v). rewrite Z2Nat.id in H by lia. exact H.
Qed.

Theorem mem_a_set_ok cfg address size priv wa value s va pa s1 :
  valid_size size = true -> 0 <= value < 2 ^ (8 * size) ->
  MemA_va (cfg_arch_version cfg) s address size = Some va ->
  translated cfg s va priv 1 size wa pa s1 ->
  ArmV6_mem_a_with_priv_set cfg address size priv wa value s = Ok tt (MemA_write s1 pa size value).
Proof.
  intros V Hv Hva [d [Ht Hpa]]. unfold ArmV6_mem_a_with_priv_set, MemA_va in *. rewrite align_spec in *.
  change (Pseudocode.Align address size) with (Align address size) in *.
  assert (E1 : forall k : option Z -> M machine unit,
    bind (if address =? Align address size then ret (Some address)
          else bind (get_sys 11) (fun r_1 => bind (get_sys 11) (fun r_2 =>
               bind (if (conf_arch_version cfg >=? 7) || truthy (SCTLR_get_a r_1) || truthy (SCTLR_get_u r_2)
                     then bind (ArmV6_alignment_fault cfg address 1) (fun _ => ret None)
                     else ret (Some (Align address size))) (fun v => ret v)))) k s = k (Some va) s).
  { intros k. destruct (address =? Align address size).
    - inversion Hva. reflexivity.
    - rewrite bind_assoc_run, run_get_sys_bind. cbv beta. rewrite bind_assoc_run, run_get_sys_bind. cbv beta.
      rewrite strict_code. destruct (strict_alignment (cfg_arch_version cfg) s); [discriminate|]. inversion Hva. reflexivity. }
  cbv zeta. rewrite E1. unfold lift at 1, eunbound. rewrite bind_ret_run. cbv beta.
  rewrite run_bind, Ht. cbn beta iota. unfold lift at 1, enone at 1. rewrite bind_ret_run. cbv beta.
  assert (E2 : forall k : unit -> M machine unit,
     bind (lift (if truthy (MemoryAttributes_shareable (AddressDescriptor_memattrs d))
                 then ebind (enone (Some d)) (fun _ => Val tt) else Val tt)) k s1 = k tt s1).
  { intros k. destruct (truthy _); reflexivity. }
  rewrite E2. rewrite run_get_sys_bind. cbv beta.
  assert (Sz : 0 <= size) by (unfold valid_size in V; lia).
  assert (E3 : (if truthy (CPSR_get_e (getl (sys s1) 0)) then ebind (big_endian_reverse value size) (fun t => Val t) else Val value)
               = Val (endian (big_endian s1) size value)).
  { unfold endian, big_endian, psr_E, cpsr_of, CPSR_get_e. rewrite flag_get by lia. unfold truthy.
    pose proof (bit01 (getl (sys s1) 0) 9).
    destruct (bit (getl (sys s1) 0) 9 =? 0) eqn:E0, (bit (getl (sys s1) 0) 9 =? 1) eqn:E1'; try lia; cbn [negb]; [reflexivity|].
    rewrite big_endian_reverse_spec by exact Hv. unfold exp_big_endian_reverse. unfold valid_size in V. rewrite V. reflexivity. }
  rewrite E3. unfold lift at 1. rewrite bind_ret_run. cbv beta. unfold lift at 1, enone. rewrite bind_ret_run. cbv beta.
  rewrite bind_ret_tt.
  rewrite (run_zoom_mem_ok _ s1 _ _ (Hub_setitem_spec (mem s1) d size _ V (endian_range _ size value Sz Hv))).
  rewrite Hpa. reflexivity.
Qed.

(* an unaligned MemA access under strict alignment is the alignment fault, and nothing else happens before it *)
Theorem mem_a_get_fault cfg address size priv wa s :
  MemA_va (cfg_arch_version cfg) s address size = None ->
  exists k, ArmV6_mem_a_with_priv_get cfg address size priv wa s = bind (ArmV6_alignment_fault cfg address 0) k s.
Proof.
  intros Hva. unfold ArmV6_mem_a_with_priv_get, MemA_va in *. rewrite align_spec in *.
  change (Pseudocode.Align address size) with (Align address size) in *.
  destruct (address =? Align address size); [discriminate|].
  rewrite bind_assoc_run, run_get_sys_bind. cbv beta. rewrite bind_assoc_run, run_get_sys_bind. cbv beta.
  rewrite strict_code. destruct (strict_alignment (cfg_arch_version cfg) s); [|discriminate].
  rewrite !bind_assoc_run. eexists. reflexivity.
Qed.
Theorem mem_a_set_fault cfg address size priv wa value s :
  MemA_va (cfg_arch_version cfg) s address size = None ->
  exists k, ArmV6_mem_a_with_priv_set cfg address size priv wa value s = bind (ArmV6_alignment_fault cfg address 1) k s.
Proof.
  intros Hva. unfold ArmV6_mem_a_with_priv_set, MemA_va in *. rewrite align_spec in *.
  change (Pseudocode.Align address size) with (Align address size) in *.
  destruct (address =? Align address size); [discriminate|].
  rewrite bind_assoc_run, run_get_sys_bind. cbv beta. rewrite bind_assoc_run, run_get_sys_bind. cbv beta.
  rewrite strict_code. destruct (strict_alignment (cfg_arch_version cfg) s); [|discriminate].
  rewrite !bind_assoc_run. eexists. reflexivity.
Qed.

(* ---------- PMSA: a synchronous data abort reports DFAR/DFSR and raises ---------- *)
Definition pmsa (cfg : config) : Prop := cfg_memory_system_architecture cfg = MemArch_PMSA.
Definition sync_dtype (d : Z) : Prop := d = DAbort_ALIGNMENT \/ d = DAbort_BACKGROUND \/ d = DAbort_PERMISSION.
Definition fs_of (d : Z) : Z := ArmV6_encode_pmsafsr d.

Theorem pmsa_data_abort cfg va ip dom lvl iswrite dtype tth ssa ipav ldf s2 s :
  pmsa cfg -> sync_dtype dtype -> 0 <= iswrite <= 1 -> word (getl (sys s) 23) ->
  ArmV6_data_abort cfg va ip dom lvl iswrite dtype tth ssa ipav ldf s2 s
  = Exc (EDataAbort dtype ssa) (pmsa_fault_state s va iswrite (fs_of dtype)).
Proof.
  intros Hp Hd Hw Wd. unfold ArmV6_data_abort, conf_memory_system_architecture. rewrite Hp.
  change (MemArch_PMSA =? MemArch_VMSA) with false. cbv iota. cbv zeta.
  rewrite bind_assoc_run, run_get_sys_bind. cbv beta.
  unfold pmsa_fault_state, pmsa_dfsr, fs_of, i_dfar, i_dfsr.
  assert (Hds : forall x : Z, getl (sys (set_sys s (setl (sys s) 24 x))) 23 = getl (sys s) 23).
  { intros x. cbn [sys set_sys]. apply getl_setl_other; lia. }
  rewrite Hds.
  assert (iswrite = 0 \/ iswrite = 1) as [-> | ->] by lia;
  destruct Hd as [-> | [-> | ->]];
    cbv [DAbort_ALIGNMENT DAbort_BACKGROUND DAbort_PERMISSION DAbort_ASYNC_PARITY DAbort_ASYNC_EXTERNAL DAbort_ASYNC_WATCHPOINT
         DAbort_SYNC_WATCHPOINT DAbort_SYNC_PARITY DAbort_SYNC_EXTERNAL];
    cbn [Z.eqb Pos.eqb orb andb]; cbv iota;
    rewrite ?bind_assoc_run; rewrite run_put_sys_bind; cbv beta; rewrite ?bind_ret_run; cbv beta;
    rewrite ?bind_assoc_run; rewrite ?bind_ret_run; cbv beta; rewrite ?bind_assoc_run; rewrite run_get_sys_bind; cbv beta;
    rewrite ?bind_assoc_run; rewrite run_put_sys_bind; cbv beta; rewrite ?bind_ret_run; cbv beta;
    unfold raise; rewrite Hds; f_equal; f_equal; f_equal;
    match goal with |- set_substring ?r 13 0 ?v = insert _ 13 0 ?v' =>
      let w := eval vm_compute in v in change v with w; let w' := eval vm_compute in v' in change v' with w' end;
    (rewrite set_substring_insert; [reflexivity|lia|lia|apply word_lt256; exact Wd|cbn; lia]).
Qed.

Theorem pmsa_alignment_fault cfg address iswrite s : pmsa cfg -> 0 <= iswrite <= 1 -> word (getl (sys s) 23) ->
  ArmV6_alignment_fault cfg address iswrite s
  = Exc (EDataAbort DAbort_ALIGNMENT 0) (pmsa_fault_state s address iswrite FS_alignment).
Proof.
  intros Hp Hw Wd. unfold ArmV6_alignment_fault, conf_memory_system_architecture. pose proof Hp as Hp'. unfold pmsa in Hp'. rewrite Hp'.
  change (MemArch_PMSA =? MemArch_VMSA) with false. change (MemArch_PMSA =? MemArch_PMSA) with true. cbv iota.
  unfold ArmV6_alignment_fault_p. cbv zeta. rewrite !bind_assoc_run.
  rewrite run_bind, pmsa_data_abort; [reflexivity|exact Hp|left; reflexivity|exact Hw|exact Wd].
Qed.

Theorem mem_a_get_alignment_fault cfg address size priv wa s : pmsa cfg -> word (getl (sys s) 23) ->
  MemA_va (cfg_arch_version cfg) s address size = None ->
  ArmV6_mem_a_with_priv_get cfg address size priv wa s
  = Exc (EDataAbort DAbort_ALIGNMENT 0) (pmsa_fault_state s address 0 FS_alignment).
Proof.
  intros Hp Wd Hva. destruct (mem_a_get_fault cfg address size priv wa s Hva) as [k E]. rewrite E.
  rewrite run_bind, pmsa_alignment_fault by (try assumption; lia). reflexivity.
Qed.
Theorem mem_a_set_alignment_fault cfg address size priv wa value s : pmsa cfg -> word (getl (sys s) 23) ->
  MemA_va (cfg_arch_version cfg) s address size = None ->
  ArmV6_mem_a_with_priv_set cfg address size priv wa value s
  = Exc (EDataAbort DAbort_ALIGNMENT 0) (pmsa_fault_state s address 1 FS_alignment).
Proof.
  intros Hp Wd Hva. destruct (mem_a_set_fault cfg address size priv wa value s Hva) as [k E]. rewrite E.
  rewrite run_bind, pmsa_alignment_fault by (try assumption; lia). reflexivity.
Qed.

(* ---------- MemU: which behaviour applies ---------- *)
Lemma truthy_bit' v i : truthy (bit v i) = (bit v i =? 1).
Proof. unfold truthy. pose proof (bit01 v i). destruct (bit v i =? 0) eqn:E, (bit v i =? 1) eqn:E'; try lia; reflexivity. Qed.
Lemma negb_truthy_bit' v i : negb (truthy (bit v i)) = (bit v i =? 0).
Proof. unfold truthy. rewrite negb_involutive. reflexivity. Qed.
Lemma legacy_code cfg s :
  ((conf_arch_version cfg <? 7) && negb (truthy (SCTLR_get_a (getl (sys s) 11))) && negb (truthy (SCTLR_get_u (getl (sys s) 11))))
  = legacy_align (cfg_arch_version cfg) s.
Proof.
  unfold legacy_align, sctlr_A, sctlr_U, sctlr_of, conf_arch_version, SCTLR_get_a, SCTLR_get_u.
  rewrite !flag_get by lia. rewrite !negb_truthy_bit'. reflexivity.
Qed.
Lemma b_is_secure {A} cfg (k : Z -> M machine A) s :
  bind (Registers_is_secure cfg) k s = k (B2Z (IsSecure (sysctx_of cfg s) (cpsr_of s))) s.
Proof. rewrite run_bind, is_secure_spec. reflexivity. Qed.
Lemma b_is_hyp {A} cfg (k : Z -> M machine A) s :
  bind (Registers_current_mode_is_hyp cfg) k s = k (B2Z (mode_of s =? 26)) s.
Proof.
  unfold Registers_current_mode_is_hyp. rewrite bind_assoc_run, run_get_sys_bind. cbv beta.
  rewrite bind_assoc_run, run_get_sys_bind. cbv beta. rewrite mode_of_get. destruct (mode_of s =? 26); reflexivity.
Qed.
Lemma truthy_B2Z'' c : truthy (B2Z c) = c.
Proof. destruct c; reflexivity. Qed.

Definition kind_of (cfg : config) (s : machine) (address size : Z) : memu_kind :=
  MemU_kind (cfg_arch_version cfg) (truthy (cfg_have_virt_ext cfg)) (IsSecure (sysctx_of cfg s) (cpsr_of s)) s address size.

Theorem mem_u_get_dispatch cfg address size priv s :
  ArmV6_mem_u_with_priv_get cfg address size priv s =
  match kind_of cfg s address size with
  | MU_aligned a => ArmV6_mem_a_with_priv_get cfg a size priv 1 s
  | MU_fault a => bind (ArmV6_alignment_fault cfg a 0) (fun _ => ret 0) s
  | MU_bytes a =>
      bind (foldM (fun i v => bind (ArmV6_mem_a_with_priv_get cfg (add a i 32) 1 priv 0)
                                   (fun t => ret (set_substring v (8 * i + 7) (8 * i) t))) (py_range 0 size 1) 0)
           (fun v => bind (get_sys 0) (fun r => lift (if truthy (CPSR_get_e r) then big_endian_reverse v size else Val v))) s
  end.
Proof.
  unfold ArmV6_mem_u_with_priv_get, kind_of, MemU_kind. cbv zeta.
  rewrite run_get_sys_bind. cbv beta. rewrite run_get_sys_bind. cbv beta. rewrite legacy_code, !align_spec.
  change (Pseudocode.Align) with Align.
  set (a := if legacy_align (cfg_arch_version cfg) s then Align address size else address).
  rewrite align_spec. change (Pseudocode.Align a size) with (Align a size).
  destruct (a =? Align a size).
  - unfold bind, ret. destruct (ArmV6_mem_a_with_priv_get cfg a size priv 1 s); reflexivity.
  - rewrite !bind_assoc_run. rewrite b_is_secure. cbv beta. rewrite !bind_assoc_run. rewrite b_is_hyp. cbv beta.
    rewrite !bind_assoc_run, run_get_sys_bind. cbv beta. rewrite !truthy_B2Z''.
    unfold HSCTLR_get_a, hsctlr_A, conf_have_virt_ext, M_hyp. rewrite flag_get, truthy_bit' by lia.
    destruct (truthy (cfg_have_virt_ext cfg) && negb (IsSecure (sysctx_of cfg s) (cpsr_of s)) && (mode_of s =? 26) && (bit (getl (sys s) 14) 1 =? 1)).
    + unfold bind, ret. destruct (ArmV6_alignment_fault cfg a 0 s); reflexivity.
    + rewrite !bind_assoc_run. rewrite b_is_hyp. cbv beta. rewrite !bind_assoc_run, run_get_sys_bind. cbv beta.
      rewrite truthy_B2Z''. unfold SCTLR_get_a, sctlr_A, sctlr_of. rewrite flag_get, truthy_bit' by lia.
      destruct (negb (mode_of s =? 26) && (bit (getl (sys s) 11) 1 =? 1)).
      * unfold bind, ret. destruct (ArmV6_alignment_fault cfg a 0 s); reflexivity.
      * unfold bind, ret, get_sys, lift.
        match goal with |- context [foldM ?f ?l ?i s] => destruct (foldM f l i s) as [v s'|e s'] end; [|reflexivity].
        destruct (truthy (CPSR_get_e (getl (sys s') 0))); [|reflexivity].
        unfold ebind. destruct (big_endian_reverse v size); reflexivity.
Qed.

Theorem mem_u_set_dispatch cfg address size priv value s :
  ArmV6_mem_u_with_priv_set cfg address size priv value s =
  match kind_of cfg s address size with
  | MU_aligned a => ArmV6_mem_a_with_priv_set cfg a size priv 1 value s
  | MU_fault a => ArmV6_alignment_fault cfg a 1 s
  | MU_bytes a =>
      bind (get_sys 0) (fun r => bind (lift (if truthy (CPSR_get_e r) then big_endian_reverse value size else Val value))
        (fun v => foldM (fun i (_ : unit) => bind (ArmV6_mem_a_with_priv_set cfg (add a i 32) 1 priv 0 (substring v (8 * i + 7) (8 * i)))
                                                  (fun _ => ret tt))
                        (py_range 0 size 1) tt)) s
  end.
Proof.
  unfold ArmV6_mem_u_with_priv_set, kind_of, MemU_kind. cbv zeta.
  rewrite run_get_sys_bind. cbv beta. rewrite run_get_sys_bind. cbv beta. rewrite legacy_code, !align_spec.
  change (Pseudocode.Align) with Align.
  set (a := if legacy_align (cfg_arch_version cfg) s then Align address size else address).
  rewrite align_spec. change (Pseudocode.Align a size) with (Align a size).
  destruct (a =? Align a size).
  - unfold bind, ret. destruct (ArmV6_mem_a_with_priv_set cfg a size priv 1 value s) as [[] ?|]; reflexivity.
  - rewrite !bind_assoc_run. rewrite b_is_secure. cbv beta. rewrite !bind_assoc_run. rewrite b_is_hyp. cbv beta.
    rewrite !bind_assoc_run, run_get_sys_bind. cbv beta. rewrite !truthy_B2Z''.
    unfold HSCTLR_get_a, hsctlr_A, conf_have_virt_ext, M_hyp. rewrite flag_get, truthy_bit' by lia.
    destruct (truthy (cfg_have_virt_ext cfg) && negb (IsSecure (sysctx_of cfg s) (cpsr_of s)) && (mode_of s =? 26) && (bit (getl (sys s) 14) 1 =? 1)).
    + unfold bind, ret. destruct (ArmV6_alignment_fault cfg a 1 s) as [[] ?|]; reflexivity.
    + rewrite !bind_assoc_run. rewrite b_is_hyp. cbv beta. rewrite !bind_assoc_run, run_get_sys_bind. cbv beta.
      rewrite truthy_B2Z''. unfold SCTLR_get_a, sctlr_A, sctlr_of. rewrite flag_get, truthy_bit' by lia.
      destruct (negb (mode_of s =? 26) && (bit (getl (sys s) 11) 1 =? 1)).
      * unfold bind, ret. destruct (ArmV6_alignment_fault cfg a 1 s) as [[] ?|]; reflexivity.
      * unfold bind, ret, get_sys, lift.
        destruct (truthy (CPSR_get_e (getl (sys s) 0))).
        -- unfold ebind. destruct (big_endian_reverse value size) as [v|e]; [|reflexivity].
           match goal with |- context [foldM ?f ?l ?i s] => destruct (foldM f l i s) as [[] s'|e s'] end; reflexivity.
        -- match goal with |- context [foldM ?f ?l ?i s] => destruct (foldM f l i s) as [[] s'|e s'] end; reflexivity.
Qed.

(* ---------- instruction fetch is little-endian ---------- *)
From ArmV Require Import Proofs.MemFacts.
Lemma b_not_user {A} cfg (k : Z -> M machine A) s :
  bind (Registers_current_mode_is_not_user cfg) k s = k (B2Z (negb (mode_of s =? 16))) s.
Proof.
  unfold Registers_current_mode_is_not_user. rewrite bind_assoc_run, run_get_sys_bind. cbv beta.
  rewrite bind_assoc_run, run_get_sys_bind. cbv beta. rewrite mode_of_get. destruct (mode_of s =? 16); reflexivity.
Qed.
Definition priv_of (s : machine) : Z := B2Z (negb (mode_of s =? 16)).

Theorem mem_i_get_little_endian cfg address size s va pa s1 :
  valid_size size = true -> hub_ok (mem s1) ->
  MemA_va (cfg_arch_version cfg) s address size = Some va ->
  translated cfg s va (priv_of s) 0 size 1 pa s1 ->
  ArmV6_mem_i_get cfg address size s = Ok (hub_read (mem s1) pa size) s1.
Proof.
  intros V Hh Hva Ht. unfold ArmV6_mem_i_get, ArmV6_mem_a_get. rewrite !bind_assoc_run, b_not_user. cbv beta.
  change (B2Z (negb (mode_of s =? 16))) with (priv_of s).
  rewrite bind_assoc_run. rewrite run_bind, (mem_a_get_ok cfg address size _ 1 s va pa s1 V Hh Hva Ht). cbn beta iota.
  rewrite bind_ret_run. cbv beta zeta. rewrite run_get_sys_bind. cbv beta.
  assert (Sz : 0 <= size) by (unfold valid_size in V; lia).
  pose proof (hub_read_range (mem s1) pa size Hh Sz) as R.
  unfold MemA_read, endian, big_endian, psr_E, cpsr_of, CPSR_get_e. rewrite flag_get, truthy_bit' by lia.
  destruct (bit (getl (sys s1) 0) 9 =? 1); [|reflexivity].
  unfold lift. rewrite big_endian_reverse_spec.
  - unfold exp_big_endian_reverse. unfold valid_size in V. rewrite V. cbn [ebind].
    rewrite BigEndianReverse_involutive by assumption. reflexivity.
  - pose proof (endian_range' true size _ Sz R) as R'. exact R'.
Qed.

(* ---------- the translation hypothesis is satisfiable: PMSA with the MPU disabled maps every address flat ---------- *)
Lemma default_memory_attributes_total va s : exists m, ArmV6_default_memory_attributes va s = Ok m s.
Proof.
  unfold ArmV6_default_memory_attributes. cbv zeta.
  destruct (substring va 39 38 =? 0).
  - eexists. reflexivity.
  - destruct (substring va 39 38 =? 1).
    + eexists. reflexivity.
    + eexists. reflexivity.
Qed.
Theorem translate_flat_mpu_off cfg va priv iswrite size wa s : pmsa cfg -> bit (getl (sys s) 11) 0 = 0 ->
  translated cfg s va priv iswrite size wa va s.
Proof.
  intros Hp Hm. unfold translated, ArmV6_translate_address, conf_memory_system_architecture. unfold pmsa in Hp. rewrite Hp.
  change (MemArch_PMSA =? MemArch_VMSA) with false. change (MemArch_PMSA =? MemArch_PMSA) with true. cbv iota.
  unfold ArmV6_translate_address_p. cbv zeta. rewrite bind_assoc_run, run_get_sys_bind. cbv beta.
  unfold SCTLR_get_m. rewrite flag_get, Hm by lia. change (negb (truthy 0)) with true. cbv iota.
  destruct (default_memory_attributes_total va s) as [m Em].
  rewrite !bind_assoc_run. rewrite run_bind, Em. cbn beta iota. rewrite !bind_ret_run. cbv beta.
  eexists. split; [reflexivity|]. reflexivity.
Qed.

(* ---------- closed forms on a flat map ---------- *)
Definition flat (cfg : config) (s : machine) : Prop := pmsa cfg /\ bit (getl (sys s) 11) 0 = 0 /\ word (getl (sys s) 23) /\ hub_ok (mem s).
Theorem mem_a_get_flat cfg address size priv wa s : flat cfg s -> valid_size size = true ->
  ArmV6_mem_a_with_priv_get cfg address size priv wa s = MemA_get_flat (cfg_arch_version cfg) s address size.
Proof.
  intros [Hp [Hm [Wd Hh]]] V. unfold MemA_get_flat. destruct (MemA_va (cfg_arch_version cfg) s address size) as [va|] eqn:E.
  - apply (mem_a_get_ok cfg address size priv wa s va va s V Hh E). apply translate_flat_mpu_off; assumption.
  - apply mem_a_get_alignment_fault; assumption.
Qed.
Theorem mem_a_set_flat cfg address size priv wa value s : flat cfg s -> valid_size size = true -> 0 <= value < 2 ^ (8 * size) ->
  ArmV6_mem_a_with_priv_set cfg address size priv wa value s = MemA_set_flat (cfg_arch_version cfg) s address size value.
Proof.
  intros [Hp [Hm [Wd Hh]]] V Hv. unfold MemA_set_flat. destruct (MemA_va (cfg_arch_version cfg) s address size) as [va|] eqn:E.
  - apply (mem_a_set_ok cfg address size priv wa value s va va s V Hv E). apply translate_flat_mpu_off; assumption.
  - apply mem_a_set_alignment_fault; assumption.
Qed.

Lemma Align_1 x : Align x 1 = x.
Proof. unfold Align. rewrite Z.div_1_r. lia. Qed.
Lemma rev1 v : 0 <= v < 256 -> BigEndianReverse v 1 = v.
Proof. intros. unfold BigEndianReverse. change (Z.to_nat 1) with 1%nat. cbn [BigEndianReverseN Z.of_nat Z.mul]. change (2 ^ 0) with 1. lia. Qed.
Lemma byte_read cfg a priv s : flat cfg s -> ArmV6_mem_a_with_priv_get cfg a 1 priv 0 s = Ok (hub_read (mem s) a 1) s.
Proof.
  intros F. rewrite mem_a_get_flat by (try exact F; reflexivity). unfold MemA_get_flat, MemA_va. rewrite Align_1, Z.eqb_refl.
  unfold MemA_read, endian. destruct F as [_ [_ [_ Hh]]]. pose proof (hub_read_range (mem s) a 1 Hh ltac:(lia)) as R.
  change (2 ^ (8 * 1)) with 256 in R. destruct (big_endian s); [rewrite rev1 by exact R|]; reflexivity.
Qed.
Lemma insert_byte v i b : 0 <= i <= 7 -> 0 <= v < 2 ^ (8 * i) -> 0 <= b < 256 ->
  set_substring v (8 * i + 7) (8 * i) b = v + b * 2 ^ (8 * i).
Proof.
  intros Hi Hv Hb. pose proof (Z.pow_pos_nonneg 2 (8 * i) ltac:(lia) ltac:(lia)) as P.
  assert (P8 : 2 ^ (8 * i + 7 + 1) = 256 * 2 ^ (8 * i)) by (replace (8 * i + 7 + 1) with (8 + 8 * i) by lia; rewrite Z.pow_add_r by lia; reflexivity).
  assert (PL : 2 ^ (8 * i) <= 2 ^ 256) by (apply Z.pow_le_mono_r; lia).
  rewrite set_substring_insert; try lia.
  - unfold exp_set_substring. rewrite insert_decomp by lia. rewrite P8.
    rewrite (Z.div_small v) by lia. rewrite Z.mod_small by lia. lia.
  - replace (8 * i + 7 - 8 * i + 1) with 8 by lia. exact Hb.
Qed.

Lemma le_combine_range l : Forall (fun b => 0 <= b < 256) l -> 0 <= le_combine l < 256 ^ Z.of_nat (length l).
Proof.
  induction 1 as [|b t Hb Ht IH]; cbn [le_combine length]; [cbn; lia|].
  rewrite Nat2Z.inj_succ, Z.pow_succ_r by lia. lia.
Qed.
Lemma byte_loop cfg a priv s : flat cfg s -> forall n k v, 0 <= k -> k + Z.of_nat n <= 8 -> 0 <= v < 2 ^ (8 * k) ->
  foldM (fun i v => bind (ArmV6_mem_a_with_priv_get cfg (add a i 32) 1 priv 0) (fun t => ret (set_substring v (8 * i + 7) (8 * i) t)))
        (zrange k n) v s
  = Ok (v + 2 ^ (8 * k) * le_combine (map (fun x => hub_read (mem s) x 1) (byte_addrs a k n))) s.
Proof.
  intros F. induction n as [|n IH]; intros k v Hk Hn Hv.
  - unfold byte_addrs. cbn [zrange foldM map le_combine]. unfold ret. f_equal. lia.
  - unfold byte_addrs in *. cbn [zrange foldM map le_combine]. rewrite run_bind, run_bind, byte_read by exact F. cbn beta iota. rewrite run_ret. cbn beta iota.
    destruct F as [Hp [Hm [Wd Hh]]]. unfold add.
    pose proof (hub_read_range (mem s) ((a + k) mod 2 ^ 32) 1 Hh ltac:(lia)) as R. change (2 ^ (8 * 1)) with 256 in R.
    rewrite insert_byte by (try assumption; lia).
    pose proof (Z.pow_pos_nonneg 2 (8 * k) ltac:(lia) ltac:(lia)) as P.
    rewrite IH; [| lia | lia | ].
    + f_equal. replace (8 * (k + 1)) with (8 + 8 * k) by lia. rewrite Z.pow_add_r by lia. change (2 ^ 8) with 256. ring.
    + replace (8 * (k + 1)) with (8 + 8 * k) by lia. rewrite Z.pow_add_r by lia. change (2 ^ 8) with 256. nia.
Qed.
Lemma py_range_valid size : valid_size size = true -> py_range 0 size 1 = zrange 0 (Z.to_nat size).
Proof.
  intros V. unfold valid_size in V. assert (C : size = 1 \/ size = 2 \/ size = 4 \/ size = 8) by lia.
  destruct C as [-> | [-> | [-> | ->]]]; reflexivity.
Qed.

Theorem mem_u_get_flat cfg address size priv s : flat cfg s -> valid_size size = true ->
  ArmV6_mem_u_with_priv_get cfg address size priv s
  = MemU_get_flat (cfg_arch_version cfg) (truthy (cfg_have_virt_ext cfg)) (IsSecure (sysctx_of cfg s) (cpsr_of s)) s address size.
Proof.
  intros F V. rewrite mem_u_get_dispatch. unfold MemU_get_flat. fold (kind_of cfg s address size).
  destruct (kind_of cfg s address size) as [a|a|a].
  - apply mem_a_get_flat; assumption.
  - destruct F as [Hp [Hm [Wd Hh]]]. rewrite run_bind, pmsa_alignment_fault by (try assumption; lia). reflexivity.
  - rewrite py_range_valid by exact V. rewrite run_bind.
    assert (Sz : 0 < size <= 8) by (unfold valid_size in V; lia).
    rewrite (byte_loop cfg a priv s F (Z.to_nat size) 0 0) by (try lia; cbn; lia). cbn beta iota.
    rewrite run_get_sys_bind. cbv beta. change (2 ^ (8 * 0)) with 1. rewrite Z.add_0_l, Z.mul_1_l.
    set (bytes := map (fun x => hub_read (mem s) x 1) (byte_addrs a 0 (Z.to_nat size))).
    assert (R : 0 <= le_combine bytes < 2 ^ (8 * size)).
    { destruct F as [_ [_ [_ Hh]]].
      assert (Fb : Forall (fun b => 0 <= b < 256) bytes).
      { unfold bytes. apply Forall_forall. intros b Hb. apply in_map_iff in Hb. destruct Hb as [x [<- _]].
        pose proof (hub_read_range (mem s) x 1 Hh ltac:(lia)) as R. exact R. }
      pose proof (le_combine_range bytes Fb) as R. assert (Lb : length bytes = length (zrange 0 (Z.to_nat size))) by (unfold bytes, byte_addrs; rewrite !map_length; reflexivity). rewrite Lb in R.
      assert (L : forall n k, length (zrange k n) = n) by (induction n; intros; cbn; [reflexivity|rewrite IHn; reflexivity]).
      rewrite L, Z2Nat.id in R by lia. rewrite pow256 by lia. exact R. }
    unfold endian, big_endian, psr_E, cpsr_of, CPSR_get_e. rewrite flag_get, truthy_bit' by lia.
    destruct (bit (getl (sys s) 0) 9 =? 1); [|reflexivity].
    unfold lift. rewrite big_endian_reverse_spec by exact R. unfold exp_big_endian_reverse. unfold valid_size in V. rewrite V. reflexivity.
Qed.

(* ---------- the byte-by-byte store ---------- *)
Lemma write_le_from_ok bs : forall k off size v, bytes_ok bs -> bytes_ok (write_le_from bs k off size v).
Proof.
  induction bs as [|b t IH]; intros k off size v H; cbn [write_le_from]; [constructor|].
  inversion H as [|? ? Hb Ht]; subst. constructor; [|apply IH; exact Ht].
  destruct ((off <=? k) && (k <? off + size)); [apply Z.mod_pos_bound; lia|exact Hb].
Qed.
Lemma Forall_upd {A} (P : A -> Prop) (l : list A) n x : Forall P l -> P x -> Forall P (upd l n x).
Proof.
  revert n. induction l as [|y t IH]; intros n Hl Hx; [constructor|]. inversion Hl; subst.
  destruct n; cbn [upd]; constructor; auto.
Qed.
Lemma hub_ok_write h pa size v : hub_ok h -> hub_ok (hub_write h pa size v).
Proof.
  intros H. unfold hub_write. destruct (find_dev h pa) as [i|] eqn:F; [|exact H].
  destruct (find_dev_lt _ _ _ F) as [Hi _]. unfold hub_ok in *. apply Forall_upd; [exact H|]. cbn [dev_bytes].
  apply write_le_from_ok. rewrite Forall_forall in H. apply H. apply nth_In. exact Hi.
Qed.
Lemma flat_set_mem cfg s h : flat cfg s -> hub_ok h -> flat cfg (set_mem s h).
Proof. intros [Hp [Hm [Wd _]]] Hh. split; [exact Hp|split; [exact Hm|split; [exact Wd|exact Hh]]]. Qed.
Lemma byte_write cfg a priv b s : flat cfg s -> 0 <= b < 256 ->
  ArmV6_mem_a_with_priv_set cfg a 1 priv 0 b s = Ok tt (set_mem s (hub_write (mem s) a 1 b)).
Proof.
  intros F Hb. rewrite mem_a_set_flat by (try exact F; try reflexivity; change (2 ^ (8 * 1)) with 256; exact Hb).
  unfold MemA_set_flat, MemA_va. rewrite Align_1, Z.eqb_refl. unfold MemA_write, endian.
  destruct (big_endian s); [rewrite rev1 by exact Hb|]; reflexivity.
Qed.
Definition store_step (v : Z) (hk : hub * Z) (x : Z) : hub * Z := (hub_write (fst hk) x 1 ((v / 256 ^ snd hk) mod 256), snd hk + 1).
Lemma substring_byte v i : 0 <= i -> substring v (8 * i + 7) (8 * i) = (v / 256 ^ i) mod 256.
Proof.
  intros Hi. rewrite substring_bits by lia. unfold bits. replace (8 * i + 7 - 8 * i + 1) with 8 by lia.
  rewrite pow256 by lia. reflexivity.
Qed.
Lemma byte_store_loop cfg a priv v : forall n k s, flat cfg s -> 0 <= k ->
  foldM (fun i (_ : unit) => bind (ArmV6_mem_a_with_priv_set cfg (add a i 32) 1 priv 0 (substring v (8 * i + 7) (8 * i))) (fun _ => ret tt))
        (zrange k n) tt s
  = Ok tt (set_mem s (fst (fold_left (store_step v) (byte_addrs a k n) (mem s, k)))).
Proof.
  induction n as [|n IH]; intros k s F Hk.
  - unfold byte_addrs. cbn [zrange map foldM fold_left fst]. rewrite set_mem_same. reflexivity.
  - unfold byte_addrs in *. cbn [zrange map foldM fold_left]. rewrite substring_byte by exact Hk.
    rewrite run_bind, run_bind, byte_write by (try exact F; apply Z.mod_pos_bound; lia). cbn beta iota. rewrite run_ret. cbn beta iota.
    rewrite IH; [|apply flat_set_mem; [exact F|apply hub_ok_write; apply F]|lia].
    cbn [mem set_mem]. unfold store_step at 2. cbn [fst snd]. unfold add.
    destruct s; reflexivity.
Qed.

Theorem mem_u_set_flat cfg address size priv value s : flat cfg s -> valid_size size = true -> 0 <= value < 2 ^ (8 * size) ->
  ArmV6_mem_u_with_priv_set cfg address size priv value s
  = MemU_set_flat (cfg_arch_version cfg) (truthy (cfg_have_virt_ext cfg)) (IsSecure (sysctx_of cfg s) (cpsr_of s)) s address size value.
Proof.
  intros F V Hv. rewrite mem_u_set_dispatch. unfold MemU_set_flat. fold (kind_of cfg s address size).
  destruct (kind_of cfg s address size) as [a|a|a].
  - apply mem_a_set_flat; assumption.
  - destruct F as [Hp [Hm [Wd Hh]]]. rewrite pmsa_alignment_fault by (try assumption; lia). reflexivity.
  - rewrite run_get_sys_bind. cbv beta.
    assert (E3 : (if truthy (CPSR_get_e (getl (sys s) 0)) then big_endian_reverse value size else Val value)
                 = Val (endian (big_endian s) size value)).
    { unfold endian, big_endian, psr_E, cpsr_of, CPSR_get_e. rewrite flag_get, truthy_bit' by lia.
      destruct (bit (getl (sys s) 0) 9 =? 1); [|reflexivity].
      rewrite big_endian_reverse_spec by exact Hv. unfold exp_big_endian_reverse. unfold valid_size in V. rewrite V. reflexivity. }
    rewrite E3. unfold lift at 1. rewrite bind_ret_run. cbv beta.
    rewrite py_range_valid by exact V. rewrite (byte_store_loop cfg a priv _ (Z.to_nat size) 0 s F) by lia.
    reflexivity.
Qed.
