(* Proofs/VmsaProofs.v — VMSA address translation (short-descriptor format) of the regenerated model against Spec/Vmsa.v:
   fault reporting (DFAR/DFSR), the table walk, domain and permission checks, FCSE, the MMU-off flat map. *)
From Coq Require Import ZArith List Bool Lia ZifyBool.
From ArmV Require Import Lib.PyZ Lib.Monad Lib.Machine Spec.Pseudocode Spec.Expected Spec.Arch Spec.MachineView Spec.Hub Spec.Memory Spec.Vmsa
  Proofs.BitLemmas Proofs.SpecFacts Proofs.BitsOps Proofs.BitsOps2 Proofs.FieldsProofs Proofs.StateLemmas
  Proofs.CondProofs Proofs.BankProofs Proofs.MachineOps Proofs.HubProofs Proofs.MemProofs Proofs.MpuProofs.
From Gen Require Import enums bits_ops shift regviews records hubm opsyn core.
Import ListNotations.
Open Scope Z_scope.
Ltac Zify.zify_post_hook ::= Z.to_euclidean_division_equations.

Definition vmsa (cfg : config) : Prop := cfg_memory_system_architecture cfg = MemArch_VMSA.
Definition no_lpae (cfg : config) : Prop := cfg_have_lpae cfg = 0.

(* ---------- a synchronous data abort in the short-descriptor format reports DFAR/DFSR and raises ---------- *)
Theorem vmsa_data_abort cfg mva ip dom lvl iswrite (vf : vfault) ssa ipav s2 s :
  vmsa cfg -> no_lpae cfg -> 0 <= iswrite <= 1 -> 0 <= dom < 16 -> 0 <= lvl <= 2 -> word (getl (sys s) 23) ->
  ArmV6_data_abort cfg mva ip dom lvl iswrite (vf_dtype vf) 0 ssa ipav 0 s2 s
  = Exc (EDataAbort (vf_dtype vf) ssa) (vmsa_fault_state s mva vf lvl dom iswrite).
Proof.
  intros Hv Hl Hw Hd Hlv Wd. unfold ArmV6_data_abort, conf_memory_system_architecture, conf_have_lpae. rewrite Hv, Hl.
  change (MemArch_VMSA =? MemArch_VMSA) with true. cbv iota. change (negb (truthy 0)) with true. cbv iota. cbv zeta.
  mnorm. rewrite run_get_sys_bind. cbv beta.
  assert (Hds : forall x : Z, getl (sys (set_sys s (setl (sys s) 24 x))) 23 = getl (sys s) 23).
  { intros x. cbn [sys set_sys]. apply getl_setl_other; lia. }
  unfold vmsa_fault_state, i_dfar, i_dfsr. rewrite Hds.
  match goal with |- context [lift ?X] =>
    assert (EX : X = Val (iswrite * 2 ^ 11 + bit (sd_fs vf lvl) 4 * 2 ^ 10
                          + (if sd_domain_valid vf lvl then dom else 0) * 2 ^ 4 + bits (sd_fs vf lvl) 3 0)) end.
  { assert (Hdom : dom = 0 \/ dom = 1 \/ dom = 2 \/ dom = 3 \/ dom = 4 \/ dom = 5 \/ dom = 6 \/ dom = 7 \/ dom = 8 \/ dom = 9
                   \/ dom = 10 \/ dom = 11 \/ dom = 12 \/ dom = 13 \/ dom = 14 \/ dom = 15) by lia.
    assert (Hl3 : lvl = 0 \/ lvl = 1 \/ lvl = 2) by lia. assert (Hw2 : iswrite = 0 \/ iswrite = 1) by lia.
    clear - Hdom Hl3 Hw2.
    destruct vf; destruct Hl3 as [->|[->| ->]]; destruct Hw2 as [->| ->];
      repeat (destruct Hdom as [->|Hdom]; [vm_compute; reflexivity|]); subst dom; vm_compute; reflexivity. }
  rewrite EX. clear EX.
  match goal with |- context [if ?c then bind (put_sys 24 0) _ else _] => replace c with false by (destruct vf; reflexivity) end.
  cbv iota. mnorm. rewrite run_put_sys_bind. cbv beta. mnorm. unfold lift at 1. mnorm.
  rewrite run_get_sys_bind. cbv beta. mnorm. rewrite run_put_sys_bind. cbv beta. mnorm. unfold raise. rewrite Hds.
  f_equal. f_equal. f_equal. unfold sd_dfsr.
  set (v := iswrite * 2 ^ 11 + bit (sd_fs vf lvl) 4 * 2 ^ 10 + (if sd_domain_valid vf lvl then dom else 0) * 2 ^ 4 + bits (sd_fs vf lvl) 3 0).
  assert (Hvr : 0 <= v < 2 ^ 14).
  { subst v. pose proof (bit01 (sd_fs vf lvl) 4). assert (0 <= bits (sd_fs vf lvl) 3 0 < 16) by (unfold bits; change (2 ^ (3 - 0 + 1)) with 16; lia).
    destruct (sd_domain_valid vf lvl); lia. }
  rewrite set_substring_insert; [reflexivity|lia|lia|apply word_256; exact Wd|exact Hvr].
Qed.

(* ---------- FCSE ---------- *)
Theorem fcse_translate_spec va s : ArmV6_fcse_translate va s = Ok (FCSE (sreg s i_fcseidr) va) s.
Proof.
  unfold ArmV6_fcse_translate, FCSE, sreg, i_fcseidr. rewrite !substring_bits by lia.
  destruct (bits va 31 25 =? 0); mnorm; [|reflexivity].
  rewrite run_get_sys_bind. cbv beta. mnorm. unfold FCSEIDR_get_pid. rewrite get_slice by lia. rewrite chain_spec by lia. reflexivity.
Qed.

(* ---------- domain check ---------- *)
Theorem check_domain_vmsa cfg dom mva lvl w s :
  vmsa cfg -> no_lpae cfg -> 0 <= w <= 1 -> 0 <= dom < 16 -> 0 <= lvl <= 2 -> word (getl (sys s) 23) ->
  ArmV6_check_domain cfg dom mva lvl w s =
  match dacr_field (sreg s i_dacr) dom with
  | 0 => Exc (EDataAbort DAbort_DOMAIN 0) (vmsa_fault_state s mva VF_domain lvl dom w)
  | 1 => Ok 1 s
  | _ => Ok 0 s
  end.
Proof.
  intros Hv Hl Hw Hd Hlv Wd. unfold ArmV6_check_domain. cbv zeta. rewrite run_get_sys_bind. cbv beta.
  unfold DACR_get_d_n, eassert. replace (dom <? 16) with true by lia. cbn [ebind]. unfold lift at 1. mnorm.
  rewrite get_slice by lia. unfold dacr_field, sreg, i_dacr.
  set (d := bits (getl (sys s) 41) (2 * dom + 1) (2 * dom)).
  assert (Hdr : 0 <= d < 4). { subst d. unfold bits. replace (2 * dom + 1 - 2 * dom + 1) with 2 by lia. change (2 ^ 2) with 4. lia. }
  assert (Hd4 : d = 0 \/ d = 1 \/ d = 2 \/ d = 3) by lia.
  destruct Hd4 as [->|[->|[->| ->]]]; cbn [Z.eqb Pos.eqb]; cbv iota; mnorm; try reflexivity.
  rewrite run_bind. change DAbort_DOMAIN with (vf_dtype VF_domain). rewrite (vmsa_data_abort cfg mva 0 dom lvl w VF_domain 0 0 0 s) by assumption. reflexivity.
Qed.

(* ---------- access permission check ---------- *)
Theorem check_permission_vmsa cfg perms mva lvl dom w priv s :
  vmsa cfg -> no_lpae cfg -> 0 <= w <= 1 -> 0 <= dom < 16 -> 0 <= lvl <= 2 -> word (getl (sys s) 23) ->
  0 <= Permissions_ap perms < 8 ->
  ArmV6_check_permission cfg perms mva lvl dom w priv 0 0 s =
  if vmsa_ap_denies (bit (sreg s i_sctlr) 29 =? 1) (Permissions_ap perms) (truthy priv) (truthy w)
  then Exc (EDataAbort DAbort_PERMISSION 0) (vmsa_fault_state s mva VF_permission lvl dom w) else Ok tt s.
Proof.
  intros Hv Hl Hw Hd Hlv Wd Hap. unfold ArmV6_check_permission. cbv zeta. rewrite run_get_sys_bind. cbv beta.
  unfold SCTLR_get_afe. rewrite flag_get, truthy_bit' by lia. unfold sreg, i_sctlr.
  unfold conf_memory_system_architecture. unfold vmsa in Hv. rewrite Hv. change (MemArch_VMSA =? MemArch_VMSA) with true. cbv iota.
  match goal with |- context [if truthy ?ab then bind _ _ else _] => set (abort := ab) end.
  assert (Eab : truthy abort = vmsa_ap_denies (bit (getl (sys s) 11) 29 =? 1) (Permissions_ap perms) (truthy priv) (truthy w)).
  { unfold abort. destruct perms as [ap px pp]. cbn [Permissions_ap] in *.
    assert (Hap8 : ap = 0 \/ ap = 1 \/ ap = 2 \/ ap = 3 \/ ap = 4 \/ ap = 5 \/ ap = 6 \/ ap = 7) by lia.
    assert (Hw2 : w = 0 \/ w = 1) by lia. clear - Hap8 Hw2.
    destruct (bit (getl (sys s) 11) 29 =? 1); unfold set_Permissions_ap; cbn [Permissions_ap];
      destruct Hw2 as [->| ->]; destruct (truthy priv);
      repeat (destruct Hap8 as [->|Hap8]; [vm_compute; reflexivity|]); subst ap; vm_compute; reflexivity. }
  rewrite Eab. destruct (vmsa_ap_denies _ _ _ _).
  - mnorm. rewrite run_bind. change DAbort_PERMISSION with (vf_dtype VF_permission). rewrite (vmsa_data_abort cfg mva 0 dom lvl w VF_permission 0 0 0 s) by assumption. reflexivity.
  - reflexivity.
Qed.

(* ---------- TEX remap ---------- *)
Lemma convert_attrs_hints_spec rgn : 0 <= rgn < 4 ->
  (substring (ArmV6_convert_attrs_hints rgn) 1 0, substring (ArmV6_convert_attrs_hints rgn) 3 2) = attrs_hints rgn.
Proof. intros H. assert (E : rgn = 0 \/ rgn = 1 \/ rgn = 2 \/ rgn = 3) by lia. destruct E as [->|[->|[->| ->]]]; reflexivity. Qed.

Theorem remapped_tex_decode_spec texcb sbit s : 0 <= sbit <= 1 ->
  ArmV6_remapped_tex_decode texcb sbit s = Ok (tex_remap (sreg s i_prrr) (sreg s i_nmrr) texcb sbit) s.
Proof.
  intros Hs. unfold ArmV6_remapped_tex_decode, tex_remap, sreg, i_prrr, i_nmrr. cbv zeta.
  rewrite substring_bits by lia. set (r := bits texcb 2 0).
  assert (Hr : 0 <= r < 8). { subst r. unfold bits. change (2 ^ (2 - 0 + 1)) with 8. lia. }
  destruct (r =? 6) eqn:E6; [reflexivity|].
  mnorm. rewrite run_get_sys_bind. cbv beta. unfold PRRR_get_tr_n. rewrite get_slice by lia.
  set (tr := bits (getl (sys s) 39) (2 * r + 1) (2 * r)).
  assert (Htr : 0 <= tr < 4). { subst tr. unfold bits. replace (2 * r + 1 - 2 * r + 1) with 2 by lia. change (2 ^ 2) with 4. lia. }
  assert (E : tr = 0 \/ tr = 1 \/ tr = 2 \/ tr = 3) by lia.
  Local Ltac stp0 tr E := rewrite run_get_sys_bind; cbv beta; rewrite get_slice by lia; fold tr; rewrite E; cbn [Z.eqb Pos.eqb]; cbv iota; mnorm.
  destruct E as [E|[E|[E|E]]]; rewrite E; cbn [Z.eqb Pos.eqb]; cbv iota; mnorm; try reflexivity.
  - stp0 tr E. reflexivity.
  - stp0 tr E.
    stp0 tr E.
    unfold NMRR_get_ir_n, NMRR_get_or_n, eassert. replace (r <? 8) with true by lia. cbn [ebind]. unfold lift.
    repeat (first [rewrite run_get_sys_bind | rewrite bind_assoc_run | rewrite bind_ret_run]; cbv beta iota).
    rewrite !get_slice by lia.
    set (ir := bits (getl (sys s) 40) (2 * r + 1) (2 * r)). set (orr := bits (getl (sys s) 40) (2 * r + 17) (2 * r + 16)).
    assert (Hir : 0 <= ir < 4). { subst ir. unfold bits. replace (2 * r + 1 - 2 * r + 1) with 2 by lia. change (2 ^ 2) with 4. lia. }
    assert (Hor : 0 <= orr < 4). { subst orr. unfold bits. replace (2 * r + 17 - (2 * r + 16) + 1) with 2 by lia. change (2 ^ 2) with 4. lia. }
    pose proof (convert_attrs_hints_spec ir Hir) as Ei. pose proof (convert_attrs_hints_spec orr Hor) as Eo.
    destruct (attrs_hints ir) as [ia ih]. destruct (attrs_hints orr) as [oa oh]. inversion Ei. inversion Eo. subst.
    unfold PRRR_get_ns0, PRRR_get_ns1, PRRR_get_nos_n. rewrite !flag_get by lia.
    unfold ret. f_equal. unfold set_MemoryAttributes_type, set_MemoryAttributes_innerattrs, set_MemoryAttributes_innerhints,
      set_MemoryAttributes_outerattrs, set_MemoryAttributes_outerhints, set_MemoryAttributes_shareable, set_MemoryAttributes_outershareable.
    cbn [MemoryAttributes_type MemoryAttributes_innerattrs MemoryAttributes_outerattrs MemoryAttributes_innerhints
         MemoryAttributes_outerhints MemoryAttributes_innertransient MemoryAttributes_outertransient MemoryAttributes_shareable
         MemoryAttributes_outershareable new_MemoryAttributes].
    assert (Es : (if negb (truthy sbit) then bit (getl (sys s) 39) 18 else bit (getl (sys s) 39) 19)
                 = (if sbit =? 0 then bit (getl (sys s) 39) 18 else bit (getl (sys s) 39) 19)).
    { unfold truthy. rewrite negb_involutive. reflexivity. }
    rewrite Es. set (sh := if sbit =? 0 then bit (getl (sys s) 39) 18 else bit (getl (sys s) 39) 19).
    assert (Hsh : 0 <= sh <= 1) by (subst sh; destruct (sbit =? 0); match goal with |- _ <= bit ?a ?b <= _ => pose proof (bit01 a b); lia end).
    pose proof (bit01 (getl (sys s) 39) (r + 24)) as Hnos.
    f_equal; try (symmetry; apply substring_bits; lia).
    + destruct (sh =? 1) eqn:E1; cbn [b2z]; lia.
    + unfold pand. rewrite truthy_bit'. unfold truthy.
      destruct (sh =? 0) eqn:E0, (sh =? 1) eqn:E1, (bit (getl (sys s) 39) (r + 24) =? 0) eqn:E2, (bit (getl (sys s) 39) (r + 24) =? 1) eqn:E3;
        cbn [negb andb b2z]; try lia; reflexivity.
  - stp0 tr E.
    stp0 tr E.
    rewrite run_get_sys_bind. cbv beta. rewrite get_slice by lia. fold tr. rewrite E. reflexivity.
Qed.
