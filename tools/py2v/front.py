"""py2v front end: load every module under armulator/armv6 and build symbol tables.

Fail-closed: anything this file does not understand raises Unsupported, which the
driver records against the function (or module) and reports as a broken obligation.
"""
import ast
import os


class Unsupported(Exception):
    def __init__(self, msg, node=None, where=None):
        self.msg = msg
        self.lineno = getattr(node, 'lineno', None)
        self.where = where
        super().__init__(msg)

    def __str__(self):
        return f"{self.where or ''}:{self.lineno or '?'}: {self.msg}"


PKG = 'armulator.armv6'


class FuncInfo:
    def __init__(self, mod, cls, node):
        self.mod = mod            # ModInfo
        self.cls = cls            # ClassInfo or None
        self.node = node
        self.name = node.name
        self.decorators = [ast.unparse(d) for d in node.decorator_list]
        self.is_static = 'staticmethod' in self.decorators
        self.is_property = 'property' in self.decorators
        self.is_setter = any(d.endswith('.setter') for d in self.decorators)

    @property
    def qual(self):
        return (self.mod.name, self.cls.name if self.cls else None, self.name, 'set' if self.is_setter else 'get')

    def src(self):
        return ast.get_source_segment(self.mod.source, self.node) or ''


class ClassInfo:
    def __init__(self, mod, node):
        self.mod = mod
        self.node = node
        self.name = node.name
        self.base_names = [ast.unparse(b) for b in node.bases]
        self.methods = {}      # name -> FuncInfo (plain methods and property getters)
        self.setters = {}      # name -> FuncInfo
        self.enum_members = None   # list of (name, value) if Enum
        for st in node.body:
            if isinstance(st, ast.FunctionDef):
                fi = FuncInfo(mod, self, st)
                if fi.is_setter:
                    self.setters[st.name] = fi
                else:
                    self.methods[st.name] = fi
        if any(b in ('Enum', 'IntEnum') for b in self.base_names):
            members = []
            auto = 0
            for st in node.body:
                if isinstance(st, ast.Assign) and len(st.targets) == 1 and isinstance(st.targets[0], ast.Name):
                    v = st.value
                    if isinstance(v, ast.Call) and ast.unparse(v.func) == 'auto':
                        auto += 1
                        members.append((st.targets[0].id, auto))
                    elif isinstance(v, ast.Constant) and isinstance(v.value, int):
                        auto = v.value
                        members.append((st.targets[0].id, v.value))
                    else:
                        raise Unsupported('enum member value', st, mod.path)
            self.enum_members = members

    def bases(self, prog):
        out = []
        for b in self.base_names:
            r = self.mod.resolve(b, prog)
            if r and r[0] == 'class':
                out.append(r[1])
        return out

    def mro(self, prog):
        seen = [self]
        for b in self.bases(prog):
            for c in b.mro(prog):
                if c not in seen:
                    seen.append(c)
        return seen

    def find_method(self, prog, name, setter=False):
        for c in self.mro(prog):
            d = c.setters if setter else c.methods
            if name in d:
                return d[name]
        return None

    def is_subclass_of(self, prog, name):
        return any(c.name == name for c in self.mro(prog))


class ModInfo:
    def __init__(self, name, path, source):
        self.name = name
        self.path = path
        self.source = source
        self.tree = ast.parse(source)
        self.imports = {}     # local name -> ('mod', modname) | ('sym', modname, symbol) | ('ext', dotted)
        self.star_imports = []
        self.funcs = {}
        self.classes = {}
        self.consts = {}      # module-level NAME = <expr>
        self.all = None
        for st in self.tree.body:
            if isinstance(st, ast.ImportFrom):
                m = st.module or ''
                for a in st.names:
                    ln = a.asname or a.name
                    if m.startswith(PKG):
                        sub = m[len(PKG):].lstrip('.')
                        if a.name == '*':
                            self.star_imports.append(sub)
                        else:
                            self.imports[ln] = ('from', sub, a.name)
                    else:
                        self.imports[ln] = ('ext', m + '.' + a.name)
            elif isinstance(st, ast.Import):
                for a in st.names:
                    self.imports[a.asname or a.name] = ('ext', a.name)
            elif isinstance(st, ast.FunctionDef):
                self.funcs[st.name] = FuncInfo(self, None, st)
            elif isinstance(st, ast.ClassDef):
                self.classes[st.name] = ClassInfo(self, st)
            elif isinstance(st, ast.Assign) and len(st.targets) == 1 and isinstance(st.targets[0], ast.Name):
                if st.targets[0].id == '__all__':
                    self.all = [e.value for e in st.value.elts]
                else:
                    self.consts[st.targets[0].id] = st.value

    def resolve(self, name, prog, _depth=0):
        """Resolve a bare name used in this module to ('func', FuncInfo) | ('class', ClassInfo)
        | ('mod', ModInfo) | ('const', ModInfo, expr) | ('ext', dotted) | None."""
        if name in self.funcs:
            return ('func', self.funcs[name])
        if name in self.classes:
            return ('class', self.classes[name])
        if name in self.consts:
            return ('const', self, self.consts[name])
        if name in self.imports:
            imp = self.imports[name]
            if imp[0] == 'ext':
                return ('ext', imp[1])
            _, sub, sym = imp
            # `from armulator.armv6 import bits_ops`  (sub == '' and sym is a module)
            cand = (sub + '.' + sym).lstrip('.')
            if cand in prog.modules:
                return ('mod', prog.modules[cand])
            if sub in prog.modules and _depth < 8:
                return prog.modules[sub].resolve(sym, prog, _depth + 1)
            return None
        for sub in self.star_imports:
            if sub in prog.modules and _depth < 8:
                m = prog.modules[sub]
                if m.all is None or name in m.all:
                    r = m.resolve(name, prog, _depth + 1)
                    if r:
                        return r
        return None


class Prog:
    def __init__(self, root):
        self.root = root
        self.modules = {}
        base = os.path.join(root, 'armulator', 'armv6')
        for dp, dn, fn in os.walk(base):
            dn.sort()
            for f in sorted(fn):
                if not f.endswith('.py'):
                    continue
                p = os.path.join(dp, f)
                rel = os.path.relpath(p, base)[:-3].replace(os.sep, '.')
                if rel.endswith('__init__'):
                    rel = rel[:-len('__init__')].rstrip('.')
                    if not rel:
                        continue
                with open(p) as fh:
                    src = fh.read()
                self.modules[rel] = ModInfo(rel, p, src)
        self.classes_by_name = {}
        for m in self.modules.values():
            for c in m.classes.values():
                self.classes_by_name.setdefault(c.name, []).append(c)

    def cls(self, name):
        l = self.classes_by_name.get(name, [])
        if len(l) != 1:
            raise Unsupported(f'class {name} not unique/found ({len(l)})')
        return l[0]
