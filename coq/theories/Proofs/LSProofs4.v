(* Proofs/LSProofs4.v — the literal (PC-relative) loads LDR, LDRB, LDRH, LDRSB, LDRSH (literal) proved equal to Spec/LoadStoreUnpriv.v. *)
From Coq Require Import ZArith List Bool Lia ZifyBool.
From ArmV Require Import Lib.PyZ Lib.Monad Lib.Machine Spec.Pseudocode Spec.Expected Spec.Arch Spec.DPSem
  Proofs.BitLemmas Proofs.SpecFacts Proofs.BitsOps Proofs.BitsOps2 Proofs.ShiftOps Proofs.FieldsProofs Proofs.StateLemmas
  Proofs.CondProofs Proofs.GuardProofs Proofs.BankProofs Proofs.MachineOps Proofs.DPLemmas Proofs.DPTactics Proofs.BranchProofs
  Spec.MachineView Spec.LoadStore Spec.LoadStoreUnpriv Proofs.ExcProofs Proofs.LSProofs Proofs.LSProofs2.
From Gen Require Import enums bits_ops shift regviews records hubm opsyn core exec.
Import ListNotations.
Open Scope Z_scope.
(* a sentence that runs this long no longer matches the code it was written for: fail instead of searching *)
Set Default Timeout 240.
Ltac Zify.zify_post_hook ::= Z.to_euclidean_division_equations.

Lemma lit_addr_code add imm32 s :
  (if truthy add then bits_ops.add (align (rget s 15) 4) imm32 32 else sub (align (rget s 15) 4) imm32 32) = lit_address s add imm32.
Proof.
  unfold lit_address, ls_address, ls_offset_addr, add32, sub32, truthy. cbn [Z.eqb]. cbv iota. rewrite align_spec, add_spec, sub_spec.
  destruct (add =? 0); reflexivity.
Qed.

Ltac lit_start cfg H Hc Hi :=
  rewrite guard_pass by exact Hc; rewrite bind_ret_tt; cbv zeta; rewrite try_null_check by exact Hi;
  rewrite (b_get_pc cfg) by exact H; cbv zeta; rewrite lit_addr_code.

Theorem LdrbLiteral_sem cfg instr add imm32 t s :
  ictx cfg s -> cond_holds s -> iset_of s <> 3 -> 0 <= t <= 14 -> rd_ok cfg (ArmV6_mem_u_get cfg) s 1 ->
  LdrbLiteral_execute cfg instr add imm32 t s = LOAD_lit (ArmV6_mem_u_get cfg) LByte s add imm32 t.
Proof.
  intros H Hc Hi Ht Hrd. unfold LdrbLiteral_execute. lit_start cfg H Hc Hi. unfold LOAD_lit. cbn [lsize].
  set (a := lit_address s add imm32). rewrite run_bind. destruct (ArmV6_mem_u_get cfg a 1 s) as [data s1|e s1] eqn:Erd; [|reflexivity].
  destruct (Hrd _ _ _ Erd) as [H1 Rd]. cbn beta iota. rewrite !bind_ret_tt, reg_set; [reflexivity|lia|apply H1|apply H1].
Qed.
Theorem LdrsbLiteral_sem cfg instr add imm32 t s :
  ictx cfg s -> cond_holds s -> iset_of s <> 3 -> 0 <= t <= 14 -> rd_ok cfg (ArmV6_mem_u_get cfg) s 1 ->
  LdrsbLiteral_execute cfg instr add imm32 t s = LOAD_lit (ArmV6_mem_u_get cfg) LSByte s add imm32 t.
Proof.
  intros H Hc Hi Ht Hrd. unfold LdrsbLiteral_execute. lit_start cfg H Hc Hi. unfold LOAD_lit. cbn [lsize].
  set (a := lit_address s add imm32). rewrite run_bind. destruct (ArmV6_mem_u_get cfg a 1 s) as [data s1|e s1] eqn:Erd; [|reflexivity].
  destruct (Hrd _ _ _ Erd) as [H1 Rd]. cbn beta iota. change (2 ^ (8 * 1)) with (2 ^ 8) in Rd. rewrite sign_extend_spec by lia.
  rewrite !bind_ret_tt, reg_set; [reflexivity|lia|apply H1|apply H1].
Qed.
Theorem LdrhLiteral_sem cfg instr add imm32 t s :
  ictx cfg s -> cond_holds s -> iset_of s <> 3 -> 0 <= t <= 14 -> rd_ok cfg (ArmV6_mem_u_get cfg) s 2 ->
  LdrhLiteral_execute cfg instr add imm32 t s = LOAD_lit (ArmV6_mem_u_get cfg) LHalf s add imm32 t.
Proof.
  intros H Hc Hi Ht Hrd. unfold LdrhLiteral_execute. lit_start cfg H Hc Hi. unfold LOAD_lit. cbn [lsize].
  set (a := lit_address s add imm32). rewrite run_bind. destruct (ArmV6_mem_u_get cfg a 2 s) as [data s1|e s1] eqn:Erd; [|reflexivity].
  destruct (Hrd _ _ _ Erd) as [H1 Rd]. cbn beta iota. rewrite b_unaligned. cbv beta. rewrite unaligned_bit, half_chk1. unfold load_value.
  destruct (unaligned_support s1 || (bit a 0 =? 0)); rewrite !bind_ret_tt, reg_set; try reflexivity; try lia; apply H1.
Qed.
Theorem LdrshLiteral_sem cfg instr add imm32 t s :
  ictx cfg s -> cond_holds s -> iset_of s <> 3 -> 0 <= t <= 14 -> rd_ok cfg (ArmV6_mem_u_get cfg) s 2 ->
  LdrshLiteral_execute cfg instr add imm32 t s = LOAD_lit (ArmV6_mem_u_get cfg) LSHalf s add imm32 t.
Proof.
  intros H Hc Hi Ht Hrd. unfold LdrshLiteral_execute. lit_start cfg H Hc Hi. unfold LOAD_lit. cbn [lsize].
  set (a := lit_address s add imm32). rewrite run_bind. destruct (ArmV6_mem_u_get cfg a 2 s) as [data s1|e s1] eqn:Erd; [|reflexivity].
  destruct (Hrd _ _ _ Erd) as [H1 Rd]. cbn beta iota. rewrite b_unaligned. cbv beta. rewrite unaligned_bit, half_chk1. unfold load_value.
  change (2 ^ (8 * 2)) with (2 ^ 16) in Rd. rewrite sign_extend_spec by lia.
  destruct (unaligned_support s1 || (bit a 0 =? 0)); rewrite !bind_ret_tt, reg_set; try reflexivity; try lia; apply H1.
Qed.
Theorem LdrLiteral_sem cfg instr add imm32 t s :
  ictx cfg s -> cond_holds s -> iset_of s <> 3 -> 0 <= t <= 15 -> rd_ok cfg (ArmV6_mem_u_get cfg) s 4 ->
  LdrLiteral_execute cfg instr add imm32 t s =
  LOAD_lit_word (ArmV6_mem_u_get cfg) (cfg_arch_version cfg) (cfg_jazelle_accepts_execution cfg) s add imm32 t.
Proof.
  intros H Hc Hi Ht Hrd. unfold LdrLiteral_execute. lit_start cfg H Hc Hi. unfold LOAD_lit_word.
  set (a := lit_address s add imm32). rewrite run_bind. destruct (ArmV6_mem_u_get cfg a 4 s) as [data s1|e s1] eqn:Erd; [|reflexivity].
  destruct (Hrd _ _ _ Erd) as [H1 Rd]. cbn beta iota. rewrite !lower_chunk_2. destruct (t =? 15) eqn:Et.
  - destruct (bits a 1 0 =? 0); [|reflexivity].
    rewrite !bind_ret_tt, load_write_pc_spec; [reflexivity|apply H1|apply H1|apply H1|exact Rd].
  - rewrite bind_ret_tt, b_unaligned. cbv beta. rewrite unaligned_bit.
    destruct (unaligned_support s1 || (bits a 1 0 =? 0)) eqn:Eu.
    + assert (Ev : load_value (if iset_of s1 =? 0 then LWordArm else LWordThumb) s1 a data = data).
      { destruct (iset_of s1 =? 0); unfold load_value; rewrite Eu; reflexivity. }
      rewrite Ev. rewrite !bind_ret_tt, reg_set; [reflexivity|lia|apply H1|apply H1].
    + rewrite bind_assoc_run, b_cur_iset. unfold enums.InstrSet_ARM. destruct (iset_of s1 =? 0); unfold load_value; rewrite Eu.
      * pose proof (bits_range a 1 0 ltac:(lia)) as Rb. change (2 ^ (1 - 0 + 1)) with 4 in Rb.
        assert (Nz : 8 * bits a 1 0 <> 0) by (destruct (bits a 1 0 =? 0) eqn:E0; [rewrite orb_true_r in Eu; discriminate|lia]).
        rewrite ror32_code by (first [exact Rd | exact Nz]).
        unfold lift. rewrite !bind_assoc_run, bind_ret_run. cbv beta. rewrite !bind_ret_tt, reg_set; [reflexivity|lia|apply H1|apply H1].
      * rewrite !bind_ret_tt, reg_set; [reflexivity|lia|apply H1|apply H1].
Qed.
