(* Props/C07ops3.v — C07: operand extraction of the Thumb encodings (shard 3 of 8).
   For every word of the stated domain, from_bitarray returns the class with the fields the encoding diagram
   names, and leaves the state alone.  Statements rendered from harness/optable.py by harness/mkopthm.py. *)
From Coq Require Import ZArith List Bool Lia ZifyBool.
From ArmV Require Import Lib.PyZ Lib.Monad Lib.Machine Spec.Pseudocode Spec.Arch Spec.MachineView Spec.OperandSpec.
From Gen Require Import enums bits_ops shift regviews records hubm opsyn core exec conc.
Import ListNotations.
Open Scope Z_scope.
From ArmV Require Proofs.OpsT3.

Theorem C07_ops_AddImmediateThumbT1 w s :
  0 <= w < 2 ^ 16 ->
  fb_out (AddImmediateThumbT1_from_bitarray w) s = Ok (Some (code_AddImmediateThumb, [w; not_in_it s; bits w 2 0; bits w 5 3; bits w 8 6])) s.
Proof. exact (OpsT3.ops_AddImmediateThumbT1 w s). Qed.
Print Assumptions C07_ops_AddImmediateThumbT1.

Theorem C07_ops_AddSpPlusImmediateT2 w s :
  0 <= w < 2 ^ 16 ->
  fb_out (AddSpPlusImmediateT2_from_bitarray w) s = Ok (Some (code_AddSpPlusImmediate, [w; 0; 13; bits w 6 0 * 4])) s.
Proof. exact (OpsT3.ops_AddSpPlusImmediateT2 w s). Qed.
Print Assumptions C07_ops_AddSpPlusImmediateT2.

Theorem C07_ops_AdrT3 w s :
  0 <= w < 2 ^ 32 ->
  regs13 [bits w 11 8] = true ->
  fb_out (AdrT3_from_bitarray w) s = Ok (Some (code_Adr, [w; 1; bits w 11 8; imm12t w])) s.
Proof. exact (OpsT3.ops_AdrT3 w s). Qed.
Print Assumptions C07_ops_AdrT3.

Theorem C07_ops_BfcT1 w s :
  0 <= w < 2 ^ 32 ->
  regs13 [bits w 11 8] = true ->
  pre_msb_ge_lsb_t w = true ->
  fb_out (BfcT1_from_bitarray w) s = Ok (Some (code_Bfc, [w; imm5t w; bits w 4 0; bits w 11 8])) s.
Proof. exact (OpsT3.ops_BfcT1 w s). Qed.
Print Assumptions C07_ops_BfcT1.

Theorem C07_ops_CdpCdp2T2 w s :
  0 <= w < 2 ^ 32 ->
  pre_cp_ok w = true ->
  fb_out (CdpCdp2T2_from_bitarray w) s = Ok (Some (code_CdpCdp2, [w; bits w 11 8])) s.
Proof. exact (OpsT3.ops_CdpCdp2T2 w s). Qed.
Print Assumptions C07_ops_CdpCdp2T2.

Theorem C07_ops_CmpRegisterT1 w s :
  0 <= w < 2 ^ 16 ->
  fb_out (CmpRegisterT1_from_bitarray w) s = Ok (Some (code_CmpRegister, [w; bits w 5 3; bits w 2 0; 1; 0])) s.
Proof. exact (OpsT3.ops_CmpRegisterT1 w s). Qed.
Print Assumptions C07_ops_CmpRegisterT1.

Theorem C07_ops_EorRegisterT1 w s :
  0 <= w < 2 ^ 16 ->
  fb_out (EorRegisterT1_from_bitarray w) s = Ok (Some (code_EorRegister, [w; not_in_it s; bits w 5 3; bits w 2 0; bits w 2 0; 1; 0])) s.
Proof. exact (OpsT3.ops_EorRegisterT1 w s). Qed.
Print Assumptions C07_ops_EorRegisterT1.

Theorem C07_ops_LdcLdc2LiteralT2 w s :
  0 <= w < 2 ^ 32 ->
  pre_ldc_lit w = true ->
  fb_out (LdcLdc2LiteralT2_from_bitarray w) s = Ok (Some (code_LdcLdc2Literal, [w; bits w 11 8; bit w 23; bits w 7 0 * 4; bit w 24])) s.
Proof. exact (OpsT3.ops_LdcLdc2LiteralT2 w s). Qed.
Print Assumptions C07_ops_LdcLdc2LiteralT2.

Theorem C07_ops_LdrLiteralT1 w s :
  0 <= w < 2 ^ 16 ->
  fb_out (LdrLiteralT1_from_bitarray w) s = Ok (Some (code_LdrLiteral, [w; 1; bits w 7 0 * 4; bits w 10 8])) s.
Proof. exact (OpsT3.ops_LdrLiteralT1 w s). Qed.
Print Assumptions C07_ops_LdrLiteralT1.

Theorem C07_ops_LdrbRegisterT1 w s :
  0 <= w < 2 ^ 16 ->
  fb_out (LdrbRegisterT1_from_bitarray w) s = Ok (Some (code_LdrbRegister, [w; 1; 0; 1; bits w 8 6; bits w 2 0; bits w 5 3; 1; 0])) s.
Proof. exact (OpsT3.ops_LdrbRegisterT1 w s). Qed.
Print Assumptions C07_ops_LdrbRegisterT1.

Theorem C07_ops_LdrexhT1 w s :
  0 <= w < 2 ^ 32 ->
  regs13 [bits w 19 16; bits w 15 12] = true ->
  bit w 0 = 1 ->
  bit w 1 = 1 ->
  bit w 2 = 1 ->
  bit w 3 = 1 ->
  bit w 8 = 1 ->
  bit w 9 = 1 ->
  bit w 10 = 1 ->
  bit w 11 = 1 ->
  fb_out (LdrexhT1_from_bitarray w) s = Ok (Some (code_Ldrexh, [w; bits w 15 12; bits w 19 16])) s.
Proof. exact (OpsT3.ops_LdrexhT1 w s). Qed.
Print Assumptions C07_ops_LdrexhT1.

Theorem C07_ops_LdrsbImmediateT1 w s :
  0 <= w < 2 ^ 32 ->
  regs13 [bits w 19 16; bits w 15 12] = true ->
  fb_out (LdrsbImmediateT1_from_bitarray w) s = Ok (Some (code_LdrsbImmediate, [w; 1; 0; 1; bits w 11 0; bits w 15 12; bits w 19 16])) s.
Proof. exact (OpsT3.ops_LdrsbImmediateT1 w s). Qed.
Print Assumptions C07_ops_LdrsbImmediateT1.

Theorem C07_ops_LdrshLiteralT1 w s :
  0 <= w < 2 ^ 32 ->
  regs13 [bits w 15 12] = true ->
  fb_out (LdrshLiteralT1_from_bitarray w) s = Ok (Some (code_LdrshLiteral, [w; bit w 23; bits w 11 0; bits w 15 12])) s.
Proof. exact (OpsT3.ops_LdrshLiteralT1 w s). Qed.
Print Assumptions C07_ops_LdrshLiteralT1.

Theorem C07_ops_LslRegisterT2 w s :
  0 <= w < 2 ^ 32 ->
  regs13 [bits w 19 16; bits w 11 8; bits w 3 0] = true ->
  fb_out (LslRegisterT2_from_bitarray w) s = Ok (Some (code_LslRegister, [w; bit w 20; bits w 3 0; bits w 11 8; bits w 19 16])) s.
Proof. exact (OpsT3.ops_LslRegisterT2 w s). Qed.
Print Assumptions C07_ops_LslRegisterT2.

Theorem C07_ops_McrrMcrr2T2 w s :
  0 <= w < 2 ^ 32 ->
  regs13 [bits w 19 16; bits w 15 12] = true ->
  pre_cp_ok w = true ->
  fb_out (McrrMcrr2T2_from_bitarray w) s = Ok (Some (code_McrrMcrr2, [w; bits w 11 8; bits w 15 12; bits w 19 16])) s.
Proof. exact (OpsT3.ops_McrrMcrr2T2 w s). Qed.
Print Assumptions C07_ops_McrrMcrr2T2.

Theorem C07_ops_MovRegisterThumbT3 w s :
  0 <= w < 2 ^ 32 ->
  regs13 [bits w 11 8; bits w 3 0] = true ->
  fb_out (MovRegisterThumbT3_from_bitarray w) s = Ok (Some (code_MovRegisterThumb, [w; bit w 20; bits w 3 0; bits w 11 8])) s.
Proof. exact (OpsT3.ops_MovRegisterThumbT3 w s). Qed.
Print Assumptions C07_ops_MovRegisterThumbT3.

Theorem C07_ops_MsrRegisterApplicationT1 w s :
  0 <= w < 2 ^ 32 ->
  regs13 [bits w 19 16] = true ->
  pre_msr_app_t w = true ->
  fb_out (MsrRegisterApplicationT1_from_bitarray w) s = Ok (Some (code_MsrRegisterApplication, [w; bit w 11; bit w 10; bits w 19 16])) s.
Proof. exact (OpsT3.ops_MsrRegisterApplicationT1 w s). Qed.
Print Assumptions C07_ops_MsrRegisterApplicationT1.

Theorem C07_ops_NopT2 w s :
  0 <= w < 2 ^ 32 ->
  in_it s = false ->
  fb_out (NopT2_from_bitarray w) s = Ok (Some (code_Nop, [w])) s.
Proof. exact (OpsT3.ops_NopT2 w s). Qed.
Print Assumptions C07_ops_NopT2.

Theorem C07_ops_PldImmediateT2 w s :
  0 <= w < 2 ^ 32 ->
  regs13 [bits w 19 16] = true ->
  fb_out (PldImmediateT2_from_bitarray w) s = Ok (Some (code_PldImmediate, [w; 0; bit w 21; bits w 19 16; bits w 7 0])) s.
Proof. exact (OpsT3.ops_PldImmediateT2 w s). Qed.
Print Assumptions C07_ops_PldImmediateT2.

Theorem C07_ops_Qadd16T1 w s :
  0 <= w < 2 ^ 32 ->
  regs13 [bits w 19 16; bits w 11 8; bits w 3 0] = true ->
  fb_out (Qadd16T1_from_bitarray w) s = Ok (Some (code_Qadd16, [w; bits w 3 0; bits w 11 8; bits w 19 16])) s.
Proof. exact (OpsT3.ops_Qadd16T1 w s). Qed.
Print Assumptions C07_ops_Qadd16T1.

Theorem C07_ops_Qsub8T1 w s :
  0 <= w < 2 ^ 32 ->
  regs13 [bits w 19 16; bits w 11 8; bits w 3 0] = true ->
  fb_out (Qsub8T1_from_bitarray w) s = Ok (Some (code_Qsub8, [w; bits w 3 0; bits w 11 8; bits w 19 16])) s.
Proof. exact (OpsT3.ops_Qsub8T1 w s). Qed.
Print Assumptions C07_ops_Qsub8T1.

Theorem C07_ops_RevshT2 w s :
  0 <= w < 2 ^ 32 ->
  regs13 [bits w 11 8; bits w 3 0] = true ->
  pre_rm_twice w = true ->
  fb_out (RevshT2_from_bitarray w) s = Ok (Some (code_Revsh, [w; bits w 3 0; bits w 11 8])) s.
Proof. exact (OpsT3.ops_RevshT2 w s). Qed.
Print Assumptions C07_ops_RevshT2.

Theorem C07_ops_RsbImmediateT2 w s :
  0 <= w < 2 ^ 32 ->
  regs13 [bits w 19 16; bits w 11 8] = true ->
  fb_out (RsbImmediateT2_from_bitarray w) s = Ok (Some (code_RsbImmediate, [w; bit w 20; bits w 11 8; bits w 19 16; ThumbExpandImm (imm12t w)])) s.
Proof. exact (OpsT3.ops_RsbImmediateT2 w s). Qed.
Print Assumptions C07_ops_RsbImmediateT2.

Theorem C07_ops_SbfxT1 w s :
  0 <= w < 2 ^ 32 ->
  regs13 [bits w 19 16; bits w 11 8] = true ->
  pre_width_fits_t w = true ->
  fb_out (SbfxT1_from_bitarray w) s = Ok (Some (code_Sbfx, [w; imm5t w; bits w 4 0; bits w 11 8; bits w 19 16])) s.
Proof. exact (OpsT3.ops_SbfxT1 w s). Qed.
Print Assumptions C07_ops_SbfxT1.

Theorem C07_ops_ShasxT1 w s :
  0 <= w < 2 ^ 32 ->
  regs13 [bits w 19 16; bits w 11 8; bits w 3 0] = true ->
  fb_out (ShasxT1_from_bitarray w) s = Ok (Some (code_Shasx, [w; bits w 3 0; bits w 11 8; bits w 19 16])) s.
Proof. exact (OpsT3.ops_ShasxT1 w s). Qed.
Print Assumptions C07_ops_ShasxT1.

Theorem C07_ops_SmlaldT1 w s :
  0 <= w < 2 ^ 32 ->
  regs13 [bits w 19 16; bits w 15 12; bits w 11 8; bits w 3 0] = true ->
  fb_out (SmlaldT1_from_bitarray w) s = Ok (Some (code_Smlald, [w; bit w 4; bits w 3 0; bits w 11 8; bits w 15 12; bits w 19 16])) s.
Proof. exact (OpsT3.ops_SmlaldT1 w s). Qed.
Print Assumptions C07_ops_SmlaldT1.

Theorem C07_ops_SmuadT1 w s :
  0 <= w < 2 ^ 32 ->
  regs13 [bits w 19 16; bits w 11 8; bits w 3 0] = true ->
  fb_out (SmuadT1_from_bitarray w) s = Ok (Some (code_Smuad, [w; bit w 4; bits w 3 0; bits w 11 8; bits w 19 16])) s.
Proof. exact (OpsT3.ops_SmuadT1 w s). Qed.
Print Assumptions C07_ops_SmuadT1.

Theorem C07_ops_SsatT1 w s :
  0 <= w < 2 ^ 32 ->
  regs13 [bits w 19 16; bits w 11 8] = true ->
  pre_sat_t w = true ->
  fb_out (SsatT1_from_bitarray w) s = Ok (Some (code_Ssat, [w; bits w 4 0 + 1; bits w 11 8; bits w 19 16; fst (DecodeImmShift (bit w 21 * 2) (imm5t w)); snd (DecodeImmShift (bit w 21 * 2) (imm5t w))])) s.
Proof. exact (OpsT3.ops_SsatT1 w s). Qed.
Print Assumptions C07_ops_SsatT1.

Theorem C07_ops_StmdbT1 w s :
  0 <= w < 2 ^ 32 ->
  regs13 [bits w 19 16] = true ->
  pre_reglist_st w = true ->
  fb_out (StmdbT1_from_bitarray w) s = Ok (Some (code_Stmdb, [w; bit w 21; bit w 14 * 2 ^ 14 + bits w 12 0; bits w 19 16])) s.
Proof. exact (OpsT3.ops_StmdbT1 w s). Qed.
Print Assumptions C07_ops_StmdbT1.

Theorem C07_ops_StrbImmediateThumbT2 w s :
  0 <= w < 2 ^ 32 ->
  regs13 [bits w 19 16; bits w 15 12] = true ->
  fb_out (StrbImmediateThumbT2_from_bitarray w) s = Ok (Some (code_StrbImmediateThumb, [w; 1; 0; 1; bits w 15 12; bits w 19 16; bits w 11 0])) s.
Proof. exact (OpsT3.ops_StrbImmediateThumbT2 w s). Qed.
Print Assumptions C07_ops_StrbImmediateThumbT2.

Theorem C07_ops_StrexdT1 w s :
  0 <= w < 2 ^ 32 ->
  regs13 [bits w 19 16; bits w 15 12; bits w 11 8; bits w 3 0] = true ->
  fb_out (StrexdT1_from_bitarray w) s = Ok (Some (code_Strexd, [w; bits w 15 12; bits w 11 8; bits w 3 0; bits w 19 16])) s.
Proof. exact (OpsT3.ops_StrexdT1 w s). Qed.
Print Assumptions C07_ops_StrexdT1.

Theorem C07_ops_StrtT1 w s :
  0 <= w < 2 ^ 32 ->
  regs13 [bits w 19 16; bits w 15 12] = true ->
  fb_out (StrtT1_from_bitarray w) s = Ok (Some (code_Strt, [w; 1; 0; 0; bits w 15 12; bits w 19 16; 0; 1; 0; bits w 7 0])) s.
Proof. exact (OpsT3.ops_StrtT1 w s). Qed.
Print Assumptions C07_ops_StrtT1.

Theorem C07_ops_SubSpMinusImmediateT2 w s :
  0 <= w < 2 ^ 32 ->
  regs13 [bits w 11 8] = true ->
  fb_out (SubSpMinusImmediateT2_from_bitarray w) s = Ok (Some (code_SubSpMinusImmediate, [w; bit w 20; bits w 11 8; ThumbExpandImm (imm12t w)])) s.
Proof. exact (OpsT3.ops_SubSpMinusImmediateT2 w s). Qed.
Print Assumptions C07_ops_SubSpMinusImmediateT2.

Theorem C07_ops_Sxtb16T1 w s :
  0 <= w < 2 ^ 32 ->
  regs13 [bits w 11 8; bits w 3 0] = true ->
  fb_out (Sxtb16T1_from_bitarray w) s = Ok (Some (code_Sxtb16, [w; bits w 3 0; bits w 11 8; bits w 5 4 * 8])) s.
Proof. exact (OpsT3.ops_Sxtb16T1 w s). Qed.
Print Assumptions C07_ops_Sxtb16T1.

Theorem C07_ops_TstImmediateT1 w s :
  0 <= w < 2 ^ 32 ->
  regs13 [bits w 19 16] = true ->
  fb_out (TstImmediateT1_from_bitarray w) s = Ok (Some (code_TstImmediate, [w; bits w 19 16; ThumbExpandImm (imm12t w); snd (ThumbExpandImm_C (imm12t w) (cflag s))])) s.
Proof. exact (OpsT3.ops_TstImmediateT1 w s). Qed.
Print Assumptions C07_ops_TstImmediateT1.

Theorem C07_ops_UdfT2 w s :
  0 <= w < 2 ^ 32 ->
  in_it s = false ->
  fb_out (UdfT2_from_bitarray w) s = Ok (Some (code_Udf, [w])) s.
Proof. exact (OpsT3.ops_UdfT2 w s). Qed.
Print Assumptions C07_ops_UdfT2.

Theorem C07_ops_UmaalT1 w s :
  0 <= w < 2 ^ 32 ->
  regs13 [bits w 19 16; bits w 15 12; bits w 11 8; bits w 3 0] = true ->
  fb_out (UmaalT1_from_bitarray w) s = Ok (Some (code_Umaal, [w; bits w 3 0; bits w 11 8; bits w 15 12; bits w 19 16])) s.
Proof. exact (OpsT3.ops_UmaalT1 w s). Qed.
Print Assumptions C07_ops_UmaalT1.

Theorem C07_ops_Uqsub8T1 w s :
  0 <= w < 2 ^ 32 ->
  regs13 [bits w 19 16; bits w 11 8; bits w 3 0] = true ->
  fb_out (Uqsub8T1_from_bitarray w) s = Ok (Some (code_Uqsub8, [w; bits w 3 0; bits w 11 8; bits w 19 16])) s.
Proof. exact (OpsT3.ops_Uqsub8T1 w s). Qed.
Print Assumptions C07_ops_Uqsub8T1.

Theorem C07_ops_Uxtab16T1 w s :
  0 <= w < 2 ^ 32 ->
  regs13 [bits w 19 16; bits w 11 8; bits w 3 0] = true ->
  fb_out (Uxtab16T1_from_bitarray w) s = Ok (Some (code_Uxtab16, [w; bits w 3 0; bits w 11 8; bits w 19 16; bits w 5 4 * 8])) s.
Proof. exact (OpsT3.ops_Uxtab16T1 w s). Qed.
Print Assumptions C07_ops_Uxtab16T1.

Theorem C07_ops_WfeT1 w s :
  0 <= w < 2 ^ 16 ->
  in_it s = false ->
  fb_out (WfeT1_from_bitarray w) s = Ok (Some (code_Wfe, [w])) s.
Proof. exact (OpsT3.ops_WfeT1 w s). Qed.
Print Assumptions C07_ops_WfeT1.
