(* Spec/Vmsa.v — VMSA address translation, short-descriptor format (ARM ARM B3.5, B3.6, B3.7, B3.12, B3.13),
   written from the architecture description as a pure function of the system registers and of the words the
   translation tables hold in memory.  Nothing here refers to the regenerated model of the emulator's code;
   Proofs/VmsaProofs.v proves that the regenerated code computes exactly these functions. *)
From Coq Require Import ZArith List Bool.
From ArmV Require Import Lib.PyZ Lib.Monad Lib.Machine Spec.Pseudocode Spec.Arch Spec.MachineView Spec.Hub Spec.Memory.
From Gen Require Import enums records.
Import ListNotations.
Open Scope Z_scope.

(* system-register slots (the order of the emulator's Registers attributes; proved in use by VmsaProofs) *)
Definition i_sctlr := 11. Definition i_ttbcr := 27. Definition i_fcseidr := 28.
Definition i_ttbr0 := 31. Definition i_ttbr1 := 32. Definition i_prrr := 39. Definition i_nmrr := 40. Definition i_dacr := 41.
Definition sreg (s : machine) (i : Z) : Z := getl (sys s) i.

(* ---------- B3.2.1 FCSE: VA -> MVA ---------- *)
Definition FCSE (fcseidr va : Z) : Z := if bits va 31 25 =? 0 then bits fcseidr 31 25 * 2 ^ 25 + bits va 24 0 else va.

(* ---------- fault kinds and their short-descriptor encoding (table B3-23) ---------- *)
Inductive vfault := VF_alignment | VF_translation | VF_access_flag | VF_domain | VF_permission.
Definition vf_dtype (f : vfault) : Z :=
  match f with VF_alignment => DAbort_ALIGNMENT | VF_translation => DAbort_TRANSLATION | VF_access_flag => DAbort_ACCESS_FLAG
             | VF_domain => DAbort_DOMAIN | VF_permission => DAbort_PERMISSION end.
(* FS<4:0>; level 1 = first-level (section), level 2 = second-level (page) *)
Definition sd_fs (f : vfault) (level : Z) : Z :=
  match f with
  | VF_alignment => 1
  | VF_access_flag => if level =? 1 then 3 else 6
  | VF_translation => if level =? 2 then 7 else 5
  | VF_domain => if level =? 2 then 11 else 9
  | VF_permission => if level =? 2 then 15 else 13
  end.
(* is the DFSR domain field valid for this fault (no LPAE) *)
Definition sd_domain_valid (f : vfault) (level : Z) : bool :=
  match f with VF_domain | VF_permission => true | VF_translation | VF_access_flag => level =? 2 | VF_alignment => false end.
(* DFSR<13:0> := CM=0 : ExT=0 : WnR : FS<4> : LPAE=0 : 0 : domain : FS<3:0> *)
Definition sd_dfsr (old : Z) (f : vfault) (level domain iswrite : Z) : Z :=
  let fs := sd_fs f level in
  insert old 13 0 (iswrite * 2 ^ 11 + bit fs 4 * 2 ^ 10 + (if sd_domain_valid f level then domain else 0) * 2 ^ 4 + bits fs 3 0).
(* the state after a synchronous VMSA data abort reported in the short-descriptor format: DFAR, DFSR *)
Definition vmsa_fault_state (s : machine) (mva : Z) (f : vfault) (level domain iswrite : Z) : machine :=
  let s1 := set_sys s (setl (sys s) i_dfar mva) in
  set_sys s1 (setl (sys s1) i_dfsr (sd_dfsr (getl (sys s1) i_dfsr) f level domain iswrite)).

(* ---------- B3.5 the short-descriptor walk ---------- *)
(* the 32-bit descriptor at physical address pa, as the walk reads it (SCTLR.EE selects big-endian tables) *)
Definition desc_at (s : machine) (pa : Z) : Z := endian (bit (sreg s i_sctlr) 25 =? 1) 4 (hub_read (mem s) pa 4).

Record sd_leaf := mk_leaf {
  lf_level : Z; lf_domain : Z; lf_ap : Z; lf_xn : Z; lf_pxn : Z; lf_ng : Z; lf_ns : Z; lf_s : Z; lf_texcb : Z;
  lf_blocksize : Z;        (* in KB *)
  lf_pa : Z }.             (* up to 40 bits (supersections) *)
Inductive walk := W_fault (f : vfault) (level domain : Z) | W_leaf (l : sd_leaf).

(* which table base register translates mva: (TTBR value, N used for the first-level index, walk disabled) *)
Definition ttbr_select (s : machine) (mva : Z) : Z * Z * bool :=
  let ttbcr := sreg s i_ttbcr in
  let n := bits ttbcr 2 0 in
  if (n =? 0) || (bits mva 31 (32 - n) =? 0) then (sreg s i_ttbr0, n, bit ttbcr 4 =? 1)
  else (sreg s i_ttbr1, 0, bit ttbcr 5 =? 1).
Definition l1_address (ttbr n mva : Z) : Z := bits ttbr 31 (14 - n) * 2 ^ (14 - n) + bits mva (31 - n) 20 * 4.
Definition l2_address (l1desc mva : Z) : Z := bits l1desc 31 10 * 2 ^ 10 + bits mva 19 12 * 4.

Definition sd_walk (have_security : bool) (s : machine) (mva : Z) : walk :=
  let '(ttbr, n, disabled) := ttbr_select s mva in
  if have_security && disabled then W_fault VF_translation 1 0 else
  let afe := bit (sreg s i_sctlr) 29 =? 1 in
  let d1 := desc_at s (l1_address ttbr n mva) in
  if bits d1 1 0 =? 0 then W_fault VF_translation 1 0
  else if bits d1 1 0 =? 1 then                                         (* page table *)
    let domain := bits d1 8 5 in
    let d2 := desc_at s (l2_address d1 mva) in
    if bits d2 1 0 =? 0 then W_fault VF_translation 2 domain
    else if afe && (bit d2 4 =? 0) then W_fault VF_access_flag 2 domain
    else
      let ap := bit d2 9 * 4 + bits d2 5 4 in
      if bit d2 1 =? 0 then                                             (* large page, 64KB *)
        W_leaf (mk_leaf 2 domain ap (bit d2 15) (bit d1 2) (bit d2 11) (bit d1 3) (bit d2 10)
                        (bits d2 14 12 * 4 + bits d2 3 2) 64 (bits d2 31 16 * 2 ^ 16 + bits mva 15 0))
      else                                                              (* small page, 4KB *)
        W_leaf (mk_leaf 2 domain ap (bit d2 0) (bit d1 2) (bit d2 11) (bit d1 3) (bit d2 10)
                        (bits d2 8 6 * 4 + bits d2 3 2) 4 (bits d2 31 12 * 2 ^ 12 + bits mva 11 0))
  else                                                                  (* section or supersection *)
    if afe && (bit d1 10 =? 0) then W_fault VF_access_flag 1 0
    else
      let ap := bit d1 15 * 4 + bits d1 11 10 in
      let texcb := bits d1 14 12 * 4 + bits d1 3 2 in
      if bit d1 18 =? 0 then                                            (* section, 1MB *)
        W_leaf (mk_leaf 1 (bits d1 8 5) ap (bit d1 4) (bit d1 0) (bit d1 17) (bit d1 19) (bit d1 16) texcb 1024
                        (bits d1 31 20 * 2 ^ 20 + bits mva 19 0))
      else                                                              (* supersection, 16MB, 40-bit output *)
        W_leaf (mk_leaf 1 0 ap (bit d1 4) (bit d1 0) (bit d1 17) (bit d1 19) (bit d1 16) texcb 16384
                        ((bits d1 8 5 * 2 ^ 4 + bits d1 23 20) * 2 ^ 32 + bits d1 31 24 * 2 ^ 24 + bits mva 23 0)).

(* ---------- B3.7.1 domains and B3.7 access permissions ---------- *)
Definition dacr_field (dacr domain : Z) : Z := bits dacr (2 * domain + 1) (2 * domain).
(* AP<2:0> decoding; with SCTLR.AFE = 1 AP<0> is the access flag and is treated as 1.  true = access denied.
   AP = 0b100 is reserved (UNPREDICTABLE): no abort is generated *)
Definition vmsa_ap_denies (afe : bool) (ap : Z) (ispriv iswrite : bool) : bool :=
  let ap := if afe then (ap / 2) * 2 + 1 else ap in
  match ap with
  | 0 => true | 1 => negb ispriv | 2 => negb ispriv && iswrite | 3 => false
  | 4 => false | 5 => negb ispriv || iswrite | 6 => iswrite | 7 => iswrite | _ => false
  end.

(* ---------- B3.8 memory region attributes with TEX remap (SCTLR.TRE = 1): memory type ---------- *)
Definition remap_type (prrr texcb : Z) : option Z :=
  let r := bits texcb 2 0 in
  if r =? 6 then None                                                   (* IMPLEMENTATION DEFINED *)
  else Some (match bits prrr (2 * r + 1) (2 * r) with 0 => MemType_STRONGLY_ORDERED | 1 => MemType_DEVICE | _ => MemType_NORMAL end).

(* ---------- B3.19 TranslateAddressV, stage 1 only, short-descriptor format, PL1&0 regime ---------- *)
Inductive xlate := X_fault (mva : Z) (f : vfault) (level domain : Z) | X_ok (l : sd_leaf) | X_flat (mva : Z).
(* [device] tells whether the leaf's memory type is Device or Strongly-ordered (for the alignment check) *)
Definition vmsa_translate (have_security : bool) (s : machine) (device : sd_leaf -> bool)
           (va : Z) (ispriv iswrite wasaligned : bool) : xlate :=
  let mva := FCSE (sreg s i_fcseidr) va in
  if bit (sreg s i_sctlr) 0 =? 0 then
    (* MMU off: flat map, Strongly-ordered *)
    if negb wasaligned then X_fault (FCSE (sreg s i_fcseidr) mva) VF_alignment 0 0 else X_flat mva
  else
    match sd_walk have_security s mva with
    | W_fault f level domain => X_fault mva f level domain
    | W_leaf l =>
      if negb wasaligned && device l then X_fault (FCSE (sreg s i_fcseidr) mva) VF_alignment 0 0 else
      match dacr_field (sreg s i_dacr) (lf_domain l) with
      | 0 => X_fault mva VF_domain (lf_level l) (lf_domain l)
      | 1 => if vmsa_ap_denies (bit (sreg s i_sctlr) 29 =? 1) (lf_ap l) ispriv iswrite
             then X_fault mva VF_permission (lf_level l) (lf_domain l) else X_ok l
      | _ => X_ok l                     (* manager: no permission check; 0b10 is reserved *)
      end
    end.

(* ---------- B3.8.3 TEX remap: full memory attributes ---------- *)
(* cacheability encoding of a two-bit region field: (attrs, hints); 00 NC, 01 WB-WA, 10 WT, 11 WB-no-WA *)
Definition attrs_hints (rgn : Z) : Z * Z := match rgn with 0 => (0, 0) | 1 => (3, 3) | 2 => (2, 2) | _ => (3, 2) end.
Definition tex_remap (prrr nmrr texcb sbit : Z) : MemoryAttributes :=
  let r := bits texcb 2 0 in
  if r =? 6 then new_MemoryAttributes                      (* IMPLEMENTATION DEFINED; the emulator leaves the defaults *)
  else match bits prrr (2 * r + 1) (2 * r) with
  | 0 => mk_MemoryAttributes MemType_STRONGLY_ORDERED 0 0 0 0 0 0 1 1
  | 1 => mk_MemoryAttributes MemType_DEVICE 0 0 0 0 0 0 1 1
  | 2 => let '(ia, ih) := attrs_hints (bits nmrr (2 * r + 1) (2 * r)) in
         let '(oa, oh) := attrs_hints (bits nmrr (2 * r + 17) (2 * r + 16)) in
         let sh := if sbit =? 0 then bit prrr 18 else bit prrr 19 in
         mk_MemoryAttributes MemType_NORMAL ia oa ih oh 0 0 sh (if (sh =? 1) && (bit prrr (r + 24) =? 0) then 1 else 0)
  | _ => mk_MemoryAttributes MemType_NORMAL 0 0 0 0 0 0 0 0
  end.
Definition leaf_device (s : machine) (l : sd_leaf) : bool :=
  let t := MemoryAttributes_type (tex_remap (sreg s i_prrr) (sreg s i_nmrr) (lf_texcb l) (lf_s l)) in
  (t =? MemType_DEVICE) || (t =? MemType_STRONGLY_ORDERED).

(* ---------- B3.6 the long-descriptor format: stage 1, PL1&0 translation regime (TTBCR.EAE = 1, not Hyp mode) ----------
   Executable specification compared with the implementation by correspondence only (no theorem). *)
Definition i_mair0 := 35. Definition i_mair1 := 36.
Definition desc64_at (s : machine) (pa : Z) : Z := endian (bit (sreg s i_sctlr) 25 =? 1) 8 (hub_read (mem s) pa 8).
(* which base register, first lookup level, most significant input-address bit, walk disabled; None = translation fault *)
Definition ld_region (s : machine) (ia : Z) : option (Z * Z * Z * bool) :=
  let ttbcr := sreg s i_ttbcr in
  let t0 := bits ttbcr 2 0 in let t1 := bits ttbcr 18 16 in
  let in0 := (t0 =? 0) || (bits ia 31 (32 - t0) =? 0) in
  let in1 := if t1 =? 0 then negb in0 else bits ia 31 (32 - t1) =? 2 ^ t1 - 1 in
  let lvl sz := if sz <? 2 then 1 else 2 in
  let base ttbr sz := let lb := 9 * lvl sz - sz - 4 in bits ttbr 39 lb * 2 ^ lb in
  if in1 then Some (base (sreg s i_ttbr1) t1, lvl t1, 31 - t1, bit ttbcr 23 =? 1)
  else if in0 then Some (base (sreg s i_ttbr0) t0, lvl t0, 31 - t0, bit ttbcr 7 =? 1)
  else None.
Record ld_tab := { lt_secure : bool; lt_rw : bool; lt_user : bool; lt_xn : bool; lt_pxn : bool }.
Inductive ld_res := LD_fault (f : vfault) (level : Z) | LD_leaf (level pa attrs : Z).
Fixpoint ld_levels (fuel : nat) (s : machine) (secure : bool) (ia base level : Z) (first : bool) (start_bit : Z) (a : ld_tab) : ld_res :=
  match fuel with
  | O => LD_fault VF_translation level
  | S k =>
      let offset := 9 * level in
      let sel := if first then bits ia start_bit (39 - offset) else bits ia (47 - offset) (39 - offset) in
      let d := desc64_at s (base + sel * 8) in
      if bit d 0 =? 0 then LD_fault VF_translation level
      else if (bit d 1 =? 0) && (level =? 3) then LD_fault VF_translation level
      else if (bit d 1 =? 1) && negb (level =? 3) then
        ld_levels k s secure ia (bits d 39 12 * 2 ^ 12) (level + 1) false start_bit
          {| lt_secure := lt_secure a && (bit d 63 =? 0); lt_rw := lt_rw a && (bit d 62 =? 0); lt_user := lt_user a && (bit d 61 =? 0);
             lt_xn := lt_xn a || (bit d 60 =? 1); lt_pxn := lt_pxn a || (bit d 59 =? 1) |}
      else
        let ia_len := 39 - offset in
        let out := bits d 39 ia_len * 2 ^ ia_len + bits ia (ia_len - 1) 0 in
        let at0 := bits d 54 52 * 2 ^ 10 + bits d 11 2 in
        let at1 := if lt_xn a then insert at0 12 12 1 else at0 in
        let at2 := if lt_pxn a then insert at1 11 11 1 else at1 in
        let at3 := if secure && negb (lt_secure a) then insert at2 9 9 1 else at2 in
        let at4 := if lt_rw a then at3 else insert at3 5 5 1 in
        let at5 := if lt_user a then at4 else insert at4 4 4 0 in
        let at6 := if lt_secure a then at5 else insert at5 3 3 1 in
        if bit at6 8 =? 0 then LD_fault VF_access_flag level else LD_leaf level out at6
  end.
Inductive ld_xlate := LX_fault (f : vfault) (level : Z) | LX_ok (pa ns : Z).
Definition ld_translate (secure : bool) (s : machine) (va : Z) (ispriv iswrite : bool) : ld_xlate :=
  let mva := FCSE (sreg s i_fcseidr) va in
  match ld_region s mva with
  | None => LX_fault VF_translation 1
  | Some (base, level, start_bit, disabled) =>
      if disabled then LX_fault VF_translation 1 else
      match ld_levels 3 s secure mva base level true start_bit
                      {| lt_secure := secure; lt_rw := true; lt_user := true; lt_xn := false; lt_pxn := false |} with
      | LD_fault f l => LX_fault f l
      | LD_leaf l pa attrs =>
          if vmsa_ap_denies false (bits attrs 5 4 * 2 + 1) ispriv iswrite then LX_fault VF_permission l
          else LX_ok pa (bit attrs 3)
      end
  end.
