(* Props/C09par.v — C09: the parallel addition / subtraction family (A8.8: SADD16 ... UHSUB8), all 36 classes, each equal to
   the table-driven specification [par] of Spec/Arith2.v.  Statements only; proofs in Proofs/ParProofs.v. *)
From Coq Require Import ZArith Bool List.
From ArmV Require Import Lib.PyZ Lib.Monad Lib.Machine Spec.Pseudocode Spec.Arch Spec.MachineView Spec.Arith Spec.Arith2
  Proofs.StateLemmas Proofs.CondProofs Proofs.GuardProofs Proofs.BankProofs Proofs.MachineOps Proofs.DPLemmas Proofs.ParProofs.
From Gen Require Import enums core exec.
Import ListNotations.
Open Scope Z_scope.

Theorem C09_SADD16 cfg instr m d n s : ictx cfg s -> cond_holds s -> 0 <= m <= 14 -> 0 <= d <= 14 -> 0 <= n <= 14 ->
  Sadd16_execute cfg instr m d n s = Ok tt (par true 0 0 (cfg_arch_version cfg) s m d n).
Proof. exact (Sadd16_ok cfg instr m d n s). Qed.
Print Assumptions C09_SADD16.
Theorem C09_SASX cfg instr m d n s : ictx cfg s -> cond_holds s -> 0 <= m <= 14 -> 0 <= d <= 14 -> 0 <= n <= 14 ->
  Sasx_execute cfg instr m d n s = Ok tt (par true 0 1 (cfg_arch_version cfg) s m d n).
Proof. exact (Sasx_ok cfg instr m d n s). Qed.
Print Assumptions C09_SASX.
Theorem C09_SSAX cfg instr m d n s : ictx cfg s -> cond_holds s -> 0 <= m <= 14 -> 0 <= d <= 14 -> 0 <= n <= 14 ->
  Ssax_execute cfg instr m d n s = Ok tt (par true 0 2 (cfg_arch_version cfg) s m d n).
Proof. exact (Ssax_ok cfg instr m d n s). Qed.
Print Assumptions C09_SSAX.
Theorem C09_SSUB16 cfg instr m d n s : ictx cfg s -> cond_holds s -> 0 <= m <= 14 -> 0 <= d <= 14 -> 0 <= n <= 14 ->
  Ssub16_execute cfg instr m d n s = Ok tt (par true 0 3 (cfg_arch_version cfg) s m d n).
Proof. exact (Ssub16_ok cfg instr m d n s). Qed.
Print Assumptions C09_SSUB16.
Theorem C09_SADD8 cfg instr m d n s : ictx cfg s -> cond_holds s -> 0 <= m <= 14 -> 0 <= d <= 14 -> 0 <= n <= 14 ->
  Sadd8_execute cfg instr m d n s = Ok tt (par true 0 4 (cfg_arch_version cfg) s m d n).
Proof. exact (Sadd8_ok cfg instr m d n s). Qed.
Print Assumptions C09_SADD8.
Theorem C09_SSUB8 cfg instr m d n s : ictx cfg s -> cond_holds s -> 0 <= m <= 14 -> 0 <= d <= 14 -> 0 <= n <= 14 ->
  Ssub8_execute cfg instr m d n s = Ok tt (par true 0 5 (cfg_arch_version cfg) s m d n).
Proof. exact (Ssub8_ok cfg instr m d n s). Qed.
Print Assumptions C09_SSUB8.
Theorem C09_QADD16 cfg instr m d n s : ictx cfg s -> cond_holds s -> 0 <= m <= 14 -> 0 <= d <= 14 -> 0 <= n <= 14 ->
  Qadd16_execute cfg instr m d n s = Ok tt (par true 1 0 (cfg_arch_version cfg) s m d n).
Proof. exact (Qadd16_ok cfg instr m d n s). Qed.
Print Assumptions C09_QADD16.
Theorem C09_QASX cfg instr m d n s : ictx cfg s -> cond_holds s -> 0 <= m <= 14 -> 0 <= d <= 14 -> 0 <= n <= 14 ->
  Qasx_execute cfg instr m d n s = Ok tt (par true 1 1 (cfg_arch_version cfg) s m d n).
Proof. exact (Qasx_ok cfg instr m d n s). Qed.
Print Assumptions C09_QASX.
Theorem C09_QSAX cfg instr m d n s : ictx cfg s -> cond_holds s -> 0 <= m <= 14 -> 0 <= d <= 14 -> 0 <= n <= 14 ->
  Qsax_execute cfg instr m d n s = Ok tt (par true 1 2 (cfg_arch_version cfg) s m d n).
Proof. exact (Qsax_ok cfg instr m d n s). Qed.
Print Assumptions C09_QSAX.
Theorem C09_QSUB16 cfg instr m d n s : ictx cfg s -> cond_holds s -> 0 <= m <= 14 -> 0 <= d <= 14 -> 0 <= n <= 14 ->
  Qsub16_execute cfg instr m d n s = Ok tt (par true 1 3 (cfg_arch_version cfg) s m d n).
Proof. exact (Qsub16_ok cfg instr m d n s). Qed.
Print Assumptions C09_QSUB16.
Theorem C09_QADD8 cfg instr m d n s : ictx cfg s -> cond_holds s -> 0 <= m <= 14 -> 0 <= d <= 14 -> 0 <= n <= 14 ->
  Qadd8_execute cfg instr m d n s = Ok tt (par true 1 4 (cfg_arch_version cfg) s m d n).
Proof. exact (Qadd8_ok cfg instr m d n s). Qed.
Print Assumptions C09_QADD8.
Theorem C09_QSUB8 cfg instr m d n s : ictx cfg s -> cond_holds s -> 0 <= m <= 14 -> 0 <= d <= 14 -> 0 <= n <= 14 ->
  Qsub8_execute cfg instr m d n s = Ok tt (par true 1 5 (cfg_arch_version cfg) s m d n).
Proof. exact (Qsub8_ok cfg instr m d n s). Qed.
Print Assumptions C09_QSUB8.
Theorem C09_SHADD16 cfg instr m d n s : ictx cfg s -> cond_holds s -> 0 <= m <= 14 -> 0 <= d <= 14 -> 0 <= n <= 14 ->
  Shadd16_execute cfg instr m d n s = Ok tt (par true 2 0 (cfg_arch_version cfg) s m d n).
Proof. exact (Shadd16_ok cfg instr m d n s). Qed.
Print Assumptions C09_SHADD16.
Theorem C09_SHASX cfg instr m d n s : ictx cfg s -> cond_holds s -> 0 <= m <= 14 -> 0 <= d <= 14 -> 0 <= n <= 14 ->
  Shasx_execute cfg instr m d n s = Ok tt (par true 2 1 (cfg_arch_version cfg) s m d n).
Proof. exact (Shasx_ok cfg instr m d n s). Qed.
Print Assumptions C09_SHASX.
Theorem C09_SHSAX cfg instr m d n s : ictx cfg s -> cond_holds s -> 0 <= m <= 14 -> 0 <= d <= 14 -> 0 <= n <= 14 ->
  Shsax_execute cfg instr m d n s = Ok tt (par true 2 2 (cfg_arch_version cfg) s m d n).
Proof. exact (Shsax_ok cfg instr m d n s). Qed.
Print Assumptions C09_SHSAX.
Theorem C09_SHSUB16 cfg instr m d n s : ictx cfg s -> cond_holds s -> 0 <= m <= 14 -> 0 <= d <= 14 -> 0 <= n <= 14 ->
  Shsub16_execute cfg instr m d n s = Ok tt (par true 2 3 (cfg_arch_version cfg) s m d n).
Proof. exact (Shsub16_ok cfg instr m d n s). Qed.
Print Assumptions C09_SHSUB16.
Theorem C09_SHADD8 cfg instr m d n s : ictx cfg s -> cond_holds s -> 0 <= m <= 14 -> 0 <= d <= 14 -> 0 <= n <= 14 ->
  Shadd8_execute cfg instr m d n s = Ok tt (par true 2 4 (cfg_arch_version cfg) s m d n).
Proof. exact (Shadd8_ok cfg instr m d n s). Qed.
Print Assumptions C09_SHADD8.
Theorem C09_SHSUB8 cfg instr m d n s : ictx cfg s -> cond_holds s -> 0 <= m <= 14 -> 0 <= d <= 14 -> 0 <= n <= 14 ->
  Shsub8_execute cfg instr m d n s = Ok tt (par true 2 5 (cfg_arch_version cfg) s m d n).
Proof. exact (Shsub8_ok cfg instr m d n s). Qed.
Print Assumptions C09_SHSUB8.
Theorem C09_UADD16 cfg instr m d n s : ictx cfg s -> cond_holds s -> 0 <= m <= 14 -> 0 <= d <= 14 -> 0 <= n <= 14 ->
  Uadd16_execute cfg instr m d n s = Ok tt (par false 0 0 (cfg_arch_version cfg) s m d n).
Proof. exact (Uadd16_ok cfg instr m d n s). Qed.
Print Assumptions C09_UADD16.
Theorem C09_UASX cfg instr m d n s : ictx cfg s -> cond_holds s -> 0 <= m <= 14 -> 0 <= d <= 14 -> 0 <= n <= 14 ->
  Uasx_execute cfg instr m d n s = Ok tt (par false 0 1 (cfg_arch_version cfg) s m d n).
Proof. exact (Uasx_ok cfg instr m d n s). Qed.
Print Assumptions C09_UASX.
Theorem C09_USAX cfg instr m d n s : ictx cfg s -> cond_holds s -> 0 <= m <= 14 -> 0 <= d <= 14 -> 0 <= n <= 14 ->
  Usax_execute cfg instr m d n s = Ok tt (par false 0 2 (cfg_arch_version cfg) s m d n).
Proof. exact (Usax_ok cfg instr m d n s). Qed.
Print Assumptions C09_USAX.
Theorem C09_USUB16 cfg instr m d n s : ictx cfg s -> cond_holds s -> 0 <= m <= 14 -> 0 <= d <= 14 -> 0 <= n <= 14 ->
  Usub16_execute cfg instr m d n s = Ok tt (par false 0 3 (cfg_arch_version cfg) s m d n).
Proof. exact (Usub16_ok cfg instr m d n s). Qed.
Print Assumptions C09_USUB16.
Theorem C09_UADD8 cfg instr m d n s : ictx cfg s -> cond_holds s -> 0 <= m <= 14 -> 0 <= d <= 14 -> 0 <= n <= 14 ->
  Uadd8_execute cfg instr m d n s = Ok tt (par false 0 4 (cfg_arch_version cfg) s m d n).
Proof. exact (Uadd8_ok cfg instr m d n s). Qed.
Print Assumptions C09_UADD8.
Theorem C09_USUB8 cfg instr m d n s : ictx cfg s -> cond_holds s -> 0 <= m <= 14 -> 0 <= d <= 14 -> 0 <= n <= 14 ->
  Usub8_execute cfg instr m d n s = Ok tt (par false 0 5 (cfg_arch_version cfg) s m d n).
Proof. exact (Usub8_ok cfg instr m d n s). Qed.
Print Assumptions C09_USUB8.
Theorem C09_UQADD16 cfg instr m d n s : ictx cfg s -> cond_holds s -> 0 <= m <= 14 -> 0 <= d <= 14 -> 0 <= n <= 14 ->
  Uqadd16_execute cfg instr m d n s = Ok tt (par false 1 0 (cfg_arch_version cfg) s m d n).
Proof. exact (Uqadd16_ok cfg instr m d n s). Qed.
Print Assumptions C09_UQADD16.
Theorem C09_UQASX cfg instr m d n s : ictx cfg s -> cond_holds s -> 0 <= m <= 14 -> 0 <= d <= 14 -> 0 <= n <= 14 ->
  Uqasx_execute cfg instr m d n s = Ok tt (par false 1 1 (cfg_arch_version cfg) s m d n).
Proof. exact (Uqasx_ok cfg instr m d n s). Qed.
Print Assumptions C09_UQASX.
Theorem C09_UQSAX cfg instr m d n s : ictx cfg s -> cond_holds s -> 0 <= m <= 14 -> 0 <= d <= 14 -> 0 <= n <= 14 ->
  Uqsax_execute cfg instr m d n s = Ok tt (par false 1 2 (cfg_arch_version cfg) s m d n).
Proof. exact (Uqsax_ok cfg instr m d n s). Qed.
Print Assumptions C09_UQSAX.
Theorem C09_UQSUB16 cfg instr m d n s : ictx cfg s -> cond_holds s -> 0 <= m <= 14 -> 0 <= d <= 14 -> 0 <= n <= 14 ->
  Uqsub16_execute cfg instr m d n s = Ok tt (par false 1 3 (cfg_arch_version cfg) s m d n).
Proof. exact (Uqsub16_ok cfg instr m d n s). Qed.
Print Assumptions C09_UQSUB16.
Theorem C09_UQADD8 cfg instr m d n s : ictx cfg s -> cond_holds s -> 0 <= m <= 14 -> 0 <= d <= 14 -> 0 <= n <= 14 ->
  Uqadd8_execute cfg instr m d n s = Ok tt (par false 1 4 (cfg_arch_version cfg) s m d n).
Proof. exact (Uqadd8_ok cfg instr m d n s). Qed.
Print Assumptions C09_UQADD8.
Theorem C09_UQSUB8 cfg instr m d n s : ictx cfg s -> cond_holds s -> 0 <= m <= 14 -> 0 <= d <= 14 -> 0 <= n <= 14 ->
  Uqsub8_execute cfg instr m d n s = Ok tt (par false 1 5 (cfg_arch_version cfg) s m d n).
Proof. exact (Uqsub8_ok cfg instr m d n s). Qed.
Print Assumptions C09_UQSUB8.
Theorem C09_UHADD16 cfg instr m d n s : ictx cfg s -> cond_holds s -> 0 <= m <= 14 -> 0 <= d <= 14 -> 0 <= n <= 14 ->
  Uhadd16_execute cfg instr m d n s = Ok tt (par false 2 0 (cfg_arch_version cfg) s m d n).
Proof. exact (Uhadd16_ok cfg instr m d n s). Qed.
Print Assumptions C09_UHADD16.
Theorem C09_UHASX cfg instr m d n s : ictx cfg s -> cond_holds s -> 0 <= m <= 14 -> 0 <= d <= 14 -> 0 <= n <= 14 ->
  Uhasx_execute cfg instr m d n s = Ok tt (par false 2 1 (cfg_arch_version cfg) s m d n).
Proof. exact (Uhasx_ok cfg instr m d n s). Qed.
Print Assumptions C09_UHASX.
Theorem C09_UHSAX cfg instr m d n s : ictx cfg s -> cond_holds s -> 0 <= m <= 14 -> 0 <= d <= 14 -> 0 <= n <= 14 ->
  Uhsax_execute cfg instr m d n s = Ok tt (par false 2 2 (cfg_arch_version cfg) s m d n).
Proof. exact (Uhsax_ok cfg instr m d n s). Qed.
Print Assumptions C09_UHSAX.
Theorem C09_UHSUB16 cfg instr m d n s : ictx cfg s -> cond_holds s -> 0 <= m <= 14 -> 0 <= d <= 14 -> 0 <= n <= 14 ->
  Uhsub16_execute cfg instr m d n s = Ok tt (par false 2 3 (cfg_arch_version cfg) s m d n).
Proof. exact (Uhsub16_ok cfg instr m d n s). Qed.
Print Assumptions C09_UHSUB16.
Theorem C09_UHADD8 cfg instr m d n s : ictx cfg s -> cond_holds s -> 0 <= m <= 14 -> 0 <= d <= 14 -> 0 <= n <= 14 ->
  Uhadd8_execute cfg instr m d n s = Ok tt (par false 2 4 (cfg_arch_version cfg) s m d n).
Proof. exact (Uhadd8_ok cfg instr m d n s). Qed.
Print Assumptions C09_UHADD8.
Theorem C09_UHSUB8 cfg instr m d n s : ictx cfg s -> cond_holds s -> 0 <= m <= 14 -> 0 <= d <= 14 -> 0 <= n <= 14 ->
  Uhsub8_execute cfg instr m d n s = Ok tt (par false 2 5 (cfg_arch_version cfg) s m d n).
Proof. exact (Uhsub8_ok cfg instr m d n s). Qed.
Print Assumptions C09_UHSUB8.
