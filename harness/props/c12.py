"""C12 — system instructions (PSR writes)."""
import copy
import common as C
import statelib
from framework import Unit

PROPS_FILES = ['C12', 'C12status', 'C12return', 'C12hints', 'C12coproc', 'C12misc']
IMPORTS = 'From ArmV Require Import Spec.Arch.\nFrom Gen Require Import enums core.'
SPEC_IMPORTS = 'From ArmV Require Import Spec.Pseudocode Spec.Arch.'
MODES = [16, 17, 18, 19, 22, 23, 26, 27, 31]


def cpsr_write_cases(rng, tier):
    t = statelib.load_index(C.GEN)['tables']
    out = []
    n_cases = 400 if tier == 'quick' else 8000
    ix = {n: t['sys_names'].index(n) for n in ('cpsr', 'scr', 'sctlr', 'nsacr')}
    for ci in range(n_cases):
        cfgd = dict(statelib.DEFAULT_CFG)
        cfgd['have_security_ext'] = rng.random() < 0.8
        cfgd['have_virt_ext'] = cfgd['have_security_ext'] and rng.random() < 0.4
        st = statelib.reset_state(t, cfg=cfgd, mem=[])
        mode = rng.choice(MODES)
        if mode == 22 and not cfgd['have_security_ext']:
            mode = 19
        if mode == 26 and not cfgd['have_virt_ext']:
            mode = 16
        cpsr = (rng.getrandbits(27) << 5) | mode
        scr = rng.getrandbits(10)
        sctlr = (rng.getrandbits(1) << 27) | 0x00C50078
        nsacr = rng.getrandbits(1) << 19
        st['sys'][ix['cpsr']] = cpsr
        st['sys'][ix['scr']] = scr
        st['sys'][ix['sctlr']] = sctlr
        st['sys'][ix['nsacr']] = nsacr
        r = rng.random()
        value = (rng.getrandbits(27) << 5) | (rng.choice(MODES) if r < 0.8 else rng.getrandbits(5))
        mask = rng.getrandbits(4) if rng.random() < 0.7 else 0xF
        excp = rng.choice([0, 1])
        hs, hv = int(cfgd['have_security_ext']), int(cfgd['have_virt_ext'])
        ctx = f'(Build_sysctx {hs} {hv} {scr} {sctlr} {nsacr})'
        out.append({'impl': {'kind': 'method', 'state': st, 'method': 'registers.cpsr_write_by_instr',
                             'args': [value, mask, bool(excp)], 'rt': ['unit'], '_probe': 'cpsr'},
                    'model': (f'(match Registers_cpsr_write_by_instr {statelib.coq_config(cfgd, t)} {value} {mask} {excp} '
                              f'{statelib.coq_machine(st)} with Ok _ s => [0; getl (sys s) slot_cpsr] | Exc e _ => exn_enc e end)'),
                    'spec': f'(enc_pure enc_Z (CPSRWriteByInstr {ctx} {cpsr} {value} {mask} {excp}))',
                    'label': 'cpsr_write_' + ('user' if mode == 16 else 'priv'), 'nontrivial': True})
    return out


def coproc_cases(rng, tier):
    """coproc_accepted for every generic coprocessor number, CPACR/NSACR field value, mode and security state"""
    t = statelib.load_index(C.GEN)['tables']
    out = []
    ix = {n: t['sys_names'].index(n) for n in ('cpsr', 'scr', 'nsacr', 'cpacr')}
    reps = 1 if tier == 'quick' else 6
    for cp in [c for c in range(14) if c not in (10, 11)]:
        for field in range(4):
            for mode in (16, 19, 31, 22):
                for ns in (0, 1):
                    for _ in range(reps):
                        cfgd = dict(statelib.DEFAULT_CFG)
                        cfgd['have_security_ext'] = rng.random() < 0.8
                        if mode == 22 and not cfgd['have_security_ext']:
                            continue
                        st = statelib.reset_state(t, cfg=cfgd, mem=[])
                        cpsr = (rng.getrandbits(27) << 5) | mode
                        scr = (rng.getrandbits(9) << 1) | ns
                        nsacr = rng.getrandbits(14) if rng.random() < 0.7 else (rng.getrandbits(14) | (1 << cp))
                        cpacr = (rng.getrandbits(28) & ~(3 << (2 * cp))) | (field << (2 * cp))
                        st['sys'][ix['cpsr']] = cpsr
                        st['sys'][ix['scr']] = scr
                        st['sys'][ix['nsacr']] = nsacr
                        st['sys'][ix['cpacr']] = cpacr
                        instr = rng.getrandbits(32)
                        hs = int(cfgd['have_security_ext'])
                        secure = '(IsSecure (Build_sysctx %d 0 %d %d %d) %d)' % (hs, scr, st['sys'][t['sys_names'].index('sctlr')], nsacr, cpsr)
                        spec = (f'(if coproc_denied {"true" if hs else "false"} {secure} ({mode} =? 16) {nsacr} {cpacr} {cp} '
                                f'then [2; 6] else [2; 7])')
                        out.append({'impl': {'kind': 'method', 'state': st, 'method': 'coproc_accepted', 'args': [cp, instr],
                                             'rt': ['opt', ['Z']], '_only_result': True},
                                    'model': (f'(match ArmV6_coproc_accepted {statelib.coq_config(cfgd, t)} {cp} {instr} '
                                              f'{statelib.coq_machine(st)} with Ok _ _ => [0] | Exc e _ => exn_enc e end)'),
                                    'spec': spec, 'label': f'coproc_cpacr{field}', 'nontrivial': True})
    return out


COPROC_CLASSES = [('CdpCdp2', 'cdp_cdp2', []), ('McrMcr2', 'mcr_mcr2', ['t']), ('McrrMcrr2', 'mcrr_mcrr2', ['t', 't2']),
                  ('MrcMrc2', 'mrc_mrc2', ['t']), ('MrrcMrrc2', 'mrrc_mrrc2', ['t', 't2']),
                  ('LdcLdc2Immediate', 'ldc_ldc2_immediate', ['n', 'add', 'imm32', 'index', 'wback']),
                  ('LdcLdc2Literal', 'ldc_ldc2_literal', ['add', 'imm32', 'index']), ('StcStc2', 'stc_stc2', ['n', 'add', 'imm32', 'index', 'wback'])]


def coproc_exec_cases(rng, tier):
    """execute() of every coprocessor instruction class: UNDEFINED when NSACR/CPACR deny the access, else the not-implemented
    outcome, the state untouched"""
    t = statelib.load_index(C.GEN)['tables']
    out = []
    ix = {n: t['sys_names'].index(n) for n in ('cpsr', 'scr', 'nsacr', 'cpacr')}
    per = 16 if tier == 'quick' else 800
    for cls, module, extra in COPROC_CLASSES:
        for _ in range(per):
            cfgd = dict(statelib.DEFAULT_CFG)
            cfgd['have_security_ext'] = rng.random() < 0.8
            st = statelib.reset_state(t, cfg=cfgd, mem=[])
            mode = rng.choice([16, 16, 19, 31] + ([22] if cfgd['have_security_ext'] else []))
            cp = rng.choice([c for c in range(14) if c not in (10, 11)])
            cpsr = (rng.getrandbits(4) << 28) | mode
            scr = (rng.getrandbits(9) << 1) | rng.getrandbits(1)
            nsacr = rng.getrandbits(14) if rng.random() < 0.6 else (rng.getrandbits(14) | (1 << cp))
            cpacr = (rng.getrandbits(28) & ~(3 << (2 * cp))) | (rng.choice([0, 1, 3, 3]) << (2 * cp))
            st['sys'][ix['cpsr']], st['sys'][ix['scr']], st['sys'][ix['nsacr']], st['sys'][ix['cpacr']] = cpsr, scr, nsacr, cpacr
            st['R'] = [rng.getrandbits(32) for _ in range(34)]
            st['opcode'], st['opcode_len'] = 0xE0000000 | rng.getrandbits(28), 32       # condition AL: the statements are for a passing condition
            vals = {'t': rng.randrange(13), 't2': rng.randrange(13), 'n': rng.randrange(13), 'add': rng.getrandbits(1),
                    'imm32': 4 * rng.getrandbits(8), 'index': rng.getrandbits(1), 'wback': rng.getrandbits(1)}
            fields = [0, cp] + [vals[f] for f in extra]
            hs = int(cfgd['have_security_ext'])
            m = statelib.coq_machine(st)
            secure = '(IsSecure (Build_sysctx %d 0 %d %d %d) %d)' % (hs, scr, st['sys'][t['sys_names'].index('sctlr')], nsacr, cpsr)
            spec = (f'(if coproc_denied {"true" if hs else "false"} {secure} ({mode} =? 16) {nsacr} {cpacr} {cp} '
                    f'then Exc EUndefined {m} else Exc ENotImpl {m})')
            args = ' '.join(str(x) for x in fields)
            out.append({'impl': {'kind': 'exec', 'state': st, 'module': module, 'cls': cls, 'fields': fields},
                        'model': f'(enc_out enc_machine enc_unit ({cls}_execute {statelib.coq_config(cfgd, t)} {args} {m}))',
                        'spec': f'(enc_out enc_machine enc_unit {spec})', 'label': 'coproc_exec_' + cls, 'nontrivial': True})
    return out


def return_cases(rng, tier):
    """SUBS PC, LR (ARM: every data-processing opcode, immediate and register forms; Thumb) from every exception mode with
    arbitrary SPSR contents: the CPSR installed, the instruction set resumed and the branch target"""
    import stepgen
    t = statelib.load_index(C.GEN)['tables']
    out = []
    n_cases = 150 if tier == 'quick' else 6000
    ix = {n: t['sys_names'].index(n) for n in ('cpsr', 'scr', 'sctlr', 'nsacr')}
    spsr_ix = [t['sys_names'].index(n) for n in ('spsr_svc', 'spsr_abt', 'spsr_und', 'spsr_mon', 'spsr_irq', 'spsr_fiq')]
    for ci in range(n_cases):
        cfgd = dict(statelib.DEFAULT_CFG)
        cfgd['have_security_ext'] = rng.random() < 0.8
        cfgd['arch_version'] = rng.choice([6, 7])
        st = statelib.reset_state(t, cfg=cfgd, mem=[])
        thumb = rng.random() < 0.35
        mode = rng.choice([17, 18, 19, 23, 27] + ([22] if cfgd['have_security_ext'] else []))
        st['sys'][ix['cpsr']] = (rng.getrandbits(4) << 28) | (rng.getrandbits(3) << 6) | (int(thumb) << 5) | mode
        st['sys'][ix['scr']] = rng.getrandbits(6)
        st['sys'][ix['nsacr']] = rng.getrandbits(1) << 19
        st['sys'][ix['sctlr']] = (rng.getrandbits(1) << 27) | 0x00C50078
        for i in spsr_ix:
            st['sys'][i] = (rng.getrandbits(27) << 5) | rng.choice([16, 16, 17, 18, 19, 23, 27, 31, 22, rng.getrandbits(5)])
        st['R'] = [rng.getrandbits(32) for _ in range(34)]
        st['opcode'], st['opcode_len'] = (0xE0000000, 32) if not thumb else (0xF3DE8F00, 32)
        hs = int(cfgd['have_security_ext'])
        jaz = int(cfgd['jazelle_accepts_execution'])
        cfg = statelib.coq_config(cfgd, t)
        m = statelib.coq_machine(st)
        if thumb:
            imm = rng.choice([0, 4, 8, rng.getrandbits(8)])
            fields = [0, imm, 14]
            cls, module = 'SubsPcLrThumb', 'subs_pc_lr_thumb'
            spec = f'(Ok tt (SUBS_PC_LR_thumb {jaz} {hs} 0 {m} {imm} 14))'
        else:
            rf = rng.choice([0, 1])
            opc = rng.choice([0, 1, 2, 2, 3, 4, 5, 6, 7, 12, 13, 13, 14, 15])
            n = rng.choice([14, 14, rng.randrange(15)])
            mm = rng.randrange(15)
            sh_t = rng.choice([1, 2, 3, 4, 5])
            sh_n = 1 if sh_t == 5 else rng.choice([0, 1, 31, rng.randrange(32)]) if sh_t in (1, 4) else rng.randrange(1, 33)
            if sh_t == 4 and sh_n == 0:
                sh_n = 1
            imm = rng.choice([0, 4, 8, rng.getrandbits(32)])
            fields = [0, rf, n, opc, mm, ['enum', 'shift', 'SRType', sh_t], sh_n, imm]
            cls, module = 'SubsPcLrArm', 'subs_pc_lr_arm'
            spec = f'(Ok tt (SUBS_PC_LR_arm {jaz} {hs} 0 {m} {rf} {n} {opc} {mm} {sh_t} {sh_n} {imm}))'
        args = ' '.join(str(x[3]) if isinstance(x, list) else str(x) for x in fields)
        model = f'(enc_out enc_machine enc_unit ({cls}_execute {cfg} {args} {m}))'
        out.append({'impl': {'kind': 'exec', 'state': st, 'module': module, 'cls': cls, 'fields': fields},
                    'model': model, 'spec': f'(enc_out enc_machine enc_unit {spec})', 'label': 'return_' + cls, 'nontrivial': True})
    return out


def status_cases(rng, tier):
    """MRS / MSR (application and system level, immediate and register forms) against Spec/StatusAccess.v, from every mode
    with arbitrary SPSR contents, byte masks and operand values"""
    t = statelib.load_index(C.GEN)['tables']
    out = []
    per = 30 if tier == 'quick' else 1500
    ix = {n: t['sys_names'].index(n) for n in ('cpsr', 'scr', 'sctlr', 'nsacr')}
    spsr_ix = [t['sys_names'].index(n) for n in ('spsr_svc', 'spsr_abt', 'spsr_und', 'spsr_mon', 'spsr_irq', 'spsr_fiq')]
    for cls in ('MrsApplication', 'MrsSystem', 'MsrImmediateApplication', 'MsrRegisterApplication', 'MsrImmediateSystem', 'MsrRegisterSystem'):
        for _ in range(per):
            cfgd = dict(statelib.DEFAULT_CFG)
            cfgd['have_security_ext'] = rng.random() < 0.8
            cfgd['arch_version'] = rng.choice([6, 7])
            st = statelib.reset_state(t, cfg=cfgd, mem=[])
            mode = rng.choice([16, 16, 17, 18, 19, 23, 27, 31] + ([22] if cfgd['have_security_ext'] else []))
            st['sys'][ix['cpsr']] = (rng.getrandbits(5) << 27) | (rng.getrandbits(4) << 16) | (rng.getrandbits(4) << 6) | mode
            st['sys'][ix['scr']] = rng.getrandbits(6)
            st['sys'][ix['nsacr']] = rng.getrandbits(1) << 19
            st['sys'][ix['sctlr']] = (rng.getrandbits(1) << 27) | 0x00C50078
            for i in spsr_ix:
                st['sys'][i] = rng.getrandbits(32)
            st['R'] = [rng.getrandbits(32) for _ in range(34)]
            st['opcode'], st['opcode_len'] = 0xE0000000, 32
            hs = int(cfgd['have_security_ext'])
            cfg = statelib.coq_config(cfgd, t)
            m = statelib.coq_machine(st)
            d, n = rng.sample(range(13), 2)
            value = rng.choice([rng.getrandbits(32), 0xFFFFFFFF, 0, (rng.getrandbits(27) << 5) | rng.choice([16, 17, 19, 22, 26, 27, 31, 0, 21])])
            mask = rng.choice([rng.getrandbits(4), 15, 1, 9, 8])
            ws = rng.getrandbits(1)
            wn, wg = rng.choice([(1, 0), (0, 1), (1, 1), (0, 0)])
            if cls == 'MrsApplication':
                fields, cf, spec = [0, d], True, f'(MRS_app {m} {d})'
            elif cls == 'MrsSystem':
                fields, cf, spec = [0, ws, d], True, f'(MRS_sys {m} {ws} {d})'
            elif cls == 'MsrImmediateApplication':
                fields, cf, spec = [0, wn, wg, value], False, f'(MSR_app {m} {wn} {wg} {value})'
            elif cls == 'MsrRegisterApplication':
                fields, cf, spec = [0, wn, wg, n], True, f'(MSR_app {m} {wn} {wg} (rget {m} {n}))'
            elif cls == 'MsrImmediateSystem':
                fields, cf, spec = [0, ws, mask, value], True, f'(MSR_sys (ctx_of {hs} 0 {m}) {m} {ws} {mask} {value})'
            else:
                fields, cf, spec = [0, ws, mask, n], True, f'(MSR_sys (ctx_of {hs} 0 {m}) {m} {ws} {mask} (rget {m} {n}))'
            args = ' '.join(str(x) for x in fields)
            model = f'(enc_out enc_machine enc_unit ({cls}_execute {cfg + " " if cf else ""}{args} {m}))'
            out.append({'impl': {'kind': 'exec', 'state': st, 'module': snake(cls), 'cls': cls, 'fields': fields},
                        'model': model, 'spec': f'(enc_out enc_machine enc_unit (Ok tt {spec}))', 'label': 'status_' + cls, 'nontrivial': True})
    return out


def hint_cases(rng, tier):
    """SETEND, CPS, ERET, NOP, CLREX, YIELD, SEV, WFE, WFI against Spec/StatusAccess.v from every mode, with and without a
    registered event"""
    t = statelib.load_index(C.GEN)['tables']
    out = []
    per = 24 if tier == 'quick' else 1200
    ix = {n: t['sys_names'].index(n) for n in ('cpsr', 'scr', 'sctlr', 'nsacr', 'event_register', 'elr_hyp')}
    spsr_ix = [t['sys_names'].index(n) for n in ('spsr_svc', 'spsr_abt', 'spsr_und', 'spsr_mon', 'spsr_irq', 'spsr_fiq')]
    for cls in ('Nop', 'Clrex', 'Yield', 'Sev', 'Setend', 'Wfe', 'Wfi', 'Eret', 'CpsArm', 'CpsThumb', 'Isb', 'PldImmediate', 'PldLiteral',
                'PldRegister', 'EnterxLeavex', 'Dsb'):
        for _ in range(per):
            cfgd = dict(statelib.DEFAULT_CFG)
            cfgd['have_security_ext'] = rng.random() < 0.8
            cfgd['arch_version'] = rng.choice([6, 7])
            st = statelib.reset_state(t, cfg=cfgd, mem=[])
            thumb = int(cls in ('CpsThumb',) or (cls in ('Eret', 'Setend', 'Nop') and rng.random() < 0.4))
            modes = [17, 18, 19, 23, 27] + ([22] if cfgd['have_security_ext'] else [])
            mode = rng.choice(modes if cls == 'Eret' else modes + [16, 16, 31])
            st['sys'][ix['cpsr']] = (rng.getrandbits(4) << 28) | (rng.getrandbits(4) << 6) | (thumb << 5) | mode
            st['sys'][ix['scr']] = rng.getrandbits(6)
            st['sys'][ix['nsacr']] = rng.getrandbits(1) << 19
            st['sys'][ix['sctlr']] = (rng.getrandbits(1) << 27) | 0x00C50078
            st['sys'][ix['event_register']] = rng.getrandbits(1)
            st['sys'][ix['elr_hyp']] = rng.getrandbits(32)
            for i in spsr_ix:
                st['sys'][i] = (rng.getrandbits(27) << 5) | rng.choice([16, 16, 17, 18, 19, 23, 27, 31, 22, rng.getrandbits(5)])
            st['R'] = [rng.getrandbits(32) for _ in range(34)]
            st['opcode'], st['opcode_len'] = (0xE0000000, 32) if not thumb else (0xF3DE8F00, 32)
            hs, jaz = int(cfgd['have_security_ext']), int(cfgd['jazelle_accepts_execution'])
            cfg = statelib.coq_config(cfgd, t)
            m = statelib.coq_machine(st)
            cf = True
            if cls in ('Nop', 'Clrex'):
                fields, cf, spec = [0], cls == 'Clrex', f'(Ok tt {m})'
            elif cls in ('Yield', 'Sev', 'Isb'):
                fields, cf, spec = [0], False, f'(Exc ENotImpl {m})'
            elif cls == 'Dsb':
                fields, spec = [0, rng.getrandbits(4)], f'(Exc ENotImpl {m})'
            elif cls == 'PldImmediate':
                fields, spec = [0, rng.getrandbits(1), rng.getrandbits(1), rng.randrange(16), rng.getrandbits(12)], f'(Exc ENotImpl {m})'
            elif cls == 'PldLiteral':
                fields, spec = [0, rng.getrandbits(1), rng.getrandbits(12)], f'(Exc ENotImpl {m})'
            elif cls == 'PldRegister':
                fields = [0, rng.getrandbits(1), rng.getrandbits(1), rng.randrange(15), rng.randrange(15), ['enum', 'shift', 'SRType', 1], rng.randrange(4)]
                spec = f'(Exc ENotImpl {m})'
            elif cls == 'EnterxLeavex':
                e = rng.getrandbits(1)
                fields = [0, e]
                spec = (f'(if {e} =? 0 then Ok tt (with_cpsr {m} (SelectInstrSet (cpsr_of {m}) InstrSet_THUMB)) else '
                        f'if mode_of {m} =? 26 then Exc EUndefined {m} else Ok tt (with_cpsr {m} (SelectInstrSet (cpsr_of {m}) InstrSet_THUMBEE)))')
            elif cls == 'Setend':
                e = rng.getrandbits(1)
                fields, cf, spec = [0, e], False, f'(Ok tt (SETEND {m} {e}))'
            elif cls == 'Wfe':
                fields, spec = [0], f'(Ok tt (WFE {m}))'
            elif cls == 'Wfi':
                fields, spec = [0], f'(Ok tt (WFI {m}))'
            elif cls == 'Eret':
                fields, spec = [0], f'(Ok tt (ERET {jaz} {hs} 0 {m}))'
            else:
                if rng.random() < 0.7:
                    imod, a, i, f, cm = rng.choice([2, 3]), rng.getrandbits(1), rng.getrandbits(1), rng.getrandbits(1), rng.getrandbits(1)
                else:
                    imod, a, i, f, cm = 0, 0, 0, 0, 1
                md = rng.choice([16, 17, 18, 19, 22, 23, 26, 27, 31, 0, 21]) if cm else 0
                en, dis = int(imod == 2), int(imod == 3)
                fields = [0, a, i, f, en, dis, cm, md]
                spec = f'(Ok tt (CPS (ctx_of {hs} 0 {m}) {m} {a} {i} {f} {en} {dis} {cm} {md}))'
            args = ' '.join(str(x[3]) if isinstance(x, list) else str(x) for x in fields)
            model = f'(enc_out enc_machine enc_unit ({cls}_execute {cfg + " " if cf else ""}{args} {m}))'
            out.append({'impl': {'kind': 'exec', 'state': st, 'module': snake(cls), 'cls': cls, 'fields': fields},
                        'model': model, 'spec': f'(enc_out enc_machine enc_unit {spec})', 'label': 'hint_' + cls, 'nontrivial': True})
    return out


def snake(name):
    import re
    if name == 'Yield':
        return 'yield_'
    return re.sub(r'(?<!^)(?=[A-Z])', '_', name).lower()


def units():
    thms = ['C12_cpsr_write', 'C12_user_cannot_mask', 'C12_exec_bits_only_on_return', 'C12_never_bad_mode',
            'C12_no_monitor_from_nonsecure', 'C12_nmfi', 'C12_aw', 'C12_fw', 'C12_reserved']
    return [Unit('cpsr_write', thms, ['Proofs/CpsrWrite.v', 'Proofs/ArchFacts.v'],
                 ['registers.Registers.cpsr_write_by_instr'], cpsr_write_cases, IMPORTS, SPEC_IMPORTS),
            Unit('coproc_gate', ['C12_coproc_gate'], ['Proofs/CoprocProofs.v'], ['arm_v6.ArmV6.coproc_accepted'], coproc_cases,
                 IMPORTS, SPEC_IMPORTS + '\nFrom ArmV Require Import Spec.Coproc.'),
            Unit('coproc_exec', ['C12_' + c for c, _, _ in COPROC_CLASSES], ['Proofs/CoprocExec.v', 'Proofs/CoprocProofs.v'],
                 ['opcodes.abstract_opcodes.%s.%s.execute' % (mo, c) for c, mo, _ in COPROC_CLASSES], coproc_exec_cases,
                 IMPORTS + '\nFrom Gen Require Import exec.',
                 SPEC_IMPORTS + '\nFrom ArmV Require Import Lib.PyZ Lib.Monad Spec.Coproc.'),
            Unit('status', ['C12_MrsApplication', 'C12_MsrImmediateApplication', 'C12_MsrRegisterApplication', 'C12_MrsSystem',
                            'C12_spsr_write', 'C12_MsrImmediateSystem', 'C12_MsrRegisterSystem'], ['Proofs/StatusProofs.v'],
                 ['opcodes.abstract_opcodes.%s.%s.execute' % (snake(c), c) for c in
                  ('MrsApplication', 'MrsSystem', 'MsrImmediateApplication', 'MsrRegisterApplication', 'MsrImmediateSystem', 'MsrRegisterSystem')]
                 + ['registers.Registers.spsr_write_by_instr'], status_cases, IMPORTS + '\nFrom Gen Require Import exec.',
                 SPEC_IMPORTS + '\nFrom ArmV Require Import Spec.MachineView Spec.Exceptions Spec.BlockFamily Spec.StatusAccess.'),
            Unit('hints', ['C12_Nop', 'C12_Clrex', 'C12_Yield', 'C12_Sev', 'C12_Setend', 'C12_Wfe', 'C12_Wfi', 'C12_Eret', 'C12_CpsArm',
                           'C12_CpsThumb', 'C12_Isb', 'C12_PldImmediate', 'C12_PldLiteral', 'C12_PldRegister', 'C12_EnterxLeavex', 'C12_Dsb'],
                 ['Proofs/HintProofs.v', 'Proofs/MiscProofs2.v'],
                 ['opcodes.abstract_opcodes.%s.%s.execute' % (snake(c), c) for c in
                  ('Nop', 'Clrex', 'Yield', 'Sev', 'Setend', 'Wfe', 'Wfi', 'Eret', 'CpsArm', 'CpsThumb', 'Isb', 'PldImmediate', 'PldLiteral',
                   'PldRegister', 'EnterxLeavex', 'Dsb')],
                 hint_cases, IMPORTS + '\nFrom Gen Require Import exec.',
                 SPEC_IMPORTS + '\nFrom ArmV Require Import Lib.PyZ Lib.Monad Spec.MachineView Spec.Exceptions Spec.BlockFamily Spec.StatusAccess.'),
            Unit('exception_return', ['C12_SubsPcLrThumb', 'C12_SubsPcLrArm', 'C12_ret_ok_no_virt'], ['Proofs/ReturnProofs.v'],
                 ['opcodes.abstract_opcodes.subs_pc_lr_thumb.SubsPcLrThumb.execute', 'opcodes.abstract_opcodes.subs_pc_lr_arm.SubsPcLrArm.execute'],
                 return_cases, IMPORTS + '\nFrom Gen Require Import exec.',
                 SPEC_IMPORTS + '\nFrom ArmV Require Import Spec.MachineView Spec.Exceptions Spec.BlockFamily Spec.Return.')]
