(* Spec/DecTables.v — hand-written first-match tables of the ARM (A5) and Thumb 16-bit (A6.2) instruction encodings:
   bit pattern (most significant bit first) -> concrete encoding class.  The class numbers are the names generated in
   Gen.opsyn; everything else here is written by hand from the architecture manual.  Row order is priority. *)
From Coq Require Import ZArith List Bool String.
From ArmV Require Import Lib.PyZ Proofs.Cube.
From Gen Require Import bits_ops opsyn.
Import ListNotations.
Open Scope Z_scope.

Local Notation C c := (LRet (Val (Some c))) (only parsing).
Local Notation UNDEF := (LRet (Err EUndefined)) (only parsing).
Local Notation O c := (LRet (Some c)) (only parsing).
Local Notation OO c := (LRet (Some c)) (only parsing).

Definition mul_table : list (entry (res (option Z))) := [
  row "xxxx 0000 000x xxxx xxxx xxxx 1001 xxxx" (C enc_MulA1);
  row "xxxx 0000 001x xxxx xxxx xxxx 1001 xxxx" (C enc_MlaA1);
  row "xxxx 0000 0100 xxxx xxxx xxxx 1001 xxxx" (C enc_UmaalA1);
  row "xxxx 0000 0101 xxxx xxxx xxxx 1001 xxxx" UNDEF;
  row "xxxx 0000 0110 xxxx xxxx xxxx 1001 xxxx" (C enc_MlsA1);
  row "xxxx 0000 0111 xxxx xxxx xxxx 1001 xxxx" UNDEF;
  row "xxxx 0000 100x xxxx xxxx xxxx 1001 xxxx" (C enc_UmullA1);
  row "xxxx 0000 101x xxxx xxxx xxxx 1001 xxxx" (C enc_UmlalA1);
  row "xxxx 0000 110x xxxx xxxx xxxx 1001 xxxx" (C enc_SmullA1);
  row "xxxx 0000 111x xxxx xxxx xxxx 1001 xxxx" (C enc_SmlalA1) ].

Definition mul_domain : string := "xxxx 0000 xxxx xxxx xxxx xxxx 1001 xxxx"%string.

Definition lsw_table : list (entry (option Z)) := [
  row "xxxx 010 10010 1101 xxxx 0000 0000 0100" (O enc_PushA2);             (* STR Rt,[SP,#-4]! *)
  row "xxxx 010 01001 1101 xxxx 0000 0000 0100" (O enc_PopArmA2);           (* LDR Rt,[SP],#4 *)
  row "xxxx 010 0x010 xxxx xxxx xxxx xxxx xxxx" (O enc_StrtA1);
  row "xxxx 010 0x011 xxxx xxxx xxxx xxxx xxxx" (O enc_LdrtA1);
  row "xxxx 010 0x110 xxxx xxxx xxxx xxxx xxxx" (O enc_StrbtA1);
  row "xxxx 010 0x111 xxxx xxxx xxxx xxxx xxxx" (O enc_LdrbtA1);
  row "xxxx 010 xx0x0 xxxx xxxx xxxx xxxx xxxx" (O enc_StrImmediateArmA1);
  row "xxxx 010 xx0x1 1111 xxxx xxxx xxxx xxxx" (O enc_LdrLiteralA1);
  row "xxxx 010 xx0x1 xxxx xxxx xxxx xxxx xxxx" (O enc_LdrImmediateArmA1);
  row "xxxx 010 xx1x0 xxxx xxxx xxxx xxxx xxxx" (O enc_StrbImmediateArmA1);
  row "xxxx 010 xx1x1 1111 xxxx xxxx xxxx xxxx" (O enc_LdrbLiteralA1);
  row "xxxx 010 xx1x1 xxxx xxxx xxxx xxxx xxxx" (O enc_LdrbImmediateArmA1);
  row "xxxx 011 0x010 xxxx xxxx xxxx xxx0 xxxx" (O enc_StrtA2);
  row "xxxx 011 0x011 xxxx xxxx xxxx xxx0 xxxx" (O enc_LdrtA2);
  row "xxxx 011 0x110 xxxx xxxx xxxx xxx0 xxxx" (O enc_StrbtA2);
  row "xxxx 011 0x111 xxxx xxxx xxxx xxx0 xxxx" (O enc_LdrbtA2);
  row "xxxx 011 xx0x0 xxxx xxxx xxxx xxx0 xxxx" (O enc_StrRegisterA1);
  row "xxxx 011 xx0x1 xxxx xxxx xxxx xxx0 xxxx" (O enc_LdrRegisterArmA1);
  row "xxxx 011 xx1x0 xxxx xxxx xxxx xxx0 xxxx" (O enc_StrbRegisterA1);
  row "xxxx 011 xx1x1 xxxx xxxx xxxx xxx0 xxxx" (O enc_LdrbRegisterA1) ].

Definition lsw_domain : string := "xxxx 01xx xxxx xxxx xxxx xxxx xxxx xxxx"%string.

Definition pop_or_ldm (w : Z) : option Z := if bit_count (substring w 15 0) 1 16 <? 2 then Some enc_LdmArmA1 else Some enc_PopArmA1.

Definition push_or_stmdb (w : Z) : option Z := if bit_count (substring w 15 0) 1 16 <? 2 then Some enc_StmdbA1 else Some enc_PushA1.

Definition bbt_env : list (Z -> option Z) := [pop_or_ldm; push_or_stmdb].

Definition bbt_table : list (entry (option Z)) := [
  row "xxxx 10 0000x0 xxxx xxxx xxxx xxxx xxxx" (O enc_StmdaA1);
  row "xxxx 10 0000x1 xxxx xxxx xxxx xxxx xxxx" (O enc_LdmdaA1);
  row "xxxx 10 0010x0 xxxx xxxx xxxx xxxx xxxx" (O enc_StmA1);
  row "xxxx 10 001011 1101 xxxx xxxx xxxx xxxx" (LCall 0);                  (* POP A1 / LDM *)
  row "xxxx 10 0010x1 xxxx xxxx xxxx xxxx xxxx" (O enc_LdmArmA1);
  row "xxxx 10 010010 1101 xxxx xxxx xxxx xxxx" (LCall 1);                  (* PUSH A1 / STMDB *)
  row "xxxx 10 0100x0 xxxx xxxx xxxx xxxx xxxx" (O enc_StmdbA1);
  row "xxxx 10 0100x1 xxxx xxxx xxxx xxxx xxxx" (O enc_LdmdbA1);
  row "xxxx 10 0110x0 xxxx xxxx xxxx xxxx xxxx" (O enc_StmibA1);
  row "xxxx 10 0110x1 xxxx xxxx xxxx xxxx xxxx" (O enc_LdmibA1);
  row "xxxx 10 0xx1x0 xxxx xxxx xxxx xxxx xxxx" (O enc_StmUserRegistersA1);
  row "xxxx 10 0xx1x1 xxxx 0xxx xxxx xxxx xxxx" (O enc_LdmUserRegistersA1);
  row "xxxx 10 0xx1x1 xxxx 1xxx xxxx xxxx xxxx" (O enc_LdmExceptionReturnA1);
  row "xxxx 10 10xxxx xxxx xxxx xxxx xxxx xxxx" (O enc_BA1);
  row "xxxx 10 11xxxx xxxx xxxx xxxx xxxx xxxx" (O enc_BlBlxImmediateA1) ].

Definition bbt_domain : string := "xxxx 10xx xxxx xxxx xxxx xxxx xxxx xxxx"%string.

Definition dpi_table : list (entry (option Z)) := [
  row "xxxx 001 10001 xxxx xxxx xxxx xxxx xxxx" (O enc_TstImmediateA1);
  row "xxxx 001 10011 xxxx xxxx xxxx xxxx xxxx" (O enc_TeqImmediateA1);
  row "xxxx 001 10101 xxxx xxxx xxxx xxxx xxxx" (O enc_CmpImmediateA1);
  row "xxxx 001 10111 xxxx xxxx xxxx xxxx xxxx" (O enc_CmnImmediateA1);
  row "xxxx 001 0010x 1111 xxxx xxxx xxxx xxxx" (O enc_AdrA2);
  row "xxxx 001 0100x 1111 xxxx xxxx xxxx xxxx" (O enc_AdrA1);
  row "xxxx 001 xxxx1 xxxx 1111 xxxx xxxx xxxx" (O enc_SubsPcLrArmA1);       (* S = 1, Rd = PC *)
  row "xxxx 001 0000x xxxx xxxx xxxx xxxx xxxx" (O enc_AndImmediateA1);
  row "xxxx 001 0001x xxxx xxxx xxxx xxxx xxxx" (O enc_EorImmediateA1);
  row "xxxx 001 0010x 1101 xxxx xxxx xxxx xxxx" (O enc_SubSpMinusImmediateA1);
  row "xxxx 001 0010x xxxx xxxx xxxx xxxx xxxx" (O enc_SubImmediateArmA1);
  row "xxxx 001 0011x xxxx xxxx xxxx xxxx xxxx" (O enc_RsbImmediateA1);
  row "xxxx 001 0100x 1101 xxxx xxxx xxxx xxxx" (O enc_AddSpPlusImmediateA1);
  row "xxxx 001 0100x xxxx xxxx xxxx xxxx xxxx" (O enc_AddImmediateArmA1);
  row "xxxx 001 0101x xxxx xxxx xxxx xxxx xxxx" (O enc_AdcImmediateA1);
  row "xxxx 001 0110x xxxx xxxx xxxx xxxx xxxx" (O enc_SbcImmediateA1);
  row "xxxx 001 0111x xxxx xxxx xxxx xxxx xxxx" (O enc_RscImmediateA1);
  row "xxxx 001 1100x xxxx xxxx xxxx xxxx xxxx" (O enc_OrrImmediateA1);
  row "xxxx 001 1101x xxxx xxxx xxxx xxxx xxxx" (O enc_MovImmediateA1);
  row "xxxx 001 1110x xxxx xxxx xxxx xxxx xxxx" (O enc_BicImmediateA1);
  row "xxxx 001 1111x xxxx xxxx xxxx xxxx xxxx" (O enc_MvnImmediateA1) ].

Definition dpi_domains : list string := ["xxxx 001 0xxxx xxxx xxxx xxxx xxxx xxxx"; "xxxx 001 11xxx xxxx xxxx xxxx xxxx xxxx";
                                         "xxxx 001 10xx1 xxxx xxxx xxxx xxxx xxxx"]%string.

Definition t16_table : list (entry (option Z)) := [
  (* A6.2.1 shift (immediate), add, subtract, move, compare *)
  row "000 00 00000 xxx xxx" (OO enc_MovRegisterThumbT2);
  row "000 00 xxxxx xxx xxx" (OO enc_LslImmediateT1);
  row "000 01 xxxxx xxx xxx" (OO enc_LsrImmediateT1);
  row "000 10 xxxxx xxx xxx" (OO enc_AsrImmediateT1);
  row "000 11 00 xxx xxx xxx" (OO enc_AddRegisterThumbT1);
  row "000 11 01 xxx xxx xxx" (OO enc_SubRegisterT1);
  row "000 11 10 xxx xxx xxx" (OO enc_AddImmediateThumbT1);
  row "000 11 11 xxx xxx xxx" (OO enc_SubImmediateThumbT1);
  row "001 00 xxx xxxxxxxx" (OO enc_MovImmediateT1);
  row "001 01 xxx xxxxxxxx" (OO enc_CmpImmediateT1);
  row "001 10 xxx xxxxxxxx" (OO enc_AddImmediateThumbT2);
  row "001 11 xxx xxxxxxxx" (OO enc_SubImmediateThumbT2);
  (* A6.2.2 data processing *)
  row "010000 0000 xxx xxx" (OO enc_AndRegisterT1);
  row "010000 0001 xxx xxx" (OO enc_EorRegisterT1);
  row "010000 0010 xxx xxx" (OO enc_LslRegisterT1);
  row "010000 0011 xxx xxx" (OO enc_LsrRegisterT1);
  row "010000 0100 xxx xxx" (OO enc_AsrRegisterT1);
  row "010000 0101 xxx xxx" (OO enc_AdcRegisterT1);
  row "010000 0110 xxx xxx" (OO enc_SbcRegisterT1);
  row "010000 0111 xxx xxx" (OO enc_RorRegisterT1);
  row "010000 1000 xxx xxx" (OO enc_TstRegisterT1);
  row "010000 1001 xxx xxx" (OO enc_RsbImmediateT1);
  row "010000 1010 xxx xxx" (OO enc_CmpRegisterT1);
  row "010000 1011 xxx xxx" (OO enc_CmnRegisterT1);
  row "010000 1100 xxx xxx" (OO enc_OrrRegisterT1);
  row "010000 1101 xxx xxx" (OO enc_MulT1);
  row "010000 1110 xxx xxx" (OO enc_BicRegisterT1);
  row "010000 1111 xxx xxx" (OO enc_MvnRegisterT1);
  (* A6.2.3 special data instructions and branch and exchange *)
  row "010001 00 x 1101 xxx" (OO enc_AddSpPlusRegisterThumbT1);      (* ADD Rdm, SP, Rdm *)
  row "010001 00 1 xxxx 101" (OO enc_AddSpPlusRegisterThumbT2);      (* ADD SP, Rm *)
  row "010001 00 x xxxx xxx" (OO enc_AddRegisterThumbT2);
  row "010001 01 x xxxx xxx" (OO enc_CmpRegisterT2);
  row "010001 10 x xxxx xxx" (OO enc_MovRegisterThumbT1);
  row "010001 11 0 xxxx xxx" (OO enc_BxT1);
  row "010001 11 1 xxxx xxx" (OO enc_BlxRegisterT1);
  row "01001 xxx xxxxxxxx" (OO enc_LdrLiteralT1);
  (* A6.2.4 load/store single data item *)
  row "0101 000 xxx xxx xxx" (OO enc_StrRegisterT1);
  row "0101 001 xxx xxx xxx" (OO enc_StrhRegisterT1);
  row "0101 010 xxx xxx xxx" (OO enc_StrbRegisterT1);
  row "0101 011 xxx xxx xxx" (OO enc_LdrsbRegisterT1);
  row "0101 100 xxx xxx xxx" (OO enc_LdrRegisterThumbT1);
  row "0101 101 xxx xxx xxx" (OO enc_LdrhRegisterT1);
  row "0101 110 xxx xxx xxx" (OO enc_LdrbRegisterT1);
  row "0101 111 xxx xxx xxx" (OO enc_LdrshRegisterT1);
  row "0110 0 xxxxx xxx xxx" (OO enc_StrImmediateThumbT1);
  row "0110 1 xxxxx xxx xxx" (OO enc_LdrImmediateThumbT1);
  row "0111 0 xxxxx xxx xxx" (OO enc_StrbImmediateThumbT1);
  row "0111 1 xxxxx xxx xxx" (OO enc_LdrbImmediateThumbT1);
  row "1000 0 xxxxx xxx xxx" (OO enc_StrhImmediateThumbT1);
  row "1000 1 xxxxx xxx xxx" (OO enc_LdrhImmediateThumbT1);
  row "1001 0 xxx xxxxxxxx" (OO enc_StrImmediateThumbT2);
  row "1001 1 xxx xxxxxxxx" (OO enc_LdrImmediateThumbT2);
  row "10100 xxx xxxxxxxx" (OO enc_AdrT1);
  row "10101 xxx xxxxxxxx" (OO enc_AddSpPlusImmediateT1);
  (* A6.2.5 miscellaneous 16-bit instructions *)
  row "1011 0000 0 xxxxxxx" (OO enc_AddSpPlusImmediateT2);
  row "1011 0000 1 xxxxxxx" (OO enc_SubSpMinusImmediateT1);
  row "1011 x0x1 xxxxx xxx" (OO enc_CbzT1);
  row "1011 0010 00 xxx xxx" (OO enc_SxthT1);
  row "1011 0010 01 xxx xxx" (OO enc_SxtbT1);
  row "1011 0010 10 xxx xxx" (OO enc_UxthT1);
  row "1011 0010 11 xxx xxx" (OO enc_UxtbT1);
  row "1011 010 x xxxxxxxx" (OO enc_PushT1);
  row "1011 0110 010 xxxxx" (OO enc_SetendT1);
  row "1011 0110 011 xxxxx" (OO enc_CpsThumbT1);
  row "1011 1010 00 xxx xxx" (OO enc_RevT1);
  row "1011 1010 01 xxx xxx" (OO enc_Rev16T1);
  row "1011 1010 11 xxx xxx" (OO enc_RevshT1);
  row "1011 110 x xxxxxxxx" (OO enc_PopThumbT1);
  row "1011 1110 xxxxxxxx" (OO enc_BkptT1);
  row "1011 1111 0000 0000" (OO enc_NopT1);
  row "1011 1111 0001 0000" (OO enc_YieldT1);
  row "1011 1111 0010 0000" (OO enc_WfeT1);
  row "1011 1111 0011 0000" (OO enc_WfiT1);
  row "1011 1111 0100 0000" (OO enc_SevT1);
  row "1011 1111 xxxx 0000" (OO enc_NopT1);                          (* unallocated hints execute as NOP *)
  row "1011 1111 xxxx xxxx" (OO enc_ItT1);
  row "11000 xxx xxxxxxxx" (OO enc_StmT1);
  row "11001 xxx xxxxxxxx" (OO enc_LdmThumbT1);
  (* A6.2.6 conditional branch, and Supervisor Call *)
  row "1101 1110 xxxxxxxx" (OO enc_UdfT1);
  row "1101 1111 xxxxxxxx" (OO enc_SvcT1);
  row "1101 xxxx xxxxxxxx" (OO enc_BT1);
  row "11100 xxxxxxxxxxx" (OO enc_BT2) ].

(* canonical encodings for the correspondence check *)
Definition enc_leaf_opt (l : leaf (option Z)) (env : list (Z -> option Z)) (w : Z) : list Z :=
  match eval_leaf env None l w with Some c => [0; 1; c] | None => [0; 0] end.
Definition enc_leaf_res (l : leaf (res (option Z))) (w : Z) : list Z :=
  match eval_leaf [] (Val None) l w with Val (Some c) => [0; 1; c] | Val None => [0; 0] | Err EUndefined => [2; 6] | Err _ => [2; 7] end.
