(* Spec/Return.v — SUBS PC, LR and related exception-return data-processing forms (B9.3.20) as executable specifications:
   compute the value, CPSRWriteByInstr(SPSR[], '1111', TRUE), BranchWritePC(result).  Compared with the implementation and
   the regenerated model by the correspondence check (no theorem).  Imports nothing generated. *)
From Coq Require Import ZArith List Bool.
From ArmV Require Import Lib.PyZ Lib.Monad Lib.Machine Spec.Pseudocode Spec.Arch Spec.MachineView Spec.BlockTransfer Spec.Exceptions
  Spec.BlockFamily.
Open Scope Z_scope.

Definition not32 (x : Z) : Z := 2 ^ 32 - 1 - x.
Definition awc (x y c : Z) : Z := fst (fst (AddWithCarry 32 x y c)).
(* the data-processing operation selected by opcode (bits 24:21 of the ARM encoding) *)
Definition subs_value (opcode rn op2 c : Z) : Z :=
  match opcode with
  | 0 => Z.land rn op2 | 1 => Z.lxor rn op2 | 2 => awc rn (not32 op2) 1 | 3 => awc (not32 rn) op2 1
  | 4 => awc rn op2 0 | 5 => awc rn op2 c | 6 => awc rn (not32 op2) c | 7 => awc (not32 rn) op2 c
  | 12 => Z.lor rn op2 | 13 => op2 | 14 => Z.land rn (not32 op2) | _ => not32 op2
  end.
Definition SUBS_PC_LR_arm (jaz have_sec have_virt : Z) (s : machine) (register_form n opcode m shift_t shift_n imm32 : Z) : machine :=
  let c := psr_C (cpsr_of s) in
  let op2 := if register_form =? 0 then imm32 else fst (Shift_C 32 (rget s m) shift_t shift_n c) in
  eret_to jaz have_sec have_virt s (get_SPSR s) (subs_value opcode (rget s n) op2 c).
Definition SUBS_PC_LR_thumb (jaz have_sec have_virt : Z) (s : machine) (imm32 n : Z) : machine :=
  eret_to jaz have_sec have_virt s (get_SPSR s) (awc (rget s n) (not32 imm32) 1).
