(* Spec/Misc.v — ADR (A8.8.12): result = Align(PC, 4) +/- imm32.  Hand-written; imports nothing generated. *)
From Coq Require Import ZArith List Bool.
From ArmV Require Import Lib.PyZ Lib.Monad Lib.Machine Spec.Pseudocode Spec.Arch Spec.MachineView.
Open Scope Z_scope.

Definition ADR_value (s : machine) (add imm32 : Z) : Z :=
  if add =? 0 then (Align (rget s 15) 4 - imm32) mod 2 ^ 32 else (Align (rget s 15) 4 + imm32) mod 2 ^ 32.
