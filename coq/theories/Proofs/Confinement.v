(* Proofs/Confinement.v — privilege confinement, the parts that are theorems: a PSR write executed in User mode leaves
   the mode, the interrupt masks and every other system register unchanged; an SVC taken from User mode records User
   in SPSR_svc.M; unprivileged load/store variants access memory with User permissions whatever the current mode. *)
From Coq Require Import ZArith List Bool Lia ZifyBool.
From ArmV Require Import Lib.PyZ Lib.Monad Lib.Machine Spec.Pseudocode Spec.Arch Spec.MachineView Spec.Exceptions
  Proofs.BitLemmas Proofs.SpecFacts Proofs.StateLemmas Proofs.CondProofs Proofs.BankProofs Proofs.CpsrWrite Proofs.ArchFacts
  Proofs.MachineOps Proofs.ExcProofs Proofs.MemProofs.
From Gen Require Import enums bits_ops regviews core.
Import ListNotations.
Open Scope Z_scope.

(* MSR / CPS / SETEND and friends in User mode *)
Theorem user_psr_write cfg value bytemask s : length (sys s) = n_sys -> word (cpsr_of s) -> mode_of s = M_usr ->
  exists s', Registers_cpsr_write_by_instr cfg value bytemask 0 s = Ok tt s' /\
    mode_of s' = M_usr /\ bits (cpsr_of s') 8 6 = bits (cpsr_of s) 8 6 /\
    (forall i, 0 < i -> getl (sys s') i = getl (sys s) i) /\ R s' = R s /\ sysl s' = sysl s /\ mem s' = mem s.
Proof.
  intros HL Hw Hu. rewrite cpsr_write_spec by assumption.
  set (p := CPSRWriteByInstr (sysctx_of cfg s) (cpsr_of s) value bytemask 0). exists (set_cpsr s p).
  destruct (user_cannot_mask (sysctx_of cfg s) (cpsr_of s) value bytemask 0 ltac:(unfold word in Hw; lia) Hu) as [H86 HM].
  split; [reflexivity|]. unfold mode_of, cpsr_of. rewrite cpsr_set_cpsr by exact HL. fold p.
  fold p in H86, HM. split; [rewrite HM; exact Hu|]. split; [exact H86|]. split; [intros i Hi; apply other_set_cpsr; exact Hi|].
  split; [reflexivity|split; reflexivity].
Qed.

(* unprivileged accesses are made with privileged = 0 *)
Theorem unpriv_get_is_user cfg a sz s : ArmV6_mem_u_unpriv_get cfg a sz s = ArmV6_mem_u_with_priv_get cfg a sz 0 s.
Proof. unfold ArmV6_mem_u_unpriv_get. unfold bind, ret. destruct (ArmV6_mem_u_with_priv_get cfg a sz 0 s); reflexivity. Qed.
Theorem unpriv_set_is_user cfg a sz v s : ArmV6_mem_u_unpriv_set cfg a sz v s = ArmV6_mem_u_with_priv_set cfg a sz 0 v s.
Proof. unfold ArmV6_mem_u_unpriv_set. unfold bind, ret. destruct (ArmV6_mem_u_with_priv_set cfg a sz 0 v s) as [[] ?|]; reflexivity. Qed.

(* ---------- an SVC from User mode enters Supervisor mode and records User in SPSR_svc ---------- *)
Record tracked (cfg : config) (m i v : Z) (s : machine) : Prop :=
  { t_ok : xok cfg s; t_mode : mode_of s = m; t_slot : sysv s i = v }.
Lemma sysv_upd_cpsr s f i : 0 < i -> sysv (upd_cpsr s f) i = sysv s i.
Proof. intros Hi. unfold upd_cpsr. apply sysv_with_cpsr. exact Hi. Qed.
Lemma mode_upd_bit cfg s i v : xok cfg s -> 5 <= i < 32 -> 0 <= v <= 1 -> mode_of (upd_cpsr s (setbit i v)) = mode_of s.
Proof.
  intros H Hi Hv. pose proof (ok_cpsr _ _ (x_ctx _ _ H)) as Hw. unfold mode_of, upd_cpsr.
  rewrite cpsr_of_with_cpsr by exact (ok_sys_len _ _ (x_ctx _ _ H)). unfold setbit. apply psr_M_insert_hi; unfold word in Hw; lia.
Qed.
Lemma mode_upd_it cfg s it : xok cfg s -> mode_of (upd_cpsr s (fun p => with_IT p it)) = mode_of s.
Proof.
  intros H. pose proof (ok_cpsr _ _ (x_ctx _ _ H)) as Hw. unfold mode_of, upd_cpsr.
  rewrite cpsr_of_with_cpsr by exact (ok_sys_len _ _ (x_ctx _ _ H)). apply psr_M_with_IT. exact Hw.
Qed.
Lemma tracked_bit cfg m i v s b x : tracked cfg m i v s -> 0 < i -> 5 <= b < 32 -> 0 <= x <= 1 -> tracked cfg m i v (upd_cpsr s (setbit b x)).
Proof.
  intros [H Hm Hs] Hi Hb Hx. split; [apply xok_upd_bit; assumption|rewrite (mode_upd_bit cfg) by assumption; exact Hm|
    rewrite sysv_upd_cpsr by exact Hi; exact Hs].
Qed.
Lemma tracked_it cfg m i v s it : tracked cfg m i v s -> 0 < i -> tracked cfg m i v (upd_cpsr s (fun p => with_IT p it)).
Proof.
  intros [H Hm Hs] Hi. split; [apply xok_upd_it; exact H|rewrite (mode_upd_it cfg) by exact H; exact Hm|
    rewrite sysv_upd_cpsr by exact Hi; exact Hs].
Qed.
Lemma tracked_rset cfg m i v s n x : tracked cfg m i v s -> tracked cfg m i v (rset s n x).
Proof. intros [H Hm Hs]. split; [apply xok_rset; exact H|exact Hm|exact Hs]. Qed.
Lemma tracked_branch cfg m i v s a : tracked cfg m i v s -> tracked cfg m i v (branch_to s a).
Proof. intros [H Hm Hs]. split; [apply xok_branch_to; exact H|exact Hm|exact Hs]. Qed.

Theorem banked_entry_facts cfg x s mode spsr lr tgt i :
  xok cfg s -> 0 <= mode < 32 -> legal_mode cfg mode -> spsr_index mode = Some i -> word spsr ->
  tracked cfg mode i spsr (EnterBankedMode x s mode spsr lr MaskI tgt).
Proof.
  intros H Hm Hl Hi Hw. unfold EnterBankedMode. cbv zeta.
  assert (Hi0 : 0 < i) by (apply (spsr_index_pos mode); exact Hi).
  assert (T1 : tracked cfg mode i spsr (set_SPSR (upd_cpsr s (set_M mode)) spsr)).
  { pose proof (xok_set_mode cfg s mode H Hm Hl) as H1. pose proof (mode_of_set_mode cfg s mode H Hm) as M1.
    split; [apply xok_set_SPSR; assumption| |].
    - unfold set_SPSR. rewrite M1, Hi. unfold mode_of. rewrite cpsr_of_set_sysv by exact Hi0. exact M1.
    - unfold set_SPSR. rewrite M1, Hi. unfold sysv, set_sysv. cbn [sys set_sys]. apply getl_setl_same.
      rewrite (ok_sys_len _ _ (x_ctx _ _ H1)). unfold spsr_index in Hi. unfold n_sys.
      repeat (destruct (_ =? _) in Hi; [inversion Hi; subst; cbv; split; [discriminate|reflexivity]|]). discriminate. }
  apply tracked_branch. apply tracked_bit; [|exact Hi0|lia|apply bit_le1]. apply tracked_bit; [|exact Hi0|lia|apply bit_le1].
  apply tracked_bit; [|exact Hi0|lia|lia]. apply tracked_it; [|exact Hi0]. apply tracked_bit; [|exact Hi0|lia|lia].
  apply tracked_rset. exact T1.
Qed.

(* SVC from User mode, not routed to Hyp mode: Supervisor mode is entered and SPSR_svc holds the interrupted CPSR, whose
   mode field is User *)
Theorem svc_from_user cfg s : xok cfg s -> mode_of s = M_usr ->
  take_to_hyp (xcfg_of cfg) (it_adv s) = false -> tge_route (xcfg_of cfg) (it_adv s) = false ->
  exists s', Registers_take_svc_exception cfg s = Ok tt s' /\ mode_of s' = M_svc /\
             psr_M (sysv s' i_spsr_svc) = M_usr.
Proof.
  intros H Hu Hth Htg. rewrite take_svc_spec by exact H. eexists. split; [reflexivity|].
  unfold TakeSVCException. cbv zeta. rewrite Hth, Htg.
  pose proof (xok_it_adv cfg s H) as H0.
  assert (Mu : mode_of (it_adv s) = M_usr).
  { unfold it_adv, mode_of, upd_cpsr. rewrite cpsr_of_with_cpsr by exact (ok_sys_len _ _ (x_ctx _ _ H)).
    rewrite psr_M_with_IT by exact (ok_cpsr _ _ (x_ctx _ _ H)). exact Hu. }
  assert (Hc : clear_ns_if_mon (it_adv s) = it_adv s).
  { unfold clear_ns_if_mon. rewrite Mu. reflexivity. }
  rewrite Hc.
  destruct (banked_entry_facts cfg (xcfg_of cfg) (it_adv s) M_svc (cpsr_of (it_adv s))
              (if thumb (it_adv s) then sub32 (pc_val (it_adv s)) 2 else sub32 (pc_val (it_adv s)) 4)
              (fun s1 => add32 (ExcVectorBase (xcfg_of cfg) s1) 8) i_spsr_svc H0 ltac:(unfold M_svc; lia) ltac:(reflexivity) ltac:(reflexivity)
              (ok_cpsr _ _ (x_ctx _ _ H0))) as [_ Hm Hs].
  split; [exact Hm|]. rewrite Hs. exact Mu.
Qed.
