(* Props/C06ops2.v — C06: operand extraction of the ARM encodings (shard 2 of 8).
   For every word of the stated domain, from_bitarray returns the class with the fields the encoding diagram
   names, and leaves the state alone.  Statements rendered from harness/optable.py by harness/mkopthm.py. *)
From Coq Require Import ZArith List Bool Lia ZifyBool.
From ArmV Require Import Lib.PyZ Lib.Monad Lib.Machine Spec.Pseudocode Spec.Arch Spec.MachineView Spec.OperandSpec.
From Gen Require Import enums bits_ops shift regviews records hubm opsyn core exec conc.
Import ListNotations.
Open Scope Z_scope.
From ArmV Require Proofs.OpsA2.

Theorem C06_ops_AdcRegisterShiftedRegisterA1 w s :
  0 <= w < 2 ^ 32 ->
  regs13 [bits w 19 16; bits w 15 12; bits w 11 8; bits w 3 0] = true ->
  fb_out (AdcRegisterShiftedRegisterA1_from_bitarray w) s = Ok (Some (code_AdcRegisterShiftedRegister, [w; bit w 20; bits w 3 0; bits w 11 8; bits w 15 12; bits w 19 16; DecodeRegShift (bits w 6 5)])) s.
Proof. exact (OpsA2.ops_AdcRegisterShiftedRegisterA1 w s). Qed.
Print Assumptions C06_ops_AdcRegisterShiftedRegisterA1.

Theorem C06_ops_AndImmediateA1 w s :
  0 <= w < 2 ^ 32 ->
  regs13 [bits w 19 16; bits w 15 12] = true ->
  fb_out (AndImmediateA1_from_bitarray w) s = Ok (Some (code_AndImmediate, [w; bit w 20; bits w 15 12; bits w 19 16; ARMExpandImm (bits w 11 0); snd (ARMExpandImm_C (bits w 11 0) (cflag s))])) s.
Proof. exact (OpsA2.ops_AndImmediateA1 w s). Qed.
Print Assumptions C06_ops_AndImmediateA1.

Theorem C06_ops_BicRegisterA1 w s :
  0 <= w < 2 ^ 32 ->
  regs13 [bits w 19 16; bits w 15 12; bits w 3 0] = true ->
  fb_out (BicRegisterA1_from_bitarray w) s = Ok (Some (code_BicRegister, [w; bit w 20; bits w 3 0; bits w 15 12; bits w 19 16; fst (DecodeImmShift (bits w 6 5) (bits w 11 7)); snd (DecodeImmShift (bits w 6 5) (bits w 11 7))])) s.
Proof. exact (OpsA2.ops_BicRegisterA1 w s). Qed.
Print Assumptions C06_ops_BicRegisterA1.

Theorem C06_ops_ClrexA1 w s :
  0 <= w < 2 ^ 32 ->
  in_it s = false ->
  fb_out (ClrexA1_from_bitarray w) s = Ok (Some (code_Clrex, [w])) s.
Proof. exact (OpsA2.ops_ClrexA1 w s). Qed.
Print Assumptions C06_ops_ClrexA1.

Theorem C06_ops_CpsArmA1 w s :
  0 <= w < 2 ^ 32 ->
  pre_cps_a w = true ->
  fb_out (CpsArmA1_from_bitarray w) s = Ok (Some (code_CpsArm, [w; bit w 8; bit w 7; bit w 6; if bits w 19 18 =? 2 then 1 else 0; if bits w 19 18 =? 3 then 1 else 0; bit w 17; bits w 4 0])) s.
Proof. exact (OpsA2.ops_CpsArmA1 w s). Qed.
Print Assumptions C06_ops_CpsArmA1.

Theorem C06_ops_LdcLdc2LiteralA1 w s :
  0 <= w < 2 ^ 32 ->
  pre_ldc_lit w = true ->
  fb_out (LdcLdc2LiteralA1_from_bitarray w) s = Ok (Some (code_LdcLdc2Literal, [w; bits w 11 8; bit w 23; bits w 7 0 * 4; bit w 24])) s.
Proof. exact (OpsA2.ops_LdcLdc2LiteralA1 w s). Qed.
Print Assumptions C06_ops_LdcLdc2LiteralA1.

Theorem C06_ops_LdrImmediateArmA1 w s :
  0 <= w < 2 ^ 32 ->
  regs13 [bits w 19 16; bits w 15 12] = true ->
  fb_out (LdrImmediateArmA1_from_bitarray w) s = Ok (Some (code_LdrImmediateArm, [w; bit w 23; if (bit w 24 =? 0) || (bit w 21 =? 1) then 1 else 0; bit w 24; bits w 15 12; bits w 19 16; bits w 11 0])) s.
Proof. exact (OpsA2.ops_LdrImmediateArmA1 w s). Qed.
Print Assumptions C06_ops_LdrImmediateArmA1.

Theorem C06_ops_LdrdImmediateA1 w s :
  0 <= w < 2 ^ 32 ->
  pre_dual_a w = true ->
  fb_out (LdrdImmediateA1_from_bitarray w) s = Ok (Some (code_LdrdImmediate, [w; bit w 23; if (bit w 24 =? 0) || (bit w 21 =? 1) then 1 else 0; bit w 24; bits w 11 8 * 16 + bits w 3 0; bits w 15 12; bits w 15 12 + 1; bits w 19 16])) s.
Proof. exact (OpsA2.ops_LdrdImmediateA1 w s). Qed.
Print Assumptions C06_ops_LdrdImmediateA1.

Theorem C06_ops_LdrhLiteralA1 w s :
  0 <= w < 2 ^ 32 ->
  regs13 [bits w 15 12] = true ->
  pre_lit w = true ->
  fb_out (LdrhLiteralA1_from_bitarray w) s = Ok (Some (code_LdrhLiteral, [w; bit w 23; bits w 11 8 * 16 + bits w 3 0; bits w 15 12])) s.
Proof. exact (OpsA2.ops_LdrhLiteralA1 w s). Qed.
Print Assumptions C06_ops_LdrhLiteralA1.

Theorem C06_ops_LdrsbtA2 w s :
  0 <= w < 2 ^ 32 ->
  regs13 [bits w 19 16; bits w 15 12; bits w 3 0] = true ->
  fb_out (LdrsbtA2_from_bitarray w) s = Ok (Some (code_Ldrsbt, [w; bit w 23; 1; 1; bits w 15 12; bits w 19 16; bits w 3 0; 0])) s.
Proof. exact (OpsA2.ops_LdrsbtA2 w s). Qed.
Print Assumptions C06_ops_LdrsbtA2.

Theorem C06_ops_LslImmediateA1 w s :
  0 <= w < 2 ^ 32 ->
  regs13 [bits w 15 12; bits w 3 0] = true ->
  fb_out (LslImmediateA1_from_bitarray w) s = Ok (Some (code_LslImmediate, [w; bit w 20; bits w 3 0; bits w 15 12; snd (DecodeImmShift 0 (bits w 11 7))])) s.
Proof. exact (OpsA2.ops_LslImmediateA1 w s). Qed.
Print Assumptions C06_ops_LslImmediateA1.

Theorem C06_ops_MlaA1 (cfg : config) w s :
  0 <= w < 2 ^ 32 ->
  regs13 [bits w 19 16; bits w 15 12; bits w 11 8; bits w 3 0] = true ->
  fb_out (MlaA1_from_bitarray cfg w) s = Ok (Some (code_Mla, [w; bit w 20; bits w 11 8; bits w 15 12; bits w 19 16; bits w 3 0])) s.
Proof. exact (OpsA2.ops_MlaA1 cfg w s). Qed.
Print Assumptions C06_ops_MlaA1.

Theorem C06_ops_MrrcMrrc2A1 w s :
  0 <= w < 2 ^ 32 ->
  regs13 [bits w 19 16; bits w 15 12] = true ->
  pre_cp_ok w = true ->
  fb_out (MrrcMrrc2A1_from_bitarray w) s = Ok (Some (code_MrrcMrrc2, [w; bits w 11 8; bits w 15 12; bits w 19 16])) s.
Proof. exact (OpsA2.ops_MrrcMrrc2A1 w s). Qed.
Print Assumptions C06_ops_MrrcMrrc2A1.

Theorem C06_ops_MulA1 (cfg : config) w s :
  0 <= w < 2 ^ 32 ->
  regs13 [bits w 19 16; bits w 11 8; bits w 3 0] = true ->
  fb_out (MulA1_from_bitarray cfg w) s = Ok (Some (code_Mul, [w; bit w 20; bits w 11 8; bits w 19 16; bits w 3 0])) s.
Proof. exact (OpsA2.ops_MulA1 cfg w s). Qed.
Print Assumptions C06_ops_MulA1.

Theorem C06_ops_PkhA1 w s :
  0 <= w < 2 ^ 32 ->
  regs13 [bits w 19 16; bits w 15 12; bits w 3 0] = true ->
  fb_out (PkhA1_from_bitarray w) s = Ok (Some (code_Pkh, [w; bit w 6; bits w 3 0; bits w 15 12; bits w 19 16; fst (DecodeImmShift (bit w 6 * 2) (bits w 11 7)); snd (DecodeImmShift (bit w 6 * 2) (bits w 11 7))])) s.
Proof. exact (OpsA2.ops_PkhA1 w s). Qed.
Print Assumptions C06_ops_PkhA1.

Theorem C06_ops_Qadd16A1 w s :
  0 <= w < 2 ^ 32 ->
  regs13 [bits w 19 16; bits w 15 12; bits w 3 0] = true ->
  fb_out (Qadd16A1_from_bitarray w) s = Ok (Some (code_Qadd16, [w; bits w 3 0; bits w 15 12; bits w 19 16])) s.
Proof. exact (OpsA2.ops_Qadd16A1 w s). Qed.
Print Assumptions C06_ops_Qadd16A1.

Theorem C06_ops_Qsub8A1 w s :
  0 <= w < 2 ^ 32 ->
  regs13 [bits w 19 16; bits w 15 12; bits w 3 0] = true ->
  fb_out (Qsub8A1_from_bitarray w) s = Ok (Some (code_Qsub8, [w; bits w 3 0; bits w 15 12; bits w 19 16])) s.
Proof. exact (OpsA2.ops_Qsub8A1 w s). Qed.
Print Assumptions C06_ops_Qsub8A1.

Theorem C06_ops_RorRegisterA1 w s :
  0 <= w < 2 ^ 32 ->
  regs13 [bits w 15 12; bits w 11 8; bits w 3 0] = true ->
  fb_out (RorRegisterA1_from_bitarray w) s = Ok (Some (code_RorRegister, [w; bit w 20; bits w 11 8; bits w 15 12; bits w 3 0])) s.
Proof. exact (OpsA2.ops_RorRegisterA1 w s). Qed.
Print Assumptions C06_ops_RorRegisterA1.

Theorem C06_ops_Sadd16A1 w s :
  0 <= w < 2 ^ 32 ->
  regs13 [bits w 19 16; bits w 15 12; bits w 3 0] = true ->
  fb_out (Sadd16A1_from_bitarray w) s = Ok (Some (code_Sadd16, [w; bits w 3 0; bits w 15 12; bits w 19 16])) s.
Proof. exact (OpsA2.ops_Sadd16A1 w s). Qed.
Print Assumptions C06_ops_Sadd16A1.

Theorem C06_ops_SelA1 w s :
  0 <= w < 2 ^ 32 ->
  regs13 [bits w 19 16; bits w 15 12; bits w 3 0] = true ->
  fb_out (SelA1_from_bitarray w) s = Ok (Some (code_Sel, [w; bits w 3 0; bits w 15 12; bits w 19 16])) s.
Proof. exact (OpsA2.ops_SelA1 w s). Qed.
Print Assumptions C06_ops_SelA1.

Theorem C06_ops_Shsub8A1 w s :
  0 <= w < 2 ^ 32 ->
  regs13 [bits w 19 16; bits w 15 12; bits w 3 0] = true ->
  fb_out (Shsub8A1_from_bitarray w) s = Ok (Some (code_Shsub8, [w; bits w 3 0; bits w 15 12; bits w 19 16])) s.
Proof. exact (OpsA2.ops_Shsub8A1 w s). Qed.
Print Assumptions C06_ops_Shsub8A1.

Theorem C06_ops_SmlsdA1 w s :
  0 <= w < 2 ^ 32 ->
  regs13 [bits w 19 16; bits w 15 12; bits w 11 8; bits w 3 0] = true ->
  fb_out (SmlsdA1_from_bitarray w) s = Ok (Some (code_Smlsd, [w; bit w 5; bits w 11 8; bits w 15 12; bits w 19 16; bits w 3 0])) s.
Proof. exact (OpsA2.ops_SmlsdA1 w s). Qed.
Print Assumptions C06_ops_SmlsdA1.

Theorem C06_ops_SmulwA1 w s :
  0 <= w < 2 ^ 32 ->
  regs13 [bits w 19 16; bits w 11 8; bits w 3 0] = true ->
  fb_out (SmulwA1_from_bitarray w) s = Ok (Some (code_Smulw, [w; bit w 6; bits w 11 8; bits w 19 16; bits w 3 0])) s.
Proof. exact (OpsA2.ops_SmulwA1 w s). Qed.
Print Assumptions C06_ops_SmulwA1.

Theorem C06_ops_StcStc2A1 w s :
  0 <= w < 2 ^ 32 ->
  regs13 [bits w 19 16] = true ->
  pre_ldc w = true ->
  fb_out (StcStc2A1_from_bitarray w) s = Ok (Some (code_StcStc2, [w; bits w 11 8; bits w 19 16; bit w 23; bits w 7 0 * 4; bit w 24; bit w 21])) s.
Proof. exact (OpsA2.ops_StcStc2A1 w s). Qed.
Print Assumptions C06_ops_StcStc2A1.

Theorem C06_ops_StrRegisterA1 (cfg : config) w s :
  0 <= w < 2 ^ 32 ->
  regs13 [bits w 19 16; bits w 15 12; bits w 3 0] = true ->
  fb_out (StrRegisterA1_from_bitarray cfg w) s = Ok (Some (code_StrRegister, [w; bit w 23; if (bit w 24 =? 0) || (bit w 21 =? 1) then 1 else 0; bit w 24; bits w 3 0; bits w 15 12; bits w 19 16; fst (DecodeImmShift (bits w 6 5) (bits w 11 7)); snd (DecodeImmShift (bits w 6 5) (bits w 11 7))])) s.
Proof. exact (OpsA2.ops_StrRegisterA1 cfg w s). Qed.
Print Assumptions C06_ops_StrRegisterA1.

Theorem C06_ops_StrexbA1 w s :
  0 <= w < 2 ^ 32 ->
  regs13 [bits w 19 16; bits w 15 12; bits w 3 0] = true ->
  fb_out (StrexbA1_from_bitarray w) s = Ok (Some (code_Strexb, [w; bits w 3 0; bits w 15 12; bits w 19 16])) s.
Proof. exact (OpsA2.ops_StrexbA1 w s). Qed.
Print Assumptions C06_ops_StrexbA1.

Theorem C06_ops_StrtA2 (cfg : config) w s :
  0 <= w < 2 ^ 32 ->
  regs13 [bits w 19 16; bits w 15 12; bits w 3 0] = true ->
  fb_out (StrtA2_from_bitarray cfg w) s = Ok (Some (code_Strt, [w; bit w 23; 1; 1; bits w 15 12; bits w 19 16; bits w 3 0; fst (DecodeImmShift (bits w 6 5) (bits w 11 7)); snd (DecodeImmShift (bits w 6 5) (bits w 11 7)); 0])) s.
Proof. exact (OpsA2.ops_StrtA2 cfg w s). Qed.
Print Assumptions C06_ops_StrtA2.

Theorem C06_ops_SvcA1 w s :
  0 <= w < 2 ^ 32 ->
  fb_out (SvcA1_from_bitarray w) s = Ok (Some (code_Svc, [w; bits w 23 0])) s.
Proof. exact (OpsA2.ops_SvcA1 w s). Qed.
Print Assumptions C06_ops_SvcA1.

Theorem C06_ops_TeqRegisterA1 w s :
  0 <= w < 2 ^ 32 ->
  regs13 [bits w 19 16; bits w 3 0] = true ->
  fb_out (TeqRegisterA1_from_bitarray w) s = Ok (Some (code_TeqRegister, [w; bits w 3 0; bits w 19 16; fst (DecodeImmShift (bits w 6 5) (bits w 11 7)); snd (DecodeImmShift (bits w 6 5) (bits w 11 7))])) s.
Proof. exact (OpsA2.ops_TeqRegisterA1 w s). Qed.
Print Assumptions C06_ops_TeqRegisterA1.

Theorem C06_ops_UbfxA1 w s :
  0 <= w < 2 ^ 32 ->
  regs13 [bits w 15 12; bits w 3 0] = true ->
  pre_width_fits w = true ->
  fb_out (UbfxA1_from_bitarray w) s = Ok (Some (code_Ubfx, [w; bits w 11 7; bits w 20 16; bits w 15 12; bits w 3 0])) s.
Proof. exact (OpsA2.ops_UbfxA1 w s). Qed.
Print Assumptions C06_ops_UbfxA1.

Theorem C06_ops_Uhsub8A1 w s :
  0 <= w < 2 ^ 32 ->
  regs13 [bits w 19 16; bits w 15 12; bits w 3 0] = true ->
  fb_out (Uhsub8A1_from_bitarray w) s = Ok (Some (code_Uhsub8, [w; bits w 3 0; bits w 15 12; bits w 19 16])) s.
Proof. exact (OpsA2.ops_Uhsub8A1 w s). Qed.
Print Assumptions C06_ops_Uhsub8A1.

Theorem C06_ops_Uqsub16A1 w s :
  0 <= w < 2 ^ 32 ->
  regs13 [bits w 19 16; bits w 15 12; bits w 3 0] = true ->
  fb_out (Uqsub16A1_from_bitarray w) s = Ok (Some (code_Uqsub16, [w; bits w 3 0; bits w 15 12; bits w 19 16])) s.
Proof. exact (OpsA2.ops_Uqsub16A1 w s). Qed.
Print Assumptions C06_ops_Uqsub16A1.

Theorem C06_ops_Usub8A1 w s :
  0 <= w < 2 ^ 32 ->
  regs13 [bits w 19 16; bits w 15 12; bits w 3 0] = true ->
  fb_out (Usub8A1_from_bitarray w) s = Ok (Some (code_Usub8, [w; bits w 3 0; bits w 15 12; bits w 19 16])) s.
Proof. exact (OpsA2.ops_Usub8A1 w s). Qed.
Print Assumptions C06_ops_Usub8A1.

Theorem C06_ops_WfiA1 w s :
  0 <= w < 2 ^ 32 ->
  in_it s = false ->
  fb_out (WfiA1_from_bitarray w) s = Ok (Some (code_Wfi, [w])) s.
Proof. exact (OpsA2.ops_WfiA1 w s). Qed.
Print Assumptions C06_ops_WfiA1.
