(* Proofs/StepInstancesThumb.v — GENERATED text (one block per encoding, same script): SUB (immediate) T1 and ADD / SUB
   (8-bit immediate) T2, the 16-bit Thumb encodings whose flag setting depends on the IT position, end to end. *)
Set Default Timeout 240.
From Coq Require Import ZArith List Bool Lia ZifyBool.
From ArmV Require Import Lib.PyZ Lib.Monad Lib.Machine Spec.Pseudocode Spec.Arch Spec.MachineView Spec.Branches Spec.StepFrame
  Spec.OperandSpec Spec.DPSem
  Proofs.SpecFacts Proofs.StateLemmas Proofs.CondProofs Proofs.GuardProofs Proofs.BankProofs Proofs.MachineOps Proofs.DPLemmas
  Proofs.DPClasses0 Proofs.DPClasses1 Proofs.DPClasses2 Proofs.DPClasses3 Proofs.DPClasses4 Proofs.DPClasses5 Proofs.DPClasses6 Proofs.DPClasses7
  Proofs.StepProofs Proofs.StepDP Proofs.StepInstances Proofs.OpTac
  Proofs.OpsT0 Proofs.OpsT1 Proofs.OpsT2 Proofs.OpsT3 Proofs.OpsT4 Proofs.OpsT5 Proofs.OpsT6 Proofs.OpsT7.
From Gen Require Import enums bits_ops shift regviews records hubm opsyn core exec conc decoders step.
Import ListNotations.
Open Scope Z_scope.
Ltac Zify.zify_post_hook ::= Z.to_euclidean_division_equations.

(* ================= SubImmediateThumbT1 ================= *)
Definition is_subImmediateThumbT1 (w : Z) : Prop := bits w 15 14 = 0 /\ bits w 13 9 = 15.
Lemma decode_SubImmediateThumbT1 w s : 0 <= w < 2 ^ 16 -> is_subImmediateThumbT1 w -> iset_of s = 1 -> opcode_len s = 16 ->
  ArmV6_decode_instruction w s = Ok (Some enc_SubImmediateThumbT1) s.
Proof.
  intros Hw (H1 & H2) Hi Hl.
  unfold ArmV6_decode_instruction, op_decode_instruction.
  rewrite !run_bind, current_instr_set_spec. cbv beta iota. rewrite Hi. unfold InstrSet_ARM, InstrSet_THUMB. cbn [Z.eqb]. cbv iota.
  rewrite o_cur_iset. rewrite Hi. cbn [Z.eqb Pos.eqb]. cbv iota.
  unfold dec_thumb_instruction_set, ArmV6_this_instr_length, get_opcode_len. unfold bind, ret. rewrite Hl. cbn [Z.eqb Pos.eqb]. cbv iota.
  assert (D : dec_thumb_instruction_set_encoding_16_bit w = Some enc_SubImmediateThumbT1).
  { dec_step dec_thumb_instruction_set_encoding_16_bit. ops_if.
    dec_step dec_thumb_shift_immediate_add_subtract_move_and_compare. pose_expand w 13 11. pose_expand w 13 9. ops_if. reflexivity. }
  rewrite D. reflexivity.
Qed.
Lemma from_bitarray_SubImmediateThumbT1 cfg w s : 0 <= w < 2 ^ 16 ->
  from_bitarray_dispatch cfg enc_SubImmediateThumbT1 w s = Ok (Some (code_SubImmediateThumb, [w; not_in_it s; bits w 2 0; bits w 5 3; bits w 8 6])) s.
Proof.
  intros Hw. pose proof (ops_SubImmediateThumbT1 w s Hw) as H. unfold fb_out, fb_m in H.
  unfold from_bitarray_dispatch, enc_SubImmediateThumbT1. cbv iota. unfold bind, ret.
  destruct (SubImmediateThumbT1_from_bitarray w s) as [v s'|e s']; [|discriminate H].
  inversion H. reflexivity.
Qed.
Theorem subImmediateThumbT1_step cfg s w s1 :
  ArmV6_fetch_instruction cfg s = Ok w s1 ->
  0 <= w < 2 ^ 16 -> is_subImmediateThumbT1 w -> iset_of s1 = 1 -> opcode_len s1 = 16 -> ictx cfg s1 -> cond_holds s1 ->
  let d := bits w 2 0 in let n := bits w 5 3 in let imm32 := bits w 8 6 in
  let op := (code_SubImmediateThumb, [w; not_in_it s1; d; n; imm32]) in
  exists s2,
    dp_sem cfg SUB (not_in_it s1) (Some d) n (Op2Imm imm32 0) (begin_instr s1 op) = Ok tt s2 /\
    ArmV6_emulate_cycle cfg s = Ok tt (AdvancePC (it_step_after s1 s2)) /\
    pc_of (AdvancePC (it_step_after s1 s2)) = add32 (pc_of s1) 2.
Proof.
  intros Hf Hw Hcube Hi Hl Hctx Hcond. pose_all_ranges. intros d n imm32 op.
  assert (Rd : 0 <= d <= 14) by (unfold d; lia). assert (Rn : 0 <= n <= 15) by (unfold n; lia).
  assert (Wi : word imm32) by (unfold word, imm32; lia).
  destruct (dp_imm_step cfg s w s1 enc_SubImmediateThumbT1 op SUB (not_in_it s1) d n imm32 0 Hf) as (s2 & A & B & C);
    try lia; try assumption.
  - apply decode_SubImmediateThumbT1; assumption.
  - apply from_bitarray_SubImmediateThumbT1; assumption.
  - change (execute_dispatch cfg op (begin_instr s1 op)) with (SubImmediateThumb_execute cfg w (not_in_it s1) d n imm32 (begin_instr s1 op)).
    apply SubImmediateThumb_sem; try lia; [apply ictx_begin; exact Hctx|apply cond_holds_begin; exact Hcond|exact Wi].
  - exists s2. split; [exact A|]. split; [exact B|]. rewrite C, Hl. reflexivity.
Qed.

(* ================= AddImmediateThumbT2 ================= *)
Definition is_addImmediateThumbT2 (w : Z) : Prop := bits w 15 14 = 0 /\ bits w 13 11 = 6.
Lemma decode_AddImmediateThumbT2 w s : 0 <= w < 2 ^ 16 -> is_addImmediateThumbT2 w -> iset_of s = 1 -> opcode_len s = 16 ->
  ArmV6_decode_instruction w s = Ok (Some enc_AddImmediateThumbT2) s.
Proof.
  intros Hw (H1 & H2) Hi Hl.
  unfold ArmV6_decode_instruction, op_decode_instruction.
  rewrite !run_bind, current_instr_set_spec. cbv beta iota. rewrite Hi. unfold InstrSet_ARM, InstrSet_THUMB. cbn [Z.eqb]. cbv iota.
  rewrite o_cur_iset. rewrite Hi. cbn [Z.eqb Pos.eqb]. cbv iota.
  unfold dec_thumb_instruction_set, ArmV6_this_instr_length, get_opcode_len. unfold bind, ret. rewrite Hl. cbn [Z.eqb Pos.eqb]. cbv iota.
  assert (D : dec_thumb_instruction_set_encoding_16_bit w = Some enc_AddImmediateThumbT2).
  { dec_step dec_thumb_instruction_set_encoding_16_bit. ops_if.
    dec_step dec_thumb_shift_immediate_add_subtract_move_and_compare. pose_expand w 13 11. pose_expand w 13 9. ops_if. reflexivity. }
  rewrite D. reflexivity.
Qed.
Lemma from_bitarray_AddImmediateThumbT2 cfg w s : 0 <= w < 2 ^ 16 ->
  from_bitarray_dispatch cfg enc_AddImmediateThumbT2 w s = Ok (Some (code_AddImmediateThumb, [w; not_in_it s; bits w 10 8; bits w 10 8; bits w 7 0])) s.
Proof.
  intros Hw. pose proof (ops_AddImmediateThumbT2 w s Hw) as H. unfold fb_out, fb_m in H.
  unfold from_bitarray_dispatch, enc_AddImmediateThumbT2. cbv iota. unfold bind, ret.
  destruct (AddImmediateThumbT2_from_bitarray w s) as [v s'|e s']; [|discriminate H].
  inversion H. reflexivity.
Qed.
Theorem addImmediateThumbT2_step cfg s w s1 :
  ArmV6_fetch_instruction cfg s = Ok w s1 ->
  0 <= w < 2 ^ 16 -> is_addImmediateThumbT2 w -> iset_of s1 = 1 -> opcode_len s1 = 16 -> ictx cfg s1 -> cond_holds s1 ->
  let d := bits w 10 8 in let n := bits w 10 8 in let imm32 := bits w 7 0 in
  let op := (code_AddImmediateThumb, [w; not_in_it s1; d; n; imm32]) in
  exists s2,
    dp_sem cfg ADD (not_in_it s1) (Some d) n (Op2Imm imm32 0) (begin_instr s1 op) = Ok tt s2 /\
    ArmV6_emulate_cycle cfg s = Ok tt (AdvancePC (it_step_after s1 s2)) /\
    pc_of (AdvancePC (it_step_after s1 s2)) = add32 (pc_of s1) 2.
Proof.
  intros Hf Hw Hcube Hi Hl Hctx Hcond. pose_all_ranges. intros d n imm32 op.
  assert (Rd : 0 <= d <= 14) by (unfold d; lia). assert (Rn : 0 <= n <= 15) by (unfold n; lia).
  assert (Wi : word imm32) by (unfold word, imm32; lia).
  destruct (dp_imm_step cfg s w s1 enc_AddImmediateThumbT2 op ADD (not_in_it s1) d n imm32 0 Hf) as (s2 & A & B & C);
    try lia; try assumption.
  - apply decode_AddImmediateThumbT2; assumption.
  - apply from_bitarray_AddImmediateThumbT2; assumption.
  - change (execute_dispatch cfg op (begin_instr s1 op)) with (AddImmediateThumb_execute cfg w (not_in_it s1) d n imm32 (begin_instr s1 op)).
    apply AddImmediateThumb_sem; try lia; [apply ictx_begin; exact Hctx|apply cond_holds_begin; exact Hcond|exact Wi].
  - exists s2. split; [exact A|]. split; [exact B|]. rewrite C, Hl. reflexivity.
Qed.

(* ================= SubImmediateThumbT2 ================= *)
Definition is_subImmediateThumbT2 (w : Z) : Prop := bits w 15 14 = 0 /\ bits w 13 11 = 7.
Lemma decode_SubImmediateThumbT2 w s : 0 <= w < 2 ^ 16 -> is_subImmediateThumbT2 w -> iset_of s = 1 -> opcode_len s = 16 ->
  ArmV6_decode_instruction w s = Ok (Some enc_SubImmediateThumbT2) s.
Proof.
  intros Hw (H1 & H2) Hi Hl.
  unfold ArmV6_decode_instruction, op_decode_instruction.
  rewrite !run_bind, current_instr_set_spec. cbv beta iota. rewrite Hi. unfold InstrSet_ARM, InstrSet_THUMB. cbn [Z.eqb]. cbv iota.
  rewrite o_cur_iset. rewrite Hi. cbn [Z.eqb Pos.eqb]. cbv iota.
  unfold dec_thumb_instruction_set, ArmV6_this_instr_length, get_opcode_len. unfold bind, ret. rewrite Hl. cbn [Z.eqb Pos.eqb]. cbv iota.
  assert (D : dec_thumb_instruction_set_encoding_16_bit w = Some enc_SubImmediateThumbT2).
  { dec_step dec_thumb_instruction_set_encoding_16_bit. ops_if.
    dec_step dec_thumb_shift_immediate_add_subtract_move_and_compare. pose_expand w 13 11. pose_expand w 13 9. ops_if. reflexivity. }
  rewrite D. reflexivity.
Qed.
Lemma from_bitarray_SubImmediateThumbT2 cfg w s : 0 <= w < 2 ^ 16 ->
  from_bitarray_dispatch cfg enc_SubImmediateThumbT2 w s = Ok (Some (code_SubImmediateThumb, [w; not_in_it s; bits w 10 8; bits w 10 8; bits w 7 0])) s.
Proof.
  intros Hw. pose proof (ops_SubImmediateThumbT2 w s Hw) as H. unfold fb_out, fb_m in H.
  unfold from_bitarray_dispatch, enc_SubImmediateThumbT2. cbv iota. unfold bind, ret.
  destruct (SubImmediateThumbT2_from_bitarray w s) as [v s'|e s']; [|discriminate H].
  inversion H. reflexivity.
Qed.
Theorem subImmediateThumbT2_step cfg s w s1 :
  ArmV6_fetch_instruction cfg s = Ok w s1 ->
  0 <= w < 2 ^ 16 -> is_subImmediateThumbT2 w -> iset_of s1 = 1 -> opcode_len s1 = 16 -> ictx cfg s1 -> cond_holds s1 ->
  let d := bits w 10 8 in let n := bits w 10 8 in let imm32 := bits w 7 0 in
  let op := (code_SubImmediateThumb, [w; not_in_it s1; d; n; imm32]) in
  exists s2,
    dp_sem cfg SUB (not_in_it s1) (Some d) n (Op2Imm imm32 0) (begin_instr s1 op) = Ok tt s2 /\
    ArmV6_emulate_cycle cfg s = Ok tt (AdvancePC (it_step_after s1 s2)) /\
    pc_of (AdvancePC (it_step_after s1 s2)) = add32 (pc_of s1) 2.
Proof.
  intros Hf Hw Hcube Hi Hl Hctx Hcond. pose_all_ranges. intros d n imm32 op.
  assert (Rd : 0 <= d <= 14) by (unfold d; lia). assert (Rn : 0 <= n <= 15) by (unfold n; lia).
  assert (Wi : word imm32) by (unfold word, imm32; lia).
  destruct (dp_imm_step cfg s w s1 enc_SubImmediateThumbT2 op SUB (not_in_it s1) d n imm32 0 Hf) as (s2 & A & B & C);
    try lia; try assumption.
  - apply decode_SubImmediateThumbT2; assumption.
  - apply from_bitarray_SubImmediateThumbT2; assumption.
  - change (execute_dispatch cfg op (begin_instr s1 op)) with (SubImmediateThumb_execute cfg w (not_in_it s1) d n imm32 (begin_instr s1 op)).
    apply SubImmediateThumb_sem; try lia; [apply ictx_begin; exact Hctx|apply cond_holds_begin; exact Hcond|exact Wi].
  - exists s2. split; [exact A|]. split; [exact B|]. rewrite C, Hl. reflexivity.
Qed.
