#!/venv/bin/python
"""developer helper: list operand-table disagreements (implementation vs table) per class.  usage: opdiff.py arm|thumb [per]"""
import sys, os, random, collections
sys.path.insert(0, os.path.dirname(os.path.abspath(__file__)))
import common as C, framework, opgen, statelib
arm = sys.argv[1] == 'arm'
tier = sys.argv[2] if len(sys.argv) > 2 else 'quick'
rng = random.Random(int(sys.argv[3]) if len(sys.argv) > 3 else 5)
cs = opgen.operand_cases(rng, tier, arm)
impl = framework.run_impl([c['impl'] for c in cs], 'opdiff')
spec = C.coq_eval([c['spec'] for c in cs], 'From ArmV Require Import Spec.Pseudocode.', 'opdiff')
idx = statelib.load_index(C.GEN)['tables']
seen = collections.Counter()
for c, i, s in zip(cs, impl, spec):
    if i != s:
        cls = c['impl']['cls']
        seen[cls] += 1
        if seen[cls] <= 2:
            names = idx['opcode_classes'][idx['concrete_classes'][cls]['abstract']]['fields']
            print(cls, hex(c['impl']['instr']), 'fields', names)
            print('   impl', i)
            print('   spec', s)
print(dict(seen))
