"""C17 — bit-vector helpers and register field views."""
import itertools
import json
import os
import common as C
from framework import Unit

CORN32 = [0, 1, 2, 0x7F, 0x80, 0xFF, 0x7FFF, 0x8000, 0xFFFF, 0x7FFFFFFF, 0x80000000, 0xFFFFFFFC, 0xFFFFFFFF,
          0x12345678, 0xDEADBEEF, 0xAAAAAAAA, 0x55555555]
SPEC_IMPORTS = 'From ArmV Require Import Spec.Pseudocode Spec.Expected.'
IMPORTS = 'From ArmV Require Import Spec.Pseudocode Spec.Expected.\nFrom Gen Require Import enums bits_ops shift.'


def enc_of(rt):
    k = rt[0]
    if k == 'Z':
        return 'enc_Z'
    if k == 'unit':
        return 'enc_unit'
    if k == 'tup':
        e = enc_of(rt[1][0])
        for t in rt[1][1:]:
            e = f'(enc_pair {e} {enc_of(t)})'
        return e
    if k == 'opt':
        return f'(enc_opt {enc_of(rt[1])})'
    if k == 'bytes':
        return 'enc_list'
    raise ValueError(rt)


def small(widths):
    for N in widths:
        for x in range(2 ** N):
            yield N, x


def rnd32(rng, n):
    for _ in range(n):
        yield rng.choice(CORN32) if rng.random() < 0.4 else rng.getrandbits(32)


# ---- argument generators; each yields python argument tuples for the helper
def g_add(rng, tier):
    for N, x in small(range(1, 5)):
        for y in range(2 ** N):
            yield (x, y, N)
    for a in CORN32[:13]:
        for b in (0, 1, 4, 0xFFFFFFFF, 0x80000000):
            yield (a, b, 32)
    for _ in range(60 if tier == 'quick' else 2000):
        yield (rng.getrandbits(32), rng.getrandbits(32), rng.choice([8, 16, 32, 64]))


def g_x_N(rng, tier):          # (x, N) with x in range
    for N, x in small(range(1, 8)):
        yield (x, N)
    for x in CORN32:
        yield (x, 32)
    for _ in range(60 if tier == 'quick' else 2000):
        N = rng.choice([16, 32, 64])
        yield (rng.getrandbits(N), N)


def g_sign_extend(rng, tier):
    for N, x in small(range(1, 6)):
        for M in (N, N + 1, N + 3, 32):
            yield (x, N, M)
    for x in CORN32:
        yield (x & 0xFFFF, 16, 32)
        yield (x & 0xFF, 8, 32)
        yield (x, 32, 64)


def g_awc(rng, tier):
    for N, x in small(range(1, 5)):
        for y in range(2 ** N):
            for c in (0, 1):
                yield (x, y, c, N)
    for x in CORN32[:13]:
        for y in CORN32[:13]:
            for c in (0, 1):
                yield (x, y, c, 32)
    for _ in range(100 if tier == 'quick' else 5000):
        yield (rng.getrandbits(32), rng.getrandbits(32), rng.getrandbits(1), 32)


def g_sat(rng, tier):
    for n in range(1, 9):
        for i in range(-2 ** n - 2, 2 ** n + 3):
            yield (i, n)
    for n in (16, 32):
        for i in (-2 ** (n - 1) - 1, -2 ** (n - 1), -1, 0, 1, 2 ** (n - 1) - 1, 2 ** (n - 1), 2 ** n - 1, 2 ** n, 2 ** 40, -2 ** 40):
            yield (i, n)


def g_substring(rng, tier):
    for x in (0, 1, 0xA5, 0xFF, 0x12345678, 0xFFFFFFFF, 2 ** 64 - 1):
        for hi in (0, 1, 3, 7, 15, 31, 63):
            for lo in (0, 1, 3, 7, 31):
                if lo <= hi:
                    yield (x, hi, lo)
    for _ in range(100 if tier == 'quick' else 3000):
        hi = rng.randrange(0, 64)
        lo = rng.randrange(0, hi + 1)
        yield (rng.getrandbits(64), hi, lo)


def g_bit_at(rng, tier):
    for x in (0, 1, 0xA5, 0x80000000, 0xFFFFFFFF):
        for i in (0, 1, 7, 31, 32, 63):
            yield (x, i)


def g_set_substring(rng, tier):
    for x in (0, 0xA5, 0x12345678, 0xFFFFFFFF):
        for hi in (0, 3, 7, 15, 31):
            for lo in (0, 1, 7, 31):
                if lo <= hi:
                    w = hi - lo + 1
                    for v in {0, 1, (1 << w) - 1, (0x5A5A5A5A & ((1 << w) - 1))}:
                        if v < (1 << w):
                            yield (x, hi, lo, v)
    for _ in range(100 if tier == 'quick' else 3000):
        hi = rng.randrange(0, 64)
        lo = rng.randrange(0, hi + 1)
        yield (rng.getrandbits(64), hi, lo, rng.getrandbits(hi - lo + 1))


def g_set_bit_at(rng, tier):
    for x in (0, 0xA5, 0xFFFFFFFF):
        for i in (0, 5, 31):
            for v in (0, 1):
                yield (x, i, v)


def g_chain(rng, tier):
    for h in (0, 1, 0xF, 0xABC):
        for l in (0, 1, 0xFF):
            for k in (0, 1, 8, 16):
                yield (h, l, k)


def g_bit_not(rng, tier):
    for N, x in small(range(1, 7)):
        yield (x, N)
    for x in CORN32:
        yield (x, 32)


def g_bit_count(rng, tier):
    for N, x in small(range(1, 8)):
        yield (x, 1, N)
    for x in CORN32:
        yield (x, 1, 32)
        yield (x & 0xFFFF, 1, 16)


def g_low16(rng, tier):
    for x in range(0, 64):
        yield (x, 32)
    for k in range(16):
        yield (1 << k, 32)
        yield ((0xFFFF << k) & 0xFFFF, 32)
    for _ in range(60 if tier == 'quick' else 3000):
        yield (rng.getrandbits(16), 32)


def g_align(rng, tier):
    for x in (0, 1, 3, 4, 5, 7, 8, 0xFFFFFFFF, 0x1003):
        for y in (1, 2, 4, 8):
            yield (x, y)


def g_ber(rng, tier):
    for n in (1, 2, 4, 8):
        for v in (0, 1, 0x12, 0x1234, 0x12345678, 0x123456789ABCDEF0, 2 ** (8 * n) - 1):
            yield (v & (2 ** (8 * n) - 1), n)
    for n in (0, 3, 5, 16):
        yield (0x1234, n)
    for _ in range(40 if tier == 'quick' else 2000):
        n = rng.choice([1, 2, 4, 8])
        yield (rng.getrandbits(8 * n), n)


def g_shiftc(rng, tier):       # (x, N, n)
    for N, x in small(range(1, 6)):
        for n in range(0, 2 * N + 3):
            yield (x, N, n)
    for x in CORN32:
        for n in (0, 1, 2, 31, 32, 33, 63, 64, 255):
            yield (x, 32, n)
    for _ in range(50 if tier == 'quick' else 3000):
        yield (rng.getrandbits(32), 32, rng.randrange(0, 256))
    yield (5, 8, -1)


def g_rrx(rng, tier):
    for N, x in small(range(1, 6)):
        for c in (0, 1):
            yield (x, N, c)
    for x in CORN32:
        for c in (0, 1):
            yield (x, 32, c)


def g_shift_c(rng, tier):      # (value, N, type, amount, carry)
    for N, x in small(range(1, 5)):
        for t in (1, 2, 3, 4):
            for n in range(0, 2 * N + 2):
                for c in (0, 1):
                    yield (x, N, t, n, c)
        for c in (0, 1):
            yield (x, N, 5, 1, c)
    for x in CORN32[:13]:
        for t in (1, 2, 3, 4):
            for n in (0, 1, 31, 32, 33, 255):
                for c in (0, 1):
                    yield (x, 32, t, n, c)
        yield (x, 32, 5, 1, 1)
        yield (x, 32, 5, 2, 1)
        yield (x, 32, 5, 0, 0)


def g_dis(rng, tier):
    for t in range(-1, 6):
        for imm5 in range(32):
            yield (t, imm5)


def g_drs(rng, tier):
    for t in range(-1, 6):
        yield (t,)


def g_imm12c(rng, tier):
    step = 1 if tier == 'thorough' else 1
    for imm12 in range(0, 4096, step):
        for c in (0, 1):
            yield (imm12, c)


def g_imm12(rng, tier):
    for imm12 in range(0, 4096):
        yield (imm12,)


# rows: fn, module, generator, spec function (arguments in the same order unless argmap), spec result kind
#   spec kind: 'pure' -> enc_pure, 'res' -> enc_res
ROWS = [
    ('add', 'bits_ops', g_add, 'exp_add', None, 'pure', ['C17_add', 'C17_add_range']),
    ('sub', 'bits_ops', g_add, 'exp_sub', None, 'pure', ['C17_sub']),
    ('to_signed', 'bits_ops', g_x_N, 'exp_to_signed', None, 'pure', ['C17_to_signed']),
    ('sign_extend', 'bits_ops', g_sign_extend, 'exp_sign_extend', None, 'pure', ['C17_sign_extend']),
    ('add_with_carry', 'bits_ops', g_awc, 'exp_add_with_carry', None, 'pure', ['C17_add_with_carry']),
    ('signed_sat_q', 'bits_ops', g_sat, 'exp_signed_sat_q', None, 'pure', ['C17_signed_sat_q']),
    ('unsigned_sat_q', 'bits_ops', g_sat, 'exp_unsigned_sat_q', None, 'pure', ['C17_unsigned_sat_q']),
    ('substring', 'bits_ops', g_substring, 'exp_substring', None, 'pure', ['C17_substring']),
    ('bit_at', 'bits_ops', g_bit_at, 'exp_bit_at', None, 'pure', ['C17_bit_at']),
    ('set_substring', 'bits_ops', g_set_substring, 'exp_set_substring', None, 'pure',
     ['C17_set_substring', 'C17_set_substring_get_same', 'C17_set_substring_get_other']),
    ('set_bit_at', 'bits_ops', g_set_bit_at, 'exp_set_bit_at', None, 'pure', ['C17_set_bit_at']),
    ('chain', 'bits_ops', g_chain, 'exp_chain', None, 'pure', ['C17_chain']),
    ('bit_not', 'bits_ops', g_bit_not, 'exp_bit_not', None, 'pure', ['C17_bit_not']),
    ('bit_count', 'bits_ops', g_bit_count, 'exp_bit_count', None, 'pure', ['C17_bit_count']),
    ('is_ones', 'bits_ops', g_x_N, 'exp_is_ones', None, 'pure', ['C17_is_ones']),
    ('lowest_set_bit_ref', 'bits_ops', g_low16, 'exp_lowest_set_bit', None, 'pure', ['C17_lowest_set_bit']),
    ('align', 'bits_ops', g_align, 'exp_align', None, 'pure', ['C17_align']),
    ('big_endian_reverse', 'bits_ops', g_ber, 'exp_big_endian_reverse', None, 'res', ['C17_big_endian_reverse']),
    ('lsl_c', 'shift', g_shiftc, 'exp_lsl_c', None, 'res', ['C17_lsl_c', 'C17_lsl_c_rejects']),
    ('lsr_c', 'shift', g_shiftc, 'exp_lsr_c', None, 'res', ['C17_lsr_c']),
    ('asr_c', 'shift', g_shiftc, 'exp_asr_c', None, 'res', ['C17_asr_c']),
    ('ror_c', 'shift', g_shiftc, 'exp_ror_c', None, 'res', ['C17_ror_c']),
    ('rrx_c', 'shift', g_rrx, 'exp_rrx_c', None, 'pure', ['C17_rrx_c']),
    ('shift_c', 'shift', g_shift_c, 'exp_shift_c', None, 'res', ['C17_shift_c', 'C17_shift_c_rejects']),
    ('decode_imm_shift', 'shift', g_dis, 'exp_decode_imm_shift', None, 'res', ['C17_decode_imm_shift']),
    ('decode_reg_shift', 'shift', g_drs, 'exp_decode_reg_shift', None, 'res', ['C17_decode_reg_shift']),
    ('arm_expand_imm_c', 'shift', g_imm12c, 'exp_arm_expand_imm_c', None, 'res', ['C17_arm_expand_imm_c']),
    ('thumb_expand_imm_c', 'shift', g_imm12c, 'exp_thumb_expand_imm_c', None, 'res', ['C17_thumb_expand_imm_c']),
    # helpers that are covered by correspondence + spec comparison only (no theorem yet)
    ('lsl', 'shift', g_shiftc, 'exp_lsl', None, 'res', []),
    ('lsr', 'shift', g_shiftc, 'exp_lsr', None, 'res', []),
    ('asr', 'shift', g_shiftc, 'exp_asr', None, 'res', []),
    ('ror', 'shift', g_shiftc, 'exp_ror', None, 'res', []),
    ('arm_expand_imm', 'shift', g_imm12, 'exp_arm_expand_imm', None, 'res', []),
    ('thumb_expand_imm', 'shift', g_imm12, 'exp_thumb_expand_imm', None, 'res', []),
]

PROOF_FILES = {'bits_ops': ['Proofs/BitLemmas.v', 'Proofs/BitsOps.v', 'Proofs/BitsOps2.v'],
               'shift': ['Proofs/BitLemmas.v', 'Proofs/BitsOps.v', 'Proofs/ShiftOps.v']}


ENUM_ARGS = {'shift_c': {2: ('shift', 'SRType')}}


def index():
    p = os.path.join(C.GEN, 'INDEX.json')
    return json.load(open(p)) if os.path.exists(p) else {'functions': {}}


def helper_units():
    units = []
    for (fn, mod, gen, specfn, argmap, skind, thms) in ROWS:
        def cases(rng, tier, fn=fn, mod=mod, gen=gen, specfn=specfn, skind=skind):
            idx = index()['functions'].get(f'{mod}.{fn}')
            out = []
            seen = set()
            for args in gen(rng, tier):
                if args in seen:
                    continue
                seen.add(args)
                a = ' '.join(C.zc(x) for x in args)
                model = None
                rt = ['Z']
                if idx and idx.get('ok'):
                    rt = idx['rt']
                    # callee may have default parameters not passed by the generator
                    np = len(idx['params'])
                    margs = a
                    if np != len(args):
                        model = None
                    else:
                        e = enc_of(rt)
                        model = f'(enc_pure {e} ({mod}.{fn} {margs}))' if idx['level'] == 0 else \
                            f'(enc_res {e} ({mod}.{fn} {margs}))'
                e = enc_of(rt)
                spec = f'(enc_pure {e} ({specfn} {a}))' if skind == 'pure' else f'(enc_res {e} ({specfn} {a}))'
                iargs = list(args)
                for pos, (em, ec) in ENUM_ARGS.get(fn, {}).items():
                    iargs[pos] = ['enum', em, ec, iargs[pos]]
                out.append({'impl': {'kind': 'call', 'mod': mod, 'fn': fn, 'args': iargs, 'rt': rt},
                            'model': model, 'spec': spec, 'label': fn, 'nontrivial': True})
            return out
        extra = {'is_ones': ['Proofs/IsOnes.v'], 'lowest_set_bit_ref': ['Proofs/LowestSweep2.v', 'Proofs/LowestSweep.v']}.get(fn, [])
        units.append(Unit(fn, thms, PROOF_FILES[mod] + extra, [f'{mod}.{fn}'], cases, IMPORTS, SPEC_IMPORTS))
    return units


def field_units():
    import sys
    sys.path.insert(0, os.path.join(C.VERIF, 'tools', 'spec'))
    import mkfields
    units = []
    imports = 'From ArmV Require Import Spec.Pseudocode.\nFrom Gen Require Import enums bits_ops shift regviews.'
    simports = 'From ArmV Require Import Spec.Pseudocode.'
    subclasses = {'RACR': ['DRACR', 'IRACR'], 'RSR': ['DRSR', 'IRSR']}
    for cls in sorted(set(mkfields.ARCH) | {f[0] for f in mkfields.FAMILIES}):
        fams = [f for f in mkfields.FAMILIES if f[0] == cls]

        def cases(rng, tier, cls=cls, fams=fams):
            out = []
            vals = [0, 0xFFFFFFFF, 0xAAAAAAAA, 0x55555555, 0x12345678] + [rng.getrandbits(32) for _ in range(3 if tier == 'quick' else 40)]
            for (f, hi, lo) in mkfields.ARCH.get(cls, []):
                w = hi - lo + 1
                xs = sorted({0, (1 << w) - 1, rng.getrandbits(w)})
                for icls in [cls] + subclasses.get(cls, []):
                    for v in vals:
                        for x in xs:
                            e = '(enc_pair enc_Z enc_Z)'
                            out.append({'impl': {'kind': 'regfield', 'cls': icls, 'field': f, 'v': v, 'x': x},
                                        'model': f'(enc_pure {e} ({cls}_get_{f} {v}, {cls}_set_{f} {v} {x}))' if icls == cls else None,
                                        'spec': f'(enc_pure {e} (bits {v} {hi} {lo}, insert {v} {hi} {lo} {x}))',
                                        'label': f'{cls}', 'nontrivial': True})
            for (_, g, s_, hi, lo, nmax) in fams:
                for n in range(nmax):
                    for v in vals[:4]:
                        h = eval(hi, {'n': n}); l = eval(lo, {'n': n})
                        x = rng.getrandbits(h - l + 1)
                        e = '(enc_pair enc_Z enc_Z)'
                        out.append({'impl': {'kind': 'regfield', 'cls': cls, 'field': g, 'v': v, 'x': x, 'family': [g, s_, n]},
                                    'model': None,
                                    'spec': f'(enc_pure {e} (bits {v} {h} {l}, insert {v} {h} {l} {x}))',
                                    'label': f'{cls}', 'nontrivial': True})
            return out
        thms = ([f'C17_fields_{cls}'] if cls in mkfields.ARCH else []) + [f'C17_family_{cls}_{f[1]}' for f in fams]
        if cls == 'VBAR':
            thms += ['C17_VBAR_base']
        if cls == 'CPSR':
            thms += ['C17_CPSR_it', 'C17_CPSR_isetstate', 'C17_CPSR_apsr']
        if cls == 'DFSR':
            thms += ['C17_DFSR_fs']
        needs = []
        units.append(Unit('fields_' + cls, thms, ['Proofs/FieldsProofs.v'], needs, cases, imports, simports))
    return units


def units():
    return helper_units() + field_units()


PROPS_FILES = ['C17', 'C17_fields', 'C17more']
