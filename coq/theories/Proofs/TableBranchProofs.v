(* Proofs/TableBranchProofs.v — TBB / TBH proved equal to Spec/TableBranch.v with MemU as the accessor. *)
From Coq Require Import ZArith List Bool Lia ZifyBool.
From ArmV Require Import Lib.PyZ Lib.Monad Lib.Machine Spec.Pseudocode Spec.Expected Spec.Arch Spec.DPSem
  Proofs.BitLemmas Proofs.SpecFacts Proofs.BitsOps Proofs.BitsOps2 Proofs.ShiftOps Proofs.FieldsProofs Proofs.StateLemmas
  Proofs.CondProofs Proofs.GuardProofs Proofs.BankProofs Proofs.MachineOps Proofs.DPLemmas Proofs.DPTactics Proofs.BranchProofs
  Spec.MachineView Spec.BlockTransfer Spec.TableBranch Proofs.LSProofs.
From Gen Require Import enums bits_ops shift regviews records hubm opsyn core exec.
Import ListNotations.
Open Scope Z_scope.
(* a sentence that runs this long no longer matches the code it was written for: fail instead of searching *)
Set Default Timeout 240.
Ltac Zify.zify_post_hook ::= Z.to_euclidean_division_equations.

Lemma lsl1_code x : word x -> lsl x 32 1 = Val ((x * 2) mod 2 ^ 32).
Proof.
  intros W. unfold lsl. replace (1 =? 0) with false by reflexivity. cbn [ebind]. rewrite lsl_c_spec by (try lia; exact W).
  unfold LSL_C. cbn [fst ebind]. change (2 ^ 1) with 2. reflexivity.
Qed.

Theorem TbbTbh_ok cfg instr is_tbh m n s : ictx cfg s -> cond_holds s -> iset_of s <> 3 -> 0 <= m <= 15 -> 0 <= n <= 15 ->
  rd_ok cfg (ArmV6_mem_u_get cfg) s 1 -> rd_ok cfg (ArmV6_mem_u_get cfg) s 2 ->
  TbbTbh_execute cfg instr is_tbh m n s = TBB_TBH (ArmV6_mem_u_get cfg) (cfg_jazelle_accepts_execution cfg) s is_tbh m n.
Proof.
  intros H Hc Hi Hm Hn Hr1 Hr2. unfold TbbTbh_execute, TBB_TBH. rewrite guard_pass by exact Hc. rewrite bind_ret_tt. cbv zeta.
  rewrite try_null_check by exact Hi.
  assert (Wm : word (rget s m)) by (apply (word_rget cfg); [exact H|lia]).
  unfold truthy. destruct (is_tbh =? 0); cbn [negb].
  - rewrite !bind_assoc_run, (b_get cfg) by (try exact H; lia). rewrite !bind_assoc_run, (b_get cfg) by (try exact H; lia).
    rewrite add_spec. fold (add32 (rget s n) (rget s m)). rewrite !bind_assoc_run, run_bind.
    destruct (ArmV6_mem_u_get cfg (add32 (rget s n) (rget s m)) 1 s) as [h s1|e s1] eqn:E; [|reflexivity].
    destruct (Hr1 _ _ _ E) as [H1 Rh]. cbn beta iota. rewrite !bind_ret_run. cbv beta zeta.
    rewrite (b_get_pc cfg) by exact H1. rewrite add_spec. fold (add32 (rget s1 15) (2 * h)).
    rewrite !bind_ret_tt, branch_write_pc_spec; [reflexivity|apply H1|apply H1|apply word_add32].
  - rewrite !bind_assoc_run, (b_get cfg) by (try exact H; lia). rewrite !bind_assoc_run, (b_get cfg) by (try exact H; lia).
    rewrite !bind_assoc_run. rewrite (lsl1_code _ Wm). unfold lift at 1. rewrite bind_ret_run. cbv beta.
    rewrite add_spec. fold (add32 (rget s n) ((rget s m * 2) mod 2 ^ 32)). rewrite !bind_assoc_run, run_bind.
    destruct (ArmV6_mem_u_get cfg (add32 (rget s n) ((rget s m * 2) mod 2 ^ 32)) 2 s) as [h s1|e s1] eqn:E; [|reflexivity].
    destruct (Hr2 _ _ _ E) as [H1 Rh]. cbn beta iota. rewrite !bind_ret_run. cbv beta zeta.
    rewrite (b_get_pc cfg) by exact H1. rewrite add_spec. fold (add32 (rget s1 15) (2 * h)).
    rewrite !bind_ret_tt, branch_write_pc_spec; [reflexivity|apply H1|apply H1|apply word_add32].
Qed.
