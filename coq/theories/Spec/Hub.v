(* Spec/Hub.v — the physical memory map as a mathematical object: a list of devices, each an
   address range and an array of bytes; first match wins; bytes outside a device do not exist.
   Hand-written; independent of the translated code (shares only the `device` record). *)
From Coq Require Import ZArith List Bool Lia.
From ArmV Require Import Lib.PyZ Lib.Machine.
Import ListNotations.
Open Scope Z_scope.

Definition covers (d : device) (a : Z) : bool := (dev_beg d <=? a) && (a <? dev_end d).
Fixpoint find_dev (h : hub) (a : Z) : option nat :=
  match h with
  | [] => None
  | d :: t => if covers d a then Some O else option_map S (find_dev t a)
  end.

(* byte k of a device; a byte the device does not have reads as zero *)
Definition byte_at (bs : list Z) (k : Z) : Z := if k <? 0 then 0 else nth (Z.to_nat k) bs 0.
(* little-endian value of `size` bytes starting at offset off *)
Fixpoint read_le (bs : list Z) (off : Z) (size : nat) : Z :=
  match size with O => 0 | S n => byte_at bs off + 256 * read_le bs (off + 1) n end.
(* the bytes after writing the `size` low bytes of v at off; bytes outside the device are dropped *)
Fixpoint write_le_from (bs : list Z) (k off size v : Z) : list Z :=
  match bs with
  | [] => []
  | b :: t => (if (off <=? k) && (k <? off + size) then (v / 256 ^ (k - off)) mod 256 else b)
              :: write_le_from t (k + 1) off size v
  end.
Definition write_le (bs : list Z) (off size v : Z) : list Z := write_le_from bs 0 off size v.

Definition hub_read (h : hub) (pa size : Z) : Z :=
  match find_dev h pa with
  | Some i => let d := nth i h (mk_device 0 0 []) in read_le (dev_bytes d) (pa - dev_beg d) (Z.to_nat size)
  | None => 0
  end.
Definition hub_write (h : hub) (pa size v : Z) : hub :=
  match find_dev h pa with
  | Some i => let d := nth i h (mk_device 0 0 []) in
              upd h i (mk_device (dev_beg d) (dev_end d) (write_le (dev_bytes d) (pa - dev_beg d) size v))
  | None => h
  end.

Definition valid_size (size : Z) : bool := (size =? 1) || (size =? 2) || (size =? 4) || (size =? 8).

(* operations of a history *)
Inductive hub_op : Type := HRead (pa size : Z) | HWrite (pa size v : Z).
Definition hub_step (h : hub) (o : hub_op) : hub :=
  match o with HRead _ _ => h | HWrite pa size v => hub_write h pa size v end.

(* ---- facts about the spec itself ---- *)
Lemma write_le_from_length bs k off size v : length (write_le_from bs k off size v) = length bs.
Proof. revert k; induction bs as [|b t IH]; intros k; cbn [write_le_from length]; [reflexivity|]. rewrite IH. reflexivity. Qed.
Lemma write_le_length bs off size v : length (write_le bs off size v) = length bs.
Proof. apply write_le_from_length. Qed.
Lemma hub_write_length h pa size v : length (hub_write h pa size v) = length h.
Proof.
  unfold hub_write. destruct (find_dev h pa); [|reflexivity].
  generalize (mk_device (dev_beg (nth n h (mk_device 0 0 []))) (dev_end (nth n h (mk_device 0 0 [])))
    (write_le (dev_bytes (nth n h (mk_device 0 0 []))) (pa - dev_beg (nth n h (mk_device 0 0 []))) size v)).
  intro d. revert n. induction h as [|x t IH]; intros [|n]; cbn [upd length]; auto.
Qed.
