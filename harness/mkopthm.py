"""Development tool (not run by any check): renders the operand tables of optable.py as Coq theorem statements about the
regenerated from_bitarray functions.

  mkopthm.py proto <gen-dir> <out-dir>      one file per encoding (proof = the generic tactic) to find out which go through
  mkopthm.py emit  <gen-dir> <theories-dir> the committed files: Proofs/Ops{A,T}<k>.v (lemmas + proofs) and
                                            Props/C06ops<k>.v / C07ops<k>.v (statements closed by `exact`)

The statements are derived from the hand-written table (encoding diagrams), the field order of the abstract class and
nothing else; proofs that need more than the generic tactic are in opproofs.py."""
import json
import os
import re
import sys

sys.path.insert(0, os.path.dirname(os.path.abspath(__file__)))
import optable      # noqa: E402
import opproofs     # noqa: E402

HEADER = '''From Coq Require Import ZArith List Bool Lia ZifyBool.
From ArmV Require Import Lib.PyZ Lib.Monad Lib.Machine Spec.Pseudocode Spec.Arch Spec.MachineView Spec.OperandSpec.
From Gen Require Import enums bits_ops shift regviews records hubm opsyn core exec conc.
Import ListNotations.
Open Scope Z_scope.
'''
PROOF_HEADER = '''Set Default Timeout 240.
From Coq Require Import ZArith List Bool Lia ZifyBool.
From ArmV Require Import Lib.PyZ Lib.Monad Lib.Machine Spec.Pseudocode Spec.Arch Spec.MachineView Spec.OperandSpec Proofs.OpTac.
From Gen Require Import enums bits_ops shift regviews records hubm opsyn core exec conc.
Import ListNotations.
Open Scope Z_scope.
Ltac Zify.zify_post_hook ::= Z.to_euclidean_division_equations.
'''

IMM12T = optable.IMM12T
IMM5T = optable.IMM5T


def field(expr, ent):
    m = re.fullmatch(r'b(\d+)', expr)
    if m:
        return f'bit w {m.group(1)}'
    m = re.fullmatch(r'f(\d+)_(\d+)', expr)
    if m:
        return f'bits w {m.group(1)} {m.group(2)}'
    if re.fullmatch(r'\d+', expr):
        return expr
    fixed = {
        'armimm': 'ARMExpandImm (bits w 11 0)',
        'armimm_c': 'snd (ARMExpandImm_C (bits w 11 0) (cflag s))',
        'timm': 'ThumbExpandImm (imm12t w)',
        'timm_c': 'snd (ThumbExpandImm_C (imm12t w) (cflag s))',
        'shA_t': 'fst (DecodeImmShift (bits w 6 5) (bits w 11 7))', 'shA_n': 'snd (DecodeImmShift (bits w 6 5) (bits w 11 7))',
        'shT_t': 'fst (DecodeImmShift (bits w 5 4) (imm5t w))', 'shT_n': 'snd (DecodeImmShift (bits w 5 4) (imm5t w))',
        'rsr_t': 'DecodeRegShift (bits w 6 5)', 'notit': 'not_in_it s', 'cflag': 'cflag s',
    }
    e = fixed.get(expr)
    if e is None:
        e = expr.replace(IMM12T, '(imm12t W)').replace(IMM5T, '(imm5t W)')
        e = re.sub(r'\bW\b', 'w', e)
        if e.startswith('(') and e.endswith(')'):
            e = e[1:-1] if e.count('(') == e.count(')') and balanced(e[1:-1]) else e
    return e


def balanced(s):
    d = 0
    for ch in s:
        d += ch == '('
        d -= ch == ')'
        if d < 0:
            return False
    return d == 0


def statement(cls, idx, sigs):
    ent = optable.TABLE[cls]
    t = idx['tables']
    abstract = t['concrete_classes'][cls]['abstract']
    oc = t['opcode_classes'][abstract]
    names = oc['fields'][1:]
    width = ent['_w']
    hyps = [f'0 <= w < 2 ^ {width}']
    if ent['_regs']:
        hyps.append('regs13 [' + '; '.join(f'bits w {h} {l}' for h, l in ent['_regs']) + '] = true')
    for z in ent.get('_zero', []):
        hyps.append(f'bit w {z} = 0')
    for z in ent.get('_one', []):
        hyps.append(f'bit w {z} = 1')
    if ent.get('_pre'):
        hyps.append(f'pre_{ent["_pre"]} w = true')
    if ent.get('_noit'):
        hyps.append('in_it s = false')
    hyps += opproofs.EXTRA_HYPS.get(cls, [])
    fields = '; '.join(['w'] + [field(ent[f], ent) for f in names])
    uses_cfg = sigs[cls]
    call = f'{cls}_from_bitarray {"cfg " if uses_cfg else ""}w'
    binder = '(cfg : config) ' if uses_cfg else ''
    body = ' ->\n  '.join(hyps) + f' ->\n  fb_out ({call}) s = Ok (Some (code_{abstract}, [{fields}])) s'
    return binder, body


def load(gen):
    idx = json.load(open(os.path.join(gen, 'INDEX.json')))
    src = open(os.path.join(gen, 'conc.v')).read()
    sigs = {}
    for m in re.finditer(r'Definition (\w+)_from_bitarray (\(cfg : config\) )?\(v_instr : Z\)', src):
        sigs[m.group(1)] = bool(m.group(2))
    return idx, sigs


def lemma_text(cls, idx, sigs, kind='Lemma', name=None):
    binder, body = statement(cls, idx, sigs)
    return f'{kind} {name or "ops_" + cls} {binder}w s :\n  {body}.'


def proof_text(cls, sigs):
    custom = opproofs.PROOFS.get(cls)
    if custom:
        return 'Proof.\n' + custom.rstrip() + '\nQed.'
    return f'Proof. ops_tac {cls}_from_bitarray. Qed.'


def classes(arm):
    return [c for c in sorted(optable.TABLE) if (c[-2] == 'A') == arm and c not in opproofs.SKIP]


def main():
    mode, gen, out = sys.argv[1:4]
    idx, sigs = load(gen)
    if mode == 'proto':
        os.makedirs(out, exist_ok=True)
        for arm in (True, False):
            for cls in classes(arm):
                with open(os.path.join(out, f'P_{cls}.v'), 'w') as f:
                    f.write(PROOF_HEADER + '\n' + lemma_text(cls, idx, sigs) + '\n' + proof_text(cls, sigs) + '\n')
        return
    nshard = 8
    emit_total(idx, sigs, out, nshard)
    for arm, prop, tag in ((True, 'C06', 'A'), (False, 'C07', 'T')):
        cl = classes(arm)
        shards = [cl[i::nshard] for i in range(nshard)]
        for k, sh in enumerate(shards):
            with open(os.path.join(out, 'Proofs', f'Ops{tag}{k}.v'), 'w') as f:
                f.write(f'(* Proofs/Ops{tag}{k}.v — GENERATED by harness/mkopthm.py from harness/optable.py; operand extraction of the\n'
                        f'   {"ARM" if arm else "Thumb"} encodings, shard {k} of {nshard}. *)\n' + PROOF_HEADER)
                for cls in sh:
                    f.write('\n' + lemma_text(cls, idx, sigs) + '\n' + proof_text(cls, sigs) + '\n')
            with open(os.path.join(out, 'Props', f'{prop}ops{k}.v'), 'w') as f:
                f.write(f'(* Props/{prop}ops{k}.v — {prop}: operand extraction of the {"ARM" if arm else "Thumb"} encodings (shard {k} of {nshard}).\n'
                        '   For every word of the stated domain, from_bitarray returns the class with the fields the encoding diagram\n'
                        '   names, and leaves the state alone.  Statements rendered from harness/optable.py by harness/mkopthm.py. *)\n'
                        + HEADER + f'From ArmV Require Proofs.Ops{tag}{k}.\n')
                for cls in sh:
                    binder, _ = statement(cls, idx, sigs)
                    args = ('cfg ' if binder else '') + 'w s'
                    f.write('\n' + lemma_text(cls, idx, sigs, 'Theorem', f'{prop}_ops_{cls}') + '\n'
                            f'Proof. exact (Ops{tag}{k}.ops_{cls} {args}). Qed.\nPrint Assumptions {prop}_ops_{cls}.\n')


def emit_total(idx, sigs, out, nshard=8):
    """C18: from_bitarray of every concrete encoding class (branches included) is total on every word and state"""
    cl = sorted(sigs)
    for k in range(nshard):
        sh = cl[k::nshard]
        with open(os.path.join(out, 'Proofs', f'FbTotal{k}.v'), 'w') as f:
            f.write(f'(* Proofs/FbTotal{k}.v — GENERATED by harness/mkopthm.py; from_bitarray never ends in a host error, shard {k} of {nshard}. *)\n'
                    + PROOF_HEADER)
            for cls in sh:
                b = '(cfg : config) ' if sigs[cls] else ''
                a = 'cfg ' if sigs[cls] else ''
                f.write(f'\nLemma safe_{cls} {b}w s : fb_safe (fb_out ({cls}_from_bitarray {a}w) s) s.\n'
                        f'Proof. safe_tac {cls}_from_bitarray. Qed.\n')
        with open(os.path.join(out, 'Props', f'C18fb{k}.v'), 'w') as f:
            f.write(f'(* Props/C18fb{k}.v — C18: operand extraction is total (shard {k} of {nshard}).  For EVERY integer w and every machine state,\n'
                    '   from_bitarray of the encoding class returns an operand record or None (UNPREDICTABLE), or raises the Undefined\n'
                    '   Instruction exception — never a host error — and leaves the state untouched.  One theorem per concrete class. *)\n'
                    + HEADER + f'From ArmV Require Proofs.FbTotal{k}.\n')
            for cls in sh:
                b = '(cfg : config) ' if sigs[cls] else ''
                a = 'cfg ' if sigs[cls] else ''
                f.write(f'\nTheorem C18_fb_{cls} {b}w s : fb_safe (fb_out ({cls}_from_bitarray {a}w) s) s.\n'
                        f'Proof. exact (FbTotal{k}.safe_{cls} {a}w s). Qed.\nPrint Assumptions C18_fb_{cls}.\n')


if __name__ == '__main__':
    main()
