"""C03 — block transfers: LDM / STM (increment after) on flat-memory states."""
import copy
import common as C
import statelib
from framework import Unit
from props.c02 import mk_state, set_reg, b

IMPORTS = 'From Gen Require Import enums core exec.'
SPEC_IMPORTS = ('From ArmV Require Import Spec.Pseudocode Spec.Arch Spec.MachineView Spec.BlockTransfer Spec.Hub Spec.Memory.')


def lowest(x):
    if x == 0:
        return 32
    i = 0
    while not (x >> i) & 1:
        i += 1
    return i


def cases(rng, tier):
    t = statelib.load_index(C.GEN)['tables']
    out = []
    per = 60 if tier == 'quick' else 2500
    for cls, module in (('LdmArm', 'ldm_arm'), ('Stm', 'stm')):
        for _ in range(per):
            thumb = rng.random() < 0.3
            cfgd, st, secure = mk_state(rng, t, thumb)
            arch, jaz = cfgd['arch_version'], int(cfgd['jazelle_accepts_execution'])
            n = rng.choice([0, 1, 5, 13, 13, 14])
            regs = rng.choice([rng.getrandbits(16), rng.getrandbits(16) & 0x7FFF, 1 << rng.randrange(16), 0xFFFF, 0x8000 | rng.getrandbits(4), 0])
            if regs == 0:
                regs = 1
            wback = rng.choice([0, 1])
            base = rng.choice([0x1000, 0x1010, 0x10C0, 0x10F0, 0x10FC, 0xFFFFFFF0, 0xFFFFFFF8, 0xFFFFFFFC, 0x1002, 0x2000, 0x0])
            set_reg(st, t, n, base)
            cfg = statelib.coq_config(cfgd, t)
            m = statelib.coq_machine(st)
            rd = f'(fun a sz s => MemA_get_flat {arch} s a sz)'
            wr = f'(fun a sz v s => MemA_set_flat {arch} s a sz v)'
            model = f'(enc_out enc_machine enc_unit ({cls}_execute {cfg} 0 {wback} {regs} {n} {m}))'
            if cls == 'LdmArm':
                spec = f'(LDM {rd} {arch} {jaz} {m} {wback} {regs} {n})'
            else:
                spec = f'(STM {wr} {m} {wback} {regs} {n} {lowest(regs)})'
            out.append({'impl': {'kind': 'exec', 'state': st, 'module': module, 'cls': cls, 'fields': [0, wback, regs, n]},
                        'model': model, 'spec': f'(enc_out enc_machine enc_unit {spec})', 'label': cls, 'nontrivial': True})
    return out


def units():
    thms = ['C03_LDM', 'C03_STM', 'C03_lowest_total', 'C03_flat_ictx', 'C03_flat_rset', 'C03_flat_rd', 'C03_flat_wr']
    needs = ['opcodes.abstract_opcodes.ldm_arm.LdmArm.execute', 'opcodes.abstract_opcodes.stm.Stm.execute']
    return [Unit('block', thms, ['Proofs/BlockProofs.v', 'Proofs/MemProofs.v', 'Proofs/LSProofs.v'], needs, cases, IMPORTS, SPEC_IMPORTS)]
